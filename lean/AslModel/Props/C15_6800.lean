import AslModel.Lemmas.Dis6800
import AslModel.Model.Dis.RT6800
import AslModel.Props.C15
/-! C15 for the 6800/6802 (deco68.c ↔ code68.c).

Models: `Model/Dis/M6800.lean` = `Disassemble_68`/`MakeSymbolic`/`RetrieveData` of deco68.c over the regenerated `OpcodeList[256]`;
`Model/Dis/A6800.lean` = the 6800 part of code68.c (statement splitting, `InstTable` from the regenerated `InitFields` call list,
`DecodeAdr` with the direct/extended selection, the decoders) on the text dasl prints; `Model/Dis/RT6800.lean` = `knownBad`
(the four input classes the round-trip theorem excludes) and `defectsPresent` (the table facts behind three of them). -/
namespace AslModel.Dis
open AslModel.Generated

open M6800 A6800 in
/-- Round trip of one instruction, on the printed text: for every address `a`, opcode `op` and operand bytes `data` that
`Disassemble_68` decodes (inverse symbol table `syms` before, `syms'` after), the statement it prints into `SrcLine` is assembled
by code68.c at program counter `a` to exactly `op :: data` – provided the instruction ends inside the 64K address space, every
name of the inverse symbol table is a plain label that the assembler's symbol table maps back to its address (dasl defines the
labels it invents by the `lab_XXXX:` framing lines), and the input is none of the four known bad classes. -/
theorem C15_6800_roundtrip (lower : Bool) (syms syms' : Syms) (env : A6800.Env) (a op : Nat) (data : List Nat) (dec : M6800.Dec)
    (hop : op < 256) (hdata : ∀ d ∈ data, d < 256)
    (h : M6800.decode lower syms a op data = some (dec, syms'))
    (ha : a + dec.len ≤ 0x10000)
    (hsym : ∀ x n, syms'.lookup x = some n → A6800.plainLabel n.toList = true ∧ env n.toList = some x)
    (hbad : M6800.knownBad op data = false) :
    A6800.assemble env a dec.text = some (op :: data) := by
  have ht := table_ok op hop
  unfold tableOK at ht
  unfold M6800.knownBad at hbad
  unfold M6800.decode at h
  generalize hr : M6800.row op = r at *
  simp only [Bool.and_eq_true, List.all_eq_true, Bool.not_eq_true'] at ht
  obtain ⟨hmemo, ht⟩ := ht
  by_cases hlen : data.length = operandBytes r
  case neg => simp [hlen] at h
  simp only [hlen, ne_eq, not_true_eq_false, ↓reduceIte] at h
  cases hty : r.typ <;> simp only [hty] at h ht hbad
  case eUnknown => cases h
  case eImplicit =>
    simp only [Option.some.injEq, Prod.mk.injEq] at h
    obtain ⟨rfl, rfl⟩ := h
    simp only [Dec.text]
    simp only [operandBytes, hty] at hlen
    have hd : data = [] := List.eq_nil_of_length_eq_zero hlen
    subst hd
    simp only [instrLen, operandBytes, hty] at ha
    simp only [Bool.or_eq_false_iff, beq_eq_false_iff_ne] at hbad
    cases hl : lookup r.memo with
    | none => simp [hl, hbad.1.1.1, hbad.1.1.2] at ht
    | some hd =>
      cases hd <;> simp [hl, hbad.1.1.1, hbad.1.1.2] at ht
      case fixed c mn mx =>
        obtain ⟨⟨rfl, h1⟩, h2⟩ := ht
        exact assemble_plain env a r.memo _ _ hmemo hl (encode_fixed a c mn mx r.memo h1 h2 hop) (by simp; omega)
      case sing8acc c =>
        exact assemble_plain env a r.memo _ _ hmemo hl (by rw [encode_sing8acc, ht]) (by simp; omega)
  case eDirect =>
    simp only [Option.some.injEq, Prod.mk.injEq] at h
    obtain ⟨rfl, rfl⟩ := h
    simp only [Dec.text]
    simp only [operandBytes, hty] at hlen
    obtain ⟨d0, rfl⟩ := List.length_eq_one_iff.mp hlen
    have hd0 : d0 < 256 := hdata d0 (by simp)
    have hoa : opAddr r a [d0] = d0 := by simp [opAddr, hty]
    simp only [instrLen, operandBytes, hty] at ha
    rw [hoa] at hsym ⊢
    have g := makeSymbolic_good env lower syms d0 1 none (by omega) hsym
    generalize (makeSymbolic lower syms d0 1 none).fst.toList = atom at g ⊢
    simp only [List.nil_append, Bool.false_eq_true, if_false, List.append_nil]
    cases hl : lookup r.memo with
    | none => simp [hl] at ht
    | some hd =>
      cases hd <;> simp [hl] at ht
      case alu8 w =>
        exact asm_one g a r.memo _ _ hmemo hl (by rw [encode_alu8_dir g a w r.memo hd0 ht.1, ht.2]) (by simp; omega)
      case alu16 mi mn sh c =>
        obtain ⟨⟨⟨h1, h2⟩, h3⟩, h4⟩ := ht
        exact asm_one g a r.memo _ _ hmemo hl (by rw [encode_alu16_dir g a mn sh c mi r.memo hd0 h1 h2 h3, h4]) (by simp; omega)
  case eIndexed =>
    simp only [Option.some.injEq, Prod.mk.injEq] at h
    obtain ⟨rfl, rfl⟩ := h
    simp only [Dec.text]
    simp only [operandBytes, hty] at hlen
    obtain ⟨d0, rfl⟩ := List.length_eq_one_iff.mp hlen
    have hd0 : d0 < 256 := hdata d0 (by simp)
    have hoa : opAddr r a [d0] = d0 := by simp [opAddr, hty]
    simp only [instrLen, operandBytes, hty] at ha
    rw [hoa] at hsym ⊢
    have g := makeSymbolic_good env lower syms d0 1 none (by omega) hsym
    generalize (makeSymbolic lower syms d0 1 none).fst.toList = atom at g ⊢
    simp only [List.nil_append, if_true]
    cases hl : lookup r.memo with
    | none => simp [hl] at ht
    | some hd =>
      cases hd <;> simp [hl] at ht
      case alu8 w =>
        exact asm_idx g a r.memo _ _ hmemo hl (by rw [encode_alu8_ind g a w r.memo hd0 ht.1, ht.2]) (by simp; omega)
      case alu16 mi mn sh c =>
        obtain ⟨⟨⟨h1, h2⟩, h3⟩, h4⟩ := ht
        exact asm_idx g a r.memo _ _ hmemo hl (by rw [encode_alu16_ind g a mn sh c mi r.memo hd0 h1 h2 h3, h4]) (by simp; omega)
      case sing8 c =>
        exact asm_idx g a r.memo _ _ hmemo hl (by rw [encode_sing8_ind g a c r.memo hd0, ht]) (by simp; omega)
      case jmp =>
        exact asm_idx g a r.memo _ _ hmemo hl (by rw [encode_jmp_ind g a r.memo hd0, ht]) (by simp; omega)
      case jsr =>
        exact asm_idx g a r.memo _ _ hmemo hl (by rw [encode_jsr_ind g a r.memo hd0, ht]) (by simp; omega)
  case eExtended =>
    simp only [Option.some.injEq, Prod.mk.injEq] at h
    obtain ⟨rfl, rfl⟩ := h
    simp only [Dec.text]
    simp only [operandBytes, hty] at hlen
    obtain ⟨d0, d1, rfl⟩ := length_two _ hlen
    have hd0 : d0 < 256 := hdata d0 (by simp)
    have hd1 : d1 < 256 := hdata d1 (by simp)
    have hoa : opAddr r a [d0, d1] = d0 * 256 + d1 := by simp [opAddr, hty]
    have hq : (d0 * 256 + d1) / 256 = d0 := by omega
    have hm : (d0 * 256 + d1) % 256 = d1 := by omega
    simp only [instrLen, operandBytes, hty] at ha
    rw [hoa] at hsym ⊢
    have g := makeSymbolic_good env lower syms (d0 * 256 + d1) 2 _ (by omega) hsym
    generalize (makeSymbolic lower syms (d0 * 256 + d1) 2 _).fst.toList = atom at g ⊢
    simp only [List.nil_append, Bool.false_eq_true, if_false, List.append_nil]
    simp only [BEq.rfl, Bool.true_and, List.head?_cons, Bool.or_eq_false_iff, beq_eq_false_iff_ne] at hbad
    cases hl : lookup r.memo with
    | none => simp [hl] at ht
    | some hd =>
      cases hd <;> simp [hl] at ht
      case alu8 w =>
        obtain ⟨⟨⟨h1, h2⟩, h3⟩, h4⟩ := ht
        have h256 : 256 ≤ d0 * 256 + d1 := by
          have := hbad.2
          simp [h3, h4] at this
          omega
        exact asm_one g a r.memo _ _ hmemo hl
          (by rw [encode_alu8_ext g a w r.memo (by omega) h256 h1, h2, hq, hm]) (by simp; omega)
      case alu16 mi mn sh c =>
        obtain ⟨⟨⟨⟨⟨h1, h2⟩, h3⟩, h4⟩, h5⟩, h6⟩ := ht
        have h256 : 256 ≤ d0 * 256 + d1 := by
          have := hbad.2
          simp [h5, h6] at this
          omega
        exact asm_one g a r.memo _ _ hmemo hl
          (by rw [encode_alu16_ext g a mn sh c mi r.memo (by omega) h256 h1 h2 h3, h4, hq, hm]) (by simp; omega)
      case sing8 c =>
        exact asm_one g a r.memo _ _ hmemo hl (by rw [encode_sing8_ext g a c r.memo (by omega), ht.1, hq, hm]) (by simp; omega)
      case jmp =>
        exact asm_one g a r.memo _ _ hmemo hl (by rw [encode_jmp_ext g a r.memo (by omega), ht.1, hq, hm]) (by simp; omega)
      case jsr =>
        exact asm_one g a r.memo _ _ hmemo hl (by rw [encode_jsr_ext g a r.memo (by omega), ht.1, hq, hm]) (by simp; omega)
  case eImmediate =>
    simp only [Option.some.injEq, Prod.mk.injEq] at h
    obtain ⟨rfl, rfl⟩ := h
    simp only [Dec.text]
    simp only [operandBytes, hty] at hlen
    simp only [instrLen, operandBytes, hty] at ha
    simp only [Bool.or_eq_false_iff, beq_eq_false_iff_ne] at hbad
    cases hl : lookup r.memo with
    | none => simp [hl, hbad.1.2] at ht
    | some hd =>
      cases hd <;> simp [hl, hbad.1.2] at ht
      case alu8 w =>
        obtain ⟨⟨⟨h1, h2⟩, h3⟩, h4⟩ := ht
        rw [h4] at hlen ha hsym ⊢
        obtain ⟨d0, rfl⟩ := List.length_eq_one_iff.mp hlen
        have hd0 : d0 < 256 := hdata d0 (by simp)
        have hoa : opAddr r a [d0] = d0 := by simp [opAddr, hty, h4]
        rw [hoa] at hsym ⊢
        have g := makeSymbolic_good env lower syms d0 (0 + 1) none (by omega) hsym
        generalize (makeSymbolic lower syms d0 (0 + 1) none).fst.toList = atom at g ⊢
        simp only [List.cons_append, List.nil_append, Bool.false_eq_true, if_false, List.append_nil]
        exact asm_imm g a r.memo _ _ hmemo hl (by rw [encode_alu8_imm g a w r.memo hd0 h1 h2, h3]) (by simp; omega)
      case alu16 mi mn sh c =>
        obtain ⟨⟨⟨⟨⟨rfl, h1⟩, h2⟩, h3⟩, h4⟩, h5⟩ := ht
        rw [h5] at hlen ha hsym ⊢
        obtain ⟨d0, d1, rfl⟩ := length_two _ hlen
        have hd0 : d0 < 256 := hdata d0 (by simp)
        have hd1 : d1 < 256 := hdata d1 (by simp)
        have hoa : opAddr r a [d0, d1] = d0 * 256 + d1 := by simp [opAddr, hty, h5]
        have hq : (d0 * 256 + d1) / 256 = d0 := by omega
        have hm : (d0 * 256 + d1) % 256 = d1 := by omega
        rw [hoa] at hsym ⊢
        have g := makeSymbolic_good env lower syms (d0 * 256 + d1) (1 + 1) none (by omega) hsym
        generalize (makeSymbolic lower syms (d0 * 256 + d1) (1 + 1) none).fst.toList = atom at g ⊢
        simp only [List.cons_append, List.nil_append, Bool.false_eq_true, if_false, List.append_nil]
        exact asm_imm g a r.memo _ _ hmemo hl
          (by rw [encode_alu16_imm g a mn sh c r.memo (by omega) h1 h2 h3, h4, hq, hm]) (by simp; omega)
  case eRelative =>
    simp only [Option.some.injEq, Prod.mk.injEq] at h
    obtain ⟨rfl, rfl⟩ := h
    simp only [Dec.text]
    simp only [operandBytes, hty] at hlen
    obtain ⟨d0, rfl⟩ := List.length_eq_one_iff.mp hlen
    have hd0 : d0 < 256 := hdata d0 (by simp)
    have hoa : opAddr r a [d0] = (a + 2 + d0 + (if d0 ≥ 128 then 65536 - 256 else 0)) % 65536 := by simp [opAddr, hty]
    simp only [instrLen, operandBytes, hty] at ha
    have g := makeSymbolic_good env lower syms (opAddr r a [d0]) 2 _ (by rw [hoa]; omega) hsym
    generalize (makeSymbolic lower syms (opAddr r a [d0]) 2 _).fst.toList = atom at g ⊢
    simp only [List.nil_append, Bool.false_eq_true, if_false, List.append_nil]
    cases hl : lookup r.memo with
    | none => simp [hl] at ht
    | some hd =>
      cases hd <;> simp [hl] at ht
      case rel c mn =>
        exact asm_one g a r.memo _ _ hmemo hl (by rw [encode_rel g a c mn d0 r.memo ht.2 hd0 hoa, ht.1]) (by simp; omega)

/-- non-vacuity: `ldaa $1234` (B6 12 34) at $1000 – no symbols involved -/
example : (M6800.decode false {} 0x1000 0xb6 [0x12, 0x34]).map (fun p => (p.1.text, p.1.len)) = some ("ldaa\t$1234".toList, 3) ∧
    M6800.knownBad 0xb6 [0x12, 0x34] = false ∧
    A6800.assemble (fun _ => none) 0x1000 "ldaa\t$1234".toList = some [0xb6, 0x12, 0x34] := by decide +kernel

/-- non-vacuity with a label: `bra lab_1004` (20 02) at $1000; the hypotheses of `C15_6800_roundtrip` hold for the symbol table
that maps the invented name back to $1004 -/
example : ∃ dec syms', M6800.decode false {} 0x1000 0x20 [0x02] = some (dec, syms') ∧ 0x1000 + dec.len ≤ 0x10000 ∧
    (∀ x n, syms'.lookup x = some n → A6800.plainLabel n.toList = true ∧
      (fun s => if s = "lab_1004".toList then some 0x1004 else none) n.toList = some x) ∧
    M6800.knownBad 0x20 [0x02] = false ∧ dec.text = "bra\tlab_1004".toList := by
  cases h : M6800.decode false {} 0x1000 0x20 [0x02] with
  | none => exact absurd h (by decide +kernel)
  | some p =>
    obtain ⟨dec, syms'⟩ := p
    have hlen : (M6800.decode false {} 0x1000 0x20 [0x02]).map (fun p => p.1.len) = some 2 := by decide +kernel
    have htab : (M6800.decode false {} 0x1000 0x20 [0x02]).map (fun p => p.2.tab) = some [(0x1004, "lab_1004")] := by decide +kernel
    have htext : (M6800.decode false {} 0x1000 0x20 [0x02]).map (fun p => p.1.text) = some "bra\tlab_1004".toList := by decide +kernel
    rw [h] at hlen htab htext
    simp only [Option.map_some, Option.some.injEq] at hlen htab htext
    refine ⟨dec, syms', rfl, by omega, ?_, by decide +kernel, htext⟩
    intro x n hl
    unfold Syms.lookup at hl
    rw [htab] at hl
    by_cases hx : x = 0x1004
    · subst hx
      simp at hl
      subst hl
      exact ⟨by decide +kernel, by simp⟩
    · have : ((0x1004 : Nat) == x) = false := by simp; omega
      simp [List.find?, this] at hl

/-- the hypothesis `a + dec.len ≤ 0x10000` is needed: the same statement two bytes below the end of the address space is an
address overflow for asl -/
example : A6800.assemble (fun _ => none) 0xfffe "ldaa\t$1234".toList = none ∧
    A6800.assemble (fun _ => none) 0xfffd "ldaa\t$1234".toList = some [0xb6, 0x12, 0x34] := by decide +kernel

/-! ### length, successors -/

/-- every row of `OpcodeList` stands for at most three bytes -/
theorem C15_6800_table_len : ∀ op, op < 256 → M6800.instrLen (M6800.row op) ≤ 3 := by decide +kernel

/-- the two generated tables fit together on every opcode (see `A6800.tableOK` for what that says per addressing type) -/
theorem C15_6800_table : ∀ op, op < 256 → A6800.tableOK op = true := A6800.table_ok

open M6800 in
/-- decoded length = number of bytes consumed (opcode + operand bytes) ≤ 3, fixed by the table row; the successor mask and the
operand address are those of the row -/
theorem C15_6800_length (lower : Bool) (syms syms' : Syms) (a op : Nat) (data : List Nat) (dec : M6800.Dec) (hop : op < 256)
    (h : M6800.decode lower syms a op data = some (dec, syms')) :
    dec.len = (op :: data).length ∧ dec.len ≤ 3 ∧ dec.len = instrLen (row op) ∧ dec.next = (row op).next ∧
    dec.opAddr = opAddr (row op) a data := by
  have h3 := C15_6800_table_len op hop
  unfold M6800.decode at h
  generalize row op = r at *
  by_cases hlen : data.length = operandBytes r
  case neg => simp [hlen] at h
  simp only [hlen, ne_eq, not_true_eq_false, ↓reduceIte] at h
  cases hty : r.typ <;> simp only [hty] at h
  case eUnknown => cases h
  all_goals
    simp only [Option.some.injEq, Prod.mk.injEq] at h
    obtain ⟨rfl, _⟩ := h
    exact ⟨by simp only [instrLen, List.length_cons, hlen]; omega, h3, rfl, rfl, rfl⟩

/-- successors: the operand address (bit 1 of the mask) and the fall-through address `(Address + CodeLen) % 0xffff` (bit 0) -/
theorem C15_6800_nexts (mask oa a len : Nat) :
    ∀ n ∈ M6800.nexts mask oa a len, n = oa ∨ n = (a + len) % 0xffff := by
  intro n hn
  unfold M6800.nexts at hn
  rcases List.mem_append.mp hn with h1 | h1
  · split at h1
    · exact Or.inl (List.mem_singleton.mp h1)
    · cases h1
  · split at h1
    · exact Or.inr (List.mem_singleton.mp h1)
    · cases h1

/-- the C code reduces the fall-through address with `% 0xffff` (not `& 0xffff`): the byte at 0xFFFF is never reached by
falling through, an instruction ending at 0xFFFE continues at 0 -/
theorem C15_finding_6800_fallthrough_wrap : (0xfffe + 1) % 0xffff = 0 ∧ (0xfffe + 1 : Nat) ≠ 0 := by decide

/-! ### the reported areas lie inside the image -/

/-- the instruction that starts at `a` is whole: all operand bytes its opcode asks for lie at `a+1…` below 64K inside the image.
(`RetrieveCodeFromChunkList` does not advance `Start` between its rounds and `RetrieveData` continues at address 0 after
0xFFFF, so an instruction cut off by the end of a chunk or by the end of the address space is "completed" from other bytes
and still reported with its full length – see `C15_finding_6800_cut_instruction`.) -/
def M6800.Whole (img : Image) (a : Nat) : Prop :=
  ∀ bs, retrieve img a 1 = some bs →
    ∀ k, k < M6800.operandBytes (M6800.row ((bs.map UInt8.toNat).getD 0 0)) → a + 1 + k < 0x10000 ∧ inImage img (a + 1 + k)

open M6800 in
/-- `Disassemble_68` at `a` reports only bytes of the image when the instruction at `a` is whole -/
theorem C15_6800_honest_at (img : Image) (lower : Bool) (syms : Syms) (a : Nat) (ha : a ≠ 0x10000) (hw : M6800.Whole img a) :
    ∀ x, a ≤ x → x < a + (M6800.disassemble img lower syms a false (-1)).1.len → inImage img x := by
  intro x hx1 hx2
  unfold M6800.disassemble at hx2
  rw [retrieveData_one img lower a ha] at hx2
  cases hr : retrieve img a 1 with
  | none => simp [hr] at hx2; omega
  | some bs =>
    have hin := retrieve_one_inImage img a bs hr
    have hw' := hw bs hr
    simp only [hr, Bool.false_eq_true, if_false] at hx2
    generalize (bs.map UInt8.toNat).getD 0 0 = op at hx2 hw'
    split at hx2
    · -- unknown opcode: one data byte
      have h0 : retrieveData img lower (a + 1) 0 = (some [], []) := by simp [retrieveData, retrieveDataF]
      simp [h0] at hx2
      have : x = a := by omega
      rw [this]; exact hin
    · cases hd : retrieveData img lower (a + 1) (operandBytes (row op)) with
      | mk od e =>
        cases od with
        | none => simp [hd] at hx2; omega
        | some data =>
          simp only [hd] at hx2
          cases hdec : decode lower syms a op data with
          | none => simp [hdec] at hx2; omega
          | some p =>
            obtain ⟨dec, s'⟩ := p
            simp only [hdec] at hx2
            have hl : dec.len = instrLen (row op) := by
              unfold decode at hdec
              by_cases hlen : data.length = operandBytes (row op)
              case neg => simp [hlen] at hdec
              simp only [hlen, ne_eq, not_true_eq_false, ↓reduceIte] at hdec
              cases hty : (row op).typ <;> simp only [hty] at hdec
              case eUnknown => cases hdec
              all_goals
                simp only [Option.some.injEq, Prod.mk.injEq] at hdec
                obtain ⟨rfl, _⟩ := hdec
                rfl
            rw [hl] at hx2
            unfold instrLen at hx2
            by_cases hxa : x = a
            · rw [hxa]; exact hin
            · have := (hw' (x - a - 1) (by omega)).2
              have he : a + 1 + (x - a - 1) = x := by omega
              rw [he] at this; exact this

/-- the `Honest` predicate of the generic trace-loop theorems, for images in which no instruction-shaped byte sequence is cut off
(and nothing can be fetched through the wrap at 0x10000) -/
theorem C15_6800_honest (img : Image) (lower : Bool) (hw : ∀ a, M6800.Whole img a)
    (h00 : retrieve img 0 1 = none) : Honest M6800.disassemble img lower := by
  intro syms a x hx1 hx2
  by_cases ha : a = 0x10000
  · subst ha
    exfalso
    have h1 : M6800.retrieveData img lower 0x10000 1 = (none, ["cannot retrieve instruction arg @ 0x" ++ hexString lower 0 0]) := by
      have hz : retrieve img 0x10000 0 = some [] := rfl
      simp [M6800.retrieveData, M6800.retrieveDataF, hz, h00]
    unfold M6800.disassemble at hx2
    simp [h1] at hx2
    omega
  · exact C15_6800_honest_at img lower syms a ha (hw a) x hx1 hx2

/-- non-vacuity of the hypotheses of `C15_6800_honest`: the image `01 39` (nop, rts) at $1000 -/
example : (∀ a, M6800.Whole [⟨0x1000, [0x01, 0x39]⟩] a) ∧ retrieve [⟨0x1000, [0x01, 0x39]⟩] 0 1 = none := by
  refine ⟨?_, by decide +kernel⟩
  intro a bs hbs k hk
  exfalso
  have ha : a = 0x1000 ∨ a = 0x1001 := by
    have hin := M6800.retrieve_one_inImage _ a bs hbs
    obtain ⟨c, hc, h1, h2⟩ := hin
    simp at hc
    subst hc
    simp at h1 h2
    omega
  rcases ha with rfl | rfl
  · have : retrieve [⟨0x1000, [0x01, 0x39]⟩] 0x1000 1 = some [0x01] := by decide +kernel
    rw [this] at hbs; cases hbs
    have h0 : M6800.operandBytes (M6800.row ((List.map UInt8.toNat [0x01]).getD 0 0)) = 0 := by decide +kernel
    omega
  · have : retrieve [⟨0x1000, [0x01, 0x39]⟩] 0x1001 1 = some [0x39] := by decide +kernel
    rw [this] at hbs; cases hbs
    have h0 : M6800.operandBytes (M6800.row ((List.map UInt8.toNat [0x39]).getD 0 0)) = 0 := by decide +kernel
    omega

/-- for the 6800 the reported code areas lie inside the loaded image if every traced instruction is whole -/
theorem C15_6800_areas_inside (img : Image) (lower : Bool) (fuel : Nat) (s0 : TState) (h0 : s0.code = []) (h1 : s0.traced = [])
    (hw : ∀ e ∈ (traceLoop M6800.disassemble img lower fuel s0).1.traced, e.1 ≠ 0x10000 ∧ M6800.Whole img e.1) :
    ∀ x, area (traceLoop M6800.disassemble img lower fuel s0).1.code x → inImage img x := by
  intro x hx
  have hA := (C15_areas M6800.disassemble img lower fuel s0 h0 h1).2.2 x
  have hF := traceLoop_from M6800.disassemble img lower fuel s0 (by rw [h1]; intro e he; cases he)
  obtain ⟨e, he, hx1, hx2⟩ := hA.mp hx
  obtain ⟨syms, hlen, _⟩ := hF e he
  exact C15_6800_honest_at img lower syms e.1 (hw e he).1 (hw e he).2 x hx1 (by rw [hlen]; exact hx2)

/-! ### the exclusions are real (known findings of C15) -/

open M6800 A6800 in
/-- `$14` is printed as `nba`; code68.c has no such instruction, whatever the context.  Known finding `sweep-6800-14-not-reassemblable`. -/
theorem C15_finding_6800_nba (lower : Bool) (syms : Syms) (env : A6800.Env) (a : Nat)
    (hr : row 0x14 = ⟨.eImplicit, 0, 1, ['n', 'b', 'a']⟩) (hl : lookup ['n', 'b', 'a'] = none) :
    (M6800.decode lower syms a 0x14 []).map (fun p => p.1.text) = some ['n', 'b', 'a'] ∧
    A6800.assemble env a ['n', 'b', 'a'] = none := by
  have hs : splitStmt ['n', 'b', 'a'] = (['n', 'b', 'a'], []) := by decide
  constructor
  · simp [decode, hr, operandBytes, Dec.text]
  · simp [assemble, hs, hl]

open M6800 A6800 in
/-- `$34` (DES) is printed as `dess`, which code68.c does not know, and the row's successor mask is 0, so tracing stops after it.
Known findings `deco68-des-printed-dess` / `sweep-6800-34-not-reassemblable`. -/
theorem C15_finding_6800_dess (lower : Bool) (syms : Syms) (env : A6800.Env) (a : Nat) (ha : a + 1 ≤ 0x10000)
    (hr : row 0x34 = ⟨.eImplicit, 0, 0, ['d', 'e', 's', 's']⟩) (hl : lookup ['d', 'e', 's', 's'] = none) :
    (M6800.decode lower syms a 0x34 []).map (fun p => (p.1.text, p.1.next)) = some (['d', 'e', 's', 's'], 0) ∧
    A6800.assemble env a ['d', 'e', 's', 's'] = none ∧ A6800.assemble env a ['d', 'e', 's'] = some [0x34] := by
  have hs : splitStmt ['d', 'e', 's', 's'] = (['d', 'e', 's', 's'], []) := by decide
  have hs2 : splitStmt ['d', 'e', 's'] = (['d', 'e', 's'], []) := by decide
  have hl2 : lookup ['d', 'e', 's'] = some (.fixed 0x34 0 4) := by decide +kernel
  refine ⟨?_, ?_, ?_⟩
  · simp [decode, hr, operandBytes, Dec.text]
  · simp [assemble, hs, hl]
  · simp [assemble, hs2, hl2, encode, cpu, DisIsa6800.cpu6800, addrSpace, ha]

open M6800 A6800 in
/-- `$C7` is printed as `stab #<operand>` for every operand byte; `DecodeALU8` does not allow the immediate mode for STAB, so the
statement is rejected.  Known finding `sweep-6800-C7-not-reassemblable`. -/
theorem C15_finding_6800_stab_imm (lower : Bool) (syms syms' : Syms) (env : A6800.Env) (a d : Nat) (dec : M6800.Dec) (hd : d < 256)
    (h : M6800.decode lower syms a 0xc7 [d] = some (dec, syms'))
    (hsym : ∀ x n, syms'.lookup x = some n → A6800.plainLabel n.toList = true ∧ env n.toList = some x)
    (hr : row 0xc7 = ⟨.eImmediate, 0, 1, ['s', 't', 'a', 'b']⟩) (hl : lookup ['s', 't', 'a', 'b'] = some (.alu8 0x4187)) :
    A6800.assemble env a dec.text = none := by
  have hm : ∀ c ∈ ['s', 't', 'a', 'b'], isBlank c = false := by decide
  simp only [decode, hr, operandBytes, List.length_singleton, opAddr, instrLen] at h
  simp only [Nat.zero_add, ne_eq, not_true_eq_false, ↓reduceIte, List.getD_cons_zero, Option.some.injEq, Prod.mk.injEq] at h
  obtain ⟨rfl, rfl⟩ := h
  have g := makeSymbolic_good env lower syms d 1 none (by omega) hsym
  simp only [Dec.text]
  generalize (makeSymbolic lower syms d 1 none).fst.toList = atom at g ⊢
  simp only [List.cons_append, List.nil_append, Bool.false_eq_true, if_false, List.append_nil]
  show assemble env a (['s', 't', 'a', 'b'] ++ '\t' :: '#' :: atom) = none
  have he := encode_alu8_imm_rejected g a 0x4187 ['s', 't', 'a', 'b'] (by decide) (by decide)
  have hb : ∀ c ∈ '#' :: atom, isBlank c = false := by
    intro c hc
    rcases List.mem_cons.mp hc with rfl | hc
    · decide
    · exact g.noBlank c hc
  have hn : ',' ∉ ('#' :: atom) := by
    intro hc
    rcases List.mem_cons.mp hc with e | hc
    · revert e; decide
    · exact g.noComma hc
  have hsp := splitStmt_operand ['s', 't', 'a', 'b'] ('#' :: atom) hm hb (by simp)
  unfold assemble
  rw [hsp]
  simp only [hl, splitComma_noComma _ hn, he]

/-- …and such inputs exist -/
example : (M6800.decode false {} 0x1000 0xc7 [0x10]).map (fun p => p.1.text) = some "stab\t#$10".toList := by decide +kernel

open M6800 A6800 in
/-- an extended-mode `ldaa` whose address high byte is 0 (`B6 00 d`) is printed as `ldaa $00dd` (or with a label of that value);
the assembler chooses the direct mode for that text and emits the two bytes `96 d`.  Known finding `deco68-extended-zero-page`. -/
theorem C15_finding_6800_ext_zero_page (lower : Bool) (syms syms' : Syms) (env : A6800.Env) (a d : Nat) (dec : M6800.Dec)
    (hd : d < 256) (ha : a + 2 ≤ 0x10000)
    (h : M6800.decode lower syms a 0xb6 [0, d] = some (dec, syms'))
    (hsym : ∀ x n, syms'.lookup x = some n → A6800.plainLabel n.toList = true ∧ env n.toList = some x)
    (hr : row 0xb6 = ⟨.eExtended, 0, 1, ['l', 'd', 'a', 'a']⟩) (hl : lookup ['l', 'd', 'a', 'a'] = some (.alu8 0x8186)) :
    A6800.assemble env a dec.text = some [0x96, d] ∧ dec.len = 3 := by
  have hm : ∀ c ∈ ['l', 'd', 'a', 'a'], isBlank c = false := by decide
  simp only [decode, hr, operandBytes, List.length_cons, List.length_nil, opAddr, instrLen] at h
  simp only [ne_eq, not_true_eq_false, ↓reduceIte, List.getD_cons_zero, List.getD_cons_succ, Nat.zero_mul, Nat.zero_add,
    Option.some.injEq, Prod.mk.injEq] at h
  obtain ⟨rfl, rfl⟩ := h
  have g := makeSymbolic_good env lower syms d 2 _ (by omega) hsym
  simp only [Dec.text]
  generalize (makeSymbolic lower syms d 2 _).fst.toList = atom at g ⊢
  simp only [List.nil_append, Bool.false_eq_true, if_false, List.append_nil]
  refine ⟨?_, trivial⟩
  have he := encode_alu8_dir g a 0x8186 ['l', 'd', 'a', 'a'] hd (by decide)
  have hop : alu8Op 0x8186 1 (0x8186 / 0x4000 % 2) = 0x96 := by decide
  rw [hop] at he
  exact asm_one g a _ _ _ hm hl he (by simp; omega)

/-- the table facts the finding is stated for hold on the current tables -/
example : M6800.row 0xb6 = ⟨.eExtended, 0, 1, ['l', 'd', 'a', 'a']⟩ ∧ A6800.lookup ['l', 'd', 'a', 'a'] = some (.alu8 0x8186) := by
  decide +kernel

/-- …and such inputs exist: `ldaa >$0034` -/
example : (M6800.decode false {} 0x1000 0xb6 [0x00, 0x34]).map (fun p => p.1.text) = some "ldaa\t$0034".toList ∧
    A6800.assemble (fun _ => none) 0x1000 "ldaa\t$0034".toList = some [0x96, 0x34] := by decide +kernel

open M6800 A6800 in
/-- the exclusion of `C15_6800_roundtrip` is exact: on every input of the four known bad classes (other hypotheses unchanged)
the printed statement does NOT assemble back to the decoded bytes -/
theorem C15_6800_exclusions_exact (lower : Bool) (syms syms' : Syms) (env : A6800.Env) (a op : Nat) (data : List Nat) (dec : M6800.Dec)
    (hop : op < 256) (hdata : ∀ d ∈ data, d < 256)
    (h : M6800.decode lower syms a op data = some (dec, syms'))
    (ha : a + dec.len ≤ 0x10000)
    (hsym : ∀ x n, syms'.lookup x = some n → A6800.plainLabel n.toList = true ∧ env n.toList = some x)
    (hbad : M6800.knownBad op data = true) (hdef : M6800.defectsPresent = true) :
    A6800.assemble env a dec.text ≠ some (op :: data) := by
  unfold M6800.defectsPresent at hdef
  simp only [Bool.and_eq_true, beq_iff_eq] at hdef
  obtain ⟨⟨⟨⟨⟨r14, l14⟩, r34⟩, l34⟩, rc7⟩, lc7⟩ := hdef
  have hlen0 : data.length = operandBytes (row op) := by
    unfold decode at h
    by_cases hlen : data.length = operandBytes (row op)
    · exact hlen
    · simp [hlen] at h
  unfold M6800.knownBad at hbad
  simp only [Bool.or_eq_true, beq_iff_eq, Bool.and_eq_true, decide_eq_true_eq, bne_iff_ne, ne_eq] at hbad
  rcases hbad with ((rfl | rfl) | rfl) | ⟨⟨⟨hty, h1⟩, h2⟩, h3⟩
  · have hd : data = [] := List.eq_nil_of_length_eq_zero (by rw [hlen0, r14]; rfl)
    subst hd
    have hf := C15_finding_6800_nba lower syms env a r14 l14
    rw [h] at hf
    simp only [Option.map_some, Option.some.injEq] at hf
    rw [hf.1, hf.2]; simp
  · have hd : data = [] := List.eq_nil_of_length_eq_zero (by rw [hlen0, r34]; rfl)
    subst hd
    have hl : dec.len = 1 := by
      have := (C15_6800_length lower syms syms' a 0x34 [] dec (by decide) h).1
      simpa using this
    have hf := C15_finding_6800_dess lower syms env a (by omega) r34 l34
    rw [h] at hf
    simp only [Option.map_some, Option.some.injEq, Prod.mk.injEq] at hf
    rw [hf.1.1, hf.2.1]; simp
  · have hl1 : data.length = 1 := by rw [hlen0, rc7]; rfl
    obtain ⟨d, rfl⟩ := List.length_eq_one_iff.mp hl1
    rw [C15_finding_6800_stab_imm lower syms syms' env a d dec (hdata d (by simp)) h hsym rc7 lc7]
    simp
  · -- extended form of an instruction that also has a direct form, high byte 0: two bytes come back
    have ht := table_ok op hop
    unfold tableOK at ht
    unfold decode at h
    generalize hr : row op = r at *
    simp only [Bool.and_eq_true, List.all_eq_true, Bool.not_eq_true'] at ht
    obtain ⟨hmemo, ht⟩ := ht
    have hty' : r.typ = .eExtended := by simpa using hty
    simp only [hlen0, ne_eq, not_true_eq_false, ↓reduceIte, hty'] at h ht
    simp only [Option.some.injEq, Prod.mk.injEq] at h
    obtain ⟨rfl, rfl⟩ := h
    simp only [operandBytes, hty'] at hlen0
    obtain ⟨d0, d1, rfl⟩ := length_two _ hlen0
    have hd0 : d0 = 0 := by simpa using h3
    subst hd0
    have hd1 : d1 < 256 := hdata d1 (by simp)
    have hoa : opAddr r a [0, d1] = d1 := by simp [opAddr, hty']
    simp only [instrLen, operandBytes, hty'] at ha
    simp only [Dec.text]
    rw [hoa] at hsym ⊢
    have g := makeSymbolic_good env lower syms d1 2 _ (by omega) hsym
    generalize (makeSymbolic lower syms d1 2 _).fst.toList = atom at g ⊢
    simp only [List.nil_append, Bool.false_eq_true, if_false, List.append_nil]
    cases hl : lookup r.memo with
    | none => simp [hl] at ht
    | some hd =>
      cases hd <;> simp [hl] at ht
      case alu8 w =>
        rw [asm_one g a r.memo _ _ hmemo hl (encode_alu8_dir g a w r.memo hd1 ht.1.1.1) (by simp; omega)]
        simp
      case alu16 mi mn sh c =>
        obtain ⟨⟨⟨⟨⟨q1, q2⟩, q3⟩, q4⟩, q5⟩, q6⟩ := ht
        rw [asm_one g a r.memo _ _ hmemo hl (encode_alu16_dir g a mn sh c mi r.memo hd1 q1 q2 q3) (by simp; omega)]
        simp
      case sing8 c => omega
      case jmp => omega
      case jsr => exact absurd ht.2 h2

/-- an instruction cut off by the end of the image is reported with its full length: image `01 B6 12` at $1000, the `ldaa`
(extended) at $1001 is "completed" by `RetrieveCodeFromChunkList` re-reading $1002, `CodeLen` = 3, so the code area ends at
$1003 – outside the image.  Finding `dasl-instruction-cut-at-image-end` (seen on the real dasl: `1000...1003 (code)`, `4/3 bytes`). -/
theorem C15_finding_6800_cut_instruction :
    (M6800.disassemble [⟨0x1000, [0x01, 0xb6, 0x12]⟩] false {} 0x1001 false (-1)).1.len = 3 ∧
    ¬ inImage [⟨0x1000, [0x01, 0xb6, 0x12]⟩] 0x1003 ∧ ¬ M6800.Whole [⟨0x1000, [0x01, 0xb6, 0x12]⟩] 0x1001 := by
  refine ⟨by decide +kernel, by simp [inImage], ?_⟩
  intro hw
  have h1 : retrieve [⟨0x1000, [0x01, 0xb6, 0x12]⟩] 0x1001 1 = some [0xb6] := by decide +kernel
  have := (hw _ h1 1 (by decide +kernel)).2
  simp [inImage] at this

/-- …and across the end of the address space: `B6 12` at $FFFE with a byte at $0000 gives a 3-byte instruction `FFFE…10000` -/
theorem C15_finding_6800_wrap_instruction :
    (M6800.disassemble [⟨0, [0x10]⟩, ⟨0xfffe, [0xb6, 0x12]⟩] false {} 0xfffe false (-1)).1.len = 3 ∧
    ¬ inImage [⟨0, [0x10]⟩, ⟨0xfffe, [0xb6, 0x12]⟩] 0x10000 := by
  refine ⟨by decide +kernel, by simp [inImage]⟩

/-- non-vacuity of `Whole`: in the image `01 B6 12 34 39` at $1000 the instructions at $1000, $1001 and $1004 are whole -/
example : ∀ a ∈ [0x1000, 0x1001, 0x1004], M6800.Whole [⟨0x1000, [0x01, 0xb6, 0x12, 0x34, 0x39]⟩] a := by
  intro a ha
  simp only [List.mem_cons, List.not_mem_nil, or_false] at ha
  intro bs hbs k hk
  rcases ha with rfl | rfl | rfl
  · have : retrieve [⟨0x1000, [0x01, 0xb6, 0x12, 0x34, 0x39]⟩] 0x1000 1 = some [0x01] := by decide +kernel
    rw [this] at hbs; cases hbs
    have h0 : M6800.operandBytes (M6800.row ((List.map UInt8.toNat [0x01]).getD 0 0)) = 0 := by decide +kernel
    rw [h0] at hk; omega
  · have : retrieve [⟨0x1000, [0x01, 0xb6, 0x12, 0x34, 0x39]⟩] 0x1001 1 = some [0xb6] := by decide +kernel
    rw [this] at hbs; cases hbs
    have h0 : M6800.operandBytes (M6800.row ((List.map UInt8.toNat [0xb6]).getD 0 0)) = 2 := by decide +kernel
    have hk2 : k < 2 := by rw [h0] at hk; exact hk
    refine ⟨by omega, ⟨⟨0x1000, [0x01, 0xb6, 0x12, 0x34, 0x39]⟩, by simp, by simp; omega, by simp; omega⟩⟩
  · have : retrieve [⟨0x1000, [0x01, 0xb6, 0x12, 0x34, 0x39]⟩] 0x1004 1 = some [0x39] := by decide +kernel
    rw [this] at hbs; cases hbs
    have h0 : M6800.operandBytes (M6800.row ((List.map UInt8.toNat [0x39]).getD 0 0)) = 0 := by decide +kernel
    rw [h0] at hk; omega

end AslModel.Dis
