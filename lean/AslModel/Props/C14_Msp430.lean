import AslModel.Lemmas.IsaMsp430
/-!
# C14 — MSP430 (codemsp.c, CPU MSP430)

MODEL = `Isa.IMsp430.encode` (the decode handlers of codemsp.c over the `InstTable` regenerated from `InitFields()`,
with the constants of `DecodeAdr`/`FillAdrPartsImm`/`DecodeJmp` regenerated from the C source); SPEC =
`Spec.IMsp430` (TI's instruction formats as a decoder, the emulated-instruction table, legality of source statements).
Theorems quantify over **all** mnemonics of the SPEC, all size attributes, all operand shapes with unbounded `Int`
values and every program counter.

Four behaviours of the pinned tree depart from the SPEC; they are parameters of the model (`Flags`, calibrated against the
current asl on every run).  The `_partial` theorems hold for every flag setting outside the statements a set flag
affects (`affectedSound` / `affectedRange`); `C14_msp430_sound` / `C14_msp430_range` are the full statements for the
repaired code (all flags off); the `C14_finding_msp430_*` theorems exhibit each departure for the pinned flags.

Domain restriction of the soundness statement: `plain s` – no operand is the raw immediate mode `@PC+`, whose datum is
the word *following* the statement and so not part of its bytes (`MOV @PC+,R5` is accepted and assembled to the single
word 4035h; the SPEC decoder needs the datum to decode it).
-/
namespace AslModel.C14
open AslModel.PFile (Byte b b_toNat)
open AslModel.Isa
open AslModel.Spec.IMsp430 AslModel.Isa.IMsp430 AslModel.Generated.IsaMsp430

/-- Table obligation: every mnemonic of the SPEC is in the `InstTable` the current `InitFields()` builds for CPU MSP430,
with a handler of the mnemonic's operand form and an opcode word the SPEC decoder maps back to the mnemonic (format I:
bits 15..12; format II: bits 9..7 and the byte/word capability; jumps: condition bits 12..10; emulated instructions: the
core operation and constant of TI's emulation table; fixed instructions: the complete word).  The masks / `MayImm`
arguments of the `DecodeAdr` calls, the jump-distance limits and the constant-generator table extracted from the C source
are the ones the proofs below rely on, and every constant-generator row reads back as its constant. -/
theorem C14_msp430_table :
    Mn.all.all (fun m => match IMsp430.lookup m with | some h => IMsp430.Good m h | none => false) = true ∧
    twoSrcMask = 15 ∧ twoSrcMayImm = true ∧ twoDstMask = 3 ∧ twoDstMayImm = false ∧ oneMask = 15 ∧ oneMayImm = true ∧
    brMask = 15 ∧ brMayImm = true ∧ popMask = 3 ∧ jmpPcOfs = 2 ∧ jmpMin = -1024 ∧ jmpMax = 1022 ∧
    (cgTable.all fun r => !srcExt r.2.2 r.2.1 && srcOpd false r.2.2 r.2.1 0 0 == .imm r.1 && srcOpd true r.2.2 r.2.1 0 0 == .imm r.1) = true ∧
    (cgTable.map (·.1) = [0, 1, 2, 4, 8]) ∧
    srcExt cgMinusOne.2 cgMinusOne.1 = false ∧ srcOpd false cgMinusOne.2 cgMinusOne.1 0 0 = .imm 65535 ∧
    srcOpd true cgMinusOne.2 cgMinusOne.1 0 0 = .imm 255 :=
  ⟨IMsp430.table_good, IMsp430.consts_good⟩

/-- **Soundness**, general form.  Whenever the code generator emits bytes for a statement at `pc`, the SPEC decoder
decodes exactly these bytes - all of them - to the core instruction the statement denotes: operation, byte/word bit,
source and destination operands with register numbers and 16-bit extension words (two's complement), immediates through
the constant generators read back as their constants, emulated instructions as TI's emulation table defines them, and
`ADDR` / `x(PC)` operands and jump targets as the *address they refer to*.
Hypotheses: `plain s` (no raw `@PC+`), and the statement is not one a set flag affects. -/
theorem C14_msp430_sound_partial (fl : Flags) (pc : Nat) (s : Src) (bs : List Byte)
    (hplain : plain s = true) (hside : affectedSound fl s = false)
    (h : encode fl pc s = .ok bs) : decode pc bs = some (meaning pc s, bs.length) := by
  obtain ⟨hd, hl, hg⟩ := lookup_good s.mn
  obtain ⟨mn, size, ops⟩ := s
  simp only at hl hg
  unfold encode at h
  simp only at h
  split at h
  · cases h
  rw [hl] at h
  simp only [affectedSound, hitsZeroPc, hitsPopImm, hitsRlaAbs0, Bool.or_eq_false_iff, Bool.and_eq_false_iff] at hside
  obtain ⟨⟨hs1, hs2⟩, hs3⟩ := hside
  simp only [plain, List.all_eq_true, bne_iff_ne, ne_eq] at hplain
  cases hd with
  | fixed code =>
    simp only [Good, Bool.and_eq_true, beq_iff_eq] at hg
    simp only [dispatch, decodeFixed] at h
    split at h
    · split at h
      · cases h
      · cases h
        rw [hg.2, fixed_sound mn hg.1 pc]
        simp [meaning, hg.1, wordsToBytes]
    · cases h
  | twoOp code =>
    simp only [Good, Bool.and_eq_true, beq_iff_eq, decide_eq_true_eq] at hg
    obtain ⟨⟨⟨hf, hc0⟩, hc1⟩, hc2⟩ := hg
    have hcode : code = code / 4096 * 4096 := by omega
    simp only [dispatch] at h
    rw [hcode] at h
    obtain ⟨a, d, rfl, hdec⟩ := twoOp_sound fl pc (code / 4096) mn (size == 1) ops bs hc1 hc2
      (fun a d ho => by subst ho; exact hplain a (by simp))
      (fun hz a d ho => by
        subst ho
        rcases hs1 with hh | hh
        · rw [hz] at hh; cases hh
        · intro ha; subst ha; simp [srcFirst, hf] at hh) h
    rw [hdec]
    simp [meaning, hf]
  | emul code =>
    simp only [Good, Bool.and_eq_true, beq_iff_eq, decide_eq_true_eq, Bool.or_eq_true] at hg
    obtain ⟨⟨⟨hc0, hc1⟩, hc2⟩, hk⟩ := hg
    have hhi : code &&& 0xff00 = (code &&& 0xff00) / 4096 * 4096 := by omega
    simp only [dispatch] at h
    rcases hk with ⟨hf, hlo⟩ | ⟨hf, hk⟩
    · obtain ⟨d, rfl, hdec⟩ := emulAA_sound fl pc _ code _ (size == 1) ops bs hc1 hc2 hhi hlo
        (fun d ho => by subst ho; exact hplain d (by simp))
        (fun hz ho => by
          subst ho
          rcases hs3 with hh | hh
          · rw [hz] at hh; cases hh
          · simp [hf] at hh) h
      rw [hdec]
      simp [meaning, hf]
    · cases hk2 : (emulOf mn).2 with
      | some k =>
        rw [hk2] at hk
        simp only [Bool.and_eq_true, beq_iff_eq, decide_eq_true_eq] at hk
        obtain ⟨d, rfl, hdec⟩ := emulC_sound fl pc _ code k _ (size == 1) ops bs hc1 hc2 hhi hk.1 (by omega) h
        rw [hdec]
        have : k ≠ 255 := by omega
        simp [meaning, hf, hk2, this]
      | none =>
        rw [hk2] at hk
        simp only [beq_iff_eq] at hk
        obtain ⟨d, rfl, hdec⟩ := emulC_sound fl pc _ code 255 _ (size == 1) ops bs hc1 hc2 hhi hk (by omega) h
        rw [hdec]
        simp [meaning, hf, hk2]
  | br code =>
    simp only [Good, Bool.and_eq_true, beq_iff_eq] at hg
    obtain ⟨hf, hc⟩ := hg
    subst hc
    simp only [dispatch] at h
    obtain ⟨a, rfl, hdec⟩ := br_sound fl pc 4 size .MOV ops bs (by omega) rfl
      (fun a ho => by subst ho; exact hplain a (by simp))
      (fun hz a ho => by
        subst ho
        rcases hs1 with hh | hh
        · rw [hz] at hh; cases hh
        · intro ha; subst ha; simp [srcFirst, hf] at hh) h
    rw [hdec]
    simp [meaning, hf]
  | pop code =>
    simp only [Good, Bool.and_eq_true, beq_iff_eq] at hg
    obtain ⟨hf, hc⟩ := hg
    subst hc
    simp only [dispatch] at h
    obtain ⟨d, rfl, hdec⟩ := pop_sound fl pc 4 .MOV (size == 1) ops bs (by omega) rfl
      (fun hz d ho => by
        subst ho
        rcases hs2 with hh | hh
        · rw [hz] at hh; cases hh
        · simp [hf] at hh
          exact ⟨fun e => hh.1 (by rw [e]), fun e => hh.2 (by rw [e])⟩) h
    rw [hdec]
    simp [meaning, hf]
  | oneOp mayByte code =>
    simp only [Good, Bool.and_eq_true, beq_iff_eq] at hg
    obtain ⟨⟨⟨⟨hf, hc0⟩, hc1⟩, hc2⟩, hwo⟩ := hg
    have hcode : code = code / 128 * 128 := by omega
    have hk8 : code / 128 / 8 = 4 := by omega
    have hk7 : code / 128 % 8 = code / 128 % 8 := rfl
    simp only [dispatch] at h
    rw [hcode] at h
    obtain ⟨a, rfl, hdec⟩ := oneOp_sound fl pc (code / 128) mn mayByte (size == 1) ops bs hk8 hc2 hwo
      (fun a ho => by subst ho; exact hplain a (by simp))
      (fun hz a ho => by
        subst ho
        have hsf : srcFirst (form mn) = true := by
          cases mayByte <;> simp at hf <;> simp [hf, srcFirst]
        rcases hs1 with hh | hh
        · rw [hz] at hh; cases hh
        · intro ha; subst ha; simp [hsf] at hh) h
    rw [hdec]
    cases mayByte <;> simp at hf <;> simp [meaning, hf]
  | jmp code =>
    simp only [Good, Bool.and_eq_true, beq_iff_eq] at hg
    obtain ⟨⟨⟨hf, hc0⟩, hc1⟩, hc2⟩ := hg
    have hcode : code = code / 1024 * 1024 := by omega
    have hk8 : code / 1024 / 8 = 1 := by omega
    simp only [dispatch] at h
    rw [hcode] at h
    obtain ⟨t, rfl, hdec⟩ := jmp_sound pc (code / 1024) (size == 1) ops bs hk8 h
    rw [hdec, hc2]
    simp [meaning, hf]


/-- **Soundness** for the repaired code generator (all four flags off): no side condition besides `plain`. -/
theorem C14_msp430_sound (pc : Nat) (s : Src) (bs : List Byte) (hplain : plain s = true)
    (h : encode ⟨false, false, false, false⟩ pc s = .ok bs) : decode pc bs = some (meaning pc s, bs.length) :=
  C14_msp430_sound_partial _ pc s bs hplain (by simp [affectedSound]) h

example : plain ⟨.MOV, 1, [.imm (-1), .idx 4 (-2)]⟩ = true ∧ affectedSound ⟨true, true, true, true⟩ ⟨.MOV, 1, [.imm (-1), .idx 4 (-2)]⟩ = false ∧
    okBytes (encode ⟨true, true, true, true⟩ 0x200 ⟨.MOV, 1, [.imm (-1), .idx 4 (-2)]⟩) = some [b 0xf4, b 0x43, b 0xfe, b 0xff] := by decide
example : okBytes (encode ⟨true, true, true, true⟩ 0x8000 ⟨.RLA, 0, [.sym 0x0204]⟩) = some [b 0x90, b 0x50, b 0x02, b 0x82, b 0x00, b 0x82] ∧
    decode 0x8000 [b 0x90, b 0x50, b 0x02, b 0x82, b 0x00, b 0x82] = some (.two .ADD false (.sym 0x204) (.sym 0x204), 6) := by decide

/-- **Range**, general form: a statement is assembled iff the SPEC calls it legal - known size attribute for the
mnemonic, operand count, addressing modes allowed in each position, register numbers (no `R3`; no `R2` as pointer),
immediates -128..255 / -32768..65535, index words -32768..65535, addresses 0..65535, jump distance even and within
-1024..+1022 bytes of `pc + 2` in the 16-bit address space.  One past a limit is rejected, never truncated.
Hypothesis: the statement is not one a set flag affects. -/
theorem C14_msp430_range_partial (fl : Flags) (pc : Nat) (s : Src) (hside : affectedRange fl pc s = false) :
    legal pc s = isOk (encode fl pc s) := by
  obtain ⟨hd, hl, hg⟩ := lookup_good s.mn
  obtain ⟨mn, size, ops⟩ := s
  simp only at hl hg
  unfold encode
  simp only
  by_cases hsz : size > 2
  · simp [hsz, legal, sizeOk_gt _ _ hsz, isOk]
  rw [if_neg hsz, hl]
  have hsz' : size ≤ 2 := by omega
  simp only [affectedRange, hitsPopImm, hitsRlaDist, Bool.or_eq_false_iff, Bool.and_eq_false_iff] at hside
  obtain ⟨hs2, hs4⟩ := hside
  cases hd with
  | fixed code =>
    simp only [Good, Bool.and_eq_true, beq_iff_eq] at hg
    simp only [dispatch, fixed_isOk, legal, hg.1, sizeOk]
    rcases ops with _ | ⟨a, t⟩ <;> simp
  | twoOp code =>
    simp only [Good, Bool.and_eq_true, beq_iff_eq, decide_eq_true_eq] at hg
    obtain ⟨⟨⟨hf, hc0⟩, hc1⟩, hc2⟩ := hg
    simp only [dispatch, twoOp_isOk, legal, hf, sizeOk, hsz', decide_true, Bool.true_and]
    rcases ops with _ | ⟨a, _ | ⟨d, _ | ⟨e, t⟩⟩⟩ <;> simp
  | emul code =>
    simp only [Good, Bool.and_eq_true, beq_iff_eq, decide_eq_true_eq, Bool.or_eq_true] at hg
    obtain ⟨_, hk⟩ := hg
    simp only [dispatch]
    rcases hk with ⟨hf, hlo⟩ | ⟨hf, hk⟩
    · rw [emulAA_isOk fl code pc (size == 1) ops hlo]
      simp only [legal, hf, sizeOk, hsz', decide_true, Bool.true_and]
      rcases ops with _ | ⟨d, _ | ⟨e, t⟩⟩ <;> simp
      rcases hs4 with hh | hh
      · simp [hh]
      · simp [hf] at hh
        simp [hh]
    · have hna : lo code ≠ 0xaa := by
        cases hk2 : (emulOf mn).2 with
        | some k =>
          rw [hk2] at hk
          simp only [Bool.and_eq_true, beq_iff_eq, decide_eq_true_eq] at hk
          omega
        | none =>
          rw [hk2] at hk
          simp only [beq_iff_eq] at hk
          omega
      rw [emulC_isOk fl code pc (size == 1) ops hna]
      simp only [legal, hf, sizeOk, hsz', decide_true, Bool.true_and]
      rcases ops with _ | ⟨d, _ | ⟨e, t⟩⟩ <;> simp
  | br code =>
    simp only [Good, Bool.and_eq_true, beq_iff_eq] at hg
    simp only [dispatch, br_isOk, legal, hg.1, sizeOk]
    rcases ops with _ | ⟨a, _ | ⟨e, t⟩⟩ <;> simp
  | pop code =>
    simp only [Good, Bool.and_eq_true, beq_iff_eq] at hg
    simp only [dispatch, pop_isOk, legal, hg.1, sizeOk, hsz', decide_true, Bool.true_and]
    rcases ops with _ | ⟨d, _ | ⟨e, t⟩⟩ <;> simp
    rcases hs2 with hh | hh
    · simp [hh]
    · simp [hg.1] at hh
      intro _ h01
      rcases h01 with h0 | h1
      · exact absurd h0 hh.1
      · exact absurd h1 hh.2
  | oneOp mayByte code =>
    simp only [Good, Bool.and_eq_true, beq_iff_eq] at hg
    obtain ⟨⟨⟨⟨hf, _⟩, _⟩, _⟩, _⟩ := hg
    simp only [dispatch, oneOp_isOk, legal]
    have hs : size = 0 ∨ size = 1 ∨ size = 2 := by omega
    cases mayByte <;> simp at hf <;> simp only [hf, sizeOk] <;>
      rcases ops with _ | ⟨a, _ | ⟨e, t⟩⟩ <;> rcases hs with h | h | h <;> subst h <;> simp
  | jmp code =>
    simp only [Good, Bool.and_eq_true, beq_iff_eq] at hg
    obtain ⟨⟨⟨hf, _⟩, _⟩, _⟩ := hg
    simp only [dispatch, jmp_isOk, legal, hf, sizeOk]
    have hs : size = 0 ∨ size = 1 ∨ size = 2 := by omega
    rcases ops with _ | ⟨a, _ | ⟨e, t⟩⟩ <;> rcases hs with h | h | h <;> subst h <;> simp
    all_goals (cases a <;> simp)

/-- **Range** for the repaired code generator: `legal ↔ accepted`, no side condition. -/
theorem C14_msp430_range (pc : Nat) (s : Src) :
    legal pc s = true ↔ isOk (encode ⟨false, false, false, false⟩ pc s) = true := by
  rw [C14_msp430_range_partial ⟨false, false, false, false⟩ pc s (by simp [affectedRange])]

example : legal 0x200 ⟨.MOV, 1, [.imm 255, .reg 4]⟩ = true ∧ legal 0x200 ⟨.MOV, 1, [.imm 256, .reg 4]⟩ = false ∧
    legal 0x200 ⟨.MOV, 0, [.imm (-32769), .reg 4]⟩ = false ∧ legal 0x200 ⟨.MOV, 0, [.reg 3, .reg 4]⟩ = false ∧
    legal 0x1000 ⟨.JMP, 0, [.sym (0x1002 + 1022)]⟩ = true ∧ legal 0x1000 ⟨.JMP, 0, [.sym (0x1002 + 1024)]⟩ = false ∧
    legal 0x1000 ⟨.JMP, 0, [.sym (0x1002 - 1024)]⟩ = true ∧ legal 0x1000 ⟨.JMP, 0, [.sym (0x1002 - 1026)]⟩ = false ∧
    legal 0 ⟨.JMP, 0, [.sym 0xfffe]⟩ = true ∧ affectedRange ⟨true, true, true, true⟩ 0x200 ⟨.JMP, 0, [.sym 0x300]⟩ = false := by decide

/-- **PC-relative jumps**: an accepted jump is one word whose signed 10-bit offset field `o` satisfies
`target = (pc + 2 + 2·sext(o)) mod 65536` - the address the hardware loads into the PC - and whose condition field is the
mnemonic's; the target operand lies in 0..65535. -/
theorem C14_msp430_rel (fl : Flags) (pc : Nat) (mn : Mn) (size : Nat) (t : Int) (bs : List Byte) (hf : form mn = .jump)
    (h : encode fl pc ⟨mn, size, [.sym t]⟩ = .ok bs) :
    ∃ b0 b1, bs = [b0, b1] ∧ 0 ≤ t ∧ t ≤ 65535 ∧ (b0.toNat + 256 * b1.toNat) / 1024 % 8 = cond mn ∧
      t = ((pc + 2 + 2 * ((b0.toNat + 256 * b1.toNat) % 1024) +
            (if (b0.toNat + 256 * b1.toNat) % 1024 ≥ 512 then 63488 else 0)) % 65536 : Nat) := by
  have hs := C14_msp430_sound_partial fl pc ⟨mn, size, [.sym t]⟩ bs (by simp [plain])
    (by simp [affectedSound, hitsZeroPc, hitsPopImm, hitsRlaAbs0, srcFirst, hf]) h
  have hl : legal pc ⟨mn, size, [.sym t]⟩ = true := by
    rw [C14_msp430_range_partial fl pc _ (by simp [affectedRange, hitsPopImm, hitsRlaDist, hf]), h]; rfl
  have hm : meaning pc ⟨mn, size, [.sym t]⟩ = .jump (cond mn) (w16 t) := by simp [meaning, hf]
  rw [hm] at hs
  simp only [legal, hf, inRange, Bool.and_eq_true, decide_eq_true_eq] at hl
  obtain ⟨w, hw, hn, hc, hT⟩ := decode_jump_inv pc bs _ _ _ hs
  have hlen : bs.length = 2 := hn
  rcases bs with _ | ⟨b0, _ | ⟨b1, _ | ⟨b2, r⟩⟩⟩ <;> simp at hlen
  refine ⟨b0, b1, rfl, hl.2.1.1, hl.2.1.2, ?_, ?_⟩
  · simp only [word, List.getElem?_cons_zero, List.getElem?_cons_succ, Option.some.injEq] at hw
    rw [hw]; exact hc.symm
  · simp only [word, List.getElem?_cons_zero, List.getElem?_cons_succ, Option.some.injEq] at hw
    rw [hw, ← hT]
    unfold w16; omega

/-- **Symbolic mode**: accepted `ADDR` operands of a format-I instruction are stored as `ADDR − (address of the
extension word)` - the SPEC decoder, which adds the extension word's address back, returns the referenced addresses. -/
theorem C14_msp430_rel_sym (fl : Flags) (pc : Nat) (mn : Mn) (size : Nat) (t u : Int) (bs : List Byte) (hf : form mn = .two)
    (h : encode fl pc ⟨mn, size, [.sym t, .sym u]⟩ = .ok bs) :
    0 ≤ t ∧ t ≤ 65535 ∧ 0 ≤ u ∧ u ≤ 65535 ∧
      decode pc bs = some (.two mn (size == 1) (.sym t.toNat) (.sym u.toNat), bs.length) := by
  have hs := C14_msp430_sound_partial fl pc ⟨mn, size, [.sym t, .sym u]⟩ bs (by simp [plain])
    (by simp [affectedSound, hitsZeroPc, hitsPopImm, hitsRlaAbs0, srcFirst, hf]) h
  have hl : legal pc ⟨mn, size, [.sym t, .sym u]⟩ = true := by
    rw [C14_msp430_range_partial fl pc _ (by simp [affectedRange, hitsPopImm, hitsRlaDist, hf]), h]; rfl
  simp only [legal, hf, srcOk, dstOk, inRange, Bool.and_eq_true, decide_eq_true_eq] at hl
  obtain ⟨_, ⟨ht1, ht2⟩, hu1, hu2⟩ := hl
  have e1 : w16 t = t.toNat := by unfold w16; omega
  have e2 : w16 u = u.toNat := by unfold w16; omega
  have hm : meaning pc ⟨mn, size, [.sym t, .sym u]⟩ = .two mn (size == 1) (.sym t.toNat) (.sym u.toNat) := by
    simp [meaning, hf, srcMeaning, dstMeaning, e1, e2]
  rw [hm] at hs
  exact ⟨ht1, ht2, hu1, hu2, hs⟩

example : okBytes (encode ⟨true, true, true, true⟩ 0xc000 ⟨.JNE, 0, [.sym 0xbffe]⟩) = some [b 0xfe, b 0x23] ∧
    okBytes (encode ⟨true, true, true, true⟩ 0xc000 ⟨.MOV, 0, [.sym 0x0200, .sym 0x0202]⟩) = some [b 0x90, b 0x40, b 0xfe, b 0x41, b 0xfe, b 0x41] := by
  decide

/-! ## the four departures of the pinned tree -/

/-- **Known finding** (`msp430-zero-disp-pc-source-becomes-indirect`): `DecodeAdr` turns a zero displacement into the
register-indirect mode also for `Rn = PC`; `MOV 0(PC),R6` (TI: 4016 0000, reads its own extension word) is assembled as
`MOV @PC,R6` (4026: reads - and then executes - the next instruction word). -/
theorem C14_finding_msp430_zero_disp_pc (fl : Flags) (h : fl.zeroDispPcInd = true) :
    okBytes (encode fl 0x200 ⟨.MOV, 0, [.idx 0 0, .reg 6]⟩) = some [b 0x26, b 0x40] ∧
    decode 0x200 [b 0x26, b 0x40] = some (.two .MOV false (.ind 0) (.reg 6), 2) ∧
    meaning 0x200 ⟨.MOV, 0, [.idx 0 0, .reg 6]⟩ = .two .MOV false (.sym 0x202) (.reg 6) ∧
    legal 0x200 ⟨.MOV, 0, [.idx 0 0, .reg 6]⟩ = true := by
  obtain ⟨f1, f2, f3, f4⟩ := fl
  simp only at h
  subst h
  cases f2 <;> cases f3 <;> cases f4 <;> decide

/-- **Known finding** (`msp430-rla-rlc-pcrel-displacement-sign-check`): `DecodeEmulOneToTwo` refuses `RLA/RLC ADDR` when
the destination displacement `X − 2` changes bit 15 against the source displacement `X` (X ∈ {0, 1, 8000h, 8001h}), although
displacements wrap around in the 64K address space: `RLA 0202h` at 8200h is legal and rejected. -/
theorem C14_finding_msp430_rla_dist (fl : Flags) (h : fl.rlaDistCheck = true) :
    legal 0x8200 ⟨.RLA, 0, [.sym 0x0202]⟩ = true ∧ isOk (encode fl 0x8200 ⟨.RLA, 0, [.sym 0x0202]⟩) = false := by
  obtain ⟨f1, f2, f3, f4⟩ := fl
  simp only at h
  subst h
  cases f1 <;> cases f3 <;> cases f4 <;> decide

/-- **Known finding** (`msp430-pop-immediate-0-1-accepted`): `DecodePOP` passes `MayImm = True`; the constant-generator
encodings of `#0` / `#1` look like the modes `Rn` / `x(Rn)` to the mask check, so `POP #1` is assembled to the single word
41B3h (`MOV @SP+,x(R3)` without its extension word - not an instruction). -/
theorem C14_finding_msp430_pop_imm (fl : Flags) (h : fl.popMayImm = true) :
    legal 0x200 ⟨.POP, 0, [.imm 1]⟩ = false ∧
    okBytes (encode fl 0x200 ⟨.POP, 0, [.imm 1]⟩) = some [b 0xb3, b 0x41] ∧ decode 0x200 [b 0xb3, b 0x41] = none ∧
    okBytes (encode fl 0x200 ⟨.POP, 0, [.imm 0]⟩) = some [b 0x33, b 0x41] := by
  obtain ⟨f1, f2, f3, f4⟩ := fl
  simp only at h
  subst h
  cases f1 <;> cases f2 <;> cases f4 <;> decide

/-- **Known finding** (`msp430-rla-rlc-abs-zero-becomes-const4`): the "0(Rn) → @Rn" shortening of `DecodeEmulOneToTwo`
also fires for `&0`, which is `0(R2)`; `@R2` is the constant 4, so `RLA &0` is assembled as `ADD #4,&0`. -/
theorem C14_finding_msp430_rla_abs0 (fl : Flags) (h : fl.rlaAbsZeroInd = true) :
    okBytes (encode fl 0x200 ⟨.RLA, 0, [.abs 0]⟩) = some [b 0xa2, b 0x52, b 0x00, b 0x00] ∧
    decode 0x200 [b 0xa2, b 0x52, b 0x00, b 0x00] = some (.two .ADD false (.imm 4) (.abs 0), 4) ∧
    meaning 0x200 ⟨.RLA, 0, [.abs 0]⟩ = .two .ADD false (.abs 0) (.abs 0) ∧ legal 0x200 ⟨.RLA, 0, [.abs 0]⟩ = true := by
  obtain ⟨f1, f2, f3, f4⟩ := fl
  simp only at h
  subst h
  cases f1 <;> cases f2 <;> cases f3 <;> decide

end AslModel.C14
