import AslModel.Model.UserFunc
/-!
# C03 — `FUNCTION`: every accepted definition has non-empty valid parameter names, so the replacement loops end

`ReplaceLine` (asmsub.c) advances only because its search pattern is not empty.  `CodeFUNCTION` hands it the parameter
names of `name FUNCTION par1,...,parN,expr`; the validation loop in front (`ChkMacSymbName` on `ArgStr[1..ArgCnt-1]`)
is what keeps an empty name (`f function x,,x+(1)`) away from it.  Theorems for **every** argument list, case mode and
expression text:

* `C03_function_accepted_names_valid` - when `CodeFUNCTION` gets as far as `CompressLine`, **every** parameter name
  (in every position, the last one included) is a valid macro-parameter name, in particular non-empty;
* `C03_function_replace_terminates` - for a non-empty pattern the loop of `ReplaceLine` / `ReplaceLineUnchecked` ends
  within `length + 1` rounds (measure: the text behind `Pos`);
* `C03_function_never_hangs` - hence `CodeFUNCTION` always ends: it rejects the statement or enters the function;
* `C03_function_expand_terminates` - the expansion of the tokens at a call ends as well (the token is 2 bytes);
* `C03_function_empty_pattern_spins` - the guard is necessary: with an empty pattern in case-sensitive mode the loop
  never ends on `")"` (any fuel is exhausted) - the behaviour the validation loop exists to exclude.
-/
namespace AslModel.UserFunc
open AslModel.StrSymName (Str chkMacSymbName)

theorem firstInvalid_none {ps : List Str} {z : Nat} (h : firstInvalid ps z = none) : ∀ p ∈ ps, chkMacSymbName p = true := by
  induction ps generalizing z with
  | nil => intro p hp; cases hp
  | cons a r ih =>
    unfold firstInvalid at h
    split at h
    · rename_i ha
      intro p hp
      cases hp with
      | head => exact ha
      | tail _ hm => exact ih h p hm
    · cases h

theorem chkMac_ne_nil {p : Str} (h : chkMacSymbName p = true) : p ≠ [] := by
  intro e; subst e; simp [chkMacSymbName] at h

/-- **Every accepted definition has only valid, non-empty parameter names** - whatever `CodeFUNCTION` does behind the
validation loop (`ok` or a run-away loop), it does it with names that passed `ChkMacSymbName`. -/
theorem C03_function_accepted_names_valid (cs : Bool) (m : Nat) (args : List Str)
    (h : ∀ n z, codeFunction cs m args ≠ .err n z) : ∀ p ∈ args.dropLast, chkMacSymbName p = true ∧ p ≠ [] := by
  unfold codeFunction at h
  split at h
  · exact absurd rfl (h _ _)
  · simp only at h
    cases e : firstInvalid args.dropLast 1 with
    | some z => rw [e] at h; exact absurd rfl (h _ _)
    | none =>
      intro p hp
      have := firstInvalid_none e p hp
      exact ⟨this, chkMac_ne_nil this⟩

/-- **Termination of the replacement loop** for a non-empty pattern: `fuel > length of the text behind Pos` suffices. -/
theorem C03_function_replace_terminates (cs checked : Bool) (pat repl : Str) (hp : pat ≠ []) (fuel : Nat) (done rest : Str)
    (hf : rest.length < fuel) : ∃ r, replaceLoop cs checked pat repl fuel done rest = some r := by
  have hpl : 0 < pat.length := List.length_pos_iff.mpr hp
  induction fuel generalizing done rest with
  | zero => omega
  | succ f ih =>
    unfold replaceLoop
    by_cases hlen : rest.length < pat.length
    · rw [if_pos hlen]; exact ⟨_, rfl⟩
    · rw [if_neg hlen]
      split
      · apply ih
        unfold afterOf
        split
        · simp only [List.length_drop]; omega
        · simp only [List.length_drop]; omega
      · cases rest with
        | nil => exact ⟨_, rfl⟩
        | cons c r =>
          simp only
          apply ih
          simp only [List.length_cons] at hf
          omega

theorem compressAll_some (cs : Bool) (ps : List Str) (z : Nat) (s : Str) (h : ∀ p ∈ ps, p ≠ []) :
    ∃ r, compressAll cs ps z s = some r := by
  induction ps generalizing z s with
  | nil => exact ⟨s, rfl⟩
  | cons a r ih =>
    unfold compressAll
    obtain ⟨s1, e⟩ : ∃ r, compressLine cs a z s = some r := by
      unfold compressLine replaceLine
      exact C03_function_replace_terminates cs true a (token z) (h a (List.mem_cons_self ..)) _ [] s (by omega)
    rw [e]
    exact ih (z + 1) s1 (fun p hp => h p (List.mem_cons_of_mem _ hp))

/-- **`CodeFUNCTION` always ends**: for every argument list it rejects the statement or enters the function. -/
theorem C03_function_never_hangs (cs : Bool) (m : Nat) (args : List Str) : codeFunction cs m args ≠ .hang := by
  unfold codeFunction
  split
  · simp
  · simp only
    cases e : firstInvalid args.dropLast 1 with
    | some z => simp
    | none =>
      simp only
      obtain ⟨b, eb⟩ := compressAll_some cs args.dropLast 1 (args.getLast?.getD [])
        (fun p hp => chkMac_ne_nil (firstInvalid_none e p hp))
      rw [eb]
      simp

/-- **The expansion at a call ends**: the pattern is the 2-byte token. -/
theorem C03_function_expand_terminates (vals : List Str) (z : Nat) (s : Str) : ∃ r, expandAll vals z s = some r := by
  induction vals generalizing z s with
  | nil => exact ⟨s, rfl⟩
  | cons v r ih =>
    unfold expandAll
    obtain ⟨s1, e⟩ : ∃ r, expandLine ([40] ++ v ++ [41]) z s = some r := by
      unfold expandLine replaceLine
      exact C03_function_replace_terminates true false (token z) _ (by simp [token]) _ [] s (by omega)
    rw [e]
    exact ih (z + 1) s1

/-- **The guard is necessary.**  With an empty pattern (an empty parameter name that was not rejected) the
case-sensitive loop inserts the token in front of `)` again and again: whatever the fuel, it is exhausted. -/
theorem C03_function_empty_pattern_spins (z : Nat) (fuel : Nat) (done : Str)
    (hd : match done with | [] => True | c :: _ => nErl c = false) :
    replaceLoop true true [] (token z) fuel done [41] = none := by
  induction fuel generalizing done with
  | zero => rfl
  | succ f ih =>
    have hv : validPos done [41] = true := by
      unfold validPos
      cases done with
      | nil => decide
      | cons c r => simp only at hd; simp [hd]; decide
    have hb : bsAt true [] [41] = false := by decide
    unfold replaceLoop
    rw [if_neg (by simp), hb]
    simp only [matchesAt, startOf, afterOf]
    simp only [List.length_nil, List.take_zero, List.drop_zero]
    simp only [beq_self_eq_true, Bool.not_true, Bool.false_or, if_true, Bool.false_eq_true, if_false]
    rw [hv]
    simp only [Bool.and_self, if_true]
    apply ih
    simp only [token, List.reverse_cons, List.reverse_nil, List.nil_append, List.cons_append]
    simp only [nErl, AslModel.StrSymName.isLetter, AslModel.StrSymName.isDigit]
    have : z % 16 + 1 ≤ 17 := by omega
    simp
    omega

/-! ### non-vacuity -/

-- `f function x,y,x+(y)`: accepted, both names replaced by their tokens
example : codeFunction false 20 [[120], [121], [120, 43, 40, 121, 41]] = .ok [1, 2, 43, 40, 1, 3, 41] 2 := by rfl
-- `g1 function x,,x+(1)`: the empty last name is rejected at argument 2
example : codeFunction false 20 [[120], [], [120, 43, 40, 49, 41]] = .err 1020 2 := by rfl
-- `g4 function ,y,(y)`
example : codeFunction true 20 [[], [121], [40, 121, 41]] = .err 1020 1 := by rfl
-- a word is replaced only as a whole: `x,xy,x+xy`
example : codeFunction true 20 [[120], [120, 121], [120, 43, 120, 121]] = .ok [1, 2, 43, 1, 3] 2 := by rfl

end AslModel.UserFunc
