import AslModel.Lemmas.Avl
/-! C03, keyed containers: theorems about the transcription of trees.c `EnterTree` (Model/Avl.lean; SPEC = Spec/SortedSet.lean).

* `C03_tree_inorder`          - with or without -A, an insertion that returns changes the in-order walk (the order in which the listing
                                prints the symbol table) exactly as the SPEC's sorted-set insertion does;
* `C03_tree_sorted_set`       - hence after any history of definitions the walk is the sorted set of the keys, strictly ascending;
* `C03_tree_balanced_step`    - under -A one insertion into a tree with the AVL invariant (stored balance = height difference,
                                |balance| <= 1) returns - no NULL child is dereferenced -, the invariant holds again and `Result` is true
                                exactly when the height grew;
* `C03_tree_balanced_total`   - so for EVERY history of definitions from the empty tree -A never crashes and keeps the invariant;
* `C03_tree_plain_total`      - without -A there is no unchecked dereference at all;
* `C03_tree_option_immaterial`- both trees print the same symbol table.
The `none` of the model is reachable when a stored balance factor is wrong (`example` at the end): the theorems are not vacuous, and a
change of any balance assignment in the model's rotations breaks `C03_tree_balanced_step`. -/
namespace AslModel.Avl
open Tree AslModel.Spec.SortedSet

theorem C03_tree_inorder (bt : Bool) (k : Nat) (t t' : Tree) (g : Bool) (ha : Ascending (toList t)) (h : enter bt t k = some (t', g)) :
    toList t' = ins k (toList t) := enter_toList bt k t t' g ha h

theorem C03_tree_sorted_set (bt : Bool) (ks : List Nat) (t' : Tree) (h : enterAll bt nil ks = some t') :
    toList t' = sortedSet ks ∧ Ascending (toList t') := enterAll_sortedSet bt ks t' h

theorem C03_tree_balanced_step (k : Nat) (t : Tree) (hb : Bal t) :
    ∃ t' g, enter true t k = some (t', g) ∧ Bal t' ∧ height t' = height t + (if g then 1 else 0) := by
  obtain ⟨t', g, h, hb', hh, _⟩ := enter_bal k t hb
  exact ⟨t', g, h, hb', hh⟩

theorem C03_tree_balanced_total (ks : List Nat) : ∃ t', enterAll true nil ks = some t' ∧ Bal t' := by
  suffices h : ∀ (ks : List Nat) (t : Tree), Bal t → ∃ t', enterAll true t ks = some t' ∧ Bal t' from h ks nil trivial
  intro ks
  induction ks with
  | nil => intro t hb; exact ⟨t, rfl, hb⟩
  | cons k ks ih =>
    intro t hb
    obtain ⟨t1, g, h, hb1, _⟩ := enter_bal k t hb
    obtain ⟨t2, h2, hb2⟩ := ih t1 hb1
    exact ⟨t2, by simp [enterAll, h, h2], hb2⟩

theorem C03_tree_plain_total (k : Nat) (t : Tree) : ∃ t' g, enter false t k = some (t', g) := by
  induction t with
  | nil => exact ⟨_, _, rfl⟩
  | node l x b r ihl ihr =>
    obtain ⟨l', gl, hl⟩ := ihl
    obtain ⟨r', gr, hr⟩ := ihr
    unfold enter
    split
    · rw [hr]; exact ⟨_, _, rfl⟩
    · split
      · rw [hl]; exact ⟨_, _, rfl⟩
      · exact ⟨_, _, rfl⟩

/-- -A does not change what the listing prints: both trees walk to the same sequence, for every history -/
theorem C03_tree_option_immaterial (ks : List Nat) (ta tp : Tree) (ha : enterAll true nil ks = some ta) (hp : enterAll false nil ks = some tp) :
    toList ta = toList tp := by
  rw [(C03_tree_sorted_set true ks ta ha).1, (C03_tree_sorted_set false ks tp hp).1]

-- non-vacuity: a history that exercises both double rotations; the invariant is decidable on the result
example : (enterAll true nil [5, 9, 7, 1, 3, 2, 8, 6, 4]).map toList = some [1, 2, 3, 4, 5, 6, 7, 8, 9] := by decide
example : (enterAll true nil [5, 9, 7, 1, 3, 2, 8, 6, 4]).map height = some 4 := by decide
example : (enterAll false nil [1, 2, 3, 4, 5]).map height = some 5 := by decide
-- the crash the property is about is expressible: a node whose stored balance is wrong (+1 with two empty subtrees) makes the next
-- insertion on its right dereference the NULL left child of the new leaf
example : enter true (node nil 5 1 nil) 7 = none := by decide

end AslModel.Avl
