import AslModel.Lemmas.P2HexRead
import AslModel.Model.P2Hex
import AslModel.Generated.ListParams
/-! # C06 — code files with SHORT (one-byte, legacy) record headers (see DESIGN.md 4.6)

doc/file-formats.md: "Data records with a Header ranging from $01 to $7f present a shortcut …: the Header directly defines
the processor type, the target segment is fixed to CODE and the granularity is implicitly given by the processor type".
`asl` always writes the long `$81` form; BIND and ALINK shorten every record they may, old AS versions wrote only this form.

* `C06_short_header_granularity` – the MODEL of `ReadRecordHeader` gives a record with header byte h ∈ $01..$7f the fields
  (data record, family h, segment CODE, granularity = the family table's entry for (h, CODE)) – for every header byte
* `C06_reader_mixed_forms`       – the MODEL of p2hex's record loop reads a file written with any mix of short and long
  headers (short only where a reader can reconstruct the fields) to exactly its items – the same items the documented
  reader (`PFile.parseFile`, `C07_reader_mixed_forms`) returns; so address unit, lane and window of every record are those
  of the long form
* `C06_header_form_immaterial`   – hence the hex text p2hex's model writes does not depend on the header forms
* `C06_gran_table_matches_targets` – the implied granularities are the assembler's own: every family the table gives a CODE
  granularity other than 1 is assembled with exactly that granularity in CODE by every CPU of the family
  (`Generated/ListParams`: `Grans[SegCode]` per target, dumped from the current build) – so a record BIND/ALINK shortened is
  read back with the address unit asl wrote.  (The converse does not hold and need not: 14 word-addressed families - SX20,
  8X30x, KCPSM, CP-1600, 1750, 77230 … - have table entry 1; their records never satisfy `gran = Granularity(family, CODE)`,
  so BIND/ALINK leave them long.)
-/
namespace AslModel.C06
open AslModel.PFile AslModel.Tools AslModel.P2Hex AslModel.P2HexReadLemmas

/-- **Implied granularity of the short header, every header byte.**  `Generated.granularity` is `toolutils.c Granularity()`
tabulated from the current sources. -/
theorem C06_short_header_granularity (prev : Hdr) (h : Byte) (tl : List Byte) (h0 : h.toNat ≠ 0) (h1 : h.toNat < 0x80) :
    readRecordHeader prev (h :: tl) = some (⟨0x81, h, 1, b (Generated.granularity h.toNat 1)⟩, tl) :=
  read_short prev h h1 h0 tl

example : readRecordHeader default [0x70, 0, 1] = some (⟨0x81, 0x70, 1, 2⟩, [0, 1]) := by decide
example : readRecordHeader default [0x76, 9] = some (⟨0x81, 0x76, 1, 4⟩, [9]) := by decide
example : readRecordHeader default [0x51, 9] = some (⟨0x81, 0x51, 1, 1⟩, [9]) := by decide

/-- **The model of p2hex's record loop reads any mix of header forms to the file's items** (every item well formed: 32-bit
addresses, payload below 64 KiB; the short form only where `Rec.shortOK`, i.e. segment CODE, family `$01..$7f` and the
family's implied granularity - other records are written long whatever the flag says). -/
theorem C06_reader_mixed_forms (items : List (Item × Bool)) (creator : List Byte) (hwf : ∀ i ∈ items, i.1.WF) :
    readFileM (serFileForm items creator) = some (items.map (·.1)) := by
  have hm : rd16 0x89 0x14 = Generated.fileMagic := by decide
  simp only [serFileForm, magic, readFileM, List.cons_append, List.nil_append, hm, ne_eq, not_true_eq_false, if_false]
  have h := readLoop_form items creator hwf
    ((0x89 :: 0x14 :: ((items.map serItemForm).flatten ++ ([0x00] ++ creator))).length + 1) (by
      have := len_le_form items
      simp only [List.length_append, List.length_cons]; omega) default
  simpa [List.append_assoc] using h

/-- the model reader and the documented reader return the same items -/
theorem C06_reader_agrees_with_spec (items : List (Item × Bool)) (creator : List Byte) (hwf : ∀ i ∈ items, i.1.WF) :
    (parseFile (serFileForm items creator)).map (·.1) = readFileM (serFileForm items creator) := by
  rw [C06_reader_mixed_forms items creator hwf, parseFile_serFileForm items creator hwf]
  rfl

/-- **The header form is immaterial for the hex text**: a file whose records carry short headers gives, with any options
and any `(offset)`, the text of the same records with long headers. -/
theorem C06_header_form_immaterial (o : Opts) (off : Nat) (items : List (Item × Bool)) (creator : List Byte)
    (hwf : ∀ i ∈ items, i.1.WF) :
    (readFileM (serFileForm items creator)).map (fun is => p2hexFiles o [⟨is, off⟩]) =
      (readFileM (serFileForm (items.map fun i => (i.1, false)) creator)).map (fun is => p2hexFiles o [⟨is, off⟩]) := by
  have hwf' : ∀ i ∈ items.map (fun i => (i.1, false)), i.1.WF := by
    intro i hi
    simp only [List.mem_map] at hi
    obtain ⟨j, hj, rfl⟩ := hi
    exact hwf j hj
  rw [C06_reader_mixed_forms items creator hwf, C06_reader_mixed_forms _ creator hwf']
  simp [List.map_map, Function.comp_def]

/-- **The implied granularities are the ones the assembler uses.** -/
theorem C06_gran_table_matches_targets :
    ∀ p ∈ Generated.listParams, ∀ s ∈ p.segs, s.1 = 1 → Generated.granularity p.hdr 1 ≠ 1 →
      Generated.granularity p.hdr 1 = s.2.1 := by decide +kernel

example : ∃ p ∈ Generated.listParams, ∃ s ∈ p.segs, s.1 = 1 ∧ Generated.granularity p.hdr 1 = 4 ∧ p.hdr = 9 := by decide +kernel

/-- non-vacuity: a PIC 16C8x record (granularity 2) at word address $100 and a byte-addressed one, both short, and a
record that must stay long -/
def exShort : List (Item × Bool) :=
  [(.data ⟨0x70, 1, 2, 0x100, [0x01, 0x34, 0x02, 0x34]⟩, true), (.entry 0x100, true),
   (.data ⟨0x51, 1, 1, 0x8000, [1, 2, 3]⟩, true), (.data ⟨0x70, 2, 1, 0x20, [7]⟩, true)]

example : serFileForm exShort [65] =
    [0x89, 0x14, 0x70, 0, 1, 0, 0, 4, 0, 0x01, 0x34, 0x02, 0x34, 0x80, 0, 1, 0, 0, 0x51, 0, 0x80, 0, 0, 3, 0, 1, 2, 3,
     0x81, 0x70, 2, 1, 0x20, 0, 0, 0, 1, 0, 7, 0, 65] := by decide
example : readFileM (serFileForm exShort [65]) = some (exShort.map (·.1)) := by decide
example : ∀ i ∈ exShort, i.1.WF := by
  intro i hi
  simp only [exShort, List.mem_cons, List.not_mem_nil, or_false] at hi
  rcases hi with rfl | rfl | rfl | rfl <;> simp [Item.WF, Rec.WF]

end AslModel.C06
