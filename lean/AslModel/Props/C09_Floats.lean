import AslModel.Lemmas.Floats
/-!
# C09 — floating-point constants (half, extended, IBM/360 hexadecimal, TMS320C3x formats)

Property theorems only (helper lemmas: `Lemmas/Floats.lean`).  Model: `Model/Floats.lean`
(transcription of `Double_2_ieee2`, `Double_2_ieee10`, `Double2IBMFloat`, `SplitExt` /
`ExtToTIC34xShort/Single/Ext`).  Spec: `Spec/Floats.lean` (values as dyadic rationals
`(-1)^neg · m · 2^e`; decoders and nearest-even rounders written from the formats' public definitions).

A double is given by its three fields: sign `s < 2`, exponent field `E < 2048`, mantissa field
`m < 2^52` (bit pattern `s·2^63 + E·2^52 + m`), or as the bit pattern `bits < 2^64`.
`sameOpt a b = true` says: both sides are "rejected with an error" (`none`), or both are data of
exactly the same value (and sign, also for zeros).

Statements that hold for *every* double: `C09_half` (all NaNs with the quiet bit), `C09_ext80`
(every non-zero exponent field), `C09_ibm_short_lowbits`/`C09_ibm_long_lowbits` (every magnitude from
`16^-65` up, inf, NaN; they say exactly what the code computes), the `_zero`/`_special` theorems.
Where the implementation deviates from the format's nearest-even rounding the deviation is a
recorded finding with its proved negation (`C09_finding_*`), and the positive theorem carries the
hypothesis that excludes exactly that input class.
-/
namespace AslModel.C09
open AslModel.Data AslModel.Floats AslModel.FloatModel AslModel.FloatLemmas

/-! ## IEEE half precision (`DW`, `DC.C`) -/

/-- **`Double_2_ieee2` = roundTiesToEven into binary16, for every double** (except signalling NaNs):
normal results, results in the subnormal range of the half format (the code denormalises before it
rounds), underflow to a signed zero, overflow (`none`: rounded magnitude ≥ 2^16) — the statement is
rejected —, infinities and quiet NaNs. -/
theorem C09_half (bits : Nat) (hb : bits < 2 ^ 64)
    (hq : bits / 2 ^ 52 % 2048 = 2047 → bits % 2 ^ 52 ≠ 0 → 2 ^ 51 ≤ bits % 2 ^ 52) :
    sameOpt ((ieee2 bits).map decodeHalf) (roundHalf (decodeDouble bits)) = true := by
  have hd : bits = bits / 2 ^ 63 * 2 ^ 63 + bits / 2 ^ 52 % 2048 * 2 ^ 52 + bits % 2 ^ 52 := by omega
  rw [hd]
  exact half_sem (bits / 2 ^ 63) (bits / 2 ^ 52 % 2048) (bits % 2 ^ 52) (by omega) (by omega) (by omega) hq

/-- the same in terms of the three fields -/
theorem C09_half_fields (s E m : Nat) (hs : s < 2) (hE : E < 2048) (hm : m < 2 ^ 52)
    (hq : E = 2047 → m ≠ 0 → 2 ^ 51 ≤ m) :
    sameOpt ((ieee2 (s * 2 ^ 63 + E * 2 ^ 52 + m)).map decodeHalf)
      (roundHalf (decodeDouble (s * 2 ^ 63 + E * 2 ^ 52 + m))) = true :=
  half_sem s E m hs hE hm hq

-- non-vacuity: 1.0e-7 (subnormal result, the former rounding defect), 65504, 65520 (rejected), a quiet NaN
example : (ieee2 0x3e7ad7f29abcaf48).map decodeHalf = some (.fin false 2 (-24)) := by decide
example : ieee2 0x40effc0000000000 = some 0x7bff ∧ ieee2 0x40effe0000000000 = none := by decide
example : ieee2 0xfff8000000000000 = some 0xfe00 := by decide
example : (0xfff8000000000000 : Nat) / 2 ^ 52 % 2048 = 2047 → (0xfff8000000000000 : Nat) % 2 ^ 52 ≠ 0 →
    2 ^ 51 ≤ (0xfff8000000000000 : Nat) % 2 ^ 52 := by decide

/-- what the hypothesis of `C09_half` excludes: a NaN whose payload has neither bit 51 (quiet) nor
bit 24 is turned into an *infinity* ("clone MSB+LSB of mantissa").  No source text produces such a
double (`1e400-1e400` gives the quiet NaN $FFF8…), so this is a statement about the C function only. -/
theorem C09_half_signalling_nan :
    decodeDouble 0x7ff0000000000002 = .nan ∧ (ieee2 0x7ff0000000000002).map decodeHalf = some (.inf false) := by
  decide

/-! ## x87 / MC68881 extended precision (`DT`, `DC.X`) -/

/-- **`Double_2_ieee10` preserves the value exactly** for every double with a non-zero exponent field:
all normal numbers, both infinities, every NaN (stays a NaN). -/
theorem C09_ext80 (bits : Nat) (hb : bits < 2 ^ 64) (hn : bits / 2 ^ 52 % 2048 ≠ 0) :
    sameOpt (decode80 (ieee10 bits)) (some (decodeDouble bits)) = true := by
  have hd : bits = bits / 2 ^ 63 * 2 ^ 63 + bits / 2 ^ 52 % 2048 * 2 ^ 52 + bits % 2 ^ 52 := by omega
  rw [hd]
  exact ext80_sem (bits / 2 ^ 63) (bits / 2 ^ 52 % 2048) (bits % 2 ^ 52) (by omega) (by omega) (by omega) (by omega)

example : ieee10 0xbff8000000000000 = 0xbfffc000000000000000 := by decide
example : decode80 (ieee10 0x7ff0000000000000) = some (.inf false) := by decide

/-- **finding `ext80-of-zero-or-denormal-double`, for the whole class**: for a zero or subnormal double the
image has exponent field $3C00 and integer bit 0 — an "unnormal", not a valid extended operand (and read with
the integer bit ignored it is not the value either: zero would have to be all zero, `m·2^-1074` is `m·2^(11-63)·2^(15361-16383)`). -/
theorem C09_finding_ext80_zero_or_subnormal (s m : Nat) (hs : s < 2) (hm : m < 2 ^ 52) :
    ieee10 (s * 2 ^ 63 + 0 * 2 ^ 52 + m) = s * 2 ^ 79 + 0x3c00 * 2 ^ 64 + m * 2 ^ 11 ∧
    decode80 (ieee10 (s * 2 ^ 63 + 0 * 2 ^ 52 + m)) = none :=
  ext80_zero_or_subnormal s m hs hm

/-! ## IBM/360 hexadecimal floating point (TMS99xx `SINGLE`, `DOUBLE`; MN161x `DC`)

`t` is the number of alignment shifts of step (2) of `Double2IBMFloat`: `t ∈ {1,2,3,4}` with
`Exponent + t ≡ 0 (mod 4)`.  The loop shifts `Fraction` right as well, so the lowest `t` bits of the
double's mantissa are dropped *before* rounding (short) resp. storing (long). -/

/-- **short format, what the code computes**: nearest-even rounding of the double *with its lowest `t`
mantissa bits cleared*; range error exactly when that rounding is `16^63` or more.  All doubles of
magnitude ≥ 16^-65 (exponent field ≥ 763). -/
theorem C09_ibm_short_lowbits (s E m t : Nat) (hs : s < 2) (hE1 : 763 ≤ E) (hE2 : E ≤ 2046) (hm : m < 2 ^ 52)
    (ht : t = 1 ∨ t = 2 ∨ t = 3 ∨ t = 4) (het : ((E : Int) - 1023 + t) % 4 = 0) :
    sameOpt ((ibmFloat false (s * 2 ^ 63 + E * 2 ^ 52 + m)).map (decodeIBM 24))
      (roundIBM fmtIBMShort (decodeDouble (s * 2 ^ 63 + E * 2 ^ 52 + m / 2 ^ t * 2 ^ t))) = true :=
  ibm_short_sem s E m t hs hE1 hE2 hm ht het

/-- **short format = nearest-even rounding of the value** whenever the `t` lowest mantissa bits are zero
(full statement without that hypothesis: false, `C09_finding_ibm_short_sticky`). -/
theorem C09_ibm_short_partial (s E m t : Nat) (hs : s < 2) (hE1 : 763 ≤ E) (hE2 : E ≤ 2046) (hm : m < 2 ^ 52)
    (ht : t = 1 ∨ t = 2 ∨ t = 3 ∨ t = 4) (het : ((E : Int) - 1023 + t) % 4 = 0) (hlow : m % 2 ^ t = 0) :
    sameOpt ((ibmFloat false (s * 2 ^ 63 + E * 2 ^ 52 + m)).map (decodeIBM 24))
      (roundIBM fmtIBMShort (decodeDouble (s * 2 ^ 63 + E * 2 ^ 52 + m))) = true := by
  have h := ibm_short_sem s E m t hs hE1 hE2 hm ht het
  have : m / 2 ^ t * 2 ^ t = m := by
    have := Nat.div_add_mod m (2 ^ t)
    rw [hlow, Nat.add_zero, Nat.mul_comm] at this
    exact this
  rw [this] at h
  exact h

-- non-vacuity: 0.1 (E = 1019, t = 4; low bits $A ≠ 0 but only the sticky information is lost), 1.0, 7.2e75 (rejected)
example : ((1019 : Int) - 1023 + (4 : Nat)) % 4 = 0 ∧ ibmFloat false 0x3fb999999999999a = some 0x4019999a := by decide
example : ibmFloat false 0x3ff0000000000000 = some 0x41100000 ∧ (0 : Nat) % 2 ^ 1 = 0 := by decide
example : ibmFloat false 0x4fb0000000000000 = none := by decide

/-- **long format, what the code computes**: the value of the double with its lowest `t` mantissa bits
cleared, exactly (the 56-bit fraction could hold them: the four low fraction bits are always zero). -/
theorem C09_ibm_long_lowbits (s E m t : Nat) (hs : s < 2) (hE1 : 763 ≤ E) (hE2 : E ≤ 2046) (hm : m < 2 ^ 52)
    (ht : t = 1 ∨ t = 2 ∨ t = 3 ∨ t = 4) (het : ((E : Int) - 1023 + t) % 4 = 0) :
    sameOpt ((ibmFloat true (s * 2 ^ 63 + E * 2 ^ 52 + m)).map (decodeIBM 56))
      (roundIBM fmtIBMLong (decodeDouble (s * 2 ^ 63 + E * 2 ^ 52 + m / 2 ^ t * 2 ^ t))) = true :=
  ibm_long_sem s E m t hs hE1 hE2 hm ht het

/-- **long format = the value, exactly**, whenever the `t` lowest mantissa bits are zero
(full statement: false, `C09_finding_ibm_long_drops_bits`). -/
theorem C09_ibm_long_partial (s E m t : Nat) (hs : s < 2) (hE1 : 763 ≤ E) (hE2 : E ≤ 2046) (hm : m < 2 ^ 52)
    (ht : t = 1 ∨ t = 2 ∨ t = 3 ∨ t = 4) (het : ((E : Int) - 1023 + t) % 4 = 0) (hlow : m % 2 ^ t = 0) :
    sameOpt ((ibmFloat true (s * 2 ^ 63 + E * 2 ^ 52 + m)).map (decodeIBM 56))
      (roundIBM fmtIBMLong (decodeDouble (s * 2 ^ 63 + E * 2 ^ 52 + m))) = true := by
  have h := ibm_long_sem s E m t hs hE1 hE2 hm ht het
  have : m / 2 ^ t * 2 ^ t = m := by
    have := Nat.div_add_mod m (2 ^ t)
    rw [hlow, Nat.add_zero, Nat.mul_comm] at this
    exact this
  rw [this] at h
  exact h

example : ibmFloat true 0x3ff8000000000000 = some 0x4118000000000000 := by decide

/-- zero keeps its sign and has characteristic and fraction zero; this is what the specification demands -/
theorem C09_ibm_zero (s : Nat) (hs : s < 2) :
    ibmFloat false (s * 2 ^ 63) = some (s * 2 ^ 31) ∧ ibmFloat true (s * 2 ^ 63) = some (s * 2 ^ 63) ∧
    sameOpt ((ibmFloat false (s * 2 ^ 63)).map (decodeIBM 24)) (roundIBM fmtIBMShort (decodeDouble (s * 2 ^ 63))) = true ∧
    sameOpt ((ibmFloat true (s * 2 ^ 63)).map (decodeIBM 56)) (roundIBM fmtIBMLong (decodeDouble (s * 2 ^ 63))) = true :=
  ibm_zero s hs

/-- infinities and NaNs: range error in both formats (they have no IBM encoding) -/
theorem C09_ibm_special (td : Bool) (s m : Nat) (hs : s < 2) (hm : m < 2 ^ 52) :
    sameOpt ((ibmFloat td (s * 2 ^ 63 + 2047 * 2 ^ 52 + m)).map (decodeIBM (if td then 56 else 24)))
      (roundIBM (if td then fmtIBMLong else fmtIBMShort) (decodeDouble (s * 2 ^ 63 + 2047 * 2 ^ 52 + m))) = true :=
  ibm_special td s 2047 m hs rfl hm

/-- **finding `ibm-float-alignment-drops-low-bits`** (short): `SINGLE 1+2^-21+2^-52` is above the midpoint of
$41100000 and $41100001 but is rounded down — the sticky bit was shifted out of `Fraction`. -/
theorem C09_finding_ibm_short_sticky :
    ibmFloat false 0x3ff0000080000001 = some 0x41100000 ∧
    roundIBM fmtIBMShort (decodeDouble 0x3ff0000080000001) = some (decodeIBM 24 0x41100001) := by
  decide +kernel

/-- **finding `ibm-float-alignment-drops-low-bits`** (long): `DOUBLE 0.1` is stored as $4019999999999990, the
exact value is $401999999999999A (representable: 56-bit fraction). -/
theorem C09_finding_ibm_long_drops_bits :
    ibmFloat true 0x3fb999999999999a = some 0x4019999999999990 ∧
    roundIBM fmtIBMLong (decodeDouble 0x3fb999999999999a) = some (decodeIBM 56 0x401999999999999a) := by
  decide +kernel

/-- **finding `ibm-float-underflow-not-rounded`**: below `16^-65` the mantissa is denormalised by plain
truncation after it was rounded at the normalised position (`SINGLE 1e-80`: $00004BE2, nearest is $00004BE3),
and in the long format `Fraction` is not shifted at all (`DOUBLE 1e-80`: low 32 bits are those of the
normalised number). -/
theorem C09_finding_ibm_underflow :
    ibmFloat false 0x2f52f8ac174d6123 = some 0x00004be2 ∧
    roundIBM fmtIBMShort (decodeDouble 0x2f52f8ac174d6123) = some (decodeIBM 24 0x00004be3) ∧
    ibmFloat true 0x2f52f8ac174d6123 = some 0x00004be2bd358480 ∧
    (roundIBM fmtIBMLong (decodeDouble 0x2f52f8ac174d6123)).map (fun v => v.same (decodeIBM 56 0x00004be2bd358480)) = some false := by
  decide +kernel

/-! ## TMS320C3x/C4x (`SINGLE`, `EXTENDED`, `DATA`, float immediates)

`SplitExt` cuts the significand to 32 bits and the callers cut further (`>> 8`, `>> 20`), i.e. the
conversions do not round (finding `ti-c3x-mantissa-truncated-not-rounded`).  Hence the hypothesis
`m % 2^k = 0` (the value has an exact encoding) of the `_partial` theorems.  A negative number whose
negated 32-bit mantissa is exactly $80000000 (`-1.0·2^n`) is re-expressed by `SplitExt` as `-2.0·2^(n-1)`
(mantissa field 0, exponent decremented) — the repaired behaviour, `C09_ti_negative_power_of_two`. -/

/-- **single (8+1+23)**: value preserved, and a range error exactly when the format has no encoding
(positive: exponent outside -127..127; `-2^k`: `k` outside -126..128) -/
theorem C09_ti_single_partial (s E m : Nat) (hs : s < 2) (hE0 : 0 < E) (hE : E < 2047) (hm : m < 2 ^ 52)
    (hex : m % 2 ^ 29 = 0) :
    sameOpt ((tiSingle (s * 2 ^ 63 + E * 2 ^ 52 + m)).map (decodeTI 8 23))
      (roundTI 8 23 (decodeDouble (s * 2 ^ 63 + E * 2 ^ 52 + m))) = true :=
  ti_single_exact s E m hs hE0 hE hm hex

/-- **extended (8+1+31)** -/
theorem C09_ti_ext_partial (s E m : Nat) (hs : s < 2) (hE0 : 0 < E) (hE : E < 2047) (hm : m < 2 ^ 52)
    (hex : m % 2 ^ 21 = 0) :
    sameOpt ((tiExt (s * 2 ^ 63 + E * 2 ^ 52 + m)).map (decodeTI 8 31))
      (roundTI 8 31 (decodeDouble (s * 2 ^ 63 + E * 2 ^ 52 + m))) = true :=
  ti_ext_exact s E m hs hE0 hE hm hex

/-- **short (4+1+11)**, exponent range -7..7 -/
theorem C09_ti_short_partial (s E m : Nat) (hs : s < 2) (hE0 : 0 < E) (hE : E < 2047) (hm : m < 2 ^ 52)
    (hex : m % 2 ^ 41 = 0) :
    sameOpt ((tiShort (s * 2 ^ 63 + E * 2 ^ 52 + m)).map (decodeTI 4 11))
      (roundTI 4 11 (decodeDouble (s * 2 ^ 63 + E * 2 ^ 52 + m))) = true :=
  ti_short_exact s E m hs hE0 hE hm hex

-- non-vacuity: -3.0 (negative, not a power of two), -1.0, 1.5, 2^128 (rejected), -2^128 (representable)
example : tiSingle 0xc008000000000000 = some 0x01c00000 ∧ (0x8000000000000 : Nat) % 2 ^ 29 = 0 := by decide
example : tiSingle 0xbff0000000000000 = some 0xff800000 ∧ tiShort 0xbff0000000000000 = some 0xf800 := by decide
example : tiShort 0x3ff8000000000000 = some 0x0400 ∧ tiExt 0xbff8000000000000 = some 0x00c0000000 := by decide
example : tiSingle 0x47f0000000000000 = none ∧ tiShort 0x4070000000000000 = none ∧
    tiSingle 0xc7f0000000000000 = some 0x7f800000 := by decide

/-- **negative powers of two and their neighbours, whole class** (sign 1, the 31 leading mantissa bits zero,
i.e. `-2^k·(1+x)` with `x < 2^-31`): every conversion emits exactly `-2^k` = `-2.0·2^(k-1)` — sign bit 1,
fraction 0, exponent field `k-1` — and reports a range error exactly when `k-1` is outside the exponent
range (`SINGLE -1.0` → $FF800000, `-2.0` → $00800000, `LDF -1.0,R0` → immediate $F800). -/
theorem C09_ti_negative_power_of_two (E m : Nat) (hE0 : 0 < E) (hE : E < 2048) (hm : m < 2 ^ 21) :
    (tiSingle (1 * 2 ^ 63 + E * 2 ^ 52 + m)).map (decodeTI 8 23) =
      (if 1024 - 127 ≤ E ∧ E ≤ 1024 + 127 then some (.fin true (2 ^ 24) ((E : Int) - 1046 - 1)) else none) ∧
    (tiExt (1 * 2 ^ 63 + E * 2 ^ 52 + m)).map (decodeTI 8 31) =
      (if 1024 - 127 ≤ E ∧ E ≤ 1024 + 127 then some (.fin true (2 ^ 32) ((E : Int) - 1054 - 1)) else none) ∧
    (tiShort (1 * 2 ^ 63 + E * 2 ^ 52 + m)).map (decodeTI 4 11) =
      (if 1024 - 7 ≤ E ∧ E ≤ 1024 + 7 then some (.fin true (2 ^ 12) ((E : Int) - 1034 - 1)) else none) :=
  ⟨ti_single_negpow E m hE0 hE hm, ti_ext_negpow E m hE0 hE hm, ti_short_negpow E m hE0 hE hm⟩

/-- the instance `-1.0`: $FF800000, the value `-1.0` (`2^24·2^-24`), which is what the format demands -/
theorem C09_ti_minus_one :
    tiSingle 0xbff0000000000000 = some 0xff800000 ∧
    (tiSingle 0xbff0000000000000).map (decodeTI 8 23) = some (.fin true (2 ^ 24) (-24)) ∧
    sameOpt ((tiSingle 0xbff0000000000000).map (decodeTI 8 23)) (roundTI 8 23 (decodeDouble 0xbff0000000000000)) = true := by
  decide

/-- **what the three conversions compute, for every other normal double in the exponent range** (no hypothesis on
the low mantissa bits): positive numbers are cut towards zero; negative numbers are cut to 32 significand bits
towards zero, negated, and the two's-complement mantissa is cut again, i.e. towards minus infinity (`ceil`).
Together with `C09_ti_negative_power_of_two`, `C09_ti_range`, `C09_ti_zero`, `C09_ti_special` and
`C09_ti_subnormal` every double is covered. -/
theorem C09_ti_computes (s E m : Nat) (hs : s < 2) (hm : m < 2 ^ 52) (hnp : ¬ (s = 1 ∧ m / 2 ^ 21 = 0)) :
    (1023 - 127 ≤ E → E ≤ 1023 + 127 →
      (tiSingle (s * 2 ^ 63 + E * 2 ^ 52 + m)).map (decodeTI 8 23) =
        some (if s = 1 then .fin true (2 ^ 23 + (m / 2 ^ 21 + 255) / 2 ^ 8) ((E : Int) - 1046)
              else .fin false (2 ^ 23 + m / 2 ^ 29) ((E : Int) - 1046))) ∧
    (1023 - 127 ≤ E → E ≤ 1023 + 127 →
      (tiExt (s * 2 ^ 63 + E * 2 ^ 52 + m)).map (decodeTI 8 31) =
        some (if s = 1 then .fin true (2 ^ 31 + m / 2 ^ 21) ((E : Int) - 1054)
              else .fin false (2 ^ 31 + m / 2 ^ 21) ((E : Int) - 1054))) ∧
    (1023 - 7 ≤ E → E ≤ 1023 + 7 →
      (tiShort (s * 2 ^ 63 + E * 2 ^ 52 + m)).map (decodeTI 4 11) =
        some (if s = 1 then .fin true (2 ^ 11 + (m / 2 ^ 21 + 1048575) / 2 ^ 20) ((E : Int) - 1034)
              else .fin false (2 ^ 11 + m / 2 ^ 41) ((E : Int) - 1034))) :=
  ⟨fun h1 h2 => ti_single_computes s E m hs h1 h2 hm hnp, fun h1 h2 => ti_ext_computes s E m hs h1 h2 hm hnp,
   fun h1 h2 => ti_short_computes s E m hs h1 h2 hm hnp⟩

-- -(1 + 2^-24) is cut towards minus infinity: -(1 + 2^-23); -(1 + 2^-32) comes out as -1.0
example : (tiSingle 0xbff0000010000000).map (decodeTI 8 23) = some (.fin true (2 ^ 23 + 1) (-23)) := by decide
example : ¬ ((1 : Nat) = 1 ∧ (0x10000000 : Nat) / 2 ^ 21 = 0) := by decide
example : (tiSingle 0xbff0000000100000).map (decodeTI 8 23) = some (.fin true (2 ^ 24) (-24)) := by decide

/-- normal doubles outside the exponent range (-127..127, short: -7..7) are rejected
(negative numbers with `m < 2^21`: see `C09_ti_negative_power_of_two`) -/
theorem C09_ti_range (s E m : Nat) (hs : s < 2) (hE0 : 0 < E) (hE : E < 2048) (hm : m < 2 ^ 52)
    (hnp : ¬ (s = 1 ∧ m / 2 ^ 21 = 0)) :
    ((E < 1023 - 127 ∨ 1023 + 127 < E) → tiSingle (s * 2 ^ 63 + E * 2 ^ 52 + m) = none ∧ tiExt (s * 2 ^ 63 + E * 2 ^ 52 + m) = none) ∧
    ((E < 1023 - 7 ∨ 1023 + 7 < E) → tiShort (s * 2 ^ 63 + E * 2 ^ 52 + m) = none) :=
  ⟨fun h => ⟨ti_single_range s E m hs hE0 hE hm hnp h, ti_ext_range s E m hs hE0 hE hm hnp h⟩,
   fun h => ti_short_range s E m hs hE0 hE hm hnp h⟩

/-- subnormal doubles are rejected (all of them are below `2^-127`) -/
theorem C09_ti_subnormal (s m : Nat) (hs : s < 2) (hm0 : 0 < m) (hm : m < 2 ^ 52) :
    tiShort (s * 2 ^ 63 + 0 * 2 ^ 52 + m) = none ∧ tiSingle (s * 2 ^ 63 + 0 * 2 ^ 52 + m) = none ∧
    tiExt (s * 2 ^ 63 + 0 * 2 ^ 52 + m) = none :=
  ti_subnormal s m hs hm0 hm

/-- zero of either sign: the formats' single zero -/
theorem C09_ti_zero (s : Nat) (hs : s < 2) :
    sameOpt ((tiShort (s * 2 ^ 63)).map (decodeTI 4 11)) (roundTI 4 11 (decodeDouble (s * 2 ^ 63))) = true ∧
    sameOpt ((tiSingle (s * 2 ^ 63)).map (decodeTI 8 23)) (roundTI 8 23 (decodeDouble (s * 2 ^ 63))) = true ∧
    sameOpt ((tiExt (s * 2 ^ 63)).map (decodeTI 8 31)) (roundTI 8 31 (decodeDouble (s * 2 ^ 63))) = true :=
  ti_zero s hs

/-- infinities and NaNs are rejected by all three conversions, as the specification demands -/
theorem C09_ti_special (s m : Nat) (hs : s < 2) (hm : m < 2 ^ 52) :
    tiShort (s * 2 ^ 63 + 2047 * 2 ^ 52 + m) = none ∧ tiSingle (s * 2 ^ 63 + 2047 * 2 ^ 52 + m) = none ∧
    tiExt (s * 2 ^ 63 + 2047 * 2 ^ 52 + m) = none ∧
    (∀ ew mw, roundTI ew mw (decodeDouble (s * 2 ^ 63 + 2047 * 2 ^ 52 + m)) = none) :=
  ti_special s 2047 m hs rfl hm

/-- **finding `ti-c3x-mantissa-truncated-not-rounded`**: `SINGLE 1.9999999999999998` gives $007FFFFF
(= 2 - 2^-23); the nearest single is 2.0 = $01000000. -/
theorem C09_finding_ti_truncation :
    (tiSingle 0x3fffffffffffffff).map (decodeTI 8 23) = some (.fin false (2 ^ 24 - 1) (-23)) ∧
    roundTI 8 23 (decodeDouble 0x3fffffffffffffff) = some (.fin false (2 ^ 24) (-23)) ∧
    (decodeTI 8 23 0x01000000).same (.fin false (2 ^ 24) (-23)) = true := by
  decide

end AslModel.C09
