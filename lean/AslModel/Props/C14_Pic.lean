import AslModel.Lemmas.IsaPic
/-!
# C14, target PIC16C8x (code16c8x.c; CPUs 16C64, 16C84, 16C873, 16C874, 16C876, 16C877)

MODEL = the decode handlers of code16c8x.c over the `InstTable` and the handler constants regenerated from the C
source (`Generated/Isa_Pic.lean`); SPEC = Microchip's 14-bit opcode map as a decoder, the legality predicate of
source statements and the meaning of a statement as a list of machine instructions (`Spec/Isa/IPic.lean`).
Theorems quantify over **all** 38 mnemonics of the SPEC, all operand values (`Int`), all statement addresses
(`pc : Nat`, in words) and all six CPUs of the family.

`Cfg` carries the range constants of the handlers; `CfgOk cfg` says that they are the ones the proofs were carried out
for (IntType of every operand evaluation, program-memory limits per CPU, lower limit of `TRIS`), with the upper limit
of `TRIS` left open (6 or 7 per CPU): the pinned tree has 6 for every CPU (finding `pic16c8x-tris-portc-rejected`),
the data sheets give 7 for the devices with a PORTC.
-/
namespace AslModel.C14
open AslModel.PFile (Byte b b_toNat)
open AslModel.Isa
open AslModel.Spec.IPic AslModel.Isa.IPic AslModel.Generated.IsaPic

/-- Table obligation: every mnemonic of the SPEC is in the `InstTable` that the current `InitFields()` builds, with a
handler of the operand form the data sheet gives, a code word that leaves the operand fields clear and whose opcode
bits the SPEC's opcode map assigns to this mnemonic (for `ADDWF`-type entries also: the packed default destination is
the one the AS manual documents); nothing else is registered as an instruction; the CPU order is the one of the SPEC's
device table. -/
theorem C14_pic_table :
    Mn.all.all (fun m => match IPic.lookup m with | some h => IPic.Good m h | none => false) = true ∧
    notModelled = [] ∧
    cpuNames = ["CPU16C64", "CPU16C84", "CPU16C873", "CPU16C874", "CPU16C876", "CPU16C877"] ∧
    cpuNames.length = cpuCount :=
  ⟨IPic.table_good, by decide, by decide, by decide⟩

/-- The constants extracted from the decode handlers and from `SwitchTo_16c8x()` are the ones the theorems below
cover (`TRIS` upper limit 6 or 7 for each CPU). -/
theorem C14_pic_cfg : CfgOk genCfg = true := by decide

/-- **Soundness**: whenever the code generator emits bytes for a statement, Microchip's opcode map decodes exactly
these bytes - all of them, word by word - to the machine instructions the statement denotes: mnemonic, file-register
offset inside its bank, destination / bit number, 8-bit literal (two's complement), and for `CALL`/`GOTO` the
`BCF/BSF PCLATH,3|4` corrections for the page bits in which statement address and target differ, followed by the
jump with the low 11 target bits; for `BANKSEL` the two `BCF/BSF STATUS,RP0|RP1`. -/
theorem C14_pic_sound (cfg : Cfg) (hc : CfgOk cfg = true) (cpu pc : Nat) (hcpu : cpu < cpuCount)
    (s : Src) (bs : List Byte) (h : encode cfg cpu pc s = .ok bs) :
    decode bs = some (meaning cpu pc s, bs.length) := by
  obtain ⟨tm, rfl, hlen, hall⟩ := cfgOk_elim cfg hc
  exact encode_sound tm hlen hall cpu pc hcpu s bs h

example : CfgOk genCfg = true ∧ (4 : Nat) < cpuCount ∧
    okBytes (encode genCfg 4 0x7ff ⟨.GOTO, [0x1800]⟩) = some [b 0x8a, b 0x15, b 0x0a, b 0x16, b 0x00, b 0x28] := by decide
example : okBytes (encode genCfg 1 0x10 ⟨.BSF, [500, 6]⟩) = some [b 0x74, b 0x17] ∧
    okBytes (encode genCfg 1 0x10 ⟨.MOVLW, [-2]⟩) = some [b 0xfe, b 0x30] ∧
    okBytes (encode genCfg 1 0x10 ⟨.COMF, [9]⟩) = some [b 0x89, b 0x09] := by decide

/-- **Range**, general form: a statement is assembled iff the SPEC calls it legal - right operand count, data
address inside the 512 locations of the data space, destination 0/1, bit number 0..7, literal -128..255, `CALL/GOTO`
target inside the program memory of the selected device, `TRIS` 5..(6 or 7 by device), `BANKSEL` address 0..511.  One
past a limit is rejected, never truncated.  Side condition (only for `TRIS`): the upper limit `DecodeTRIS` uses for this
CPU is the device's. -/
theorem C14_pic_range_partial (cfg : Cfg) (hc : CfgOk cfg = true) (cpu pc : Nat) (hcpu : cpu < cpuCount) (s : Src)
    (hside : s.mn = .TRIS → cfg.trisMax[cpu]? = some (trisMax cpu)) :
    legal cpu pc s = isOk (encode cfg cpu pc s) := by
  obtain ⟨tm, rfl, _, _⟩ := cfgOk_elim cfg hc
  exact encode_ok tm cpu pc hcpu s hside

/-- **Range** for a `DecodeTRIS` whose upper limit follows the device (5..6 on the 16C84, 5..7 on the devices with a
PORTC): `legal ↔ accepted`, no side condition. -/
theorem C14_pic_range (cfg : Cfg) (hc : CfgOk cfg = true) (ht : cfg.trisMax = [7, 6, 7, 7, 7, 7])
    (cpu pc : Nat) (hcpu : cpu < cpuCount) (s : Src) :
    legal cpu pc s = true ↔ isOk (encode cfg cpu pc s) = true := by
  rw [C14_pic_range_partial cfg hc cpu pc hcpu s]
  intro _
  rw [ht]
  have : cpu = 0 ∨ cpu = 1 ∨ cpu = 2 ∨ cpu = 3 ∨ cpu = 4 ∨ cpu = 5 := by unfold cpuCount at hcpu; omega
  rcases this with rfl | rfl | rfl | rfl | rfl | rfl <;> rfl

/-- Range for the pinned `DecodeTRIS` (`ChkRange(AdrWord, 5, 6)` on every CPU): everything except `TRIS` on the devices
other than the 16C84. -/
theorem C14_pic_range_pinned (cfg : Cfg) (hc : CfgOk cfg = true) (ht : cfg.trisMax = [6, 6, 6, 6, 6, 6])
    (cpu pc : Nat) (hcpu : cpu < cpuCount) (s : Src) (hside : s.mn = .TRIS → cpu = 1) :
    legal cpu pc s = true ↔ isOk (encode cfg cpu pc s) = true := by
  rw [C14_pic_range_partial cfg hc cpu pc hcpu s]
  intro hm
  rw [ht, hside hm]
  rfl

/-- the current tree is in one of the two situations the range theorems are stated for -/
example : genCfg.trisMax = [6, 6, 6, 6, 6, 6] ∨ genCfg.trisMax = [7, 6, 7, 7, 7, 7] := by decide
example : legal 1 0 ⟨.MOVWF, [511]⟩ = true ∧ legal 1 0 ⟨.MOVWF, [512]⟩ = false ∧ legal 1 0 ⟨.MOVWF, [-1]⟩ = false ∧
    legal 1 0 ⟨.GOTO, [1023]⟩ = true ∧ legal 1 0 ⟨.GOTO, [1024]⟩ = false ∧ legal 0 0 ⟨.GOTO, [1024]⟩ = true ∧
    legal 1 0 ⟨.BCF, [3, 7]⟩ = true ∧ legal 1 0 ⟨.BCF, [3, 8]⟩ = false ∧ legal 1 0 ⟨.ADDWF, [3, 2]⟩ = false ∧
    legal 1 0 ⟨.TRIS, [7]⟩ = false ∧ legal 0 0 ⟨.TRIS, [7]⟩ = true := by decide

/-- **Page-relative targets**: for an accepted `CALL`/`GOTO` the emitted words decode to a sequence that, executed from
`PCLATH<4:3>` = bits 12:11 of the statement's address (the assumption the AS manual states), transfers control to
exactly the target address of the statement: `PC<10:0>` from the jump word, `PC<12:11>` from `PCLATH` as left by the
inserted `BCF/BSF PCLATH` instructions; and the target lies inside the device's program memory. -/
theorem C14_pic_rel (cfg : Cfg) (hc : CfgOk cfg = true) (cpu pc : Nat) (hcpu : cpu < cpuCount)
    (mn : Mn) (hmn : mn = .CALL ∨ mn = .GOTO) (a : Int) (bs : List Byte)
    (h : encode cfg cpu pc ⟨mn, [a]⟩ = .ok bs) :
    ∃ is, decode bs = some (is, bs.length) ∧ runJump (pc / 2048 % 4) is = some a.toNat ∧
      0 ≤ a ∧ a < romWords cpu := by
  have hs := C14_pic_sound cfg hc cpu pc hcpu ⟨mn, [a]⟩ bs h
  have hl : legal cpu pc ⟨mn, [a]⟩ = true := by
    rw [C14_pic_range_partial cfg hc cpu pc hcpu ⟨mn, [a]⟩ (by rcases hmn with rfl | rfl <;> intro hh <;> cases hh), h]; rfl
  have hf : form mn = .addr := by rcases hmn with rfl | rfl <;> rfl
  have hr : 0 ≤ a ∧ a ≤ (romWords cpu : Int) - 1 := by
    simpa [legal, hf, inR_iff] using hl
  have hle := romWords_le cpu
  have hm : meaning cpu pc ⟨mn, [a]⟩ = pageFix pc a.toNat ++ [⟨mn, [a.toNat % 2048]⟩] := by simp [meaning, hf]
  refine ⟨_, hs, ?_, hr.1, by omega⟩
  rw [hm]
  exact runJump_pageFix pc a.toNat (by omega) mn hmn

example : isOk (encode genCfg 4 0x17fe ⟨.CALL, [0x0123]⟩) = true := by decide

/-- **Banked data addresses**: an accepted `BANKSEL a` decodes to the two instructions that load `STATUS<RP1:RP0>` with
the bank number `a div 128` (and `a` is a data address 0..511) - together with the offset `a mod 128` that the
`f`-operand instructions hold (`C14_pic_sound`), no bit of a data address is lost without being placed somewhere. -/
theorem C14_pic_bank (cfg : Cfg) (hc : CfgOk cfg = true) (cpu pc : Nat) (hcpu : cpu < cpuCount) (a : Int) (bs : List Byte)
    (h : encode cfg cpu pc ⟨.BANKSEL, [a]⟩ = .ok bs) :
    ∃ is, decode bs = some (is, bs.length) ∧ runBank is = some (a.toNat / 128) ∧ 0 ≤ a ∧ a ≤ 511 := by
  have hs := C14_pic_sound cfg hc cpu pc hcpu ⟨.BANKSEL, [a]⟩ bs h
  have hl : legal cpu pc ⟨.BANKSEL, [a]⟩ = true := by
    rw [C14_pic_range_partial cfg hc cpu pc hcpu ⟨.BANKSEL, [a]⟩ (by intro hh; cases hh), h]; rfl
  have hr : 0 ≤ a ∧ a ≤ 511 := by
    simpa [legal, form, inR_iff, dataSize] using hl
  have hm : meaning cpu pc ⟨.BANKSEL, [a]⟩ =
      [setBit fSTATUS bitRP0 (abit a.toNat 7), setBit fSTATUS bitRP1 (abit a.toNat 8)] := by simp [meaning, form]
  refine ⟨_, hs, ?_, hr.1, hr.2⟩
  rw [hm, runBank_set _ _ (abit_lt _ 7) (abit_lt _ 8)]
  have e7 : abit a.toNat 7 = a.toNat / 128 % 2 := rfl
  have e8 : abit a.toNat 8 = a.toNat / 256 % 2 := rfl
  rw [e7, e8]
  congr 1
  omega

example : okBytes (encode genCfg 1 0x40 ⟨.BANKSEL, [0x185]⟩) = some [b 0x83, b 0x16, b 0x03, b 0x17] := by decide

/-- **Known finding** (`pic16c8x-tris-portc-rejected`): with the pinned `ChkRange(AdrWord, 5, 6)` the legal statement
`TRIS 7` (PORTC; word 0067h in the opcode map) is rejected on every device that has a PORTC, here the 16C64; `TRIS 6` is
assembled. -/
theorem C14_finding_pic_tris_portc (cfg : Cfg) (hc : CfgOk cfg = true) (ht : cfg.trisMax = [6, 6, 6, 6, 6, 6]) (pc : Nat) :
    legal 0 pc ⟨.TRIS, [7]⟩ = true ∧ isOk (encode cfg 0 pc ⟨.TRIS, [7]⟩) = false ∧
    decode [b 0x67, b 0x00] = some ([⟨.TRIS, [7]⟩], 2) ∧
    okBytes (encode cfg 0 pc ⟨.TRIS, [6]⟩) = some [b 0x66, b 0x00] := by
  obtain ⟨tm, rfl, _, _⟩ := cfgOk_elim cfg hc
  have ht' : tm = [6, 6, 6, 6, 6, 6] := ht
  subst ht'
  exact ⟨rfl, rfl, by decide, rfl⟩

end AslModel.C14
