import AslModel.Lemmas.ExprLex
import AslModel.Lemmas.ExprEval
import AslModel.Props.C08
/-!
# C08, part "from tokens to text": tokenising the rendered formula gives `toks f`

`Props/C08.lean` proves the parse theorem on `toks f`; that the character loop of `EvalStrExpression` (as tokeniser `lexW`,
`Model/Expr.lean`: blanks, brackets, commas, quotes, the candidate loop over `Operators[]` with `IdLen >= OpLen`, words read by
`ConstIntVal`) cuts the rendered TEXT into exactly these tokens was compared per generated case (driver field `lex`).  Here it
is a theorem.

Full statement wanted: `∀ f, lex q (render f) = toks f` (up to the float-bit / name-case equality of the driver's `toksBEq`).
Proved: for every formula of the fragment `IntF` -
* literals: integer literals of ANY 64-bit value in the notation `render` writes (`renderInt`: decimal digits for values below
  2^63, `$` + upper-case hexadecimal digits of the 64-bit pattern above - the Motorola notation of the correspondence's target);
* operators: the three monadic and all 22 dyadic operators of the manual's table, nested to any depth;
* parentheses: the minimal parentheses of `render` (rank rule), no redundant ones;
* function calls `NAME(a)`, `NAME(a,b)`, `NAME(a,b,c)` of the 17 functions of `Fn` (upper-case names);
* spacing: none - the text `render` writes contains no blank (blank handling of the tokeniser is not covered).
Not covered (still compared per run through `lex`): float literals (`renderFloat`, `ConstFloatVal`), string and character
constants (`renderStr`, `.sc` items, `\{…}`), the alternative spelling `renderSq`.

The theorem holds for every `ev` (the evaluator of `\{…}` inside string constants), since the fragment has no strings.
-/
namespace AslModel.C08
open AslModel.Formula AslModel.Expr AslModel.Expr.Lex AslModel.Generated

/-- **tokeniser round trip (text → tokens)**: for every formula of the fragment, the character loop run on the rendered text
yields the token list `toks f` - atoms with the literal's value (`ConstIntVal` of the written digits), operator tokens with
the candidate list of the operator's spelling (longest match: `<<` is not cut into `<` `<`, and a spelling never swallows the
first character of the operand behind it), brackets, commas and function names. -/
theorem C08_lex_roundtrip (ev : List Char → Except Err Val) (f : Formula) (hf : IntF f) :
    lexW ev (render f) = toks f :=
  lexW_render ev f hf

/-- the same for the tokeniser the model (and the driver field `lex`) uses -/
theorem C08_lex_roundtrip_model (q : Quirks) (f : Formula) (hf : IntF f) : lex q (render f) = toks f :=
  lexW_render _ f hf

/-- every integer literal, alone: `ConstIntVal` of the rendered digits is the value, for all 2^64 values -/
theorem C08_lex_literal (ev : List Char → Except Err Val) (v : W) : lexW ev (renderInt v) = [.atom (.int v)] :=
  lexW_render ev (.lit (.int v)) trivial

/-- **the parse theorem on the rendered TEXT** (`C08_parse` with the tokeniser in front): the model's recursion run on the
tokens the tokeniser finds in the rendered text computes the structural fold of `f`, for every operator/function semantics. -/
theorem C08_parse_text (q : Quirks) (M : MSem) (f : Formula) (hf : IntF f) :
    evalToks M (2 * Formula.size f) (lex q (render f)) = evalWith (semOf M) f := by
  rw [C08_lex_roundtrip_model q f hf]; exact C08_parse M f

/-- with the documented operator and function bodies (the hypotheses of `C08_parse_spec`): the documented value, from the text -/
theorem C08_parse_text_spec (q : Quirks) (f : Formula) (hf : IntF f)
    (hun : ∀ u v, (modelM q).un (idxU u) v = specUn u v)
    (hbin : ∀ o a b, (modelM q).bin (idxB o) a b = specBin o a b)
    (hfn : ∀ g vs, (modelM q).fn g.name vs = specFn g vs) :
    evalToks (modelM q) (2 * Formula.size f) (lex q (render f)) = eval f := by
  rw [C08_lex_roundtrip_model q f hf]; exact C08_parse_spec q f hun hbin hfn

/-- **`C08_parse` for the rendered TEXT**: the model of `EvalExpression` (`evalStr`: tokeniser, then the recursion of
`EvalStrExpression` with the budget `tokens + 2` it has) run on the text `render f` computes the structural fold of `f` with the
model's operator and function bodies - for every formula of the fragment, any depth.  (The budget: `need f`, the nesting depth
with brackets, is at most the number of tokens - `need_le_length`.) -/
theorem C08_parse_text_evalStr (q : Quirks) (f : Formula) (hf : IntF f) :
    evalStr q (render f) = evalWith (semOf (modelM q)) f :=
  evalStr_render C08_table_ranks C08_table_rows q f hf

/-- and the documented value, where the operator and function bodies are the documented ones (hypotheses of `C08_parse_spec`,
discharged operator by operator in `Props/C08.lean`; false at the listed findings) -/
theorem C08_parse_text_evalStr_spec (q : Quirks) (f : Formula) (hf : IntF f)
    (hun : ∀ u v, (modelM q).un (idxU u) v = specUn u v)
    (hbin : ∀ o a b, (modelM q).bin (idxB o) a b = specBin o a b)
    (hfn : ∀ g vs, (modelM q).fn g.name vs = specFn g vs) :
    evalStr q (render f) = eval f := by
  rw [C08_parse_text_evalStr q f hf]
  have : semOf (modelM q) = specSem := by
    simp only [semOf, specSem]
    congr 1
    · funext u v; exact hun u v
    · funext o a b; exact hbin o a b
    · funext g vs; exact hfn g vs
  rw [this]; rfl

/-- non-vacuity of the text theorem: the model evaluates the TEXT `(1+2)*3` to 9 and `1-(2-3)` to 2 -/
example : intResult (evalStr Quirks.pinned "(1+2)*3".toList) = some 9 ∧
    render (.bin .mul (.bin .add (.lit (.int 1)) (.lit (.int 2))) (.lit (.int 3))) = "(1+2)*3".toList ∧
    intResult (evalStr Quirks.pinned "1-(2-3)".toList) = some 2 := by decide

/-- non-vacuity: `(-(2+3))*BITCNT($8000000000000000)<<~~4` is in the fragment (a parenthesised sign in front of a parenthesised
sum, a literal above 2^63 in `$` notation, `<<` in front of `~~`), its text is this text, and there are 16 tokens -/
example : IntF (.bin .mul (.un .neg (.bin .add (.lit (.int 2)) (.lit (.int 3))))
    (.bin .shl (.fn1 .bitcnt (.lit (.int 0x8000000000000000))) (.un .lnot (.lit (.int 4))))) := by simp [IntF]
example : render (.bin .mul (.un .neg (.bin .add (.lit (.int 2)) (.lit (.int 3))))
    (.bin .shl (.fn1 .bitcnt (.lit (.int 0x8000000000000000))) (.un .lnot (.lit (.int 4))))) =
    "(-(2+3))*BITCNT($8000000000000000)<<~~4".toList := by decide
example : (toks (.bin .mul (.un .neg (.bin .add (.lit (.int 2)) (.lit (.int 3))))
    (.bin .shl (.fn1 .bitcnt (.lit (.int 0x8000000000000000))) (.un .lnot (.lit (.int 4)))))).length = 16 := by decide
/-- outside the fragment: a float literal, a string -/
example : ¬ IntF (.lit (.flt 1.5)) ∧ ¬ IntF (.bin .add (.lit (.str ['a'])) (.lit (.int 1))) := by simp [IntF]

end AslModel.C08
