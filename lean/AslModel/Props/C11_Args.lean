import AslModel.Lemmas.ArgFold
/-! C11, argument collection: the case folding of argument texts (`asmsub.c UpString`, called by `ExpandMacro`,
`ProcessIRPArgs`, `ProcessIRPNArgs` in case-insensitive mode) against the SPEC `Spec/ArgFold.lean` ("this conversion never
takes place inside of string constants").  Unbounded: every argument text, every construct tree.

* `C11_args_fold_refines`: for every `tame` text the model of UpString stores exactly the SPEC's text;
* `C11_args_quoted_untouched`: **folding never changes a character inside a quoted constant** - for every tame text and
  every position the SPEC marks as belonging to a constant (delimiters, escapes included);
* `C11_args_length`, `C11_args_case_sensitive`: for EVERY text the length is kept, and with -U nothing changes;
* `C11_args_outside_upper`: for every tame text a character outside the constants is stored as its upper-case letter;
* `C11_args_prog_refines`: for every construct tree whose argument texts are tame, the texts stored by the collecting
  functions (per construct kind: MACRO call arguments with their `name=` part, IRP and IRPN lists; not IRPC strings, not
  default values) are the SPEC's - hence `expand` of both trees is the same hand expansion (`C11_args_expansion`);
* `C11_args_fold_idempotent`: for EVERY text the SPEC's folding is idempotent - an argument that a macro passes on to a
  nested MACRO / IRP / IRPN statement is collected a second time with the same result;
* `tame` is needed: `C11_finding_escaped_backslash` (known finding
  `escaped-backslash-before-closing-quote-ends-case-protection-late`): UpString takes the second backslash of `\\` for
  the start of another escape.
Proofs: `Lemmas/ArgFold.lean` (simulation hypquot / LastBk vs the SPEC's scan state, mutual induction over the tree). -/
namespace AslModel.ArgFoldModel
open AslModel.MacroSpec AslModel.ArgFold

/-- **model = SPEC** for every tame argument text: what `if (!CaseSensitive) UpString(arg)` stores is the text with upper
case outside quoted constants only -/
theorem C11_args_fold_refines (cs : Bool) (s : Line) (ht : tame s = true) : foldArgM cs s = foldArg cs s :=
  argFold_fold_refines cs s ht

/-- `'a'+bc"dE\"f"g` is tame and stored as `'a'+BC"dE\"f"G` -/
example : tame [39, 97, 39, 43, 98, 99, 34, 100, 69, 92, 34, 102, 34, 103] = true ∧
    foldArgM false [39, 97, 39, 43, 98, 99, 34, 100, 69, 92, 34, 102, 34, 103] =
      [39, 97, 39, 43, 66, 67, 34, 100, 69, 92, 34, 102, 34, 71] := by decide

/-- **Folding never changes a character inside a quoted constant**: wherever the SPEC's scan says that position `i` of the
argument text belongs to a character or string constant, the stored text has the text's own character there. -/
theorem C11_args_quoted_untouched (s : Line) (ht : tame s = true) (i : Nat) (c : Ch)
    (hq : (marks s)[i]? = some (c, true)) : (foldArgM false s)[i]? = some c ∧ s[i]? = some c :=
  argFold_quoted_untouched s ht i c hq

/-- outside the constants the stored character is the upper-case letter -/
theorem C11_args_outside_upper (s : Line) (ht : tame s = true) (i : Nat) (c : Ch)
    (hq : (marks s)[i]? = some (c, false)) : (foldArgM false s)[i]? = some (upc c) :=
  argFold_outside_upper s ht i c hq

/-- `x'a'`: position 2 belongs to a constant, position 0 does not -/
example : (marks [120, 39, 97, 39])[2]? = some (97, true) ∧ (marks [120, 39, 97, 39])[0]? = some (120, false) := by decide

/-- for EVERY text (tame or not) the stored text has the text's length -/
theorem C11_args_length (cs : Bool) (s : Line) : (foldArgM cs s).length = s.length := argFold_length cs s

/-- in case-sensitive mode (-U) the argument is stored as written -/
theorem C11_args_case_sensitive (s : Line) : foldArgM true s = s ∧ foldArg true s = s := argFold_case_sensitive s

/-- the argument texts the collecting functions store, construct by construct (MACRO call arguments with their `name=` part,
IRP and IRPN lists; not IRPC strings, not default values), are the SPEC's -/
theorem C11_args_prog_refines (cs : Bool) (prog : Body) (ht : tameBody prog = true) : foldProgM cs prog = foldProg cs prog :=
  argFold_prog_refines cs prog ht

/-- ... so carrying out the constructs with the stored texts gives the SPEC's hand expansion -/
theorem C11_args_expansion (cs : Bool) (prog : Body) (ht : tameBody prog = true) :
    expand cs (foldProgM cs prog) = expandFolded cs prog := argFold_expansion cs prog ht

/-- an IRPN with a ragged tail inside the tree of a macro call: the hypothesis holds for a non-trivial program -/
example : tameBody (.cons (.irpn 1 [[112], [113]] [[39, 97, 39], [34, 100, 69, 34], [120]] [] (.cons (.line [112]) .nil)) .nil) = true := by
  decide

/-- folding an argument text that was folded before changes nothing (EVERY text): an argument that is passed on from a macro
parameter to a nested MACRO / IRP / IRPN statement is collected - and folded - a second time with the same result -/
theorem C11_args_fold_idempotent (cs : Bool) (s : Line) : foldArg cs (foldArg cs s) = foldArg cs s :=
  argFold_fold_idempotent cs s

/-- `tame` is needed (known finding): in `'\\'+'a'` the constant `'\\'` ends in an escaped backslash; UpString does not
see it end, so it takes `+` for the inside of a constant and the `a` of the SECOND constant for the outside:
it stores `'\\'+'A'`, while position 6 belongs to a constant (and the SPEC leaves the text as it is). -/
theorem C11_finding_escaped_backslash :
    tame [39, 92, 92, 39, 43, 39, 97, 39] = false ∧
    (marks [39, 92, 92, 39, 43, 39, 97, 39])[6]? = some (97, true) ∧
    (foldArgM false [39, 92, 92, 39, 43, 39, 97, 39])[6]? = some 65 ∧
    foldArg false [39, 92, 92, 39, 43, 39, 97, 39] = [39, 92, 92, 39, 43, 39, 97, 39] :=
  argFold_finding_escaped_backslash

end AslModel.ArgFoldModel
