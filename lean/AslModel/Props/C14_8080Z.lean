import AslModel.Props.C14
import AslModel.Lemmas.Isa.I8080ZAll
/-!
# C14 — machine instructions encode as the target's instruction set defines: 8080/8085 written the Zilog way

MODEL = `DecodeAdr_Z80` and the Z80-style handlers of code85.c (`Model/Isa/I8080Z.lean`) over the `InstTable` entries
regenerated from `InitFields()` (`Generated/Isa_8080Z.lean`).  SPEC = Intel's opcode map (`Spec/Isa/I8080.lean`) applied to
the 8080 spelling of the statement (`Spec/Isa/I8080Z.lean`: `intel`, `legal`, `meaning`).

Full-strength statements (as for the Intel syntax, `C14_8080_sound` / `C14_8080_range`):

    C14_8080z_sound : encode excl cpu s = .ok bs → ∃ i, meaning excl s = some i ∧ I8080.decode cpu bs = some (i, bs.length)
    C14_8080z_range : legal excl cpu s = true ↔ isOk (encode excl cpu s) = true

**Proved** for every statement `s` - all 32 mnemonics, every operand list (any length, register / pair / condition numbers
inside and outside the names, every `Int` value of a number `n` or an address `(nn)`), both syntax modes, every CPU index -
under the one hypothesis `canonical excl s = true` (`Spec/Isa/I8080Z.lean`): the names `C` and `M` are written as conditions
exactly where a condition stands, and the statement is none of the five spellings that are neither Zilog's nor Intel's and
about which the manuals say nothing (`SUB A,M` in the non-exclusive mode, `IN A,n`, `OUT n,A`, `IN (n)` / `OUT (n)` in the
non-exclusive mode, `RST (n)`).  code85.c assembles these (verified on the real assembler, see `C14_8080z_hypothesis_needed`
for the model); the SPEC has no 8080 spelling for them, so both statements are false there - the hypothesis is needed, and
`C14_8080z_hypothesis_needed` proves it clause by clause.  The correspondence test generates only statements inside the
hypothesis (the driver refuses to judge any other).

How: `C14_8080z_intel` - the Z80-style handlers emit, for every statement, exactly the bytes the Intel-style handlers
(`Model/Isa/I8080.lean`) emit for its 8080 spelling `intel excl s`, and refuse it when there is none or when an address `(nn)`
is negative; the two theorems of the Intel syntax then carry over.  Proof of `C14_8080z_intel` (`Lemmas/Isa/I8080Z*.lean`):
operands that are no name of their kind are refused by both sides (model: every primitive that reads an operand; SPEC: inversion
of `intel`); statements without a value are finitely many (26 operands) and decided by evaluation; statements with a number
or an address are proved with the value symbolic and the other operand enumerated.

The earlier partial results (`_partial`: the statement form `LD (HL),n`, closed form `C14_8080z_ld_mem_imm`) and the `OpSize`
state lemma are kept; they are now instances.
-/
namespace AslModel.C14
open AslModel.PFile (Byte b b_toNat)
open AslModel.Isa AslModel.Isa.I8080Z
open AslModel.Spec.I8080Z AslModel.Generated.Isa8080Z
open AslModel.Generated (itInt8 itInt16)

namespace I8080Z

theorem evalI8 (v : Int) : evalInt itInt8 v = if -128 ≤ v ∧ v ≤ 255 then .ok v else .error .overRange := by
  by_cases hc : -128 ≤ v ∧ v ≤ 255
  · rw [(evalInt_ok _ _ _ rangeCheck_Int8 v).1 hc]; simp [hc]
  · rw [(evalInt_ok _ _ _ rangeCheck_Int8 v).2 hc]; simp [hc]

theorem lookup_ld : I8080Z.lookup .LD = some (.ld 0) := by decide

end I8080Z

/-- **Table obligation.**  Every Z80-style mnemonic of the SPEC has an entry in the `InstTable` of the current `InitFields()`. -/
theorem C14_8080z_table : Mn.all.all (fun m => (I8080Z.lookup m).isSome) = true := by decide

/-- **`OpSize` state.**  `DecodeAdr_Z80` leaves `OpSize` alone for every operand that is not a 16-bit register name - in
particular for a register-indirect operand `(BC) (DE) (HL) (SP)`: a following immediate keeps its 8-bit range. -/
theorem C14_8080z_opsize (opSize mask : Nat) (o : Opd) (h : ∀ r, o ≠ .r16 r) : (decodeAdr opSize mask o).2 = opSize := by
  unfold decodeAdr
  cases hr : reg8Z o with
  | some r => rfl
  | none =>
    cases o with
    | r16 r => exact absurd rfl (h r)
    | im => simp only; split <;> rfl
    | ind r => simp only; split <;> rfl
    | imm v => simp only; split <;> rfl
    | _ => rfl

/-- **`LD (HL),n`** (Intel: `MVI M,n`, opcode 36h + one data byte), all `n`, `ON` and `EXCLUSIVE`, 8080 and 8085: assembled
exactly for `-128 ≤ n ≤ 255`, to `36 (n mod 256)`; `256`, `-129`, `1234h` ... are refused, never truncated. -/
theorem C14_8080z_ld_mem_imm (excl : Bool) (cpu : Nat) (v : Int) :
    I8080Z.encode excl cpu ⟨.LD, [.ind 2, .imm v]⟩ =
      if -128 ≤ v ∧ v ≤ 255 then .ok [b 0x36, b (toByte v)] else .error .overRange := by
  unfold I8080Z.encode
  rw [I8080Z.lookup_ld]
  simp only [minCpuOf, Nat.not_lt_zero, if_false, dispatch, decodeLD, decodeAdr, reg8Z, found, I8080Z.evalI8]
  by_cases hc : -128 ≤ v ∧ v ≤ 255
  · simp [hc, AdrMode.bit, mReg8, mReg16, mIReg16, mAbs, mImm, mIM, im]; split <;> simp [AdrMode.bit, mReg8, mImm]
  · simp [hc, AdrMode.bit, mReg8, mReg16, mIReg16, mAbs, mImm, mIM, im]; split <;> simp [AdrMode.bit, mReg8, mImm]

/-- **Range and soundness for `LD (HL),n`** (`_partial`: one statement form of the full theorems in the header). -/
theorem C14_8080z_range_partial (excl : Bool) (cpu : Nat) (v : Int) :
    legal excl cpu ⟨.LD, [.ind 2, .imm v]⟩ = true ↔ isOk (I8080Z.encode excl cpu ⟨.LD, [.ind 2, .imm v]⟩) = true := by
  rw [C14_8080z_ld_mem_imm]
  have hi : intel excl ⟨.LD, [.ind 2, .imm v]⟩ = some ⟨.MVI, [6, v]⟩ := by simp [intel]
  have hm : AslModel.Spec.I8080.legal cpu ⟨.MVI, [6, v]⟩ = true ↔ (-128 ≤ v ∧ v ≤ 255) := by
    simp [AslModel.Spec.I8080.legal, AslModel.Spec.I8080.minCpu, AslModel.Spec.I8080.form, AslModel.Spec.I8080.fMvi,
      AslModel.Spec.I8080.FormD.accepts, AslModel.Spec.I8080.regsIn, AslModel.Spec.I8080.anyRegs]
    constructor
    · intro h; exact ⟨of_decide_eq_true h.1, of_decide_eq_true h.2⟩
    · intro h; exact ⟨decide_eq_true h.1, decide_eq_true h.2⟩
  unfold legal
  rw [hi]
  simp only [List.all_cons, List.all_nil, absOk, Bool.and_true]
  rw [hm]
  by_cases hc : -128 ≤ v ∧ v ≤ 255
  · simp [hc, isOk]
  · simp [hc, isOk]

theorem C14_8080z_sound_partial (excl : Bool) (cpu : Nat) (v : Int) (bs : List Byte)
    (h : I8080Z.encode excl cpu ⟨.LD, [.ind 2, .imm v]⟩ = .ok bs) :
    ∃ i, meaning excl ⟨.LD, [.ind 2, .imm v]⟩ = some i ∧ AslModel.Spec.I8080.decode cpu bs = some (i, bs.length) := by
  rw [C14_8080z_ld_mem_imm] at h
  by_cases hc : -128 ≤ v ∧ v ≤ 255
  · simp only [hc, and_self, if_true, Except.ok.injEq] at h
    subst h
    refine ⟨⟨.MVI, [6, (v % 256).toNat]⟩, ?_, ?_⟩
    · simp [meaning, intel, AslModel.Spec.I8080.meaning, AslModel.Spec.I8080.form, AslModel.Spec.I8080.fMvi,
        AslModel.Spec.I8080.meaningRegs, AslModel.Spec.I8080.opdValue]
    · have hb : (b (toByte v)).toNat = (v % 256).toNat := by
        rw [b_toNat]; unfold toByte; omega
      simp [AslModel.Spec.I8080.decode, AslModel.Spec.I8080.decode1, b_toNat, hb]
  · simp [hc] at h

/-! ### all statements -/

/-- **The Z80-style handlers are the Intel-style handlers on the 8080 spelling.**  Every statement inside the SPEC's scope is
assembled to exactly the bytes which the Intel-syntax part of code85.c (the model of `C14_8080_sound` / `C14_8080_range`) emits
for its 8080 spelling - `LD r,r'` as `MOV`, `LD r,n` as `MVI`, `LD dd,nn` as `LXI`, `ADD HL,ss` as `DAD`, `JP cc,nn` as `Jcc`,
`RST 38h` as `RST 7` ... - and refused when it has no 8080 spelling, when the Intel statement is refused (operand out of
range, `RIM`/`SIM` on the 8080), or when an address `(nn)` is negative. -/
theorem C14_8080z_intel (excl : Bool) (cpu : Nat) (s : Src) (hc : canonical excl s = true) :
    okBytes (I8080Z.encode excl cpu s) =
      match intel excl s with
      | some i => if s.args.all absOk then okBytes (AslModel.Isa.I8080.encode cpu i) else none
      | none => none :=
  encode_viaIntel excl cpu s hc

/-- **Soundness**, every Z80-style statement: whenever the code generator emits bytes, the statement has an 8080 spelling and
Intel's opcode matrix decodes exactly these bytes - and all of them - to the instruction that spelling denotes (mnemonic,
register fields, 8/16-bit operand in two's complement, low byte first). -/
theorem C14_8080z_sound (excl : Bool) (cpu : Nat) (s : Src) (bs : List Byte) (hc : canonical excl s = true)
    (h : I8080Z.encode excl cpu s = .ok bs) :
    ∃ i, meaning excl s = some i ∧ AslModel.Spec.I8080.decode cpu bs = some (i, bs.length) := by
  have hv := C14_8080z_intel excl cpu s hc
  rw [h] at hv
  simp only [okBytes_ok] at hv
  cases hi : intel excl s with
  | none => rw [hi] at hv; cases hv
  | some i =>
    rw [hi] at hv
    simp only at hv
    split at hv
    · cases he : AslModel.Isa.I8080.encode cpu i with
      | error e => rw [he] at hv; cases hv
      | ok bs' =>
        rw [he] at hv
        simp only [okBytes_ok, Option.some.injEq] at hv
        subst hv
        exact ⟨AslModel.Spec.I8080.meaning i, by simp [meaning, hi], C14_8080_sound cpu i bs he⟩
    · cases hv

/-- **Range**, every Z80-style statement: it is assembled iff the SPEC calls it legal - it has an 8080 spelling that is legal
on the CPU (operand count and kinds; `n` in -128..255, `nn` in -32768..65535, ports 0..255, restart addresses 0, 8, .., 38h
(and 0..7 in the non-exclusive mode); `LD A,IM` / `LD IM,A` only on the 8085) and every address `(nn)` is in 0..65535.
One past a limit is refused, never truncated. -/
theorem C14_8080z_range (excl : Bool) (cpu : Nat) (s : Src) (hc : canonical excl s = true) :
    legal excl cpu s = true ↔ isOk (I8080Z.encode excl cpu s) = true := by
  have hv := C14_8080z_intel excl cpu s hc
  have hok : isOk (I8080Z.encode excl cpu s) = (okBytes (I8080Z.encode excl cpu s)).isSome := by
    cases I8080Z.encode excl cpu s <;> rfl
  rw [hok, hv]
  unfold legal
  cases hi : intel excl s with
  | none => simp
  | some i =>
    simp only
    have hr := C14_8080_range cpu i
    by_cases ha : s.args.all absOk = true
    · simp only [ha, Bool.and_true, if_true]
      rw [hr]
      cases AslModel.Isa.I8080.encode cpu i <;> rfl
    · have ha' : s.args.all absOk = false := by simpa using ha
      simp [ha']

/-- **The hypothesis is needed** (and is exactly as wide as it has to be): for each clause of `canonical` a statement outside
it that the model - like the real assembler: `sub a,m` → 96, `in a,5` → DB 05, `out 5,a` → D3 05, `in (5)` → DB 05,
`rst (8)` → CF under `z80syntax on`; `rst (8)` → CF, `in a,5`, `out 5,a` as before under `exclusive` - assembles although
the SPEC has no 8080 spelling for it, so that `C14_8080z_range` and `C14_8080z_sound` fail there.  The first five are
spellings the manuals do not give; the last four are not statements of their own but second *values* of the texts `LD A,C`,
`JP C,1234h`, `RET M`, `ADD M`, which `canonical` identifies with the first. -/
theorem C14_8080z_hypothesis_needed :
    (canonical false ⟨.SUB, [.r8 7, .r8 6]⟩ = false ∧ legal false 0 ⟨.SUB, [.r8 7, .r8 6]⟩ = false ∧
      okBytes (I8080Z.encode false 0 ⟨.SUB, [.r8 7, .r8 6]⟩) = some [b 0x96]) ∧
    (canonical true ⟨.IN, [.r8 7, .imm 5]⟩ = false ∧ legal true 0 ⟨.IN, [.r8 7, .imm 5]⟩ = false ∧
      okBytes (I8080Z.encode true 0 ⟨.IN, [.r8 7, .imm 5]⟩) = some [b 0xdb, b 5]) ∧
    (canonical true ⟨.OUT, [.imm 5, .r8 7]⟩ = false ∧ legal true 0 ⟨.OUT, [.imm 5, .r8 7]⟩ = false ∧
      okBytes (I8080Z.encode true 0 ⟨.OUT, [.imm 5, .r8 7]⟩) = some [b 0xd3, b 5]) ∧
    (canonical false ⟨.IN, [.abs 5]⟩ = false ∧ legal false 0 ⟨.IN, [.abs 5]⟩ = false ∧
      okBytes (I8080Z.encode false 0 ⟨.IN, [.abs 5]⟩) = some [b 0xdb, b 5] ∧
     canonical false ⟨.OUT, [.abs 5]⟩ = false ∧ legal false 0 ⟨.OUT, [.abs 5]⟩ = false ∧
      okBytes (I8080Z.encode false 0 ⟨.OUT, [.abs 5]⟩) = some [b 0xd3, b 5]) ∧
    (canonical true ⟨.RST, [.abs 8]⟩ = false ∧ legal true 0 ⟨.RST, [.abs 8]⟩ = false ∧
      okBytes (I8080Z.encode true 0 ⟨.RST, [.abs 8]⟩) = some [b 0xcf]) ∧
    (canonical true ⟨.LD, [.r8 7, .cond 3]⟩ = false ∧ legal true 0 ⟨.LD, [.r8 7, .cond 3]⟩ = false ∧
      okBytes (I8080Z.encode true 0 ⟨.LD, [.r8 7, .cond 3]⟩) = some [b 0x79]) ∧
    (canonical true ⟨.JP, [.r8 1, .imm 0x1234]⟩ = false ∧ legal true 0 ⟨.JP, [.r8 1, .imm 0x1234]⟩ = false ∧
      okBytes (I8080Z.encode true 0 ⟨.JP, [.r8 1, .imm 0x1234]⟩) = some [b 0xda, b 0x34, b 0x12]) ∧
    (canonical true ⟨.RET, [.r8 6]⟩ = false ∧ legal true 0 ⟨.RET, [.r8 6]⟩ = false ∧
      okBytes (I8080Z.encode true 0 ⟨.RET, [.r8 6]⟩) = some [b 0xf8]) ∧
    (canonical false ⟨.ADD, [.cond 7]⟩ = false ∧ legal false 0 ⟨.ADD, [.cond 7]⟩ = false ∧
      okBytes (I8080Z.encode false 0 ⟨.ADD, [.cond 7]⟩) = some [b 0x86]) := by
  decide

/-- what `canonical` leaves alone in the exclusive mode: there `SUB A,M`, `IN (n)`, `OUT (n)` are refused by the code generator
as by the SPEC, and the theorems cover them -/
theorem C14_8080z_scope_exclusive :
    canonical true ⟨.SUB, [.r8 7, .r8 6]⟩ = true ∧ isOk (I8080Z.encode true 0 ⟨.SUB, [.r8 7, .r8 6]⟩) = false ∧
    canonical true ⟨.IN, [.abs 5]⟩ = true ∧ isOk (I8080Z.encode true 0 ⟨.IN, [.abs 5]⟩) = false ∧
    canonical true ⟨.OUT, [.abs 5]⟩ = true ∧ isOk (I8080Z.encode true 0 ⟨.OUT, [.abs 5]⟩) = false := by
  decide

/-! ### non-vacuity -/

example : okBytes (I8080Z.encode true 0 ⟨.LD, [.ind 2, .imm 255]⟩) = some [b 0x36, b 0xff] ∧
    isOk (I8080Z.encode true 0 ⟨.LD, [.ind 2, .imm 256]⟩) = false ∧ isOk (I8080Z.encode false 1 ⟨.LD, [.ind 2, .imm 0x1234]⟩) = false ∧
    okBytes (I8080Z.encode false 0 ⟨.LD, [.r16 2, .imm 0x1234]⟩) = some [b 0x21, b 0x34, b 0x12] ∧
    okBytes (I8080Z.encode true 0 ⟨.JP, [.imm 0x1234]⟩) = some [b 0xc3, b 0x34, b 0x12] ∧
    okBytes (I8080Z.encode false 0 ⟨.JP, [.imm 0x1234]⟩) = some [b 0xf2, b 0x34, b 0x12] ∧
    okBytes (I8080Z.encode true 1 ⟨.LD, [.r8 7, .im]⟩) = some [b 0x20] ∧ isOk (I8080Z.encode true 0 ⟨.LD, [.r8 7, .im]⟩) = false := by decide
example : legal true 0 ⟨.LD, [.ind 2, .imm 255]⟩ = true ∧ legal true 0 ⟨.LD, [.ind 2, .imm 256]⟩ = false ∧
    legal true 0 ⟨.LD, [.ind 0, .r8 0]⟩ = false ∧ legal true 0 ⟨.LD, [.ind 0, .r8 7]⟩ = true ∧
    legal false 0 ⟨.CP, [.imm 0x1234]⟩ = true ∧ legal true 0 ⟨.CP, [.imm 0x1234]⟩ = false ∧
    legal true 0 ⟨.RST, [.imm 56]⟩ = true ∧ legal true 0 ⟨.RST, [.imm 7]⟩ = false ∧ legal false 0 ⟨.RST, [.imm 7]⟩ = true := by decide

/-- the hypothesis of `C14_8080z_sound` / `C14_8080z_range` holds on statements of every kind: register forms, numbers at
and one past a limit, addresses, conditions, the Intel readings of the non-exclusive mode, junk operands, wrong operand counts -/
example : canonical true ⟨.LD, [.ind 2, .imm 255]⟩ = true ∧ canonical false ⟨.LD, [.r16 2, .abs 65535]⟩ = true ∧
    canonical true ⟨.LD, [.r8 7, .r8 1]⟩ = true ∧ canonical true ⟨.JP, [.cond 3, .imm 0x1234]⟩ = true ∧
    canonical false ⟨.CP, [.imm 0x1234]⟩ = true ∧ canonical false ⟨.RST, [.imm 7]⟩ = true ∧ canonical false ⟨.SUB, [.r8 6]⟩ = true ∧
    canonical true ⟨.IN, [.r8 7, .abs 256]⟩ = true ∧ canonical true ⟨.LD, [.r8 9, .r16 7]⟩ = true ∧
    canonical true ⟨.EX, [.r16 1, .r16 2, .af]⟩ = true ∧ canonical false ⟨.RET, [.cond 7]⟩ = true := by decide
/-- ... and the conclusions are non-trivial there: bytes, meaning and decoding of an accepted statement -/
example : okBytes (I8080Z.encode false 1 ⟨.LD, [.r16 2, .abs 65535]⟩) = some [b 0x2a, b 0xff, b 0xff] ∧
    meaning false ⟨.LD, [.r16 2, .abs 65535]⟩ = some ⟨.LHLD, [65535]⟩ ∧
    AslModel.Spec.I8080.decode 1 [b 0x2a, b 0xff, b 0xff] = some (⟨.LHLD, [65535]⟩, 3) ∧
    legal false 1 ⟨.LD, [.r16 2, .abs 65535]⟩ = true ∧ legal false 1 ⟨.LD, [.r16 2, .abs 65536]⟩ = false ∧
    legal false 1 ⟨.LD, [.r16 2, .abs (-1)]⟩ = false ∧ isOk (I8080Z.encode false 1 ⟨.LD, [.r16 2, .abs (-1)]⟩) = false ∧
    legal true 0 ⟨.RST, [.imm 56]⟩ = true ∧ okBytes (I8080Z.encode true 0 ⟨.RST, [.imm 56]⟩) = some [b 0xff] ∧
    legal true 0 ⟨.RST, [.imm 57]⟩ = false ∧ isOk (I8080Z.encode true 0 ⟨.RST, [.imm 57]⟩) = false := by decide

end AslModel.C14
