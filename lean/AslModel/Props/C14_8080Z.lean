import AslModel.Lemmas.Isa.Common
import AslModel.Model.Isa.I8080Z
/-!
# C14 — machine instructions encode as the target's instruction set defines: 8080/8085 written the Zilog way

MODEL = `DecodeAdr_Z80` and the Z80-style handlers of code85.c (`Model/Isa/I8080Z.lean`) over the `InstTable` entries
regenerated from `InitFields()` (`Generated/Isa_8080Z.lean`).  SPEC = Intel's opcode map (`Spec/Isa/I8080.lean`) applied to
the 8080 spelling of the statement (`Spec/Isa/I8080Z.lean`: `intel`, `legal`, `meaning`).

Full-strength statements (as for the Intel syntax, `C14_8080_sound` / `C14_8080_range`):

    C14_8080z_sound : encode excl cpu s = .ok bs → ∃ i, meaning excl s = some i ∧ I8080.decode cpu bs = some (i, bs.length)
    C14_8080z_range : legal excl cpu s = true ↔ isOk (encode excl cpu s) = true

for **all** mnemonics and operand lists.  Proven here (`_partial`): these two statements for every statement that stores an
immediate through a memory or register destination - `LD (HL),n`, `LD r,n` (all `n : Int`, both syntax modes, both CPUs) - i.e.
the statements whose operand width depends on the `OpSize` state of `DecodeAdr_Z80`, plus the state lemma that only a 16-bit
register operand changes `OpSize`.  The remaining mnemonics are covered by the correspondence test (`vlib/props/c14t_8080z.py`:
every pair of operand kinds of every mnemonic, immediates and addresses around all limits) and by the SPEC run on the real
output; what is missing for the full statement is the case analysis over the 8 × 8 operand kinds of the two-operand handlers.
-/
namespace AslModel.C14
open AslModel.PFile (Byte b b_toNat)
open AslModel.Isa AslModel.Isa.I8080Z
open AslModel.Spec.I8080Z AslModel.Generated.Isa8080Z
open AslModel.Generated (itInt8 itInt16)

namespace I8080Z

theorem evalI8 (v : Int) : evalInt itInt8 v = if -128 ≤ v ∧ v ≤ 255 then .ok v else .error .overRange := by
  by_cases hc : -128 ≤ v ∧ v ≤ 255
  · rw [(evalInt_ok _ _ _ rangeCheck_Int8 v).1 hc]; simp [hc]
  · rw [(evalInt_ok _ _ _ rangeCheck_Int8 v).2 hc]; simp [hc]

theorem lookup_ld : I8080Z.lookup .LD = some (.ld 0) := by decide

end I8080Z

/-- **Table obligation.**  Every Z80-style mnemonic of the SPEC has an entry in the `InstTable` of the current `InitFields()`. -/
theorem C14_8080z_table : Mn.all.all (fun m => (I8080Z.lookup m).isSome) = true := by decide

/-- **`OpSize` state.**  `DecodeAdr_Z80` leaves `OpSize` alone for every operand that is not a 16-bit register name - in
particular for a register-indirect operand `(BC) (DE) (HL) (SP)`: a following immediate keeps its 8-bit range. -/
theorem C14_8080z_opsize (opSize mask : Nat) (o : Opd) (h : ∀ r, o ≠ .r16 r) : (decodeAdr opSize mask o).2 = opSize := by
  unfold decodeAdr
  cases hr : reg8Z o with
  | some r => rfl
  | none =>
    cases o with
    | r16 r => exact absurd rfl (h r)
    | im => simp only; split <;> rfl
    | ind r => simp only; split <;> rfl
    | imm v => simp only; split <;> rfl
    | _ => rfl

/-- **`LD (HL),n`** (Intel: `MVI M,n`, opcode 36h + one data byte), all `n`, `ON` and `EXCLUSIVE`, 8080 and 8085: assembled
exactly for `-128 ≤ n ≤ 255`, to `36 (n mod 256)`; `256`, `-129`, `1234h` ... are refused, never truncated. -/
theorem C14_8080z_ld_mem_imm (excl : Bool) (cpu : Nat) (v : Int) :
    I8080Z.encode excl cpu ⟨.LD, [.ind 2, .imm v]⟩ =
      if -128 ≤ v ∧ v ≤ 255 then .ok [b 0x36, b (toByte v)] else .error .overRange := by
  unfold I8080Z.encode
  rw [I8080Z.lookup_ld]
  simp only [minCpuOf, Nat.not_lt_zero, if_false, dispatch, decodeLD, decodeAdr, reg8Z, found, I8080Z.evalI8]
  by_cases hc : -128 ≤ v ∧ v ≤ 255
  · simp [hc, AdrMode.bit, mReg8, mReg16, mIReg16, mAbs, mImm, mIM, im]; split <;> simp [AdrMode.bit, mReg8, mImm]
  · simp [hc, AdrMode.bit, mReg8, mReg16, mIReg16, mAbs, mImm, mIM, im]; split <;> simp [AdrMode.bit, mReg8, mImm]

/-- **Range and soundness for `LD (HL),n`** (`_partial`: one statement form of the full theorems in the header). -/
theorem C14_8080z_range_partial (excl : Bool) (cpu : Nat) (v : Int) :
    legal excl cpu ⟨.LD, [.ind 2, .imm v]⟩ = true ↔ isOk (I8080Z.encode excl cpu ⟨.LD, [.ind 2, .imm v]⟩) = true := by
  rw [C14_8080z_ld_mem_imm]
  have hi : intel excl ⟨.LD, [.ind 2, .imm v]⟩ = some ⟨.MVI, [6, v]⟩ := by simp [intel]
  have hm : AslModel.Spec.I8080.legal cpu ⟨.MVI, [6, v]⟩ = true ↔ (-128 ≤ v ∧ v ≤ 255) := by
    simp [AslModel.Spec.I8080.legal, AslModel.Spec.I8080.minCpu, AslModel.Spec.I8080.form, AslModel.Spec.I8080.fMvi,
      AslModel.Spec.I8080.FormD.accepts, AslModel.Spec.I8080.regsIn, AslModel.Spec.I8080.anyRegs]
    constructor
    · intro h; exact ⟨of_decide_eq_true h.1, of_decide_eq_true h.2⟩
    · intro h; exact ⟨decide_eq_true h.1, decide_eq_true h.2⟩
  unfold legal
  rw [hi]
  simp only [List.all_cons, List.all_nil, absOk, Bool.and_true]
  rw [hm]
  by_cases hc : -128 ≤ v ∧ v ≤ 255
  · simp [hc, isOk]
  · simp [hc, isOk]

theorem C14_8080z_sound_partial (excl : Bool) (cpu : Nat) (v : Int) (bs : List Byte)
    (h : I8080Z.encode excl cpu ⟨.LD, [.ind 2, .imm v]⟩ = .ok bs) :
    ∃ i, meaning excl ⟨.LD, [.ind 2, .imm v]⟩ = some i ∧ AslModel.Spec.I8080.decode cpu bs = some (i, bs.length) := by
  rw [C14_8080z_ld_mem_imm] at h
  by_cases hc : -128 ≤ v ∧ v ≤ 255
  · simp only [hc, and_self, if_true, Except.ok.injEq] at h
    subst h
    refine ⟨⟨.MVI, [6, (v % 256).toNat]⟩, ?_, ?_⟩
    · simp [meaning, intel, AslModel.Spec.I8080.meaning, AslModel.Spec.I8080.form, AslModel.Spec.I8080.fMvi,
        AslModel.Spec.I8080.meaningRegs, AslModel.Spec.I8080.opdValue]
    · have hb : (b (toByte v)).toNat = (v % 256).toNat := by
        rw [b_toNat]; unfold toByte; omega
      simp [AslModel.Spec.I8080.decode, AslModel.Spec.I8080.decode1, b_toNat, hb]
  · simp [hc] at h

/-! ### non-vacuity -/

example : okBytes (I8080Z.encode true 0 ⟨.LD, [.ind 2, .imm 255]⟩) = some [b 0x36, b 0xff] ∧
    isOk (I8080Z.encode true 0 ⟨.LD, [.ind 2, .imm 256]⟩) = false ∧ isOk (I8080Z.encode false 1 ⟨.LD, [.ind 2, .imm 0x1234]⟩) = false ∧
    okBytes (I8080Z.encode false 0 ⟨.LD, [.r16 2, .imm 0x1234]⟩) = some [b 0x21, b 0x34, b 0x12] ∧
    okBytes (I8080Z.encode true 0 ⟨.JP, [.imm 0x1234]⟩) = some [b 0xc3, b 0x34, b 0x12] ∧
    okBytes (I8080Z.encode false 0 ⟨.JP, [.imm 0x1234]⟩) = some [b 0xf2, b 0x34, b 0x12] ∧
    okBytes (I8080Z.encode true 1 ⟨.LD, [.r8 7, .im]⟩) = some [b 0x20] ∧ isOk (I8080Z.encode true 0 ⟨.LD, [.r8 7, .im]⟩) = false := by decide
example : legal true 0 ⟨.LD, [.ind 2, .imm 255]⟩ = true ∧ legal true 0 ⟨.LD, [.ind 2, .imm 256]⟩ = false ∧
    legal true 0 ⟨.LD, [.ind 0, .r8 0]⟩ = false ∧ legal true 0 ⟨.LD, [.ind 0, .r8 7]⟩ = true ∧
    legal false 0 ⟨.CP, [.imm 0x1234]⟩ = true ∧ legal true 0 ⟨.CP, [.imm 0x1234]⟩ = false ∧
    legal true 0 ⟨.RST, [.imm 56]⟩ = true ∧ legal true 0 ⟨.RST, [.imm 7]⟩ = false ∧ legal false 0 ⟨.RST, [.imm 7]⟩ = true := by decide

end AslModel.C14
