import AslModel.Props.C16
import AslModel.Lemmas.SplitBuf
/-! C16 – long lines: the fields of a line do not depend on its length.

`Model/Split.lean split` works on unbounded character lists.  The C code copies the comment, the argument field and every
single argument into buffers of their own that start at `STRINGSIZE` characters and grow in steps of 128
(`adjust_copy_comp`, `AppendArg`, `strmemcpy`, `as_dynstr_roundup_len`).  `splitBuf` is the splitter with these copies
transcribed.  The theorems here state

 * no copy loses a character, whatever the capacity was before (`C16_copy_exact`, `C16_arg_copy_exact`);
 * therefore `splitBuf` delivers the fields of `split` for every line and every capacity history – one line or a whole
   run of lines through the same buffers (`C16_buffers_exact`, `C16_buffers_run`);
 * a well-formed line has respellings of *every* greater length – more blanks between mnemonic and parameters, more
   a longer comment – and all of them are split into the same fields through the buffers
   (`C16_length_gap`, `C16_every_length`, `C16_length_comment`): there is no length, in particular none next to a buffer capacity, at which
   the immaterial spelling starts to matter. -/
namespace AslModel.Split
open AslModel.SrcLine

/-- **`adjust_copy_comp` stores the text exactly**: for every capacity before the call, the stored text is the source,
the capacity afterwards has room for it and its NUL, and capacities never shrink. -/
theorem C16_copy_exact (cap : Nat) (src : List Char) :
    (adjustCopyComp cap src).2 = src ∧ src.length + 1 ≤ (adjustCopyComp cap src).1 ∧ cap ≤ (adjustCopyComp cap src).1 := by
  unfold adjustCopyComp
  by_cases hc : src.length + 1 > cap
  · have hr := roundupLen_gt src.length
    simp only [hc, if_true]
    exact ⟨strmemcpy_exact _ _ hr, hr, by omega⟩
  · simp only [hc, if_false]
    exact ⟨strmemcpy_exact _ _ (by omega), by omega, Nat.le_refl _⟩

/-- the argument buffers: `AppendArg` followed by `adjust_copy_comp` stores the argument exactly -/
theorem C16_arg_copy_exact (cap : Nat) (a : List Char) : (adjustCopyComp (appendArgCap cap a.length) a).2 = a :=
  (C16_copy_exact _ a).1

/-- **The buffers are invisible**: `SplitLine` with its component buffers, started with any capacities, delivers exactly
the fields of the unbounded splitter – for every line of every length. -/
theorem C16_buffers_exact (c : Caps) (p : Params) (line : List Char) : (splitBuf c p line).2 = split p line := by
  unfold splitBuf split splitBody
  simp only [(C16_copy_exact _ _).1, splitArgsBuf_snd]

/-- a whole run of lines through the same (growing) buffers: every line gets the fields of the unbounded splitter -/
theorem C16_buffers_run (p : Params) (c : Caps) (ls : List (List Char)) :
    (splitBufRun p c ls).1 = ls.map (split p) := by
  induction ls generalizing c with
  | nil => rfl
  | cons l ls ih =>
    simp only [splitBufRun, List.map_cons, ih, C16_buffers_exact]

/-- **Every length, blanks**: `k` further blanks between the mnemonic and the parameter field make the line exactly `k`
characters longer and change no field – through the buffers with any capacities (so also when the argument field is
exactly as long as `ArgPart`'s capacity). -/
theorem C16_length_gap (p : Params) (hp : PStd p) (l : Line) (h : WF p l) (ha : l.args ≠ []) (k : Nat) (c : Caps) :
    (render { l with gap2 := l.gap2 ++ List.replicate k ' ' }).length = (render l).length + k ∧
    (splitBuf c p (render { l with gap2 := l.gap2 ++ List.replicate k ' ' })).2 = split p (render l) := by
  have hw := WF_widen_gap2 p l h ha k
  refine ⟨?_, ?_⟩
  · simp only [render, Line.body, Line.opText, List.length_append, List.length_replicate]
    omega
  · rw [C16_buffers_exact, C16_split_render p hp _ hw, C16_split_render p hp l h]
    rfl

/-- **The fields of a line do not depend on its length**: a well-formed line with parameters has, for *every* length `n`
from its own length upwards, a well-formed respelling with the same content that is exactly `n` characters long, and
`SplitLine` – with its component buffers at any capacities – delivers the original's fields for it. -/
theorem C16_every_length (p : Params) (hp : PStd p) (l : Line) (h : WF p l) (ha : l.args ≠ []) (n : Nat)
    (hn : (render l).length ≤ n) :
    ∃ l' : Line, WF p l' ∧ SameContent l l' ∧ (render l').length = n ∧
      ∀ c : Caps, (splitBuf c p (render l')).2 = split p (render l) := by
  refine ⟨{ l with gap2 := l.gap2 ++ List.replicate (n - (render l).length) ' ' },
    WF_widen_gap2 p l h ha _, rfl, ?_, fun c => (C16_length_gap p hp l h ha _ c).2⟩
  rw [(C16_length_gap p hp l h ha _ {}).1]
  omega

/-- **Every length, comment**: a comment of `k` characters makes the line `k + 1` characters longer than the line without
comment and changes no field – through the buffers with any capacities (so also when the comment is exactly as long as
`CommPart`'s capacity). -/
theorem C16_length_comment (p : Params) (hp : PStd p) (l : Line) (h : WF p l) (k : Nat) (c : Caps) :
    (render { l with comment := some (List.replicate k 'x') }).length = (render { l with comment := none }).length + k + 1 ∧
    (splitBuf c p (render { l with comment := some (List.replicate k 'x') })).2 = split p (render l) := by
  refine ⟨?_, ?_⟩
  · simp only [render, Line.body, Line.opText, List.length_append, List.length_cons, List.length_replicate, List.length_nil]
    omega
  · rw [C16_buffers_exact, C16_comment p hp l h]

/-! ### non-vacuity -/

/-- `exLine` (Props/C16.lean) has parameters, so `C16_length_gap` applies to it -/
example : exLine.args ≠ [] := by decide
/-- `C16_every_length` is not vacuous: `exLine` is well formed (Props/C16.lean) and 38 characters long -/
example : (render exLine).length = 38 := by decide

/-- a copy into a buffer that is exactly as long as the text grows the buffer first; the off-by-one variant of the growth
test (`newsz > capacity`) would store one character less -/
example : adjustCopyComp 4 "abcd".toList = (128, "abcd".toList) := by decide
example : strmemcpy 4 "abcd".toList = "abc".toList := by decide
example : (splitBuf { arg := 4 } pStd " db  1,23".toList).2 = split pStd " db  1,23".toList := by decide
example : argPartOf pStd " db  1,23".toList = " 1,23".toList := by decide
/-- the run counts the lines whose argument field / comment meets the capacity exactly -/
example : (splitBufRun pStd { arg := 5, comm := 3 } [" db  1,23".toList, " db 1 ;ab".toList]).2 = (1, 1) := by decide

end AslModel.Split
