import AslModel.Lemmas.StrConst
import AslModel.Lemmas.ExprEval
/-!
# C08, part "string constants": escape sequences have their documented value

SPEC  `Spec/Formula.lean`, section "string constants with escape sequences" (from doc/assembler-usage.md,
      "String Constants"): a constant is a list of items (`Item`: self-denoting character, abbreviation,
      decimal / hexadecimal / octal number, `\{…}`), `Item.text` is how an item is written, `Item.chars` the
      characters it denotes, `wfItems` says which item lists are texts of exactly these items (a number written
      with fewer than the maximum number of digits is not followed by a digit).
MODEL `Model/Expr.lean`: `strEnd` (quote / escape state of `EvalStrExpression`'s scan), `constStr`
      (`ConstStringVal`), `processBk`/`bkNumber`/`bkLoop` (`ProcessBk`), `lexW` (the tokeniser that uses them).
-/
namespace AslModel.C08
open AslModel.Formula AslModel.Expr

/-- the number a numeric escape item is written for -/
def numberOf : Item → Option Nat
  | .dec v => some v
  | .hex v _ _ _ => some v
  | .oct v _ => some v
  | _ => none

/-- **numeric escapes, every radix**: for a decimal (1..255, one to three digits), hexadecimal (one or two digits,
`x` or `X`, digits in either case) or octal (prefix `0` and up to three digits) escape written as the manual says,
followed by nothing or by any text that does not continue a number written short (after two hexadecimal digits,
three decimal digits, three octal digits ANY text may follow - also further digits), `ProcessBk` delivers the
character with exactly that number and leaves exactly the following text. -/
theorem C08_strings_numeric_escape (q : Char) (it : Item) (v : Nat) (rest : List Char)
    (hnum : numberOf it = some v) (hwf : it.wf q = true) (hf : FollowOK it rest) :
    processBk (it.text.drop 1 ++ rest) = .ok (Char.ofNat v, rest) := by
  cases it with
  | dec w => simp only [numberOf, Option.some.injEq] at hnum; subst hnum; exact processBk_dec _ q rest hwf hf
  | hex w two upX upD =>
    simp only [numberOf, Option.some.injEq] at hnum; subst hnum; exact processBk_hex _ two upX upD q rest hwf hf
  | oct w n => simp only [numberOf, Option.some.injEq] at hnum; subst hnum; exact processBk_oct _ n q rest hwf hf
  | plain c => simp [numberOf] at hnum
  | ctl k up => simp [numberOf] at hnum
  | brace o a b => simp [numberOf] at hnum

/-- non-vacuity: `\x0a` in front of `0`, `\x41` in front of `BC`, `\100` in front of `0`, `\0101` in front of `7`,
`\xA` in front of `g` are well-formed followed texts -/
example : (Item.hex 10 true false false).wf '"' = true ∧ FollowOK (Item.hex 10 true false false) ['0'] ∧
    (Item.hex 65 true false true).wf '"' = true ∧ FollowOK (Item.hex 65 true false true) ['B', 'C'] ∧
    (Item.dec 100).wf '"' = true ∧ FollowOK (Item.dec 100) ['0'] ∧
    (Item.oct 65 3).wf '"' = true ∧ FollowOK (Item.oct 65 3) ['7'] ∧
    (Item.hex 10 false true true).wf '"' = true ∧ FollowOK (Item.hex 10 false true true) ['g'] := by
  refine ⟨by decide, Or.inr ⟨_, _, rfl, by decide⟩, by decide, Or.inr ⟨_, _, rfl, by decide⟩, by decide,
    Or.inr ⟨_, _, rfl, by decide⟩, by decide, Or.inr ⟨_, _, rfl, by decide⟩, by decide, Or.inr ⟨_, _, rfl, by decide⟩⟩

example : processBk ("x0a0".toList) = .ok (Char.ofNat 10, ['0']) ∧
    processBk ("x41BC".toList) = .ok ('A', ['B', 'C']) ∧ processBk ("1000".toList) = .ok ('d', ['0']) ∧
    processBk ("01017".toList) = .ok ('A', ['7']) := by decide

/-- **a numeric escape consumes at most the documented number of digits**, on every text: behind `\x` at most two
characters, of a decimal number at most three, of an octal number the prefix `0` and at most three more -/
theorem C08_strings_escape_width (text : List Char) (c : Char) (r : List Char) :
    (bkNumber 16 text = .ok (c, r) → ∃ n, n ≤ 2 ∧ r = text.drop n) ∧
    (bkNumber 10 text = .ok (c, r) → ∃ n, n ≤ 3 ∧ r = text.drop n) ∧
    (bkNumber 8 text = .ok (c, r) → ∃ n, n ≤ 4 ∧ r = text.drop n) := by
  have key : ∀ sys k, max 1 (3 - bkCntStart sys).toNat = k → bkNumber sys text = .ok (c, r) →
      ∃ n, n ≤ k ∧ r = text.drop n := by
    intro sys k hk h
    simp only [bkNumber, hk] at h
    cases hl : bkLoop sys k text 0 with
    | error e => simp [hl] at h
    | ok p =>
      obtain ⟨a, r'⟩ := p
      rw [hl] at h
      simp only at h
      split at h
      · simp only [Except.ok.injEq, Prod.mk.injEq] at h
        obtain ⟨n, hn, hr⟩ := bkLoop_consumes sys k text 0 a r' hl
        exact ⟨n, hn, by rw [← h.2, hr]⟩
      · exact absurd h (by simp)
  exact ⟨key 16 2 (by decide), key 10 3 (by decide), key 8 4 (by decide)⟩

/-- **value of a string constant**: for every well-formed item list in either kind of quotation marks,
`ConstStringVal` (with the `\{…}` parts evaluated as the SPEC says) turns the text the SPEC writes into exactly
the character sequence the SPEC says the items denote. -/
theorem C08_strings_value (ev : List Char → Except Err Val)
    (hev : ∀ o a b, ev (braceInner o a b) = .ok (.int (braceVal o a b)))
    (q : Char) (items : List Item) (hwf : wfItems q items = true) :
    constStringVal ev q (renderItems items) = .ok (decodeItems items) := by
  unfold constStringVal
  have := constStr_items ev hev q items hwf ((renderItems items).length + 1) []
    (by have := renderItems_length items; omega)
  simpa using this

/-- **end of a string constant**: the quote scan of `EvalStrExpression` finds the closing quotation mark of the
rendered constant - no escape sequence, escaped quotation mark or `\\` moves it -/
theorem C08_strings_scan (dq : Bool) (items : List Item) (hwf : wfItems (quoteOf dq) items = true) (after : List Char) :
    strEnd (quoteOf dq) (renderItems items ++ quoteOf dq :: after) false [] = some (renderItems items, after) := by
  have hq : quoteOf dq = '"' ∨ quoteOf dq = '\'' := by cases dq <;> simp [quoteOf]
  simpa using strEnd_items (quoteOf dq) hq after items (wfItems_all hwf) []

/-- **the tokeniser on a rendered string constant**: one atom carrying the documented character sequence - this is
`lex (render f) = toks f` (the premise under which `C08_parse` speaks about texts) for the string-constant leaves -/
theorem C08_strings_lex (ev : List Char → Except Err Val)
    (hev : ∀ o a b, ev (braceInner o a b) = .ok (.int (braceVal o a b)))
    (dq : Bool) (items : List Item) (hwf : wfItems (quoteOf dq) items = true) :
    lexW ev (render (.sc dq items)) = toks (.sc dq items) := by
  have hs := C08_strings_scan dq items hwf []
  have hv := C08_strings_value ev hev (quoteOf dq) items hwf
  have hlen : (render (.sc dq items)).length + 1 = (renderItems items).length + 1 + 1 + 1 := by
    simp [render]
  unfold lexW
  rw [hlen]
  cases dq <;> simp [render, quoteOf, lexAux, toks] at hs hv ⊢ <;> simp [hs, hv]

/-- non-vacuity: `"\x0a0\n\{3*4}"` is a well-formed item list; it denotes LF `0` LF `1` `2` -/
example : wfItems '"' [.hex 10 true false false, .plain '0', .ctl .lf false, .brace (some .mul) 3 4] = true ∧
    decodeItems [.hex 10 true false false, .plain '0', .ctl .lf false, .brace (some .mul) 3 4] =
      [Char.ofNat 10, '0', Char.ofNat 10, '1', '2'] ∧
    renderItems [.hex 10 true false false, .plain '0', .ctl .lf false, .brace (some .mul) 3 4] = "\\x0a0\\n\\{3*4}".toList := by
  decide

/-- an item list that is NOT well-formed: `\xa` followed by the character `0` would be read as `\xa0` -/
example : wfItems '"' [.hex 10 false false false, .plain '0'] = false := by decide

/-! ## characters 128..255: comparison and CHARFROMSTR -/

theorem mStrCmp_unsigned : ∀ a b : List Char, mStrCmp false a b = strCmp a b := by
  intro a
  induction a with
  | nil => intro b; cases b <;> rfl
  | cons x xs ih =>
    intro b
    cases b with
    | nil => rfl
    | cons y ys =>
      simp only [mStrCmp, strCmp, cmpChar, Bool.false_eq_true, false_and, if_false, ih ys]
      by_cases h1 : x.toNat < y.toNat
      · simp [h1]
      · by_cases h2 : y.toNat < x.toNat
        · simp [h1, h2]
        · simp [h1, h2]

/-- **comparison and concatenation of strings**: when the comparison goes by character code (`strCmpSigned` off - the
flag is set by probing the real binary every run) the operator bodies on two strings are the documented
operations, for all strings -/
theorem C08_strings_compare (q : Quirks) (hq : q.strCmpSigned = false) (o : BinOp)
    (ho : o ∈ [BinOp.add, .eq, .eqeq, .ne, .lt, .le, .gt, .ge]) (a b : List Char) :
    strBody q o.spelling a b = strBin o a b := by
  simp only [List.mem_cons, List.mem_nil_iff, or_false] at ho
  rcases ho with h | h | h | h | h | h | h | h <;> subst h <;>
    simp [strBody, strBin, BinOp.spelling, hq, mStrCmp_unsigned]

/-- finding `string-order-8bit-characters-signed`: with `strlencmp`'s signed characters `"\x88" > "x"` is false;
by character code (and in the repaired setting of the model) it is true -/
theorem C08_finding_string_order_signed :
    intResult (strBody Quirks.pinned ['>'] [Char.ofNat 136] ['x']) = some 0 ∧
    intResult (strBin .gt [Char.ofNat 136] ['x']) = some 1 ∧
    intResult (strBody Quirks.none ['>'] [Char.ofNat 136] ['x']) = some 1 := by decide

/-- finding `charfromstr-8bit-character-negative`: `CHARFROMSTR("\xC8",0)` is -56 as found, 200 as documented (and
with the conversion through `char` switched off); `CHARFROMSTR("\xff",0)` as found is the "outside the string" value -/
theorem C08_finding_charfromstr_8bit :
    intResult (fnBody Quirks.pinned "CHARFROMSTR".toList [.str [Char.ofNat 200], .int 0]) = some (wrap (-56)) ∧
    intResult (specFn .charfromstr [.str [Char.ofNat 200], .int 0]) = some 200 ∧
    intResult (fnBody Quirks.none "CHARFROMSTR".toList [.str [Char.ofNat 200], .int 0]) = some 200 ∧
    intResult (fnBody Quirks.pinned "CHARFROMSTR".toList [.str [Char.ofNat 255], .int 0]) = some (wrap (-1)) := by
  decide

end AslModel.C08
