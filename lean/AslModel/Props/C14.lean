import AslModel.Lemmas.Isa.I4004
import AslModel.Lemmas.Isa.I8080
/-!
# C14 — machine instructions encode as the target's instruction set defines

Per modelled target: MODEL = the decode handlers of the code generator over the `InstTable`
regenerated from `InitFields()`; SPEC = the manufacturer's opcode map as a decoder plus the legality
predicate of source statements.  Theorems quantify over **all** mnemonics of the SPEC, all operand
values (`Int`), all program-counter values of the segment and both CPU variants.

Targets in this file: 4004/4040, 8080/8085 (Intel syntax).
-/
namespace AslModel.C14
open AslModel.PFile (Byte b b_toNat)
open AslModel.Isa

section I4004
open AslModel.Spec.I4004 AslModel.Isa.I4004 AslModel.Generated.Isa4004

/-- Table obligation: every mnemonic of the manuals (and each documented alias) is in the
`InstTable` that the current `InitFields()` builds, with a handler of the operand form the manual
gives and opcodes which the SPEC decoder maps back to that mnemonic for every register / datum. -/
theorem C14_4004_table :
    Mn.all.all (fun m => match lookup m with | some h => Good m h | none => false) = true :=
  table_good

/-- The page-rule constants extracted from `DecodeJCN` / `DecodeISZ` are the ones the theorems
below cover: JCN compares with the page of `pc+2`; ISZ uses 256-byte pages relative to `pc+1`
(pinned tree, see `C14_finding_4004_isz_page`) or `pc+2` (hardware rule). -/
theorem C14_4004_cfg : genCfg.jcnOfs = 2 ∧ genCfg.iszBits = 8 ∧ (genCfg.iszOfs = 1 ∨ genCfg.iszOfs = 2) := by
  decide

/-- Soundness, general form.  Whenever the code generator emits bytes for a statement, the
manufacturer's opcode map decodes exactly these bytes (and all of them) to the instruction the
statement denotes - canonical mnemonic, register/pair/datum fields, and for `JCN`/`ISZ` the full
target address rebuilt from the page of the next instruction.
Side condition `hside` (only for `ISZ`): the page the C code compares with is the page the hardware
uses.  It is vacuous for `cfg.iszOfs = 2` (`C14_4004_sound`) and equivalent to
`pc % 256 ≠ 254` for the pinned `cfg.iszOfs = 1` (`C14_4004_sound_pinned`). -/
theorem C14_4004_sound_partial (cfg : Cfg) (hj : cfg.jcnOfs = 2) (hb : cfg.iszBits = 8) (cpu pc : Nat) (hpc : pc ≤ 4095)
    (s : Src) (bs : List Byte)
    (hside : form s.mn = .regAddr → (pc + cfg.iszOfs) / 256 = (pc + 2) / 256)
    (h : encode cfg cpu pc s = .ok bs) : decode cpu pc bs = some (meaning s, bs.length) := by
  obtain ⟨hd, hl, hg⟩ := lookup_good s.mn
  unfold encode at h
  rw [hl] at h
  cases hd with
  | fixed code mc =>
    have hg' := hg
    simp only [Good, Bool.and_eq_true, beq_iff_eq] at hg'
    rw [meaning_plain s (by rw [hg'.1.1]; decide)]
    exact fixed_sound s.mn code mc hg cpu pc s.args bs h
  | oneReg code =>
    simp only [Good, Bool.and_eq_true, beq_iff_eq, List.all_eq_true, List.mem_range] at hg
    rw [meaning_plain s (by rw [hg.1.1]; decide)]
    exact reg_sound s.mn code hg.2 cpu pc s.args bs h
  | accReg code =>
    simp only [Good, Bool.and_eq_true, beq_iff_eq, List.all_eq_true, List.mem_range] at hg
    rw [meaning_plain s (by rw [hg.1.1]; decide)]
    exact reg_sound s.mn code hg.2 cpu pc s.args bs h
  | oneRReg code =>
    simp only [Good, Bool.and_eq_true, beq_iff_eq, List.all_eq_true, List.mem_range] at hg
    rw [meaning_plain s (by rw [hg.1.1]; decide)]
    exact pair_sound s.mn code hg.2 cpu pc s.args bs h
  | imm4 code =>
    simp only [Good, Bool.and_eq_true, beq_iff_eq, List.all_eq_true, List.mem_range] at hg
    rw [meaning_plain s (by rw [hg.1.1]; decide)]
    exact imm4_sound s.mn code hg.2 cpu pc s.args bs h
  | jcn idx =>
    simp only [Good, Bool.and_eq_true, beq_iff_eq] at hg
    rw [meaning_plain s (by rw [hg.1.1]; decide), hg.2]
    exact jcn_sound cfg hj cpu pc hpc s.args bs h
  | isz idx =>
    simp only [Good, Bool.and_eq_true, beq_iff_eq] at hg
    rw [meaning_plain s (by rw [hg.1.1]; decide), hg.2]
    exact isz_sound cfg hb cpu pc s.args bs (hside hg.1.1) h
  | fullJmp idx =>
    simp only [Good, Bool.and_eq_true, beq_iff_eq, Bool.or_eq_true] at hg
    rw [meaning_plain s (by rw [hg.1.1]; decide)]
    rcases hg.2 with ⟨hi0, hc⟩ | ⟨hi1, hc⟩
    · have := fullJmp_sound idx (Or.inl hi0) cpu pc s.args bs h
      simpa [hi0, hc] using this
    · have := fullJmp_sound idx (Or.inr hi1) cpu pc s.args bs h
      simpa [hi1, hc] using this
  | fim idx =>
    simp only [Good, Bool.and_eq_true, beq_iff_eq] at hg
    simp only at h
    obtain ⟨mn, args⟩ := s
    simp only at hg h ⊢
    have hargs : ∃ p d, args = [p, d] := by
      unfold decodeFIM at h
      rcases args with _ | ⟨p, _ | ⟨d, _ | ⟨a3, t⟩⟩⟩ <;> simp at h
      exact ⟨p, d, rfl⟩
    obtain ⟨p, d, rfl⟩ := hargs
    have := fim_sound cpu pc p d bs h
    simp only [meaning, hg.1.1, hg.2]
    exact this

/-- **Soundness** with the hardware's page rule in `DecodeISZ` (`EProgCounter() + 2`): no side condition. -/
theorem C14_4004_sound (cfg : Cfg) (hj : cfg.jcnOfs = 2) (hb : cfg.iszBits = 8) (hi : cfg.iszOfs = 2)
    (cpu pc : Nat) (hpc : pc ≤ 4095) (s : Src) (bs : List Byte) (h : encode cfg cpu pc s = .ok bs) :
    decode cpu pc bs = some (meaning s, bs.length) :=
  C14_4004_sound_partial cfg hj hb cpu pc hpc s bs (fun _ => by rw [hi]) h

/-- Soundness for the pinned `DecodeISZ` (`EProgCounter() + 1`): everything except an `ISZ`
located at word 254 of a ROM page. -/
theorem C14_4004_sound_pinned (cfg : Cfg) (hj : cfg.jcnOfs = 2) (hb : cfg.iszBits = 8) (hi : cfg.iszOfs = 1)
    (cpu pc : Nat) (hpc : pc ≤ 4095) (s : Src) (bs : List Byte)
    (hside : form s.mn = .regAddr → pc % 256 ≠ 254) (h : encode cfg cpu pc s = .ok bs) :
    decode cpu pc bs = some (meaning s, bs.length) :=
  C14_4004_sound_partial cfg hj hb cpu pc hpc s bs (fun hf => by have := hside hf; rw [hi]; omega) h

example : okBytes (encode genCfg 0 0x0fe ⟨.JCN, [5, 0x1a7]⟩) = some [b 0x15, b 0xa7] := by decide
example : okBytes (encode genCfg 1 0x010 ⟨.FIM, [3, -2]⟩) = some [b 0x26, b 0xfe] := by decide

/-- **Range**, general form: a statement is assembled iff the SPEC calls it legal - right operand
count, every register / datum / address inside its field (`Rn` 0..15, pair 0..7, datum 0..15, address
0..4095, FIM datum -128..255), CPU variant has the instruction, short-jump target in the page of
the next instruction.  In particular an operand one past a limit is rejected, never truncated.
Same side condition as `C14_4004_sound_partial`. -/
theorem C14_4004_range_partial (cfg : Cfg) (hj : cfg.jcnOfs = 2) (hb : cfg.iszBits = 8) (cpu pc : Nat) (hpc : pc ≤ 4095)
    (s : Src) (hside : form s.mn = .regAddr → (pc + cfg.iszOfs) / 256 = (pc + 2) / 256) :
    legal cpu pc s = isOk (encode cfg cpu pc s) := by
  obtain ⟨hd, hl, hg⟩ := lookup_good s.mn
  obtain ⟨mn, args⟩ := s
  simp only at hl hg hside
  unfold encode legal
  simp only [hl]
  cases hd with
  | fixed code mc =>
    simp only [Good, Bool.and_eq_true, beq_iff_eq] at hg
    rw [fixed_ok, hg.1.2, hg.1.1]
    rcases args with _ | ⟨a, t⟩ <;> simp
  | oneReg code =>
    simp only [Good, Bool.and_eq_true, beq_iff_eq] at hg
    rw [reg_ok, hg.1.1, hg.1.2]
    rcases args with _ | ⟨a, _ | ⟨a2, t⟩⟩ <;> simp
  | accReg code =>
    simp only [Good, Bool.and_eq_true, beq_iff_eq] at hg
    show _ = isOk (decodeOneReg code args)
    rw [reg_ok, hg.1.1, hg.1.2]
    rcases args with _ | ⟨a, _ | ⟨a2, t⟩⟩ <;> simp
  | oneRReg code =>
    simp only [Good, Bool.and_eq_true, beq_iff_eq] at hg
    rw [pair_ok, hg.1.1, hg.1.2]
    rcases args with _ | ⟨a, _ | ⟨a2, t⟩⟩ <;> simp
  | imm4 code =>
    simp only [Good, Bool.and_eq_true, beq_iff_eq] at hg
    rw [imm4_ok, hg.1.1, hg.1.2]
    rcases args with _ | ⟨a, _ | ⟨a2, t⟩⟩ <;> simp
  | fullJmp idx =>
    simp only [Good, Bool.and_eq_true, beq_iff_eq] at hg
    rw [fullJmp_ok, hg.1.1, hg.1.2]
    rcases args with _ | ⟨a, _ | ⟨a2, t⟩⟩ <;> simp
  | jcn idx =>
    simp only [Good, Bool.and_eq_true, beq_iff_eq] at hg
    rw [jcn_ok cfg hj pc hpc, hg.1.1, hg.1.2]
    rcases args with _ | ⟨a, _ | ⟨a2, _ | ⟨a3, t⟩⟩⟩ <;> simp
  | isz idx =>
    simp only [Good, Bool.and_eq_true, beq_iff_eq] at hg
    rw [isz_ok cfg hb pc (hside hg.1.1), hg.1.1, hg.1.2]
    rcases args with _ | ⟨a, _ | ⟨a2, _ | ⟨a3, t⟩⟩⟩ <;> simp
  | fim idx =>
    simp only [Good, Bool.and_eq_true, beq_iff_eq] at hg
    rw [fim_ok, hg.1.1, hg.1.2]
    rcases args with _ | ⟨a, _ | ⟨a2, _ | ⟨a3, t⟩⟩⟩ <;> simp

/-- **Range** with the hardware's page rule in `DecodeISZ`: `InRange i ↔ (encode i).isOk`, no side condition. -/
theorem C14_4004_range (cfg : Cfg) (hj : cfg.jcnOfs = 2) (hb : cfg.iszBits = 8) (hi : cfg.iszOfs = 2)
    (cpu pc : Nat) (hpc : pc ≤ 4095) (s : Src) :
    legal cpu pc s = true ↔ isOk (encode cfg cpu pc s) = true := by
  rw [C14_4004_range_partial cfg hj hb cpu pc hpc s (fun _ => by rw [hi])]

/-- Range for the pinned `DecodeISZ`: everything except an `ISZ` at word 254 of a page. -/
theorem C14_4004_range_pinned (cfg : Cfg) (hj : cfg.jcnOfs = 2) (hb : cfg.iszBits = 8) (hi : cfg.iszOfs = 1)
    (cpu pc : Nat) (hpc : pc ≤ 4095) (s : Src) (hside : form s.mn = .regAddr → pc % 256 ≠ 254) :
    legal cpu pc s = true ↔ isOk (encode cfg cpu pc s) = true := by
  rw [C14_4004_range_partial cfg hj hb cpu pc hpc s (fun hf => by have := hside hf; rw [hi]; omega)]

example : legal 0 0x10 ⟨.LDM, [15]⟩ = true ∧ legal 0 0x10 ⟨.LDM, [16]⟩ = false ∧ legal 0 0x10 ⟨.LDM, [-1]⟩ = false := by decide
example : legal 0 0x10 ⟨.HLT, []⟩ = false ∧ legal 1 0x10 ⟨.HLT, []⟩ = true := by decide

/-- **Page-relative targets**: for the two short jumps an accepted statement's second byte is the
low byte of the target and the target lies in the ROM page of the *next* instruction, i.e.
`target = ((pc + 2) / 256) * 256 + byte₂` - the address the hardware forms. -/
theorem C14_4004_rel (cfg : Cfg) (hj : cfg.jcnOfs = 2) (hb : cfg.iszBits = 8) (cpu pc : Nat) (hpc : pc ≤ 4095)
    (mn : Mn) (x a : Int) (bs : List Byte) (hmn : form mn = .condAddr ∨ form mn = .regAddr)
    (hside : form mn = .regAddr → (pc + cfg.iszOfs) / 256 = (pc + 2) / 256)
    (h : encode cfg cpu pc ⟨mn, [x, a]⟩ = .ok bs) :
    ∃ b0 b1, bs = [b0, b1] ∧ a = ((pc + 2) / 256 * 256 + b1.toNat : Nat) ∧ 0 ≤ a := by
  have hs := C14_4004_sound_partial cfg hj hb cpu pc hpc ⟨mn, [x, a]⟩ bs hside h
  have hl : legal cpu pc ⟨mn, [x, a]⟩ = true := by
    rw [C14_4004_range_partial cfg hj hb cpu pc hpc ⟨mn, [x, a]⟩ hside, h]; rfl
  have hm : meaning ⟨mn, [x, a]⟩ = ⟨canon mn, [x.toNat, a.toNat]⟩ := by
    rw [meaning_plain _ (by rcases hmn with h | h <;> simp [h])]; rfl
  have ha : 0 ≤ a := by
    unfold legal at hl
    rcases hmn with hf | hf <;> simp [hf, inR_iff] at hl <;> (first | omega | trace_state)
  rw [hm] at hs
  have hc : canon mn = .JCN ∨ canon mn = .ISZ := by
    cases mn <;> simp [form] at hmn <;> simp [canon]
  obtain ⟨b0, b1, rfl, hv⟩ := decode_short_inv cpu pc bs (canon mn) hc _ _ hs
  refine ⟨b0, b1, rfl, ?_, ha⟩
  unfold jumpPage at hv
  omega

/-- **Known finding** (`4004-isz-page-of-pc-plus-1`): with the pinned `ChkSamePage(EProgCounter() + 1, …)` an
`ISZ` at word 254 of a page is accepted with a target in its own page - the hardware jumps into the
*next* page (the opcode map decodes the emitted bytes to a different target) - and the legal
statement whose target lies in the next page is rejected. -/
theorem C14_finding_4004_isz_page (cfg : Cfg) (hj : cfg.jcnOfs = 2) (hb : cfg.iszBits = 8) (hi : cfg.iszOfs = 1) :
    (okBytes (encode cfg 0 0x0fe ⟨.ISZ, [3, 0x010]⟩) = some [b 0x73, b 0x10] ∧
     decode 0 0x0fe [b 0x73, b 0x10] = some (⟨.ISZ, [3, 0x110]⟩, 2) ∧
     legal 0 0x0fe ⟨.ISZ, [3, 0x010]⟩ = false) ∧
    (legal 0 0x0fe ⟨.ISZ, [3, 0x110]⟩ = true ∧ isOk (encode cfg 0 0x0fe ⟨.ISZ, [3, 0x110]⟩) = false) := by
  obtain ⟨o, bits, j⟩ := cfg
  simp only at hj hb hi
  subst hj hb hi
  decide

end I4004

section I8080
open AslModel.Spec.I8080 AslModel.Isa.I8080 AslModel.Generated.Isa8080

/-- Table obligation: every Intel mnemonic of the 8080/8085 manuals is in the `InstTable` of the
current `InitFields()` with a handler whose operand scheme (register domains, data range, CPU gate)
is the manual's operand form and whose opcode bytes the SPEC's opcode matrix maps back to the mnemonic
and register fields - for every register combination. -/
theorem C14_8080_table :
    Mn.all.all (fun m => match I8080.lookup m with | some h => I8080.Good m h | none => false) = true :=
  I8080.table_good

/-- **Soundness**: whenever the code generator emits bytes for an (Intel-syntax) statement on the 8080
or 8085, Intel's opcode matrix decodes exactly these bytes - and all of them - to the instruction
the statement denotes: mnemonic, register fields, and the 8/16-bit operand (two's complement, low
byte first). -/
theorem C14_8080_sound (cpu : Nat) (s : Src) (bs : List Byte) (h : I8080.encode cpu s = .ok bs) :
    decode cpu bs = some (meaning s, bs.length) := by
  obtain ⟨hd, hl, hg⟩ := I8080.lookup_good s.mn
  unfold I8080.encode at h
  rw [hl] at h
  simp only at h
  by_cases hc : cpu < minCpuOf hd
  · simp [hc] at h
  · simp only [hc, if_false] at h
    have hrun := I8080.okBytes_eq _ _ h
    rw [dispatch_desc] at hrun
    simp only [I8080.Good, descCompat, Bool.and_eq_true, beq_iff_eq, decide_eq_true_eq, List.all_cons, List.all_nil,
      Bool.or_eq_true, List.all_eq_true, Bool.not_eq_true', Bool.and_true] at hg
    obtain ⟨⟨⟨⟨⟨⟨⟨hdoms, hopd⟩, _⟩, _⟩, _⟩, hmc⟩, hle⟩, h0, h1⟩ := hg
    rw [decode_cpu]
    have hsrc : s = ⟨s.mn, s.args⟩ := rfl
    rw [hsrc]
    have hmin : min cpu 1 = 0 ∨ min cpu 1 = 1 := by omega
    rcases hmin with hm | hm
    · rw [hm]
      refine run_sound (descOf hd) s.mn 0 s.args bs hdoms hopd ?_ hrun
      intro regs hmem hok
      rcases h0 with hlt | hall
      · omega
      · rcases hall regs hmem with hf | hdq
        · rw [hok] at hf; cases hf
        · exact hdq
    · rw [hm]
      refine run_sound (descOf hd) s.mn 1 s.args bs hdoms hopd ?_ hrun
      intro regs hmem hok
      rcases h1 with hlt | hall
      · omega
      · rcases hall regs hmem with hf | hdq
        · rw [hok] at hf; cases hf
        · exact hdq

/-- **Range**: a statement is assembled iff the SPEC calls it legal - operand count, every register
inside its domain (`MOV M,M` excluded, `STAX/LDAX` only B, D and the AS extension H), 8-bit data
-128..255, ports 0..255, 16-bit data/addresses -32768..65535, `RST` 0..7, and `RIM/SIM` only on the
8085.  One past a limit is rejected, never truncated. -/
theorem C14_8080_range (cpu : Nat) (s : Src) : legal cpu s = true ↔ isOk (I8080.encode cpu s) = true := by
  obtain ⟨hd, hl, hg⟩ := I8080.lookup_good s.mn
  unfold I8080.encode legal
  rw [hl]
  simp only [I8080.Good, descCompat, Bool.and_eq_true, beq_iff_eq, decide_eq_true_eq, List.all_eq_true] at hg
  obtain ⟨⟨⟨⟨⟨⟨⟨hdoms, hopd⟩, hlo⟩, hhi⟩, hok⟩, hmc⟩, hle⟩, _⟩ := hg
  have hacc := run_accepts (descOf hd) (form s.mn) s.args hdoms hopd hlo hhi hok
  simp only
  by_cases hc : cpu < minCpuOf hd
  · have : ¬ (minCpu s.mn ≤ cpu) := by omega
    simp [hc, this, isOk]
  · have : minCpu s.mn ≤ cpu := by omega
    simp only [hc, if_false, this, decide_true, Bool.true_and]
    rw [I8080.isOk_okBytes, dispatch_desc, hacc]

example : okBytes (I8080.encode 0 ⟨.LXI, [2, -2]⟩) = some [b 0x21, b 0xfe, b 0xff] := by decide
example : legal 0 ⟨.MVI, [6, 255]⟩ = true ∧ legal 0 ⟨.MVI, [6, 256]⟩ = false ∧ legal 0 ⟨.MOV, [6, 6]⟩ = false ∧
    legal 0 ⟨.RIM, []⟩ = false ∧ legal 1 ⟨.RIM, []⟩ = true := by decide

end I8080

end AslModel.C14
