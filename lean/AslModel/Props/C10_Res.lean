import AslModel.Lemmas.AddrRes
import AslModel.Lemmas.AddrResMix
import AslModel.Lemmas.AddrResZero
/-!
# C10, reservation part — the program counter across `DN/DB/DW/DD/DQ` reservations

Property theorems only (helper lemmas: `Lemmas/AddrRes.lean`, `Lemmas/DataExt.lean`).
Model: `Model/AddrRes.lean` (`CodeLen` of a data statement = the transcription of intpseudo.c `DecodeIntelDx` /
`DecodeIntelPseudo_LayoutMult` with the `tCurrCodeFill` arithmetic `SubCodeFill`, `MultCodeFill`, `IncCodeFillBy` in
`Model/DataExt.lean`, for `Grans[ActPC]` of the active segment).  Spec: `Spec/AddrRes.lean` (from the manual: an argument
list stands for a number of elements, `n DUP (…)` multiplies the number of its body, a statement of `e` elements of `b` bits
occupies `⌈e·b / unit bits⌉` address units).

The theorems are for **every pure reservation tree** (`pureArgs`: loose `?` and `n DUP (…)`, `n ≥ 1`, nested to any depth, in any
order), **every reservation tree with `0 DUP` groups** (`res0Args`: counts `n ≥ 0`; a `0 DUP` group contributes nothing,
`C10_res_zero_dup_*`) and **every mixture** of placeholders and integer constants (`plainArgs`, counts `n ≥ 0`, with both kinds outside
`0 DUP` bodies: refused by MODEL and SPEC, `C10_res_mixture_refused`), for every unit size `g` and element size `bits` with one dividing the other
(4/8/16/32/64 bits against units of 1, 2 or 4 bytes), i.e. for DUP groups that start and end anywhere inside an address unit; the
whole-program refinement (`C10_res_program_refines_ext`) holds for every program whose data statements are of these three kinds.
Outside the theorems (only the correspondence test covers them): the *bytes* of constant statements (the packing of `Put4I/Put8I…`
and `Replicate…` is C09's subject, `Props/C09_Ext.lean`) and with them the advance of constant statements; the C widths of the fill
counters (32 bit; counts in the check are small).
-/
namespace AslModel.C10
open AslModel.PFile (Byte b)
open AslModel.Data AslModel.DataModel AslModel.DataX AslModel.DataXModel AslModel.DataXLemmas
open AslModel.AddrRes AslModel.AddrResModel AslModel.AddrResLemmas

/-- **`CodeLen` of a pure reservation is the manual's unit count**: whatever the shape of the tree, `DecodeIntelDx`
reserves `⌈elements · bits / (8·g)⌉` address units and places nothing. -/
theorem C10_res_statement_units (c : MCfg) (p : XP) (g bits : Nat) (t : List Byte) (as : XArgs)
    (hp : pureArgs as = true) (hg : 0 < g) (hb : 0 < bits)
    (hdiv : (8 * g) % bits = 0 ∨ bits % (8 * g) = 0) :
    decodeIntelDxX c p g bits t as = .ok ⟨none, .space (resUnits g bits (elemsArgs as)), []⟩ :=
  pure_stmt_units c p g bits t as hp hg hb hdiv

/-- `db ?,3 dup (?)` on a segment of 16-bit units: 4 bytes, 2 units (the DUP group starts in the middle of a unit and one
iteration ends at a lower position than it started) -/
example : pureArgs (family 1 3 0) = true ∧ elemsArgs (family 1 3 0) = 4 ∧ resUnits 2 8 4 = 2 := by decide
example : decodeIntelDxX ⟨2, false, false, false, false, true, true⟩ ⟨false, true, true⟩ 2 8 [] (family 1 3 0) = .ok ⟨none, .space 2, []⟩ :=
  C10_res_statement_units _ _ 2 8 [] _ (by decide) (by decide) (by decide) (by decide)

/-- **the family of the statement `X ?,…,? (a times), n DUP (?,…,? (b+1 times))`**: for every `a`, `b`, `n ≥ 1`, every element
size and unit size, the address advances by `⌈(a + n·(b+1)) · bits / unit bits⌉` — in particular when `a` is not a multiple of
the elements per unit, so that the DUP group starts inside a unit. -/
theorem C10_res_family_units (c : MCfg) (p : XP) (g bits : Nat) (t : List Byte) (a : Nat) (n : Int) (hn : 1 ≤ n) (bb : Nat)
    (hg : 0 < g) (hb : 0 < bits) (hdiv : (8 * g) % bits = 0 ∨ bits % (8 * g) = 0) :
    decodeIntelDxX c p g bits t (family a n bb) = .ok ⟨none, .space (ceilDiv ((a + n.toNat * (bb + 1)) * bits) (8 * g)), []⟩ := by
  have h := C10_res_statement_units c p g bits t (family a n bb) (pure_family a n hn bb) hg hb hdiv
  rw [elems_family] at h
  exact h

/-- **MODEL = SPEC on the statement**: the layout function of the model and the manual's rule agree on every pure
reservation. -/
theorem C10_res_lay_model_eq_spec (c : MCfg) (p : XP) (big : Bool) (g bits : Nat) (as : XArgs)
    (hp : pureArgs as = true) (hg : 0 < g) (hb : 0 < bits)
    (hdiv : (8 * g) % bits = 0 ∨ bits % (8 * g) = 0) :
    modelLay c p g bits as = specLay big g bits as :=
  lay_model_eq_spec c p big g bits as hp hg hb hdiv

/-- **MODEL refines SPEC on whole programs**: for every list of labelled pure reservations interleaved with ORG, RORG,
SEGMENT and label-only lines, every observation (program counter after each statement, active segment, value of each
label) of the model is the one the manual's rule gives. -/
theorem C10_res_program_refines (gran : Nat → Nat) (c : MCfg) (p : XP) (big : Bool) :
    ∀ (prog : List AddrRes.Stmt) (a : A), (∀ st ∈ prog, PureStmt gran st) →
      run gran (modelLay c p) a prog = run gran (specLay big) a prog
  | [], _, _ => rfl
  | st :: rest, a, h => by
    have hs := step_model_eq_spec gran c p big a st (h st (by simp))
    simp only [run, hs]
    cases hst : step gran (specLay big) a st with
    | unspecified => rfl
    | ok a' o =>
      simp only
      rw [C10_res_program_refines gran c p big rest a' (fun s hs' => h s (by simp [hs']))]

/-- **what a label after a reservation reads**: if the counter of the active segment is `v`, then after a pure reservation
of `e` elements it is `v + ⌈e·bits / unit bits⌉`, the statement's own label is `v`, the active segment and the counters of
all other segments are unchanged, nothing is placed. -/
theorem C10_res_counter_after (gran : Nat → Nat) (c : MCfg) (p : XP) (a : A) (l : Nat) (bits : Nat) (as : XArgs) (v : Int)
    (hcur : a.cur = some v) (h : PureStmt gran ⟨some l, .dx bits as⟩) :
    ∃ a', step gran (modelLay c p) a ⟨some l, .dx bits as⟩ =
        .ok a' ⟨false, some (v + (resUnits (gran a.seg) bits (elemsArgs as) : Nat)), a.seg, some v, []⟩ ∧
      a'.seg = a.seg ∧ a'.cur = some (v + (resUnits (gran a.seg) bits (elemsArgs as) : Nat)) ∧ ∀ s, s ≠ a.seg → a'.pc s = a.pc s := by
  simp only [PureStmt] at h
  have hm := pure_stmt_units c p (gran a.seg) bits tableInit as h.1 (h.2.2 a.seg).1 h.2.1 (h.2.2 a.seg).2
  have hl : modelLay c p (gran a.seg) bits as = .adv (resUnits (gran a.seg) bits (elemsArgs as)) [] := by
    unfold modelLay
    rw [hm]
  refine ⟨setPc a (some (v + (resUnits (gran a.seg) bits (elemsArgs as) : Nat))), ?_, rfl, ?_, ?_⟩
  · have hcur' : a.pc a.seg = some v := hcur
    simp [step, hl, A.cur, setPc, cellsOfStmt, cellsAt, hcur']
  · simp [A.cur, setPc]
  · intro s hs
    simp [setPc, hs]

/-- AVR CODE (16-bit units) at word 16: `N1: db ?,3 dup (?)` / `N2: dn ?,?,?,5 dup (?)` / `N3:` — N1 = 16, N2 = 18, N3 = 20 -/
example : run (fun _ => 2) (specLay false) ⟨1, fun _ => some 16⟩
    [⟨some 1, .dx 8 (family 1 3 0)⟩, ⟨some 2, .dx 4 (family 3 5 0)⟩, ⟨some 3, .nop⟩] =
    [⟨false, some 18, 1, some 16, []⟩, ⟨false, some 20, 1, some 18, []⟩, ⟨false, some 20, 1, some 20, []⟩] := by
  decide
example : ∀ st ∈ [(⟨some 1, .dx 8 (family 1 3 0)⟩ : AddrRes.Stmt), ⟨some 2, .dx 4 (family 3 5 0)⟩, ⟨some 3, .nop⟩], PureStmt (fun _ => 2) st := by
  intro st hst
  simp only [List.mem_cons, List.mem_nil_iff, or_false] at hst
  rcases hst with rfl | rfl | rfl
  · exact ⟨by decide, by decide, fun _ => ⟨by simp, by simp⟩⟩
  · exact ⟨by decide, by decide, fun _ => ⟨by simp, by simp⟩⟩
  · trivial

/-! ## reservations with `0 DUP` groups -/

/-- **`CodeLen` of a reservation with `0 DUP` groups is the manual's unit count**: a group with count 0 (its body is not looked
at) contributes no element; when nothing at all is reserved `DecodeIntelDx` hands back `CodeLen = 0`. -/
theorem C10_res_zero_dup_units (c : MCfg) (p : XP) (g bits : Nat) (t : List Byte) (as : XArgs)
    (hp : res0Args as = true) (hg : 0 < g) (hb : 0 < bits)
    (hdiv : (8 * g) % bits = 0 ∨ bits % (8 * g) = 0) :
    decodeIntelDxX c p g bits t as = .ok ⟨none, resOut (resUnits g bits (elemsArgs as)), []⟩ :=
  res0_stmt_units c p g bits t as hp hg hb hdiv

/-- **MODEL = SPEC** on these statements: both advance by `⌈elements · bits / unit bits⌉` units and place nothing. -/
theorem C10_res_zero_dup_model_eq_spec (c : MCfg) (p : XP) (big : Bool) (g bits : Nat) (as : XArgs)
    (hp : res0Args as = true) (hg : 0 < g) (hb : 0 < bits)
    (hdiv : (8 * g) % bits = 0 ∨ bits % (8 * g) = 0) :
    modelLay c p g bits as = specLay big g bits as ∧ specLay big g bits as = .adv (resUnits g bits (elemsArgs as)) [] := by
  obtain ⟨h1, h2⟩ := lay_res0_model_eq_spec c p big g bits as hp hg hb hdiv
  exact ⟨h1.trans h2.symm, h2⟩

/-- `db ?, 0 dup (?,?), 2 dup (?, 0 dup (?))` on 16-bit units: 3 elements, 2 units; `dw 0 dup (?)`: nothing -/
def exZero : XArgs :=
  .cons .q (.cons (.dup 0 (.cons .q (.cons .q .nil))) (.cons (.dup 2 (.cons .q (.cons (.dup 0 (.cons .q .nil)) .nil))) .nil))
example : res0Args exZero = true ∧ elemsArgs exZero = 3 ∧ resUnits 2 8 3 = 2 := by decide
example : decodeIntelDxX ⟨2, false, false, false, false, true, true⟩ ⟨false, true, true⟩ 2 8 [] exZero = .ok ⟨none, .space 2, []⟩ := by decide
example : res0Args (.cons (.dup 0 (.cons .q .nil)) .nil) = true ∧
    modelLay ⟨2, false, false, false, false, true, true⟩ ⟨false, true, true⟩ 2 16 (.cons (.dup 0 (.cons .q .nil)) .nil) = .adv 0 [] := by decide

/-! ## mixtures -/

/-- **a statement that holds placeholders and constants is refused** - by `DecodeIntelDx` (`SetDSFlag` refuses the first
argument of the other kind, wherever in the tree it stands) and by the manual ("reserved memory and constant definitions must
not be mixed within one instruction"): for every tree of `?`, integers and `n DUP (…)`, `n ≥ 0`, that stands for both kinds
(`hasQs`, `hasCs`: what is written in the body of a `0 DUP` does not count - the code never looks at it, the manual's rule gives
it no element). -/
theorem C10_res_mixture_refused (c : MCfg) (p : XP) (big : Bool) (g bits : Nat) (as : XArgs)
    (hp : plainArgs as = true) (hq : hasQs as = true) (hc : hasCs as = true) (hg : 0 < g) (hb : 0 < bits) :
    modelLay c p g bits as = .reject ∧ specLay big g bits as = .reject :=
  lay_mixture c p big g bits as hp hq hc hg hb

/-- `db ?, 3 dup (?, 0 dup (?), 2 dup (7))` - the constant sits two levels down -/
def exMix : XArgs :=
  .cons .q (.cons (.dup 3 (.cons .q (.cons (.dup 0 (.cons .q .nil)) (.cons (.dup 2 (.cons (.int 7) .nil)) .nil)))) .nil)
example : plainArgs exMix = true ∧ hasQs exMix = true ∧ hasCs exMix = true := by decide
example : decodeIntelDxX ⟨1, false, false, false, false, true, true⟩ ⟨false, true, true⟩ 1 8 [] exMix = .err := by decide

/-- **a `0 DUP` beside the other kind is no mixture**: `db 0 dup (?), 5` lays `05` and `db ?, 0 dup (5)` reserves one byte - in the
MODEL (= the real assembler, see the report) and, since `hasQ` / `hasC` leave the bodies of `DUP`s with a count ≤ 0 out, in the
SPEC.  (Before that correction `specLay` refused both, and the generator of the check left such statements out.) -/
theorem C10_res_zero_dup_beside_other_kind :
    modelLay ⟨1, false, false, false, false, true, true⟩ ⟨false, true, true⟩ 1 8 (.cons (.dup 0 (.cons .q .nil)) (.cons (.int 5) .nil)) = .adv 1 [5] ∧
    specLay false 1 8 (.cons (.dup 0 (.cons .q .nil)) (.cons (.int 5) .nil)) = .adv 1 [5] ∧
    modelLay ⟨1, false, false, false, false, true, true⟩ ⟨false, true, true⟩ 1 8 (.cons .q (.cons (.dup 0 (.cons (.int 5) .nil)) .nil)) = .adv 1 [] ∧
    specLay false 1 8 (.cons .q (.cons (.dup 0 (.cons (.int 5) .nil)) .nil)) = .adv 1 [] := by
  decide

/-! ## whole programs, all three kinds of statements -/

/-- a data statement of one of the kinds the theorems above cover, of a size that divides / is divided by every unit size -/
def CoveredStmt (gran : Nat → Nat) (st : AddrRes.Stmt) : Prop :=
  match st.op with
  | .dx bits as =>
    (pureArgs as = true ∨ res0Args as = true ∨ (plainArgs as = true ∧ hasQs as = true ∧ hasCs as = true)) ∧ 0 < bits ∧
      ∀ s, 0 < gran s ∧ ((8 * gran s) % bits = 0 ∨ bits % (8 * gran s) = 0)
  | _ => True

/-- **MODEL refines SPEC on whole programs** of labelled reservations (with or without `0 DUP` groups) and refused mixtures,
interleaved with ORG, RORG, SEGMENT and label-only lines: every observation (error flag, program counter after each statement,
active segment, value of each label, cells) of the model is the one the manual's rule gives. -/
theorem C10_res_program_refines_ext (gran : Nat → Nat) (c : MCfg) (p : XP) (big : Bool) :
    ∀ (prog : List AddrRes.Stmt) (a : A), (∀ st ∈ prog, CoveredStmt gran st) →
      run gran (modelLay c p) a prog = run gran (specLay big) a prog
  | [], _, _ => rfl
  | st :: rest, a, h => by
    have hs : step gran (modelLay c p) a st = step gran (specLay big) a st := by
      have hc := h st (by simp)
      obtain ⟨l, op⟩ := st
      cases op with
      | dx bits as =>
        simp only [CoveredStmt] at hc
        obtain ⟨hk, hb, hgr⟩ := hc
        have hl : modelLay c p (gran a.seg) bits as = specLay big (gran a.seg) bits as := by
          rcases hk with hk | hk | ⟨k1, k2, k3⟩
          · exact lay_model_eq_spec c p big (gran a.seg) bits as hk (hgr a.seg).1 hb (hgr a.seg).2
          · exact (C10_res_zero_dup_model_eq_spec c p big (gran a.seg) bits as hk (hgr a.seg).1 hb (hgr a.seg).2).1
          · obtain ⟨m1, m2⟩ := lay_mixture c p big (gran a.seg) bits as k1 k2 k3 (hgr a.seg).1 hb
            rw [m1, m2]
        simp only [step, hl]
      | org v => rfl
      | rorg d => rfl
      | seg s => rfl
      | nop => rfl
    simp only [run, hs]
    cases hst : step gran (specLay big) a st with
    | unspecified => rfl
    | ok a' o =>
      simp only
      rw [C10_res_program_refines_ext gran c p big rest a' (fun s hs' => h s (by simp [hs']))]

/-- AVR CODE at word 16: `N1: db ?, 0 dup (?,?), 2 dup (?, 0 dup (?))` / `N2: db ?, 3 dup (?, 2 dup (7))` (refused) / `N3:`:
N1 = 16, the refused statement leaves the counter at 18 and defines no label, N3 = 18 -/
example : run (fun _ => 2) (specLay false) ⟨1, fun _ => some 16⟩
    [⟨some 1, .dx 8 exZero⟩, ⟨some 2, .dx 8 exMix⟩, ⟨some 3, .nop⟩] =
    [⟨false, some 18, 1, some 16, []⟩, ⟨true, some 18, 1, none, []⟩, ⟨false, some 18, 1, some 18, []⟩] := by
  decide
example : ∀ st ∈ [(⟨some 1, .dx 8 exZero⟩ : AddrRes.Stmt), ⟨some 2, .dx 8 exMix⟩, ⟨some 3, .nop⟩], CoveredStmt (fun _ => 2) st := by
  intro st hst
  simp only [List.mem_cons, List.mem_nil_iff, or_false] at hst
  rcases hst with rfl | rfl | rfl
  · exact ⟨Or.inr (Or.inl (by decide)), by decide, fun _ => ⟨by simp, by simp⟩⟩
  · exact ⟨Or.inr (Or.inr (by decide)), by decide, fun _ => ⟨by simp, by simp⟩⟩
  · trivial

end AslModel.C10
