import AslModel.Lemmas.AddrRes
/-!
# C10, reservation part — the program counter across `DN/DB/DW/DD/DQ` reservations

Property theorems only (helper lemmas: `Lemmas/AddrRes.lean`, `Lemmas/DataExt.lean`).
Model: `Model/AddrRes.lean` (`CodeLen` of a data statement = the transcription of intpseudo.c `DecodeIntelDx` /
`DecodeIntelPseudo_LayoutMult` with the `tCurrCodeFill` arithmetic `SubCodeFill`, `MultCodeFill`, `IncCodeFillBy` in
`Model/DataExt.lean`, for `Grans[ActPC]` of the active segment).  Spec: `Spec/AddrRes.lean` (from the manual: an argument
list stands for a number of elements, `n DUP (…)` multiplies the number of its body, a statement of `e` elements of `b` bits
occupies `⌈e·b / unit bits⌉` address units).

All theorems are for **every pure reservation tree** (`pureArgs`: loose `?` and `n DUP (…)`, `n ≥ 1`, nested to any depth,
in any order), every unit size `g` and element size `bits` with one dividing the other (4/8/16/32/64 bits against units of
1, 2 or 4 bytes), i.e. for DUP groups that start and end anywhere inside an address unit.  Outside the theorems (only the
correspondence test covers them): constant statements, mixtures (refused), `0 DUP`, the C widths of the fill counters
(32 bit; counts in the check are small).
-/
namespace AslModel.C10
open AslModel.PFile (Byte b)
open AslModel.Data AslModel.DataModel AslModel.DataX AslModel.DataXModel AslModel.DataXLemmas
open AslModel.AddrRes AslModel.AddrResModel AslModel.AddrResLemmas

/-- **`CodeLen` of a pure reservation is the manual's unit count**: whatever the shape of the tree, `DecodeIntelDx`
reserves `⌈elements · bits / (8·g)⌉` address units and places nothing. -/
theorem C10_res_statement_units (c : MCfg) (p : XP) (g bits : Nat) (t : List Byte) (as : XArgs)
    (hp : pureArgs as = true) (hg : 0 < g) (hb : 0 < bits)
    (hdiv : (8 * g) % bits = 0 ∨ bits % (8 * g) = 0) :
    decodeIntelDxX c p g bits t as = .ok ⟨none, .space (resUnits g bits (elemsArgs as)), []⟩ :=
  pure_stmt_units c p g bits t as hp hg hb hdiv

/-- `db ?,3 dup (?)` on a segment of 16-bit units: 4 bytes, 2 units (the DUP group starts in the middle of a unit and one
iteration ends at a lower position than it started) -/
example : pureArgs (family 1 3 0) = true ∧ elemsArgs (family 1 3 0) = 4 ∧ resUnits 2 8 4 = 2 := by decide
example : decodeIntelDxX ⟨2, false, false, false, false, true, true⟩ ⟨false, true, true⟩ 2 8 [] (family 1 3 0) = .ok ⟨none, .space 2, []⟩ :=
  C10_res_statement_units _ _ 2 8 [] _ (by decide) (by decide) (by decide) (by decide)

/-- **the family of the statement `X ?,…,? (a times), n DUP (?,…,? (b+1 times))`**: for every `a`, `b`, `n ≥ 1`, every element
size and unit size, the address advances by `⌈(a + n·(b+1)) · bits / unit bits⌉` — in particular when `a` is not a multiple of
the elements per unit, so that the DUP group starts inside a unit. -/
theorem C10_res_family_units (c : MCfg) (p : XP) (g bits : Nat) (t : List Byte) (a : Nat) (n : Int) (hn : 1 ≤ n) (bb : Nat)
    (hg : 0 < g) (hb : 0 < bits) (hdiv : (8 * g) % bits = 0 ∨ bits % (8 * g) = 0) :
    decodeIntelDxX c p g bits t (family a n bb) = .ok ⟨none, .space (ceilDiv ((a + n.toNat * (bb + 1)) * bits) (8 * g)), []⟩ := by
  have h := C10_res_statement_units c p g bits t (family a n bb) (pure_family a n hn bb) hg hb hdiv
  rw [elems_family] at h
  exact h

/-- **MODEL = SPEC on the statement**: the layout function of the model and the manual's rule agree on every pure
reservation. -/
theorem C10_res_lay_model_eq_spec (c : MCfg) (p : XP) (big : Bool) (g bits : Nat) (as : XArgs)
    (hp : pureArgs as = true) (hg : 0 < g) (hb : 0 < bits)
    (hdiv : (8 * g) % bits = 0 ∨ bits % (8 * g) = 0) :
    modelLay c p g bits as = specLay big g bits as :=
  lay_model_eq_spec c p big g bits as hp hg hb hdiv

/-- **MODEL refines SPEC on whole programs**: for every list of labelled pure reservations interleaved with ORG, RORG,
SEGMENT and label-only lines, every observation (program counter after each statement, active segment, value of each
label) of the model is the one the manual's rule gives. -/
theorem C10_res_program_refines (gran : Nat → Nat) (c : MCfg) (p : XP) (big : Bool) :
    ∀ (prog : List AddrRes.Stmt) (a : A), (∀ st ∈ prog, PureStmt gran st) →
      run gran (modelLay c p) a prog = run gran (specLay big) a prog
  | [], _, _ => rfl
  | st :: rest, a, h => by
    have hs := step_model_eq_spec gran c p big a st (h st (by simp))
    simp only [run, hs]
    cases hst : step gran (specLay big) a st with
    | unspecified => rfl
    | ok a' o =>
      simp only
      rw [C10_res_program_refines gran c p big rest a' (fun s hs' => h s (by simp [hs']))]

/-- **what a label after a reservation reads**: if the counter of the active segment is `v`, then after a pure reservation
of `e` elements it is `v + ⌈e·bits / unit bits⌉`, the statement's own label is `v`, the active segment and the counters of
all other segments are unchanged, nothing is placed. -/
theorem C10_res_counter_after (gran : Nat → Nat) (c : MCfg) (p : XP) (a : A) (l : Nat) (bits : Nat) (as : XArgs) (v : Int)
    (hcur : a.cur = some v) (h : PureStmt gran ⟨some l, .dx bits as⟩) :
    ∃ a', step gran (modelLay c p) a ⟨some l, .dx bits as⟩ =
        .ok a' ⟨false, some (v + (resUnits (gran a.seg) bits (elemsArgs as) : Nat)), a.seg, some v, []⟩ ∧
      a'.seg = a.seg ∧ a'.cur = some (v + (resUnits (gran a.seg) bits (elemsArgs as) : Nat)) ∧ ∀ s, s ≠ a.seg → a'.pc s = a.pc s := by
  simp only [PureStmt] at h
  have hm := pure_stmt_units c p (gran a.seg) bits tableInit as h.1 (h.2.2 a.seg).1 h.2.1 (h.2.2 a.seg).2
  have hl : modelLay c p (gran a.seg) bits as = .adv (resUnits (gran a.seg) bits (elemsArgs as)) [] := by
    unfold modelLay
    rw [hm]
  refine ⟨setPc a (some (v + (resUnits (gran a.seg) bits (elemsArgs as) : Nat))), ?_, rfl, ?_, ?_⟩
  · have hcur' : a.pc a.seg = some v := hcur
    simp [step, hl, A.cur, setPc, cellsOfStmt, cellsAt, hcur']
  · simp [A.cur, setPc]
  · intro s hs
    simp [setPc, hs]

/-- AVR CODE (16-bit units) at word 16: `N1: db ?,3 dup (?)` / `N2: dn ?,?,?,5 dup (?)` / `N3:` — N1 = 16, N2 = 18, N3 = 20 -/
example : run (fun _ => 2) (specLay false) ⟨1, fun _ => some 16⟩
    [⟨some 1, .dx 8 (family 1 3 0)⟩, ⟨some 2, .dx 4 (family 3 5 0)⟩, ⟨some 3, .nop⟩] =
    [⟨false, some 18, 1, some 16, []⟩, ⟨false, some 20, 1, some 18, []⟩, ⟨false, some 20, 1, some 20, []⟩] := by
  decide
example : ∀ st ∈ [(⟨some 1, .dx 8 (family 1 3 0)⟩ : AddrRes.Stmt), ⟨some 2, .dx 4 (family 3 5 0)⟩, ⟨some 3, .nop⟩], PureStmt (fun _ => 2) st := by
  intro st hst
  simp only [List.mem_cons, List.mem_nil_iff, or_false] at hst
  rcases hst with rfl | rfl | rfl
  · exact ⟨by decide, by decide, fun _ => ⟨by simp, by simp⟩⟩
  · exact ⟨by decide, by decide, fun _ => ⟨by simp, by simp⟩⟩
  · trivial

end AslModel.C10
