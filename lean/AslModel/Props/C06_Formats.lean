import AslModel.Lemmas.Hex2
import AslModel.Props.C06
/-! # C06 — format theorems, part 2 (Intel 16/32, MOS, Tektronix, Atmel generic, C array, default format, `-R` / `-a`)

Continuation of `Props/C06.lean` (see DESIGN.md 4.6).  Every theorem relates the MODEL (`Model/P2Hex.lean`, the transcription of
`ProcessFile` / `main` that the correspondence check compares with the real `p2hex` byte for byte) with the SPEC decoders of
`Spec/Hex.lean` (written from the public format definitions).  The input classes of the recorded findings are excluded by
explicit hypotheses; the `C06_finding_*` theorems show that these hypotheses are needed. -/
namespace AslModel.C06
open AslModel.Hex AslModel.P2Hex AslModel.HexLemmas AslModel.HexFamilies
open AslModel.PFile (b b_toNat Rec)

/-! ## Intel HEX, 16-bit format (MCS-86: extended segment address record 02, start segment address record 03) -/

/-- group prologue of the 16-bit format for a byte-addressed target: segment = paragraph of `ErgStart` -/
theorem C06_intel16_head (a : Nat) (ha : a < 4294967296) :
    intel16Head 1 a = (intelExtLine 2 ((a - a % 16) / 16 % 65536), a - a % 16) := by
  simp [intel16Head, two32, Nat.mod_eq_of_lt ha]

/-- **Intel HEX 16, whole file** (one selected record, byte-addressed target, `-m 0`, any `-l`, any `-i` variant, with or
without entry address): the `:02000002ssss` record, the data lines, the `:04000003…` entry record and the last line are
accepted by the public reader and decode to exactly the record's bytes at `ErgStart…` and the entry address.
Guards = complements of the recorded findings: `ha` excludes `intel16-segment-truncated-above-1mib` (the segment field is
`ErgStart >> 4`, 16 bits), `hseg` excludes `intel16-group-longer-than-64k-wraps` (one segment record per group). -/
theorem C06_intel16_file (ll a imode : Nat) (data : List Byte) (entry : Option Nat) (hll : 1 ≤ ll) (hl : ll ≤ 255)
    (hi : imode ≤ 2) (ha : a < 0x100000) (hseg : a % 16 + data.length ≤ 65536) (he : entry.getD 0 < 0x100000) :
    decodeIhexLines imode ((intel16Head 1 a).1 ::
        (intelLoop 0 1 ll false data.length a data (intel16Head 1 a).2 false ++ intelTerm imode 1 entry)) =
      some ⟨cellsFrom a data, entry.toList, 0⟩ := by
  rw [C06_intel16_head a (by omega)]
  obtain ⟨rs, h1, h4⟩ := intelLoop_seg imode ll hll hl (a - a % 16) false data.length a data (Nat.le_refl _) (by omega)
    (by omega) (by unfold two32; omega)
  have hext := intelExt_segV imode ((a - a % 16) / 16 % 65536) (Nat.mod_lt _ (by decide))
  have hbase : (a - a % 16) / 16 % 65536 * 16 + (a - (a - a % 16)) = a := by omega
  unfold decodeIhexLines
  cases entry with
  | none =>
    have hterm := intelTerm_none imode 1 hi
    rw [mapM_cons_some _ _ _ _ _ hext (mapM_append_some _ _ _ _ _ h1 hterm)]
    simp only [ihexRun, h4, hbase, addCellsD]
    simp
  | some e =>
    have hterm := intelTerm_seg imode e hi
    rw [mapM_cons_some _ _ _ _ _ hext (mapM_append_some _ _ _ _ _ h1 hterm)]
    have he' : e < 0x100000 := by simpa using he
    have hent : e / 16 % 65536 * 16 + e % 16 = e := by omega
    simp only [ihexRun, h4, hbase, addCellsD, hent]
    simp

/-- non-vacuity: a group that starts in the middle of a paragraph, three lines, entry address inside the first MiB -/
example : decodeIhexLines 0 ((intel16Head 1 0xffff5).1 ::
      (intelLoop 0 1 2 false 5 0xffff5 [1, 2, 3, 4, 5] (intel16Head 1 0xffff5).2 false ++ intelTerm 0 1 (some 0x12345))) =
    some ⟨cellsFrom 0xffff5 [1, 2, 3, 4, 5], [0x12345], 0⟩ :=
  C06_intel16_file 2 0xffff5 0 [1, 2, 3, 4, 5] (some 0x12345) (by decide) (by decide) (by decide) (by decide) (by decide) (by decide)

/-- **Finding `intel16-segment-truncated-above-1mib`**: for `ErgStart = 0x100000` (inside the format's `MaxAdr`
`0xFFFF0 + 0xFFFF`, so no warning) the segment field is truncated to `0000`; the file decodes to address 0. -/
theorem C06_finding_intel16_above_1mib :
    decodeIhexLines 0 ((intel16Head 1 0x100000).1 ::
        (intelLoop 0 1 16 false 4 0x100000 [0, 1, 2, 3] (intel16Head 1 0x100000).2 false ++ intelTerm 0 1 none)) =
      some ⟨cellsFrom 0 [0, 1, 2, 3], [], 0⟩ := by decide

/-- **Finding `intel16-group-longer-than-64k-wraps`**: with `IntOffset = 0x10000` (segment `1000`) the data record for
`ErgStart = 0x20000` — 64 KiB above the group's segment base — carries offset `0000`: it decodes to `0x10000`. -/
theorem C06_finding_intel16_offset_wraps :
    ihexLine (intelLine 0 1 0x10000 0x20000 [1, 2, 3]) = some (.data 0 [1, 2, 3]) := by decide

/-! ## Intel HEX, 32-bit format (extended linear address record 04, bank splitting, start linear address record 05) -/

/-- group prologue of the 32-bit format for a byte-addressed target: upper linear address word = 64 KiB bank of `ErgStart` -/
theorem C06_intel32_head (a : Nat) (ha : a < 4294967296) :
    intel32Head 1 a = (intelExtLine 4 ((a - a % 65536) / 65536 % 65536), a - a % 65536) := by
  simp [intel32Head, two32, Nat.mod_eq_of_lt ha]

/-- **Intel HEX 32, whole file** (one selected record, byte-addressed target, `-m 0`, any `-l`, any `-i` variant, with or
without entry address), for *every* start address and length in the 32-bit range — including groups that cross one or
several 64 KiB boundaries: the data lines are cut at the bank end and a new `:02000004hhhh` record is written before the
first line of the next bank; the public reader accepts all lines and returns exactly the bytes at `ErgStart…` plus the
entry address of the `:04000005…` record.  (Word-addressed targets: finding `intel32-bank-split-ignores-granularity`.) -/
theorem C06_intel32_file (ll a imode : Nat) (data : List Byte) (entry : Option Nat) (hll : 1 ≤ ll) (hl : ll ≤ 255)
    (hi : imode ≤ 2) (ha : a < 4294967296) (h32 : a + data.length ≤ 4294967296) (he : entry.getD 0 < 4294967296) :
    decodeIhexLines imode ((intel32Head 1 a).1 ::
        (intelLoop 0 1 ll true data.length a data (intel32Head 1 a).2 false ++ intelTerm imode 2 entry)) =
      some ⟨cellsFrom a data, entry.toList, 0⟩ := by
  rw [C06_intel32_head a ha]
  obtain ⟨rs, h1, h4⟩ := lin32_all imode ll hll hl data.length a data (a - a % 65536) false (Nat.le_refl _)
    (by unfold two32; omega) (fun _ => rfl) (by intro h; cases h)
  have hext := intelExt_linV imode ((a - a % 65536) / 65536 % 65536) (Nat.mod_lt _ (by decide))
  have hbase : (a - a % 65536) / 65536 % 65536 * 65536 = a - a % 65536 := by omega
  unfold decodeIhexLines
  cases entry with
  | none =>
    have hterm := intelTerm_none imode 2 hi
    rw [mapM_cons_some _ _ _ _ _ hext (mapM_append_some _ _ _ _ _ h1 hterm)]
    simp only [ihexRun, hbase, h4 _ (stateIndep_eof 0 [])]
    simp [addCellsD]
  | some e =>
    have hterm := intelTerm_lin imode e hi (by simpa using he)
    rw [mapM_cons_some _ _ _ _ _ hext (mapM_append_some _ _ _ _ _ h1 hterm)]
    simp only [ihexRun, hbase, h4 _ (stateIndep_startLin e _ (stateIndep_eof 0 []))]
    simp [addCellsD]

/-- non-vacuity: five bytes from `0x2fffd`, two per line: the second line is cut after one byte, a bank record follows -/
example : decodeIhexLines 0 ((intel32Head 1 0x2fffd).1 ::
      (intelLoop 0 1 2 true 5 0x2fffd [1, 2, 3, 4, 5] (intel32Head 1 0x2fffd).2 false ++ intelTerm 0 2 (some 0x12345678))) =
    some ⟨cellsFrom 0x2fffd [1, 2, 3, 4, 5], [0x12345678], 0⟩ :=
  C06_intel32_file 2 0x2fffd 0 [1, 2, 3, 4, 5] (some 0x12345678) (by decide) (by decide) (by decide) (by decide) (by decide) (by decide)

/-- the lines of that example: `:02000004 0002`, 2 bytes at `FFFD`, 1 byte at `FFFF`, `:02000004 0003`, 2 bytes at `0000`, entry, EOF -/
example : ((intel32Head 1 0x2fffd).1 ::
      (intelLoop 0 1 2 true 5 0x2fffd [1, 2, 3, 4, 5] (intel32Head 1 0x2fffd).2 false ++ intelTerm 0 2 (some 0x12345678))).map String.ofList =
    [":020000040002F8", ":02FFFD000102FF", ":01FFFF0003FE", ":020000040003F7", ":020000000405F5", ":0400000512345678E3", ":00000001FF"] := by
  decide

/-- **Finding `intel32-bank-split-ignores-granularity`** (TMS320C3x witness: `Gran = 4`, word address `0x3FFE`, 16 bytes,
`-l 8`): byte offsets `FFF8` and then `0000` without a bank record in between — the second line decodes to byte address
`0x0000` instead of `0x10000`. -/
theorem C06_finding_intel32_gran :
    (decodeIhexLines 0 ((intel32Head 4 0x3ffe).1 ::
        (intelLoop 0 4 8 true 16 0x3ffe [0, 1, 2, 3, 4, 5, 6, 7, 8, 9, 10, 11, 12, 13, 14, 15] (intel32Head 4 0x3ffe).2 false ++
          intelTerm 0 2 none))).map (fun d => d.cells.map (·.1)) =
      some [0xfff8, 0xfff9, 0xfffa, 0xfffb, 0xfffc, 0xfffd, 0xfffe, 0xffff, 0, 1, 2, 3, 4, 5, 6, 7] := by decide

/-! ## MOS Technology -/

/-- **Line-splitting induction (MOS)** for the repaired prologue (`ChkSum = …`, `q.mosCarry = false`): every line is
accepted, there is one record per line and at most one per byte, and the reader's image is the group's bytes. -/
theorem C06_mos_group (q : Quirks) (hq : q.mosCarry = false) (ll : Nat) (hll : 1 ≤ ll) (hl : ll ≤ 255) :
    ∀ (fuel a chk : Nat) (data : List Byte), data.length ≤ fuel → a + data.length ≤ 65536 →
      ∃ rs, (mosLoop q 0 1 ll fuel a data chk).1.mapM Hex.mosLine = some rs ∧
        rs.length = (mosLoop q 0 1 ll fuel a data chk).1.length ∧ rs.length ≤ data.length ∧
        ∀ n rest, mosRun n (rs ++ rest) = addCellsL (cellsFrom a data) (mosRun (n + rs.length) rest) := by
  intro fuel
  induction fuel with
  | zero =>
    intro a chk data hf _
    have : data = [] := by cases data <;> simp_all
    subst this
    exact ⟨[], by simp [mosLoop], by simp [mosLoop], by simp, by intro n rest; simp [cellsFrom, addCellsL_nil]⟩
  | succ f ih =>
    intro a chk data hf ha
    by_cases hd : data = []
    · subst hd
      exact ⟨[], by simp [mosLoop], by simp [mosLoop], by simp, by intro n rest; simp [cellsFrom, addCellsL_nil]⟩
    · have hpos : 0 < data.length := List.length_pos_iff.mpr hd
      have hn1 : 1 ≤ min ll data.length := by omega
      have hn2 : min ll data.length ≤ data.length := Nat.min_le_right _ _
      have htl : (data.take (min ll data.length)).length = min ll data.length := by simp
      have hdl : (data.drop (min ll data.length)).length = data.length - min ll data.length := by simp
      have hline := C06_mos_line_partial q 1 a chk (data.take (min ll data.length)) (Or.inl hq) (by omega)
        (by rw [htl]; omega) (by rw [htl]; omega)
      have hmod : (a + min ll data.length) % two32 = a + min ll data.length := by
        apply Nat.mod_eq_of_lt; unfold two32; omega
      rw [mosLoop_succ _ _ _ _ _ _ hd, hmod]
      obtain ⟨rs, h1, h2, h3, h4⟩ := ih (a + min ll data.length)
        (P2Hex.mosLine q 0 1 chk a (data.take (min ll data.length))).2 (data.drop (min ll data.length))
        (by rw [hdl]; omega) (by rw [hdl]; omega)
      refine ⟨.data a (data.take (min ll data.length)) :: rs, mapM_cons_some _ _ _ _ _ hline h1, ?_, ?_, ?_⟩
      · simp [h2]
      · rw [hdl] at h3; simp only [List.length_cons]; omega
      · intro n rest
        rw [List.cons_append, mosRun_data, h4, addCellsL_addCellsL, take_drop_cells a _ data hn2]
        simp only [List.length_cons]
        congr 2; omega

/-- **MOS, whole file** (repaired tree: `q.mosCarry = false`, `q.mosConst4 = false`; one selected record, byte-addressed
target, `-m 0`, any line length): the data lines and the last record `;00<count><cksum>` are accepted by the public reader
(16-bit checksums per line, record count right) and decode to exactly the record's bytes at `ErgStart…`.
`chk0` is the value the `Word ChkSum` happens to hold on entry – irrelevant once the prologue assigns. -/
theorem C06_mos_file (q : Quirks) (hq1 : q.mosCarry = false) (hq2 : q.mosConst4 = false) (ll a chk0 : Nat)
    (data : List Byte) (hll : 1 ≤ ll) (hl : ll ≤ 255) (ha : a + data.length ≤ 65536) (hlen : data.length < 65536) :
    decodeMosLines ((mosLoop q 0 1 ll data.length a data chk0).1 ++
        [mosTerm q (mosLoop q 0 1 ll data.length a data chk0).1.length]) = some ⟨cellsFrom a data, [], 0⟩ := by
  obtain ⟨rs, h1, h2, h3, h4⟩ := C06_mos_group q hq1 ll hll hl data.length a chk0 data (Nat.le_refl _) ha
  have hterm := mosTerm_line q hq2 (mosLoop q 0 1 ll data.length a data chk0).1.length (by omega)
  have hbody := mapM_append_some Hex.mosLine _ _ _ _ h1 (mapM_cons_some _ _ _ _ _ hterm (mapM_nil' _))
  unfold decodeMosLines
  rw [hbody]
  simp only [h4, mosRun, h2, Nat.zero_add, and_self, if_true, addCellsL]
  simp

example : decodeMosLines ((mosLoop { mosCarry := false, mosConst4 := false } 0 1 2 5 0xfffb [1, 2, 3, 4, 5] 77).1 ++
      [mosTerm { mosCarry := false, mosConst4 := false } (mosLoop { mosCarry := false, mosConst4 := false } 0 1 2 5 0xfffb [1, 2, 3, 4, 5] 77).1.length]) =
    some ⟨cellsFrom 0xfffb [1, 2, 3, 4, 5], [], 0⟩ :=
  C06_mos_file _ rfl rfl 2 0xfffb 77 [1, 2, 3, 4, 5] (by decide) (by decide) (by decide) (by decide)

/-! ## Tektronix -/

/-- Tektronix block exactly as `ProcessFile` prints it.  The public definition sums the hex *digit values*; the unchanged
tree sums byte values (finding `tek-checksums-byte-sums`, model flag `q.tekByteSums`).  The theorem holds for the
digit-sum behaviour, and for the byte-sum behaviour exactly on those inputs where both sums agree mod 256 (`hsum`). -/
theorem C06_tek_line (q : Quirks) (g a : Nat) (buf : List Byte) (ha : a < 65536) (h1 : 1 ≤ buf.length) (hl : buf.length ≤ 255)
    (hsum : q.tekByteSums = false ∨
      (lo (lo a + lo (a / 256) + buf.length) = lo (nibbles [b (a / 256), b a, b buf.length]) ∧ lo (sumN buf) = lo (nibbles buf))) :
    Hex.tekLine (P2Hex.tekLine q 0 g a buf) = some (.data a buf) := by
  have hc1 : (if q.tekByteSums = true then lo (lo a + lo (a / 256) + buf.length) else lo (nibbles [b (a / 256), b a, b buf.length])) =
      lo (nibbles [b (a / 256), b a, b buf.length]) := by
    rcases hsum with h | h
    · simp [h]
    · simp [h.1]
  have hc2 : (if q.tekByteSums = true then lo (sumN buf) else lo (nibbles buf)) = lo (nibbles buf) := by
    rcases hsum with h | h
    · simp [h]
    · simp [h.2]
  have key := tekLine_mk (b (a / 256)) (b a) buf h1 hl (b (lo (nibbles [b (a / 256), b a, b buf.length])))
    (b (lo (nibbles buf))) (by rw [b_toNat]; unfold lo; omega) (by unfold lo b; simp)
  unfold P2Hex.tekLine
  simp only [outBytes_plain, hc1, hc2, hex2_eq, ← bytesHex_append, List.cons_append, List.nil_append, List.append_assoc] at key ⊢
  rw [key]
  simp only [b_toNat]
  congr 2
  omega

example : Hex.tekLine (P2Hex.tekLine { tekByteSums := false } 0 1 0x1234 [0x10, 0xfe]) = some (.data 0x1234 [0x10, 0xfe]) :=
  C06_tek_line _ 1 0x1234 _ (by decide) (by decide) (by decide) (Or.inl rfl)

/-- the byte-sum code is right where the sums agree: address `$0102`, 2 bytes below `$10` -/
example : Hex.tekLine (P2Hex.tekLine {} 0 1 0x0102 [0x03, 0x0f]) = some (.data 0x0102 [0x03, 0x0f]) :=
  C06_tek_line _ 1 0x0102 _ (by decide) (by decide) (by decide) (Or.inr (by decide))

/-- **Tektronix, whole file** (digit-sum checksums, one selected record, byte-addressed target, `-m 0`, any line length):
all blocks are accepted and decode to exactly the record's bytes at `ErgStart…` (p2hex writes no termination block). -/
theorem C06_tek_file (q : Quirks) (hq : q.tekByteSums = false) (ll a : Nat) (data : List Byte) (hll : 1 ≤ ll) (hl : ll ≤ 255)
    (ha : a + data.length ≤ 65536) :
    decodeTekLines (tekLoop q 0 1 ll data.length a data) = some ⟨cellsFrom a data, [], 0⟩ := by
  have key : ∀ (fuel a : Nat) (data : List Byte), data.length ≤ fuel → a + data.length ≤ 65536 →
      ∃ rs, (tekLoop q 0 1 ll fuel a data).mapM Hex.tekLine = some rs ∧
        ∀ rest, tekRun (rs ++ rest) = addCells (cellsFrom a data) (tekRun rest) := by
    intro fuel
    induction fuel with
    | zero =>
      intro a data hf _
      have : data = [] := by cases data <;> simp_all
      subst this
      exact ⟨[], by simp [tekLoop], by intro rest; simp [cellsFrom, addCells_nil]⟩
    | succ f ih =>
      intro a data hf ha
      by_cases hd : data = []
      · subst hd
        exact ⟨[], by simp [tekLoop], by intro rest; simp [cellsFrom, addCells_nil]⟩
      · have hpos : 0 < data.length := List.length_pos_iff.mpr hd
        have hn2 : min ll data.length ≤ data.length := Nat.min_le_right _ _
        have htl : (data.take (min ll data.length)).length = min ll data.length := by simp
        have hdl : (data.drop (min ll data.length)).length = data.length - min ll data.length := by simp
        have hline := C06_tek_line q 1 a (data.take (min ll data.length)) (by omega) (by rw [htl]; omega)
          (by rw [htl]; omega) (Or.inl hq)
        have hmod : (a + min ll data.length) % two32 = a + min ll data.length := by
          apply Nat.mod_eq_of_lt; unfold two32; omega
        rw [tekLoop_succ _ _ _ _ _ hd, hmod]
        obtain ⟨rs, h1, h4⟩ := ih (a + min ll data.length) (data.drop (min ll data.length))
          (by rw [hdl]; omega) (by rw [hdl]; omega)
        refine ⟨.data a (data.take (min ll data.length)) :: rs, mapM_cons_some _ _ _ _ _ hline h1, ?_⟩
        intro rest
        rw [List.cons_append, tekRun_data, h4, addCells_addCells, take_drop_cells a _ data hn2]
  obtain ⟨rs, h1, h4⟩ := key data.length a data (Nat.le_refl _) ha
  unfold decodeTekLines
  have := h4 []
  rw [List.append_nil] at this
  rw [h1]
  simp only [this, tekRun, addCells]
  simp

example : decodeTekLines (tekLoop { tekByteSums := false } 0 1 2 5 0xfffb [0x11, 0x22, 0x33, 0x44, 0x55]) =
    some ⟨cellsFrom 0xfffb [0x11, 0x22, 0x33, 0x44, 0x55], [], 0⟩ :=
  C06_tek_file _ rfl 2 0xfffb [0x11, 0x22, 0x33, 0x44, 0x55] (by decide) (by decide) (by decide)

/-! ## Atmel generic -/

/-- Atmel generic line exactly as `ProcessFile` prints it for one 16-bit word (`-avrlen 3` or `2`): `<address>:<word>`,
the word printed high byte first; the reader returns the address and the two bytes in memory (little-endian) order. -/
theorem C06_atmel_line (avrLen a : Nat) (x y : Byte) (rest : List Byte) (hav : avrLen = 2 ∨ avrLen = 3)
    (ha : a < 256 ^ avrLen) :
    Hex.atmelLine (2 * avrLen) (P2Hex.atmelLine avrLen a (x :: y :: rest)) = some (a, [x, y]) := by
  rcases hav with rfl | rfl
  · have e : P2Hex.atmelLine 2 a (x :: y :: rest) = bytesHex [b (a / 256), b a] ++ ':' :: bytesHex [y, x] := by
      simp [P2Hex.atmelLine, atmelAddr, hex2, bytesHex]
    rw [e]
    have key := atmelLine_mk [b (a / 256), b a] y x
    rw [show 2 * [b (a / 256), b a].length = 2 * 2 from rfl] at key
    rw [key, be2, b_toNat, b_toNat]
    have : a / 256 % 256 * 256 + a % 256 = a := by omega
    rw [this]
  · have e : P2Hex.atmelLine 3 a (x :: y :: rest) = bytesHex [b (a / 65536), b (a / 256), b a] ++ ':' :: bytesHex [y, x] := by
      simp [P2Hex.atmelLine, atmelAddr, hex2, bytesHex]
    rw [e]
    have key := atmelLine_mk [b (a / 65536), b (a / 256), b a] y x
    rw [show 2 * [b (a / 65536), b (a / 256), b a].length = 2 * 3 from rfl] at key
    rw [key, be3, b_toNat, b_toNat, b_toNat]
    have : (a / 65536 % 256 * 256 + a / 256 % 256) * 256 + a % 256 = a := by omega
    rw [this]

example : Hex.atmelLine 6 (P2Hex.atmelLine 3 0x12345 [0xcd, 0xab]) = some (0x12345, [0xcd, 0xab]) :=
  C06_atmel_line 3 0x12345 0xcd 0xab [] (Or.inr rfl) (by decide)

/-- a trailing single byte (odd number of bytes on the byte-addressed AVR code segment) is written as a word with high byte 0 -/
theorem C06_atmel_line_odd (avrLen a : Nat) (x : Byte) (hav : avrLen = 2 ∨ avrLen = 3) (ha : a < 256 ^ avrLen) :
    Hex.atmelLine (2 * avrLen) (P2Hex.atmelLine avrLen a [x]) = some (a, [x, 0]) := by
  have h := C06_atmel_line avrLen a x 0 [] hav ha
  simpa [P2Hex.atmelLine, b] using h

/-- **Atmel generic, whole file** (one selected record; `Gran = 2`: the word-addressed AVR code segment, `Gran = 1`: `AVR(CSEG8)`;
an even number of bytes; any line length ≥ 2 – `-l` is rounded up to even, every line carries one word):
all lines are accepted; read as (unit address, word) chunks with the target's granularity as unit they give exactly the
record's bytes at byte address `ErgStart · Gran …`. -/
theorem C06_atmel_file (avrLen gran ll a : Nat) (data : List Byte) (hav : avrLen = 2 ∨ avrLen = 3)
    (hg : gran = 1 ∨ gran = 2) (hll : 2 ≤ ll) (heven : data.length % 2 = 0)
    (ha : a + data.length / gran ≤ 256 ^ avrLen) :
    ∃ chunks, decodeAtmelLines (2 * avrLen) (atmelLoop avrLen gran ll data.length a data) = some chunks ∧
      chunkCells gran chunks = cellsFrom (a * gran) data := by
  have hpow : 256 ^ avrLen ≤ 16777216 := by rcases hav with rfl | rfl <;> decide
  have key : ∀ (fuel a : Nat) (data : List Byte), data.length ≤ fuel → data.length % 2 = 0 →
      a + data.length / gran ≤ 256 ^ avrLen →
      ∃ chunks, (atmelLoop avrLen gran ll fuel a data).mapM (Hex.atmelLine (2 * avrLen)) = some chunks ∧
        chunkCells gran chunks = cellsFrom (a * gran) data := by
    intro fuel
    induction fuel with
    | zero =>
      intro a data hf _ _
      have : data = [] := by cases data <;> simp_all
      subst this
      exact ⟨[], by simp [atmelLoop], by simp [chunkCells, cellsFrom]⟩
    | succ f ih =>
      intro a data hf hev ha
      match data, hf, hev, ha with
      | [], _, _, _ => exact ⟨[], by simp [atmelLoop], by simp [chunkCells, cellsFrom]⟩
      | [x], _, hev, _ => simp at hev
      | x :: y :: rest, hf, hev, ha =>
        simp only [List.length_cons] at hf hev ha
        have hn : min 2 (min ll (x :: y :: rest).length) = 2 := by simp only [List.length_cons]; omega
        rcases hg with rfl | rfl
        · have hline := C06_atmel_line avrLen a x y [] hav (by omega)
          have hmod : (a + 2 / 1) % two32 = a + 2 := by unfold two32; omega
          obtain ⟨chunks, h1, h2⟩ := ih (a + 2) rest (by omega) (by omega) (by omega)
          refine ⟨(a, [x, y]) :: chunks, ?_, ?_⟩
          · simp only [atmelLoop, reduceCtorEq, if_false, hn, List.take_succ_cons, List.take_zero, List.drop_succ_cons, List.drop_zero, hmod]
            exact mapM_cons_some _ _ _ _ _ hline h1
          · simp only [chunkCells, h2, cellsFrom, List.cons_append, List.nil_append, Nat.mul_one]
        · have hline := C06_atmel_line avrLen a x y [] hav (by omega)
          have hmod : (a + 2 / 2) % two32 = a + 1 := by unfold two32; omega
          obtain ⟨chunks, h1, h2⟩ := ih (a + 1) rest (by omega) (by omega) (by omega)
          refine ⟨(a, [x, y]) :: chunks, ?_, ?_⟩
          · simp only [atmelLoop, reduceCtorEq, if_false, hn, List.take_succ_cons, List.take_zero, List.drop_succ_cons, List.drop_zero, hmod]
            exact mapM_cons_some _ _ _ _ _ hline h1
          · simp only [chunkCells, h2, cellsFrom, List.cons_append, List.nil_append]
            congr 3
            omega
  obtain ⟨chunks, h1, h2⟩ := key data.length a data (Nat.le_refl _) heven ha
  exact ⟨chunks, h1, h2⟩

example : ∃ chunks, decodeAtmelLines 6 (atmelLoop 3 2 16 4 0x7ffffe [1, 2, 3, 4]) = some chunks ∧
    chunkCells 2 chunks = cellsFrom (0x7ffffe * 2) [1, 2, 3, 4] :=
  C06_atmel_file 3 2 16 0x7ffffe [1, 2, 3, 4] (Or.inr rfl) (Or.inr rfl) (by decide) (by decide) (by decide)

/-! ## C array -/

/-- **C array, one data block** (`-F C`, any `Gran`, `-m 0`, upper- or lower-case digits, any line length ≥ 1): reading the
text between `static const unsigned char …_data[] =` and the closing `};` — the `{` line, the lines of `0xHH,` items as the
data loop prints them (every item but the group's last followed by a comma) and `};` — the C-array reader collects exactly
the group's bytes, in order, appended to the block header `cur` it has read from the `#define` lines. -/
theorem C06_c_array (lower : Bool) (g ll : Nat) (hll : 1 ≤ ll) (data : List Byte) (cur : CBlock) (acc : List CBlock)
    (rest : List (List Char)) :
    cRun ("{".toList :: (cLoop lower 0 g ll data.length data ++ "};".toList :: rest)) cur true acc =
      if ({ cur with data := cur.data ++ data } : CBlock).ok then
        cRun rest {} false ({ cur with data := cur.data ++ data } :: acc)
      else none := by
  rw [cRun_open, cRun_loop lower g ll hll data.length data cur acc _ (Nat.le_refl _), cRun_close]

/-- with the header `cHead` announces (`_start`, `_len`, `_end` of the group) the block is consistent and is returned -/
theorem C06_c_block (lower : Bool) (g ll s : Nat) (hll : 1 ≤ ll) (data : List Byte) (hd : 1 ≤ data.length) :
    cRun ("{".toList :: (cLoop lower 0 g ll data.length data ++ ["};".toList, []]))
        { start := some s, len := some data.length, stop := some (s + data.length - 1) } true [] =
      some [{ start := some s, len := some data.length, stop := some (s + data.length - 1), data := data }] := by
  rw [C06_c_array lower g ll hll]
  have hok : ({ start := some s, len := some data.length, stop := some (s + data.length - 1), data := [] ++ data } : CBlock).ok = true := by
    simp [CBlock.ok]; omega
  rw [if_pos hok]
  simp [cRun]

example : cRun ("{".toList :: (cLoop true 0 1 2 5 [1, 2, 3, 4, 0xff] ++ ["};".toList, []]))
      { start := some 0x10, len := some 5, stop := some 0x14 } true [] =
    some [{ start := some 0x10, len := some 5, stop := some 0x14, data := [1, 2, 3, 4, 0xff] }] :=
  C06_c_block true 1 2 0x10 (by decide) [1, 2, 3, 4, 0xff] (by decide)

/-- the text of that block -/
example : (cLoop true 0 1 2 5 [1, 2, 3, 4, 0xff]).map String.ofList = ["  0x01,0x02,", "  0x03,0x04,", "  0xff"] := by decide


/-! ## Intel HEX, 8-bit format: entry address (`-e` / entry record of the code file) and the `-i` variants -/

/-- **Intel HEX (8-bit), whole file with entry address**: generalises `C06_intel_file` to the three documented variants of
the last line and to an entry address, which this format carries in the address field of the end record (`-i 0` only). -/
theorem C06_intel8_file (ll a imode : Nat) (data : List Byte) (entry : Option Nat) (hll : 1 ≤ ll) (hl : ll ≤ 255)
    (hi : imode ≤ 2) (ha : a + data.length ≤ 65536) :
    decodeIhexLines imode (intelLoop 0 1 ll false data.length a data 0 false ++ intelTerm imode 0 entry) =
      some ⟨cellsFrom a data, [], if imode = 0 then entry.getD 0 % 65536 else 0⟩ := by
  obtain ⟨rs, h1, h4⟩ := intelLoop_seg imode ll hll hl 0 false data.length a data (Nat.le_refl _) (Nat.zero_le _)
    (by omega) (by unfold two32; omega)
  unfold decodeIhexLines
  cases entry with
  | none =>
    rw [mapM_append_some _ _ _ _ _ h1 (intelTerm_none imode 0 hi)]
    simp only [h4, ihexRun, addCellsD]
    simp
  | some e =>
    rw [mapM_append_some _ _ _ _ _ h1 (intelTerm_8v imode e hi)]
    simp only [h4, ihexRun, addCellsD]
    simp

example : decodeIhexLines 0 (intelLoop 0 1 2 false 3 0xfffd [7, 8, 9] 0 false ++ intelTerm 0 0 (some 0x1234)) =
    some ⟨cellsFrom 0xfffd [7, 8, 9], [], 0x1234⟩ :=
  C06_intel8_file 2 0xfffd 0 [7, 8, 9] (some 0x1234) (by decide) (by decide) (by decide) (by decide)

/-! ## The same statements about the model's `emitGroups` + `terminators` (what `p2hex` returns for one selected record) -/

theorem C06_intel8 (o : Opts) (g : Group) (e : Option Nat) (hf : g.fmt = .intel) (hg : g.gran = 1) (hmm : o.multiMode = 0)
    (hc : o.destFormat ≠ some .c) (hll : 1 ≤ o.lineLen) (hl : o.lineLen ≤ 255) (hi : o.intelMode ≤ 2)
    (ha : g.ergStart + g.data.length ≤ 65536) :
    ∃ st ls, emitGroups o {} [g] = .ok (st, ls) ∧
      decodeIhexLines o.intelMode (ls ++ terminators o st e) =
        some ⟨cellsFrom g.ergStart g.data, [], if o.intelMode = 0 then e.getD 0 % 65536 else 0⟩ := by
  obtain ⟨fmt, seg, gran, ergStart, ergStop, data⟩ := g
  simp only at hf hg ha
  subst hf hg
  refine ⟨{ ({} : St) with intelOcc := true }, intelLoop 0 1 o.lineLen false data.length ergStart data 0 false, ?_, ?_⟩
  · simp [emitGroups, emitGroup, hmm, bind, Except.bind, pure, Except.pure]
  · have := C06_intel8_file o.lineLen ergStart o.intelMode data e hll hl hi ha
    simpa [terminators, hc] using this

theorem C06_intel16 (o : Opts) (g : Group) (e : Option Nat) (hf : g.fmt = .intel16) (hg : g.gran = 1) (hmm : o.multiMode = 0)
    (hc : o.destFormat ≠ some .c) (hll : 1 ≤ o.lineLen) (hl : o.lineLen ≤ 255) (hi : o.intelMode ≤ 2)
    (ha : g.ergStart < 0x100000) (hseg : g.ergStart % 16 + g.data.length ≤ 65536) (he : e.getD 0 < 0x100000) :
    ∃ st ls, emitGroups o {} [g] = .ok (st, ls) ∧
      decodeIhexLines o.intelMode (ls ++ terminators o st e) = some ⟨cellsFrom g.ergStart g.data, e.toList, 0⟩ := by
  obtain ⟨fmt, seg, gran, ergStart, ergStop, data⟩ := g
  simp only at hf hg ha hseg
  subst hf hg
  refine ⟨{ ({} : St) with intelOcc := true, maxIntel := max 0 1 },
    (intel16Head 1 ergStart).1 :: intelLoop 0 1 o.lineLen false data.length ergStart data (intel16Head 1 ergStart).2 false, ?_, ?_⟩
  · simp [emitGroups, emitGroup, hmm, bind, Except.bind, pure, Except.pure]
  · have := C06_intel16_file o.lineLen ergStart o.intelMode data e hll hl hi ha hseg he
    simpa [terminators, hc] using this

theorem C06_intel32 (o : Opts) (g : Group) (e : Option Nat) (hf : g.fmt = .intel32) (hg : g.gran = 1) (hmm : o.multiMode = 0)
    (hc : o.destFormat ≠ some .c) (hll : 1 ≤ o.lineLen) (hl : o.lineLen ≤ 255) (hi : o.intelMode ≤ 2)
    (ha : g.ergStart < 4294967296) (h32 : g.ergStart + g.data.length ≤ 4294967296) (he : e.getD 0 < 4294967296) :
    ∃ st ls, emitGroups o {} [g] = .ok (st, ls) ∧
      decodeIhexLines o.intelMode (ls ++ terminators o st e) = some ⟨cellsFrom g.ergStart g.data, e.toList, 0⟩ := by
  obtain ⟨fmt, seg, gran, ergStart, ergStop, data⟩ := g
  simp only at hf hg ha h32
  subst hf hg
  refine ⟨{ ({} : St) with intelOcc := true, maxIntel := max 0 2 },
    (intel32Head 1 ergStart).1 :: intelLoop 0 1 o.lineLen true data.length ergStart data (intel32Head 1 ergStart).2 false, ?_, ?_⟩
  · simp [emitGroups, emitGroup, hmm, bind, Except.bind, pure, Except.pure]
  · have := C06_intel32_file o.lineLen ergStart o.intelMode data e hll hl hi ha h32 he
    simpa [terminators, hc] using this

example : ∃ st ls, emitGroups { destFormat := some .intel32, lineLenArg := 2 } {} [⟨.intel32, 1, 1, 0x2fffd, 0x30001, [1, 2, 3, 4, 5]⟩] = .ok (st, ls) ∧
    decodeIhexLines 0 (ls ++ terminators { destFormat := some .intel32, lineLenArg := 2 } st (some 0x12345678)) =
      some ⟨cellsFrom 0x2fffd [1, 2, 3, 4, 5], [0x12345678], 0⟩ :=
  C06_intel32 { destFormat := some .intel32, lineLenArg := 2 } ⟨.intel32, 1, 1, 0x2fffd, 0x30001, [1, 2, 3, 4, 5]⟩ (some 0x12345678)
    rfl rfl rfl (by decide) (by decide) (by decide) (by decide) (by decide) (by decide) (by decide)


/-! ## `-R` (relocation) and `-a` (relative addresses) -/

/-- **one group, any of the four formats with full address information**: under the range condition `Fits` the text the
model writes for the group decodes to the group's bytes at `g.ergStart…` (the address *after* `-a` / `-R`). -/
theorem C06_emit_decode (o : Opts) (g : Group) (e : Option Nat) (hg : g.gran = 1) (hmm : o.multiMode = 0)
    (hll : 1 ≤ o.lineLen) (hfit : Fits o g e) :
    ∃ st ls, emitGroups o {} [g] = .ok (st, ls) ∧
      readLines g.fmt o.intelMode (ls ++ terminators o st e) =
        some ⟨cellsFrom g.ergStart g.data, (announced g.fmt o.intelMode e).1, (announced g.fmt o.intelMode e).2⟩ := by
  unfold Fits at hfit
  cases hf : g.fmt with
  | moto =>
    rw [hf] at hfit
    obtain ⟨h5, hs, hc, hm, hl, ha, h32, he⟩ := hfit
    exact C06_moto o g e hf hg hmm h5 hs hc hm hll ha h32 he
  | intel =>
    rw [hf] at hfit
    obtain ⟨hc, hl, hi, ha⟩ := hfit
    exact C06_intel8 o g e hf hg hmm hc hll hl hi ha
  | intel16 =>
    rw [hf] at hfit
    obtain ⟨hc, hl, hi, ha, hseg, he⟩ := hfit
    exact C06_intel16 o g e hf hg hmm hc hll hl hi ha hseg he
  | intel32 =>
    rw [hf] at hfit
    obtain ⟨hc, hl, hi, ha, h32, he⟩ := hfit
    exact C06_intel32 o g e hf hg hmm hc hll hl hi ha h32 he
  | mos | tek | dsk | atmel | mico8 | c => rw [hf] at hfit; exact hfit.elim

/-- **`-R <value>`** (Motorola S, Intel 8/16/32; byte-addressed target, `-m 0`, no `-a`): for a record `r` that the window
`startOf … stopOf` selects, the hex text decodes to the record's bytes inside the window at
*address in the code file + relocation value* — provided the relocated group still fits the format (`Fits`, see there
for the finding `range-check-ignores-relocation`) and the sum does not leave the 32-bit range. -/
theorem C06_reloc (o : Opts) (startOf stopOf : Nat → Nat) (r : Rec) (g : Group) (ov : Bool) (e : Option Nat)
    (hsel : selectRec o startOf stopOf r = .ok (some (g, ov))) (hrel : o.relAdr = false)
    (hnw : clipStart startOf r + o.relocate < 4294967296)
    (hg : r.gran = 1) (hmm : o.multiMode = 0) (hll : 1 ≤ o.lineLen) (hfit : Fits o g e) :
    ∃ st ls, emitGroups o {} [g] = .ok (st, ls) ∧
      readLines g.fmt o.intelMode (ls ++ terminators o st e) =
        some ⟨cellsFrom (clipStart startOf r + o.relocate) (clipData startOf stopOf r),
          (announced g.fmt o.intelMode e).1, (announced g.fmt o.intelMode e).2⟩ := by
  obtain ⟨_, _, hgran, _, hdata, hstart, _⟩ := selectRec_fields o startOf stopOf r g ov hsel
  have hg' : g.gran = 1 := by rw [hgran, hg]; rfl
  have hst : g.ergStart = clipStart startOf r + o.relocate := by
    rw [hstart, hrel]; simp only [Bool.false_eq_true, if_false]; exact Nat.mod_eq_of_lt hnw
  have := C06_emit_decode o g e hg' hmm hll hfit
  rw [hst, hdata] at this
  exact this

/-- **`-a`** (optionally together with `-R`): the decoded addresses are relative to the window start:
*address − start address of the window + relocation value*. -/
theorem C06_relative (o : Opts) (startOf stopOf : Nat → Nat) (r : Rec) (g : Group) (ov : Bool) (e : Option Nat)
    (hsel : selectRec o startOf stopOf r = .ok (some (g, ov))) (hrel : o.relAdr = true)
    (hnw : clipStart startOf r - startOf r.seg.toNat + o.relocate < 4294967296)
    (hg : r.gran = 1) (hmm : o.multiMode = 0) (hll : 1 ≤ o.lineLen) (hfit : Fits o g e) :
    ∃ st ls, emitGroups o {} [g] = .ok (st, ls) ∧
      readLines g.fmt o.intelMode (ls ++ terminators o st e) =
        some ⟨cellsFrom (clipStart startOf r - startOf r.seg.toNat + o.relocate) (clipData startOf stopOf r),
          (announced g.fmt o.intelMode e).1, (announced g.fmt o.intelMode e).2⟩ := by
  obtain ⟨_, _, hgran, _, hdata, hstart, _⟩ := selectRec_fields o startOf stopOf r g ov hsel
  have hg' : g.gran = 1 := by rw [hgran, hg]; rfl
  have hge : startOf r.seg.toNat ≤ clipStart startOf r := by unfold clipStart; omega
  have hst : g.ergStart = clipStart startOf r - startOf r.seg.toNat + o.relocate := by
    rw [hstart, hrel]; simp only [if_true]
    have : (clipStart startOf r + two32 - startOf r.seg.toNat) % two32 = clipStart startOf r - startOf r.seg.toNat := by
      unfold two32; omega
    rw [this]; exact Nat.mod_eq_of_lt hnw
  have := C06_emit_decode o g e hg' hmm hll hfit
  rw [hst, hdata] at this
  exact this


/-- non-vacuity (`-R`): Intel32, window `$FFF1–$FFF3` of a 5-byte record at `$FFF0`, `-R $12340` -/
example : ∃ st ls, emitGroups { destFormat := some .intel32, relocate := 0x12340 } {} [⟨.intel32, 1, 1, 0x22331, 0xfff3, [2, 3, 4]⟩] = .ok (st, ls) ∧
    readLines .intel32 0 (ls ++ terminators { destFormat := some .intel32, relocate := 0x12340 } st none) =
      some ⟨cellsFrom (0xfff1 + 0x12340) [2, 3, 4], [], 0⟩ :=
  C06_reloc { destFormat := some .intel32, relocate := 0x12340 } (fun _ => 0xfff1) (fun _ => 0xfff3) ⟨0x51, 1, 1, 0xfff0, [1, 2, 3, 4, 5]⟩
    ⟨.intel32, 1, 1, 0x22331, 0xfff3, [2, 3, 4]⟩ false none
    (by simp [selectRec, actFormat, bind, Except.bind, pure, Except.pure, recEnd, two32, maxAdr]) rfl (by decide) rfl rfl (by decide)
    ⟨by decide, by decide, by decide, by decide, by decide, by decide⟩

/-- non-vacuity (`-a -R`): Motorola S, same window, relative to `$FFF1`, relocated by `$100` -/
example : ∃ st ls, emitGroups { destFormat := some .moto, rec5 := false, relAdr := true, relocate := 0x100 } {} [⟨.moto, 1, 1, 0x100, 0xfff3, [2, 3, 4]⟩] = .ok (st, ls) ∧
    readLines .moto 0 (ls ++ terminators { destFormat := some .moto, rec5 := false, relAdr := true, relocate := 0x100 } st (some 0x1234)) =
      some ⟨cellsFrom (0xfff1 - 0xfff1 + 0x100) [2, 3, 4], [0x1234], 0⟩ :=
  C06_relative { destFormat := some .moto, rec5 := false, relAdr := true, relocate := 0x100 } (fun _ => 0xfff1) (fun _ => 0xfff3)
    ⟨0x01, 1, 1, 0xfff0, [1, 2, 3, 4, 5]⟩ ⟨.moto, 1, 1, 0x100, 0xfff3, [2, 3, 4]⟩ false (some 0x1234)
    (by simp [selectRec, actFormat, bind, Except.bind, pure, Except.pure, recEnd, two32, maxAdr]) rfl (by decide) rfl rfl (by decide)
    ⟨rfl, rfl, rfl, by decide, by decide, by decide, by decide, by decide⟩

/-- **Finding `range-check-ignores-relocation`**: record of 4 bytes at `$100`, `-F Moto -R $10000`: the group's address is
`$10100`, but the record type was chosen from the unrelocated `ErgStop = $103` (S1, 16-bit address field) and `Fits` fails:
the file decodes to address `$0100`.  Same for the 8-bit Intel format. -/
theorem C06_finding_reloc_range :
    (selectRec { destFormat := some .moto, rec5 := false, relocate := 0x10000 } (fun _ => 0x100) (fun _ => 0x103) ⟨0x01, 1, 1, 0x100, [0, 1, 2, 3]⟩).toOption.bind
        (fun s => s.map (fun gv => gv.1.ergStart)) = some 0x10100 ∧
    decodeSrecLines (s0Line :: (motoLoop 0 1 0 16 4 0x10100 [0, 1, 2, 3] ++ [motoTerm 0 0])) =
      some ⟨cellsFrom 0x100 [0, 1, 2, 3], [0], 0⟩ ∧
    decodeIhexLines 0 (intelLoop 0 1 16 false 4 0x10100 [0, 1, 2, 3] 0 false ++ intelTerm 0 0 none) =
      some ⟨cellsFrom 0x100 [0, 1, 2, 3], [], 0⟩ := by
  refine ⟨?_, by decide, by decide⟩
  simp [selectRec, actFormat, bind, Except.bind, pure, Except.pure, recEnd, two32, maxAdr, Except.toOption]


/-! ## Default format per processor family -/

/-- **Default format** (`-F` not given): for every header id 0…255 outside the four recorded deviations, the format class
`ProcessFile` takes from the family table (`Generated/Families.lean`, regenerated from the current `headids.c` on every
run) is the one the manual documents — S-records for Motorola, Hitachi and TLCS-900, MOS for 65xx/MELPS, DSK for the TI
16-bit DSPs, Atmel generic for the AVRs, Intel Hex for every other documented family, and rejection of undocumented ids.
`decide` over the complete id range. -/
theorem C06_default_format :
    ∀ id, id < 256 → id ∉ defaultFormatDeviations → modelDefault id = manualDefault id := by decide +kernel

/-- non-vacuity: ids of all five classes (and an undocumented one) satisfy the hypotheses; the SPEC side is not constant -/
example : (∀ id ∈ [0x01, 0x11, 0x74, 0x3b, 0x51, 0x42, 0x00], id < 256 ∧ id ∉ defaultFormatDeviations) ∧
    [0x01, 0x11, 0x74, 0x3b, 0x51, 0x42, 0x00].map manualDefault =
      [some .srec, some .mos, some .dsk, some .atmel, some .intel, some .intel, none] := by decide

/-- **Finding `default-format-differs-from-manual`**: XCore (`$06`), 2650 (`$37`) and TLCS-9000 (`$56`) get S-records
although they are neither Motorola, Hitachi nor TLCS-900 ("Intel Hex for the rest"); MELPS-4500 (`$12`) gets Intel Hex
although the sentence says "MOS for 65xx/MELPS". -/
theorem C06_finding_default_format :
    defaultFormatDeviations.map (fun id => (modelDefault id, manualDefault id)) =
      [(some .srec, some .intel), (some .intel, some .mos), (some .srec, some .intel), (some .srec, some .intel)] := by
  decide +kernel


/-! ## Several selected records (groups) in one Intel 16 / 32 file -/

/-- **Intel HEX 32, any number of groups**: for every non-empty list of selected records on a byte-addressed target — each
with its own `:02000004` prologue, any mixture of addresses (ascending or not), each crossing any number of 64 KiB banks —
the whole text `emitGroups` + `terminators` write is accepted and decodes to the concatenation of the groups' images and the
entry address. -/
theorem C06_intel32_groups (o : Opts) (gs : List Group) (e : Option Nat) (hne : gs ≠ []) (hall : ∀ g ∈ gs, Ok32 g)
    (hmm : o.multiMode = 0) (hc : o.destFormat ≠ some .c) (hll : 1 ≤ o.lineLen) (hl : o.lineLen ≤ 255)
    (hi : o.intelMode ≤ 2) (he : e.getD 0 < 4294967296) :
    ∃ st ls, emitGroups o {} gs = .ok (st, ls) ∧
      decodeIhexLines o.intelMode (ls ++ terminators o st e) = some ⟨imageOf gs, e.toList, 0⟩ := by
  obtain ⟨st, ls, rs, hemit, hmo, hms, hint, hm, ht⟩ := emitGroups_32 o hmm hll hl gs {} hall
  obtain ⟨hio, hmi⟩ := hint hne
  refine ⟨st, ls, hemit, ?_⟩
  have hmi' : st.maxIntel = 2 := by rw [hmi]; rfl
  have hterm : terminators o st e = intelTerm o.intelMode 2 e := by
    simp [terminators, hmo, hms, hio, hmi', hc]
  rw [hterm]
  unfold decodeIhexLines
  cases e with
  | none =>
    rw [mapM_append_some _ _ _ _ _ hm (intelTerm_none o.intelMode 2 hi)]
    simp only [ht _ (stateIndep_eof 0 []), ihexRun, addCellsD]
    simp
  | some ev =>
    rw [mapM_append_some _ _ _ _ _ hm (intelTerm_lin o.intelMode ev hi (by simpa using he))]
    simp only [ht _ (stateIndep_startLin ev _ (stateIndep_eof 0 [])), ihexRun, addCellsD]
    simp

/-- **Intel HEX 16, any number of groups** (each inside the first MiB and inside the 64 KiB of its segment record) -/
theorem C06_intel16_groups (o : Opts) (gs : List Group) (e : Option Nat) (hne : gs ≠ []) (hall : ∀ g ∈ gs, Ok16 g)
    (hmm : o.multiMode = 0) (hc : o.destFormat ≠ some .c) (hll : 1 ≤ o.lineLen) (hl : o.lineLen ≤ 255)
    (hi : o.intelMode ≤ 2) (he : e.getD 0 < 0x100000) :
    ∃ st ls, emitGroups o {} gs = .ok (st, ls) ∧
      decodeIhexLines o.intelMode (ls ++ terminators o st e) = some ⟨imageOf gs, e.toList, 0⟩ := by
  obtain ⟨st, ls, rs, hemit, hmo, hms, hint, hm, ht⟩ := emitGroups_16 o hmm hll hl gs {} hall
  obtain ⟨hio, hmi⟩ := hint hne
  refine ⟨st, ls, hemit, ?_⟩
  have hmi' : st.maxIntel = 1 := by rw [hmi]; rfl
  have hterm : terminators o st e = intelTerm o.intelMode 1 e := by
    simp [terminators, hmo, hms, hio, hmi', hc]
  rw [hterm]
  unfold decodeIhexLines
  cases e with
  | none =>
    rw [mapM_append_some _ _ _ _ _ hm (intelTerm_none o.intelMode 1 hi)]
    simp only [ht _ (stateIndep_eof 0 []), ihexRun, addCellsD]
    simp
  | some ev =>
    have he' : ev < 0x100000 := by simpa using he
    have hent : ev / 16 % 65536 * 16 + ev % 16 = ev := by omega
    rw [mapM_append_some _ _ _ _ _ hm (intelTerm_seg o.intelMode ev hi)]
    simp only [ht _ (stateIndep_startSeg _ _ _ (stateIndep_eof 0 [])), ihexRun, addCellsD, hent]
    simp

/-- non-vacuity: two records, the second below the first, the first crossing a bank end (the witness of the seeded
change C06-a: a record that ends exactly at `$2FFFF` followed by another record) -/
example : ∃ st ls, emitGroups { destFormat := some .intel32 } {} [⟨.intel32, 1, 1, 0x2fffe, 0x2ffff, [1, 2]⟩, ⟨.intel32, 1, 1, 0x100, 0x102, [3, 4, 5]⟩] = .ok (st, ls) ∧
    decodeIhexLines 0 (ls ++ terminators { destFormat := some .intel32 } st (some 0x100)) =
      some ⟨[(0x2fffe, 1), (0x2ffff, 2), (0x100, 3), (0x101, 4), (0x102, 5)], [0x100], 0⟩ :=
  C06_intel32_groups { destFormat := some .intel32 } _ (some 0x100) (by simp)
    (by intro g hg; simp at hg; rcases hg with rfl | rfl <;> exact ⟨rfl, rfl, by decide, by decide⟩)
    rfl (by decide) (by decide) (by decide) (by decide) (by decide)


/-! ## The selected part of a record against the SPEC image (`Spec/HexImage.lean`: `-r`, `-a`, `-R` granule by granule) -/

/-- **Record selection** (byte-addressed target, `-m 0`): the group `selectRec` builds for a record — window clipping by
`drop`/`take`, `-a`, `-R` in 32-bit arithmetic — has exactly the address → byte cells that the SPEC prescribes for this
record, written independently granule by granule: every granule at address `a` inside the window goes to
`a − (window start with -a) + (relocation)`.  Guards: the record is non-empty, shorter than 64 KiB (its length field is a
`Word`) and does not wrap at 2^32, nor does the shifted window part. -/
theorem C06_select_image (o : Opts) (startOf stopOf : Nat → Nat) (r : Rec) (g : Group) (ov : Bool)
    (hsel : selectRec o startOf stopOf r = .ok (some (g, ov))) (hg : r.gran = 1)
    (hlen1 : 1 ≤ r.data.length) (hlen : r.data.length < 65536) (h32 : r.start + r.data.length ≤ 4294967296)
    (hw : clipStop stopOf r + 1 - (if o.relAdr then startOf r.seg.toNat else 0) + o.relocate ≤ 4294967296) :
    cellsFrom g.ergStart g.data =
      HexImage.recCells (startOf r.seg.toNat) (stopOf r.seg.toNat) o.relAdr o.relocate 0 r := by
  obtain ⟨_, _, _, _, hdata, hstart, hwin⟩ := selectRec_fields o startOf stopOf r g ov hsel
  have hg' : r.gran.toNat = 1 := by rw [hg]; rfl
  rw [recCells_clip startOf stopOf o.relAdr o.relocate r hg' hlen1 hlen h32 hwin hw, hdata, hstart]
  congr 1
  have hge : startOf r.seg.toNat ≤ clipStart startOf r := by unfold clipStart; omega
  cases hrel : o.relAdr with
  | false =>
    rw [hrel] at hw
    simp only [Bool.false_eq_true, if_false, Nat.sub_zero] at hw ⊢
    apply Nat.mod_eq_of_lt; unfold two32; omega
  | true =>
    rw [hrel] at hw
    simp only [if_true] at hw ⊢
    have : (clipStart startOf r + two32 - startOf r.seg.toNat) % two32 = clipStart startOf r - startOf r.seg.toNat := by
      unfold two32; omega
    rw [this]
    apply Nat.mod_eq_of_lt; unfold two32; omega

/-- **End to end for one selected record** (Motorola S, Intel 8/16/32; byte-addressed target, `-m 0`; any `-r` window, `-a`,
`-R`, `-l`, entry address): what the model of `p2hex` writes for the record decodes — all counts and checksums valid — to
exactly the cells of the SPEC image of that record, provided the shifted group fits the format (`Fits`). -/
theorem C06_record_image (o : Opts) (startOf stopOf : Nat → Nat) (r : Rec) (g : Group) (ov : Bool) (e : Option Nat)
    (hsel : selectRec o startOf stopOf r = .ok (some (g, ov))) (hg : r.gran = 1) (hmm : o.multiMode = 0)
    (hll : 1 ≤ o.lineLen) (hlen1 : 1 ≤ r.data.length) (hlen : r.data.length < 65536)
    (h32 : r.start + r.data.length ≤ 4294967296)
    (hw : clipStop stopOf r + 1 - (if o.relAdr then startOf r.seg.toNat else 0) + o.relocate ≤ 4294967296)
    (hfit : Fits o g e) :
    ∃ st ls, emitGroups o {} [g] = .ok (st, ls) ∧
      readLines g.fmt o.intelMode (ls ++ terminators o st e) =
        some ⟨HexImage.recCells (startOf r.seg.toNat) (stopOf r.seg.toNat) o.relAdr o.relocate 0 r,
          (announced g.fmt o.intelMode e).1, (announced g.fmt o.intelMode e).2⟩ := by
  obtain ⟨_, _, hgran, _, _, _, _⟩ := selectRec_fields o startOf stopOf r g ov hsel
  have hg' : g.gran = 1 := by rw [hgran, hg]; rfl
  have := C06_emit_decode o g e hg' hmm hll hfit
  rw [C06_select_image o startOf stopOf r g ov hsel hg hlen1 hlen h32 hw] at this
  exact this

/-- non-vacuity: the `-a -R` example of `C06_relative`, now against the SPEC image, which is computed here -/
example : HexImage.recCells 0xfff1 0xfff3 true 0x100 0 ⟨0x01, 1, 1, 0xfff0, [1, 2, 3, 4, 5]⟩ = [(0x100, 2), (0x101, 3), (0x102, 4)] ∧
    ∃ st ls, emitGroups { destFormat := some .moto, rec5 := false, relAdr := true, relocate := 0x100 } {} [⟨.moto, 1, 1, 0x100, 0xfff3, [2, 3, 4]⟩] = .ok (st, ls) ∧
    readLines .moto 0 (ls ++ terminators { destFormat := some .moto, rec5 := false, relAdr := true, relocate := 0x100 } st (some 0x1234)) =
      some ⟨HexImage.recCells 0xfff1 0xfff3 true 0x100 0 ⟨0x01, 1, 1, 0xfff0, [1, 2, 3, 4, 5]⟩, [0x1234], 0⟩ :=
  ⟨by decide, C06_record_image { destFormat := some .moto, rec5 := false, relAdr := true, relocate := 0x100 } (fun _ => 0xfff1) (fun _ => 0xfff3)
    ⟨0x01, 1, 1, 0xfff0, [1, 2, 3, 4, 5]⟩ ⟨.moto, 1, 1, 0x100, 0xfff3, [2, 3, 4]⟩ false (some 0x1234)
    (by simp [selectRec, actFormat, bind, Except.bind, pure, Except.pure, recEnd, two32, maxAdr]) rfl rfl (by decide) (by decide) (by decide)
    (by decide) (by decide) ⟨rfl, rfl, rfl, by decide, by decide, by decide, by decide, by decide⟩⟩


/-! ## MOS / Tektronix / Atmel on the model's `emitGroups` + `terminators`; further non-vacuity examples -/

/-- `C06_mos_file` about what `p2hex` returns for one selected record (repaired MOS code: both flags off) -/
theorem C06_mos (o : Opts) (g : Group) (e : Option Nat) (hf : g.fmt = .mos) (hg : g.gran = 1) (hmm : o.multiMode = 0)
    (hq1 : o.quirks.mosCarry = false) (hq2 : o.quirks.mosConst4 = false) (hc : o.destFormat ≠ some .c)
    (hll : 1 ≤ o.lineLen) (hl : o.lineLen ≤ 255) (ha : g.ergStart + g.data.length ≤ 65536) (hlen : g.data.length < 65536) :
    ∃ st ls, emitGroups o {} [g] = .ok (st, ls) ∧
      decodeMosLines (ls ++ terminators o st e) = some ⟨cellsFrom g.ergStart g.data, [], 0⟩ := by
  obtain ⟨fmt, seg, gran, ergStart, ergStop, data⟩ := g
  simp only at hf hg ha hlen
  subst hf hg
  have := C06_mos_file o.quirks hq1 hq2 o.lineLen ergStart 0 data hll hl ha hlen
  refine ⟨⟨false, false, true, 0, 0, (mosLoop o.quirks 0 1 o.lineLen data.length ergStart data 0).2, 0,
      0 + (mosLoop o.quirks 0 1 o.lineLen data.length ergStart data 0).1.length, 0⟩,
    (mosLoop o.quirks 0 1 o.lineLen data.length ergStart data 0).1, ?_, ?_⟩
  · simp [emitGroups, emitGroup, hmm, bind, Except.bind, pure, Except.pure]
  · simpa [terminators, hc] using this

/-- `C06_tek_file` about what `p2hex` returns for one selected record (digit-sum checksums; no terminator line) -/
theorem C06_tek (o : Opts) (g : Group) (e : Option Nat) (hf : g.fmt = .tek) (hg : g.gran = 1) (hmm : o.multiMode = 0)
    (hq : o.quirks.tekByteSums = false) (hc : o.destFormat ≠ some .c)
    (hll : 1 ≤ o.lineLen) (hl : o.lineLen ≤ 255) (ha : g.ergStart + g.data.length ≤ 65536) :
    ∃ st ls, emitGroups o {} [g] = .ok (st, ls) ∧
      decodeTekLines (ls ++ terminators o st e) = some ⟨cellsFrom g.ergStart g.data, [], 0⟩ := by
  obtain ⟨fmt, seg, gran, ergStart, ergStop, data⟩ := g
  simp only at hf hg ha
  subst hf hg
  have := C06_tek_file o.quirks hq o.lineLen ergStart data hll hl ha
  refine ⟨{}, tekLoop o.quirks 0 1 o.lineLen data.length ergStart data, ?_, ?_⟩
  · simp [emitGroups, emitGroup, hmm, bind, Except.bind, pure, Except.pure]
  · simpa [terminators, hc] using this

/-- `C06_atmel_file` about what `p2hex` returns for one selected record -/
theorem C06_atmel (o : Opts) (g : Group) (e : Option Nat) (hf : g.fmt = .atmel) (hg : g.gran = 1 ∨ g.gran = 2)
    (hav : o.avrLen = 2 ∨ o.avrLen = 3) (hc : o.destFormat ≠ some .c) (hll : 2 ≤ o.lineLen)
    (heven : g.data.length % 2 = 0) (ha : g.ergStart + g.data.length / g.gran ≤ 256 ^ o.avrLen) :
    ∃ st ls chunks, emitGroups o {} [g] = .ok (st, ls) ∧
      decodeAtmelLines (2 * o.avrLen) (ls ++ terminators o st e) = some chunks ∧
      chunkCells g.gran chunks = cellsFrom (g.ergStart * g.gran) g.data := by
  obtain ⟨fmt, seg, gran, ergStart, ergStop, data⟩ := g
  simp only at hf hg ha heven
  subst hf
  obtain ⟨chunks, h1, h2⟩ := C06_atmel_file o.avrLen gran o.lineLen ergStart data hav hg hll heven ha
  refine ⟨{}, atmelLoop o.avrLen gran o.lineLen data.length ergStart data, chunks, ?_, ?_, h2⟩
  · simp [emitGroups, emitGroup, bind, Except.bind, pure, Except.pure]
  · simpa [terminators, hc] using h1

example : ∃ st ls, emitGroups { destFormat := some .mos, quirks := { mosCarry := false, mosConst4 := false } } {} [⟨.mos, 1, 1, 0xfff0, 0xfff2, [1, 2, 3]⟩] = .ok (st, ls) ∧
    decodeMosLines (ls ++ terminators { destFormat := some .mos, quirks := { mosCarry := false, mosConst4 := false } } st none) =
      some ⟨cellsFrom 0xfff0 [1, 2, 3], [], 0⟩ :=
  C06_mos _ ⟨.mos, 1, 1, 0xfff0, 0xfff2, [1, 2, 3]⟩ none rfl rfl rfl rfl rfl (by decide) (by decide) (by decide) (by decide) (by decide)

example : ∃ st ls, emitGroups { destFormat := some .tek, quirks := { tekByteSums := false } } {} [⟨.tek, 1, 1, 0xfff0, 0xfff2, [0x41, 0x42, 0x43]⟩] = .ok (st, ls) ∧
    decodeTekLines (ls ++ terminators { destFormat := some .tek, quirks := { tekByteSums := false } } st none) =
      some ⟨cellsFrom 0xfff0 [0x41, 0x42, 0x43], [], 0⟩ :=
  C06_tek _ ⟨.tek, 1, 1, 0xfff0, 0xfff2, [0x41, 0x42, 0x43]⟩ none rfl rfl rfl rfl (by decide) (by decide) (by decide) (by decide)

example : ∃ st ls chunks, emitGroups { avrLen := 2 } {} [⟨.atmel, 1, 2, 0x10, 0x11, [1, 2, 3, 4]⟩] = .ok (st, ls) ∧
    decodeAtmelLines 4 (ls ++ terminators { avrLen := 2 } st none) = some chunks ∧
    chunkCells 2 chunks = cellsFrom 0x20 [1, 2, 3, 4] :=
  C06_atmel { avrLen := 2 } ⟨.atmel, 1, 2, 0x10, 0x11, [1, 2, 3, 4]⟩ none rfl (Or.inr rfl) (Or.inl rfl) (by decide) (by decide) (by decide) (by decide)

example : intel16Head 1 0x12345 = (intelExtLine 2 0x1234, 0x12340) := C06_intel16_head 0x12345 (by decide)
example : intel32Head 1 0x12345678 = (intelExtLine 4 0x1234, 0x12340000) := C06_intel32_head 0x12345678 (by decide)

example : Hex.atmelLine 4 (P2Hex.atmelLine 2 0x1234 [0x7f]) = some (0x1234, [0x7f, 0]) :=
  C06_atmel_line_odd 2 0x1234 0x7f (Or.inl rfl) (by decide)

example : ∃ st ls, emitGroups { destFormat := some .intel, intelMode := 1 } {} [⟨.intel, 1, 1, 0xfffd, 0xffff, [1, 2, 3]⟩] = .ok (st, ls) ∧
    decodeIhexLines 1 (ls ++ terminators { destFormat := some .intel, intelMode := 1 } st (some 5)) = some ⟨cellsFrom 0xfffd [1, 2, 3], [], 0⟩ :=
  C06_intel8 { destFormat := some .intel, intelMode := 1 } ⟨.intel, 1, 1, 0xfffd, 0xffff, [1, 2, 3]⟩ (some 5) rfl rfl rfl
    (by decide) (by decide) (by decide) (by decide) (by decide)

example : ∃ st ls, emitGroups {} {} [⟨.intel16, 1, 1, 0xffff5, 0xffff7, [1, 2, 3]⟩] = .ok (st, ls) ∧
    decodeIhexLines 0 (ls ++ terminators {} st (some 0xffff5)) = some ⟨cellsFrom 0xffff5 [1, 2, 3], [0xffff5], 0⟩ :=
  C06_intel16 {} ⟨.intel16, 1, 1, 0xffff5, 0xffff7, [1, 2, 3]⟩ (some 0xffff5) rfl rfl rfl
    (by decide) (by decide) (by decide) (by decide) (by decide) (by decide) (by decide)

example : ∃ st ls, emitGroups {} {} [⟨.intel16, 1, 1, 0x2fff5, 0x2fff7, [1, 2, 3]⟩, ⟨.intel16, 1, 1, 0x10, 0x11, [4, 5]⟩] = .ok (st, ls) ∧
    decodeIhexLines 0 (ls ++ terminators {} st none) = some ⟨[(0x2fff5, 1), (0x2fff6, 2), (0x2fff7, 3), (0x10, 4), (0x11, 5)], [], 0⟩ :=
  C06_intel16_groups {} _ none (by simp)
    (by intro g hg; simp at hg; rcases hg with rfl | rfl <;> exact ⟨rfl, rfl, by decide, by decide⟩)
    rfl (by decide) (by decide) (by decide) (by decide) (by decide)


end AslModel.C06
