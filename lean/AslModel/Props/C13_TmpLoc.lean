import AslModel.Model.SymLocObs
import AslModel.Spec.LocTmp
import AslModel.Lemmas.SymTmpLoc
/-! C13, composed temporary symbols (`.name`) in macro-local label spaces: the ORDER of composing and case folding at the
four places where a symbol name becomes a key of a symbol tree (`asmpars.c`): `FindNode`, `FindLocNode` (lookup),
`EnterSymbol`, `EnterLocSymbol` (definition).

`LastGlobSymbol` keeps the spelling of the source (`Model/Sym.lean` `chkTmp3`: `lastGlob := name` before any folding), so the
key must be built by *composing first and folding the whole composed name*: then it does not depend on how the most recently
defined label, or the temporary name, was spelled (unless `-U`), and the key a reference looks up is the key its definition
was stored under.  The SPEC side is `Spec/LocTmp.lean` (`denote`: `.name` denotes `<last>.name`, compared like every name). -/
namespace AslModel.Props.C13TmpLoc
open AslModel.Generated.Sym
open AslModel.Sym
open AslModel.SymLoc
open AslModel.Lemmas.SymTmpLoc

/-- MODEL = SPEC on what a written name denotes: `ChkTmp3` for a reference is `LocTmp.denote` with `LastGlobSymbol` as the
"most recently-defined symbol not beginning with a dot" -/
theorem C13_tmploc_denote (g : St) (n : Name) : chkTmp3Ref g n = LocTmp.denote g.lastGlob n := by
  unfold chkTmp3Ref LocTmp.denote
  cases n with
  | nil => simp [LocTmp.isDot]
  | cons c r =>
    by_cases h : c = 46
    · subst h; simp [LocTmp.isDot, chDot]
    · have : LocTmp.isDot (c :: r) = false := by
        unfold LocTmp.isDot
        split
        · rename_i heq; simp at heq; exact absurd heq.1 h
        · rfl
      simp [this, chDot, h]

/-- **`FindLocNode` looks up the key `EnterLocSymbol` stored** - for every state (any `LastGlobSymbol` spelling, with and
without `-U`, any open label space) and every composed name `.x`: the name part of the key a label `.x` is entered under in
the local tree (`defKey`) is the name `FindLocNode` searches for the reference `.x` (`refName`), and defining the label does
not move `LastGlobSymbol`. -/
theorem C13_tmploc_find_key_is_enter_key (st : LSt) (x : Name) (h : st.mom ≠ -1)
    (hs : getSymSection st.g (46 :: x) = .plain (46 :: x)) :
    defKey st (46 :: x) = some (SymLoc.refName st (46 :: x), st.mom) ∧
      (chkTmpDef st.g (46 :: x) .label).1 = st.g := by
  unfold defKey SymLoc.refName
  rw [hs]
  simp [h, chkTmpDef_dot, chkTmp1_dot, chkTmp2Ref_dot, chkTmp3Ref_dot]

/-- both keys are the *folded composed* name: `fold (LastGlobSymbol ++ .x)` - compose, then fold -/
theorem C13_tmploc_key_compose_then_fold (st : LSt) (x : Name) :
    SymLoc.refName st (46 :: x) = fold st.g.cs st.g.lastGlob ++ fold st.g.cs (46 :: x) := by
  unfold SymLoc.refName
  simp [chkTmp1_dot, chkTmp2Ref_dot, chkTmp3Ref_dot, fold_append]

/-- **the spelling of the last label and of the temporary name is immaterial** (unless `-U`: then `fold` is the identity and
the hypotheses say the spellings are the same): two states whose `LastGlobSymbol` differ in case only look up the same key
for `.x` and `.x'` that differ in case only.  SPEC: the composed name is compared like every other name. -/
theorem C13_tmploc_spelling_immaterial (st1 st2 : LSt) (x1 x2 : Name) (hcs : st1.g.cs = st2.g.cs)
    (hl : fold st1.g.cs st1.g.lastGlob = fold st1.g.cs st2.g.lastGlob) (hx : fold st1.g.cs x1 = fold st1.g.cs x2) :
    SymLoc.refName st1 (46 :: x1) = SymLoc.refName st2 (46 :: x2) := by
  rw [C13_tmploc_key_compose_then_fold, C13_tmploc_key_compose_then_fold, ← hcs, hl]
  have : fold st1.g.cs (46 :: x1) = fold st1.g.cs (46 :: x2) := by
    have h1 := fold_append st1.g.cs [46] x1
    have h2 := fold_append st1.g.cs [46] x2
    simp only [List.singleton_append] at h1 h2
    rw [h1, h2, hx]
  rw [this]

/-- the same at the global sites: the name `EnterSymbol` folds for a definition `.x` is `LastGlobSymbol ++ .x`
(`CreateSymbolEntry`: `ChkTmp`, then `EnterSymbol` folds the whole name), and `FindNode` composes before it folds -/
theorem C13_tmploc_global_sites (g : St) (x : Name) (src : SymSource) :
    fold g.cs (chkTmpDef g (46 :: x) src).2 = fold g.cs (chkTmp3Ref g (46 :: x)) := by
  rw [chkTmpDef_dot, chkTmp3Ref_dot]

/-- end to end at the global sites (`EnterSymbol` / `FindNode`, outside sections): a fresh symbol `.x` defined by any defining
statement is found by a reference `.x'` spelled in any case, whatever the spelling of the last label (names without
`[section]`) -/
theorem C13_tmploc_global_define_then_find (g : St) (x x' : Name) (v : Int) (mc : Bool) (src : SymSource)
    (hstk : g.stack = [])
    (hs : (46 :: x).getLast? ≠ some chRBr) (hs' : (g.lastGlob ++ 46 :: x').getLast? ≠ some chRBr)
    (hx : fold g.cs x = fold g.cs x')
    (hfresh : tfind g.tab (fold g.cs (g.lastGlob ++ 46 :: x), g.mom) = none) :
    (lookupSymbol (defineSymbol g (46 :: x) v mc src) (46 :: x')).2 = v := by
  have hk : fold g.cs (g.lastGlob ++ 46 :: x') = fold g.cs (g.lastGlob ++ 46 :: x) := by
    have h1 := fold_append g.cs [46] x
    have h2 := fold_append g.cs [46] x'
    simp only [List.singleton_append] at h1 h2
    rw [fold_append, fold_append, h1, h2, hx]
  have hd : defineSymbol g (46 :: x) v mc src =
      { g with tab := tset g.tab (fold g.cs (g.lastGlob ++ 46 :: x), g.mom) { val := v, defined := true, changeable := mc } } := by
    unfold defineSymbol getSymSection
    simp only [hs, if_true, ne_eq, not_false_eq_true, chkTmpDef_dot]
    unfold enterSymbol
    simp only [hstk, if_true]
    unfold enterTree
    rw [hfresh]
    simp [symbolAdder, hstk]
  rw [hd]
  unfold lookupSymbol
  have h2 := chkTmp2Ref_dot { g with tab := tset g.tab (fold g.cs (g.lastGlob ++ 46 :: x), g.mom) { val := v, defined := true, changeable := mc } } x'
  have h1 := chkTmp1_dot { g with tab := tset g.tab (fold g.cs (g.lastGlob ++ 46 :: x), g.mom) { val := v, defined := true, changeable := mc } } x'
  simp only [h2, h1, Option.getD_none]
  have hall : allEq chMinus (46 :: x') = false ∧ allEq chPlus (46 :: x') = false := by
    simp [allEq, chMinus, chPlus]
  simp only [hall.1, hall.2]
  simp only [Bool.false_eq_true, or_self, and_false, if_false]
  unfold findNode
  simp only [chkTmp3Ref_dot]
  unfold getSymSection
  simp only [hs', ne_eq, not_false_eq_true, if_true]
  simp [fwdOverride, hstk, walk, hk, tfind_tset_same]

example :
    let g : St := { lastGlob := [83, 116] }
    (lookupSymbol (defineSymbol g [46, 108] 7 false .label) [46, 76]).2 = 7 := by decide

/-- end to end in a label space: a fresh label `.x` defined in an open space is found by a reference `.x'` spelled in any
case, whatever the spelling of the last label - the value of the reference is the label's value -/
theorem C13_tmploc_define_then_find (st : LSt) (x x' : Name) (v : Int) (h : st.mom ≠ -1)
    (hs : getSymSection st.g (46 :: x) = .plain (46 :: x)) (hx : fold st.g.cs x = fold st.g.cs x')
    (hfresh : tfind st.ltab (locKey st (st.g.lastGlob ++ 46 :: x)) = none) :
    (findLocNode (defineLabelL st (46 :: x) v) (46 :: x')).map (·.val) = some v := by
  have hk : fold st.g.cs (st.g.lastGlob ++ 46 :: x') = fold st.g.cs (st.g.lastGlob ++ 46 :: x) := by
    have h1 := fold_append st.g.cs [46] x
    have h2 := fold_append st.g.cs [46] x'
    simp only [List.singleton_append] at h1 h2
    rw [fold_append, fold_append, h1, h2, hx]
  unfold defineLabelL
  rw [hs]
  simp only [h, if_false, chkTmpDef_dot]
  unfold enterLoc
  have hst : ({ st with g := st.g } : LSt) = st := rfl
  rw [hst, hfresh]
  simp only [symbolAdder, enterLocRes]
  unfold findLocNode
  simp only [chkTmp3Ref_dot, h, if_false, hk]
  have : locKey st (st.g.lastGlob ++ 46 :: x) = (fold st.g.cs (st.g.lastGlob ++ 46 :: x), st.mom) := rfl
  rw [this, tfind_tset_same]
  rfl

/-- the other order is not the same function: folding first and composing afterwards keeps the source spelling of the last
label in the key, so a label stored under `START.LP` is looked up as `Start.LP` (the class of the seeded change C13-l) -/
theorem C13_tmploc_order_matters :
    ∃ last x : Name, fold false (last ++ 46 :: x) ≠ last ++ fold false (46 :: x) :=
  ⟨[83, 116], [108], by decide⟩

/-! ### the loop written out (`Spec/LocTmp.lean` step 1) -/

open AslModel.LocScope in
/-- `n` repetitions of a loop body are `n` single repetitions one after the other: `LocScope.expand` gives every repetition
its own label space either way.  (`LocTmp.compose` writes loops out because the meaning of `.name` in the body may differ
per repetition.) -/
theorem C13_tmploc_unroll {α : Type} (key : LocScope.Name → LocScope.Name) (env : List Bind) (m g : Bool) (body : Items α) :
    ∀ (n : Nat) (a : Acc α),
      expItem key env (.con m g n body) a =
        expItems key env (LocTmp.ofList (List.replicate n (Item.con m g 1 body))) a := by
  intro n
  induction n with
  | zero => intro a; simp [expItem, expItems, repeatN, LocTmp.ofList]
  | succ k ih =>
    intro a
    have e1 : expItem key env (.con m g (k + 1) body) a =
        expItem key env (.con m g k body) (expItem key env (.con m g 1 body) a) := by
      simp [expItem, repeatN]
    rw [e1, ih]
    simp [List.replicate, LocTmp.ofList, expItems]

/-! non-vacuity: a state with `LastGlobSymbol = "Start"`, an open space, `.lp` / `.LP` -/
example :
    let st : LSt := { g := { lastGlob := [83, 116, 97, 114, 116] }, mom := 0, conts := [-1], cnt := 1 }
    (findLocNode (defineLabelL st [46, 108, 112] 7) [46, 76, 80]).map (·.val) = some 7 := by decide

/-- the hypotheses of `C13_tmploc_find_key_is_enter_key` hold in that state (a name without `[section]` is `plain`) and its
conclusion names the key `START.LP` for the label written `.lp` behind `Start` -/
example :
    let st : LSt := { g := { lastGlob := [83, 116, 97, 114, 116] }, mom := 0, conts := [-1], cnt := 1 }
    st.mom ≠ -1 ∧ (getSymSection st.g [46, 108, 112] matches .plain [46, 108, 112]) ∧
      SymLoc.refName st [46, 108, 112] = [83, 84, 65, 82, 84, 46, 76, 80] := by decide

/-- `C13_tmploc_spelling_immaterial`: `Start` / `START`, `.lp` / `.Lp` without `-U` satisfy the hypotheses -/
example : fold false [83, 116, 97, 114, 116] = fold false [83, 84, 65, 82, 84] ∧ fold false [108, 112] = fold false [76, 112] := by
  decide

end AslModel.Props.C13TmpLoc
