import AslModel.Lemmas.SharedState
/-!
# C18 — state of shared helper modules: pending relocation output (asmcode.c) and the byte-order flag (motpseudo.c)

Model: `Model/SharedState.lean`.  The two pieces of state are reset on no path; the theorems say exactly when that cannot
be observed, and the `finding` theorems prove that otherwise it is (known findings `export-pending-after-last-record`,
`data-byte-order-inherited:codest6.c`).
-/
namespace AslModel.C18
namespace Shared
open AslModel.SharedState AslModel.FilesSpec

/-- a file that cannot observe / hand on the shared state: every 16-bit data statement is reached through a call that
stores the byte-order flag first, and no queued export is left behind an empty last record -/
def Settled (s : Source) : Prop := noStale s.ops = true ∧ leavesPending s.ops = false

instance (s : Source) : Decidable (Settled s) := by unfold Settled; infer_instance

/- Full statement (false for `flush = false`, the pinned tree: `C18_finding_pending_export_leaks`, `C18_finding_stale_byte_order`):
   theorem C18_shared_independent_full : Independent (assembleFile false) boot
   What is missing: the repairs (CloseFile writes the queued entries with the empty last record; ST6 WORD stores the flag). -/

/-- **Files that are settled do not influence each other**, for every file list, every number of forced passes and every
byte-order flag the predecessors left.  With the repaired `CloseFile` (`flush = true`) the second half of `Settled` is not
needed: see `C18_shared_independent_flush`. -/
theorem C18_shared_independent_partial (flush : Bool) (srcs : List Source) (h : ∀ s ∈ srcs, Settled s) (c : Carry) (hc : c.pending = []) :
    (assembleFiles flush c srcs).1 = alone (assembleFile flush) boot srcs := by
  induction srcs generalizing c with
  | nil => rfl
  | cons s rest ih =>
    have hs := h s (by simp)
    have hr : ∀ s' ∈ rest, Settled s' := fun s' hs' => h s' (by simp [hs'])
    have hp := passLoop_clean flush s.extra c boot s.ops hc rfl hs.1 (Or.inr hs.2)
    simp only [assembleFiles, runFiles, alone, List.map_cons]
    have h2 := ih hr (assembleFile flush c s).2 hp.2
    simp only [assembleFiles, alone] at h2
    rw [h2]
    congr 1
    exact hp.1

/-- **With a `CloseFile` that writes queued entries with the last record, files whose 16-bit data statements store the
byte-order flag themselves do not influence each other** – wherever their EXPORT_SYM statements stand. -/
theorem C18_shared_independent_flush (srcs : List Source) (h : ∀ s ∈ srcs, noStale s.ops = true) (c : Carry) (hc : c.pending = []) :
    (assembleFiles true c srcs).1 = alone (assembleFile true) boot srcs := by
  induction srcs generalizing c with
  | nil => rfl
  | cons s rest ih =>
    have hs := h s (by simp)
    have hr : ∀ s' ∈ rest, noStale s'.ops = true := fun s' hs' => h s' (by simp [hs'])
    have hp := passLoop_clean true s.extra c boot s.ops hc rfl hs (Or.inl rfl)
    simp only [assembleFiles, runFiles, alone, List.map_cons]
    have h2 := ih hr (assembleFile true c s).2 hp.2
    simp only [assembleFiles, alone] at h2
    rw [h2]
    congr 1
    exact hp.1

/-- a further pass does not change the code file of a settled file -/
theorem C18_shared_extra_pass (flush : Bool) (n : Nat) (ops : List Op) (h : Settled ⟨n, ops⟩) (c : Carry) (hc : c.pending = []) :
    (assembleFile flush c ⟨n, ops⟩).1 = (assembleFile flush c ⟨0, ops⟩).1 := by
  induction n generalizing c with
  | zero => rfl
  | succ n ih =>
    have hs : Settled ⟨n, ops⟩ := h
    simp only [assembleFile, passLoop]
    have h1 := ih hs (carryOf (runPass flush c ops)) (runPass_pending flush c ops hc (Or.inr h.2))
    simp only [assembleFile] at h1
    rw [h1]
    exact (passLoop_clean flush 0 (carryOf (runPass flush c ops)) c ops (runPass_pending flush c ops hc (Or.inr h.2)) hc h.1 (Or.inr h.2)).1

/-! ## Proved negations -/

/-- `EXPORT_SYM` behind the last code of a file (`nop / foo: nop / org $2000 / export_sym foo`): the export is missing in
that file's code file and appears in the first record of the next file; with one forced further pass it appears in the
file's own code file – the shape of the known finding `export-pending-after-last-record`. -/
theorem C18_finding_pending_export_leaks :
    let a : Source := ⟨0, [.stmt (some false) [0xEA], .stmt (some false) [0xEA], .newrec, .exportSym 7]⟩
    let b : Source := ⟨0, [.stmt (some false) [0xEA], .newrec, .stmt (some false) [0xEA]]⟩
    (assembleFiles false boot [a, b]).1 = [[⟨[0xEA, 0xEA], []⟩], [⟨[0xEA], [7]⟩, ⟨[0xEA], []⟩]] ∧
    alone (assembleFile false) boot [a, b] = [[⟨[0xEA, 0xEA], []⟩], [⟨[0xEA], []⟩, ⟨[0xEA], []⟩]] ∧
    (assembleFile false boot ⟨1, a.ops⟩).1 = [⟨[0xEA, 0xEA], [7]⟩] ∧
    (assembleFiles true boot [a, b]).1 = [[⟨[0xEA, 0xEA], []⟩, ⟨[], [7]⟩], [⟨[0xEA], []⟩, ⟨[0xEA], []⟩]] ∧
    (assembleFiles true boot [a, b]).1 = alone (assembleFile true) boot [a, b] := by decide

/-- ST6 `WORD 1234h` after a 6809 file: high byte first; alone: low byte first – the shape of the known finding
`data-byte-order-inherited:codest6.c`. -/
theorem C18_finding_stale_byte_order :
    let a : Source := ⟨0, [.word (some true) 0x1234]⟩
    let b : Source := ⟨0, [.word none 0x1234]⟩
    (assembleFiles false boot [a, b]).1 = [[⟨[0x12, 0x34], []⟩], [⟨[0x12, 0x34], []⟩]] ∧
    alone (assembleFile false) boot [a, b] = [[⟨[0x12, 0x34], []⟩], [⟨[0x34, 0x12], []⟩]] := by decide

/-! ## Non-vacuity -/

/-- a settled history with exports, both byte orders and a forced pass -/
example : ∀ s ∈ ([⟨1, [.stmt (some true) [0x12], .exportSym 3, .word (some true) 0x1234, .newrec, .exportSym 4, .stmt none [1]]⟩,
    ⟨0, [.word (some false) 0x1234, .newrec]⟩] : List Source), Settled s := by decide

example : ¬ Settled ⟨0, [.stmt none [1], .newrec, .exportSym 7]⟩ := by decide
example : ¬ Settled ⟨0, [.word none 5]⟩ := by decide

end Shared
end AslModel.C18
