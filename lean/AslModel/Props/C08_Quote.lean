import AslModel.Model.ExprQuote
import AslModel.Spec.LitFormula
/-!
# C08, part "constants inside formulas": an IBM-style constant without closing apostrophe is ONE token

SPEC  `Spec/LitFormula.lean` (`openIbmAt`, `quotedOpen`: doc/assembler-usage.md, "Integer Constants": the IBM notation
      and its variant without closing apostrophe).
MODEL `Model/ExprQuote.lean`: `qualifySQC` (`QualifyQuote_SingleQuoteConstant`), `stepQ`/`scanQ` (the operator scan of
      `EvalStrExpression` with the callback), `stepP`/`quotPosQ` (`QuotPosCore`, the argument splitter).

The split rule of C08 (`C08_parse`, token level) takes tokens as given.  The theorems here are the character-level part
for the one lexical rule that depends on the target: for EVERY digit string of the constant's base the callback reports
"no string delimiter", so the scan's quote state (and with it brackets, operator candidates and the comma search) behind
the constant is the state in front of it.
-/
namespace AslModel.C08
open AslModel.Formula AslModel.Expr AslModel.ExprQ AslModel.LitFormula

/-- what may follow an open constant: the end of the text, or a character that is neither a digit of the base,
nor a letter or digit, nor an apostrophe -/
def EndsConstant (b : Nat) (rest : List Char) : Prop :=
  rest = [] ∨ ∃ c r, rest = c :: r ∧ c ≠ '\'' ∧ cIsAlnum c = false ∧ sqcDigitOk b c = false

theorem sqcRun_digits (b : Nat) (ds rest : List Char) (hd : ∀ d ∈ ds, sqcDigitOk b d = true)
    (he : EndsConstant b rest) : sqcRun b (ds ++ rest) = rest := by
  induction ds with
  | nil =>
    rcases he with h | ⟨c, r, h, _, _, hc⟩
    · subst h; rfl
    · subst h; simp [sqcRun, hc]
  | cons d ds ih =>
    have h1 : sqcDigitOk b d = true := hd d (by simp)
    have h2 := ih (fun x hx => hd x (by simp [hx]))
    simp [sqcRun, h1, h2]

theorem text_at (pre : List Char) (l : Char) (tail : List Char) :
    (pre ++ l :: '\'' :: tail).getD (pre.length + 1 - 1) ' ' = l ∧
    (pre ++ l :: '\'' :: tail).drop (pre.length + 1 + 1) = tail := by
  constructor
  · simp [List.getD]
  · have : pre.length + 1 + 1 = pre.length + 2 := rfl
    rw [this, List.drop_append]
    simp

/-- **a qualified constant, every digit string of its base**: for each of the letters `H X O B` (either case), every
non-empty string of digits of that letter's base - all of them, including the largest digit - and every continuation
that ends the constant, `QualifyQuote_SingleQuoteConstant` answers "not a string delimiter" for the constant's
apostrophe, wherever the constant stands in the text. -/
theorem C08_quote_open_constant_qualified (pre : List Char) (l : Char) (b : Nat) (ds rest : List Char)
    (hl : sqcBase l = some b) (hne : ds ≠ []) (hd : ∀ d ∈ ds, sqcDigitOk b d = true) (he : EndsConstant b rest) :
    qualifySQC (pre ++ l :: '\'' :: (ds ++ rest)) (pre.length + 1) = false := by
  obtain ⟨h1, h2⟩ := text_at pre l (ds ++ rest)
  have hrun := sqcRun_digits b ds rest hd he
  have hlen : rest.length ≠ (ds ++ rest).length := by
    cases ds with
    | nil => exact absurd rfl hne
    | cons d ds => simp; omega
  unfold qualifySQC
  simp only [Nat.add_eq_zero_iff, List.length_eq_zero_iff, Nat.succ_ne_self, and_false, if_false, h1, hl, h2, hrun, hlen]
  rcases he with h | ⟨c, r, h, hq, ha, _⟩
  · subst h; rfl
  · subst h; simp [hq, ha]

/-- **one token for the operator scan**: at the apostrophe of such a constant, outside quotations, the scan of
`EvalStrExpression` (callback installed) changes nothing but `ThisEscaped`: it does not enter a character string, so
the operator, bracket and brace bookkeeping behind the constant goes on. -/
theorem C08_quote_scan_one_token (pre : List Char) (l : Char) (b : Nat) (ds rest : List Char) (s : QS)
    (hl : sqcBase l = some b) (hne : ds ≠ []) (hd : ∀ d ∈ ds, sqcDigitOk b d = true) (he : EndsConstant b rest)
    (hs : s.inSgl = false) :
    stepQ (some qualifySQC) (pre ++ l :: '\'' :: (ds ++ rest)) (pre.length + 1) '\'' s = ({ s with thisEsc := false }, 1) := by
  have hq := C08_quote_open_constant_qualified pre l b ds rest hl hne hd he
  simp [stepQ, quoteToggles, hq, hs]

/-- **one token for the argument splitter**: the same for `QuotPosCore` (search for the comma between operands). -/
theorem C08_quote_split_one_token (pre : List Char) (l : Char) (b : Nat) (ds rest : List Char) (st : PS)
    (hl : sqcBase l = some b) (hne : ds ≠ []) (hd : ∀ d ∈ ds, sqcDigitOk b d = true) (he : EndsConstant b rest)
    (hs : st.inSgl = false) :
    stepP (some qualifySQC) (pre ++ l :: '\'' :: (ds ++ rest)) (pre.length + 1) '\'' st = { st with thisEsc := false } := by
  have hq := C08_quote_open_constant_qualified pre l b ds rest hl hne hd he
  simp [stepP, quoteToggles, hq, hs]

/-- without the callback (`QualifyQuote == NULL`, every other target) the same apostrophe opens a character string -/
theorem C08_quote_unqualified_opens_string (t : List Char) (p : Nat) (s : QS)
    (hs : s.inSgl = false) (hd : s.inDbl = false) (he : s.thisEsc = false) :
    (stepQ none t p '\'' s).1.inSgl = true := by
  simp [stepQ, quoteToggles, hs, hd, he]

/-- non-vacuity: `O'17` before `+1` (largest octal digit), `h'7F` at the end of the text, `B'101` before a comma,
`x'aF` before `)` satisfy the hypotheses; the closed form and a constant continued by a letter do not qualify -/
example : sqcBase 'O' = some 8 ∧ (∀ d ∈ ['1', '7'], sqcDigitOk 8 d = true) ∧ EndsConstant 8 ['+', '1'] ∧
    sqcBase 'h' = some 16 ∧ (∀ d ∈ ['7', 'F'], sqcDigitOk 16 d = true) ∧ EndsConstant 16 [] ∧
    sqcBase 'B' = some 2 ∧ (∀ d ∈ ['1', '0', '1'], sqcDigitOk 2 d = true) ∧ EndsConstant 2 [',', '2'] ∧
    sqcBase 'x' = some 16 ∧ (∀ d ∈ ['a', 'F'], sqcDigitOk 16 d = true) ∧ EndsConstant 16 [')'] := by
  refine ⟨by decide, by decide, Or.inr ⟨_, _, rfl, by decide, by decide, by decide⟩, by decide, by decide, Or.inl rfl,
    by decide, by decide, Or.inr ⟨_, _, rfl, by decide, by decide, by decide⟩, by decide, by decide,
    Or.inr ⟨_, _, rfl, by decide, by decide, by decide⟩⟩

example : qualifySQC "2*O'27-O'7".toList 3 = false ∧ qualifySQC "2*O'27-O'7".toList 8 = false ∧
    qualifySQC "O'17'+1".toList 1 = true ∧ qualifySQC "O'18+1".toList 1 = true ∧ qualifySQC "'O'+1".toList 0 = true ∧
    qualifySQC "1+'A'".toList 2 = true ∧ qualifySQC "O'+1".toList 1 = true := by decide

/-- the scan finds the `+` behind `O'17` (position 4) with the callback, and nothing without it -/
example : (scanText (some qualifySQC) "O'17+1".toList).opPos = 4 ∧ (scanText (some qualifySQC) "O'17+1".toList).opMax ≠ 0 ∧
    (scanText none "O'17+1".toList).opMax = 0 := by decide

/-- the splitter finds the comma behind `O'17+1` with the callback, and none without it -/
example : splitArgs (some qualifySQC) "O'17+1,2".toList = ["O'17+1".toList, "2".toList] ∧
    splitArgs none "O'17+1,2".toList = ["O'17+1,2".toList] := by decide

end AslModel.C08
