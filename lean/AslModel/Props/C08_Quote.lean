import AslModel.Lemmas.ExprQuote
/-!
# C08, part "constants inside formulas": an IBM-style constant without closing apostrophe is ONE token

SPEC  `Spec/LitFormula.lean` (`openIbmAt`, `quotedOpen`: doc/assembler-usage.md, "Integer Constants": the IBM notation
      and its variant without closing apostrophe).
MODEL `Model/ExprQuote.lean`: `qualifySQC` (`QualifyQuote_SingleQuoteConstant`), `stepQ`/`scanQ` (the operator scan of
      `EvalStrExpression` with the callback), `stepP`/`quotPosQ` (`QuotPosCore`, the argument splitter).

The split rule of C08 (`C08_parse`, token level) takes tokens as given.  The theorems here are the character-level part
for the one lexical rule that depends on the target: for EVERY digit string of the constant's base the callback reports
"no string delimiter", so the scan's quote state (and with it brackets, operator candidates and the comma search) behind
the constant is the state in front of it.

`C08_quote_qualify_spec` (and its two consequences for the scan and the splitter) is the relation the driver field `qual`
compares per run, as a theorem: for EVERY text and EVERY position the callback answers "string delimiter" exactly when the
SPEC's `openIbmAt` says the apostrophe does not belong to an open IBM constant.  Helper lemmas (`EndsConstant`,
`sqcRun_digits`, `text_at`, the per-character class lemmas): `Lemmas/ExprQuote.lean`.
-/
namespace AslModel.C08
open AslModel.Formula AslModel.Expr AslModel.ExprQ AslModel.LitFormula

/-- **the callback is the SPEC's predicate**: for every text `t` and every position `p` (an apostrophe or not, inside the text
or behind its end) `QualifyQuote_SingleQuoteConstant` answers "this apostrophe delimits a character string" exactly when the
manual's reading "the apostrophe belongs to an IBM-style constant written without closing apostrophe" (`openIbmAt`: letter of a
numbering system in front, a non-empty run of digits OF THAT SYSTEM behind, ended by the end of the text or by a character that
is neither apostrophe nor letter nor digit) does not hold.  No hypothesis: all characters (the ASCII half by evaluation of the
128 cases per class, the others by the range tests), all lengths. -/
theorem C08_quote_qualify_spec (t : List Char) (p : Nat) : qualifySQC t p = !openIbmAt t p :=
  qualifySQC_eq_not_openIbmAt t p

/-- **the operator scan enters a character string exactly where the SPEC says a string starts**: outside quotations and
escapes, at ANY apostrophe of ANY text, the scan of `EvalStrExpression` with the callback installed sets `InSgl` iff the
apostrophe does not belong to an open IBM constant; nothing else of the state changes but `ThisEscaped`. -/
theorem C08_quote_scan_spec (t : List Char) (p : Nat) (s : QS)
    (hs : s.inSgl = false) (hd : s.inDbl = false) (he : s.thisEsc = false) :
    stepQ (some qualifySQC) t p '\'' s = ({ s with inSgl := !openIbmAt t p, thisEsc := false }, 1) := by
  have hq := C08_quote_qualify_spec t p
  cases ho : openIbmAt t p <;> simp [stepQ, quoteToggles, hq, hs, hd, he, ho]

/-- the same for `QuotPosCore` (the comma search of the argument splitter) -/
theorem C08_quote_split_spec (t : List Char) (p : Nat) (st : PS)
    (hs : st.inSgl = false) (hd : st.inDbl = false) (he : st.thisEsc = false) :
    stepP (some qualifySQC) t p '\'' st = { st with inSgl := !openIbmAt t p, thisEsc := false } := by
  have hq := C08_quote_qualify_spec t p
  cases ho : openIbmAt t p <;> simp [stepP, quoteToggles, hq, hs, hd, he, ho]

/-- non-vacuity: both answers occur, and the initial state satisfies the hypotheses of the two consequences -/
example : openIbmAt "2*O'27-O'7".toList 3 = true ∧ openIbmAt "O'18+1".toList 1 = false ∧ openIbmAt "h'7F".toList 1 = true ∧
    openIbmAt "1+'A'".toList 2 = false ∧ openIbmAt "O'17'+1".toList 1 = false ∧
    ({} : QS).inSgl = false ∧ ({} : QS).inDbl = false ∧ ({} : QS).thisEsc = false ∧
    ({} : PS).inSgl = false ∧ ({} : PS).inDbl = false ∧ ({} : PS).thisEsc = false := by decide

/-- **a qualified constant, every digit string of its base**: for each of the letters `H X O B` (either case), every
non-empty string of digits of that letter's base - all of them, including the largest digit - and every continuation
that ends the constant, `QualifyQuote_SingleQuoteConstant` answers "not a string delimiter" for the constant's
apostrophe, wherever the constant stands in the text. -/
theorem C08_quote_open_constant_qualified (pre : List Char) (l : Char) (b : Nat) (ds rest : List Char)
    (hl : sqcBase l = some b) (hne : ds ≠ []) (hd : ∀ d ∈ ds, sqcDigitOk b d = true) (he : EndsConstant b rest) :
    qualifySQC (pre ++ l :: '\'' :: (ds ++ rest)) (pre.length + 1) = false := by
  obtain ⟨h1, h2⟩ := text_at pre l (ds ++ rest)
  have hrun := sqcRun_digits b ds rest hd he
  have hlen : rest.length ≠ (ds ++ rest).length := by
    cases ds with
    | nil => exact absurd rfl hne
    | cons d ds => simp; omega
  unfold qualifySQC
  simp only [Nat.add_eq_zero_iff, List.length_eq_zero_iff, Nat.succ_ne_self, and_false, if_false, h1, hl, h2, hrun, hlen]
  rcases he with h | ⟨c, r, h, hq, ha, _⟩
  · subst h; rfl
  · subst h; simp [hq, ha]

/-- **one token for the operator scan**: at the apostrophe of such a constant, outside quotations, the scan of
`EvalStrExpression` (callback installed) changes nothing but `ThisEscaped`: it does not enter a character string, so
the operator, bracket and brace bookkeeping behind the constant goes on. -/
theorem C08_quote_scan_one_token (pre : List Char) (l : Char) (b : Nat) (ds rest : List Char) (s : QS)
    (hl : sqcBase l = some b) (hne : ds ≠ []) (hd : ∀ d ∈ ds, sqcDigitOk b d = true) (he : EndsConstant b rest)
    (hs : s.inSgl = false) :
    stepQ (some qualifySQC) (pre ++ l :: '\'' :: (ds ++ rest)) (pre.length + 1) '\'' s = ({ s with thisEsc := false }, 1) := by
  have hq := C08_quote_open_constant_qualified pre l b ds rest hl hne hd he
  simp [stepQ, quoteToggles, hq, hs]

/-- **one token for the argument splitter**: the same for `QuotPosCore` (search for the comma between operands). -/
theorem C08_quote_split_one_token (pre : List Char) (l : Char) (b : Nat) (ds rest : List Char) (st : PS)
    (hl : sqcBase l = some b) (hne : ds ≠ []) (hd : ∀ d ∈ ds, sqcDigitOk b d = true) (he : EndsConstant b rest)
    (hs : st.inSgl = false) :
    stepP (some qualifySQC) (pre ++ l :: '\'' :: (ds ++ rest)) (pre.length + 1) '\'' st = { st with thisEsc := false } := by
  have hq := C08_quote_open_constant_qualified pre l b ds rest hl hne hd he
  simp [stepP, quoteToggles, hq, hs]

/-- without the callback (`QualifyQuote == NULL`, every other target) the same apostrophe opens a character string -/
theorem C08_quote_unqualified_opens_string (t : List Char) (p : Nat) (s : QS)
    (hs : s.inSgl = false) (hd : s.inDbl = false) (he : s.thisEsc = false) :
    (stepQ none t p '\'' s).1.inSgl = true := by
  simp [stepQ, quoteToggles, hs, hd, he]

/-- non-vacuity: `O'17` before `+1` (largest octal digit), `h'7F` at the end of the text, `B'101` before a comma,
`x'aF` before `)` satisfy the hypotheses; the closed form and a constant continued by a letter do not qualify -/
example : sqcBase 'O' = some 8 ∧ (∀ d ∈ ['1', '7'], sqcDigitOk 8 d = true) ∧ EndsConstant 8 ['+', '1'] ∧
    sqcBase 'h' = some 16 ∧ (∀ d ∈ ['7', 'F'], sqcDigitOk 16 d = true) ∧ EndsConstant 16 [] ∧
    sqcBase 'B' = some 2 ∧ (∀ d ∈ ['1', '0', '1'], sqcDigitOk 2 d = true) ∧ EndsConstant 2 [',', '2'] ∧
    sqcBase 'x' = some 16 ∧ (∀ d ∈ ['a', 'F'], sqcDigitOk 16 d = true) ∧ EndsConstant 16 [')'] := by
  refine ⟨by decide, by decide, Or.inr ⟨_, _, rfl, by decide, by decide, by decide⟩, by decide, by decide, Or.inl rfl,
    by decide, by decide, Or.inr ⟨_, _, rfl, by decide, by decide, by decide⟩, by decide, by decide,
    Or.inr ⟨_, _, rfl, by decide, by decide, by decide⟩⟩

example : qualifySQC "2*O'27-O'7".toList 3 = false ∧ qualifySQC "2*O'27-O'7".toList 8 = false ∧
    qualifySQC "O'17'+1".toList 1 = true ∧ qualifySQC "O'18+1".toList 1 = true ∧ qualifySQC "'O'+1".toList 0 = true ∧
    qualifySQC "1+'A'".toList 2 = true ∧ qualifySQC "O'+1".toList 1 = true := by decide

/-- the scan finds the `+` behind `O'17` (position 4) with the callback, and nothing without it -/
example : (scanText (some qualifySQC) "O'17+1".toList).opPos = 4 ∧ (scanText (some qualifySQC) "O'17+1".toList).opMax ≠ 0 ∧
    (scanText none "O'17+1".toList).opMax = 0 := by decide

/-- the splitter finds the comma behind `O'17+1` with the callback, and none without it -/
example : splitArgs (some qualifySQC) "O'17+1,2".toList = ["O'17+1".toList, "2".toList] ∧
    splitArgs none "O'17+1,2".toList = ["O'17+1,2".toList] := by decide

end AslModel.C08
