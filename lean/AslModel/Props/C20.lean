import AslModel.Lemmas.Pos
import AslModel.Generated.ErrPos
/-!
# C20 — diagnostics point at the offending source position

Property theorems only (helper lemmas: `Lemmas/Pos.lean`).

Model: `Model/Pos.lean` – the input-tag chain of `as.c` (`*_Processor` counters, `*_GetPos`, `GetErrorPos` in native and
GNU style, `WrErrorString`'s prefix), `ReadLnCont`, and the EXPECT machine of `asmerr.c`.
Spec: `Spec/Pos.lean` – positions computed structurally from the nesting tree; multiset statement for EXPECT.

`cfgFixed` is the model with `IRP_GetPos`'s `ParIter` ternary as `IRP_Processor` has it; the pinned tree has it
inverted (`cfgPinned`, `C20_finding_irp_getpos`).
-/
namespace AslModel.C20
open AslModel.Pos

/-- **Position.**  For every program (any nesting of include files, macro calls, REPT/IRP/IRPN/IRPC/WHILE bodies, any
iteration counts, any continuation lines) the tag-chain machine reports, for every executed planted line and in
execution order, exactly the structurally computed position – in native style (`file(line) NAME(bodyline) …` from the
innermost include file inwards) and in GNU style. -/
theorem C20_position (name : String) (b : Body) :
    run cfgFixed name b = (positions name b).map ren := by
  have h := runBody_spec b (.file name) 0 0 0 (mkIncl name 0) [] [] Good_nil trivial
    ⟨rfl, rfl, by simp [mkIncl, genProc], rfl⟩ (fun hf => by simp [Level.isFile] at hf)
  exact h.out

/-- non-vacuity of `C20_position`: `rept 2` (lines 2–4 of `m.asm`) calling `MM` whose second body line is faulty, and the same
line reached through an include file under `-gnuerrors` -/
example : (run cfgFixed "m.asm" (.cons (.plain 1) (.cons (.rept 2 (.cons (.call "MM" (.cons (.plain 1) (.cons (.fault 1 7)
    .nil))) .nil)) .nil))).map (·.2.1) = ["m.asm(4) REPT 1(1)MM(2) ", "m.asm(4) REPT 2(1)MM(2) "] := by decide
example : (run cfgFixed "m.asm" (.cons (.plain 2) (.cons (.incl "a.inc" (.cons (.fault 3 7) .nil)) .nil))).map (·.2.2) =
    ["In file included from m.asm:3:\na.inc:3"] := by decide

/-- **Error-free lines are never named.**  A program without a faulty line produces no message at all, whatever its
nesting – the machine reports only when a planted line is executed (and `C20_position` says that each report names that
line). -/
theorem C20_clean_silent (name : String) (b : Body) (h : b.faultFree = true) : run cfgFixed name b = [] := by
  rw [C20_position, positions, posBody_clean b h]; rfl

/-- non-vacuity: a non-trivial error-free program -/
example : (Body.cons (.plain 2) (.cons (.rept 3 (.cons (.plain 1) (.cons (.call "M" (.cons (.plain 1) .nil)) .nil))) .nil)).faultFree = true := by
  decide

/-- **GNU style.**  Under `-gnuerrors` the reported position is the include chain only: `file:line` of the innermost
include file, preceded by the `In file included from` lines of the outer ones; enclosing macro/repetition frames do
not contribute ("suppresses the display of precise error positions in macro bodies"). -/
theorem C20_gnu_style (name : String) (b : Body) :
    (run cfgFixed name b).map (fun o => (o.1, o.2.2)) =
      (positions name b).map (fun x => (x.1, renderChain (gnuChain (x.2.filter Frame.isFile)))) := by
  rw [C20_position, List.map_map]
  apply List.map_congr_left
  intro x _
  simp [ren, renderGNU, gnuChain_filter]

/-- the text `WrErrorString` puts in front of the message is the documented prefix of the structural position, for all
option combinations (`-gnuerrors`, `-n`), with or without a column, for errors and warnings -/
theorem C20_prefix (o : Opts) (path : List Frame) (col : Option Nat) (warning : Bool) (num : Option Nat) :
    wrErrorPrefix o.gnu (if o.gnu then (ren (0, path)).2.2 else (ren (0, path)).2.1) col warning
      (match num with | some n => if o.numeric then " #" ++ toString n else "" | none => "") =
    msgPrefix o path col warning num := by
  cases hg : o.gnu <;> simp only [wrErrorPrefix, msgPrefix, ren, hg] <;> rfl

/-- **Continuation lines.**  A logical line made of `pre.length` physical lines ending in `\` and one that does not
consumes exactly `pre.length + 1` physical lines, and a message raised on it names the *last* of them
("Line references in error messages always relate to the last line of such a composed source line"). -/
theorem C20_continuation (name : String) (c : Nat) (t : Tag) (pre : List (List Char)) (last : List Char)
    (rest : List (List Char)) (ht : AtLine (.file name) 0 c c t)
    (hpre : ∀ l ∈ pre, l.getLast? = some '\\') (hne : last ≠ []) (hlast : last.getLast? ≠ some '\\') :
    (readLnCont (pre ++ last :: rest)).2.1 = pre.length + 1 ∧ (readLnCont (pre ++ last :: rest)).2.2 = rest ∧
    getErrorPos cfgFixed false [(proc c t (readLnCont (pre ++ last :: rest)).2.1).2] = fmtFile name (c + pre.length + 1) := by
  have h := readLnContAux_cont pre [] 0 last rest hpre hne hlast
  unfold readLnCont
  rw [h]
  refine ⟨by simp, rfl, ?_⟩
  have h1 := (proc_AtLine (0 + pre.length + 1) ht (fun hf => by simp [Level.isFile] at hf)).1
  have h2 := getPos_AtLine h1 trivial (fun hf => by simp [Level.isFile] at hf)
  simp only [getErrorPos, List.isEmpty_cons, Bool.false_eq_true, if_false, getErrorPosAS, h2, Level.isFile, if_true,
    Level.frame, Frame.render, adv]
  congr 1
  omega

/-- non-vacuity of `C20_continuation`'s hypotheses: the tag of a file of which 4 lines have been read; lines ending in `\` -/
example : AtLine (.file "m.asm") 0 4 4 (proc 0 (mkIncl "m.asm" 0) 4).2 := ⟨rfl, rfl, by decide, rfl⟩
example : (∀ l ∈ [" ld a,\\".toList, "\\".toList], l.getLast? = some '\\') ∧ "b".toList ≠ [] ∧ "b".toList.getLast? ≠ some '\\' := by
  decide

/-- non-vacuity of `C20_continuation`: ` ld a,\` + `b` read at line 3 of `m.asm` is reported at line 5 -/
example : (readLnCont [" ld a,\\".toList, "\\".toList, "b".toList, " nop".toList]).2.1 = 3 := by decide

/-! ## EXPECT / ENDEXPECT -/

/-- **EXPECT is exact.**  For every announced list `A` (not announcing the number of the "expected error did not occur"
message itself) and every sequence `O` of messages raised inside the block: what still reaches the error channel is a
subsequence `rep` of `O` followed by the "did not occur" reports `miss`, where as multisets
suppressed = announced ∩ occurred, rep = occurred ∖ announced, miss = announced ∖ occurred;
and the machine is back in its initial state. -/
theorem C20_expect_exact (nums : Exp.Nums) (A O : List Nat) (hE : nums.expectedError ∉ A) :
    ∃ rep miss : List Nat,
      Exp.runEvs nums Exp.init (Exp.block A O) = (Exp.init, rep.map Exp.Msg.msg ++ miss.map Exp.Msg.missing) ∧
      rep.Sublist O ∧
      (∀ n, rep.count n = reportedCount A O n) ∧
      (∀ n, miss.count n = missingCount A O n) ∧
      (∀ n, O.count n - rep.count n = suppressedCount A O n) := by
  refine ⟨(Exp.occRun A.reverse O).2, (Exp.occRun A.reverse O).1, Exp.run_block nums A O hE,
    Exp.occRun_sublist O _, ?_, ?_, ?_⟩
  · intro n; rw [(Exp.occRun_counts O A.reverse n).2, List.count_reverse]; rfl
  · intro n; rw [(Exp.occRun_counts O A.reverse n).1, List.count_reverse]; rfl
  · intro n; rw [(Exp.occRun_counts O A.reverse n).2, List.count_reverse]
    simp only [suppressedCount]; omega

/-- non-vacuity: `expect 1200,1320,1200,1110,9999` / 1200, 1320, 1320 / `endexpect` (the run shown in the manual's
spirit): one 1320 is reported, 9999, 1110 and one 1200 are reported as missing -/
example : Exp.runPass ⟨2130, 2140, 2150, 2160⟩ (Exp.block [1200, 1320, 1200, 1110, 9999] [1200, 1320, 1320]) =
    [.msg 1320, .missing 9999, .missing 1110, .missing 1200] := by decide

/-- blocks do not influence each other: a sequence of well-formed blocks reports the concatenation of what each block
reports on its own, and nothing at the end of the pass -/
theorem C20_expect_blocks (nums : Exp.Nums) (bs : List (List Nat × List Nat))
    (hE : ∀ b ∈ bs, nums.expectedError ∉ b.1) :
    Exp.runPass nums (bs.flatMap (fun b => Exp.block b.1 b.2)) =
      bs.flatMap (fun b => Exp.runPass nums (Exp.block b.1 b.2)) := by
  have key : ∀ bs : List (List Nat × List Nat), (∀ b ∈ bs, nums.expectedError ∉ b.1) →
      Exp.runEvs nums Exp.init (bs.flatMap (fun b => Exp.block b.1 b.2)) =
        (Exp.init, bs.flatMap (fun b => (Exp.runEvs nums Exp.init (Exp.block b.1 b.2)).2)) := by
    intro bs
    induction bs with
    | nil => intro _; rfl
    | cons b bs ih =>
      intro h
      have hb := Exp.run_block nums b.1 b.2 (h b (by simp))
      have := ih (fun x hx => h x (by simp [hx]))
      simp only [List.flatMap_cons, Exp.runEvs_append, hb, this]
  have hone : ∀ b ∈ bs, Exp.runPass nums (Exp.block b.1 b.2) = (Exp.runEvs nums Exp.init (Exp.block b.1 b.2)).2 := by
    intro b hb
    have hb' := Exp.run_block nums b.1 b.2 (hE b hb)
    simp only [Exp.runPass, hb']
    simp [Exp.passExit, Exp.init]
  have hcongr : ∀ l : List (List Nat × List Nat), (∀ b ∈ l, b ∈ bs) →
      l.flatMap (fun b => (Exp.runEvs nums Exp.init (Exp.block b.1 b.2)).2) =
      l.flatMap (fun b => Exp.runPass nums (Exp.block b.1 b.2)) := by
    intro l
    induction l with
    | nil => intro _; rfl
    | cons b l ih =>
      intro h
      simp only [List.flatMap_cons, hone b (h b (by simp)), ih (fun x hx => h x (by simp [hx]))]
  rw [← hcongr bs (fun _ h => h)]
  have hk := key bs hE
  simp only [Exp.runPass, hk]
  simp [Exp.passExit, Exp.init]

/-- outside a block nothing is suppressed -/
theorem C20_expect_outside (nums : Exp.Nums) (O : List Nat) :
    Exp.runEvs nums Exp.init (O.map Exp.Ev.occur) = (Exp.init, O.map Exp.Msg.msg) := by
  have h : ∀ O : List Nat, Exp.occRun [] O = ([], O) := by
    intro O; induction O with
    | nil => rfl
    | cons n O ih => simp [Exp.occRun, ih]
  rw [Exp.init, Exp.runEvs_occ, h]

/-- an EXPECT inside an open block is answered with the nesting error (unless that very number was announced) and
changes nothing; an ENDEXPECT without EXPECT likewise; an open block at the end of the pass is reported -/
theorem C20_expect_nesting (nums : Exp.Nums) (P B : List Nat) :
    (nums.noNestExpect ∉ P → Exp.step nums ⟨true, P⟩ (.expect B) = (⟨true, P⟩, [.msg nums.noNestExpect])) ∧
    (nums.missingExpect ∉ P → Exp.step nums ⟨false, P⟩ .endexpect = (⟨false, P⟩, [.msg nums.missingExpect])) ∧
    (nums.missingEndExpect ∉ P → Exp.passExit nums ⟨true, P⟩ = [.msg nums.missingEndExpect]) := by
  refine ⟨fun h => ?_, fun h => ?_, fun h => ?_⟩ <;>
    simp [Exp.step, Exp.passExit, Exp.wrX, Exp.findAndTake_eq, h]

/-- **The options that hide messages only filter the channel.**  For every event list (well-formed or not), under `-w`
(warnings hidden) and/or `+G` ("unknown instruction" hidden) the channel is the channel of the run without options with the
hidden numbers removed: which expectations are consumed, which are reported as missing and the state of the machine do not
depend on the options - a hidden message still counts as having occurred. -/
theorem C20_expect_hiding_options (h : Exp.Hide) (nums : Exp.Nums) (evs : List Exp.Ev) :
    Exp.runPassH h nums evs = (Exp.runPass nums evs).filter (fun m => !h.hides (m.num nums)) :=
  Exp.runPassH_eq h nums evs

/-- `C20_expect_exact` under the options: the reports of missing messages are the same multiset, the reported ones lose the
hidden numbers and nothing else. -/
theorem C20_expect_exact_hidden (h : Exp.Hide) (nums : Exp.Nums) (A O : List Nat) (hE : nums.expectedError ∉ A)
    (hh : h.hides nums.expectedError = false) :
    ∃ rep miss : List Nat,
      Exp.runEvsH h nums Exp.init (Exp.block A O) =
        (Exp.init, (rep.filter (fun n => !h.hides n)).map Exp.Msg.msg ++ miss.map Exp.Msg.missing) ∧
      rep.Sublist O ∧
      (∀ n, rep.count n = reportedCount A O n) ∧
      (∀ n, miss.count n = missingCount A O n) := by
  obtain ⟨rep, miss, hrun, hsub, hr, hm, _⟩ := C20_expect_exact nums A O hE
  refine ⟨rep, miss, ?_, hsub, hr, hm⟩
  rw [Exp.runEvsH_eq, hrun]
  simp only [Exp.shown, List.filter_append, List.filter_map]
  have hmiss : List.filter ((fun m => !h.hides (Exp.Msg.num nums m)) ∘ Exp.Msg.missing) miss = miss := by
    apply List.filter_eq_self.mpr
    intro m _
    simp [Exp.Msg.num, hh]
  rw [hmiss]
  rfl

/-- non-vacuity / the shape a reordering of `WrXErrorPos` breaks: `expect 100` / a statement raising warning 100 /
`endexpect` under `-w` reports nothing (the hidden warning consumed its expectation) -/
example : Exp.runPassH ⟨true, false, 1200⟩ ⟨2130, 2140, 2150, 2160⟩ (Exp.block [100] [100]) = [] ∧
    Exp.runPassH ⟨false, true, 1200⟩ ⟨2130, 2140, 2150, 2160⟩ (Exp.block [1200] [1200]) = [] ∧
    Exp.runPassH ⟨true, true, 1200⟩ ⟨2130, 2140, 2150, 2160⟩ (Exp.block [100] [1200, 30]) = [.missing 100] := by decide

/-! ## regenerated constants -/

/-- the catalogue texts `GetErrorPos`/`WrErrorString` use are the ones the spec spells out -/
theorem C20_catalogue_texts :
    AslModel.Generated.ErrPos.txtGNUErrorMsg1 = gnuMsg1 ∧ AslModel.Generated.ErrPos.txtGNUErrorMsgN = gnuMsgN ∧
    AslModel.Generated.ErrPos.txtErrName = "error" ∧ AslModel.Generated.ErrPos.txtWarnName = "warning" := by
  decide

/-! ## known finding -/

/-- the witness: `irp x,5,6` with a one-line body whose line is faulty (main file `m.asm`, IRP in lines 2–4) -/
def irpWitness : Body := .cons (.plain 1) (.cons (.irp 0 ["5", "6"] (.cons (.fault 1 7) .nil)) .nil)

/-- **Finding `irp-getpos-iteration`.**  With `IRP_GetPos` as in the pinned tree the message of the iteration with
argument `5` names `6`, and the last iteration names an empty argument; the repaired ternary names `5` and `6`. -/
theorem C20_finding_irp_getpos :
    (run cfgPinned "m.asm" irpWitness).map (·.2.1) = ["m.asm(4) IRP:6(1) ", "m.asm(4) IRP:(1) "] ∧
    (run cfgFixed "m.asm" irpWitness).map (·.2.1) = ["m.asm(4) IRP:5(1) ", "m.asm(4) IRP:6(1) "] ∧
    run cfgPinned "m.asm" irpWitness ≠ (positions "m.asm" irpWitness).map ren := by
  refine ⟨by decide, by decide, by decide⟩

end AslModel.C20
