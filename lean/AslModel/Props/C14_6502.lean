import AslModel.Lemmas.Isa.I6502
/-!
# C14, target 6502 / 65SC02 / 65C02 (code65.c)

MODEL = `DecodeFixed` / `DecodeNorm` + `DecodeAdr` / `DecodeCond` / `DecodeBRK` / `DecodeBBR_BBS` / `DecodeRMB_SMB` over the
order tables the current `InitFields()` builds (`Generated/Isa_6502`, compiled dumper); SPEC = the manufacturer's
opcode matrix as a decoder (`decode`), the per-instruction tables (`opcodeOf`), and the legality predicate of source
statements (`legal`: addressing modes per CPU, zero-page / absolute selection with the `<` `>` prefixes, operand
ranges, branch distance, NMOS `JMP (abs)` page rule).  Theorems quantify over **all** mnemonics of the SPEC, all
operand syntaxes and prefixes, all operand values (`Int`), all program-counter values and the three CPUs
(`cpu ≤ 2`: 0 = 6502, 1 = 65SC02, 2 = 65C02).

`stdCfg fl nm` = the branch constants the SPEC prescribes (`C14_6502_cfg`: the regenerated ones are these) and two
variant flags that follow the source: `fl` - `DecodeNorm`'s fall-back appends through the result's own counter
(`false` = through the global `AdrCnt` as in the pinned source, finding `6502-normfallback-global-adrcnt`); `nm` - the
NMOS `JMP ($xxFF)` rule is applied to the 65SC02 as well (`true` = pinned source, finding
`65sc02-jmp-ind-page-end-rejected`; `false` = only to the NMOS 6502, as the SPEC says).
-/
namespace AslModel.C14
open AslModel.PFile (Byte b b_toNat)
open AslModel.Isa
open AslModel.Spec.I6502 AslModel.Isa.I6502 AslModel.Generated.Isa6502

/-- Table obligation: every mnemonic of the data sheets is in the `InstTable` the current `InitFields()` builds,
with the handler of its operand form; on each of the three CPUs every code of its order record that the CPU mask
enables is the opcode the SPEC's matrix decodes to this mnemonic and addressing mode, the enabled addressing modes
are exactly the SPEC's (`hasMode`), and codes for modes outside the 6502 family's syntax (`(n),X`, `(n),Z`,
`(n,SP),Y`, `\n`) play no role for these mnemonics. -/
theorem C14_6502_table :
    Mn.all.all (fun m => match I6502.lookup m with | some h => I6502.Good m h | none => false) = true :=
  I6502.table_good

/-- The SPEC's two presentations of the instruction set agree on all three CPUs: every entry of the opcode matrix
(`decode1`) is the per-instruction table's entry (`opcodeOf`) and vice versa. -/
theorem C14_6502_spec_tables :
    [0, 1, 2].all (fun cpu => (List.range 256).all fun op =>
      match decode1 cpu op with
      | some (m, md) => opcodeOf cpu m md == some op
      | none => true) = true ∧
    [0, 1, 2].all (fun cpu => Mn.all.all fun m => I6502.allModes.all fun md =>
      match opcodeOf cpu m md with
      | some op => decide (op < 256) && decode1 cpu op == some (m, md)
      | none => true) = true :=
  ⟨I6502.decode1_opcodeOf_all, I6502.opcodeOf_decode1_all⟩

/-- The constants regenerated from `DecodeCond` / `DecodeBBR_BBS` / `DecodeNorm` are the ones the theorems cover:
displacement relative to `pc + 2` (`pc + 3` for `BBRn/BBSn`), accepted distance `-128..127`, and the `JMP ($xxFF)`
rule applied to the NMOS 6502 - plus, in the pinned source, the 65SC02 - but never to the 65C02. -/
theorem C14_6502_cfg : genCfg = stdCfg normFallbackLocal (indBugCpus == [0, 1]) := by decide

/-- **Soundness** (fall-back through the result's own counter).  Whenever the code generator emits bytes for a
statement, the manufacturer's opcode map decodes exactly these bytes - and all of them - to the instruction the
statement denotes: mnemonic, addressing mode (zero page or absolute as selected by value and prefix), the operand
(two's complement in 8 / 16 bits, low byte first), and for branches the target address rebuilt from `pc` and the
displacement byte. -/
theorem C14_6502_sound (nm : Bool) (cpu pc : Nat) (hcpu : cpu ≤ 2) (s : Src) (bs : List Byte)
    (h : encode (stdCfg true nm) cpu pc s = .ok bs) : decode cpu pc bs = some (meaning cpu s, bs.length) :=
  encode_sound true nm cpu pc hcpu s bs (Or.inl rfl) h

/-- Soundness for either variant of the fall-back (in particular the pinned one): every statement except a `<`-forced
zero-page operand of an instruction that has only the absolute form of the addressing mode. -/
theorem C14_6502_sound_pinned (fl nm : Bool) (cpu pc : Nat) (hcpu : cpu ≤ 2) (s : Src) (bs : List Byte)
    (hside : forcedZp cpu s = false) (h : encode (stdCfg fl nm) cpu pc s = .ok bs) :
    decode cpu pc bs = some (meaning cpu s, bs.length) :=
  encode_sound fl nm cpu pc hcpu s bs (Or.inr hside) h

example : okBytes (encode (stdCfg true true) 0 0x10 ⟨.BNE, .rel .none 0xfff0⟩) = some [b 0xd0, b 0xde] := by decide
example : okBytes (encode (stdCfg false true) 2 0x200 ⟨.LDA, .mem .ind .none 0x12⟩) = some [b 0xb2, b 0x12] := by decide
example : forcedZp 2 ⟨.LDA, .mem .ind .lt 0x12⟩ = false ∧ forcedZp 0 ⟨.LDA, .mem .idxY .lt 0x12⟩ = true := by decide

/-- **Range** (partial).  A statement is assembled iff the SPEC calls it legal: the instruction has the addressing
mode on this CPU; immediate `-128..255`; zero-page address `0..255` (also under `<`); absolute address `0..65535`
(indexed base `-32768..65535`); branch target `0..65535` at a distance `-128..127` from the next instruction in the
16-bit program counter; `>` on a branch / bit instruction and the NMOS `JMP ($xxFF)` are refused.  One past a limit
is rejected, never truncated.

Full statement (not provable for the pinned code65.c, the two deviations are recorded findings):
`∀ fl nm cpu pc s, cpu ≤ 2 → (legal cpu pc s = true ↔ isOk (encode (stdCfg fl nm) cpu pc s) = true)`.
Missing: (1) `<v` where the instruction has only the absolute form of the mode - the manual calls a forced length
that the instruction does not have an error, `DecodeNorm` falls back to the absolute form (and, pinned, emits it
truncated: `C14_finding_6502_forced_zp`); (2) `JMP (abs)` with pointer low byte `$FF` on the 65SC02 - legal on the
CMOS part, refused by `DecodeNorm` for every CPU but the 65C02 (`C14_finding_65sc02_jmp_ind`); this exception is
only needed for `nm = true`, with the rule restricted to the NMOS part (`nm = false`) it disappears from `exempt`. -/
theorem C14_6502_range_partial (fl nm : Bool) (cpu pc : Nat) (hcpu : cpu ≤ 2) (s : Src) (hside : exempt nm cpu s = false) :
    legal cpu pc s = true ↔ isOk (encode (stdCfg fl nm) cpu pc s) = true := by
  rw [encode_ok fl nm cpu pc hcpu s hside]

example : exempt true 0 ⟨.LDA, .imm 256⟩ = false ∧ legal 0 0 ⟨.LDA, .imm 255⟩ = true ∧ legal 0 0 ⟨.LDA, .imm 256⟩ = false ∧
    legal 0 0 ⟨.LDA, .imm (-129)⟩ = false := by decide
example : exempt true 0 ⟨.LDA, .mem .idxX .none (-1)⟩ = false ∧ legal 0 0 ⟨.LDA, .mem .idxX .none (-1)⟩ = true ∧
    legal 0 0 ⟨.LDA, .mem .dir .none (-1)⟩ = false ∧ legal 0 0 ⟨.LDA, .mem .dir .lt 256⟩ = false := by decide
example : legal 0 0x200 ⟨.BNE, .rel .none 0x281⟩ = true ∧ legal 0 0x200 ⟨.BNE, .rel .none 0x282⟩ = false ∧
    legal 0 0x200 ⟨.BNE, .rel .none 0x182⟩ = true ∧ legal 0 0x200 ⟨.BNE, .rel .none 0x181⟩ = false := by decide
example : legal 0 0 ⟨.STZ, .mem .dir .none 5⟩ = false ∧ legal 1 0 ⟨.STZ, .mem .dir .none 5⟩ = true ∧
    legal 1 0 ⟨.RMB3, .bit .none 5⟩ = false ∧ legal 2 0 ⟨.RMB3, .bit .none 5⟩ = true := by decide

/-- **PC-relative fields**: an accepted branch is two bytes, and its displacement byte decodes to the referenced
target: `target = (pc + 2 + sext8 d) mod 2^16`. -/
theorem C14_6502_rel (fl nm : Bool) (cpu pc : Nat) (hcpu : cpu ≤ 2) (m : Mn) (p : Pfx) (t : Int) (bs : List Byte)
    (h : encode (stdCfg fl nm) cpu pc ⟨m, .rel p t⟩ = .ok bs) :
    ∃ o d : Byte, bs = [o, d] ∧ t = (relTarget pc 2 d.toNat : Int) := by
  obtain ⟨hd, hl, hg⟩ := lookup_good m
  have hg := good_on cpu hcpu m hd hg
  unfold encode at h
  simp only [hl] at h
  cases hd with
  | cond flag short long =>
    simp only [goodOn, Bool.and_eq_true, beq_iff_eq, decide_eq_true_eq] at hg
    exact cond_rel fl nm cpu pc flag short long hcpu hg.1.1.1.2 p t bs h
  | fixed flag code => simp [dispatch, decodeFixed] at h
  | norm codes => simp [dispatch, decodeNorm, decodeAdr] at h
  | brk => simp [dispatch, decodeBRK] at h
  | bbr code => simp [dispatch, decodeBBR] at h
  | rmb code => simp [dispatch, decodeRMB] at h

/-- the same for `BBRn` / `BBSn`: three bytes, zero-page address, `target = (pc + 3 + sext8 d) mod 2^16` -/
theorem C14_6502_rel_bit (fl nm : Bool) (cpu pc : Nat) (m : Mn) (p : Pfx) (v t : Int) (bs : List Byte)
    (h : encode (stdCfg fl nm) cpu pc ⟨m, .bitRel p v t⟩ = .ok bs) :
    ∃ o z d : Byte, bs = [o, z, d] ∧ v = (z.toNat : Int) ∧ t = (relTarget pc 3 d.toNat : Int) := by
  obtain ⟨hd, hl, hg⟩ := lookup_good m
  unfold encode at h
  simp only [hl] at h
  cases hd with
  | bbr code => exact bbr_rel fl nm cpu pc code p v t bs h
  | fixed flag code => simp [dispatch, decodeFixed] at h
  | norm codes => simp [dispatch, decodeNorm, decodeAdr] at h
  | brk => simp [dispatch, decodeBRK] at h
  | cond flag short long => simp [dispatch, decodeCond] at h
  | rmb code => simp [dispatch, decodeRMB] at h

example : okBytes (encode (stdCfg false true) 0 0xfffe ⟨.BEQ, .rel .none 0x0005⟩) = some [b 0xf0, b 0x05] ∧
    relTarget 0xfffe 2 5 = 5 := by decide
example : okBytes (encode (stdCfg false true) 2 0x300 ⟨.BBS7, .bitRel .none 0x12 0x283⟩) = some [b 0xff, b 0x12, b 0x80] ∧
    relTarget 0x300 3 0x80 = 0x283 := by decide

/-- **Known finding** (`6502-normfallback-global-adrcnt`): with the pinned fall-back (`fl = false`) `LDA <$12,Y` -
the 6502 has no `LDA zp,Y` - is emitted as the absolute opcode `$B9` followed by ONE address byte: the opcode map
cannot decode the two bytes (a `$B9` instruction is three bytes long), and the SPEC calls the statement illegal
(forced length that the instruction does not have).  With the fall-back through the result's own counter the
bytes are the complete `LDA $0012,Y`. -/
theorem C14_finding_6502_forced_zp :
    okBytes (encode (stdCfg false true) 0 0x200 ⟨.LDA, .mem .idxY .lt 0x12⟩) = some [b 0xb9, b 0x12] ∧
    decode 0 0x200 [b 0xb9, b 0x12] = none ∧
    legal 0 0x200 ⟨.LDA, .mem .idxY .lt 0x12⟩ = false ∧
    okBytes (encode (stdCfg true true) 0 0x200 ⟨.LDA, .mem .idxY .lt 0x12⟩) = some [b 0xb9, b 0x12, b 0x00] := by
  decide

/-- **Known finding** (`65sc02-jmp-ind-page-end-rejected`): `JMP ($12FF)` is a legal instruction of the CMOS 65SC02
(the page-wrap anomaly is an NMOS defect) but the pinned code generator (`nm = true`) refuses it for every CPU except the 65C02; with the rule restricted
to the NMOS part (`nm = false`) it is assembled, and still refused on the 6502. -/
theorem C14_finding_65sc02_jmp_ind (fl : Bool) :
    legal 1 0x200 ⟨.JMP, .mem .ind .none 0x12ff⟩ = true ∧
    isOk (encode (stdCfg fl true) 1 0x200 ⟨.JMP, .mem .ind .none 0x12ff⟩) = false ∧
    okBytes (encode (stdCfg fl false) 1 0x200 ⟨.JMP, .mem .ind .none 0x12ff⟩) = some [b 0x6c, b 0xff, b 0x12] ∧
    okBytes (encode (stdCfg fl true) 2 0x200 ⟨.JMP, .mem .ind .none 0x12ff⟩) = some [b 0x6c, b 0xff, b 0x12] ∧
    legal 0 0x200 ⟨.JMP, .mem .ind .none 0x12ff⟩ = false ∧
    isOk (encode (stdCfg fl false) 0 0x200 ⟨.JMP, .mem .ind .none 0x12ff⟩) = false := by
  cases fl <;> decide

end AslModel.C14
