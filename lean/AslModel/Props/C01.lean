import AslModel.Lemmas.Pass
/-!
# C01 — multipass assembly ends at a fixpoint with every reference resolved

Model: `Model/Pass.lean`.  All theorems are for *every* program (any mix of forward/backward
references, any value-dependent size functions, any layout) and every starting symbol table.

`Clean p` excludes exactly one statement form: a label whose stored value is patched after
`SymbolAdder` compared the pre-padding value (`padLabel _ true` – what `InsertPadding` →
`LabelModify` does on the pinned tree).  For that form the fixpoint claim is false:
`C01_finding_padding_livelock` proves that the four-line program of the property text never
leaves the pass loop.
-/
namespace AslModel.C01
open AslModel.Pass

/-- **Every use encodes the final value**: a pass that ends without a repass request encoded, in
every reference, the value the symbol has at the end of that pass. -/
theorem C01_refs_final (T : Tab) (p : List Stmt) (hc : Clean p) (h : (pass T p).repass = false) :
    ∀ a n v, (a, n, v) ∈ (pass T p).out → (pass T p).tab n = some v :=
  run_agree p { tab := T } hc (by intro _ a n v hm; simp at hm) h

/-- **One further pass changes nothing**: if the pass from table `T` ends without Repass, the pass
started from the resulting table produces the same addresses, the same encoded references, the same
symbol table, and again no Repass. -/
theorem C01_extra_pass (T : Tab) (p : List Stmt) (hc : Clean p) (hnd : (labels p).Nodup)
    (h : (pass T p).repass = false) :
    (pass (pass T p).tab p).pc = (pass T p).pc ∧ (pass (pass T p).tab p).out = (pass T p).out ∧
    (pass (pass T p).tab p).tab = (pass T p).tab ∧ (pass (pass T p).tab p).repass = false := by
  have hr := lockstep (pass T p).tab p { tab := T } { tab := (pass T p).tab }
    ⟨rfl, rfl, rfl, rfl, by intro _ a n v hm; simp at hm⟩ hc h rfl hnd
  exact ⟨hr.pc, hr.out, hr.tab, hr.rep⟩

/-- the pass loop only ever returns the state of a pass that ended without Repass -/
theorem assemble_some (p : List Stmt) (fuel : Nat) (T : Tab) (k : Nat) (n : Nat) (s : PS)
    (h : assemble p fuel T k = some (n, s)) : ∃ T', s = pass T' p ∧ s.repass = false ∧ k < n := by
  induction fuel generalizing T k with
  | zero => simp [assemble] at h
  | succ f ih =>
    simp only [assemble] at h
    split at h
    · obtain ⟨T', h1, h2, h3⟩ := ih _ _ h
      exact ⟨T', h1, h2, by omega⟩
    · rename_i hr
      simp only [Option.some.injEq, Prod.mk.injEq] at h
      obtain ⟨rfl, rfl⟩ := h
      exact ⟨T, rfl, by simpa using hr, by omega⟩

/-- **Fixpoint at loop exit**: whenever the pass loop `do … while (Repass)` leaves (after any
number of passes), every reference of the emitted code holds the symbol's final value and a further
pass would reproduce addresses, references and symbol table. -/
theorem C01_fixpoint_at_exit (p : List Stmt) (hc : Clean p) (hnd : (labels p).Nodup)
    (fuel : Nat) (T : Tab) (n : Nat) (s : PS) (h : assemble p fuel T 0 = some (n, s)) :
    (∀ a m v, (a, m, v) ∈ s.out → s.tab m = some v) ∧
    (pass s.tab p).out = s.out ∧ (pass s.tab p).tab = s.tab ∧ (pass s.tab p).repass = false ∧ 1 ≤ n := by
  obtain ⟨T', rfl, hrep, hk⟩ := assemble_some p fuel T 0 n s h
  have h1 := C01_refs_final T' p hc hrep
  have h2 := C01_extra_pass T' p hc hnd hrep
  exact ⟨h1, h2.2.1, h2.2.2.1, h2.2.2.2, by omega⟩

/-- the program of the property text: `dc.l lab / dc.b 1 / lab: nop` on a target that pads -/
def livelockProg : List Stmt := [.ref 7 (fun _ => 4) none, .skip 1, .padLabel 7 true, .skip 2]

theorem livelock_pass (T : Tab) (h : T 7 = none ∨ T 7 = some 6) :
    (pass T livelockProg).repass = true ∧ (pass T livelockProg).tab 7 = some 6 := by
  rcases h with h | h <;> simp [pass, run, step, livelockProg, upd, h]

/-- **Finding (pinned tree)**: with the comparison made on the pre-padding value, the pass loop
never ends on that program, whatever number of passes is allowed. -/
theorem C01_finding_padding_livelock (fuel : Nat) (T : Tab) (k : Nat) (h : T 7 = none ∨ T 7 = some 6) :
    assemble livelockProg fuel T k = none := by
  induction fuel generalizing T k with
  | zero => rfl
  | succ f ih =>
    have hp := livelock_pass T h
    simp only [assemble, hp.1, if_true]
    exact ih _ _ (Or.inr hp.2)

/-- the same program with the comparison made on the padded value converges in two passes -/
theorem C01_padding_fixed_converges :
    (assemble [.ref 7 (fun _ => 4) none, .skip 1, .padLabel 7 false, .skip 2] 5 emptyTab 0).map (·.1) = some 2 := by
  simp [assemble, pass, run, step, upd, emptyTab]

/-! Non-vacuity: a clean program with a forward reference whose size depends on the value,
converging after three passes. -/
def exProg : List Stmt :=
  [.ref 1 (fun v => if v < 256 then 2 else 3) none, .skip 250, .label 1, .ref 1 (fun v => if v < 256 then 2 else 3) none]
example : Clean exProg ∧ (labels exProg).Nodup := by
  constructor
  · intro st hst; simp [exProg] at hst; rcases hst with rfl | rfl | rfl | rfl <;> simp [CleanStmt]
  · simp [exProg, labels]

end AslModel.C01
