import AslModel.Props.C14_Avr
import AslModel.Lemmas.IsaAvrSeg
/-!
# C14 — Atmel AVR with the CPU argument `CODESEGSIZE` (`cpu <device>:codesegsize=0`: byte-addressed code space)

MODEL = `encodeA` (`Model/Isa/IAvr.lean`, last section): the handlers with `GetWordCodeAddress` / `GetNextCodeAddress` /
`CutAdr` / `CodeAdrIntType` depending on `CodeSegSize` as in codeavr.c.  SPEC unchanged: Atmel's opcode map knows word
addresses only; a statement written with byte addresses denotes the statement with the halved code address at word
`pc / 2` (`Spec.IAvr.wordStmt`, `legalByte`; an odd code address is no instruction address).

* `C14_avr_seg_word`: with `CodeSegSize = 1` the model is the word-mode model of `C14_Avr.lean` (all its theorems apply);
* `C14_avr_seg_byte`: with `CodeSegSize = 0`, `WRAPMODE OFF`, the bytes emitted for a statement at byte address `pc` are those
  the word-mode model emits for `wordStmt s` at word `pc / 2` - for every mnemonic, operand list and program counter;
* `C14_avr_byte_sound` / `C14_avr_byte_range`: soundness and range in byte mode, from the two word-mode theorems;
* `C14_avr_wrapmode_byte`, `C14_avr_cut_independent_of_segsize`: `WRAPMODE ON` wraps in byte mode as in word mode (repaired finding).
-/
namespace AslModel.C14
open AslModel.PFile (Byte b b_toNat)
open AslModel.Isa AslModel.Isa.IAvr
open AslModel.Spec.IAvr AslModel.Generated.IsaAvr

/-- **Table obligation.**  For each device of the check the type `SwitchTo_AVR` derives for code addresses from the doubled
`SegLimits[SegCode]` covers exactly the byte addresses `0 .. 2·2^pcBits - 1`. -/
theorem C14_avr_byte_table :
    ((List.range 7).all fun i =>
      match avrDevice i with
      | some (p, c) => compatA p c
      | none => false) = true := by decide

/-- **Default argument.**  `CODESEGSIZE=1` is the word-mode model. -/
theorem C14_avr_seg_word (x : CtxA) (hseg : x.codeSegSize = 1) (s : Src) : encodeA x s = IAvr.encode x.toCtx s :=
  encodeA_word x hseg s

/-- **Byte mode = word mode on the halved code address.**  With `CODESEGSIZE=0` (and `WRAPMODE OFF`) the statement `s`
is assembled to the bytes the word-mode code generator emits for `wordStmt s` (code-address operand halved) with the
program counter `pc / 2`; nothing is emitted when the code address is odd.  In particular the displacement of every
relative branch is formed from two WORD addresses. -/
theorem C14_avr_seg_byte (x : CtxA) (c : Cpu) (hc : compatA x.p c = true) (hseg : x.codeSegSize = 0) (hw : x.wrap = false) (s : Src) :
    okBytes (encodeA x s) = (wordStmt s).bind fun s' => okBytes (IAvr.encode ⟨x.p, false, x.pc / 2⟩ s') :=
  encodeA_byte x c hc hseg hw s

/-- **Soundness, byte mode.**  Emitted bytes decode - at the word address `pc / 2` - to the instruction the statement with
the halved code address denotes; relative displacements give back that word target. -/
theorem C14_avr_byte_sound (x : CtxA) (c : Cpu) (hc : compatA x.p c = true) (hseg : x.codeSegSize = 0) (hw : x.wrap = false)
    (hcw : c.wrap = false) (s : Src) (bs : List Byte) (hside : ∀ s', wordStmt s = some s' → ¬ pbitTrunc x.p s')
    (h : encodeA x s = .ok bs) :
    ∃ s', wordStmt s = some s' ∧ decode c (x.pc / 2) bs = some (meaning s', bs.length) := by
  have hb := C14_avr_seg_byte x c hc hseg hw s
  rw [h] at hb
  cases hws : wordStmt s with
  | none => rw [hws] at hb; simp at hb
  | some s' =>
    rw [hws] at hb
    simp only [okBytes_ok, Option.bind_some] at hb
    refine ⟨s', rfl, ?_⟩
    have hc' : compat x.p c = true := by simp only [compatA, Bool.and_eq_true] at hc; exact hc.1
    cases he : IAvr.encode ⟨x.p, false, x.pc / 2⟩ s' with
    | error e => rw [he] at hb; simp at hb
    | ok bs' =>
      rw [he] at hb
      simp only [okBytes_ok, Option.some.injEq] at hb
      subst hb
      exact C14_avr_sound ⟨x.p, false, x.pc / 2⟩ c hc' hcw.symm s' bs (hside s' hws) he

/-- **Range, byte mode.**  A statement written with byte addresses is assembled iff its code address is even and the
statement with the halved address is legal at word `pc / 2`: a branch distance of `+64` / `-65` words (`+2048` / `-2049`) is
refused, `+63` / `-64` accepted, wherever the instruction stands. -/
theorem C14_avr_byte_range (x : CtxA) (c : Cpu) (hc : compatA x.p c = true) (hseg : x.codeSegSize = 0) (hw : x.wrap = false)
    (hcw : c.wrap = false) (hpc : ((x.pc / 2 : Nat) : Int) < 2 ^ c.pcBits) (s : Src)
    (hside : ∀ s', wordStmt s = some s' → ¬ pbitTrunc x.p s')
    (hsize : ∀ s', wordStmt s = some s' → minPcBits s'.mn ≠ 0 → avail c s'.mn s'.args = sizeGateModel x.p s'.mn) :
    legalByte c x.pc s = true ↔ isOk (encodeA x s) = true := by
  have hb := C14_avr_seg_byte x c hc hseg hw s
  have hc' : compat x.p c = true := by simp only [compatA, Bool.and_eq_true] at hc; exact hc.1
  rw [isOk_okBytes, hb]
  unfold legalByte
  cases hws : wordStmt s with
  | none => simp
  | some s' =>
    simp only [Option.bind_some]
    rw [C14_avr_range ⟨x.p, false, x.pc / 2⟩ c hc' hcw.symm hpc s' (hside s' hws) (hsize s' hws), isOk_okBytes]

/-! ### non-vacuity -/

-- ATmega8, byte addresses: `BREQ` at byte 6 (word 3) to byte 12 (word 6) is `f011`; to byte 13: refused; the limits
example : ∃ p c, avrDevice 4 = some (p, c) ∧ compatA p c = true ∧ c.wrap = false ∧
    okBytes (encodeA ⟨⟨p, false, 6⟩, 0⟩ ⟨.BREQ, [12]⟩) = some [b 0x11, b 0xf0] ∧
    isOk (encodeA ⟨⟨p, false, 6⟩, 0⟩ ⟨.BREQ, [13]⟩) = false ∧
    okBytes (encodeA ⟨⟨p, false, 6⟩, 0⟩ ⟨.BREQ, [134]⟩) = some [b 0xf9, b 0xf1] ∧
    isOk (encodeA ⟨⟨p, false, 6⟩, 0⟩ ⟨.BREQ, [136]⟩) = false ∧
    legalByte c 6 ⟨.BREQ, [134]⟩ = true ∧ legalByte c 6 ⟨.BREQ, [136]⟩ = false ∧ legalByte c 6 ⟨.BREQ, [13]⟩ = false :=
  ⟨_, _, rfl, by decide, rfl, by decide, by decide, by decide, by decide, by decide, by decide, by decide⟩

/-! ### `WRAPMODE ON` in byte mode -/

/-- **`WRAPMODE ON` wraps in byte mode as in word mode** (former finding
`avr-wrapmode-without-effect-in-byte-addressed-code-space`, repaired in codeavr.c: `CutAdr`'s masks come from the size in words):
on the ATmega8 (4096 words) `RJMP` from word 4090 to word 5 wraps around the program memory (`k = +10`) when written with word
addresses, as `doc/pseudo-instructions.md` describes, and the same jump written with byte addresses (`org 8180` / `rjmp 10`)
gives the same two bytes. -/
theorem C14_avr_wrapmode_byte :
    ∃ p c, avrDevice 12 = some (p, c) ∧ c.wrap = true ∧
      okBytes (encodeA ⟨⟨p, true, 4090⟩, 1⟩ ⟨.RJMP, [5]⟩) = some [b 0x0a, b 0xc0] ∧ legal c 4090 ⟨.RJMP, [5]⟩ = true ∧
      okBytes (encodeA ⟨⟨p, true, 8180⟩, 0⟩ ⟨.RJMP, [10]⟩) = some [b 0x0a, b 0xc0] ∧ legalByte c 8180 ⟨.RJMP, [10]⟩ = true :=
  ⟨_, _, rfl, rfl, by decide, by decide, by decide, by decide⟩

/-- the distance of every relative branch is cut the same way in both modes, for every device, distance and CPU argument -/
theorem C14_avr_cut_independent_of_segsize (p : Props) (css : Nat) (d : Int) : cutAdrA p css d = cutAdr p d := rfl

end AslModel.C14
