import AslModel.Model.ErrChan
import AslModel.Spec.Report
/-!
# C02, part "channels and passes" – theorems over `Model/ErrChan.lean`

For **all** configurations (listing to console / file / none, `-Werror`, `-w`, `-maxerrors`, `-Y`),
all programs of the statement language (incl. `EXPECT` / `ENDEXPECT` blocks, nested, lone or left open, and the
end-of-pass check) and all machine states:

* `C02_chan_emitted_once`   – `WrErrorString` shows every diagnostic exactly once on
                               console ∪ error channel, whatever `ListOn` and the listing mode are;
* `C02_chan_filtered_frame` – a message dropped by a filter of `WrXErrorPos` (`EXPECT` list, `-w`) changes no counter:
                               not `ErrorCount`, not `WarnCount`, not `JmpErrors`, nothing shown – for every state;
* `C02_chan_unfiltered_counted` – a message that passes the filters is shown once, with the class of its number, and
                               1370 / 1910 are the jump messages; the `EXPECT` list is untouched;
* `C02_chan_pass_counts`    – at every point of a pass that started with `JmpErrors = 0`:
                               `ErrorCount = emitted errors − forgotten`, `WarnCount = emitted warnings`
                               (while the counters fit), only jump messages are ever forgotten and
                               without `-Y` nothing is;
* `C02_chan_early_pass`     – a pass that ends with `ErrorCount = 0` (the only way the loop goes on)
                               emitted no error without `-Y`, and with `-Y` only jump messages; it leaves
                               `JmpErrors = 0` for the next pass;
* `C02_chan_loop`           – the same for the whole pass loop of a file (induction over the passes);
* `C02_chan_codefile_iff`   – code file ⇔ the last pass reported (emitted − forgotten) no error;
* `C02_finding_stale_jmperrors` – the hypothesis `JmpErrors = 0` cannot be dropped: nothing resets the
                               counter between source files, so under `-Y` a second file that emits no
                               message at all ends with `2^32 − 1` errors and without code file.
-/
namespace AslModel.C02Chan
open AslModel.ErrChan
open AslModel.ErrCount (Diag)

/-- error / warning messages shown to the user in the current pass (console listing ∪ error channel) -/
def emErr (m : M) : Nat := m.con.err + m.chan.err
def emWarn (m : M) : Nat := m.con.warn + m.chan.warn

/-- the class `WrErrorString` finally gives the message -/
def isWarn (c : Cfg) (warning fatal : Bool) : Bool := warning && !(c.werror && !fatal)

theorem cnt_add_err (x : Cnt) (w : Bool) : (x.add w).err = x.err + (if w then 0 else 1) := by
  unfold Cnt.add; cases w <;> simp

theorem cnt_add_warn (x : Cnt) (w : Bool) : (x.add w).warn = x.warn + (if w then 1 else 0) := by
  unfold Cnt.add; cases w <;> simp

/-- **Every diagnostic is emitted exactly once** on console ∪ error channel: for every listing mode,
every `ListOn`, fatal or not. -/
theorem C02_chan_emitted_once (c : Cfg) (m : M) (warning fatal : Bool) :
    emErr (wrErrorString c m warning fatal) = emErr m + (if isWarn c warning fatal then 0 else 1) ∧
    emWarn (wrErrorString c m warning fatal) = emWarn m + (if isWarn c warning fatal then 1 else 0) := by
  unfold emErr emWarn wrErrorString isWarn
  cases hl : c.listMode <;> cases fatal <;> cases warning <;> cases c.werror <;>
    by_cases h0 : m.listOn = 0 <;> simp [h0, cnt_add_err, cnt_add_warn] <;> omega

/-- `ErrorCount` / `WarnCount` move with the class of the message -/
theorem wrErrorString_counters (c : Cfg) (m : M) (warning fatal : Bool) :
    (wrErrorString c m warning fatal).errCnt = (if isWarn c warning fatal then m.errCnt else (m.errCnt + 1) % 2 ^ c.width) ∧
    (wrErrorString c m warning fatal).warnCnt = (if isWarn c warning fatal then (m.warnCnt + 1) % 2 ^ c.width else m.warnCnt) := by
  unfold wrErrorString isWarn
  cases fatal <;> cases warning <;> cases c.werror <;> simp

theorem wrErrorString_frame (c : Cfg) (m : M) (warning fatal : Bool) :
    (wrErrorString c m warning fatal).jmpErrors = m.jmpErrors ∧
    (wrErrorString c m warning fatal).jmpMsgs = m.jmpMsgs ∧
    (wrErrorString c m warning fatal).forgotten = m.forgotten := by
  unfold wrErrorString; simp

/-- invariant of a pass that started with `JmpErrors = j0` -/
structure PInv (c : Cfg) (j0 : Nat) (m : M) : Prop where
  err : (m.errCnt + m.forgotten) % 2 ^ c.width = emErr m % 2 ^ c.width
  errLt : m.errCnt < 2 ^ c.width
  warn : m.warnCnt = emWarn m % 2 ^ c.width
  forg : m.jmpErrors + m.forgotten ≤ j0 + m.jmpMsgs
  jmp : m.jmpMsgs ≤ emErr m
  noY : c.throwY = false → m.forgotten = 0

theorem two_pow_pos (w : Nat) : 0 < 2 ^ w := Nat.pos_of_ne_zero (by simp)

theorem succ_mod_add (P a f : Nat) : ((a + 1) % P + f) % P = ((a + f) % P + 1) % P := by
  rw [Nat.add_mod ((a + 1) % P), Nat.mod_mod, ← Nat.add_mod, Nat.add_mod ((a + f) % P), Nat.mod_mod, ← Nat.add_mod]
  congr 1; omega

/-- the `-Y` roll-back `ErrorCount -= JmpErrors` on a wrapping counter -/
theorem sub_mod_add (P a J f : Nat) (hP : 0 < P) :
    ((a + P - J % P) % P + (f + J)) % P = (a + f) % P := by
  have hr : J % P < P := Nat.mod_lt _ hP
  have hd := Nat.mod_add_div J P
  rw [Nat.add_mod, Nat.mod_mod, ← Nat.add_mod]
  have : a + P - J % P + (f + J) = a + f + P * (J / P + 1) := by
    rw [Nat.mul_succ]; omega
  rw [this, Nat.add_mul_mod_self_left]

theorem wrErrorString_inv (c : Cfg) (j0 : Nat) (m : M) (warning fatal : Bool) (h : PInv c j0 m) :
    PInv c j0 (wrErrorString c m warning fatal) := by
  have he := C02_chan_emitted_once c m warning fatal
  have hc := wrErrorString_counters c m warning fatal
  have hf := wrErrorString_frame c m warning fatal
  have hP := two_pow_pos c.width
  refine ⟨?_, ?_, ?_, ?_, ?_, ?_⟩
  · rw [hc.1, he.1, hf.2.2]
    cases isWarn c warning fatal
    · simp only [Bool.false_eq_true, if_false]
      rw [succ_mod_add, h.err, Nat.add_mod (emErr m % 2 ^ c.width), Nat.mod_mod, ← Nat.add_mod]
    · simpa using h.err
  · rw [hc.1]; cases isWarn c warning fatal
    · simp only [Bool.false_eq_true, if_false]; exact Nat.mod_lt _ hP
    · simpa using h.errLt
  · rw [hc.2, he.2]
    cases isWarn c warning fatal
    · simpa using h.warn
    · simp only [if_true]; rw [h.warn, Nat.add_mod (emWarn m % 2 ^ c.width), Nat.mod_mod, ← Nat.add_mod]
  · rw [hf.1, hf.2.1, hf.2.2]; exact h.forg
  · rw [hf.2.1, he.1]; have := h.jmp; omega
  · intro hy; rw [hf.2.2]; exact h.noY hy

theorem wrJmpError_inv (c : Cfg) (j0 : Nat) (m : M) (h : PInv c j0 m) : PInv c j0 (wrJmpError c m) := by
  unfold wrJmpError
  have he := C02_chan_emitted_once c (({ (if m.repass then m else { m with jmpErrors := m.jmpErrors + 1 }) with
      jmpMsgs := (if m.repass then m else { m with jmpErrors := m.jmpErrors + 1 }).jmpMsgs + 1 })) false false
  have hc := wrErrorString_counters c (({ (if m.repass then m else { m with jmpErrors := m.jmpErrors + 1 }) with
      jmpMsgs := (if m.repass then m else { m with jmpErrors := m.jmpErrors + 1 }).jmpMsgs + 1 })) false false
  have hf := wrErrorString_frame c (({ (if m.repass then m else { m with jmpErrors := m.jmpErrors + 1 }) with
      jmpMsgs := (if m.repass then m else { m with jmpErrors := m.jmpErrors + 1 }).jmpMsgs + 1 })) false false
  have hP := two_pow_pos c.width
  have hw : isWarn c false false = false := by simp [isWarn]
  simp only [hw, Bool.false_eq_true, if_false] at he hc
  refine ⟨?_, ?_, ?_, ?_, ?_, ?_⟩
  · rw [hc.1, he.1, hf.2.2]
    cases hr : m.repass <;> simp only [hr, Bool.false_eq_true, if_false, if_true] <;>
      (simp only [emErr]; rw [succ_mod_add]; have := h.err; simp only [emErr] at this; rw [this, Nat.add_mod (_ % 2 ^ c.width), Nat.mod_mod, ← Nat.add_mod])
  · rw [hc.1]; exact Nat.mod_lt _ hP
  · rw [hc.2, he.2]
    cases hr : m.repass <;> simp only [Bool.false_eq_true, if_false, if_true] <;> exact h.warn
  · rw [hf.1, hf.2.1, hf.2.2]
    cases hr : m.repass <;> simp only [Bool.false_eq_true, if_false, if_true] <;> have := h.forg <;> omega
  · rw [hf.2.1, he.1]
    cases hr : m.repass <;> simp only [hr, Bool.false_eq_true, if_false, if_true] <;> (have := h.jmp; simp only [emErr] at this ⊢; omega)
  · intro hy; rw [hf.2.2]
    cases hr : m.repass <;> simp only [Bool.false_eq_true, if_false, if_true] <;> exact h.noY hy

/-- changing only fields the invariant does not mention -/
theorem PInv.congr {c : Cfg} {j0 : Nat} {m m' : M} (h : PInv c j0 m)
    (h1 : m'.errCnt = m.errCnt) (h2 : m'.warnCnt = m.warnCnt) (h3 : m'.forgotten = m.forgotten)
    (h4 : m'.jmpErrors = m.jmpErrors) (h5 : m'.jmpMsgs = m.jmpMsgs) (h6 : m'.con = m.con) (h7 : m'.chan = m.chan) :
    PInv c j0 m' := by
  have e1 : emErr m' = emErr m := by simp [emErr, h6, h7]
  have e2 : emWarn m' = emWarn m := by simp [emWarn, h6, h7]
  exact ⟨by rw [h1, h3, e1]; exact h.err, by rw [h1]; exact h.errLt, by rw [h2, e2]; exact h.warn,
         by rw [h4, h3, h5]; exact h.forg, by rw [h5, e1]; exact h.jmp, fun hy => by rw [h3]; exact h.noY hy⟩

/-- **A filtered message changes no counter** (`WrXErrorPos`, for every configuration, state and message number):
a message that is swallowed by `EXPECT` or dropped by `-w` is shown nowhere and leaves `ErrorCount`, `WarnCount`,
`JmpErrors`, the number of jump messages and of forgotten errors as they were – in particular an expected
1370 / 1910 is not a "questionable jump error" that `-Y` could take off the counter later. -/
theorem C02_chan_filtered_frame (c : Cfg) (m : M) (num : Nat) (h : isFiltered c m num = true) :
    let r := wrXErrorPos c m num
    r.errCnt = m.errCnt ∧ r.warnCnt = m.warnCnt ∧ r.jmpErrors = m.jmpErrors ∧ r.jmpMsgs = m.jmpMsgs ∧
    r.forgotten = m.forgotten ∧ r.con = m.con ∧ r.chan = m.chan ∧ r.lst = m.lst ∧ r.fatal = m.fatal ∧
    r.filtered = m.filtered + 1 := by
  intro r
  simp only [r, wrXErrorPos]
  unfold isFiltered at h
  cases ht : takeExpect m.expects num with
  | some l => simp
  | none =>
    rw [ht] at h
    simp only [Option.isSome_none, Bool.false_or] at h
    simp [h]

/-- **An unfiltered message is counted and shown exactly once**: what `WrXErrorPos` does with a message that passed
both filters – the class follows the number, 1370 / 1910 are noted as jump messages. -/
theorem C02_chan_unfiltered_counted (c : Cfg) (m : M) (num : Nat) (h : isFiltered c m num = false) :
    let r := wrXErrorPos c m num
    let w := isWarn c (decide (num < 1000)) (decide (num ≥ 10000))
    emErr r = emErr m + (if w then 0 else 1) ∧ emWarn r = emWarn m + (if w then 1 else 0) ∧
    r.jmpMsgs = m.jmpMsgs + (if isJmpNum num then 1 else 0) ∧ r.filtered = m.filtered ∧ r.expects = m.expects := by
  intro r w
  unfold isFiltered at h
  simp only [Bool.or_eq_false_iff] at h
  have ht : takeExpect m.expects num = none := by
    cases hh : takeExpect m.expects num with
    | none => rfl
    | some l => rw [hh] at h; simp at h
  have hr : r = if isJmpNum num then wrJmpError c m else wrErrorString c m (decide (num < 1000)) (decide (num ≥ 10000)) := by
    simp only [r, wrXErrorPos, ht, h.2]; simp
  cases hj : isJmpNum num
  · rw [hj] at hr; simp only [Bool.false_eq_true, if_false] at hr
    have he := C02_chan_emitted_once c m (decide (num < 1000)) (decide (num ≥ 10000))
    have hf := wrErrorString_frame c m (decide (num < 1000)) (decide (num ≥ 10000))
    rw [hr]
    refine ⟨he.1, he.2, by simp [hf.2.1], ?_, ?_⟩ <;> simp [wrErrorString]
  · rw [hj] at hr; simp only [if_true] at hr
    have hnum : num = 1370 ∨ num = 1910 := by
      simp only [isJmpNum, Bool.or_eq_true, beq_iff_eq] at hj; exact hj
    have hw : w = false := by
      rcases hnum with rfl | rfl <;> simp [w, isWarn]
    rw [hr, hw]
    have he := C02_chan_emitted_once c (({ (if m.repass then m else { m with jmpErrors := m.jmpErrors + 1 }) with
      jmpMsgs := (if m.repass then m else { m with jmpErrors := m.jmpErrors + 1 }).jmpMsgs + 1 })) false false
    have hf := wrErrorString_frame c (({ (if m.repass then m else { m with jmpErrors := m.jmpErrors + 1 }) with
      jmpMsgs := (if m.repass then m else { m with jmpErrors := m.jmpErrors + 1 }).jmpMsgs + 1 })) false false
    have hw2 : isWarn c false false = false := by simp [isWarn]
    simp only [hw2, Bool.false_eq_true, if_false] at he
    unfold wrJmpError
    simp only [Bool.false_eq_true, if_false, if_true]
    refine ⟨?_, ?_, ?_, ?_, ?_⟩
    · rw [he.1]; cases m.repass <;> simp [emErr]
    · rw [he.2]; cases m.repass <;> simp [emWarn]
    · rw [hf.2.1]; cases m.repass <;> simp
    · cases m.repass <;> simp [wrErrorString]
    · cases m.repass <;> simp [wrErrorString]

theorem wrXErrorPos_inv (c : Cfg) (j0 : Nat) (m : M) (num : Nat) (h : PInv c j0 m) : PInv c j0 (wrXErrorPos c m num) := by
  unfold wrXErrorPos
  split
  · exact h.congr rfl rfl rfl rfl rfl rfl rfl
  · split
    · exact h.congr rfl rfl rfl rfl rfl rfl rfl
    · split
      · exact wrJmpError_inv c j0 m h
      · exact wrErrorString_inv c j0 m _ _ h

theorem wrNumWarning_inv (c : Cfg) (j0 : Nat) (m : M) (h : PInv c j0 m) : PInv c j0 (wrNumWarning c m) :=
  wrXErrorPos_inv c j0 m _ h

theorem wrDiag_inv (c : Cfg) (j0 : Nat) (m : M) (d : Diag) (h : PInv c j0 m) : PInv c j0 (wrDiag c m d) := by
  cases d <;> simp only [wrDiag]
  · exact wrNumWarning_inv c j0 m h
  · exact wrErrorString_inv c j0 m _ _ h
  · exact wrErrorString_inv c j0 m _ _ h
  · exact wrErrorString_inv c j0 m _ _ h

theorem repassMsg_inv (c : Cfg) (j0 : Nat) (m : M) (num : Nat) (h : PInv c j0 m) : PInv c j0 (repassMsg c m num) := by
  unfold repassMsg; split
  · exact wrXErrorPos_inv c j0 m _ h
  · exact h

theorem drainExpects_inv (c : Cfg) (j0 : Nat) (f : Nat) : ∀ (m : M), PInv c j0 m → PInv c j0 (drainExpects c f m) := by
  induction f with
  | zero => intro m h; exact h
  | succ f ih =>
    intro m h
    unfold drainExpects
    split
    · exact h
    · split
      · exact h
      · exact ih _ (wrXErrorPos_inv c j0 _ _ (h.congr rfl rfl rfl rfl rfl rfl rfl))

theorem passExit_inv (c : Cfg) (j0 : Nat) (m : M) (h : PInv c j0 m) : PInv c j0 (passExit c m) := by
  unfold passExit
  split
  · exact h
  · have h1 : PInv c j0 (if m.inExpect then wrXErrorPos c m 2150 else m) := by
      split
      · exact wrXErrorPos_inv c j0 m _ h
      · exact h
    exact h1.congr rfl rfl rfl rfl rfl rfl rfl

theorem symbolAdder_inv (c : Cfg) (j0 : Nat) (m : M) (n v : Nat) (h : PInv c j0 m) :
    PInv c j0 (symbolAdder c m n v) := by
  unfold symbolAdder
  split
  · exact h.congr rfl rfl rfl rfl rfl rfl rfl
  · exact h.congr rfl rfl rfl rfl rfl rfl rfl
  · split
    · exact h.congr rfl rfl rfl rfl rfl rfl rfl
    · apply repassMsg_inv
      by_cases hc : (!m.repass && decide (m.jmpErrors > 0)) = true
      · simp only [hc, if_true]
        cases hy : c.throwY
        · -- without -Y: only `JmpErrors = 0`
          simp only [Bool.false_eq_true, if_false]
          refine ⟨h.err, h.errLt, h.warn, ?_, h.jmp, h.noY⟩
          have := h.forg; simp only; omega
        · simp only [if_true]
          refine ⟨?_, Nat.mod_lt _ (two_pow_pos _), h.warn, ?_, h.jmp, ?_⟩
          · simp only [emErr]
            rw [sub_mod_add _ _ _ _ (two_pow_pos _)]; exact h.err
          · have := h.forg; simp only; omega
          · intro hy'; rw [hy] at hy'; cases hy'
      · simp only [hc, Bool.false_eq_true, if_false]
        exact h.congr rfl rfl rfl rfl rfl rfl rfl

theorem lookup_inv (c : Cfg) (j0 : Nat) (m : M) (n : Nat) (h : PInv c j0 m) : PInv c j0 (lookup c m n).2 := by
  unfold lookup
  split
  · exact h
  · split
    · exact repassMsg_inv c j0 _ _ (h.congr rfl rfl rfl rfl rfl rfl rfl)
    · exact h

theorem step_inv (c : Cfg) (j0 : Nat) (m : M) (s : Stmt) (h : PInv c j0 m) : PInv c j0 (step c m s) := by
  unfold step
  split
  · exact h
  · cases s with
    | diag d => exact wrDiag_inv c j0 m d h
    | listing v => exact h.congr rfl rfl rfl rfl rfl rfl rfl
    | save => exact h.congr rfl rfl rfl rfl rfl rfl rfl
    | restore =>
      simp only
      split
      · exact wrErrorString_inv c j0 m _ _ h
      · exact h.congr rfl rfl rfl rfl rfl rfl rfl
    | num n => exact wrXErrorPos_inv c j0 m n h
    | expect ns =>
      simp only
      split
      · exact wrXErrorPos_inv c j0 m _ h
      · exact h.congr rfl rfl rfl rfl rfl rfl rfl
    | endexpect =>
      simp only
      split
      · exact wrXErrorPos_inv c j0 m _ h
      · have hd := drainExpects_inv c j0 m.expects.length m h
        split
        · exact hd
        · exact hd.congr rfl rfl rfl rfl rfl rfl rfl
    | label n => exact symbolAdder_inv c j0 m n _ h
    | equ n v => exact symbolAdder_inv c j0 m n v h
    | fill k => exact h.congr rfl rfl rfl rfl rfl rfl rfl
    | load n =>
      simp only
      have hl := lookup_inv c j0 m n h
      split
      · rename_i heq; rw [heq] at hl; exact hl.congr rfl rfl rfl rfl rfl rfl rfl
      · rename_i heq; rw [heq] at hl; exact wrXErrorPos_inv c j0 _ _ hl
    | branch k n =>
      simp only
      have hl := lookup_inv c j0 m n h
      split
      · rename_i heq; rw [heq] at hl
        cases k <;> simp only <;> split <;>
          first | exact hl.congr rfl rfl rfl rfl rfl rfl rfl | exact wrXErrorPos_inv c j0 _ _ hl
      · rename_i heq; rw [heq] at hl; exact wrXErrorPos_inv c j0 _ _ hl

theorem initPass_inv (c : Cfg) (org : Nat) (m : M) : PInv c m.jmpErrors (initPass org m) := by
  unfold initPass
  refine ⟨by simp [emErr], two_pow_pos _, by simp [emWarn], by simp, by simp [emErr], fun _ => rfl⟩

theorem foldl_inv (c : Cfg) (j0 : Nat) (p : List Stmt) (m : M) (h : PInv c j0 m) : PInv c j0 (p.foldl (step c) m) := by
  induction p generalizing m with
  | nil => exact h
  | cons s p ih => exact ih _ (step_inv c j0 m s h)

/-- the invariant holds at the end of every pass, for every program and every start state -/
theorem runPass_inv (c : Cfg) (org : Nat) (p : List Stmt) (m : M) : PInv c m.jmpErrors (runPass c org p m) :=
  passExit_inv c _ _ (foldl_inv c _ p _ (initPass_inv c org m))

/-- **Totals of a pass = emitted − forgotten.**  In a pass that started with `JmpErrors = 0` and whose
error / warning messages stay below the counter range: `ErrorCount` is the number of error messages
emitted minus the forgotten ones, `WarnCount` the number of warning messages emitted; what was
forgotten are jump messages (1370/1910) only, and without `-Y` nothing is forgotten. -/
theorem C02_chan_pass_counts (c : Cfg) (org : Nat) (p : List Stmt) (m : M) (hj : m.jmpErrors = 0)
    (hfe : emErr (runPass c org p m) < 2 ^ c.width) (hfw : emWarn (runPass c org p m) < 2 ^ c.width) :
    let r := runPass c org p m
    r.errCnt + r.forgotten = emErr r ∧ r.warnCnt = emWarn r ∧
    r.forgotten ≤ r.jmpMsgs ∧ r.jmpMsgs ≤ emErr r ∧ (c.throwY = false → r.forgotten = 0) := by
  intro r
  have h := runPass_inv c org p m
  rw [hj] at h
  have hf : r.forgotten ≤ r.jmpMsgs := by have := h.forg; simp only [r]; omega
  have hjm := h.jmp
  refine ⟨?_, by rw [h.warn, Nat.mod_eq_of_lt hfw], hf, hjm, h.noY⟩
  have he := h.err
  rw [Nat.mod_eq_of_lt hfe] at he
  have hlt := h.errLt
  -- errCnt + forgotten < 2 * 2^w and ≡ emErr < 2^w with forgotten ≤ emErr
  have hle : r.forgotten ≤ emErr r := Nat.le_trans hf hjm
  by_cases hs : r.errCnt + r.forgotten < 2 ^ c.width
  · rw [Nat.mod_eq_of_lt hs] at he; exact he
  · have h2 : r.errCnt + r.forgotten - 2 ^ c.width < 2 ^ c.width := by
      simp only [r] at hlt hle hfe hs ⊢; omega
    have : (r.errCnt + r.forgotten) % 2 ^ c.width = r.errCnt + r.forgotten - 2 ^ c.width := by
      rw [Nat.mod_eq_sub_mod (by omega), Nat.mod_eq_of_lt h2]
    rw [this] at he
    simp only [r] at hlt hle hfe hs he ⊢; omega

/-- **A pass after which the loop goes on** (`ErrorCount = 0`) emitted no error message at all without
`-Y`; with `-Y` every error message it emitted was a jump message that has been forgotten.  It hands
`JmpErrors = 0` to the next pass, so the hypothesis of these theorems propagates through a file. -/
theorem C02_chan_early_pass (c : Cfg) (org : Nat) (p : List Stmt) (m : M) (hj : m.jmpErrors = 0)
    (hfe : emErr (runPass c org p m) < 2 ^ c.width) (h0 : (runPass c org p m).errCnt = 0) :
    let r := runPass c org p m
    emErr r = r.jmpMsgs ∧ emErr r = r.forgotten ∧ (c.throwY = false → emErr r = 0) ∧ r.jmpErrors = 0 := by
  intro r
  have h := runPass_inv c org p m
  rw [hj] at h
  have hf : r.jmpErrors + r.forgotten ≤ r.jmpMsgs := by have := h.forg; simp only [r]; omega
  have hjm : r.jmpMsgs ≤ emErr r := h.jmp
  have he := h.err
  rw [h0, Nat.zero_add, Nat.mod_eq_of_lt hfe] at he
  have hfl : r.forgotten < 2 ^ c.width := by simp only [r] at hf hjm hfe ⊢; omega
  rw [Nat.mod_eq_of_lt hfl] at he
  have hno := h.noY
  simp only [r] at hf hjm he hno ⊢
  refine ⟨by omega, by omega, fun hy => by have := hno hy; omega, by omega⟩

/-- **Code file ⇔ no reported error**: after the last pass the code file is kept exactly when the
errors emitted in that pass were all forgotten (without `-Y`: when none was emitted) and no fatal
stop occurred. -/
theorem C02_chan_codefile_iff (c : Cfg) (org : Nat) (p : List Stmt) (m : M) (ps : List PassOut) (hj : m.jmpErrors = 0)
    (hfe : emErr (runPass c org p m) < 2 ^ c.width) (hfw : emWarn (runPass c org p m) < 2 ^ c.width) :
    let r := runPass c org p m
    (fileOut c r ps).codeFile = true ↔ (emErr r = r.forgotten ∧ r.fatal = false) := by
  intro r
  have h := C02_chan_pass_counts c org p m hj hfe hfw
  simp only [fileOut, Bool.and_eq_true, Bool.not_eq_true', beq_iff_eq]
  have h1 := h.1
  simp only [r] at h1 ⊢
  constructor
  · intro ⟨a, b⟩; exact ⟨by omega, a⟩
  · intro ⟨a, b⟩; exact ⟨b, by omega⟩

/-- the pass loop only appends to the list of recorded passes -/
theorem passLoop_prefix (c : Cfg) (org : Nat) (p : List Stmt) (fuel : Nat) :
    ∀ (m : M) (acc : List PassOut) (r : M) (ps : List PassOut),
      passLoop c org p fuel m acc = some (r, ps) → ∃ t, ps = acc ++ [passOut (runPass c org p m)] ++ t := by
  induction fuel with
  | zero => intro m acc r ps h; simp [passLoop] at h
  | succ fuel ih =>
    intro m acc r ps h
    simp only [passLoop] at h
    split at h
    · simp only [Option.some.injEq, Prod.mk.injEq] at h; exact ⟨[], by simp [h.2]⟩
    · split at h
      · obtain ⟨t, ht⟩ := ih _ _ _ _ h
        exact ⟨[passOut (runPass c org p (runPass c org p m))] ++ t, by rw [ht]; simp⟩
      · simp only [Option.some.injEq, Prod.mk.injEq] at h; exact ⟨[], by simp [h.2]⟩

/-- every recorded pass keeps its error messages below the counter range -/
def FitsOut (c : Cfg) (ps : List PassOut) : Prop := ∀ q ∈ ps, q.con.err + q.chan.err < 2 ^ c.width

/-- what a pass that was followed by another pass may have emitted -/
def EarlyOk (c : Cfg) (q : PassOut) : Prop :=
  q.con.err + q.chan.err = q.jmpMsgs ∧ q.con.err + q.chan.err = q.forgotten ∧
  (c.throwY = false → q.con.err + q.chan.err = 0)

/-- **The whole pass loop of a source file** that starts with `JmpErrors = 0` (the first file of a
run, or any file behind files that left no counted jump error): whenever the loop ends, every pass
before the last emitted no error message without `-Y` and only forgotten jump messages with `-Y`, and
the last pass again started with `JmpErrors = 0` – so `C02_chan_pass_counts` / `C02_chan_codefile_iff`
apply to it: summary totals = emitted − forgotten, code file ⇔ nothing reported. -/
theorem C02_chan_loop (c : Cfg) (org : Nat) (p : List Stmt) (fuel : Nat) :
    ∀ (m : M) (acc : List PassOut) (r : M) (ps : List PassOut), m.jmpErrors = 0 →
      passLoop c org p fuel m acc = some (r, ps) → FitsOut c ps →
      ∃ (early : List PassOut) (m' : M), ps = acc ++ early ++ [passOut r] ∧ (∀ q ∈ early, EarlyOk c q) ∧
        r = runPass c org p m' ∧ m'.jmpErrors = 0 := by
  induction fuel with
  | zero => intro m acc r ps _ h; simp [passLoop] at h
  | succ fuel ih =>
    intro m acc r ps hj h hfit
    have hpre := passLoop_prefix c org p (fuel + 1) m acc r ps h
    simp only [passLoop] at h
    split at h
    · simp only [Option.some.injEq, Prod.mk.injEq] at h
      exact ⟨[], m, by simp [← h.1, ← h.2], by simp, h.1.symm, hj⟩
    · split at h
      · rename_i hcont
        simp only [Bool.and_eq_true, beq_iff_eq] at hcont
        obtain ⟨t, ht⟩ := hpre
        have hfe : emErr (runPass c org p m) < 2 ^ c.width := by
          have := hfit (passOut (runPass c org p m)) (by rw [ht]; simp)
          simpa [passOut, emErr] using this
        have hearly := C02_chan_early_pass c org p m hj hfe hcont.1
        obtain ⟨early, m', h1, h2, h3, h4⟩ := ih _ _ _ _ hearly.2.2.2 h hfit
        refine ⟨passOut (runPass c org p m) :: early, m', by rw [h1]; simp, ?_, h3, h4⟩
        intro q hq
        simp only [List.mem_cons] at hq
        rcases hq with rfl | hq
        · exact ⟨hearly.1, hearly.2.1, hearly.2.2.1⟩
        · exact h2 q hq
      · simp only [Option.some.injEq, Prod.mk.injEq] at h
        exact ⟨[], m, by simp [← h.1, ← h.2], by simp, h.1.symm, hj⟩

/-- the finding's two sources: (1) a backward branch over 160 bytes, (2) two zero-page loads of a
symbol defined behind them and a label that therefore moves in pass 2 -/
def staleFiles : List (Nat × List Stmt) :=
  [(4096, [.label 3, .fill 160, .branch .rel8 3]),
   (4096, [.load 2, .load 2, .label 1, .fill 1, .equ 2 32])]

/-- **Finding** (`JmpErrors` is never reset): under `-Y` the second source emits no message in any of
its two passes, yet it ends with `2^width − 1` errors, loses its code file; the same second source
alone assembles cleanly. -/
theorem C02_finding_stale_jmperrors :
    let c : Cfg := { throwY := true, width := 32, carryJmp := true }
    (invoke c 30 staleFiles).map (fun r => r.1.map fun o => (o.codeFile, o.sumErr, o.passes.map fun p => p.con.err + p.chan.err)) =
      some [(false, 1, [1]), (false, 2 ^ 32 - 1, [0, 0])] ∧
    (invoke c 30 staleFiles.tail).map (fun r => (r.2, r.1.map fun o => (o.codeFile, o.sumErr))) = some (0, [(true, 0)]) := by
  decide

/-! Non-vacuity: concrete programs that satisfy the hypotheses, with non-trivial outcomes -/

/-- the transient branch error of the manual's section on forward references (43 loads: 129 bytes in
pass 1, 86 later) -/
def transient : List Stmt :=
  [.fill 2, .branch .rel8 1] ++ List.replicate 43 (.load 2) ++ [.label 1, .fill 1, .equ 2 32]

example : (invoke { width := 32 } 30 [(4096, transient)]).map (fun r => (r.2, r.1.map fun o => (o.codeFile, o.sumErr, o.passes.length))) =
    some (2, [(false, 1, 2)]) := by decide +kernel
example : (invoke { width := 32, throwY := true } 30 [(4096, transient)]).map (fun r => (r.2, r.1.map fun o => (o.codeFile, o.sumErr, o.passes.map (·.forgotten)))) =
    some (0, [(true, 0, [0, 1, 0, 0])]) := by decide +kernel
example : FitsOut { width := 32, throwY := true } [⟨{}, ⟨1, 0⟩, 1, 1, 0⟩, ⟨{}, {}, 0, 0, 0⟩] := by
  intro q hq; simp only [List.mem_cons, List.mem_nil_iff, or_false] at hq; rcases hq with rfl | rfl <;> decide
example : emErr (runPass { width := 32, listMode := .console } 0 [.listing 0, .diag .error, .listing 1, .diag .uwarning] {}) = 1 ∧
    (runPass { width := 32, listMode := .console } 0 [.listing 0, .diag .error, .listing 1, .diag .uwarning] {}).chan.err = 1 ∧
    (runPass { width := 32, listMode := .console } 0 [.listing 0, .diag .error, .listing 1, .diag .uwarning] {}).con.warn = 1 := by decide +kernel
example : (runPass { width := 32, throwY := true } 4096 transient (runPass { width := 32, throwY := true } 4096 transient {})).errCnt = 0 ∧
    (runPass { width := 32, throwY := true } 4096 transient (runPass { width := 32, throwY := true } 4096 transient {})).forgotten = 1 := by decide +kernel

/-- a backward branch over 210 bytes announced by `EXPECT 1370`, then a load that shrinks in pass 2 and a label that
therefore moves: the announced error is swallowed in each of the three passes (`filtered = 1`), nothing is emitted,
nothing is forgotten under `-Y`, the file ends with 0 errors and keeps its code file -/
def expectedBackward : List Stmt :=
  [.label 1, .fill 210, .expect [1370], .branch .rel8 1, .endexpect, .load 2, .label 3, .fill 1, .equ 2 16]

example : (invoke { width := 32, throwY := true } 30 [(32768, expectedBackward)]).map
    (fun r => (r.2, r.1.map fun o => (o.codeFile, o.sumErr, o.passes.map fun p => p.con.err + p.chan.err + p.forgotten))) =
    some (0, [(true, 0, [0, 0, 0])]) := by decide +kernel
example : (invoke { width := 32, throwY := true } 30 [(32768, expectedBackward)]).map
    (fun r => r.1.map fun o => o.passes.map (·.filtered)) = some [[1, 1, 1]] := by decide +kernel
/-- the hypothesis of `C02_chan_filtered_frame` at the branch of that program, and of `C02_chan_unfiltered_counted`
without the announcement -/
example : isFiltered { width := 32, throwY := true } { expects := [1370], inExpect := true } 1370 = true := by decide
example : isFiltered { suppWarns := true } {} 290 = true ∧ isFiltered { suppWarns := true } {} 1370 = false ∧
    isFiltered {} { expects := [1910, 290] } 1370 = false := by decide
/-- an expectation that is not met costs one error 2130 per waiting number; `EXPECT` comes before `-w`: an announced
warning is taken off the list even when `-w` would have dropped it anyway -/
example : (runPass { width := 32 } 0 [.expect [1370, 290], .num 290, .endexpect] {}).errCnt = 1 ∧
    (runPass { width := 32, suppWarns := true } 0 [.expect [290], .num 290, .endexpect, .num 290] {}).errCnt = 0 ∧
    (runPass { width := 32, suppWarns := true } 0 [.expect [290], .num 290, .endexpect, .num 290] {}).filtered = 2 ∧
    (runPass { width := 32 } 0 [.expect [1200], .num 1200] {}).errCnt = 1 ∧
    (runPass { width := 32 } 0 [.endexpect, .expect [5], .expect [6], .num 5, .endexpect] {}).errCnt = 2 := by decide +kernel

end AslModel.C02Chan
