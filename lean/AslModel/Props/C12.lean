import AslModel.Lemmas.Cond
import AslModel.Model.CondKw
/-!
# C12 — conditional assembly selects exactly the documented branch

Property theorems only (helper lemmas live in `Lemmas/Cond.lean`).

Model: `Model/Cond.lean` (`step`/`run`/`endPass` = `CodeIFs` of `asmif.c` + dispatch of `as.c Produce_Code`
+ balance check of `AssembleFile_ExitPass`; `runL`/`passL` = the line loop of `ProcessFile` that an executed END ends), parameterised by `Cfg` (how far `CodeIFB` advances its argument
index per iteration; whether a lone ELSECASE dereferences NULL; whether ENDCASE warns for a skipped SWITCH).
Spec: `Spec/Cond.lean` (`sel`/`selB` = the leaves of the first true branch else default, `warnB`, `WellNested`;
`codeOf`/`definedBy`/`usedBy` = code, defined symbols, referenced symbols of a list of assembled leaves), written
from `doc/pseudo-instructions.md`.  A leaf is an ordinary line; it may carry a label in front of an instruction, a
pseudo-op, a macro call (with / without INTLABEL) or a structure instantiation, be an EQU/SET, or reference a symbol
(`LeafKind`); the model transcribes `Produce_Code`'s label condition `IfAsm && (!IsMacro || !LocIntLabel)`.

All statements quantify over *every* skeleton (any nesting depth, any number of branches, any mixture of the
IF family and SWITCH, any CASE value lists) resp. over *every* statement list.
-/
namespace AslModel.C12
open AslModel.Cond

/-- **Exactly the documented branch.**  For every skeleton whose IFB/IFNB lines the model judges as the manual
says (`faithfulB`; see `C12_select_all_args` and `C12_finding_ifb_second_argument`), a whole pass over its source
lines assembles exactly the leaves `selB` selects, in order; the IF stack is empty again, assembly is switched
on, nothing crashed, and nothing but "no CASE hit" warnings was reported (in particular no "missing ENDIF"). -/
theorem C12_select (cfg : Cfg) (b : Block) (hf : faithfulB cfg b = true) :
    let m := endPass (run cfg init (flatB b))
    m.codes = codeOf (selB b) ∧ m.stack = [] ∧ m.ifAsm = true ∧ m.crashed = false ∧ hardErrs m = [] := by
  obtain ⟨hend, hout, hst, hif, hcr, herr⟩ := select_out (cfg := cfg) b hf
  simp only [hend]
  exact ⟨by rw [M.codes, hout, evs_code], hst, hif, hcr, hard_of_warned herr⟩

/-- **Only the labels of selected branches exist.**  After a whole pass over any (faithful) skeleton whose leaves
carry labels in front of instructions, pseudo-ops, macro calls (with and without INTLABEL) and structure
instantiations, EQU/SET definitions and symbol references, the symbols entered into the symbol table are exactly
those the *selected* leaves define (`definedBy (selB b)` = union over the selected leaves of `Leaf.defines`), in
order, and the symbols marked as referenced are exactly those the selected leaves reference. -/
theorem C12_symbols (cfg : Cfg) (b : Block) (hf : faithfulB cfg b = true) :
    let m := endPass (run cfg init (flatB b))
    m.defs = definedBy (selB b) ∧ m.uses = usedBy (selB b) := by
  obtain ⟨hend, hout, -⟩ := select_out (cfg := cfg) b hf
  simp only [hend]
  exact ⟨by rw [M.defs, hout, evs_define], by rw [M.uses, hout, evs_use]⟩

/-- **A line that is not assembled has no effect at all - also a preprocessor line.**  After a whole pass over any
(faithful) skeleton whose leaves may be `#define` / `#undef` lines, the text replacements established / removed are
exactly those of the *selected* such leaves, in order (`effectsOf (selB b)`): a `#` line standing in a branch that is
not selected - at any depth, in any kind of construct - does nothing. -/
theorem C12_effects (cfg : Cfg) (b : Block) (hf : faithfulB cfg b = true) :
    (endPass (run cfg init (flatB b))).effs = effectsOf (selB b) := by
  obtain ⟨hend, hout, -⟩ := select_out (cfg := cfg) b hf
  simp only [hend]
  rw [M.effs, hout, evs_effect]

/-- … and a part that is not assembled leaves the text replacements as they are, whatever `#` lines it holds. -/
theorem C12_skipped_effects_nothing (cfg : Cfg) (b : Block) (m : M) (hc : m.crashed = false)
    (hoff : m.ifAsm = false) : (run cfg m (flatB b)).effs = m.effs := by
  have h : (run cfg m (flatB b)).out = m.out := by
    have h := flatB_ok (cfg := cfg) b m hc
    rw [h.out]; simp [hoff]
  simp only [M.effs, h]

/-- … as a statement about sets: a symbol is defined after the pass iff some selected leaf defines it. -/
theorem C12_defined_iff (cfg : Cfg) (b : Block) (hf : faithfulB cfg b = true) (s : Nat) :
    s ∈ (endPass (run cfg init (flatB b))).defs ↔ ∃ l ∈ selB b, s ∈ l.defines := by
  rw [(C12_symbols cfg b hf).1]
  simp [definedBy, List.mem_flatMap]

/-- With a `CodeIFB` that looks at every argument (`ifbStride = 1`, the repaired code) the selection theorem
holds for all skeletons without any side condition. -/
theorem C12_select_all_args (cfg : Cfg) (h1 : cfg.ifbStride = 1) (b : Block) :
    let m := endPass (run cfg init (flatB b))
    m.codes = codeOf (selB b) ∧ m.stack = [] ∧ m.ifAsm = true ∧ m.crashed = false ∧ hardErrs m = [] :=
  C12_select cfg b (faithfulB_stride1 cfg h1 b)

/-- Skeletons without IFB/IFNB are faithful for every configuration: the hypothesis of `C12_select` only ever
excludes IFB/IFNB lines. -/
theorem C12_faithful_without_ifb (cfg : Cfg) (c : Cond) (h : ∀ neg nb, c ≠ .blank neg nb) :
    evalCond cfg c = c.holds := by
  cases c with
  | expr c => rfl
  | sym t neg raw => rfl
  | blank neg nb => exact absurd rfl (h neg nb)

/-- **Other branches are inert.**  Whatever well-nested text stands in a part that is not assembled (`IfAsm`
false) — any skeleton, faithful or not, of any depth, whatever labels its lines carry — it leaves no event (no
code byte, no symbol definition, no reference: `out` is the event list), leaves the IF stack and `IfAsm` as they
were, cannot crash, and reports no error. -/
theorem C12_other_branches_inert (cfg : Cfg) (b : Block) (m : M) (hc : m.crashed = false)
    (hoff : m.ifAsm = false) :
    let m' := run cfg m (flatB b)
    m'.out = m.out ∧ m'.stack = m.stack ∧ m'.ifAsm = false ∧ m'.crashed = false ∧
      Warned m.errs m'.errs := by
  have h := flatB_ok (cfg := cfg) b m hc
  refine ⟨by rw [h.out]; simp [hoff], h.stack, by rw [h.ifAsm, hoff], h.crashed, h.errs⟩

/-- In particular a part that is not assembled defines no symbol, whatever stands in the label fields of its lines. -/
theorem C12_skipped_defines_nothing (cfg : Cfg) (b : Block) (m : M) (hc : m.crashed = false)
    (hoff : m.ifAsm = false) :
    (run cfg m (flatB b)).defs = m.defs ∧ (run cfg m (flatB b)).uses = m.uses ∧ (run cfg m (flatB b)).codes = m.codes := by
  have h := (C12_other_branches_inert cfg b m hc hoff).1
  simp only [M.defs, M.uses, M.codes, h, and_self]

/-- … and, as a consequence, the text of the branches that are not selected does not influence what a live
ladder assembles: replacing them by anything else gives the same code (`sel` does not look at them). -/
theorem C12_unselected_irrelevant (cfg : Cfg) (c : Bool) (b b' : Block) (e : Elifs)
    (hb : faithfulB cfg b = true) (hb' : faithfulB cfg b' = true) (he : faithfulE cfg e = true) (hc : c = false) :
    (endPass (run cfg init (flat (.ladder (.expr c) b e)))).out =
    (endPass (run cfg init (flat (.ladder (.expr c) b' e)))).out := by
  have h1 := select_out (cfg := cfg) (.cons (.ladder (.expr c) b e) .nil) (by simp [faithfulB, faithful, evalCond, Cond.holds, hb, he])
  have h2 := select_out (cfg := cfg) (.cons (.ladder (.expr c) b' e) .nil) (by simp [faithfulB, faithful, evalCond, Cond.holds, hb', he])
  simp only [flatB, List.append_nil] at h1 h2
  rw [h1.1, h2.1]
  have e1 := h1.2.1
  have e2 := h2.2.1
  subst hc
  simp only [selB, sel, Cond.holds, List.append_nil] at e1 e2
  have := e1.trans e2.symm
  simpa using this

/-- **Unbalanced or misplaced conditional statements are reported.**  For *every* statement list that is not
well nested (stray ELSE/ELSEIF/ENDIF/CASE/ELSECASE/ENDCASE, ELSEIF after ELSE, CASE after ELSECASE, ENDIF closing
a SWITCH, malformed argument lists of these statements, constructs left open …) the finished pass has reported
an error (number ≥ 1000, which makes `asl` exit with status 2 and delete the code file) — or the assembler has
died (`crashed`), which with the pinned `CodeELSECASE` is what happens; see `C12_unbalanced_reported`. -/
theorem C12_unbalanced (cfg : Cfg) (ss : List Stmt) (h : ¬ WellNested ss) :
    Bad (endPass (run cfg init ss)) := by
  have hl := run_lock (cfg := cfg) ss init [] ⟨rfl, rfl⟩
  cases hw : wnRun [] ss with
  | none => rw [hw] at hl; exact bad_endPass _ hl
  | some st' =>
    rw [hw] at hl
    have hne : st' ≠ [] := by
      intro h0; apply h; unfold WellNested; rw [hw, h0]
    have hs : (run cfg init ss).stack ≠ [] := fun h0 => hne ((agree_stack_nil hl.1).1 h0)
    have hc := hl.1.1
    unfold endPass
    rw [if_neg (by simp [hc])]
    cases hst : (run cfg init ss).stack with
    | nil => exact absurd hst hs
    | cons f r => exact Or.inr ⟨errMissEndif, by simp [M.err], by decide⟩

/-- With a `CodeELSECASE` that checks for the empty stack (the repaired code, `elsecaseNullCrash = false`) the
assembler never dies on any statement list, so every ill-nested list ends with a reported error. -/
theorem C12_unbalanced_reported (cfg : Cfg) (hfix : cfg.elsecaseNullCrash = false) (ss : List Stmt)
    (h : ¬ WellNested ss) : ∃ e ∈ (endPass (run cfg init ss)).errs, e ≥ 1000 := by
  have never : ∀ (ss : List Stmt) (m : M), m.crashed = false → (run cfg m ss).crashed = false := by
    intro ss
    induction ss with
    | nil => intro m hm; exact hm
    | cons s ss ih =>
      intro m hm
      rw [run_cons]
      apply ih
      unfold step
      rw [if_neg (by simp [hm])]
      cases s <;> simp only [labelPart, codeIF, codeELSEIF, codeENDIF, codeSWITCH, codeCASE, codeELSECASE, codeENDCASE, pushIF, M.err, hfix] <;>
        (repeat' split) <;> simp_all
  rcases C12_unbalanced cfg ss h with hb | hb
  · have hc := never ss init rfl
    unfold endPass at hb
    split at hb
    · simp_all
    · split at hb <;> simp_all [M.err]
  · exact hb

/-- **Conversely, well-nested programs are accepted silently**: a well-nested statement list whose IF-family and
SWITCH lines carry a well-formed argument list ends with an empty stack, no crash, and nothing but
"no CASE hit" warnings — so an error of the conditional-assembly layer is reported *iff* the list is ill nested. -/
theorem C12_balanced_clean (cfg : Cfg) (ss : List Stmt) (h : WellNested ss) (ha : ∀ s ∈ ss, s.argsOK = true) :
    let m := endPass (run cfg init ss)
    m.crashed = false ∧ m.stack = [] ∧ hardErrs m = [] := by
  have hl := run_lock (cfg := cfg) ss init [] ⟨rfl, rfl⟩
  unfold WellNested at h
  rw [h] at hl
  have hst : (run cfg init ss).stack = [] := (agree_stack_nil hl.1).2 rfl
  have hend : endPass (run cfg init ss) = run cfg init ss := by simp [endPass, hl.1.1, hst]
  simp only [hend]
  exact ⟨hl.1.1, hst, hard_of_warned (hl.2 ha)⟩

/-- The recogniser is not too strict: the source text of *every* skeleton is well nested and its IF-family and
SWITCH lines carry well-formed argument lists, so `C12_balanced_clean` covers all skeletons (also those with
IFB lines the pinned tree misjudges), and `C12_unbalanced` never fires on a skeleton. -/
theorem C12_skeletons_wellnested (b : Block) :
    WellNested (flatB b) ∧ ∀ t ∈ flatB b, t.argsOK = true :=
  ⟨wn_flatB b [], argsOK_flatB b⟩

/-! ## the ways a pass can end: end of the text, END -/

/-- **The pass reads the text up to the first END in an assembled part.**  Whatever the lines are (any number of END
lines, anywhere), the pass is the plain run over a prefix of the statements (`readL`), followed by the balance check. -/
theorem C12_end_reads_prefix (cfg : Cfg) (ls : List Line) :
    passL cfg ls = endPass (run cfg init (readL cfg init ls)) ∧ readL cfg init ls <+: stmtsOf ls :=
  ⟨by rw [passL, runL_eq_run], readL_prefix init ls⟩

/-- **An END in an assembled part ends the pass there** – the result is that of the text cut in front of the END,
whatever follows (`rest`: also the ENDIF/ENDCASE lines that would have closed what is open); **an END in a part that
is not assembled is no END** – the result is that of the text without this line. -/
theorem C12_end_stops_or_is_skipped (cfg : Cfg) (pre : List Stmt) (rest : List Line) :
    ((run cfg init pre).ifAsm = true →
      passL cfg (pre.map Line.stmt ++ Line.endl :: rest) = passL cfg (pre.map Line.stmt)) ∧
    ((run cfg init pre).ifAsm = false →
      passL cfg (pre.map Line.stmt ++ Line.endl :: rest) = passL cfg (pre.map Line.stmt ++ rest)) := by
  constructor
  · intro h
    have e : pre.map Line.stmt = pre.map Line.stmt ++ [] := by simp
    rw [passL, passL, runL_stmts, e, runL_stmts]
    simp [runL, h]
  · intro h
    rw [passL, passL, runL_stmts, runL_stmts]
    simp [runL, h]

/-- **Whether the END is in an assembled part is what the manual says** (`AssembledAt`, defined through the documented
selection `selB` alone): for the beginning `pre` of any skeleton's text – any depth, IF family and SWITCH mixed, the
point in any branch – the machine is assembling at the point iff an ordinary line put there would be selected.
(`b0`, `b1`: `pre` closed right at the point, without / with the probe line; faithful as in `C12_select`.) -/
theorem C12_end_live_iff (cfg : Cfg) (pre : List Stmt) (st : List Open) (b0 b1 : Block) (hw : wnRun [] pre = some st)
    (h0 : flatB b0 = pre ++ closers st) (h1 : flatB b1 = pre ++ .leaf probeLeaf :: closers st)
    (hf0 : faithfulB cfg b0 = true) (hf1 : faithfulB cfg b1 = true) :
    (run cfg init pre).ifAsm = decide ((codeOf (selB b1)).length = (codeOf (selB b0)).length + 1) :=
  live_at pre st b0 b1 hw h0 h1 hf0 hf1

/-- … with a `CodeIFB` that looks at every argument, for every point of every skeleton text, as a statement about the
SPEC predicate. -/
theorem C12_end_live_iff_all_args (cfg : Cfg) (hs : cfg.ifbStride = 1) (pre : List Stmt) (live : Bool)
    (h : AssembledAt pre live) : (run cfg init pre).ifAsm = live := by
  obtain ⟨st, b0, b1, hw, h0, h1, hl⟩ := h
  rw [hl]
  exact live_at pre st b0 b1 hw h0 h1 (faithfulB_stride1 cfg hs b0) (faithfulB_stride1 cfg hs b1)

/-- **Constructs left open at the end of the pass are rejected, whatever ended the pass.**  For every text `pre` that
leaves a construct open (`OpenAtEnd`: the beginning of a skeleton's text cut inside an IF ladder or a SWITCH, at any
depth): if the text simply ends there, "missing ENDIF/ENDCASE" is reported; and if an END is executed there – written
in the open branch or issued by a macro / REPT body called there – the same error is reported, whatever lines follow
the END.  (An END in a part that is not assembled is skipped: `C12_end_stops_or_is_skipped`; what then decides is the
text without it.)  The assembler does not die, and the error makes `asl` exit with status 2 (`hardErrs ≠ []`). -/
theorem C12_open_at_end_rejected (cfg : Cfg) (pre : List Stmt) (h : OpenAtEnd pre) :
    (errMissEndif ∈ (passL cfg (pre.map Line.stmt)).errs ∧ (passL cfg (pre.map Line.stmt)).crashed = false ∧
      hardErrs (passL cfg (pre.map Line.stmt)) ≠ []) ∧
    ∀ rest, (run cfg init pre).ifAsm = true →
      errMissEndif ∈ (passL cfg (pre.map Line.stmt ++ Line.endl :: rest)).errs ∧
      (passL cfg (pre.map Line.stmt ++ Line.endl :: rest)).crashed = false ∧
      hardErrs (passL cfg (pre.map Line.stmt ++ Line.endl :: rest)) ≠ [] := by
  obtain ⟨o, st, hw⟩ := h
  have hl := run_lock (cfg := cfg) pre init [] ⟨rfl, rfl⟩
  rw [hw] at hl
  have hc : (run cfg init pre).crashed = false := hl.1.1
  have hs : (run cfg init pre).stack ≠ [] := fun h0 => by
    have := (agree_stack_nil hl.1).1 h0
    cases this
  have key : errMissEndif ∈ (passL cfg (pre.map Line.stmt)).errs ∧ (passL cfg (pre.map Line.stmt)).crashed = false ∧
      hardErrs (passL cfg (pre.map Line.stmt)) ≠ [] := by
    have e : pre.map Line.stmt = pre.map Line.stmt ++ [] := by simp
    rw [passL, e, runL_stmts]
    simp only [runL]
    unfold endPass
    rw [if_neg (by simp [hc])]
    cases hst : (run cfg init pre).stack with
    | nil => exact absurd hst hs
    | cons f r =>
      refine ⟨by simp [M.err], by simpa [M.err] using hc, ?_⟩
      intro h0
      have : errMissEndif ∈ hardErrs ((run cfg init pre).err errMissEndif) := by
        simp [hardErrs, M.err, errMissEndif]
      rw [h0] at this
      cases this
  refine ⟨key, fun rest hlive => ?_⟩
  rw [(C12_end_stops_or_is_skipped cfg pre rest).1 hlive]
  exact key

/-- The texts `C12_open_at_end_rejected` speaks about include every skeleton's text cut at any point: the cut text is
either well nested (the cut fell between two top-level items) or leaves a construct open – never a statement in an
illegal position. -/
theorem C12_skeleton_cut (b : Block) (n : Nat) :
    WellNested ((flatB b).take n) ∨ OpenAtEnd ((flatB b).take n) := by
  have h := wn_flatB b []
  rw [← List.take_append_drop n (flatB b), wnRun_append] at h
  cases hw : wnRun [] ((flatB b).take n) with
  | none => rw [hw] at h; cases h
  | some st =>
    cases st with
    | nil => exact Or.inl hw
    | cons o st => exact Or.inr ⟨o, st, hw⟩

/-- In general: for *every* text with END lines, if what the pass reads is not well nested the pass is rejected
(an error ≥ 1000 or, with the pinned `CodeELSECASE`, the assembler dies) – `C12_unbalanced` for passes ended by END. -/
theorem C12_unbalanced_lines (cfg : Cfg) (ls : List Line) (h : ¬ WellNested (readL cfg init ls)) :
    Bad (passL cfg ls) := by
  rw [(C12_end_reads_prefix cfg ls).1]
  exact C12_unbalanced cfg _ h

/-- an unlabelled leaf `db n` -/
abbrev pl (n : Nat) : Skel := .leaf { marker := n }

/-! ## defects of the pinned tree, as proved statements about the model with the pinned configuration -/

/-- `CodeIFB` with two increments per iteration judges `IFB ,x` blank: the documented selection is `[2]`, the
machine assembles `[1, 2]`.  (Known finding `ifb-every-second-argument-skipped`.) -/
theorem C12_finding_ifb_second_argument :
    let b : Block := .cons (.ladder (.blank false [false, true]) (.cons (pl 1) .nil) .done) (.cons (pl 2) .nil)
    faithfulB { ifbStride := 2 } b = false ∧ codeOf (selB b) = [2] ∧
      (endPass (run { ifbStride := 2 } init (flatB b))).codes = [1, 2] ∧
      (endPass (run { ifbStride := 1 } init (flatB b))).codes = [2] := by decide

/-- A SWITCH without CASE/ELSECASE inside a branch that is not assembled still reports warning 100, although
the documented number of warnings (`warnB`) is 0.  (Known finding `dead-armless-switch-warns`.) -/
theorem C12_finding_dead_armless_switch_warns :
    let b : Block := .cons (.ladder (.expr false) (.cons (.switch (.int 1) .nil .done) .nil) .done) .nil
    warnB b = 0 ∧ (endPass (run {} init (flatB b))).errs = [errNoCaseHit] ∧
      (endPass (run { deadSwitchWarns := false } init (flatB b))).errs = [] := by decide

/-- A lone ELSECASE: with the pinned `CodeELSECASE` the assembler dies, with the NULL check it reports
"ELSEIF/ENDIF without IF".  (Known finding `lone-elsecase-segv`.) -/
theorem C12_finding_lone_elsecase :
    (endPass (run { elsecaseNullCrash := true } init [.elsecase 0])).crashed = true ∧
    (endPass (run { elsecaseNullCrash := false } init [.elsecase 0])).errs = [errMissingIf] := by decide

/-! ## non-vacuity -/

example : faithfulB {} (.cons (.ladder (.blank false [false, false, true]) (.cons (pl 1) .nil) .done) .nil) = true := by decide

example : (endPass (run {} init (flatB (.cons (.ladder (.expr false) (.cons (pl 1) .nil)
    (.elif true (.cons (.switch (.int 3) (.cons (pl 2) .nil)
        (.case (.int 1) [.int 2] (.cons (pl 3) .nil)
          (.case (.int 3) [.int 4] (.cons (pl 4) .nil)
            (.case (.int 3) [] (.cons (pl 5) .nil) (.elsecase (.cons (pl 6) .nil)))))) .nil)
      (.els (.cons (pl 7) .nil)))) (.cons (pl 8) .nil))))).codes = [2, 4, 8] := by decide

/-- labels: the same label in front of a macro call in the IF and in the ELSE branch (only the selected one
defines it), a label in a CASE branch that is not selected, an INTLABEL macro (no symbol), a structure
instantiation (label and element symbol), an EQU inside IFNDEF-style text -/
example :
    let b : Block :=
      .cons (.ladder (.expr false) (.cons (.leaf ⟨1, .macro, 7⟩) .nil) (.els (.cons (.leaf ⟨2, .macro, 7⟩) .nil)))
      (.cons (.switch (.int 2) .nil (.case (.int 1) [] (.cons (.leaf ⟨3, .instr, 8⟩) .nil)
          (.case (.int 2) [] (.cons (.leaf ⟨4, .macroInt, 9⟩) (.cons (.leaf ⟨5, .struct, 10⟩) .nil)) .done)))
      (.cons (.ladder (.sym .defined true false) (.cons (.leaf ⟨6, .equ, 11⟩) .nil) .done) .nil))
    (endPass (run {} init (flatB b))).defs = [7, 10, 510, 11] ∧ (endPass (run {} init (flatB b))).codes = [2, 4] ∧
      definedBy (selB b) = [7, 10, 510, 11] := by decide

/-- open at the end: `IF 1 / db 1 / END` (END in the selected branch), `IFNDEF x / SWITCH 2 / CASE 2 / db 1 / END /
ENDCASE / ENDIF` (END followed by the closing lines), `IF 0 / db 1 / ELSE / <macro issuing END>` -/
example : OpenAtEnd [.iff 1 (.expr true), .leaf { marker := 1 }] := by decide
example : (run {} init [.iff 1 (.expr true), .leaf { marker := 1 }]).ifAsm = true := by decide
example : (passL {} [.stmt (.iff 1 (.sym .defined true false)), .stmt (.switch 1 (.int 2)), .stmt (.case [.int 2]),
    .stmt (.leaf { marker := 1 }), .endl, .stmt (.endcase 0), .stmt (.endif 0)]).errs = [errMissEndif] := by decide
example : (passL {} [.stmt (.iff 1 (.expr false)), .stmt (.leaf { marker := 1 }), .stmt (.elseif 0 false), .endl]).errs
    = [errMissEndif] := by decide
/-- an END in a skipped branch is no END: the program is well formed and the leaf behind it is assembled -/
example : (passL {} [.stmt (.iff 1 (.expr false)), .endl, .stmt (.endif 0), .stmt (.leaf { marker := 7 })]).errs = [] ∧
    (passL {} [.stmt (.iff 1 (.expr false)), .endl, .stmt (.endif 0), .stmt (.leaf { marker := 7 })]).codes = [7] := by decide
/-- `AssembledAt`: the point behind `IF 0 / ELSE` is assembled, the point behind `IF 0` is not -/
example : AssembledAt [.iff 1 (.expr false), .elseif 0 false] true :=
  ⟨[.ifElse], .cons (.ladder (.expr false) .nil (.els .nil)) .nil,
    .cons (.ladder (.expr false) .nil (.els (.cons (.leaf probeLeaf) .nil))) .nil, by decide, by decide, by decide, by decide⟩
example : AssembledAt [.iff 1 (.expr false)] false :=
  ⟨[.ifThen], .cons (.ladder (.expr false) .nil .done) .nil,
    .cons (.ladder (.expr false) (.cons (.leaf probeLeaf) .nil) .done) .nil, by decide, by decide, by decide, by decide⟩

example : ¬ WellNested [.iff 1 (.expr true), .elseif 0 false, .elseif 1 true, .endif 0] := by decide
example : ¬ WellNested [.switch 1 (.int 1), .elsecase 0, .case [.int 1], .endcase 0] := by decide
example : ¬ WellNested [.iff 1 (.expr true)] := by decide
example : WellNested [.iff 1 (.expr false), .switch 1 (.int 1), .leaf { marker := 1 }, .case [.int 1], .elsecase 0, .endcase 0,
    .elseif 1 true, .elseif 0 false, .endif 0] := by decide

/-- non-vacuity of `C12_effects`: `#undef 3` in a skipped `IF 0`, `#define 4` in the live `ELSE`, `#undef 5` in a
CASE that does not match, `#undef 6` in an active IF nested in a skipped one -/
example :
    let b : Block := .cons (.ladder (.expr false) (.cons (.leaf { marker := 1, kind := .ppUndef, sym := 3 })
        (.cons (.ladder (.expr true) (.cons (.leaf { marker := 5, kind := .ppUndef, sym := 6 }) .nil) .done) .nil))
        (.els (.cons (.leaf { marker := 2, kind := .ppDefine, sym := 4 }) .nil)))
      (.cons (.switch (.int 5) .nil (.case (.int 4) [] (.cons (.leaf { marker := 3, kind := .ppUndef, sym := 5 }) .nil)
        (.elsecase (.cons (.leaf { marker := 4 }) .nil)))) .nil)
    faithfulB {} b = true ∧ (endPass (run {} init (flatB b))).effs = [4] ∧ effectsOf (selB b) = [4] ∧
      (endPass (run {} init (flatB b))).codes = [4] := by decide

/-! ## the keyword of the SWITCH construct and the history of target changes (`Model/CondKw.lean`) -/

/-- **Every 'keyword is occupied' variable is reset on every change of the target** (generated obligation: the list of
`*IsOccupied*` variables of `asmdef.h` against the assignments of `asmallg.c SetCPUCore`, both from the current sources):
what an earlier target occupied does not outlive the target. -/
theorem C12_occupied_flags_reset : ∀ f ∈ Generated.occupiedFlags, f ∈ Generated.setCpuCoreResets := by decide

/-- **Which keyword opens the construct depends on the current target only, not on the history**: after any sequence of
target changes (CPU statements, passes, source files of one invocation - each goes through `SetCPUCore`), starting
from any state, `SWITCH` opens the construct iff the target selected last does not occupy it, `SELECT` iff it does. -/
theorem C12_switch_keyword_by_current_target (s : CondKw.St) (hist : List CondKw.Target) (t : CondKw.Target) :
    CondKw.opens (CondKw.history CondKw.resetsSwitch s (hist ++ [t])) .switch = !t.occupiesSwitch ∧
    CondKw.opens (CondKw.history CondKw.resetsSwitch s (hist ++ [t])) .select = t.occupiesSwitch := by
  have hr : CondKw.resetsSwitch = true := by decide
  simp only [CondKw.history, List.foldl_append, List.foldl_cons, List.foldl_nil, hr, CondKw.setCpu]
  cases t.occupiesSwitch <;> simp [CondKw.opens]

/-- … and the reset is what this rests on: without it a target that occupied SWITCH once makes SWITCH unusable as the
construct under every later target (the model of the defect a missing reset would be). -/
theorem C12_switch_keyword_needs_reset :
    CondKw.opens (CondKw.history false {} [⟨true⟩, ⟨false⟩]) .switch = false := by decide

end AslModel.C12
