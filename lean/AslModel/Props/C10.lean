import AslModel.Lemmas.Addr
import AslModel.Lemmas.AddrRefine
import AslModel.Lemmas.AddrStruct
import AslModel.Lemmas.AddrStructCor
/-!
# C10 — address bookkeeping: ORG, RORG, ALIGN, reservations, SEGMENT, PHASE/DEPHASE, SAVE/RESTORE, STRUCT

MODEL `Model/Addr.lean` (transcription of asmallg.c / as.c WriteCode / asmsub.c / asmlabel.c / asmstructs.c),
SPEC `Spec/AddrSpec.lean` (abstract machine written from doc/pseudo-instructions.md).

`C10_refine` is the full statement of DESIGN.md 4.10: the simulation for **every** statement list - ORG, RORG, ALIGN, DS,
data, SEGMENT, CPU, PHASE, DEPHASE, SAVE, RESTORE, LISTING, labels, and arbitrarily nested STRUCT/UNION/ENDSTRUCT/ENDUNION
bodies (named and nameless, unions in structures and structures in unions) with fields, reservations, ALIGN, ORG/RORG and
labels inside - for both flavours of `CodeORG_Core` (`Cfg.orgLoad`), with the side conditions `Pre` explicit.
The relation `R` (`Lemmas/AddrStruct.lean`) is `Rout` outside bodies and `Rin` inside: the enclosing segment related as
outside, `ActPC = StructSeg`, and the frame relation `FR` between `TStructStack` and the spec's frames, which carries the
invariant "`TotLen` ≤ lower bound of the frame's final length" through nameless frames and unions.
`C10_refine_partial` (statement lists without STRUCT/ENDSTRUCT) is kept as a corollary.

Remaining restrictions (all decidable, part of `Pre`):
* outside bodies the side conditions of the partial theorem (`PreOut`);
* inside a body: the operand of a reservation/data statement is below 2^31 and `$ + n - 1 < 2^31` for `ALIGN n` (`CodeLen`,
  `NewPC : LongInt`), and after every statement the outermost open structure - counted with its open members - is shorter
  than 2^31 units: `TotLen`/`CodeLen` are 32-bit `LongInt`s; at the excluded point the code defines a wrong length symbol
  (known finding `struct-length-wraps-at-2^31`, `C10_finding_struct_length_wraps`);
* statements the manual does not define inside a body (SAVE/RESTORE/SEGMENT/CPU, ORG/RORG backwards or in a union, ALIGN with a
  fill value) end the spec run (`Res.unspecified`), as before.
-/
namespace AslModel.C10
open AslModel.Addr AslModel.Generated

/-- Table obligations: the widths the model's `wrap64`/`toI32`/`toWord` use are the ones the translator read off
the current C declarations, and the generated segment parameters of the two targets say what the ORG table of
the manual says (present segments, size = limit + 1, initial values). -/
theorem C10_tables :
    pcBits = 64 ∧ codeLenBits = 32 ∧ newPCBits = 32 ∧ alignValueBits = 16 ∧ segCode = 1 ∧ structSeg = 11 ∧
    Agree AddrSpec.manualSegs := by
  refine ⟨by decide, by decide, by decide, by decide, by decide, by decide, ?_⟩
  refine { valid := ?_, limit := ?_, init := ?_, absent := ?_, initRange := ?_, sizeRange := ?_, noStruct := ?_ }
  all_goals intro c
  all_goals try intro t
  all_goals unfold AddrSpec.manualSegs
  all_goals try unfold segP
  all_goals (repeat' split) <;> simp_all [noSeg, structSeg]

/-- **Refinement** (every statement list, including nested STRUCT/UNION bodies): from related states, for every statement
list the spec machine accepts (within the explicit side conditions `RunPre`), the model runs without error or crash, ends in
a related state (inside or outside a body), and defines exactly the spec's symbols with the spec's values (mod 2^64) - labels,
structure fields (`<names of the enclosing named structures>_<field>` = offset from the outermost structure's start; 0 for a
union member plus the union's own offset), nested structure names and the length symbols.  Induction over the statement list. -/
theorem C10_refine (cfg : Cfg) (segs : Nat → Nat → AddrSpec.SegInfo) (hag : Agree segs) (sts : List Stmt) (s : St) (a : AddrSpec.A)
    (hR : R s a) (hpre : RunPre cfg segs a sts) (a' : AddrSpec.A) (ds : List (List (Sym × Int)))
    (hrun : AddrSpec.run segs a sts = some (a', ds)) :
    R (run cfg s sts).1 a' ∧ (run cfg s sts).2.map (fun o => o.defs) = ds.map wrapDefs ∧
    (∀ o ∈ (run cfg s sts).2, o.errs = [] ∧ o.crash = false) ∧ (run cfg s sts).2.length = sts.length :=
  refine_run cfg segs hag sts s a hR hpre a' ds hrun

/-- one step, including the rejecting direction: a statement the manual rejects (data, PHASE/DEPHASE inside a body, `ALIGN 0`,
ENDSTRUCT without STRUCT, a nameless structure outside a named one, an address outside the segment, …) makes the model
report an error (or hit the `% 0` of `ALIGN 0`) -/
theorem C10_refine_step (cfg : Cfg) (segs : Nat → Nat → AddrSpec.SegInfo) (hag : Agree segs) (s : St) (a : AddrSpec.A)
    (hR : R s a) (st : Stmt) (hp : Pre cfg segs a st) : Sim cfg segs s a st :=
  refine_step cfg segs hag hR st hp

/-! Non-vacuity of `C10_refine`: a concrete program with a nested nameless union, a named inner structure, ALIGN, ORG and labels
inside bodies, between ordinary statements, meets `RunPre`, is accepted by the spec and defines the expected symbols
(`N1_N2 = 0`, `N1_N3 = 2`, `N1_N4 = 2` (both union members at the union's offset), `N1_N5 = 8` (inner structure after ALIGN 4 of 6),
`N1_N5_N6 = 8`, `N1_N5_LEN = 3`, `N1_N7 = 11`, `N1_LEN = 12`). -/
def exStruct : List Stmt :=
  [⟨some 9, .org 256⟩, ⟨none, .struct (some 1) false⟩, ⟨some 2, .res 2⟩, ⟨none, .struct none true⟩, ⟨some 3, .res 4⟩, ⟨some 4, .res 2⟩,
   ⟨none, .endstruct⟩, ⟨none, .align 4 none⟩, ⟨none, .struct (some 5) false⟩, ⟨some 6, .res 3⟩, ⟨none, .endstruct⟩, ⟨some 7, .res 1⟩,
   ⟨none, .endstruct⟩, ⟨some 8, .emit 2⟩]
example : RunPre {} AddrSpec.manualSegs (AddrSpec.init AddrSpec.manualSegs 0) exStruct :=
  runPreB_sound _ _ _ _ (by decide)
example : ((AddrSpec.run AddrSpec.manualSegs (AddrSpec.init AddrSpec.manualSegs 0) exStruct).map (fun r => r.2)) =
    some [[(⟨[], some 9⟩, 0)], [], [(⟨[1], some 2⟩, 0)], [], [(⟨[1], some 3⟩, 2)], [(⟨[1], some 4⟩, 2)], [], [], [(⟨[1], some 5⟩, 8)],
          [(⟨[1, 5], some 6⟩, 8)], [(⟨[1, 5], none⟩, 3)], [(⟨[1], some 7⟩, 11)], [(⟨[1], none⟩, 12)], [(⟨[], some 8⟩, 256)]] := by decide
example : (run {} (init 0) exStruct).2.map (fun o => o.defs) =
    [[(⟨[], some 9⟩, 0)], [], [(⟨[1], some 2⟩, 0)], [], [(⟨[1], some 3⟩, 2)], [(⟨[1], some 4⟩, 2)], [], [], [(⟨[1], some 5⟩, 8)],
     [(⟨[1, 5], some 6⟩, 8)], [(⟨[1, 5], none⟩, 3)], [(⟨[1], some 7⟩, 11)], [(⟨[1], none⟩, 12)], [(⟨[], some 8⟩, 256)]] := by decide

def noStructOps (sts : List Stmt) : Prop := ∀ st ∈ sts, isStructOp st.op = false

/-- **Refinement outside structure bodies** (the statement proved first; now a corollary of `C10_refine`): statement lists
without STRUCT/UNION/ENDSTRUCT. -/
theorem C10_refine_partial (cfg : Cfg) (segs : Nat → Nat → AddrSpec.SegInfo) (hag : Agree segs) (sts : List Stmt) (s : St) (a : AddrSpec.A)
    (hR : R s a) (_hns : noStructOps sts) (hpre : RunPre cfg segs a sts) (a' : AddrSpec.A) (ds : List (List (Sym × Int)))
    (hrun : AddrSpec.run segs a sts = some (a', ds)) :
    R (run cfg s sts).1 a' ∧ (run cfg s sts).2.map (fun o => o.defs) = ds.map wrapDefs ∧
    (∀ o ∈ (run cfg s sts).2, o.errs = [] ∧ o.crash = false) ∧ (run cfg s sts).2.length = sts.length :=
  C10_refine cfg segs hag sts s a hR hpre a' ds hrun

/-! Non-vacuity: a concrete program (ORG, PHASE, data with label, DEPHASE, SEGMENT, DS, SAVE/RESTORE, ALIGN) meets
`RunPre` for the pinned flavour of ORG, is accepted by the spec, and starts from related states. -/
def exProg : List Stmt :=
  [⟨some 1, .org 256⟩, ⟨none, .phase 4096⟩, ⟨some 2, .emit 3⟩, ⟨none, .dephase⟩, ⟨none, .save⟩, ⟨none, .segment 2⟩,
   ⟨some 3, .res 2⟩, ⟨none, .restore⟩, ⟨none, .align 8 none⟩, ⟨some 4, .emit 1⟩]
example : RunPre {} AddrSpec.manualSegs (AddrSpec.init AddrSpec.manualSegs 0) exProg :=
  runPreB_sound _ _ _ _ (by decide)
example : noStructOps exProg := by unfold noStructOps; decide
example : (AddrSpec.run AddrSpec.manualSegs (AddrSpec.init AddrSpec.manualSegs 0) exProg).isSome = true := by decide
example : ((AddrSpec.run AddrSpec.manualSegs (AddrSpec.init AddrSpec.manualSegs 0) exProg).map (fun r => r.2)) =
    some [[(⟨[], some 1⟩, 0)], [], [(⟨[], some 2⟩, 4096)], [], [], [], [(⟨[], some 3⟩, 48)], [], [], [(⟨[], some 4⟩, 264)]] := by decide

/-- one step outside a body, with the side conditions of the first version (`PreOut`) -/
theorem C10_refine_step_partial (cfg : Cfg) (segs : Nat → Nat → AddrSpec.SegInfo) (hag : Agree segs) (s : St) (a : AddrSpec.A)
    (hR : Rout s a) (st : Stmt) (hp : PreOut cfg a st) : Sim cfg segs s a st :=
  Sim_of_out (refine_step_out cfg segs hag hR st hp)

/-- the states after the leading `CPU c` are related -/
theorem C10_init_related (c : Nat) : R (init c) (AddrSpec.init AddrSpec.manualSegs c) :=
  R_init_full _ C10_tables.2.2.2.2.2.2 c

/-- a source without leading CPU statement (target from the command line): after its first statement that places nothing
and switches nothing (OUTRADIX, LISTING, an empty line - here `nop`) `WriteCode` has marked the initial CODE segment as used and the
state is related to the spec's initial state exactly like `init c`; from there `C10_refine` applies.  (With
`PCsUsed[ActPC] = True` only for `CodeLen != 0` this fails and a following `ORG … SEGMENT x … SEGMENT CODE` loses the ORG.) -/
theorem C10_init_cmdline (cfg : Cfg) (c : Nat) :
    R (step cfg (initCmdline c) ⟨none, .nop⟩).1 (AddrSpec.init AddrSpec.manualSegs c) ∧
    (step cfg (initCmdline c) ⟨none, .nop⟩).2.errs = [] ∧ (step cfg (initCmdline c) ⟨none, .nop⟩).2.crash = false ∧
    (∀ t, (step cfg (initCmdline c) ⟨none, .nop⟩).1.used t = (init c).used t) := by
  have hag : Agree AddrSpec.manualSegs := C10_tables.2.2.2.2.2.2
  have h0 := R_init AddrSpec.manualSegs hag c
  have hns : (initCmdline c).actPC ≠ structSeg := by simp [initCmdline, init, segCode, structSeg]
  have hw := writeCode_ok { s := initCmdline c } hns rfl (Or.inr rfl)
  have hstep : step cfg (initCmdline c) ⟨none, .nop⟩ = writeCode { s := initCmdline c } := by
    simp [step, labelPart, decode]
  rw [hstep, hw]
  have hr := hag.initRange c 1
  have hi := hag.init c 1
  refine ⟨Or.inl ?_, rfl, rfl, ?_⟩
  · refine Rout_congr h0 rfl rfl rfl rfl rfl ?_ ?_ (fun _ => rfl) (fun _ => rfl)
    · intro t; by_cases ht : t = 1 <;> simp [initCmdline, init, upd, segCode, ht]
    · intro t _
      by_cases ht : t = 1
      · subst ht
        simp only [initCmdline, init, upd, pc, segCode, if_true]
        rw [hi, Int.add_zero, wrap64_small hr.1 hr.2]
      · simp [initCmdline, init, upd, segCode, ht]
  · intro t; by_cases ht : t = 1 <;> simp [initCmdline, init, upd, segCode, ht]

/-- **Segments are isolated**: a statement executed in segment `s.actPC` (possibly switching to another one)
leaves counter, phase offset and phase stack of every other segment unchanged – PHASE does not leak. -/
theorem C10_segments_isolated (cfg : Cfg) (s : St) (st : Stmt) (t : Nat) (h1 : t ≠ s.actPC)
    (h2 : t ≠ (step cfg s st).1.actPC) :
    (step cfg s st).1.pcs t = s.pcs t ∧ (step cfg s st).1.phases t = s.phases t ∧ (step cfg s st).1.pstack t = s.pstack t :=
  step_same cfg s st t h1 h2

/-- **Labels read load address + active phase offset** (mod 2^64). -/
theorem C10_label_value (cfg : Cfg) (s : St) (a : AddrSpec.A) (hR' : R s a) (hout : a.frames = []) (l : Nat) (op : Op)
    (hs : isStructOp op = false) :
    ∃ rest, (step cfg s ⟨some l, op⟩).2.defs = (⟨[], some l⟩, wrap64 (a.pc a.seg + AddrSpec.off a a.seg)) :: rest := by
  have hR := R_frames_nil hR' hout
  have h := labelPart_R hR ⟨some l, op⟩ hs
  refine ⟨(writeCode (decode cfg s op)).2.defs, ?_⟩
  simp only [step, h, modelLabelDefs, R_epc hR, AddrSpec.dollar, hR.frames, List.cons_append, List.nil_append]

/-- **DEPHASE restores** the offset and the stack in force before the matching PHASE; on an empty stack the
offset becomes 0 and the load counter is not touched. -/
theorem C10_dephase_restores (cfg : Cfg) (s : St) (v : Int) (hns : s.actPC ≠ structSeg) (h1 : -2147483648 ≤ v) (h2 : v ≤ 4294967295) :
    let s1 := (step cfg s ⟨none, .phase v⟩).1
    let s2 := (step cfg s1 ⟨none, .dephase⟩).1
    s2.phases s.actPC = s.phases s.actPC ∧ s2.pstack s.actPC = s.pstack s.actPC ∧
    (s.pstack s.actPC = [] → (step cfg s ⟨none, .dephase⟩).1.phases s.actPC = 0 ∧
       (step cfg s ⟨none, .dephase⟩).1.pcs s.actPC = wrap64 (s.pcs s.actPC)) := by
  have g1 : ¬ v < -2147483648 := by omega
  have g2 : ¬ v > 4294967295 := by omega
  have e1 : (step cfg s ⟨none, .phase v⟩).1.actPC = s.actPC := by
    simp [step, labelPart, writeCode_actPC, decode, codePHASE, hns, g1, g2]
  have k1 := writeCode_keeps (decode cfg s (.phase v))
  have k2 := writeCode_keeps (decode cfg (step cfg s ⟨none, .phase v⟩).1 .dephase)
  have hst : (step cfg s ⟨none, .phase v⟩).1.pstack s.actPC = s.phases s.actPC :: s.pstack s.actPC := by
    simp only [step, labelPart] at k1 ⊢
    rw [k1.2.1]; simp [decode, codePHASE, hns, g1, g2, upd]
  have hd := dephase_after (cfg := cfg) (step cfg s ⟨none, .phase v⟩).1 s.actPC _ _ e1 hns hst
  intro s1 s2
  refine ⟨?_, ?_, ?_⟩
  · show (step cfg (step cfg s ⟨none, .phase v⟩).1 ⟨none, .dephase⟩).1.phases s.actPC = _
    rw [(step_none_fields cfg _ .dephase).1]; exact hd.1
  · show (step cfg (step cfg s ⟨none, .phase v⟩).1 ⟨none, .dephase⟩).1.pstack s.actPC = _
    rw [(step_none_fields cfg _ .dephase).2]; exact hd.2
  · intro he
    have k3 := writeCode_keeps (decode cfg s .dephase)
    simp only [step, labelPart] at k3 ⊢
    refine ⟨by rw [k3.1]; simp [decode, codeDEPHASE, hns, he, upd], ?_⟩
    simp [decode, codeDEPHASE, hns, he, writeCode, chkPC, pc, upd]

/-- **SAVE/RESTORE**: RESTORE reinstates the CPU, segment and listing flag of the matching SAVE and pops the
stack (LIFO: whatever the top entry is, that is what comes back).  `hp`: the saved segment is a real segment -
a SAVE issued inside a STRUCT body records the structure pseudo segment, which RESTORE does not reinstate
(`C10_restore_struct_segment`). -/
theorem C10_save_restore (cfg : Cfg) (s : St) (c p : Nat) (l : Bool) (rest : List (Nat × Nat × Bool))
    (hs : s.saves = (c, p, l) :: rest) (hp : p ≠ structSeg) :
    (step cfg s ⟨none, .restore⟩).1.cpu = c ∧ (step cfg s ⟨none, .restore⟩).1.actPC = p ∧
    (step cfg s ⟨none, .restore⟩).1.listOn = l ∧ (step cfg s ⟨none, .restore⟩).1.saves = rest ∧
    (step cfg s ⟨none, .save⟩).1.saves = (s.cpu, s.actPC, s.listOn) :: s.saves := by
  have k := writeCode_keeps (decode cfg s .restore)
  have k2 := writeCode_keeps (decode cfg s .save)
  simp only [step, labelPart, writeCode_actPC]
  rw [k.2.2.1, k.2.2.2.1, k.2.2.2.2, k2.2.2.2.2]
  simp only [decode, codeRESTORE, codeSAVE, hs]
  by_cases h1 : p = s.actPC <;> by_cases h2 : c = s.cpu <;> simp [h1, h2, hp]

/-- RESTORE of an entry that recorded the structure pseudo segment (SAVE inside a STRUCT body) leaves the active
segment alone and still reinstates CPU and listing flag and pops the entry - the pseudo segment never becomes
active outside a structure (before the repair `f8e9b53` it did, and the next statement crashed). -/
theorem C10_restore_struct_segment (cfg : Cfg) (s : St) (c : Nat) (l : Bool) (rest : List (Nat × Nat × Bool))
    (hs : s.saves = (c, structSeg, l) :: rest) :
    (step cfg s ⟨none, .restore⟩).1.cpu = c ∧ (step cfg s ⟨none, .restore⟩).1.actPC = s.actPC ∧
    (step cfg s ⟨none, .restore⟩).1.listOn = l ∧ (step cfg s ⟨none, .restore⟩).1.saves = rest := by
  have k := writeCode_keeps (decode cfg s .restore)
  simp only [step, labelPart, writeCode_actPC]
  rw [k.2.2.1, k.2.2.2.1, k.2.2.2.2]
  simp only [decode, codeRESTORE, hs]
  by_cases h2 : c = s.cpu <;> simp [h2]

/-- **ALIGN n**: with `0 < n < 2^16` and `$ + n - 1 < 2^31` (the widths of `AlignValue : Word`, `NewPC : LongInt`)
the statement's length makes `$` the next multiple of `n`: `n ∣ $ + len`, `0 ≤ len < n`; and outside structures,
if the gap fits into the segment, `$` after the statement is exactly that. -/
theorem C10_align (cfg : Cfg) (s : St) (n : Int) (hn : 0 < n) (hn2 : n < 65536) (hw : epc s + n - 1 < 2147483648) :
    let len := (decode cfg s (.align n none)).codeLen
    n ∣ epc s + len ∧ 0 ≤ len ∧ len < n ∧
    (s.actPC ≠ structSeg → ((chkPC s (epc s) = true ∧ chkPC s (wrap64 (epc s + len - 1)) = true) ∨ len = 0) →
      epc (step cfg s ⟨none, .align n none⟩).1 = epc s + len ∧ (step cfg s ⟨none, .align n none⟩).2.errs = []) := by
  obtain ⟨l1, l2, l3, l4, _⟩ := codeALIGN_len cfg s n hn hn2 hw
  obtain ⟨b0, b1, b2, _⟩ := alignUp_spec (epc s) n (epc_nonneg s) hn
  simp only [decode]
  rw [l1]
  have hsum : epc s + (AddrSpec.alignUp (epc s) n - epc s) = AddrSpec.alignUp (epc s) n := by omega
  refine ⟨by rw [hsum]; exact b0, by omega, by omega, ?_⟩
  intro hns hchk
  have hwc := writeCode_ok (codeALIGN cfg s n none) (by rw [l4]; exact hns) l2 (by rw [l4, l1]; exact hchk)
  simp only [step, labelPart, decode, hwc, l4, l1, l3]
  refine ⟨?_, by simp⟩
  have e0 := epc_nonneg s
  simp only [epc, pc, upd_same]
  simp only [epc] at b1 b2 e0 hw
  simp only [wrap64_def] at *
  omega

/-- **STRUCT/UNION body, one field** (single-level named structure `nm`; `f` is the open frame): a labelled
reservation `l: DS k` defines the symbol `nm_l` as the current offset (always 0 in a union), emits nothing into the
code file, reports no error, and advances the body's counter by `k` (struct) resp. raises the union's length to
`max len k`. -/
theorem C10_struct_field (cfg : Cfg) (s : St) (f : Frame) (l : Nat) (k : Int)
    (hst : s.structs = [f]) (hnm : f.name.isSome = true) (hact : s.actPC = structSeg) (hph : s.phases structSeg = 0)
    (hoff : 0 ≤ s.pcs structSeg) (hk0 : 0 ≤ k) (hsum : s.pcs structSeg + k < 2147483648) :
    ∀ r, r = step cfg s ⟨some l, .res k⟩ →
    r.2.defs = [(⟨f.path, some l⟩, s.pcs structSeg)] ∧ r.2.ev = .none ∧ r.2.errs = [] ∧ r.2.crash = false ∧
    r.1.actPC = structSeg ∧
    (f.isUnion = false → r.1.pcs structSeg = s.pcs structSeg + k ∧ r.1.structs = [bump f (s.pcs structSeg)]) ∧
    (f.isUnion = true → r.1.pcs structSeg = 0 ∧ r.1.structs = [bump (bump f (s.pcs structSeg)) k]) := by
  have hepc : epc s = s.pcs structSeg := by
    unfold epc; rw [hact, hph]; simp only [wrap64_def]; omega
  have hin : innermostNamed [f] = some f := by simp [innermostNamed, hnm]
  have hbn : bumpNamed [f] (s.pcs structSeg) = [bump f (s.pcs structSeg)] := by simp [bumpNamed, hnm]
  have hlp : labelPart s ⟨some l, .res k⟩ =
      ({ s with structs := [bump f (s.pcs structSeg)] }, [(⟨f.path, some l⟩, s.pcs structSeg)]) := by
    simp only [labelPart, labelPresent, labelHandle, hst, hin, hepc, hbn, sumSave, Option.isSome]
    simp only [wrap64_def]
    have : s.pcs structSeg % 18446744073709551616 = s.pcs structSeg := by omega
    simp [this]
  have hti : toI32 k = k := toI32_small (by omega) (by omega)
  intro r hr
  subst hr
  simp only [step, hlp, decode, hti]
  unfold writeCode
  simp only [hact, pc]
  by_cases hu : f.isUnion = true
  · have hbu : (bump f (s.pcs structSeg)).isUnion = true := by unfold bump; split <;> simp [hu]
    simp [hu, hbu, upd, wrap64_def]
  · have hu' : f.isUnion = false := by simpa using hu
    have hbu : (bump f (s.pcs structSeg)).isUnion = false := by unfold bump; split <;> simp [hu']
    have : (s.pcs structSeg + k) % 18446744073709551616 = s.pcs structSeg + k := by omega
    simp [hu', hbu, upd, wrap64_def, this]

/-- **ENDSTRUCT of a single-level named structure**: defines the length symbol `nm_LEN` as the structure's
`TotLen` (the counter at ENDSTRUCT, or a larger recorded offset/union member length), goes back to the segment
that was active at STRUCT without touching its counter (`jump` to the same address: a new record, no bytes),
and reports no error. -/
theorem C10_struct_end (cfg : Cfg) (s : St) (f : Frame) (hst : s.structs = [f]) (hnm : f.name.isSome = true)
    (hact : s.actPC = structSeg) (hsv : s.structSaveSeg ≠ structSeg) (hoff : 0 ≤ s.pcs structSeg)
    (hlt : s.pcs structSeg < 2147483648) :
    ∀ r, r = step cfg s ⟨none, .endstruct⟩ →
    r.2.defs = [(⟨f.path, none⟩, max f.totLen (s.pcs structSeg))] ∧ r.2.errs = [] ∧ r.2.crash = false ∧
    r.1.actPC = s.structSaveSeg ∧ r.1.structs = [] ∧
    r.1.pcs s.structSaveSeg = wrap64 (s.pcs s.structSaveSeg) ∧ r.2.ev = .jump (wrap64 (s.pcs s.structSaveSeg)) := by
  have hti : toI64 (s.pcs structSeg) = s.pcs structSeg := toI64_small (by omega) (by omega)
  have hb : (bump f (s.pcs structSeg)).totLen = max f.totLen (s.pcs structSeg) := by
    unfold bump; rw [hti]
    by_cases hc : f.totLen < s.pcs structSeg
    · simp only [hc, if_true]; omega
    · simp only [hc, if_false]; omega
  obtain ⟨nm, hn⟩ := Option.isSome_iff_exists.mp hnm
  intro r hr
  subst hr
  simp only [step, labelPart, decode, codeENDSTRUCT, hst, hn, pc, hact, List.isEmpty_nil, if_true, hb]
  unfold writeCode
  simp [hsv, pc, upd, Ne.symm hsv]

/-- **A field inside a body is defined as its offset**: a label on a statement inside (nested) structure bodies defines
`<names of the enclosing named structures>_<label>` as `$` of the innermost body (0 in a union) plus the offsets of the
enclosing structures relative to the outermost one, and leaves the spec state alone. -/
theorem C10_field_value (s : St) (a : AddrSpec.A) (hR : R s a) (hin : a.frames ≠ []) (l : Nat) (op : Op)
    (hs : isStructOp op = false) :
    (labelPart s ⟨some l, op⟩).2 =
      [(⟨AddrSpec.namedPath a.frames, some l⟩, wrap64 (AddrSpec.dollar a + AddrSpec.baseSum a.frames))] ∧
    R (labelPart s ⟨some l, op⟩).1 a := by
  obtain ⟨s1, h1, h2⟩ := labelPart_in (R_frames_ne hR hin) ⟨some l, op⟩
  rw [h1]
  refine ⟨?_, Or.inr h2⟩
  have : labelPresent ⟨some l, op⟩ = true := by cases op <;> simp_all [labelPresent, isStructOp]
  simp [labelDefs_eq, this, labelDef_in a l hin, wrapDefs]

/-- **A STRUCT/UNION body emits no code and leaves the segment counters alone.**  From related states outside a body:
`hd` opens a structure, every statement of `body` ends inside a body (`InBody` - nested structures included), `tl` closes the
outermost one (`a'.frames = []`); the spec accepts the run within `RunPre`.  Then no statement from STRUCT to the last body
statement hands anything to the code file (`ev = none`), the closing ENDSTRUCT only restarts the record at the *unchanged*
counter of the enclosing segment (`jump`, no bytes), nothing reports an error, and afterwards the active segment and every
counter except the pseudo segment's are what they were before STRUCT - in the model and in the spec. -/
theorem C10_struct_emits_nothing (cfg : Cfg) (segs : Nat → Nat → AddrSpec.SegInfo) (hag : Agree segs) (s : St) (a : AddrSpec.A)
    (hR : R s a) (hout : a.frames = []) (hd : Stmt) (body : List Stmt) (tl : Stmt)
    (hpre : RunPre cfg segs a (hd :: (body ++ [tl]))) (hib : InBody segs a (hd :: body))
    (a' : AddrSpec.A) (ds : List (List (Sym × Int)))
    (hrun : AddrSpec.run segs a (hd :: (body ++ [tl])) = some (a', ds)) (hend : a'.frames = []) :
    (∃ outs last, (run cfg s (hd :: (body ++ [tl]))).2 = outs ++ [last] ∧
       (∀ o ∈ outs, o.ev = .none ∧ o.errs = [] ∧ o.crash = false) ∧
       last.ev = .jump (s.pcs s.actPC) ∧ last.errs = [] ∧ last.crash = false) ∧
    (run cfg s (hd :: (body ++ [tl]))).1.actPC = s.actPC ∧
    (∀ t, t ≠ structSeg → (run cfg s (hd :: (body ++ [tl]))).1.pcs t = s.pcs t) ∧
    R (run cfg s (hd :: (body ++ [tl]))).1 a' ∧ a'.pc = a.pc ∧ a'.seg = a.seg := by
  have h0 := R_frames_nil hR hout
  have hsim := refine_step cfg segs hag hR hd hpre.1
  have hp2 := hpre.2
  unfold Sim at hsim
  simp only [AddrSpec.run] at hrun
  simp only [InBody] at hib
  cases hst : AddrSpec.step segs a hd with
  | reject => simp [hst] at hrun
  | unspecified => simp [hst] at hrun
  | ok a1 d =>
    rw [hst] at hsim hrun hp2 hib
    simp only [Option.map_eq_some_iff] at hrun
    obtain ⟨⟨a2, ds2⟩, hr2, heq⟩ := hrun
    simp only [Prod.mk.injEq] at heq
    obtain ⟨rfl, rfl⟩ := heq
    obtain ⟨hR1, he1, hc1, hd1⟩ := hsim
    have h1 : Rin (step cfg s hd).1 a1 := R_frames_ne hR1 hib.1
    obtain ⟨k1, k2, k3⟩ := spec_keeps segs a hd a1 d hst (Or.inr hib.1)
    obtain ⟨⟨outs, last, j1, j2, j3, j4, j5⟩, i2, i3, i4, i5, i6⟩ :=
      body_then_end cfg segs hag tl body (step cfg s hd).1 a1 h1 hp2 hib.2 a2 ds2 hr2 hend
    have hseg : (step cfg s hd).1.structSaveSeg = s.actPC := by rw [Rin_seg h1, k2, h0.seg]
    -- the first step leaves every real counter alone
    have hfirst : ∀ t, t ≠ structSeg → (step cfg s hd).1.pcs t = s.pcs t := by
      intro t ht
      by_cases hta : t = s.actPC
      · subst hta
        have hs1 : a.started s.actPC = true := by rw [h0.seg]; exact R_started h0
        rw [Rin_pcs h1 _ (by rw [k3]; exact hs1), k1, h0.pcs _ hs1]
      · exact (step_same cfg s hd t hta (by rw [h1.act]; exact ht)).1
    simp only [run, hc1, Bool.false_eq_true, if_false]
    refine ⟨⟨(step cfg s hd).2 :: outs, last, by rw [j1]; rfl, ?_, ?_, j4, j5⟩, by rw [i2, hseg], ?_, i4, i5.trans k1, i6.trans k2⟩
    · intro o ho
      simp only [List.mem_cons] at ho
      rcases ho with rfl | ho
      · exact ⟨step_in_body_ev cfg s hd h1.act, he1, hc1⟩
      · exact j2 o ho
    · rw [j3, hseg, hfirst _ h0.notStruct]
    · intro t ht
      rw [i3 t ht]
      exact hfirst t ht

/-! Non-vacuity: the structure of `exStruct` (statements 2-13: nested nameless union, ALIGN, named inner structure) started after
`org 256` satisfies every hypothesis of `C10_struct_emits_nothing`. -/
def exBodyHd : Stmt := ⟨none, .struct (some 1) false⟩
def exBody : List Stmt :=
  [⟨some 2, .res 2⟩, ⟨none, .struct none true⟩, ⟨some 3, .res 4⟩, ⟨some 4, .res 2⟩, ⟨none, .endstruct⟩, ⟨none, .align 4 none⟩,
   ⟨none, .struct (some 5) false⟩, ⟨some 6, .res 3⟩, ⟨none, .endstruct⟩, ⟨some 7, .res 1⟩]
example : RunPre {} AddrSpec.manualSegs (AddrSpec.init AddrSpec.manualSegs 0) (exBodyHd :: (exBody ++ [⟨none, .endstruct⟩])) :=
  runPreB_sound _ _ _ _ (by decide)
example : InBody AddrSpec.manualSegs (AddrSpec.init AddrSpec.manualSegs 0) (exBodyHd :: exBody) := inBodyB_sound _ _ _ (by decide)
example : ((AddrSpec.run AddrSpec.manualSegs (AddrSpec.init AddrSpec.manualSegs 0) (exBodyHd :: (exBody ++ [⟨none, .endstruct⟩]))).map
    (fun r => r.1.frames.isEmpty)) = some true := by decide

/-- **The length of a union is the maximum of its members, every member lies at offset 0.**  `nm UNION`, members
`l: DS k` (`0 < k < 2^31`), `ENDUNION`, started outside a body from related states: the model defines every member `nm_l` as 0
and `nm_LEN` as the maximum of the `k` (`maxLen 0 ms`, characterised by `C10_maxLen_is_max`), reports no error and ends in a
state related to the unchanged spec state. -/
theorem C10_union_length_is_max (cfg : Cfg) (segs : Nat → Nat → AddrSpec.SegInfo) (hag : Agree segs) (s : St) (a : AddrSpec.A)
    (hR : R s a) (hout : a.frames = []) (nm : Nat) (ms : List (Nat × Int)) (hm : ∀ m ∈ ms, 0 < m.2 ∧ m.2 < 2147483648) :
    (run cfg s (unionProg nm ms)).2.map (fun o => o.defs) =
      [] :: (ms.map (fun m => [(⟨[nm], some m.1⟩, 0)]) ++ [[(⟨[nm], none⟩, maxLen 0 ms)]]) ∧
    (∀ o ∈ (run cfg s (unionProg nm ms)).2, o.errs = [] ∧ o.crash = false) ∧ R (run cfg s (unionProg nm ms)).1 a := by
  obtain ⟨hrun, hpre⟩ := spec_union_prog cfg segs a hout nm ms hm
  obtain ⟨r1, r2, r3, _⟩ := C10_refine cfg segs hag _ s a hR hpre _ _ hrun
  refine ⟨?_, r3, r1⟩
  rw [r2]
  have h0 : (0 : Int) ≤ maxLen 0 ms := (maxLen_ge ms 0).1
  have h1 : maxLen 0 ms < 2147483648 := maxLen_lt _ ms 0 (by decide) (fun m hx => (hm m hx).2)
  have hw : wrap64 (maxLen 0 ms) = maxLen 0 ms := wrap64_small h0 (by omega)
  have hz : wrap64 0 = 0 := by decide
  simp [wrapDefs, hw, hz]

/-- `maxLen 0 ms` is the maximum: an upper bound of all member lengths that is attained (or 0 for an empty union) -/
theorem C10_maxLen_is_max (ms : List (Nat × Int)) :
    (∀ m ∈ ms, m.2 ≤ maxLen 0 ms) ∧ (maxLen 0 ms = 0 ∨ ∃ m ∈ ms, maxLen 0 ms = m.2) :=
  ⟨(maxLen_ge ms 0).2, maxLen_attained ms 0⟩

example : (∀ m ∈ [((2 : Nat), (4 : Int)), (3, 2), (4, 7)], 0 < m.2 ∧ m.2 < 2147483648) ∧ maxLen 0 [(2, 4), (3, 2), (4, 7)] = 7 := by decide

/-- **A nested structure contributes its total to the parent at ENDSTRUCT.**  Inner frame `g` (length `topLen g`: its counter, or
the recorded maximum if it is a union) inside parent `p`: the closing statement defines the inner length symbol (if named),
emits nothing, reports no error, stays inside the parent's body, and the parent continues at `p.cur + topLen g` (parent is a
STRUCT: the inner structure occupies its length at the offset where it was opened) resp. records `max p.len (topLen g)` with the
counter back at 0 (parent is a UNION). -/
theorem C10_nested_struct_total (cfg : Cfg) (segs : Nat → Nat → AddrSpec.SegInfo) (hag : Agree segs) (s : St) (a : AddrSpec.A)
    (hR : R s a) (g p : AddrSpec.SFrame) (gs : List AddrSpec.SFrame) (hfr : a.frames = g :: p :: gs) (lab : Option Nat)
    (hp : Pre cfg segs a ⟨lab, .endstruct⟩) :
    ∀ r, r = step cfg s ⟨lab, .endstruct⟩ →
    r.2.defs = wrapDefs (lenDefs g (p :: gs)) ∧ r.2.errs = [] ∧ r.2.crash = false ∧ r.2.ev = .none ∧ r.1.actPC = structSeg ∧
    (p.isUnion = false → r.1.pcs structSeg = p.cur + topLen g ∧ R r.1 { a with frames := { p with cur := p.cur + topLen g } :: gs }) ∧
    (p.isUnion = true → r.1.pcs structSeg = 0 ∧ R r.1 { a with frames := { p with len := max p.len (topLen g) } :: gs }) := by
  intro r hr
  subst hr
  have hin : Rin s a := R_frames_ne hR (by rw [hfr]; simp)
  have hsim := refine_step cfg segs hag hR ⟨lab, .endstruct⟩ hp
  unfold Sim at hsim
  have hspec : AddrSpec.step segs a ⟨lab, .endstruct⟩ =
      .ok { a with frames := (if p.isUnion then { p with len := max p.len (topLen g) } else { p with cur := g.base + topLen g }) :: gs }
        (lenDefs g (p :: gs)) := by
    rw [spec_step_label, spec_end_inner segs a g p gs hfr]
    have : AddrSpec.labelDefs a ⟨lab, .endstruct⟩ = [] := by cases lab <;> rfl
    rw [this]
    rfl
  rw [hspec] at hsim
  obtain ⟨q1, q2, q3, q4⟩ := hsim
  -- the parent's counter is the base of the inner frame
  obtain ⟨f, fs, _, hk0, hr⟩ := Rin_top_eq hin hfr
  have hbase : g.base = p.cur := by
    cases fs with
    | nil => exact absurd hr (by simp [FR])
    | cons f2 fs2 => exact hr.1.cb
  have hin' := R_frames_ne q1 (by simp)
  have hcnt := (Rin_counter hin').1
  refine ⟨by simpa using q4, q2, q3, step_in_body_ev cfg s _ hin'.act, hin'.act, ?_, ?_⟩
  · intro hu
    rw [if_neg (by simp [hu]), hbase] at q1 hcnt
    exact ⟨by rw [hcnt]; simp [AddrSpec.dollar], q1⟩
  · intro hu
    have huc : p.cur = 0 := by
      cases fs with
      | nil => exact absurd hr (by simp [FR])
      | cons f2 fs2 => exact hr.1.ucur hu
    rw [if_pos hu] at q1 hcnt
    exact ⟨by rw [hcnt]; simp [AddrSpec.dollar, huc], q1⟩

/-! Non-vacuity of `C10_nested_struct_total` and a complete instance: `N1 struct / N2: ds 2 / N5 struct / N6: ds 3 / endstruct /
N7: ds 1 / endstruct` gives `N1_N5 = 2`, `N1_N5_LEN = 3`, `N1_N7 = 2 + 3`, `N1_LEN = 2 + 3 + 1`. -/
def exNested : List Stmt :=
  [⟨none, .struct (some 1) false⟩, ⟨some 2, .res 2⟩, ⟨none, .struct (some 5) false⟩, ⟨some 6, .res 3⟩, ⟨none, .endstruct⟩,
   ⟨some 7, .res 1⟩, ⟨none, .endstruct⟩]
example : RunPre {} AddrSpec.manualSegs (AddrSpec.init AddrSpec.manualSegs 0) exNested := runPreB_sound _ _ _ _ (by decide)
example : (run {} (init 0) exNested).2.map (fun o => o.defs) =
    [[], [(⟨[1], some 2⟩, 0)], [(⟨[1], some 5⟩, 2)], [(⟨[1, 5], some 6⟩, 2)], [(⟨[1, 5], none⟩, 3)], [(⟨[1], some 7⟩, 5)], [(⟨[1], none⟩, 6)]] := by
  decide

/-- **Known finding `org-under-phase`** (negation of the refinement for the pinned `CodeORG_Core`): the program
`org $1000 / phase $8000 / db 1 / org $2000 / db 2 / dephase / db 3` is accepted by the spec machine (load
addresses $1000, $2000, $2001) while the model of the pinned code ends with an address overflow error. -/
def witnessOrg : List Stmt :=
  [⟨none, .org 4096⟩, ⟨none, .phase 32768⟩, ⟨none, .emit 1⟩, ⟨none, .org 8192⟩, ⟨none, .emit 1⟩, ⟨none, .dephase⟩, ⟨none, .emit 1⟩]

theorem C10_finding_org_under_phase :
    (AddrSpec.run AddrSpec.manualSegs (AddrSpec.init AddrSpec.manualSegs 0) witnessOrg).isSome = true ∧
    ((run { orgLoad := false } (init 0) witnessOrg).2.any (fun o => o.errs.contains errAdrOverflow)) = true ∧
    ((run { orgLoad := true } (init 0) witnessOrg).2.all (fun o => o.errs.isEmpty)) = true := by
  refine ⟨by decide, by decide, by decide⟩

/-- **Repaired finding `struct-length-wraps-at-2^31`** (repair cd7d018; the side condition `lbOut … < 2^31` of `Pre` stays
as a hypothesis of the refinement proof): the structure `N1 struct / N2: ds 40000000h / N3: ds 40000000h / N4: ds 1 / endstruct`
is accepted by the spec machine with `N1_LEN = 2147483649`, and the model of `BumpStructLength(…, (LargeInt) ProgCounter())` now
defines the same length (with `TotLen : LongInt` it dropped the final length as negative and kept 1073741824, the offset of `N3`). -/
def witnessBig : List Stmt :=
  [⟨none, .struct (some 1) false⟩, ⟨some 2, .res 1073741824⟩, ⟨some 3, .res 1073741824⟩, ⟨some 4, .res 1⟩, ⟨none, .endstruct⟩]

theorem C10_struct_length_beyond_2_31 :
    ((AddrSpec.run AddrSpec.manualSegs (AddrSpec.init AddrSpec.manualSegs 0) witnessBig).map (fun r => r.2.drop 3)) =
      some [[(⟨[1], some 4⟩, 2147483648)], [(⟨[1], none⟩, 2147483649)]] ∧
    ((run {} (init 0) witnessBig).2.drop 3).map (fun o => (o.defs, o.errs)) =
      [([(⟨[1], some 4⟩, 2147483648)], []), ([(⟨[1], none⟩, 2147483649)], [])] := by
  refine ⟨by decide, by decide⟩

end AslModel.C10
