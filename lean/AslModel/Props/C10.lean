import AslModel.Lemmas.Addr
import AslModel.Lemmas.AddrRefine
/-!
# C10 — address bookkeeping: ORG, RORG, ALIGN, reservations, SEGMENT, PHASE/DEPHASE, SAVE/RESTORE, STRUCT

MODEL `Model/Addr.lean` (transcription of asmallg.c / as.c WriteCode / asmsub.c / asmlabel.c / asmstructs.c),
SPEC `Spec/AddrSpec.lean` (abstract machine written from doc/pseudo-instructions.md).

`C10_refine_partial` is proved for every statement list **outside structure bodies** (all of ORG, RORG, ALIGN, DS, data,
SEGMENT, CPU, PHASE, DEPHASE, SAVE, RESTORE, LISTING, labels), for both flavours of `CodeORG_Core`
(`Cfg.orgLoad`), with the side conditions `Pre` explicit.  Full statement wanted by DESIGN.md 4.10 (not yet
proved): the same with STRUCT/UNION/ENDSTRUCT frames in the relation `R` (nested and nameless structures); for
these `C10_struct_flat` below proves the single-level case directly on the model, the nested cases are covered
by the differential run against the real assembler and by the executable spec only.
-/
namespace AslModel.C10
open AslModel.Addr AslModel.Generated

/-- Table obligations: the widths the model's `wrap64`/`toI32`/`toWord` use are the ones the translator read off
the current C declarations, and the generated segment parameters of the two targets say what the ORG table of
the manual says (present segments, size = limit + 1, initial values). -/
theorem C10_tables :
    pcBits = 64 ∧ codeLenBits = 32 ∧ newPCBits = 32 ∧ alignValueBits = 16 ∧ segCode = 1 ∧ structSeg = 11 ∧
    Agree AddrSpec.manualSegs := by
  refine ⟨by decide, by decide, by decide, by decide, by decide, by decide, ?_⟩
  refine { valid := ?_, limit := ?_, init := ?_, absent := ?_, initRange := ?_, sizeRange := ?_, noStruct := ?_ }
  all_goals intro c
  all_goals try intro t
  all_goals unfold AddrSpec.manualSegs
  all_goals try unfold segP
  all_goals (repeat' split) <;> simp_all [noSeg, structSeg]

/- Full statement (DESIGN.md 4.10) – not yet proved: `C10_refine`, the same simulation with STRUCT/UNION/ENDSTRUCT
   allowed in `sts` and the open structure frames (nested, nameless, inside unions) part of `R`.  Missing: the frame
   component of `R` and the invariant `TotLen ≤ counter` through nameless frames.  The decidable restriction is
   `Pre … = False` on `.struct`/`.endstruct` (`isStructOp`). -/
/-- **Refinement** (outside structure bodies): from related states, for every statement list the spec machine accepts (within the explicit
side conditions), the model runs without error or crash, ends in a related state, and defines exactly the
spec's symbols with the spec's values (mod 2^64).  Induction over the statement list. -/
theorem C10_refine_partial (cfg : Cfg) (segs : Nat → Nat → AddrSpec.SegInfo) (hag : Agree segs) (sts : List Stmt) (s : St) (a : AddrSpec.A)
    (hR : R s a) (hpre : RunPre cfg segs a sts) (a' : AddrSpec.A) (ds : List (List (Sym × Int)))
    (hrun : AddrSpec.run segs a sts = some (a', ds)) :
    R (run cfg s sts).1 a' ∧ (run cfg s sts).2.map (fun o => o.defs) = ds.map wrapDefs ∧
    (∀ o ∈ (run cfg s sts).2, o.errs = [] ∧ o.crash = false) ∧ (run cfg s sts).2.length = sts.length :=
  refine_run cfg segs hag sts s a hR hpre a' ds hrun

/-! Non-vacuity: a concrete program (ORG, PHASE, data with label, DEPHASE, SEGMENT, DS, SAVE/RESTORE, ALIGN) meets
`RunPre` for the pinned flavour of ORG, is accepted by the spec, and starts from related states. -/
def exProg : List Stmt :=
  [⟨some 1, .org 256⟩, ⟨none, .phase 4096⟩, ⟨some 2, .emit 3⟩, ⟨none, .dephase⟩, ⟨none, .save⟩, ⟨none, .segment 2⟩,
   ⟨some 3, .res 2⟩, ⟨none, .restore⟩, ⟨none, .align 8 none⟩, ⟨some 4, .emit 1⟩]
example : RunPre {} AddrSpec.manualSegs (AddrSpec.init AddrSpec.manualSegs 0) exProg :=
  runPreB_sound _ _ _ _ (by decide)
example : (AddrSpec.run AddrSpec.manualSegs (AddrSpec.init AddrSpec.manualSegs 0) exProg).isSome = true := by decide
example : ((AddrSpec.run AddrSpec.manualSegs (AddrSpec.init AddrSpec.manualSegs 0) exProg).map (fun r => r.2)) =
    some [[(⟨[], some 1⟩, 0)], [], [(⟨[], some 2⟩, 4096)], [], [], [], [(⟨[], some 3⟩, 48)], [], [], [(⟨[], some 4⟩, 264)]] := by decide

/-- one step, including the rejecting direction: a statement the manual rejects makes the model report an error
(or hit the `% 0` of `ALIGN 0`) -/
theorem C10_refine_step_partial (cfg : Cfg) (segs : Nat → Nat → AddrSpec.SegInfo) (hag : Agree segs) (s : St) (a : AddrSpec.A)
    (hR : R s a) (st : Stmt) (hp : Pre cfg a st) : Sim cfg segs s a st :=
  refine_step cfg segs hag hR st hp

/-- the states after the leading `CPU c` are related -/
theorem C10_init_related (c : Nat) : R (init c) (AddrSpec.init AddrSpec.manualSegs c) :=
  R_init _ C10_tables.2.2.2.2.2.2 c

/-- **Segments are isolated**: a statement executed in segment `s.actPC` (possibly switching to another one)
leaves counter, phase offset and phase stack of every other segment unchanged – PHASE does not leak. -/
theorem C10_segments_isolated (cfg : Cfg) (s : St) (st : Stmt) (t : Nat) (h1 : t ≠ s.actPC)
    (h2 : t ≠ (step cfg s st).1.actPC) :
    (step cfg s st).1.pcs t = s.pcs t ∧ (step cfg s st).1.phases t = s.phases t ∧ (step cfg s st).1.pstack t = s.pstack t :=
  step_same cfg s st t h1 h2

/-- **Labels read load address + active phase offset** (mod 2^64). -/
theorem C10_label_value (cfg : Cfg) (s : St) (a : AddrSpec.A) (hR : R s a) (l : Nat) (op : Op) (hs : isStructOp op = false) :
    ∃ rest, (step cfg s ⟨some l, op⟩).2.defs = (⟨[], some l⟩, wrap64 (a.pc a.seg + AddrSpec.off a a.seg)) :: rest := by
  have h := labelPart_R hR ⟨some l, op⟩ hs
  refine ⟨(writeCode (decode cfg s op)).2.defs, ?_⟩
  simp only [step, h, modelLabelDefs, R_epc hR, AddrSpec.dollar, hR.frames, List.cons_append, List.nil_append]

/-- **DEPHASE restores** the offset and the stack in force before the matching PHASE; on an empty stack the
offset becomes 0 and the load counter is not touched. -/
theorem C10_dephase_restores (cfg : Cfg) (s : St) (v : Int) (hns : s.actPC ≠ structSeg) (h1 : -2147483648 ≤ v) (h2 : v ≤ 4294967295) :
    let s1 := (step cfg s ⟨none, .phase v⟩).1
    let s2 := (step cfg s1 ⟨none, .dephase⟩).1
    s2.phases s.actPC = s.phases s.actPC ∧ s2.pstack s.actPC = s.pstack s.actPC ∧
    (s.pstack s.actPC = [] → (step cfg s ⟨none, .dephase⟩).1.phases s.actPC = 0 ∧
       (step cfg s ⟨none, .dephase⟩).1.pcs s.actPC = wrap64 (s.pcs s.actPC)) := by
  have g1 : ¬ v < -2147483648 := by omega
  have g2 : ¬ v > 4294967295 := by omega
  have e1 : (step cfg s ⟨none, .phase v⟩).1.actPC = s.actPC := by
    simp [step, labelPart, writeCode_actPC, decode, codePHASE, hns, g1, g2]
  have k1 := writeCode_keeps (decode cfg s (.phase v))
  have k2 := writeCode_keeps (decode cfg (step cfg s ⟨none, .phase v⟩).1 .dephase)
  have hst : (step cfg s ⟨none, .phase v⟩).1.pstack s.actPC = s.phases s.actPC :: s.pstack s.actPC := by
    simp only [step, labelPart] at k1 ⊢
    rw [k1.2.1]; simp [decode, codePHASE, hns, g1, g2, upd]
  have hd := dephase_after (cfg := cfg) (step cfg s ⟨none, .phase v⟩).1 s.actPC _ _ e1 hns hst
  intro s1 s2
  refine ⟨?_, ?_, ?_⟩
  · show (step cfg (step cfg s ⟨none, .phase v⟩).1 ⟨none, .dephase⟩).1.phases s.actPC = _
    rw [(step_none_fields cfg _ .dephase).1]; exact hd.1
  · show (step cfg (step cfg s ⟨none, .phase v⟩).1 ⟨none, .dephase⟩).1.pstack s.actPC = _
    rw [(step_none_fields cfg _ .dephase).2]; exact hd.2
  · intro he
    have k3 := writeCode_keeps (decode cfg s .dephase)
    simp only [step, labelPart] at k3 ⊢
    refine ⟨by rw [k3.1]; simp [decode, codeDEPHASE, hns, he, upd], ?_⟩
    simp [decode, codeDEPHASE, hns, he, writeCode, chkPC, pc, upd]

/-- **SAVE/RESTORE**: RESTORE reinstates the CPU, segment and listing flag of the matching SAVE and pops the
stack (LIFO: whatever the top entry is, that is what comes back).  `hp`: the saved segment is a real segment -
a SAVE issued inside a STRUCT body records the structure pseudo segment, which RESTORE does not reinstate
(`C10_restore_struct_segment`). -/
theorem C10_save_restore (cfg : Cfg) (s : St) (c p : Nat) (l : Bool) (rest : List (Nat × Nat × Bool))
    (hs : s.saves = (c, p, l) :: rest) (hp : p ≠ structSeg) :
    (step cfg s ⟨none, .restore⟩).1.cpu = c ∧ (step cfg s ⟨none, .restore⟩).1.actPC = p ∧
    (step cfg s ⟨none, .restore⟩).1.listOn = l ∧ (step cfg s ⟨none, .restore⟩).1.saves = rest ∧
    (step cfg s ⟨none, .save⟩).1.saves = (s.cpu, s.actPC, s.listOn) :: s.saves := by
  have k := writeCode_keeps (decode cfg s .restore)
  have k2 := writeCode_keeps (decode cfg s .save)
  simp only [step, labelPart, writeCode_actPC]
  rw [k.2.2.1, k.2.2.2.1, k.2.2.2.2, k2.2.2.2.2]
  simp only [decode, codeRESTORE, codeSAVE, hs]
  by_cases h1 : p = s.actPC <;> by_cases h2 : c = s.cpu <;> simp [h1, h2, hp]

/-- RESTORE of an entry that recorded the structure pseudo segment (SAVE inside a STRUCT body) leaves the active
segment alone and still reinstates CPU and listing flag and pops the entry - the pseudo segment never becomes
active outside a structure (before the repair `f8e9b53` it did, and the next statement crashed). -/
theorem C10_restore_struct_segment (cfg : Cfg) (s : St) (c : Nat) (l : Bool) (rest : List (Nat × Nat × Bool))
    (hs : s.saves = (c, structSeg, l) :: rest) :
    (step cfg s ⟨none, .restore⟩).1.cpu = c ∧ (step cfg s ⟨none, .restore⟩).1.actPC = s.actPC ∧
    (step cfg s ⟨none, .restore⟩).1.listOn = l ∧ (step cfg s ⟨none, .restore⟩).1.saves = rest := by
  have k := writeCode_keeps (decode cfg s .restore)
  simp only [step, labelPart, writeCode_actPC]
  rw [k.2.2.1, k.2.2.2.1, k.2.2.2.2]
  simp only [decode, codeRESTORE, hs]
  by_cases h2 : c = s.cpu <;> simp [h2]

/-- **ALIGN n**: with `0 < n < 2^16` and `$ + n - 1 < 2^31` (the widths of `AlignValue : Word`, `NewPC : LongInt`)
the statement's length makes `$` the next multiple of `n`: `n ∣ $ + len`, `0 ≤ len < n`; and outside structures,
if the gap fits into the segment, `$` after the statement is exactly that. -/
theorem C10_align (cfg : Cfg) (s : St) (n : Int) (hn : 0 < n) (hn2 : n < 65536) (hw : epc s + n - 1 < 2147483648) :
    let len := (decode cfg s (.align n none)).codeLen
    n ∣ epc s + len ∧ 0 ≤ len ∧ len < n ∧
    (s.actPC ≠ structSeg → (chkPC s (wrap64 (epc s + len - 1)) = true ∨ len = 0) →
      epc (step cfg s ⟨none, .align n none⟩).1 = epc s + len ∧ (step cfg s ⟨none, .align n none⟩).2.errs = []) := by
  obtain ⟨l1, l2, l3, l4, _⟩ := codeALIGN_len cfg s n hn hn2 hw
  obtain ⟨b0, b1, b2, _⟩ := alignUp_spec (epc s) n (epc_nonneg s) hn
  simp only [decode]
  rw [l1]
  have hsum : epc s + (AddrSpec.alignUp (epc s) n - epc s) = AddrSpec.alignUp (epc s) n := by omega
  refine ⟨by rw [hsum]; exact b0, by omega, by omega, ?_⟩
  intro hns hchk
  have hwc := writeCode_ok (codeALIGN cfg s n none) (by rw [l4]; exact hns) l2 (by rw [l4, l1]; exact hchk)
  simp only [step, labelPart, decode, hwc, l4, l1, l3]
  refine ⟨?_, by simp⟩
  have e0 := epc_nonneg s
  simp only [epc, pc, upd_same]
  simp only [epc] at b1 b2 e0 hw
  simp only [wrap64_def] at *
  omega

/-- **STRUCT/UNION body, one field** (single-level named structure `nm`; `f` is the open frame): a labelled
reservation `l: DS k` defines the symbol `nm_l` as the current offset (always 0 in a union), emits nothing into the
code file, reports no error, and advances the body's counter by `k` (struct) resp. raises the union's length to
`max len k`. -/
theorem C10_struct_field (cfg : Cfg) (s : St) (f : Frame) (l : Nat) (k : Int)
    (hst : s.structs = [f]) (hnm : f.name.isSome = true) (hact : s.actPC = structSeg) (hph : s.phases structSeg = 0)
    (hoff : 0 ≤ s.pcs structSeg) (hk0 : 0 ≤ k) (hsum : s.pcs structSeg + k < 2147483648) :
    ∀ r, r = step cfg s ⟨some l, .res k⟩ →
    r.2.defs = [(⟨f.path, some l⟩, s.pcs structSeg)] ∧ r.2.ev = .none ∧ r.2.errs = [] ∧ r.2.crash = false ∧
    r.1.actPC = structSeg ∧
    (f.isUnion = false → r.1.pcs structSeg = s.pcs structSeg + k ∧ r.1.structs = [bump f (s.pcs structSeg)]) ∧
    (f.isUnion = true → r.1.pcs structSeg = 0 ∧ r.1.structs = [bump (bump f (s.pcs structSeg)) k]) := by
  have hepc : epc s = s.pcs structSeg := by
    unfold epc; rw [hact, hph]; simp only [wrap64_def]; omega
  have hin : innermostNamed [f] = some f := by simp [innermostNamed, hnm]
  have hbn : bumpNamed [f] (s.pcs structSeg) = [bump f (s.pcs structSeg)] := by simp [bumpNamed, hnm]
  have hlp : labelPart s ⟨some l, .res k⟩ =
      ({ s with structs := [bump f (s.pcs structSeg)] }, [(⟨f.path, some l⟩, s.pcs structSeg)]) := by
    simp only [labelPart, labelPresent, labelHandle, hst, hin, hepc, hbn, sumSave, Option.isSome]
    simp only [wrap64_def]
    have : s.pcs structSeg % 18446744073709551616 = s.pcs structSeg := by omega
    simp [this]
  have hti : toI32 k = k := toI32_small (by omega) (by omega)
  intro r hr
  subst hr
  simp only [step, hlp, decode, hti]
  unfold writeCode
  simp only [hact, pc]
  by_cases hu : f.isUnion = true
  · have hbu : (bump f (s.pcs structSeg)).isUnion = true := by unfold bump; split <;> simp [hu]
    simp [hu, hbu, upd, wrap64_def]
  · have hu' : f.isUnion = false := by simpa using hu
    have hbu : (bump f (s.pcs structSeg)).isUnion = false := by unfold bump; split <;> simp [hu']
    have : (s.pcs structSeg + k) % 18446744073709551616 = s.pcs structSeg + k := by omega
    simp [hu', hbu, upd, wrap64_def, this]

/-- **ENDSTRUCT of a single-level named structure**: defines the length symbol `nm_LEN` as the structure's
`TotLen` (the counter at ENDSTRUCT, or a larger recorded offset/union member length), goes back to the segment
that was active at STRUCT without touching its counter (`jump` to the same address: a new record, no bytes),
and reports no error. -/
theorem C10_struct_end (cfg : Cfg) (s : St) (f : Frame) (hst : s.structs = [f]) (hnm : f.name.isSome = true)
    (hact : s.actPC = structSeg) (hsv : s.structSaveSeg ≠ structSeg) (hoff : 0 ≤ s.pcs structSeg)
    (hlt : s.pcs structSeg < 2147483648) :
    ∀ r, r = step cfg s ⟨none, .endstruct⟩ →
    r.2.defs = [(⟨f.path, none⟩, max f.totLen (s.pcs structSeg))] ∧ r.2.errs = [] ∧ r.2.crash = false ∧
    r.1.actPC = s.structSaveSeg ∧ r.1.structs = [] ∧
    r.1.pcs s.structSaveSeg = wrap64 (s.pcs s.structSaveSeg) ∧ r.2.ev = .jump (wrap64 (s.pcs s.structSaveSeg)) := by
  have hti : toI32 (s.pcs structSeg) = s.pcs structSeg := toI32_small (by omega) (by omega)
  have hb : (bump f (s.pcs structSeg)).totLen = max f.totLen (s.pcs structSeg) := by
    unfold bump; rw [hti]
    by_cases hc : f.totLen < s.pcs structSeg
    · simp only [hc, if_true]; omega
    · simp only [hc, if_false]; omega
  obtain ⟨nm, hn⟩ := Option.isSome_iff_exists.mp hnm
  intro r hr
  subst hr
  simp only [step, labelPart, decode, codeENDSTRUCT, hst, hn, pc, hact, List.isEmpty_nil, if_true, hb]
  unfold writeCode
  simp [hsv, pc, upd, Ne.symm hsv]

/-- **Known finding `org-under-phase`** (negation of the refinement for the pinned `CodeORG_Core`): the program
`org $1000 / phase $8000 / db 1 / org $2000 / db 2 / dephase / db 3` is accepted by the spec machine (load
addresses $1000, $2000, $2001) while the model of the pinned code ends with an address overflow error. -/
def witnessOrg : List Stmt :=
  [⟨none, .org 4096⟩, ⟨none, .phase 32768⟩, ⟨none, .emit 1⟩, ⟨none, .org 8192⟩, ⟨none, .emit 1⟩, ⟨none, .dephase⟩, ⟨none, .emit 1⟩]

theorem C10_finding_org_under_phase :
    (AddrSpec.run AddrSpec.manualSegs (AddrSpec.init AddrSpec.manualSegs 0) witnessOrg).isSome = true ∧
    ((run { orgLoad := false } (init 0) witnessOrg).2.any (fun o => o.errs.contains errAdrOverflow)) = true ∧
    ((run { orgLoad := true } (init 0) witnessOrg).2.all (fun o => o.errs.isEmpty)) = true := by
  refine ⟨by decide, by decide, by decide⟩

end AslModel.C10
