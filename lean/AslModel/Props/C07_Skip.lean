import AslModel.Lemmas.PBindSkip
import AslModel.Props.C07_Filter
/-!
# C07 — records BIND does not copy (`$82..$85`, undefined kinds): the reader consumes exactly their bytes

Property theorems only.  Model: `Model/PBind.lean` (`readRecordHeader`, `skipRecord`, `pbindLoop`).  Spec of the
records' bytes: `Spec/PFileSkip.lean` (layouts of `asmcode.c WrRecHeader` / `WrPatches`, not of the reader).

* `C07_skip_exact` — `ReadRecordHeader` followed by `SkipRecord` consumes exactly the bytes of such a record,
  whatever follows it, whatever the header variables held before;
* `C07_pbind_steps_over` — one pass of pbind's loop over such a record: nothing written, byte count unchanged;
* `C07_reader_skipping` — the spec-side reader run on real files reads every such file back to its items;
* `C07_conserve_skipping` — conservation (`C07_conserve`) for source files that hold such records anywhere:
  the outcome is that of the same sources with those records taken out;
* `C07_conserve_options_skipping` — the same for option sequences (`C07_conserve_options`).
-/
namespace AslModel.C07
open AslModel.PFile AslModel.Tools

/-- **The reader consumes exactly the record's bytes**: for every well-formed record of kind `$82..$84`
(any family, segment, granularity, address, payload up to 65535 bytes), every `$85` record (any number of
16-byte patch and export entries, any string table) and every record of an undefined kind above `$85`. -/
theorem C07_skip_exact (prev : Hdr) (s : Skippable) (hwf : s.WF) (tl : List Byte) :
    ∃ h rest, readRecordHeader prev (serSkippable s ++ tl) = some (h, rest) ∧ skipRecord h.hdr rest = some tl ∧
      0x82 ≤ h.hdr.toNat :=
  ⟨hdrAfter prev s, bodyOf s ++ tl, read_skippable prev s hwf tl, skip_skippable prev s hwf tl, hdrAfter_kind prev s hwf⟩

/-- One pass of pbind's record loop over such a record consumes it, writes nothing and counts nothing —
for every filter state, `errno`, target contents. -/
theorem C07_pbind_steps_over (env : Env) (errno n fuel : Nat) (prev : Hdr) (sum : Nat) (s : Skippable) (hwf : s.WF)
    (tl out : List Byte) :
    ∃ h, pbindLoop env errno n (fuel + 1) prev sum (serSkippable s ++ tl) out = pbindLoop env errno n fuel h sum tl out :=
  ⟨hdrAfter prev s, loop_skip env errno n fuel prev sum s hwf tl out⟩

/-- **The SPEC reader the check runs on real files** (`parseFileSkipping`: the documented reader on the file
with the records of these kinds taken out) reads every such file back to exactly its items and creator
string — so "records kept = the input's items that pass the filter" is decided by it for every file the
quantifier of `C07_conserve_skipping` covers. -/
theorem C07_reader_skipping (els : List SrcEl) (creator : List Byte) (hwf : ∀ e ∈ els, ElWF e) :
    parseFileSkipping (serFileEls els creator) = some ((itemsOfEls els).map (·.1), creator) := by
  have hi := itemsOfEls_wf els hwf
  have h1 := strip_els els creator hwf (((els.map serEl).flatten ++ 0x00 :: creator).length + 1)
    (by have := len_le_els els hwf; simp only [List.length_append]; omega)
  have h2 := parseFile_serFileForm (itemsOfEls els) creator (fun i hi' => (hi i hi').1)
  simp only [serFileEls, magic, List.cons_append, List.nil_append, List.append_assoc, parseFileSkipping]
  rw [h1]
  simpa [serFileForm, magic] using h2

/-- **Conservation with records that are not copied.**  For every list of source files whose elements are
well-formed items (any header form) or well-formed records of the kinds above, in any order: pbind's outcome
is exactly the outcome `C07_conserve` states for the same sources with those records taken out. -/
theorem C07_conserve_skipping (env : Env) (creatorB : List Byte) (quiet : Bool) (errno0 : Nat)
    (inputs : List (List SrcEl × List Byte)) (hb : 0 < env.bufSize)
    (hc : ChkHarmless env.cfg (effErrno quiet errno0)) (hin : ∀ f ∈ inputs, SrcElsOK env.lenSlack f) :
    pbindMain env 0x1489 creatorB quiet errno0 (inputs.map (fun f => serFileEls f.1 f.2)) =
      some ⟨0, serFileAuto (expected env.flt (plainInputs inputs)) creatorB,
            (plainInputs inputs).map (fun f => sumLen (keptItems env.flt f.1))⟩ := by
  obtain ⟨e, he⟩ := processFiles_els env quiet hb inputs hin ⟨le16 0x1489, errno0, []⟩ hc
  have hm : le16 0x1489 = magic := by decide
  have h0 : b hEnd = 0x00 := by decide
  have hk : inputs.map (fun f => keptItems env.flt (itemsOfEls f.1)) =
      (plainInputs inputs).map (fun f => keptItems env.flt f.1) := by
    simp [plainInputs, List.map_map, Function.comp_def]
  have hs : inputs.map (fun f => sumLen (keptItems env.flt (itemsOfEls f.1))) =
      (plainInputs inputs).map (fun f => sumLen (keptItems env.flt f.1)) := by
    simp [plainInputs, List.map_map, Function.comp_def]
  unfold pbindMain
  rw [he]
  simp only [hk, hs, expected_eq, serFileAuto, hm, h0, List.nil_append, List.append_assoc]

/-- The same for option sequences: with the array the `-f`/`+f` options leave (stores inside
`FilterBytes[]`, ids < 256) the target holds exactly the items the documented set keeps, and the documented
reader reads it back to them. -/
theorem C07_conserve_options_skipping (cap : Nat) (ops : List (Bool × List Nat)) (a : FilterArr)
    (hopt : filterOfOptions cap ops = some a) (hr : IdsInRange (filterEvents ops))
    (env : Env) (henv : env.flt = a.live) (creatorB : List Byte) (quiet : Bool) (errno0 : Nat)
    (inputs : List (List SrcEl × List Byte)) (hb : 0 < env.bufSize)
    (hc : ChkHarmless env.cfg (effErrno quiet errno0)) (hin : ∀ f ∈ inputs, SrcElsOK env.lenSlack f) :
    pbindMain env 0x1489 creatorB quiet errno0 (inputs.map (fun f => serFileEls f.1 f.2)) =
      some ⟨0, serFileAuto (expectedByOptions (filterEvents ops) (plainInputs inputs)) creatorB,
            (plainInputs inputs).map (fun f => sumLen (keptByOptions (filterEvents ops) f.1))⟩
    ∧ parseFile (serFileAuto (expectedByOptions (filterEvents ops) (plainInputs inputs)) creatorB) =
        some (expectedByOptions (filterEvents ops) (plainInputs inputs), creatorB) := by
  have hplain : ∀ f ∈ plainInputs inputs, SrcOK env.lenSlack f := by
    intro f hf
    simp only [plainInputs, List.mem_map] at hf
    obtain ⟨g, hg, rfl⟩ := hf
    obtain ⟨h1, h2⟩ := hin g hg
    have := itemsOfEls_wf g.1 h1
    exact ⟨fun i hi => (this i hi).1, fun i hi => (this i hi).2, h2⟩
  have h1 := C07_conserve_skipping env creatorB quiet errno0 inputs hb hc hin
  have h2 := C07_conserve_options cap ops a hopt hr env henv creatorB quiet errno0 (plainInputs inputs) hb hc hplain
  have h3 := C07_conserve env creatorB quiet errno0 (plainInputs inputs) hb hc hplain
  refine ⟨?_, h2.2⟩
  rw [h1, ← h3.1, h2.1]

/-! Non-vacuity: a source with a `$83` record, a `$85` record with one patch entry, one export entry and a
string table, and an undefined kind between the items of `exSrc`. -/
def exSkips : List Skippable :=
  [.rdata 0x83 0x51 1 1 0x1000 [9, 8, 7], .relocInfo [List.replicate 16 0xaa] [List.replicate 16 0xbb] [0x61, 0x00, 0x62, 0x00],
   .other 0x90 0x20 [1, 2]]
def exEls : List SrcEl × List Byte :=
  ([.skip (.relocInfo [List.replicate 16 0xaa] [List.replicate 16 0xbb] [0x61, 0x00, 0x62, 0x00]), .item (.data exRec1, true),
    .skip (.rdata 0x83 0x51 1 1 0x1000 [9, 8, 7]), .item (.entry 0x1234, false), .skip (.other 0x90 0x20 [1, 2]),
    .item (.data exRec3, true)], [0x41, 0x53])
example : ∀ s ∈ exSkips, s.WF := by
  intro s hs
  simp only [exSkips, List.mem_cons, List.mem_nil_iff, or_false] at hs
  rcases hs with rfl | rfl | rfl <;> simp [Skippable.WF]
example : SrcElsOK 1 exEls := by
  refine ⟨?_, by decide⟩
  intro e he
  simp only [exEls, List.mem_cons, List.mem_nil_iff, or_false] at he
  rcases he with rfl | rfl | rfl | rfl | rfl | rfl <;>
    simp [ElWF, Skippable.WF, Item.WF, Rec.WF, exRec1, exRec3]
example : (parseFileSkipping (serFileEls exEls.1 exEls.2)).map (·.1.length) = some 3 := by decide
example : (serSkippable (exSkips.getD 1 (.other 0 0 []))).length = 49 := by decide
example : (expectedByOptions (filterEvents exOps) (plainInputs [exEls])).length = 2 := by decide

end AslModel.C07
