import AslModel.Lemmas.MacroNest
/-! C11 - macro, repetition and inclusion constructs are transparent: property theorems, bookkeeping of expansions
(recursion counter of a macro, local-symbol handles; Model/MacroNest.lean, Spec/MacroNest.lean).

The manual: "AS keeps an internal counter for every macro that is incremented when an expansion of this macro is begun
and decremented again when the expansion is completed ... at a limit settable via NESTMAX, AS will refuse to expand."

* `C11_nest_counter_inv`: in every state the machine can reach (any program, any number of passes) the counter of every
  macro equals the number of expansions of this macro that are open (tags on the input stack) - whatever the control
  parameters of the macro are (`gs` only decides about the handle).
* `C11_nest_refused_iff`: a call is refused iff the limit is on and more than NESTMAX expansions of this macro are open.
* `C11_nest_call_independent_of_history`: a call of a macro with at most NESTMAX open expansions is carried out in every
  reachable state, i.e. however many calls were made before, in whatever pass.
* `C11_nest_handles_balanced`: with a Restorer that pops only what the tag has pushed (`emptyPops := false`, the
  behaviour the manual describes) the depth of the handle stack always equals the number of open expansions that have
  delivered a line; `C11_finding_empty_expansion_pops_handle`: with the Restorer of the C code (`emptyPops := true`) an
  empty-bodied macro called from a macro takes the caller's handle away and the caller's own label is undefined
  afterwards (known finding empty-expansion-pops-enclosing-local-handle). -/
namespace AslModel.NestModel
open AslModel.NestSpec

/-- the counters agree with the input stack after every round of the main loop -/
theorem C11_nest_counter_step (p : Prog) (q : Quirks) (s s' : St) (h : Inv s) (hs : step p q s = some s') : Inv s' := by
  unfold step at hs
  split at hs
  · cases hs
  · rename_i f below hst
    split at hs
    · cases hs
      exact restorer_inv q f s below hst h
    · split at hs
      · cases hs
        intro x
        show s.use x = openCount (_ :: below) x
        rw [h x, hst, openCount_cons, openCount_cons]
        rfl
      · rename_i l f' s1 hd
        cases hs
        obtain ⟨hk, hm, hu⟩ := deliver_same f s l f' s1 hd
        apply exec_inv
        intro x
        show s1.use x = openCount (f' :: below) x
        rw [hu, h x, hst, openCount_cons, openCount_cons, isOpen_congr x f f' hk hm]

/-- In every reachable state the recursion counter of every macro is the number of its open expansions. -/
theorem C11_nest_counter_inv (p : Prog) (q : Quirks) (s : St) (h : Reach p q s) : Inv s := by
  induction h with
  | init => exact startPass_inv p {} 1 (fun _ => rfl)
  | step _ hs ih => exact C11_nest_counter_step p q _ _ ih hs
  | pass n _ hempty ih =>
    apply startPass_inv
    intro m
    rw [ih m, hempty]
    rfl

/-- A call is refused iff the limit is on and more than NESTMAX expansions of this very macro are open. -/
theorem C11_nest_refused_iff (p : Prog) (q : Quirks) (s : St) (h : Reach p q s) (m a : Nat) :
    (expandMacro p s m a).refused = s.refused + 1 ↔ (p.nestMax > 0 ∧ openCount s.stack m > p.nestMax) := by
  rw [expandMacro_refused, C11_nest_counter_inv p q s h m]

/-- A call of a macro that has at most NESTMAX open expansions is carried out - whatever was called before, in whatever
    pass, whatever the macro's control parameters: the new tag is on the stack and nothing is reported. -/
theorem C11_nest_call_independent_of_history (p : Prog) (q : Quirks) (s : St) (h : Reach p q s) (m a : Nat)
    (hopen : openCount s.stack m ≤ p.nestMax) :
    (expandMacro p s m a).refused = s.refused ∧ openCount (expandMacro p s m a).stack m = openCount s.stack m + 1 := by
  have hu := C11_nest_counter_inv p q s h m
  have hinv := expandMacro_inv p s m a (C11_nest_counter_inv p q s h)
  unfold expandMacro at hinv ⊢
  have hr : ¬ (p.nestMax > 0 ∧ s.use m > p.nestMax) := by omega
  simp only [hr, if_false] at hinv ⊢
  refine ⟨trivial, ?_⟩
  rw [openCount_cons]
  simp [isOpen]; omega

/-- the limit switched off (NESTMAX 0): no call is ever refused -/
theorem C11_nest_no_limit (p : Prog) (s : St) (m a : Nat) (h0 : p.nestMax = 0) : (expandMacro p s m a).refused = s.refused := by
  unfold expandMacro
  simp [h0]

/-- With a Restorer that pops only what the tag has pushed, every round of the main loop keeps the handle stack as deep
    as there are open expansions that have delivered a line. -/
theorem C11_nest_handles_step (p : Prog) (q : Quirks) (hq : q.emptyPops = false) (s s' : St) (h : HInv s)
    (hs : step p q s = some s') : HInv s' := by
  unfold step at hs
  split at hs
  · cases hs
  · rename_i f below hst
    have hcnt : s.hstack.length = (if f.pushed then 1 else 0) + pushedCount below := by
      rw [h.1, hst, pushedCount_cons]
    have hff : FOK f := h.2 f (by rw [hst]; simp)
    have hbelow : ∀ g ∈ below, FOK g := fun g hg => h.2 g (by rw [hst]; simp [hg])
    split at hs
    · cases hs
      refine ⟨?_, ?_⟩
      · unfold restorer
        rw [restorerUse_hstack, restorerUse_stack, restorerLoc_stack]
        unfold restorerLoc
        by_cases hp : f.pushed = true
        · have := FOK_pushed f hff hp
          simp only [hq, hp, Bool.false_or, this, Bool.and_self, if_true]
          rw [popLoc_hlen]
          show s.hstack.length - 1 = pushedCount below
          simp [hp] at hcnt; omega
        · simp only [hq, hp, Bool.false_or, Bool.and_false]
          show s.hstack.length = pushedCount below
          simp [hp] at hcnt; omega
      · intro g hg
        unfold restorer at hg
        rw [restorerUse_stack, restorerLoc_stack] at hg
        exact hbelow g hg
    · split at hs
      · cases hs
        refine ⟨?_, ?_⟩
        · show s.hstack.length = pushedCount (_ :: below)
          rw [pushedCount_cons]; exact hcnt
        · intro g hg
          simp only [List.mem_cons] at hg
          rcases hg with rfl | hg
          · simpa [FOK] using hff
          · exact hbelow g hg
      · rename_i l f' s1 hd
        cases hs
        apply exec_hinv
        unfold deliver at hd
        split at hd
        · cases hd
        · rename_i l0 ls hrest
          cases hd
          have hpos : f.pushed = true → 0 < s.hstack.length := by
            intro hp; simp [hp] at hcnt; omega
          obtain ⟨hfok, hlen⟩ := deliver_hlen f ls s hff hpos
          refine ⟨?_, ?_⟩
          · show (handleOps f s).hstack.length = pushedCount (nextFrame f ls :: below)
            rw [pushedCount_cons]; omega
          · intro g hg
            simp only [List.mem_cons] at hg
            rcases hg with rfl | hg
            · exact hfok
            · exact hbelow g hg

/-- With a Restorer that pops only what the tag has pushed (the behaviour the manual describes: labels are local to the
    expansion that defines them), in every reachable state the handle stack is exactly as deep as there are open
    expansions that have delivered a line - in particular it is empty again when the input is used up. -/
theorem C11_nest_handles_balanced (p : Prog) (q : Quirks) (hq : q.emptyPops = false) (s : St) (h : Reach p q s) :
    s.hstack.length = pushedCount s.stack := by
  suffices HInv s from this.1
  induction h with
  | init => exact startPass_hinv p {} 1
  | step _ hs ih => exact C11_nest_handles_step p q hq _ _ ih hs
  | pass n _ _ _ => exact startPass_hinv p _ n

/-! ### the known finding: an expansion that never delivers a line pops a handle it has not pushed -/

/-- `emp macro / endm ; outer macro / lab1: / db 1 / emp / db lab1&255 / endm ; outer` -/
def findingProg : Prog :=
  { defs := [{ gs := false, body := [] },
             { gs := false, body := [.deflab 1, .emit 1, .call 0 0, .reflab 1] }],
    top := [.call 1 0], nestMax := 256 }

/-- KNOWN FINDING (model level): with the Restorer of the C code the caller's label is undefined after the call of the
    empty-bodied macro (the hand expansion `lab1: / db 1 / db lab1&255` has no undefined symbol: `NestSpec.run`);
    with a Restorer that pops only what the tag has pushed the model produces the spec's bytes. -/
theorem C11_finding_empty_expansion_pops_handle :
    (run findingProg { emptyPops := true } 100).undef = 1 ∧
    (AslModel.NestSpec.run findingProg 100).undef = 0 ∧
    (run findingProg { emptyPops := false } 100).undef = 0 ∧
    (run findingProg { emptyPops := false } 100).out = (AslModel.NestSpec.run findingProg 100).out := by
  decide

/-! non-vacuity -/

example : (step findingProg {} (startPass findingProg {} 1)).isSome = true := by decide

/-- a state with an open expansion is reachable: the first round of the main loop of `findingProg` calls `outer` -/
example : ∃ s, Reach findingProg {} s ∧ openCount s.stack 1 = 1 ∧ s.use 1 = 1 :=
  ⟨(step findingProg {} (startPass findingProg {} 1)).get (by decide),
   Reach.step Reach.init (Option.some_get _).symm, by decide, by decide⟩

/-- a recursive macro under NESTMAX 2: the third nested call is refused, the counter never exceeds 3 -/
example : (run { defs := [{ gs := false, body := [.emit 1, .call 0 0] }], top := [.call 0 0], nestMax := 2 } {} 200).refused = 1 ∧
    (run { defs := [{ gs := false, body := [.emit 1, .call 0 0] }], top := [.call 0 0], nestMax := 2 } {} 200).maxUse = 3 := by decide

/-- 40 calls one after the other of a GLOBALSYMBOLS macro under NESTMAX 2: none is refused -/
example : (run { defs := [{ gs := true, body := [.emit 1] }], top := List.replicate 40 (.call 0 0), nestMax := 2 } {} 2000).refused = 0 := by
  decide

end AslModel.NestModel
