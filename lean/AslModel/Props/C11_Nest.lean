import AslModel.Lemmas.MacroNest
import AslModel.Lemmas.NestTop
import AslModel.Lemmas.NestLower
import AslModel.Lemmas.NestRefuse
/-! C11 - macro, repetition and inclusion constructs are transparent: property theorems, bookkeeping of expansions
(recursion counter of a macro, local-symbol handles; Model/MacroNest.lean, Spec/MacroNest.lean).

The manual: "AS keeps an internal counter for every macro that is incremented when an expansion of this macro is begun
and decremented again when the expansion is completed ... at a limit settable via NESTMAX, AS will refuse to expand."

* `C11_nest_counter_inv`: in every state the machine can reach (any program, any number of passes) the counter of every
  macro equals the number of expansions of this macro that are open (tags on the input stack) - whatever the control
  parameters of the macro are (`gs` only decides about the handle).
* `C11_nest_refused_iff`: a call is refused iff the limit is on and more than NESTMAX expansions of this macro are open.
* `C11_nest_call_independent_of_history`: a call of a macro with at most NESTMAX open expansions is carried out in every
  reachable state, i.e. however many calls were made before, in whatever pass.
* `C11_nest_handles_balanced`: with a Restorer that pops only what the tag has pushed (`emptyPops := false`, the
  behaviour the manual describes) the depth of the handle stack always equals the number of open expansions that have
  delivered a line; `C11_finding_empty_expansion_pops_handle`: with the Restorer of the C code (`emptyPops := true`) an
  empty-bodied macro called from a macro takes the caller's handle away and the caller's own label is undefined
  afterwards (known finding empty-expansion-pops-enclosing-local-handle, repaired in /repo: the probe selects
  `emptyPops := false`).

WHOLE PROGRAM (full statement: `NestModel.run p q = NestSpec.run p` in the observable outputs, for every program and enough
fuel).  Proved, for every program (any macro table, any nesting of calls and repetitions, NESTMAX on or off), every quirk
value with `emptyPops = false`, every SPEC fuel `F` with which the SPEC's expansion ends, every machine fuel of at least
`cost p F` rounds per pass (`cost`: computed by `NestSpec.walk`, Lemmas/NestSpecAux.lean):
* `C11_nest_pass_refines`: one pass of the machine = one pass of the SPEC (code bytes, program counter, symbol table under
  the renaming handle -> scope, double definitions, undefined symbols / request for another pass, no refusal, input stack
  and handle stack empty, counters 0) - from any related pair of states, so for the first and the second pass;
* `C11_nest_run_refines`: the pass loop: two passes iff the first met a label before its definition and no double
  definition, and then the SPEC's second pass; else the SPEC's first pass;
* `C11_nest_refines`: model = SPEC in bytes, refusals (none), undefined and doubly defined labels, under the hypotheses
  "no macro has more than NESTMAX+1 open expansions", "no label twice in one scope" and `Stable` (the SPEC's second pass
  changes nothing where the first pass found every label); `C11_nest_refines_hypothesis_needed` /
  `C11_finding_forward_shadow`: without `Stable` the statement is false of the model AND of the real assembler (known
  finding forward-reference-to-local-label-takes-outer-label);
* `C11_nest_refuses_partial`: more than NESTMAX+1 open expansions in an expansion that ends => the machine refuses
  (PARTIAL: not for expansions that never end under a limit, see there);
* `C11_nest_pass_ends_iff`: with the limit off a fuel for which the machine's pass ends exists iff the SPEC's expansion
  ends for some fuel (both directions with computable fuels); `C11_nest_unbounded_recursion`: the non-terminating case. -/
namespace AslModel.NestModel
open AslModel.NestSpec

/-- the counters agree with the input stack after every round of the main loop -/
theorem C11_nest_counter_step (p : Prog) (q : Quirks) (s s' : St) (h : Inv s) (hs : step p q s = some s') : Inv s' := by
  unfold step at hs
  split at hs
  · cases hs
  · rename_i f below hst
    split at hs
    · cases hs
      exact restorer_inv q f s below hst h
    · split at hs
      · cases hs
        intro x
        show s.use x = openCount (_ :: below) x
        rw [h x, hst, openCount_cons, openCount_cons]
        rfl
      · rename_i l f' s1 hd
        cases hs
        obtain ⟨hk, hm, hu⟩ := deliver_same f s l f' s1 hd
        apply exec_inv
        intro x
        show s1.use x = openCount (f' :: below) x
        rw [hu, h x, hst, openCount_cons, openCount_cons, isOpen_congr x f f' hk hm]

/-- In every reachable state the recursion counter of every macro is the number of its open expansions. -/
theorem C11_nest_counter_inv (p : Prog) (q : Quirks) (s : St) (h : Reach p q s) : Inv s := by
  induction h with
  | init => exact startPass_inv p {} 1 (fun _ => rfl)
  | step _ hs ih => exact C11_nest_counter_step p q _ _ ih hs
  | pass n _ hempty ih =>
    apply startPass_inv
    intro m
    rw [ih m, hempty]
    rfl

/-- A call is refused iff the limit is on and more than NESTMAX expansions of this very macro are open. -/
theorem C11_nest_refused_iff (p : Prog) (q : Quirks) (s : St) (h : Reach p q s) (m a : Nat) :
    (expandMacro p s m a).refused = s.refused + 1 ↔ (p.nestMax > 0 ∧ openCount s.stack m > p.nestMax) := by
  rw [expandMacro_refused, C11_nest_counter_inv p q s h m]

/-- A call of a macro that has at most NESTMAX open expansions is carried out - whatever was called before, in whatever
    pass, whatever the macro's control parameters: the new tag is on the stack and nothing is reported. -/
theorem C11_nest_call_independent_of_history (p : Prog) (q : Quirks) (s : St) (h : Reach p q s) (m a : Nat)
    (hopen : openCount s.stack m ≤ p.nestMax) :
    (expandMacro p s m a).refused = s.refused ∧ openCount (expandMacro p s m a).stack m = openCount s.stack m + 1 := by
  have hu := C11_nest_counter_inv p q s h m
  have hinv := expandMacro_inv p s m a (C11_nest_counter_inv p q s h)
  unfold expandMacro at hinv ⊢
  have hr : ¬ (p.nestMax > 0 ∧ s.use m > p.nestMax) := by omega
  simp only [hr, if_false] at hinv ⊢
  refine ⟨trivial, ?_⟩
  rw [openCount_cons]
  simp [isOpen]; omega

/-- the limit switched off (NESTMAX 0): no call is ever refused -/
theorem C11_nest_no_limit (p : Prog) (s : St) (m a : Nat) (h0 : p.nestMax = 0) : (expandMacro p s m a).refused = s.refused := by
  unfold expandMacro
  simp [h0]

/-- With a Restorer that pops only what the tag has pushed, every round of the main loop keeps the handle stack as deep
    as there are open expansions that have delivered a line. -/
theorem C11_nest_handles_step (p : Prog) (q : Quirks) (hq : q.emptyPops = false) (s s' : St) (h : HInv s)
    (hs : step p q s = some s') : HInv s' := by
  unfold step at hs
  split at hs
  · cases hs
  · rename_i f below hst
    have hcnt : s.hstack.length = (if f.pushed then 1 else 0) + pushedCount below := by
      rw [h.1, hst, pushedCount_cons]
    have hff : FOK f := h.2 f (by rw [hst]; simp)
    have hbelow : ∀ g ∈ below, FOK g := fun g hg => h.2 g (by rw [hst]; simp [hg])
    split at hs
    · cases hs
      refine ⟨?_, ?_⟩
      · unfold restorer
        rw [restorerUse_hstack, restorerUse_stack, restorerLoc_stack]
        unfold restorerLoc
        by_cases hp : f.pushed = true
        · have := FOK_pushed f hff hp
          simp only [hq, hp, Bool.false_or, this, Bool.and_self, if_true]
          rw [popLoc_hlen]
          show s.hstack.length - 1 = pushedCount below
          simp [hp] at hcnt; omega
        · simp only [hq, hp, Bool.false_or, Bool.and_false]
          show s.hstack.length = pushedCount below
          simp [hp] at hcnt; omega
      · intro g hg
        unfold restorer at hg
        rw [restorerUse_stack, restorerLoc_stack] at hg
        exact hbelow g hg
    · split at hs
      · cases hs
        refine ⟨?_, ?_⟩
        · show s.hstack.length = pushedCount (_ :: below)
          rw [pushedCount_cons]; exact hcnt
        · intro g hg
          simp only [List.mem_cons] at hg
          rcases hg with rfl | hg
          · simpa [FOK] using hff
          · exact hbelow g hg
      · rename_i l f' s1 hd
        cases hs
        apply exec_hinv
        unfold deliver at hd
        split at hd
        · cases hd
        · rename_i l0 ls hrest
          cases hd
          have hpos : f.pushed = true → 0 < s.hstack.length := by
            intro hp; simp [hp] at hcnt; omega
          obtain ⟨hfok, hlen⟩ := deliver_hlen f ls s hff hpos
          refine ⟨?_, ?_⟩
          · show (handleOps f s).hstack.length = pushedCount (nextFrame f ls :: below)
            rw [pushedCount_cons]; omega
          · intro g hg
            simp only [List.mem_cons] at hg
            rcases hg with rfl | hg
            · exact hfok
            · exact hbelow g hg

/-- With a Restorer that pops only what the tag has pushed (the behaviour the manual describes: labels are local to the
    expansion that defines them), in every reachable state the handle stack is exactly as deep as there are open
    expansions that have delivered a line - in particular it is empty again when the input is used up. -/
theorem C11_nest_handles_balanced (p : Prog) (q : Quirks) (hq : q.emptyPops = false) (s : St) (h : Reach p q s) :
    s.hstack.length = pushedCount s.stack := by
  suffices HInv s from this.1
  induction h with
  | init => exact startPass_hinv p {} 1
  | step _ hs ih => exact C11_nest_handles_step p q hq _ _ ih hs
  | pass n _ _ _ => exact startPass_hinv p _ n

/-! ### the known finding: an expansion that never delivers a line pops a handle it has not pushed -/

/-- `emp macro / endm ; outer macro / lab1: / db 1 / emp / db lab1&255 / endm ; outer` -/
def findingProg : Prog :=
  { defs := [{ gs := false, body := [] },
             { gs := false, body := [.deflab 1, .emit 1, .call 0 0, .reflab 1] }],
    top := [.call 1 0], nestMax := 256 }

/-- KNOWN FINDING (model level): with the Restorer of the C code the caller's label is undefined after the call of the
    empty-bodied macro (the hand expansion `lab1: / db 1 / db lab1&255` has no undefined symbol: `NestSpec.run`);
    with a Restorer that pops only what the tag has pushed the model produces the spec's bytes. -/
theorem C11_finding_empty_expansion_pops_handle :
    (run findingProg { emptyPops := true } 100).undef = 1 ∧
    (AslModel.NestSpec.run findingProg 100).undef = 0 ∧
    (run findingProg { emptyPops := false } 100).undef = 0 ∧
    (run findingProg { emptyPops := false } 100).out = (AslModel.NestSpec.run findingProg 100).out := by
  decide

/-! ### the machine carries out the SPEC's structural expansion -/

/-- ONE PASS.  For every program (any macro table, any nesting of calls and repetitions, NESTMAX on or off), a Restorer
    that pops only what the tag has pushed, any fuel `F` for which the SPEC's expansion of the program ends (`ok`) without
    a macro ever having more than NESTMAX+1 open expansions, and any machine state `ms0` / SPEC state `s0` at the beginning
    of pass `n` that are related (`Data`: same symbol table under the renaming `ρ` of handles to scopes, counters at 0):
    the machine's pass - run with at least `cost p F` rounds - ends with an empty input stack, no handle left, all
    recursion counters at 0, no call refused, and with exactly the SPEC's code bytes, program counter, symbol table
    (under `ρ`), number of double definitions and of undefined symbols (in pass 1: the request for another pass). -/
theorem C11_nest_pass_refines (p : Prog) (q : Quirks) (hq : q.emptyPops = false) (F : Nat) (ms0 : St) (s0 : SSt) (n : Nat)
    (hg : Good p (lines p F topCtx p.top s0))
    (hd : Data (rhoOf (walk p F 0 p.top {}).log (walk p F 0 p.top {}).ns) s0 (startPass p ms0 n))
    (hu : ∀ m, ms0.use m = 0) (hns : s0.nextScope = 1) (fuel : Nat) (hfuel : cost p F ≤ fuel) :
    PassOut (rhoOf (walk p F 0 p.top {}).log (walk p F 0 p.top {}).ns) (lines p F topCtx p.top s0)
      (runPass p q fuel (startPass p ms0 n)) :=
  pass_sim hq (rhoOf_ok _ ((walk_ext p F 0 p.top {}).2 winv_init)) F ms0 s0 n hg (rhoOf_agree _ _) hd hu hns fuel hfuel

/-- THE PASS LOOP.  Under the same hypotheses on the SPEC's run (`ok`, limit), for every fuel of at least `cost p F` rounds
    per pass the machine's run ends with an empty input stack, no handle left and no call refused, and
    * if the SPEC's first pass met a label before its definition and no double definition: after a second pass, with the code
      bytes, the undefined and the doubly defined symbols of the SPEC's run (`NestSpec.run`, the SPEC's second pass);
    * otherwise after the first pass, with the code bytes and double definitions of the SPEC's first pass. -/
theorem C11_nest_run_refines (p : Prog) (q : Quirks) (hq : q.emptyPops = false) (F : Nat)
    (hok : (AslModel.NestSpec.run p F).ok = true)
    (hlim : p.nestMax = 0 ∨ (AslModel.NestSpec.run p F).maxOpen ≤ p.nestMax + 1)
    (fuel : Nat) (hfuel : cost p F ≤ fuel) : RunOut p F (run p q fuel) :=
  run_sim_passes hq F ⟨hok, hlim⟩ fuel hfuel

/-- WHOLE PROGRAM.  `NestModel.run p q = NestSpec.run p` in everything that can be observed: the delivered lines' code
    bytes, the refused calls (none), the undefined and the doubly defined labels - for every program, NESTMAX on or off,
    every fuel of at least `cost p F` rounds per pass.  Hypotheses: the Restorer pops only what the tag has pushed; the
    SPEC's expansion ends; no macro has more than NESTMAX+1 open expansions (the calls the machine carries out); no label
    is defined twice in one scope (otherwise the assembler stops after the first pass: `C11_nest_run_refines`);
    `Stable`: where the first pass has found every label, the SPEC's second pass writes the same bytes - the assembler makes
    no second pass then (needed: `C11_nest_refines_hypothesis_needed`, known finding
    forward-reference-to-local-label-takes-outer-label). -/
theorem C11_nest_refines (p : Prog) (q : Quirks) (hq : q.emptyPops = false) (F : Nat)
    (hok : (AslModel.NestSpec.run p F).ok = true)
    (hlim : p.nestMax = 0 ∨ (AslModel.NestSpec.run p F).maxOpen ≤ p.nestMax + 1)
    (hdbl : (AslModel.NestSpec.run p F).dbl = 0) (hstab : Stable p F) (fuel : Nat) (hfuel : cost p F ≤ fuel) :
    (run p q fuel).out = (AslModel.NestSpec.run p F).out ∧ (run p q fuel).refused = 0 ∧
    (run p q fuel).undef = (AslModel.NestSpec.run p F).undef ∧ (run p q fuel).dbl = 0 ∧
    (run p q fuel).stack = [] ∧ (run p q fuel).hstack = [] := by
  have h := run_sim_passes hq F ⟨hok, hlim⟩ fuel hfuel
  obtain ⟨hd12, hu12, _⟩ := run_vs_first p F
  by_cases hC : (first p F).dbl = 0 ∧ 0 < (first p F).undef
  · obtain ⟨_, ho, hu, hd⟩ := h.two hC
    exact ⟨ho, h.refused, hu, hd.trans hdbl, h.stack, h.hstack⟩
  · obtain ⟨_, ho, hu, hd⟩ := h.one hC
    have hu0 : (first p F).undef = 0 := by
      rcases Nat.eq_zero_or_pos (first p F).undef with h0 | hpos
      · exact h0
      · exact absurd ⟨hd12.trans hdbl, hpos⟩ hC
    have hu2 : (AslModel.NestSpec.run p F).undef = 0 := by omega
    exact ⟨ho.trans (hstab hu0), h.refused, hu.trans hu2.symm, hd.trans (hd12.trans hdbl), h.stack, h.hstack⟩

/-- THE REFUSALS.  Full statement: whenever the SPEC's verdict is `mustRefuse` (NESTMAX on and the expansion by hand opens
    more than NESTMAX+1 expansions of one macro at a time, or never ends) the machine refuses a call.  PARTIAL: proved for
    every program whose expansion by hand ENDS (`ok`, any fuel F); missing is the expansion that never ends under a limit.
    That needs "an expansion without end opens unboundedly many expansions of one macro", a counting argument over the
    finite macro table that is not done - and a well-formedness hypothesis: a reduced program in which the body of a
    repetition contains this very repetition (`loop d` inside body `d`; no source text has this shape) never ends and never
    calls a macro.  The correspondence check runs unbounded recursion under a limit on the real assembler;
    `C11_nest_unbounded_recursion` treats the limit switched off. -/
theorem C11_nest_refuses_partial (p : Prog) (q : Quirks) (hq : q.emptyPops = false) (F : Nat)
    (hok : (AslModel.NestSpec.run p F).ok = true) (hN : 0 < p.nestMax)
    (hbig : p.nestMax + 1 < (AslModel.NestSpec.run p F).maxOpen) (fuel : Nat) (hfuel : cost p F ≤ fuel) :
    0 < (run p q fuel).refused :=
  refuses hq F hok hN hbig fuel hfuel

/-- bounded recursion to depth 5 under NESTMAX 2 -/
def deepProg : Prog := { defs := [{ gs := false, body := [.emit 1, .callDec 0] }], top := [.call 0 5], nestMax := 2 }

/-- the hypotheses of `C11_nest_refuses_partial` hold for `deepProg`; the machine refuses one call (and the SPEC's verdict
    is `mustRefuse`) -/
example : (AslModel.NestSpec.run deepProg 20).ok = true ∧ 0 < deepProg.nestMax ∧
    deepProg.nestMax + 1 < (AslModel.NestSpec.run deepProg 20).maxOpen ∧ cost deepProg 20 ≤ 40 ∧
    (run deepProg { emptyPops := false } 40).refused = 1 ∧
    verdict deepProg (AslModel.NestSpec.run deepProg 20) = .mustRefuse := by
  decide +kernel

/-- ENOUGH FUEL EXISTS IFF THE EXPANSION IS FINITE.  With the limit switched off (NESTMAX 0) the machine's pass over the
    program ends for some fuel iff the SPEC's structural expansion ends for some fuel; the fuels are computable from each
    other: `cost p F` rounds are enough when the SPEC needs `F`, and when the machine ends within `fuel` rounds the SPEC's
    expansion ends within `fuel + 1`. -/
theorem C11_nest_pass_ends_iff (p : Prog) (q : Quirks) (hq : q.emptyPops = false) (h0 : p.nestMax = 0) :
    (∃ fuel, (runPass p q fuel (startPass p {} 1)).stack = []) ↔ (∃ F, (first p F).ok = true) := by
  constructor
  · rintro ⟨fuel, hdone⟩
    refine ⟨fuel + 1, ?_⟩
    cases hok : (first p (fuel + 1)).ok with
    | true => rfl
    | false =>
      obtain ⟨k, ms', hk, hsteps⟩ := pass_runs_long (q := q) hq h0 (fuel + 1) hok
      have := steps_le_of_done hsteps fuel hdone
      omega
  · rintro ⟨F, hok⟩
    exact ⟨cost p F, (C11_nest_pass_refines p q hq F {} {} 1 (good_of_ok h0 hok)
      ⟨rfl, rfl, rfl, rfl, fun _ => rfl, fun _ => rfl, rfl, rfl, (fun _ h => nomatch h), rfl, rfl⟩ (fun _ => rfl) rfl _
      (Nat.le_refl _)).stack⟩

/-- `m macro / db 1 / m / endm ; m` with NESTMAX 0 -/
def loopProg : Prog := { defs := [{ gs := false, body := [.emit 1, .call 0 0] }], top := [.call 0 0], nestMax := 0 }

/-- THE NON-TERMINATING CASE: a macro that calls itself, limit switched off.  The SPEC's expansion ends for no fuel, and
    the machine's pass ends for no fuel. -/
theorem C11_nest_unbounded_recursion (q : Quirks) (hq : q.emptyPops = false) :
    (∀ F, (AslModel.NestSpec.run loopProg F).ok = false) ∧
    (∀ fuel, (runPass loopProg q fuel (startPass loopProg {} 1)).stack ≠ []) := by
  have hstay : ∀ F c ls s, s.ok = false → (lines loopProg F c ls s).ok = false := by
    intro F c ls s hs
    cases h : (lines loopProg F c ls s).ok with
    | false => rfl
    | true => rw [(lines_mono loopProg F c ls s).1 h] at hs; cases hs
  have key : ∀ F, (∀ c s, (lines loopProg F c [.call 0 0] s).ok = false) ∧
      (∀ c s, (lines loopProg F c [.emit 1, .call 0 0] s).ok = false) := by
    intro F
    induction F with
    | zero => exact ⟨fun c s => by rw [lines_zero], fun c s => by rw [lines_zero]⟩
    | succ F ih =>
      refine ⟨fun c s => ?_, fun c s => ?_⟩
      · rw [lines_cons]
        apply hstay
        exact ih.2 _ _
      · rw [lines_cons]
        exact ih.1 _ _
  refine ⟨fun F => (key F).1 _ _, fun fuel hdone => ?_⟩
  obtain ⟨F, hok⟩ := (C11_nest_pass_ends_iff loopProg q hq rfl).1 ⟨fuel, hdone⟩
  have : (first loopProg F).ok = false := (key F).1 _ _
  rw [hok] at this; cases this

/-- `lb1: / m` with `m macro / db lb1&255 / lb1: / endm`: the private label has the name of a global one and is used
    before its definition -/
def shadowProg : Prog :=
  { defs := [{ gs := false, body := [.reflab 1, .deflab 1] }], top := [.deflab 1, .call 0 0], nestMax := 256 }

/-- KNOWN FINDING forward-reference-to-local-label-takes-outer-label (model level; the real assembler does the same):
    the first pass finds the global label, nothing is undefined, no second pass is made and the byte is the GLOBAL
    label's value 0; the expansion by hand (`NestSpec.run`) uses the private label, value 1, and has no error. -/
theorem C11_finding_forward_shadow :
    (run shadowProg { emptyPops := false } 100).out = [0] ∧ (run shadowProg { emptyPops := false } 100).pass = 1 ∧
    errors (run shadowProg { emptyPops := false } 100) = 0 ∧
    (AslModel.NestSpec.run shadowProg 100).out = [1] ∧ (AslModel.NestSpec.run shadowProg 100).undef = 0 ∧
    (AslModel.NestSpec.run shadowProg 100).dbl = 0 := by
  decide

/-- ... so `C11_nest_refines` needs its hypothesis `Stable`: all other hypotheses hold for `shadowProg`, the conclusion does
    not. -/
theorem C11_nest_refines_hypothesis_needed : (AslModel.NestSpec.run shadowProg 100).ok = true ∧
    (shadowProg.nestMax = 0 ∨ (AslModel.NestSpec.run shadowProg 100).maxOpen ≤ shadowProg.nestMax + 1) ∧
    (AslModel.NestSpec.run shadowProg 100).dbl = 0 ∧ cost shadowProg 100 ≤ 100 ∧ ¬ Stable shadowProg 100 ∧
    (run shadowProg { emptyPops := false } 100).out ≠ (AslModel.NestSpec.run shadowProg 100).out := by
  decide

/-! non-vacuity -/

/-- a program with nested calls, a GLOBALSYMBOLS macro, repetitions (with and without lines, counts 0 and 2), bounded
    recursion, an empty macro, private labels used before and after their definition, a global label used before its
    definition (so two passes are needed) -/
def refProg : Prog :=
  { defs := [ { gs := false, body := [.deflab 1, .emit 7, .reflab 2, .call 1 1, .deflab 2, .call 4 0, .reflab 1] },
              { gs := true, body := [.defArg, .loop 2 2 .irp, .refArg] },
              { gs := false, body := [.deflab 5, .reflab 5, .callDec 1] },
              { gs := false, body := [.emit 9] },
              { gs := false, body := [] } ],
    top := [.reflab 9, .call 0 0, .loop 3 0 .rept, .loop 3 0 .irpc, .loop 4 2 .rept, .deflab 9, .emit 255], nestMax := 2 }

/-- the hypotheses of `C11_nest_refines` hold for `refProg` (SPEC fuel 30): the expansion ends, macro 1 has at most
    NESTMAX = 2 open expansions, a second pass is needed and made -/
example : (AslModel.NestSpec.run refProg 30).ok = true ∧
    (refProg.nestMax = 0 ∨ (AslModel.NestSpec.run refProg 30).maxOpen ≤ refProg.nestMax + 1) ∧
    (AslModel.NestSpec.run refProg 30).dbl = 0 ∧ Stable refProg 30 ∧
    (first refProg 30).undef = 2 ∧ (AslModel.NestSpec.run refProg 30).maxOpen = 2 ∧ cost refProg 30 = 53 := by
  decide +kernel

/-- `C11_nest_refines` on `refProg`: what the machine delivers with 53 or more rounds per pass -/
example (fuel : Nat) (h : 53 ≤ fuel) : (run refProg { emptyPops := false } fuel).out =
    [255, 1, 3, 8, 9, 8, 7, 4, 5, 4, 3, 12, 7, 13] ∧
    (run refProg { emptyPops := false } fuel).refused = 0 := by
  have hr := C11_nest_refines refProg { emptyPops := false } rfl 30 (by decide +kernel) (by decide +kernel)
    (by decide +kernel) (by decide +kernel) fuel (by
      have : cost refProg 30 = 53 := by decide +kernel
      omega)
  exact ⟨hr.1.trans (by decide +kernel), hr.2.1⟩

/-- the hypotheses of `C11_nest_pass_refines` at the beginning of the first pass -/
example : Data (rhoOf (walk refProg 30 0 refProg.top {}).log (walk refProg 30 0 refProg.top {}).ns) {} (startPass refProg {} 1) :=
  ⟨rfl, rfl, rfl, rfl, fun _ => rfl, fun _ => rfl, rfl, rfl, (fun _ h => nomatch h), rfl, rfl⟩


example : (step findingProg {} (startPass findingProg {} 1)).isSome = true := by decide

/-- a state with an open expansion is reachable: the first round of the main loop of `findingProg` calls `outer` -/
example : ∃ s, Reach findingProg {} s ∧ openCount s.stack 1 = 1 ∧ s.use 1 = 1 :=
  ⟨(step findingProg {} (startPass findingProg {} 1)).get (by decide),
   Reach.step Reach.init (Option.some_get _).symm, by decide, by decide⟩

/-- a recursive macro under NESTMAX 2: the third nested call is refused, the counter never exceeds 3 -/
example : (run { defs := [{ gs := false, body := [.emit 1, .call 0 0] }], top := [.call 0 0], nestMax := 2 } {} 200).refused = 1 ∧
    (run { defs := [{ gs := false, body := [.emit 1, .call 0 0] }], top := [.call 0 0], nestMax := 2 } {} 200).maxUse = 3 := by decide

/-- 40 calls one after the other of a GLOBALSYMBOLS macro under NESTMAX 2: none is refused -/
example : (run { defs := [{ gs := true, body := [.emit 1] }], top := List.replicate 40 (.call 0 0), nestMax := 2 } {} 2000).refused = 0 := by
  decide

end AslModel.NestModel
