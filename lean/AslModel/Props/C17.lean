import AslModel.Lemmas.CmdArg
import AslModel.Lemmas.KeyFile
import AslModel.Lemmas.Drehe
import AslModel.Model.ReportPipe
import AslModel.Generated.AsParams
/-! C17 - code output is deterministic and independent of reporting options: the part that is
expressible as theorems.

* `C17_option_sources`, `C17_keyfile_lines`, `C17_plus_negates`: the cmdarg.c model (`Model/CmdArg.lean`)
  delivers, for every switch table, every handler behaviour and every clean parameter list, the same
  handler-call sequence / option state / file list whether the parameters come from argv, from the
  `ASCMD` string, from a key file named in `ASCMD` or from a key file named on the command line - namely
  what the parameter-list spec written from the manual (`Spec/Options.lean`) says.
* `C17_keyfile_reader`, `C17_keyfile_layout`, `C17_keyfile_final_line_end`, `C17_keyfile_as_argv`: the key file READER
  (`fgets`/`ReadLn`/the `while (!feof)` loop of ProcessFile, `Model/CmdArg.lean` `keyFileLines`) on the raw content of a key
  file: any number of blanks before, between and after the parameters, empty lines, LF or CR-LF line ends, last line with or
  without line end - the parameter lists that reach the handlers are the blank-separated words of the lines.
* `C17_drehe_involutive`, `C17_drehe_length`: DreheCodes is an involution on the code buffer - the reason
  why WriteBytes and MakeList may both swap in place.
* `C17_noninterference`, `C17_noninterference_run`: on the per-line pipeline model the code-affecting part
  of the state depends on the configuration only through its code-affecting part.
* `C17_ascmd_any_length`: the ASCMD/key-file route has no parameter limit (it had one of 255 on the pinned tree, overrun silently).

The statement about real programs (identical .p under all report configurations) is tested
differentially by vlib/props/c17.py, not proved. -/
namespace AslModel.C17
open AslModel.Options AslModel.CmdArg AslModel.Drehe AslModel.ReportPipe

variable {σ : Type}

/-- file system with one key file `k` holding the given lines -/
def oneKey (k : Tok) (lines : List Tok) : Tok → Option (List Tok) := fun n => if n = k then some lines else none

theorem decodeLine_clean (recs : List (CMDRec σ)) (ts : List Tok) (st : St σ) (h : Clean ts) :
    (decodeLine recs (joinSp ts) st).view = lineParams recs ts st.view ∧ (decodeLine recs (joinSp ts) st).ub = st.ub := by
  rw [decodeLine_join recs ts st h]
  exact envLoop_refines recs ts.length ts st (Nat.le_refl _)

theorem argv_noKey (recs : List (CMDRec σ)) (fs : Tok → Option (List Tok)) (ts : List Tok) (st : St σ)
    (hk : ∀ t ∈ ts, isKeyRef t = false) :
    (argvLoop recs fs ts false st).view = lineParams recs ts st.view ∧ (argvLoop recs fs ts false st).ub = st.ub := by
  -- without key references the file system is irrelevant: use the empty one on the spec side
  have key : ∀ (n : Nat) (ts : List Tok) (st : St σ), ts.length ≤ n → (∀ t ∈ ts, isKeyRef t = false) →
      (argvLoop recs fs ts false st).view = lineParams recs ts st.view ∧ (argvLoop recs fs ts false st).ub = st.ub := by
    intro n
    induction n with
    | zero =>
      intro ts st h _
      have : ts = [] := List.length_eq_zero_iff.mp (by omega)
      subst this; simp [argvLoop, lineParams]
    | succ n ih =>
      intro ts st h hk
      cases ts with
      | nil => simp [argvLoop, lineParams]
      | cons t rest =>
        have hr : rest.length ≤ n := by simpa using h
        have hkt : isKeyRef t = false := hk t (by simp)
        have hkr : ∀ x ∈ rest, isKeyRef x = false := fun x hx => hk x (by simp [hx])
        have hhead : (t.head? == some '@') = false := by
          cases t with
          | nil => simp
          | cons c b => simpa [isKeyRef] using hkt
        rw [lineParams_cons]
        simp only [argvLoop, processParam, hhead, processParam0_eq recs t _ st hkt, hkt]
        have hu : st.view.user = st.user := rfl
        rw [hu]
        rcases hp : param recs t (rest.headD []) st.user with ⟨r, u⟩
        cases r with
        | ok => simpa [St.view] using ih rest { st with user := u } hr hkr
        | err => simpa [St.view] using ih rest { st with user := u, errs := st.errs ++ [.invalid false t] } hr hkr
        | file => simpa [St.view] using ih rest { st with user := u, files := st.files ++ [t] } hr hkr
        | arg =>
          cases rest with
          | nil => simp [argvLoop, St.view]
          | cons t2 rest' =>
            have hr' : rest'.length ≤ n := by simp at hr; omega
            simpa [argvLoop, St.view] using ih rest' { st with user := u } hr' (fun x hx => hkr x (by simp [hx]))
  exact key ts.length ts st (Nat.le_refl _) hk

theorem processCMD_argv (recs : List (CMDRec σ)) (fs : Tok → Option (List Tok)) (ts : List Tok) (st : St σ)
    (h : ts.length ≤ maxParam) : processCMD recs fs [] ts st = argvLoop recs fs ts false st := by
  have hfit : ¬ (ts.length + 1 > maxParam + 1) := by omega
  simp [processCMD, decodeLine, clrBlanks, hfit]

/-- **Option sources.**  For every switch table `recs` (any names, any handlers with any effect on the
option state `σ`), every start state and every clean parameter list `ts` (non-empty parameters without
white space, no key references, fewer than 256 of them, the first one not starting with `;`):
the parameters given on the command line, written into `ASCMD`, written into a key file named by `ASCMD`,
or written into a key file named on the command line all produce the option state, file list and rejected
parameters that the parameter-list spec prescribes - in particular the same handler calls with the same
`Negate` flag and argument, in the same order (instantiate `σ` with a call log). -/
theorem C17_option_sources (recs : List (CMDRec σ)) (fs : Tok → Option (List Tok)) (k : Tok)
    (ts : List Tok) (st : St σ) (h : Clean ts) (hk : ∀ t ∈ ts, isKeyRef t = false) :
    let want := lineParams recs ts st.view
    ((processCMD recs fs [] ts st).view = want ∧ (processCMD recs fs [] ts st).ub = st.ub) ∧
    ((processCMD recs fs (joinSp ts) [] st).view = want ∧ (processCMD recs fs (joinSp ts) [] st).ub = st.ub) ∧
    ((processCMD recs (oneKey k [joinSp ts]) ('@' :: k) [] st).view = want ∧
      (processCMD recs (oneKey k [joinSp ts]) ('@' :: k) [] st).ub = st.ub) ∧
    ((processCMD recs (oneKey k [joinSp ts]) [] ['@' :: k] st).view = want ∧
      (processCMD recs (oneKey k [joinSp ts]) [] ['@' :: k] st).ub = st.ub) := by
  intro want
  have hfile : ∀ st : St σ, processFile recs (oneKey k [joinSp ts]) k st = decodeLine recs (joinSp ts) st := by
    intro st; simp [processFile, oneKey]
  refine ⟨?_, ?_, ?_, ?_⟩
  · -- argv
    have hfit : ¬ (ts.length + 1 > maxParam + 1) := by have := h.fits; simp [envStrCap, maxParam] at *; omega
    have : processCMD recs fs [] ts st = argvLoop recs fs ts false st := by
      simp [processCMD, decodeLine, clrBlanks, hfit]
    rw [this]; exact argv_noKey recs fs ts st hk
  · -- ASCMD line
    have hne : ((joinSp ts).head? == some '@') = false := by
      cases ts with
      | nil => simp [joinSp]
      | cons t r =>
        obtain ⟨c, rest, he, _, hh⟩ := joinSp_head_ok t r (h.ok t (by simp))
        have hkt := hk t (by simp)
        cases t with
        | nil => simp at hh
        | cons c' b =>
          simp at hh; subst hh
          rw [he]; simpa [isKeyRef] using hkt
    have : processCMD recs fs (joinSp ts) [] st = decodeLine recs (joinSp ts) st := by
      simp [processCMD, hne, argvLoop, maxParam]
    rw [this]; exact decodeLine_clean recs ts st h
  · -- key file named in ASCMD
    have : processCMD recs (oneKey k [joinSp ts]) ('@' :: k) [] st = decodeLine recs (joinSp ts) st := by
      simp [processCMD, argvLoop, hfile, maxParam]
    rw [this]; exact decodeLine_clean recs ts st h
  · -- key file named on the command line
    have : processCMD recs (oneKey k [joinSp ts]) [] ['@' :: k] st = decodeLine recs (joinSp ts) st := by
      simp [processCMD, argvLoop, processParam, hfile, decodeLine, clrBlanks, maxParam]
    rw [this]; exact decodeLine_clean recs ts st h

/-- **Key files with several lines.**  A key file whose lines are clean parameter lists that each start
with a switch is equivalent to the concatenation of its lines given on the command line, provided no
handler claims an argument when none is offered (`NoArgOnEmpty`, true of every as.c callback).  Without
the proviso the manual's rule "switch and argument on the same line" bites. -/
theorem C17_keyfile_lines (recs : List (CMDRec σ)) (fs : Tok → Option (List Tok)) (k : Tok)
    (ls : List (List Tok)) (st : St σ)
    (hclean : ∀ l ∈ ls, Clean l) (hk : ∀ l ∈ ls, ∀ t ∈ l, isKeyRef t = false)
    (hsw : ∀ l ∈ ls, StartsWithSwitch l) (hna : NoArgOnEmpty recs) (hfit : ls.flatten.length ≤ maxParam) :
    (processCMD recs (oneKey k (ls.map joinSp)) [] ['@' :: k] st).view
      = (processCMD recs fs [] ls.flatten st).view ∧
    (processCMD recs (oneKey k (ls.map joinSp)) ('@' :: k) [] st).view
      = (processCMD recs fs [] ls.flatten st).view := by
  have hfold : ∀ (ls : List (List Tok)) (st : St σ), (∀ l ∈ ls, Clean l) →
      ((ls.map joinSp).foldl (fun st l => decodeLine recs l st) st).view = keyLines recs ls st.view := by
    intro ls
    induction ls with
    | nil => intro st _; simp [keyLines]
    | cons l ls ih =>
      intro st hc
      have h1 := decodeLine_clean recs l st (hc l (by simp))
      have h2 := ih (decodeLine recs (joinSp l) st) (fun x hx => hc x (by simp [hx]))
      simp only [List.map_cons, List.foldl_cons, h2, h1.1]
      simp [keyLines]
  have hfile : ∀ st : St σ, (processFile recs (oneKey k (ls.map joinSp)) k st).view = keyLines recs ls st.view := by
    intro st
    have : processFile recs (oneKey k (ls.map joinSp)) k st =
        (ls.map joinSp).foldl (fun st l => decodeLine recs l st) st := by simp [processFile, oneKey]
    rw [this]; exact hfold ls st hclean
  have hargv : (processCMD recs fs [] ls.flatten st).view = lineParams recs ls.flatten st.view := by
    have := processCMD_argv recs fs ls.flatten st hfit
    rw [this]
    exact (argv_noKey recs fs ls.flatten st (by
      intro t ht
      obtain ⟨l, hl, htl⟩ := List.mem_flatten.mp ht
      exact hk l hl t htl)).1
  have hflat := keyLines_flatten recs hna ls st.view hsw
  constructor
  · have : processCMD recs (oneKey k (ls.map joinSp)) [] ['@' :: k] st = processFile recs (oneKey k (ls.map joinSp)) k st := by
      simp [processCMD, argvLoop, processParam, decodeLine, clrBlanks, maxParam]
    rw [this, hfile, hargv, hflat]
  · have : processCMD recs (oneKey k (ls.map joinSp)) ('@' :: k) [] st = processFile recs (oneKey k (ls.map joinSp)) k st := by
      simp [processCMD, argvLoop, maxParam]
    rw [this, hfile, hargv, hflat]

/-! ### key files as files: blanks, line ends, the last line -/

/-- file system with one key file `k` of the given content -/
def oneRaw (k : Tok) (content : Tok) : Tok → Option Tok := fun n => if n = k then some content else none

/-- **Key file reader.**  For a key file made of lines in any layout (`KLine`: blanks before the first parameter and after
every parameter), each terminated by LF or CR-LF, optionally followed by one more line WITHOUT line end, `ReadLn` in the
`while (!feof)` loop of ProcessFile delivers exactly the line bodies - the unterminated last line included - and, when the file
ends with a line end, one more empty line. -/
theorem C17_keyfile_reader (ls : List (KLine × LineEnd)) (last : Option KLine)
    (hg : ∀ p ∈ ls, p.1.Good) (hl : ∀ l, last = some l → l.Good) :
    keyFileLines (renderKey ls last) = ls.map (·.1.body) ++ [lastBody last] :=
  keyFileLines_render ls last hg hl

/-- **Key file layout.**  Whatever the layout (blanks, empty lines, LF / CR-LF, final line end or not), a key file named on
the command line or by `ASCMD` has the effect the parameter-list spec gives to the lists of its blank-separated words, line by
line (`keyParams` = the parameters of the lines, no characters). -/
theorem C17_keyfile_layout (recs : List (CMDRec σ)) (k : Tok) (ls : List (KLine × LineEnd)) (last : Option KLine) (st : St σ)
    (hg : ∀ p ∈ ls, p.1.Good) (hl : ∀ l, last = some l → l.Good)
    (hc : ∀ p ∈ ls, Clean p.1.params) (hcl : ∀ l, last = some l → Clean l.params) :
    (processCMD recs (rawFs (oneRaw k (renderKey ls last))) [] ['@' :: k] st).view = keyLines recs (keyParams ls last) st.view ∧
    (processCMD recs (rawFs (oneRaw k (renderKey ls last))) ('@' :: k) [] st).view = keyLines recs (keyParams ls last) st.view := by
  have hfile := processFile_render recs (oneRaw k (renderKey ls last)) k ls last st (by simp [oneRaw]) hg hl hc hcl
  constructor
  · have : processCMD recs (rawFs (oneRaw k (renderKey ls last))) [] ['@' :: k] st
        = processFile recs (rawFs (oneRaw k (renderKey ls last))) k st := by
      simp [processCMD, argvLoop, processParam, decodeLine, clrBlanks, maxParam]
    rw [this, hfile]
  · have : processCMD recs (rawFs (oneRaw k (renderKey ls last))) ('@' :: k) [] st
        = processFile recs (rawFs (oneRaw k (renderKey ls last))) k st := by
      simp [processCMD, argvLoop, maxParam]
    rw [this, hfile]

/-- **The parameters read from a key file are its blank-separated words.**  The spec reads a key file as a text file
(`Spec/Options.lean` `keyFileParams`: lines ended by LF or CR-LF, the last one possibly without line end; the parameters of a
line are its blank-separated words).  cmdarg.c's reader - `fgets` in 255-character pieces, `ReadLn`'s stripping, the `feof` loop,
DecodeLine's in-place split - has exactly this effect, for every layout and whatever the final line end is. -/
theorem C17_keyfile_words (recs : List (CMDRec σ)) (k : Tok) (ls : List (KLine × LineEnd)) (last : Option KLine) (st : St σ)
    (hg : ∀ p ∈ ls, p.1.Good) (hl : ∀ l, last = some l → l.Good)
    (hc : ∀ p ∈ ls, Clean p.1.params) (hcl : ∀ l, last = some l → Clean l.params) :
    (processCMD recs (rawFs (oneRaw k (renderKey ls last))) [] ['@' :: k] st).view
      = keyLines recs (keyFileParams (renderKey ls last)) st.view ∧
    (processCMD recs (rawFs (oneRaw k (renderKey ls last))) ('@' :: k) [] st).view
      = keyLines recs (keyFileParams (renderKey ls last)) st.view := by
  have h := C17_keyfile_layout recs k ls last st hg hl hc hcl
  rw [keyLines_keyFileParams recs ls last st.view hg hl]
  exact h

/-- **The final line end does not matter.**  The same key file with its last line terminated (by LF or CR-LF) or not
terminated at all: same option state, same files, same rejected parameters - on both key file routes. -/
theorem C17_keyfile_final_line_end (recs : List (CMDRec σ)) (k : Tok) (ls : List (KLine × LineEnd)) (l : KLine) (e : LineEnd)
    (st : St σ) (hg : ∀ p ∈ ls, p.1.Good) (hl : l.Good) (hc : ∀ p ∈ ls, Clean p.1.params) (hcl : Clean l.params) :
    (processCMD recs (rawFs (oneRaw k (renderKey (ls ++ [(l, e)]) none))) [] ['@' :: k] st).view
      = (processCMD recs (rawFs (oneRaw k (renderKey ls (some l)))) [] ['@' :: k] st).view ∧
    (processCMD recs (rawFs (oneRaw k (renderKey (ls ++ [(l, e)]) none))) ('@' :: k) [] st).view
      = (processCMD recs (rawFs (oneRaw k (renderKey ls (some l)))) ('@' :: k) [] st).view := by
  have h1 := C17_keyfile_layout recs k (ls ++ [(l, e)]) none st
    (by intro p hp; rcases List.mem_append.mp hp with h | h
        · exact hg p h
        · simp at h; subst h; exact hl)
    (by intro x hx; cases hx)
    (by intro p hp; rcases List.mem_append.mp hp with h | h
        · exact hc p h
        · simp at h; subst h; exact hcl)
    (by intro x hx; cases hx)
  have h2 := C17_keyfile_layout recs k ls (some l) st hg (by intro x hx; cases hx; exact hl) hc (by intro x hx; cases hx; exact hcl)
  have hp : keyParams (ls ++ [(l, e)]) none = keyParams ls (some l) := by simp [keyParams]
  rw [hp] at h1
  exact ⟨h1.1.trans h2.1.symm, h1.2.trans h2.2.symm⟩

/-- **A key file = its words on the command line.**  If every non-empty line starts with a switch and no handler claims an
argument when none is offered (true of every as.c callback, `C17_as_callbacks_no_arg_on_empty`), the key file - in any layout,
with any final line end - is equivalent to all its blank-separated words given on the command line. -/
theorem C17_keyfile_as_argv (recs : List (CMDRec σ)) (fs : Tok → Option (List Tok)) (k : Tok)
    (ls : List (KLine × LineEnd)) (last : Option KLine) (st : St σ)
    (hg : ∀ p ∈ ls, p.1.Good) (hl : ∀ l, last = some l → l.Good)
    (hc : ∀ p ∈ ls, Clean p.1.params) (hcl : ∀ l, last = some l → Clean l.params)
    (hk : ∀ l ∈ keyParams ls last, ∀ t ∈ l, isKeyRef t = false)
    (hsw : ∀ l ∈ keyParams ls last, StartsWithSwitch l) (hna : NoArgOnEmpty recs)
    (hfit : (keyParams ls last).flatten.length ≤ maxParam) :
    (processCMD recs (rawFs (oneRaw k (renderKey ls last))) [] ['@' :: k] st).view
      = (processCMD recs fs [] (keyParams ls last).flatten st).view ∧
    (processCMD recs (rawFs (oneRaw k (renderKey ls last))) ('@' :: k) [] st).view
      = (processCMD recs fs [] (keyParams ls last).flatten st).view := by
  have hlay := C17_keyfile_layout recs k ls last st hg hl hc hcl
  have hargv : (processCMD recs fs [] (keyParams ls last).flatten st).view = lineParams recs (keyParams ls last).flatten st.view := by
    rw [processCMD_argv recs fs _ st hfit]
    exact (argv_noKey recs fs _ st (by
      intro t ht
      obtain ⟨l, hl', htl⟩ := List.mem_flatten.mp ht
      exact hk l hl' t htl)).1
  have hflat := keyLines_flatten recs hna (keyParams ls last) st.view hsw
  exact ⟨by rw [hlay.1, hargv, hflat], by rw [hlay.2, hargv, hflat]⟩

/-- **`+opt` negation.**  `+x` and `-x` are the same switch parameter - same whole-word / letter-by-letter
resolution, same offered argument - and differ only in the `Negate` flag handed to the handlers. -/
theorem C17_plus_negates (recs : List (CMDRec σ)) (body next : Tok) (u : σ) :
    param recs ('+' :: body) next u = switchParam recs true body (offered next) u ∧
    param recs ('-' :: body) next u = switchParam recs false body (offered next) u := by
  constructor <;> simp [param]

/-- **No parameter limit on the ASCMD / key-file route** (since the repair of `DecodeLine`, which used to collect the
parameters in `char *EnvStr[256]` without a bound - finding `ascmd-more-than-255-parameters-overrun-envstr`): a line that is
the blank-separated join of ANY number of well-formed parameters is split back into exactly these parameters and handed to the
parameter loop; no undefined behaviour is reached whatever the length. -/
theorem C17_ascmd_any_length (recs : List (CMDRec σ)) (ts : List Tok) (st : St σ) (hok : ∀ t ∈ ts, TokOK t)
    (hc : ∀ t r, ts = t :: r → t.head? ≠ some ';') :
    decodeLine recs (joinSp ts) st = envLoop recs ts st := by
  cases ts with
  | nil => simp [decodeLine, joinSp, clrBlanks, envLoop]
  | cons t r =>
    have ht : TokOK t := hok t (by simp)
    obtain ⟨c, rest, he, _, hhead⟩ := joinSp_head_ok t r ht
    have hclr : clrBlanks (joinSp (t :: r)) = joinSp (t :: r) := dropWhile_joinSp t r ht
    have hsemi : (c == ';') = false := by
      have := hc t r rfl
      rw [hhead] at this
      simpa using this
    have hsplit := splitLine_join (t :: r) ((joinSp (t :: r)).length + 1) hok
      (by have := joinSp_length_ge (t :: r) hok; omega)
    unfold decodeLine
    simp only [hclr]
    rw [he] at hsplit ⊢
    simp only [hsemi, Bool.false_eq_true, if_false, hsplit]

example : ∀ t ∈ List.replicate 300 ("-q".toList), TokOK t := by
  intro t ht; rw [List.eq_of_mem_replicate ht]; exact ⟨by decide, by decide⟩

/-- **Generated obligation.**  On the table regenerated from the current as.c (`Generated/AsParams.lean`: every
handler of `ASParams[]` called with an empty argument, both `Negate` values, by a probe linked against as.c.o)
no handler answers CMDArg (1) or CMDFile (3) - the proviso `NoArgOnEmpty` of `C17_keyfile_lines` holds for the
real assembler, and the model's three-valued handler result loses nothing. -/
theorem C17_as_callbacks_no_arg_on_empty :
    ∀ e ∈ AslModel.Generated.asParams, e.2.1 ≠ 1 ∧ e.2.2 ≠ 1 ∧ e.2.1 ≠ 3 ∧ e.2.2 ≠ 3 := by decide

/-! ### DreheCodes -/

/-- **DreheCodes is an involution**: for every buffer, every `ActListGran` and every length. -/
theorem C17_drehe_involutive (gran l : Nat) (buf : List UInt8) :
    dreheCodes gran l (dreheCodes gran l buf) = buf := by
  unfold dreheCodes
  by_cases h2 : gran = 2
  · simp [h2, turn2_invol]
  · by_cases h4 : gran = 4
    · simp [h4, turn4_invol]
    · simp [h2, h4]

theorem C17_drehe_length (gran l : Nat) (buf : List UInt8) : (dreheCodes gran l buf).length = buf.length := by
  unfold dreheCodes
  by_cases h2 : gran = 2
  · simp [h2, turn2_length]
  · by_cases h4 : gran = 4
    · simp [h4, turn4_length]
    · simp [h2, h4]

/-- what DreheCodes does to the bytes: each full unit is reversed (16-bit case, one unit) -/
theorem C17_drehe_unit2 (b0 b1 : UInt8) (rest : List UInt8) (n : Nat) :
    turn2 (n + 1) (b0 :: b1 :: rest) = b1 :: b0 :: turn2 n rest := turn2_cons n b0 b1 rest

theorem C17_drehe_unit4 (b0 b1 b2 b3 : UInt8) (rest : List UInt8) (n : Nat) :
    turn4 (n + 1) (b0 :: b1 :: b2 :: b3 :: rest) = b3 :: b2 :: b1 :: b0 :: turn4 n rest := turn4_cons n b0 b1 b2 b3 rest

/-! ### noninterference of the report options on the per-line pipeline -/

/-- the code part of one line, written without any report feature -/
def codeStep (cc : CodeCfg) (c : CodeSt) (l : Line) : CodeSt :=
  let c0 := { c with buf := l.code }
  let c1 := if cc.codeOutput then
      (if l.dontPrint then { c0 with newRecords := c0.newRecords ++ [c0.pc + l.codeLen] }
       else if l.codeLen = 0 then c0
       else { c0 with out := c0.out ++ ((if cc.turnWords then dreheCodes cc.listGran (l.codeLen * cc.gran) l.code else l.code).take (l.codeLen * cc.gran)) })
    else c0
  { c1 with pc := c.pc + l.codeLen }

theorem step_code (cfg : Cfg) (s : CodeSt × RepSt) (l : Line) : (step cfg s l).1 = codeStep cfg.code s.1 l := by
  have inv := C17_drehe_involutive
  unfold step makeList writeCode writeBytes codeStep
  by_cases hl : cfg.rep.listOn = true <;> by_cases ho : cfg.code.codeOutput = true <;>
    by_cases hd : l.dontPrint = true <;> by_cases hz : l.codeLen = 0 <;>
    by_cases ht : cfg.code.turnWords = true <;>
    by_cases hq : (cfg.code.gran != cfg.code.listGran && cfg.code.listGran == 1) = true <;>
    simp [hl, ho, hd, hz, ht, hq, inv]

/-- **Noninterference (one line).**  Two configurations with the same code-affecting part, started in
states with the same code-affecting part (report parts arbitrary), leave the same code-affecting part:
program counter, bytes handed to the code file, record starts and the code buffer itself. -/
theorem C17_noninterference (cfg1 cfg2 : Cfg) (s1 s2 : CodeSt × RepSt) (l : Line)
    (hc : cfg1.code = cfg2.code) (hs : s1.1 = s2.1) : (step cfg1 s1 l).1 = (step cfg2 s2 l).1 := by
  rw [step_code, step_code, hc, hs]

/-- **Noninterference (whole program).** -/
theorem C17_noninterference_run (cfg1 cfg2 : Cfg) (ls : List Line) :
    ∀ (s1 s2 : CodeSt × RepSt), cfg1.code = cfg2.code → s1.1 = s2.1 → (run cfg1 s1 ls).1 = (run cfg2 s2 ls).1 := by
  induction ls with
  | nil => intro s1 s2 _ hs; simpa [run] using hs
  | cons l ls ih =>
    intro s1 s2 hc hs
    have := C17_noninterference cfg1 cfg2 s1 s2 l hc hs
    simpa [run] using ih (step cfg1 s1 l) (step cfg2 s2 l) hc this

/-! ### non-vacuity -/

/-- a call log as option state: every handler appends (name, negate, argument) -/
def logSwitch (name : String) (wantsArg : Bool) : CMDRec (List Call) :=
  ⟨name.toList, fun neg a u =>
    if wantsArg then (if a.isEmpty then (.err, u ++ [⟨name.toList, neg, a⟩]) else (.arg, u ++ [⟨name.toList, neg, a⟩]))
    else (.ok, u ++ [⟨name.toList, neg, a⟩])⟩

def demoTable : List (CMDRec (List Call)) :=
  [logSwitch "L" false, logSwitch "u" false, logSwitch "OLIST" true, logSwitch "t" true, logSwitch "q" false]

def demoToks : List Tok := ["-Lu".toList, "+q".toList, "-olist".toList, "x.lst".toList, "-t".toList, "3".toList, "a.asm".toList]

instance (t : Tok) : Decidable (TokOK t) := by unfold TokOK; infer_instance

example : Clean demoToks := by
  refine ⟨by decide, by decide, ?_⟩
  intro t r h; simp [demoToks] at h; rw [← h.1]; decide

example : ∀ t ∈ demoToks, isKeyRef t = false := by decide

-- the three sources on a concrete list: same calls, +q negated, both arguments consumed, one file
example : (processCMD demoTable (fun _ => none) [] demoToks (St.init [])).view.user.map (fun c => (String.ofList c.name, c.neg, String.ofList c.a))
    = [("L", false, ""), ("u", false, ""), ("q", true, ""), ("OLIST", false, "x.lst"), ("t", false, "3")] := by decide
example : (processCMD demoTable (fun _ => none) (joinSp demoToks) [] (St.init [])).view.user
    = (processCMD demoTable (fun _ => none) [] demoToks (St.init [])).view.user := by decide
example : (processCMD demoTable (fun _ => none) [] demoToks (St.init [])).view.files = ["a.asm".toList] := by decide
example : NoArgOnEmpty demoTable := by
  intro r hr neg u
  simp [demoTable] at hr
  rcases hr with h | h | h | h | h <;> subst h <;> simp [logSwitch]
-- a key file with CR-LF and LF line ends, an empty line, blanks everywhere and NO line end after the last line
def demoKeyLines : List (KLine × LineEnd) :=
  [(⟨0, [("-Lu".toList, 1), ("+q".toList, 0)]⟩, .crlf), (⟨0, []⟩, .crlf), (⟨2, [("-olist".toList, 0), ("x.lst".toList, 1)]⟩, .lf)]
def demoKeyLast : KLine := ⟨1, [("-t".toList, 2), ("3".toList, 0)]⟩

example : String.ofList (renderKey demoKeyLines (some demoKeyLast)) = "-Lu  +q\r\n\r\n  -olist x.lst \n -t   3" := by decide
example : keyParams demoKeyLines (some demoKeyLast) = [["-Lu".toList, "+q".toList], [], ["-olist".toList, "x.lst".toList], ["-t".toList, "3".toList]] := by decide

instance (t : Tok) : Decidable (Printable t) := by unfold Printable; infer_instance

example : ∀ p ∈ demoKeyLines, p.1.Good := by
  intro p hp
  simp [demoKeyLines] at hp
  rcases hp with h | h | h <;> subst h <;> exact ⟨by decide, by decide⟩
example : demoKeyLast.Good := ⟨by decide, by decide⟩
-- the reader on the concrete file: four lines, the unterminated one included
example : (keyFileLines (renderKey demoKeyLines (some demoKeyLast))).map String.ofList = ["-Lu  +q", "", "  -olist x.lst ", " -t   3"] := by decide
-- and with a final line end: the same lines plus the empty read at the end of the file
example : (keyFileLines (renderKey (demoKeyLines ++ [(demoKeyLast, .crlf)]) none)).map String.ofList
    = ["-Lu  +q", "", "  -olist x.lst ", " -t   3", ""] := by decide
-- the spec's reading of the same file: text lines, blank-separated words
example : keyFileParams (renderKey demoKeyLines (some demoKeyLast))
    = [["-Lu".toList, "+q".toList], [], ["-olist".toList, "x.lst".toList], ["-t".toList, "3".toList]] := by
  simp [keyFileParams, renderKey, renderLines, demoKeyLines, demoKeyLast, lastBody, KLine.body, joinPad, blanks, LineEnd.chars,
    textLines, dropCR, words]
-- the handler calls are those of the command line
example : (processCMD demoTable (rawFs (oneRaw ['K'] (renderKey demoKeyLines (some demoKeyLast)))) [] ["@K".toList, "a.asm".toList] (St.init [])).view.user
    = (processCMD demoTable (fun _ => none) [] demoToks (St.init [])).view.user := by decide
example : dreheCodes 2 5 [1, 2, 3, 4, 5] = [2, 1, 4, 3, 5] := by decide
example : dreheCodes 4 6 [1, 2, 3, 4, 5, 6] = [4, 3, 2, 1, 5, 6] := by decide

def demoCfg (u g c l : Bool) : Cfg := ⟨⟨true, 2, 1, true⟩, ⟨u, g, c, l, 16, false⟩⟩
def demoLine : Line := ⟨1, 4, [0x12, 0x34, 0x56, 0x78], false, [7]⟩
def demoInit : CodeSt × RepSt := (⟨0x100, [], [], []⟩, ⟨[], [], [], []⟩)

-- the report parts differ, the code parts agree
example : (step (demoCfg true true true true) demoInit demoLine).2 ≠ (step (demoCfg false false false false) demoInit demoLine).2 := by decide
example : (step (demoCfg true true true true) demoInit demoLine).1.out = [0x34, 0x12, 0x78, 0x56] := by decide

end AslModel.C17
