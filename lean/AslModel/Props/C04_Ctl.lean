import AslModel.Lemmas.CodeCtl
import AslModel.Props.C04_Stmt
/-!
# C04 — the statements that decide when a record is opened: `CPU`, `SEGMENT`, `ORG`, reservations, `SAVE` / `RESTORE`

Property theorems only.  Model: `Model/CodeCtl.lean` (`ctlDecode`: the globals `MomCPU`/`ActPC`/`PCs[]`/`FirstSaveState`
and the places where asmallg.c sets `DontPrint`; `ctlStep`: `WriteCode()` turning `DontPrint` into `NewRecord`), on top
of the record machine of `Model/CodeFile.lean`.  Spec: `specStepC` / `specCellsC` (manual: what `CPU`, `SEGMENT`, `ORG`,
`SAVE`, `RESTORE` mean - no notion of records).
-/
namespace AslModel.C04
open AslModel.PFile AslModel.CodeFile

/-- **The globals behind every statement are what the manual says**: processor, active address space, every counter and
the `SAVE` stack of the model (asmallg.c with its conditional updates: `SetNSeg` only when the space differs, `RESTORE`
switching the processor only when it differs, `ORG` only when the address differs) agree with the manual's reading, for
every statement in every state. -/
theorem C04_ctl_state (s : CS) (x : Ctl) : (ctlStep s x).1 = specStepC s x := ctlStep_state s x

/-- **Every statement that changes what a record header says opens a record**: the `WriteBytes` / `NewRecord` events that
the `DontPrint` decisions of asmallg.c produce specify exactly the cells the manual's reading of the source specifies -
every byte under the family byte and granularity of the processor in effect, in the address space in effect, at that
space's counter.  In particular a `RESTORE` that brings back another processor or another address space, a `CPU`
statement, and an `ORG` to a different address each start a record of their own, while statements that change none of
these do not need one. -/
theorem C04_ctl_cells_events (s : CS) (l : List Ctl) (hwf : CtlsWF s l) :
    specCells s.ctx s.pc (ctlEvs s l) = specCellsC s l :=
  specCells_ctl l s hwf

/-- the statement form used by `session` / `alone` is the same event list -/
theorem C04_ctl_expand (s : CS) (l : List Ctl) : expand s.ctx s.pc (ctlStmts s l) = ctlEvs s l :=
  expand_map_ev _ _ _

/-- **Nothing lost, duplicated, shifted or filed under the wrong processor**: the data records of the finished file hold
exactly the cells the source specifies, for every list of data / reservation / `ORG` / `SEGMENT` / `CPU` / `SAVE` /
`RESTORE` statements with matching `SAVE`s, to any nesting depth. -/
theorem C04_ctl_cells (s : CS) (l : List Ctl) (entry : Option Nat) (hwf : CtlsWF s l) :
    cellsOf (finishItems (run (init s.ctx s.pc) (ctlEvs s l)) entry) = specCellsC s l := by
  rw [C04_cells s.ctx s.pc _ entry (evsWF_ctl l s hwf)]
  exact specCells_ctl l s hwf

/-- **End to end**: what the documented reader sees in the file the byte machine of asmcode.c leaves on disk for such a
source is the cell list the source specifies. -/
theorem C04_ctl_end_to_end (s : CS) (l : List Ctl) (entry : Option Nat) (creator : List Byte) (hwf : CtlsWF s l)
    (hfit : EvsFit s.ctx (ctlEvs s l)) (hs : EvsSmall (ctlEvs s l))
    (hlen : 10 ≤ (match entry with | some _ => 5 | none => 0) + 1 + creator.length)
    (hstart : ∀ r ∈ finish (run (init s.ctx s.pc) (ctlEvs s l)), r.start < 4294967296)
    (hentry : ∀ a, entry = some a → a < 4294967296) :
    ∃ items, parseFile (writeCodeFile s.ctx s.pc (ctlEvs s l) entry creator) = some (items, creator) ∧
      cellsOf items = specCellsC s l := by
  obtain ⟨items, hp, hc⟩ := C04_end_to_end s.ctx s.pc _ entry creator (evsWF_ctl l s hwf) hfit hs hlen hstart hentry
  exact ⟨items, hp, by rw [hc]; exact specCells_ctl l s hwf⟩

/-- a `RESTORE` that brings back a processor other than the current one opens a record, also when the address space
stays the same -/
theorem C04_ctl_restore_opens_record (s : CS) (sc : Cpu) (sp : Byte) (rest : List (Cpu × Byte))
    (hsv : s.saves = (sc, sp) :: rest) (hne : sc ≠ s.cpu ∨ sp ≠ s.actPC) :
    (ctlStep s .restore).2 = [Ev.jump ⟨sc.hdr, sp, sc.gran sp⟩ (s.pcs sp)] := by
  have hst := C04_ctl_state s .restore
  have hdp : (ctlDecode s .restore).2.2 = true := by
    simp only [ctlDecode, hsv, setCPUCore]
    by_cases h1 : sp = s.actPC
    · by_cases h2 : sc = s.cpu
      · cases hne with
        | inl h => exact absurd h2 h
        | inr h => exact absurd h1 h
      · simp [h1, h2]
    · simp [h1]
  have hev : (ctlStep s .restore).2 = if (ctlDecode s .restore).2.2 then
      [Ev.jump (ctlStep s .restore).1.ctx (ctlStep s .restore).1.pc] else [] := rfl
  rw [hev, hdp, hst]
  simp [specStepC, hsv, CS.ctx, CS.pc]

/-! Non-vacuity: Z80, `SAVE`, PIC16C84 (granularity 2), data, `RESTORE`, data directly behind it; nested `SAVE`s with a
segment change. -/
def exZ80 : Cpu := { id := 1, hdr := 0x51, grans := [(1, 1)] }
def exPic : Cpu := { id := 2, hdr := 0x70, grans := [(1, 2)], lgrans := [(1, 2)] }
def ex51 : Cpu := { id := 3, hdr := 0x31, grans := [(1, 1), (2, 1), (4, 1)] }
def exCtls : List Ctl :=
  [.cpu exZ80, .org 0x100, .data [0x11, 0x22, 0x33], .save, .cpu exPic, .org 16, .data [0x34, 0x12, 0xbc, 0x2a],
   .restore, .data [0xa5, 0x5a],
   .save, .cpu ex51, .segment 4, .save, .cpu exZ80, .data [1], .restore, .data [2], .restore, .data [3]]
example : CtlsWF (csInit exCtx 0) exCtls := by
  simp [CtlsWF, exCtls, specStepC, csInit, exCtx, exZ80, exPic, ex51, Cpu.gran, CS.setPC, CS.pc, PFile.segCode, List.lookup]
example : specCellsC (csInit exCtx 0) exCtls =
    [(0x51, 1, 1, 0x100, 0x11), (0x51, 1, 1, 0x101, 0x22), (0x51, 1, 1, 0x102, 0x33),
     (0x70, 1, 2, 0x20, 0x34), (0x70, 1, 2, 0x21, 0x12), (0x70, 1, 2, 0x22, 0xbc), (0x70, 1, 2, 0x23, 0x2a),
     (0x51, 1, 1, 0x12, 0xa5), (0x51, 1, 1, 0x13, 0x5a),
     (0x51, 1, 1, 0x14, 1), ⟨0x31, 4, 1, 0, 2⟩, (0x51, 1, 1, 0x15, 3)] := by decide
example : (finish (run (init (csInit exCtx 0).ctx 0) (ctlEvs (csInit exCtx 0) exCtls))).map (fun r => (r.cpu, r.seg, r.start)) =
    [(0x51, 1, 0x100), (0x70, 1, 16), (0x51, 1, 0x12), (0x51, 1, 0x14), (0x31, 4, 0), (0x51, 1, 0x15)] := by decide

end AslModel.C04
