import AslModel.Model.AttrPart
/-! C16, attribute part: the letter case of the size and format letters behind `.` / `:` is immaterial for what
`DecodeAttrPart_M16C` hands to the code generator.  "Same up to letter case" is stated position by position (`CaseEq`): two
characters are the same, or both are letters with the same upper-case form - so a separator never corresponds to a letter. -/
namespace AslModel.AttrPart
open AslModel.SrcLine

def ceq (x y : Char) : Prop := x = y ∨ (x.isAlpha = true ∧ y.isAlpha = true ∧ x.toUpper = y.toUpper)

inductive CaseEq : List Char → List Char → Prop
  | nil : CaseEq [] []
  | cons {x y a b} : ceq x y → CaseEq a b → CaseEq (x :: a) (y :: b)

theorem ceq_up {x y : Char} (h : ceq x y) : x.toUpper = y.toUpper := by
  rcases h with h | ⟨_, _, h⟩
  · rw [h]
  · exact h

theorem ceq_sep {x y : Char} (c : Char) (hc : c.isAlpha = false) (h : ceq x y) : (x = c ↔ y = c) := by
  rcases h with h | ⟨hx, hy, _⟩
  · rw [h]
  · constructor
    · intro e; rw [e, hc] at hx; cases hx
    · intro e; rw [e, hc] at hy; cases hy

theorem CaseEq.up {a b : List Char} (h : CaseEq a b) : upStr a = upStr b := by
  induction h with
  | nil => rfl
  | cons hxy _ ih => simp only [upStr, List.map_cons] at ih ⊢; rw [ceq_up hxy, ih]

theorem CaseEq.nil_iff {a b : List Char} (h : CaseEq a b) : (a = [] ↔ b = []) := by
  cases h <;> simp

theorem CaseEq.refl (a : List Char) : CaseEq a a := by
  induction a with
  | nil => exact .nil
  | cons x r ih => exact .cons (Or.inl rfl) ih

theorem cutAt_caseEq (c : Char) (hc : c.isAlpha = false) {a b : List Char} (h : CaseEq a b) :
    CaseEq (cutAt c a).1 (cutAt c b).1 ∧
    (((cutAt c a).2 = none ∧ (cutAt c b).2 = none) ∨
     ∃ f g, (cutAt c a).2 = some f ∧ (cutAt c b).2 = some g ∧ CaseEq f g) := by
  induction h with
  | nil => exact ⟨.nil, Or.inl ⟨rfl, rfl⟩⟩
  | @cons x y r s hxy hrs ih =>
    by_cases hx : x = c
    · have hy : y = c := (ceq_sep c hc hxy).1 hx
      simp only [cutAt, hx, hy, if_true]
      exact ⟨.nil, Or.inr ⟨r, s, rfl, rfl, hrs⟩⟩
    · have hy : ¬ y = c := fun e => hx ((ceq_sep c hc hxy).2 e)
      simp only [cutAt, hx, hy, if_false]
      exact ⟨.cons hxy ih.1, ih.2⟩

theorem sizeOf_caseEq {a b : List Char} (h : CaseEq a b) : sizeOf a = sizeOf b := by
  cases h with
  | nil => rfl
  | cons hxy _ => simp only [sizeOf]; rw [ceq_up hxy]

/-- the remaining attribute and the format text of two spellings correspond position by position -/
theorem splitFormat_caseEq (sp : Char) {a b f0 g0 : List Char} (h : CaseEq a b) (h0 : CaseEq f0 g0) :
    CaseEq (splitFormat sp a f0).1 (splitFormat sp b g0).1 ∧ CaseEq (splitFormat sp a f0).2 (splitFormat sp b g0).2 := by
  unfold splitFormat
  by_cases h1 : sp = '.'
  · simp only [h1, if_true]
    obtain ⟨hc, hr⟩ := cutAt_caseEq ':' (by decide) h
    rcases hr with ⟨ha, hb⟩ | ⟨f, g, ha, hb, hfg⟩
    · rw [show cutAt ':' a = ((cutAt ':' a).1, none) from by rw [← ha], show cutAt ':' b = ((cutAt ':' b).1, none) from by rw [← hb]]
      exact ⟨hc, CaseEq.refl _⟩
    · rw [show cutAt ':' a = ((cutAt ':' a).1, some f) from by rw [← ha], show cutAt ':' b = ((cutAt ':' b).1, some g) from by rw [← hb]]
      refine ⟨hc, ?_⟩
      by_cases hf : f = []
      · have hg : g = [] := hfg.nil_iff.1 hf
        simp only [hf, hg, if_true]; exact h0
      · have hg : ¬ g = [] := fun e => hf (hfg.nil_iff.2 e)
        simp only [hf, hg, if_false]; exact hfg
  · by_cases h2 : sp = ':'
    · simp only [h2, show ¬ (':' : Char) = '.' from by decide, if_true, if_false]
      obtain ⟨hc, hr⟩ := cutAt_caseEq '.' (by decide) h
      rcases hr with ⟨ha, hb⟩ | ⟨f, g, ha, hb, _⟩
      · rw [show cutAt '.' a = ((cutAt '.' a).1, none) from by rw [← ha], show cutAt '.' b = ((cutAt '.' b).1, none) from by rw [← hb]]
        exact ⟨.nil, hc⟩
      · rw [show cutAt '.' a = ((cutAt '.' a).1, some f) from by rw [← ha], show cutAt '.' b = ((cutAt '.' b).1, some g) from by rw [← hb]]
        refine ⟨hc, ?_⟩
        by_cases hf : (cutAt '.' a).1 = []
        · have hg : (cutAt '.' b).1 = [] := hc.nil_iff.1 hf
          simp only [hf, hg, if_true]; exact CaseEq.refl _
        · have hg : ¬ (cutAt '.' b).1 = [] := fun e => hf (hc.nil_iff.2 e)
          simp only [hf, hg, if_false]; exact hc
    · simp only [h1, h2, if_false]
      exact ⟨h, CaseEq.refl _⟩

/-- **Letter case of the attribute is immaterial (M16C).**  For every way `SplitLine` can have split the mnemonic (`AttrSplit` any
character), two attributes that differ only in letter case - and two previous contents of `Format` that differ only in letter case -
give the same operand size, the same (upper-case) format text and the same error decision. -/
theorem C16_attr_case_m16c (sp : Char) (a b f0 g0 : List Char) (h : CaseEq a b) (h0 : CaseEq f0 g0) :
    decodeM16C sp a f0 = decodeM16C sp b g0 := by
  obtain ⟨h1, h2⟩ := splitFormat_caseEq sp h h0
  simp only [decodeM16C]
  rw [sizeOf_caseEq h1, h2.up]

/-- hence the format code `CheckFormat` derives is the same, e.g. for every spelling of `B:S` behind `MOV.` -/
theorem C16_attr_case_m16c_format (sp : Char) (a b f0 g0 fset : List Char) (h : CaseEq a b) (h0 : CaseEq f0 g0) :
    (decodeM16C sp a f0).map (fun r => (checkFormat fset r.1, r.2)) = (decodeM16C sp b g0).map (fun r => (checkFormat fset r.1, r.2)) := by
  rw [C16_attr_case_m16c sp a b f0 g0 h h0]

/-- non-vacuity: `b:s` and `B:S` correspond, and the model gives size 8 bit, format "S", format code 2 of "GSQZ" -/
example : CaseEq "b:s".toList "B:S".toList :=
  .cons (Or.inr ⟨by decide, by decide, by decide⟩) (.cons (Or.inl rfl) (.cons (Or.inr ⟨by decide, by decide, by decide⟩) .nil))
example : decodeM16C '.' "b:s".toList [' '] = some (['S'], .s8) := by decide
example : (decodeM16C '.' "b:s".toList [' ']).map (fun r => checkFormat "GSQZ".toList r.1) = some (some 2) := by decide
example : decodeM16C ':' "g".toList [' '] = some (['G'], .unknown) := by decide

end AslModel.AttrPart
