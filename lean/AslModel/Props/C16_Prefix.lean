import AslModel.Lemmas.Resplit
import AslModel.Props.C16
import AslModel.Lemmas.PrefixCarry
/-! C16 – prefix-style statements: (1) the second-level split that some code generators perform on their first
parameter does not depend on the blanks/tabs of the gap at which it splits; (2) a directive that acts on the next
instruction (Z380 `DDIR`) is not consumed by lines without an instruction. -/

namespace AslModel.Split
open AslModel.SrcLine

/-- **`FirstBlank` finds the first blank or TAB, whichever comes first**: after a word that contains neither, the
position is the word's length – for a blank followed by tabs just as for a TAB followed by blanks. -/
theorem C16_firstBlank_first (w r : List Char) (g : Char) (hw : ∀ c ∈ w, c ≠ ' ' ∧ c ≠ '\t')
    (hg : g = ' ' ∨ g = '\t') : firstBlank (w ++ g :: r) = some w.length :=
  firstBlank_at w r g hw hg

/-- **The split at a gap gives the word before and the text after it** – any gap (blank or TAB first, any white space
after it) in place of any other. -/
theorem C16_splitAtBlank_gap (w G G' t : List Char) (hw : ∀ c ∈ w, isSpace c = false) (hG : Gap G) (hG' : Gap G')
    (ht : stopsAt isSpace t) :
    splitAtBlank (w ++ G ++ t) = some (w, t) ∧ splitAtBlank (w ++ G' ++ t) = splitAtBlank (w ++ G ++ t) := by
  rw [splitAtBlank_gap w G t hw hG ht, splitAtBlank_gap w G' t hw hG' ht]
  exact ⟨rfl, rfl⟩

/-- **Prefix-style statements** (`||` / `[cond]` on TMS320C6x, `OP` on µPD772x, `RPTC`/`RPTZ` on MSP430X): what the
code generator works on after its own split of the first parameter `w G t` does not depend on the gap `G`. -/
theorem C16_resplit_gap (k : PrefixKind) (hk : k ≠ .altd) (lab op attr w G G' t : List Char) (rest : List (List Char))
    (hp : isPrefixStmt k (upStr op) = true)
    (hw : ∀ c ∈ w, isSpace c = false) (hG : Gap G) (hG' : Gap G') (ht : stopsAt isSpace t) :
    resplit k ⟨lab, op, attr, (w ++ G' ++ t) :: rest⟩ = resplit k ⟨lab, op, attr, (w ++ G ++ t) :: rest⟩ := by
  have e := splitAtBlank_gap w G t hw hG ht
  have e' := splitAtBlank_gap w G' t hw hG' ht
  have hr := reiterate_gap (if isCondOrPar lab then [] else lab) (upStr op) attr w G G' t rest hw hG hG' ht
  cases k with
  | plain => simp [isPrefixStmt] at hp
  | altd => exact absurd rfl hk
  | c6x =>
    simp only [resplit, makeCode3206]
    by_cases h2 : (upStr op == ['|', '|']) = true
    · simp only [h2, if_true, hr]
    · have h3 : (upStr op).head? = some '[' := by
        simp only [isPrefixStmt, Bool.or_eq_true] at hp
        rcases hp with hp | hp
        · exact absurd hp h2
        · simpa using hp
      simp only [h2, Bool.false_eq_true, if_false, h3, beq_self_eq_true, if_true, hr]
  | op7720 => simp only [resplit, hp, if_true, decodeOP7720, e, e']
  | rpt => simp only [resplit, hp, if_true, decodeRPT, e, e']

/-- **MSP430X repeat prefix, both gaps**: `RPTx <count> G1 <mnemonic> G2 <operand>,…` is split into count, mnemonic
(upper-cased, attribute at the last '.') and operands whatever the two gaps consist of. -/
theorem C16_rpt_gaps (lab op m o a1 G1 G2 : List Char) (rest : List (List Char))
    (hm : ∀ c ∈ m, isSpace c = false) (ho : ∀ c ∈ o, isSpace c = false) (ho1 : o ≠ [])
    (hG1 : Gap G1) (hG2 : Gap G2) (ha : stopsAt isSpace a1) :
    decodeRPT ⟨lab, op, [], (m ++ G1 ++ (o ++ G2 ++ a1)) :: rest⟩ =
      some ⟨[op, m], ⟨lab, (splitAttrLast (upStr o)).1, (splitAttrLast (upStr o)).2, a1 :: rest⟩⟩ := by
  have hst : stopsAt isSpace (o ++ G2 ++ a1) := by
    cases o with
    | nil => exact absurd rfl ho1
    | cons c cs => exact Or.inr ⟨c, cs ++ G2 ++ a1, by simp, ho c List.mem_cons_self⟩
  simp only [decodeRPT, List.isEmpty_nil, Bool.not_true, Bool.false_eq_true, if_false,
    splitAtBlank_gap m G1 _ hm hG1 hst, splitAtBlank_gap o G2 a1 ho hG2 ha]

/-- **Rabbit 2000 `ALTD` prefix**: mnemonic = first parameter up to its first white space, whatever white space follows -/
theorem C16_altd_gap (lab op w G t : List Char) (rest : List (List Char))
    (hw : ∀ c ∈ w, isSpace c = false) (hG : allBlank G) (ht : stopsAt isSpace t) (hne : t ≠ []) (hGne : G ≠ []) :
    stripPref ⟨lab, op, [], (w ++ G ++ t) :: rest⟩ = ⟨[op], ⟨lab, upStr w, [], t :: rest⟩⟩ := by
  have hstop : stopsAt (fun c => !isSpace c) (G ++ t) := by
    cases G with
    | nil => exact absurd rfl hGne
    | cons g gs => exact Or.inr ⟨g, _, rfl, by simp [allBlank_head hG]⟩
  have htw : (w ++ G ++ t).takeWhile (fun c => !isSpace c) = w := by
    rw [List.append_assoc]
    exact takeWhile_prefix _ w _ (fun c hc => by simp [hw c hc]) hstop
  have hdrop : ((w ++ G ++ t).drop w.length).dropWhile isSpace = t := by
    rw [List.append_assoc, List.drop_left']
    · exact dropWhile_prefix isSpace G t hG ht
    · rfl
  simp only [stripPref, htw, hdrop]
  cases t with
  | nil => exact absurd rfl hne
  | cons c cs => rfl

/-- **Prefix-style statement as a whole line**: two well-formed source lines (Spec/SrcLine) with the same label,
mnemonic, attribute and parameters whose first parameter is `w G t` resp. `w G' t` – any blanks/tabs between the
fields, any comment, any gap inside the first parameter – give the code generator the same re-split statement. -/
theorem C16_prefix_statement_invariant (p : Params) (hp : PStd p) (k : PrefixKind) (hk : k ≠ .altd)
    (l l' : Line) (h : WF p l) (h' : WF p l') (a a' : Arg) (as as' : List Arg) (w G G' t : List Char)
    (hl : l.args = a :: as) (hl' : l'.args = a' :: as') (ha : a.text = w ++ G ++ t) (ha' : a'.text = w ++ G' ++ t)
    (hsame : l'.label = l.label ∧ l'.op = l.op ∧ l'.attr = l.attr ∧ as'.map Arg.text = as.map Arg.text)
    (hpx : isPrefixStmt k (upStr l.op) = true)
    (hw : ∀ c ∈ w, isSpace c = false) (hG : Gap G) (hG' : Gap G') (ht : stopsAt isSpace t) :
    resplit k (split p (render l')) = resplit k (split p (render l)) := by
  rw [C16_split_render p hp l h, C16_split_render p hp l' h']
  simp only [Line.fields, hl, hl', List.map_cons, ha, ha', hsame.1, hsame.2.1, hsame.2.2.1, hsame.2.2.2]
  exact C16_resplit_gap k hk _ _ _ w G G' t _ hpx hw hG hG' ht

/-- **`#define NAME text`**: directive, name and replacement text are found whatever blanks/tabs separate them, with
or without blanks in front of `#` and behind the text. -/
theorem C16_define_spelling (ws0 cmd G1 name G2 val ws1 : List Char)
    (h0 : allBlank ws0) (hc : ∀ c ∈ cmd, isSpace c = false) (hcmd : upStr cmd = "DEFINE".toList)
    (hn : ∀ c ∈ name, isSpace c = false) (hn1 : name ≠ []) (hG1 : Gap G1) (hG2 : Gap G2)
    (hv : endsNonBlank val) (hv0 : stopsAt isSpace val) (h1 : allBlank ws1) :
    preprocess (ws0 ++ '#' :: (cmd ++ G1 ++ (name ++ G2 ++ val ++ ws1))) = some ("DEFINE".toList, name, val) := by
  have hs : strchr '#' (ws0 ++ '#' :: (cmd ++ G1 ++ (name ++ G2 ++ val ++ ws1))) = some ws0.length := by
    rw [strchr_skip '#' ws0 _ (fun c hc' => by
      intro hh; subst hh; have := h0 _ hc'; simp [isSpace] at this), strchr_head]
    simp
  have hst : stopsAt isSpace (name ++ G2 ++ val ++ ws1) := by
    cases name with
    | nil => exact absurd rfl hn1
    | cons c cs => exact Or.inr ⟨c, cs ++ G2 ++ val ++ ws1, by simp, hn c List.mem_cons_self⟩
  have hd : (ws0 ++ '#' :: (cmd ++ G1 ++ (name ++ G2 ++ val ++ ws1))).drop (ws0.length + 1)
      = cmd ++ G1 ++ (name ++ G2 ++ val ++ ws1) := by
    rw [drop_len_succ]; simp
  have htr : trimRight (name ++ G2 ++ val ++ ws1) = name ++ G2 ++ val := by
    rw [trimRight_append_blank _ _ h1]
    exact trimRight_pre_ends _ _ hv
  simp only [preprocess, hs, hd, splitAtBlank_gap cmd G1 _ hc hG1 hst, hcmd, htr,
    splitAtBlank_gap name G2 val hn hG2 hv0]
  simp

/-! ### non-vacuity -/

example : firstBlank "#5\taddx.w r4".toList = some 2 := by decide
example : firstBlank "#5 addx.w\tr4".toList = some 2 := by decide
example : Gap "\t  ".toList := by decide
example : resplit .rpt ⟨[], "rptc".toList, [], ["#5\taddx.w  r4".toList, "r7".toList]⟩
    = some ⟨["RPTC".toList, "#5".toList], ⟨[], "ADDX".toList, "W".toList, ["r4".toList, "r7".toList]⟩⟩ := by decide
example : resplit .rpt ⟨[], "rptc".toList, [], ["#5 addx.w r4".toList, "r7".toList]⟩
    = resplit .rpt ⟨[], "rptc".toList, [], ["#5\taddx.w  r4".toList, "r7".toList]⟩ := by decide
example : resplit .c6x ⟨[], "||".toList, [], ["[b0]\tsub.s2  b8".toList, "b9".toList, "b7".toList]⟩
    = some ⟨["||".toList, "[B0]".toList], ⟨[], "SUB".toList, "S2".toList, ["b8".toList, "b9".toList, "b7".toList]⟩⟩ := by
  decide
example : resplit .op7720 ⟨[], "op".toList, [], ["mov \t@a".toList, "non".toList]⟩
    = some ⟨["OP".toList], ⟨[], "MOV".toList, [], ["@a".toList, "non".toList]⟩⟩ := by decide
example : resplit .altd ⟨[], "altd".toList, [], ["ld\t a".toList, "(iy+4)".toList]⟩
    = some ⟨["ALTD".toList], ⟨[], "LD".toList, [], ["a".toList, "(iy+4)".toList]⟩⟩ := by decide
example : preprocess "#define\tLEN 5".toList = some ("DEFINE".toList, "LEN".toList, ['5']) := by decide
example : preprocess "  #Define LEN \t 1+2  ".toList = some ("DEFINE".toList, "LEN".toList, "1+2".toList) := by decide
/-- **Repaired finding** (`upd772x-op-operandless-inner-mnemonic-case-sensitive`, repair abd5d30): the µPD772x `OP` handler
upper-cases the inner mnemonic whether or not an operand follows it – `op nop` reaches the (upper-case) instruction table
as `NOP` (as written, before the repair), `op mov @a,b` as `MOV`. -/
theorem C16_op7720_operandless_case :
    resplit .op7720 ⟨[], "op".toList, [], ["nop".toList]⟩ = some ⟨["OP".toList], ⟨[], "NOP".toList, [], []⟩⟩ ∧
    resplit .op7720 ⟨[], "op".toList, [], ["mov @a".toList, ['b']]⟩
      = some ⟨["OP".toList], ⟨[], "MOV".toList, [], ["@a".toList, ['b']]⟩⟩ := by
  decide

/-- a whole MSP430X repeat line as a structured source line: well formed, and its tab-first spelling too -/
def exRpt (g1 g2 : List Char) : Line :=
  { label := [], colon := false, gap1 := ['\t'], op := "rptc".toList, attr := none, gap2 := [' '],
    args := [⟨[], "#5".toList ++ g1 ++ ("addx.w".toList ++ g2 ++ "r4".toList), []⟩, ⟨[' '], "r7".toList, []⟩],
    comment := none }

example : WF pStd (exRpt ['\t'] [' ', ' ']) := by
  refine ⟨by decide, by decide, ?_, by decide, by decide, by decide, by decide, by decide, by decide, ?_⟩
  · intro a ha; simp [exRpt] at ha
  · intro a ha
    simp only [exRpt, List.mem_cons, List.mem_nil_iff, or_false] at ha
    rcases ha with rfl | rfl
    · refine ⟨by decide, by decide, ⟨'#', _, rfl, by decide⟩, ⟨"#5\taddx.w  r".toList, '4', by decide, by decide⟩, ?_, ?_⟩ <;>
        exact Clean_inert _ _ (by decide)
    · refine ⟨by decide, by decide, ⟨'r', _, rfl, by decide⟩, ⟨['r'], '7', by decide, by decide⟩, ?_, ?_⟩ <;>
        exact Clean_inert _ _ (by decide)
example : WF pStd (exRpt [' '] ['\t']) := by
  refine ⟨by decide, by decide, ?_, by decide, by decide, by decide, by decide, by decide, by decide, ?_⟩
  · intro a ha; simp [exRpt] at ha
  · intro a ha
    simp only [exRpt, List.mem_cons, List.mem_nil_iff, or_false] at ha
    rcases ha with rfl | rfl
    · refine ⟨by decide, by decide, ⟨'#', _, rfl, by decide⟩, ⟨"#5 addx.w\tr".toList, '4', by decide, by decide⟩, ?_, ?_⟩ <;>
        exact Clean_inert _ _ (by decide)
    · refine ⟨by decide, by decide, ⟨'r', _, rfl, by decide⟩, ⟨['r'], '7', by decide, by decide⟩, ?_, ?_⟩ <;>
        exact Clean_inert _ _ (by decide)
example : resplit .rpt (split pStd (render (exRpt ['\t'] [' ', ' ']))) = resplit .rpt (split pStd (render (exRpt [' '] ['\t']))) := by
  decide
example : isPrefixStmt .rpt (upStr (exRpt [' '] [' ']).op) = true := by decide

end AslModel.Split

namespace AslModel.PrefixCarry
open AslModel.PrefixSpec

/-- **A pending `DDIR` is handed to the next instruction, not to the next line.**  For every program of the fragment
(any sequence of `DDIR` statements, `JP` instructions and lines without an instruction – blank, comment-only,
label-only) the model of `MakeCode_Z80` produces exactly the code of the program's statements (Spec/PrefixCarry):
the directive acts on the instruction that follows it directly, however many empty lines lie between them. -/
theorem C16_ddir_carry (prog : List Stmt) (hok : ∀ s ∈ prog, s.ok = true) : run prog = some (code prog) := by
  unfold run code
  rw [runFrom_filter]
  obtain ⟨st', hr, hcd⟩ := runFrom_stmts (prog.filter (fun s => !s.isEmpty))
    (fun s hs => by simpa using (List.mem_filter.mp hs).2)
    (fun s hs => hok s (List.mem_filter.mp hs).1) {} Dir.nothing [] rfl rfl
  rw [hr, Option.map_some, hcd, codeAfter_nothing]
  simp

/-- **Blank, comment-only and label-only lines are immaterial** – for every program, valid or not: two programs with
the same statements behave the same (same code, or both rejected). -/
theorem C16_empty_lines_immaterial (p p' : List Stmt)
    (h : p.filter (fun s => !s.isEmpty) = p'.filter (fun s => !s.isEmpty)) : run p = run p' := by
  unfold run
  rw [runFrom_filter {} p, runFrom_filter {} p', h]

/-! ### non-vacuity: the pairs of tests/t_z380 and of the reviewers' scenario -/

/-- `ddir iw` / `jp 123456h` = DD C3 C3 56 34 12, with and without lines between them -/
example : run [.ddir [.IW], .jp none 0x123456] = some [0xdd, 0xc3, 0xc3, 0x56, 0x34, 0x12] := by decide
example : run [.ddir [.IW], .empty, .empty, .jp none 0x123456] = some [0xdd, 0xc3, 0xc3, 0x56, 0x34, 0x12] := by decide
example : run [.ddir [.LW], .empty, .jp none 0x12345678] = some [0xfd, 0xc2, 0xc3, 0x78, 0x56, 0x34, 0x12] := by decide
example : run [.jp (some 1) 0x12345678] = some [0xfd, 0xc3, 0xca, 0x78, 0x56, 0x34, 0x12] := by decide
example : code [.ddir [.W], .empty, .jp none 0x123456, .ddir [.IB, .LW]] = [0xdd, 0xc1, 0xc3, 0x56, 0x34, 0x12, 0xfd, 0xc1] := by
  decide
example : ∀ s ∈ [Stmt.ddir [.IW], .empty, .jp none 0x123456], s.ok = true := by decide

end AslModel.PrefixCarry
