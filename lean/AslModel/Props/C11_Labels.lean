import AslModel.Lemmas.MacroLabelsConv
/-! C11, labels of enclosing expansions seen from nested bodies: property theorems over `Model/MacroLabels.lean`
(`FindLocNode` and the handle stack of `asmpars.c`, handle discipline of the construct processors of `as.c`, the pass loop).
Unbounded: any nesting depth, any number of iterations, any tables, any program tree.

The whole-program statement (second half of the file), **model = hand expansion**:
`∀ prog, NoDoubleDef prog → NoEarlyBind prog → MacroLabels.bytesOf prog = MacroLabelsSpec.bytesOf prog` (`C11_labels_refines`)
for every program tree - MACRO / REPT / IRP / IRPN / IRPC / WHILE nested to any depth, 0..n iterations, with / without
GLOBALSYMBOLS, bodies expanded several times.  Both hypotheses are decidable predicates on the list of executed statements
(`Model/MacroLabelsFlat.lean`; the driver evaluates them on every generated program):
* `NoDoubleDef`: no label statement is executed twice under the same key (the assembler reports "symbol double defined");
* `NoEarlyBind`: no reference stands in front of the label it means while a label of that name of an enclosing copy, or the
  global symbol of that name, is already entered - the class of the known finding
  `forward-ref-in-macro-body-binds-outer-symbol-when-no-second-pass` / `forward-reference-to-local-label-takes-outer-label`.
Both are needed (`C11_labels_refines_hypothesis_needed`, `C11_labels_refines_nodoubledef_needed`).  Without `NoEarlyBind` the
statement holds whenever a second pass is made: `C11_labels_refines_second_pass` (some reference of pass 1 found nothing),
`C11_labels_refines_extra_pass` (hook `ASL_VERIF_EXTRA_PASSES=1`); and these are all cases: `C11_labels_refines_iff`.
Proof: `Lemmas/MacroLabelsFlat.lean` (model = table machine over the executed statements, SPEC = a map over the same list),
`Lemmas/MacroLabelsRun.lean` (the table machine lays down the image when the chains are consistent),
`Lemmas/MacroLabelsWf.lean` (the chains of every program are consistent), `Lemmas/MacroLabelsConv.lean` (the converse). -/
namespace AslModel.MacroLabels
open AslModel.MacroLabelsSpec

/-- **A label of an enclosing expansion is found from a body nested ANY number of levels further in**: if the spaces
between the current one and the space `h` (`inner`, as many as one likes - none, one, two, ...) are open spaces that do
not hold the name, `FindLocNode` delivers the entry of `h`.  (Looking only into the directly enclosing expansion would
make this false for `inner.length ≥ 2`.) -/
theorem C11_labels_found_at_any_depth (st : St) (k : Nat) (inner : List Int) (h : Int) (rest : List Int) (v : Nat)
    (hstack : st.mom :: st.conts = inner ++ h :: rest)
    (hin : ∀ x ∈ inner, x ≠ -1 ∧ tfind st.ltab (k, x) = none)
    (hh : h ≠ -1) (hv : tfind st.ltab (k, h) = some v) :
    findLocNode st k = some v := by
  unfold findLocNode
  cases inner with
  | nil =>
    simp only [List.nil_append, List.cons.injEq] at hstack
    simp [hstack.1, hh, hv]
  | cons a t =>
    simp only [List.cons_append, List.cons.injEq] at hstack
    have ha := hin a (List.mem_cons_self)
    rw [hstack.1, hstack.2]
    simp only [ha.1, if_false, ha.2]
    rw [walkConts_skip st.ltab k t (h :: rest) (fun x hx => hin x (List.mem_cons_of_mem _ hx))]
    simp [walkConts, hh, hv]

/-- ... and it wins over a global symbol of the same name, whatever the global table holds -/
theorem C11_labels_local_before_global (st : St) (k : Nat) (inner : List Int) (h : Int) (rest : List Int) (v : Nat)
    (hstack : st.mom :: st.conts = inner ++ h :: rest)
    (hin : ∀ x ∈ inner, x ≠ -1 ∧ tfind st.ltab (k, x) = none)
    (hh : h ≠ -1) (hv : tfind st.ltab (k, h) = some v) :
    lookup st k = some v := by
  unfold lookup
  rw [C11_labels_found_at_any_depth st k inner h rest v hstack hin hh hv]

/-- what lies further out than the space that holds the name (`h2`: one more enclosing space, with whatever content) and what
the global table holds under the name do not matter -/
theorem C11_labels_outer_and_global_irrelevant (st : St) (k : Nat) (inner : List Int) (h : Int) (rest : List Int) (v : Nat)
    (hstack : st.mom :: st.conts = inner ++ h :: rest)
    (hin : ∀ x ∈ inner, x ≠ -1 ∧ tfind st.ltab (k, x) = none)
    (hh : h ≠ -1) (hv : tfind st.ltab (k, h) = some v) (w : Nat) (h2 : Int) :
    findLocNode { st with ltab := st.ltab, conts := st.conts ++ [h2], gtab := [(k, w)] } k = some v := by
  apply C11_labels_found_at_any_depth _ k inner h (rest ++ [h2]) v
  · show st.mom :: (st.conts ++ [h2]) = inner ++ h :: (rest ++ [h2])
    rw [← List.cons_append, hstack]; simp
  · exact hin
  · exact hh
  · exact hv

/-- no open space holds the name: the reference means the global symbol -/
theorem C11_labels_else_global (st : St) (k : Nat) (h : findLocNode st k = none) : lookup st k = gfind st.gtab k := by
  unfold lookup; rw [h]

/-- **After any construct the handle stack is the one before it**, for every construct kind, iteration count and nesting
depth: what a line behind a nested construct sees is what a line in front of it sees. -/
theorem C11_labels_stack_restored (i : Item) (st : St) :
    (execItem i st).mom = st.mom ∧ (execItem i st).conts = st.conts :=
  ⟨(execItem_frame i st).mom, (execItem_frame i st).conts⟩

theorem C11_labels_stack_restored_list (is : Items) (st : St) :
    (execItems is st).mom = st.mom ∧ (execItems is st).conts = st.conts :=
  ⟨(execItems_frame is st).mom, (execItems_frame is st).conts⟩

/-- **Transparency of nesting for references**: a line `d` bodies further in (any `d`, any construct kinds) sees the label
of the expansion it is written in - provided the handles handed out from now on are unused (they are: the counter only
grows within a pass) -, also when a global symbol of that name exists. -/
theorem C11_labels_nested_sees_outer (st : St) (k v : Nat) (d : Nat) (hm : st.mom ≠ -1)
    (hv : tfind st.ltab (k, st.mom) = some v)
    (hfresh : ∀ j : Nat, tfind st.ltab (k, ((st.cnt + j : Nat) : Int)) = none) :
    lookup (enter d st) k = some v := by
  obtain ⟨inner, hs, hmem⟩ := enter_stack d st
  apply C11_labels_local_before_global (enter d st) k inner st.mom st.conts v hs
  · intro x hx
    obtain ⟨j, _, hx⟩ := hmem x hx
    refine ⟨by rw [hx]; omega, ?_⟩
    rw [enter_ltab, hx]; exact hfresh j
  · exact hm
  · rw [enter_ltab]; exact hv

/-! non-vacuity and the demo shape: MACRO > REPT 2 > IRP 2 with a label of the macro body referenced from both levels, a
global symbol of the same name in front, the macro called twice, the global referenced behind -/
section Examples
def bodyIrp : Items := .cons (.ref 1) .nil
def bodyRept : Items := .cons (.ref 1) (.cons (.con false false 2 bodyIrp) .nil)
def bodyMac : Items := .cons (.lab 1) (.cons (.con false false 2 bodyRept) .nil)
def demo : Items :=
  .cons (.lab 1) (.cons (.con false false 1 bodyMac) (.cons (.con false false 1 bodyMac) (.cons (.ref 1) .nil)))
example : MacroLabels.bytesOf demo = MacroLabelsSpec.bytesOf demo := by decide
example : (MacroLabels.bytesOf demo).take 9 = [some 129, some 129, some 1, some 1, some 1, some 1, some 1, some 1, some 129] := by decide
example : (MacroLabels.bytesOf demo).getLast? = some (some 0) := by decide
-- hypotheses of the depth theorems are satisfiable: a space holding label 1, three more spaces entered
def s1 : St := defineLabel (pushFresh {}) 1 5
example : s1.mom ≠ -1 := by decide
example : tfind s1.ltab (1, s1.mom) = some 5 := by decide
example : lookup (enter 3 { s1 with gtab := [(1, 77)] }) 1 = some 5 := by decide
example : lookup (enter 3 { s1 with gtab := [(1, 77)] }) 2 = none := by decide
example : lookup { (enter 3 s1) with gtab := [(2, 77)] } 2 = some 77 := by decide
end Examples

/-! ## the run of the model is the hand expansion -/

/-- **`C11_labels_refines`: the code of the construct program is the code of its hand expansion**, for every program tree:
the bytes the model lays down (handle stack, `FindLocNode` over the whole chain, local before global, the pass loop) are the
bytes of the SPEC's hand expansion with the labels of every body copy renamed (`none` = the name is defined nowhere, both
refuse) -/
theorem C11_labels_refines (prog : Items) (hnd : NoDoubleDef prog) (hne : NoEarlyBind prog) :
    MacroLabels.bytesOf prog = MacroLabelsSpec.bytesOf prog := by
  rw [spec_bytes_flat]
  exact assemble_flat prog (flat_wf prog) hnd hne

/-- with one more pass in any case (hook `ASL_VERIF_EXTRA_PASSES=1`, `assemble2`) the order of references and labels does
not matter -/
theorem C11_labels_refines_extra_pass (prog : Items) (hnd : NoDoubleDef prog) :
    (assemble2 prog).out.reverse = MacroLabelsSpec.bytesOf prog := by
  rw [spec_bytes_flat]
  exact pass2_flat prog (flat_wf prog) hnd

/-- ... nor does it when anything in the first pass asked for a second one (any reference that found nothing) -/
theorem C11_labels_refines_second_pass (prog : Items) (hnd : NoDoubleDef prog)
    (h2 : (pass {} prog).out.any Option.isNone = true) :
    MacroLabels.bytesOf prog = MacroLabelsSpec.bytesOf prog := by
  rw [← C11_labels_refines_extra_pass prog hnd]
  unfold MacroLabels.bytesOf assemble assemble2
  simp only [h2, if_true]

/-- **exactly when**: for a program without double definitions the code is the hand expansion's if and only if no reference is
bound early or the first pass asks for a second one - the known finding is the whole difference between the model (= the real
assembler, compared every run) and the hand expansion -/
theorem C11_labels_refines_iff (prog : Items) (hnd : NoDoubleDef prog) :
    MacroLabels.bytesOf prog = MacroLabelsSpec.bytesOf prog ↔
      (NoEarlyBind prog ∨ (pass {} prog).out.any Option.isNone = true) := by
  constructor
  · intro h
    by_cases hne : NoEarlyBind prog
    · exact Or.inl hne
    · right
      cases hany : (pass {} prog).out.any Option.isNone with
      | true => rfl
      | false =>
        exfalso
        rw [spec_bytes_flat] at h
        have hne' : noEarlyBindL [] (flat prog) = false := by
          unfold NoEarlyBind at hne
          cases hq : noEarlyBindL [] (flat prog) with
          | true => exact absurd hq hne
          | false => rfl
        exact assemble_flat_conv prog hnd hne' hany h
  · intro h
    rcases h with h | h
    · exact C11_labels_refines prog hnd h
    · exact C11_labels_refines_second_pass prog hnd h

/-- the hypotheses speak about keys of the model; **in the SPEC's words `NoDoubleDef` is: no two label statements of the hand
expansion have the same (renamed) name** (`noDoubleEv` over `MacroLabelsSpec.expand`, nothing of the model in it) -/
theorem C11_labels_nodoubledef_spec (prog : Items) : NoDoubleDef prog ↔ noDoubleEv (expand prog) = true := by
  unfold NoDoubleDef
  rw [noDoubleDefL_spec (flat_wf prog) (flat prog) (fun _ h => h), expand_flat]

/-- the chains are consistent for every program: a handle / a copy number names one body copy, the labels of a copy's body text
are the keys entered under its handle -/
theorem C11_labels_chains_consistent (prog : Items) : WF (flat prog) := flat_wf prog

/-- the hand expansion is the list of executed statements with the SPEC's naming -/
theorem C11_labels_expand_flat (prog : Items) : expand prog = (flat prog).map specEv := expand_flat prog

/-- one pass of the model is the table machine over the list of executed statements -/
theorem C11_labels_pass_flat (st : St) (prog : Items) :
    tbOf (pass st prog) = runT ⟨st.ltab, st.gtab, 0, []⟩ (flat prog) := pass_flat st prog

section RefineExamples
-- the hypotheses hold for the demo program (MACRO called twice > REPT 2 > IRP 2, global namesake in front, 16 statements)
example : NoDoubleDef demo ∧ NoEarlyBind demo := by decide
example : (flat demo).length = 16 ∧ ((flat demo).map (fun x => x.fr.length)).max? = some 3 := by decide
/-- a forward reference that is harmless: REPT 2 { `db lb1` · `lb1:` } without any namesake - pass 1 finds nothing, pass 2 is made -/
def fwdOk : Items := .cons (.con false false 2 (.cons (.ref 1) (.cons (.lab 1) .nil))) .nil
example : NoDoubleDef fwdOk ∧ NoEarlyBind fwdOk ∧ (pass {} fwdOk).out.any Option.isNone = true ∧
    MacroLabels.bytesOf fwdOk = [some 1, some 129, some 3, some 129] := by decide
/-- the witness of the known finding: `lb1:` global · macro call { `db lb1` · `lb1:` } -/
def fwdBad : Items := .cons (.lab 1) (.cons (.con false false 1 (.cons (.ref 1) (.cons (.lab 1) .nil))) .nil)
/-- the same label twice at top level, then a reference -/
def dbl : Items := .cons (.lab 1) (.cons (.lab 1) (.cons (.ref 1) .nil))
example : noDoubleEv (expand demo) = true ∧ noDoubleEv (expand dbl) = false := by decide
end RefineExamples

/-- **`NoEarlyBind` cannot be dropped**: `NoDoubleDef` holds, the reference in front of the body's own label finds the global
`lb1` (address 0) in pass 1, nothing asks for a second pass; the hand expansion means the copy's label (address 2) -/
theorem C11_labels_refines_hypothesis_needed :
    NoDoubleDef fwdBad ∧ ¬ NoEarlyBind fwdBad ∧
      MacroLabels.bytesOf fwdBad = [some 129, some 0, some 129] ∧
      MacroLabelsSpec.bytesOf fwdBad = [some 129, some 2, some 129] ∧
      (assemble2 fwdBad).out.reverse = MacroLabelsSpec.bytesOf fwdBad := by decide

/-- the known finding on the model (`forward-ref-in-macro-body-binds-outer-symbol-when-no-second-pass`): one pass only, no
reference undefined, the code keeps the outer label's address -/
theorem C11_finding_forward_ref_binds_outer :
    (pass {} fwdBad).out.any Option.isNone = false ∧ MacroLabels.bytesOf fwdBad ≠ MacroLabelsSpec.bytesOf fwdBad := by decide

/-- **`NoDoubleDef` cannot be dropped**: the table keeps the last definition, the hand expansion's address is that of the first
(the real assembler refuses the program: "symbol double defined") -/
theorem C11_labels_refines_nodoubledef_needed :
    ¬ NoDoubleDef dbl ∧ NoEarlyBind dbl ∧ MacroLabels.bytesOf dbl ≠ MacroLabelsSpec.bytesOf dbl := by decide

end AslModel.MacroLabels
