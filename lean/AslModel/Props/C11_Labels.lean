import AslModel.Lemmas.MacroLabels
/-! C11, labels of enclosing expansions seen from nested bodies: property theorems over `Model/MacroLabels.lean`
(`FindLocNode` and the handle stack of `asmpars.c`, handle discipline of the construct processors of `as.c`).
Unbounded: any nesting depth, any number of iterations, any tables.

NOT proved here: `bytesOf (model) = bytesOf (spec)` for every program (model = hand expansion); the two are compared by
running them (driver mode `c11lab`) next to the real assembler.  Full statement kept for whoever continues:
`∀ prog, NoDoubleDef prog → MacroLabels.bytesOf prog = MacroLabelsSpec.bytesOf prog`. -/
namespace AslModel.MacroLabels
open AslModel.MacroLabelsSpec

/-- **A label of an enclosing expansion is found from a body nested ANY number of levels further in**: if the spaces
between the current one and the space `h` (`inner`, as many as one likes - none, one, two, ...) are open spaces that do
not hold the name, `FindLocNode` delivers the entry of `h`.  (Looking only into the directly enclosing expansion would
make this false for `inner.length ≥ 2`.) -/
theorem C11_labels_found_at_any_depth (st : St) (k : Nat) (inner : List Int) (h : Int) (rest : List Int) (v : Nat)
    (hstack : st.mom :: st.conts = inner ++ h :: rest)
    (hin : ∀ x ∈ inner, x ≠ -1 ∧ tfind st.ltab (k, x) = none)
    (hh : h ≠ -1) (hv : tfind st.ltab (k, h) = some v) :
    findLocNode st k = some v := by
  unfold findLocNode
  cases inner with
  | nil =>
    simp only [List.nil_append, List.cons.injEq] at hstack
    simp [hstack.1, hh, hv]
  | cons a t =>
    simp only [List.cons_append, List.cons.injEq] at hstack
    have ha := hin a (List.mem_cons_self)
    rw [hstack.1, hstack.2]
    simp only [ha.1, if_false, ha.2]
    rw [walkConts_skip st.ltab k t (h :: rest) (fun x hx => hin x (List.mem_cons_of_mem _ hx))]
    simp [walkConts, hh, hv]

/-- ... and it wins over a global symbol of the same name, whatever the global table holds -/
theorem C11_labels_local_before_global (st : St) (k : Nat) (inner : List Int) (h : Int) (rest : List Int) (v : Nat)
    (hstack : st.mom :: st.conts = inner ++ h :: rest)
    (hin : ∀ x ∈ inner, x ≠ -1 ∧ tfind st.ltab (k, x) = none)
    (hh : h ≠ -1) (hv : tfind st.ltab (k, h) = some v) :
    lookup st k = some v := by
  unfold lookup
  rw [C11_labels_found_at_any_depth st k inner h rest v hstack hin hh hv]

/-- what lies further out than the space that holds the name (`h2`: one more enclosing space, with whatever content) and what
the global table holds under the name do not matter -/
theorem C11_labels_outer_and_global_irrelevant (st : St) (k : Nat) (inner : List Int) (h : Int) (rest : List Int) (v : Nat)
    (hstack : st.mom :: st.conts = inner ++ h :: rest)
    (hin : ∀ x ∈ inner, x ≠ -1 ∧ tfind st.ltab (k, x) = none)
    (hh : h ≠ -1) (hv : tfind st.ltab (k, h) = some v) (w : Nat) (h2 : Int) :
    findLocNode { st with ltab := st.ltab, conts := st.conts ++ [h2], gtab := [(k, w)] } k = some v := by
  apply C11_labels_found_at_any_depth _ k inner h (rest ++ [h2]) v
  · show st.mom :: (st.conts ++ [h2]) = inner ++ h :: (rest ++ [h2])
    rw [← List.cons_append, hstack]; simp
  · exact hin
  · exact hh
  · exact hv

/-- no open space holds the name: the reference means the global symbol -/
theorem C11_labels_else_global (st : St) (k : Nat) (h : findLocNode st k = none) : lookup st k = gfind st.gtab k := by
  unfold lookup; rw [h]

/-- **After any construct the handle stack is the one before it**, for every construct kind, iteration count and nesting
depth: what a line behind a nested construct sees is what a line in front of it sees. -/
theorem C11_labels_stack_restored (i : Item) (st : St) :
    (execItem i st).mom = st.mom ∧ (execItem i st).conts = st.conts :=
  ⟨(execItem_frame i st).mom, (execItem_frame i st).conts⟩

theorem C11_labels_stack_restored_list (is : Items) (st : St) :
    (execItems is st).mom = st.mom ∧ (execItems is st).conts = st.conts :=
  ⟨(execItems_frame is st).mom, (execItems_frame is st).conts⟩

/-- **Transparency of nesting for references**: a line `d` bodies further in (any `d`, any construct kinds) sees the label
of the expansion it is written in - provided the handles handed out from now on are unused (they are: the counter only
grows within a pass) -, also when a global symbol of that name exists. -/
theorem C11_labels_nested_sees_outer (st : St) (k v : Nat) (d : Nat) (hm : st.mom ≠ -1)
    (hv : tfind st.ltab (k, st.mom) = some v)
    (hfresh : ∀ j : Nat, tfind st.ltab (k, ((st.cnt + j : Nat) : Int)) = none) :
    lookup (enter d st) k = some v := by
  obtain ⟨inner, hs, hmem⟩ := enter_stack d st
  apply C11_labels_local_before_global (enter d st) k inner st.mom st.conts v hs
  · intro x hx
    obtain ⟨j, _, hx⟩ := hmem x hx
    refine ⟨by rw [hx]; omega, ?_⟩
    rw [enter_ltab, hx]; exact hfresh j
  · exact hm
  · rw [enter_ltab]; exact hv

/-! non-vacuity and the demo shape: MACRO > REPT 2 > IRP 2 with a label of the macro body referenced from both levels, a
global symbol of the same name in front, the macro called twice, the global referenced behind -/
section Examples
def bodyIrp : Items := .cons (.ref 1) .nil
def bodyRept : Items := .cons (.ref 1) (.cons (.con false false 2 bodyIrp) .nil)
def bodyMac : Items := .cons (.lab 1) (.cons (.con false false 2 bodyRept) .nil)
def demo : Items :=
  .cons (.lab 1) (.cons (.con false false 1 bodyMac) (.cons (.con false false 1 bodyMac) (.cons (.ref 1) .nil)))
example : MacroLabels.bytesOf demo = MacroLabelsSpec.bytesOf demo := by decide
example : (MacroLabels.bytesOf demo).take 9 = [some 129, some 129, some 1, some 1, some 1, some 1, some 1, some 1, some 129] := by decide
example : (MacroLabels.bytesOf demo).getLast? = some (some 0) := by decide
-- hypotheses of the depth theorems are satisfiable: a space holding label 1, three more spaces entered
def s1 : St := defineLabel (pushFresh {}) 1 5
example : s1.mom ≠ -1 := by decide
example : tfind s1.ltab (1, s1.mom) = some 5 := by decide
example : lookup (enter 3 { s1 with gtab := [(1, 77)] }) 1 = some 5 := by decide
example : lookup (enter 3 { s1 with gtab := [(1, 77)] }) 2 = none := by decide
example : lookup { (enter 3 s1) with gtab := [(2, 77)] } 2 = some 77 := by decide
end Examples

end AslModel.MacroLabels
