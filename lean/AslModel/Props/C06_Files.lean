import AslModel.Lemmas.HexFiles
import AslModel.Props.C06_Formats
/-! # C06 — several source arguments and address offsets `name(offset)` (see DESIGN.md 4.6)

`Model/P2Hex.lean` `p2hexFiles` transcribes `main` with several source arguments: `MeasureFile` over every argument with
its offset added (`Adr += Offset`, then `EndAdr`), `ProcessFile` per argument (`InpStart += Offset`, then the window).
The SPEC side is `Spec/HexImage.lean` `expectedCellsFiles`: every file's contents at address + offset, `$`/`0x` bounds of
`-r` = lowest / highest *moved* address of all files.

* `C06_files_single`       – one argument without offset: `p2hexFiles` is the one-file model all other theorems are about
* `C06_files_auto_covers`  – the two passes agree: the automatically deduced window contains every moved record of every
                             argument completely (what breaks when `MeasureFile` forgets the offset in one of the bounds)
* `C06_files_whole_record` – hence with the default range no byte of any file is clipped away
* `C06_files_move`, `C06_files_window_lo/_hi` – the model's moved records / measured window are the SPEC's
* `C06_files_record_image` – end to end per record of any file: the group the model builds under the measured window
                             has exactly the cells the SPEC prescribes for the moved record
-/
namespace AslModel.C06
open AslModel.Hex AslModel.P2Hex AslModel.HexLemmas
open AslModel.PFile (b b_toNat Rec Item dataRecs)

/-! ## one argument, no offset -/

/-- **One source argument without offset**: `p2hexFiles` is `p2hex` (start addresses are 32-bit fields of the code file). -/
theorem C06_files_single (o : Opts) (items : List Item) (h : ∀ r ∈ dataRecs items, r.start < two32) :
    p2hexFiles o [⟨items, 0⟩] = p2hex o items := by
  have hrecs : srcRecs ⟨items, 0⟩ = dataRecs items := by
    unfold srcRecs; exact map_shiftRec_zero _ h
  unfold p2hexFiles p2hex
  simp only [allRecs, allItems, List.append_nil, hrecs, processFiles]
  have hst : ({ ({} : St) with chk := 0 } : St) = {} := rfl
  rw [hst]
  cases hs : selectGroups o (segStart o (dataRecs items)) (segStop o (dataRecs items)) (dataRecs items) with
  | error e => simp [bind, Except.bind]
  | ok gw =>
    obtain ⟨gs, w⟩ := gw
    cases he : emitGroups o {} gs with
    | error e => simp [bind, Except.bind, he]
    | ok sl =>
      obtain ⟨st, ls⟩ := sl
      simp [bind, Except.bind, he, pure, Except.pure]

example : p2hexFiles { destFormat := some .intel } [⟨[.data ⟨0x51, 1, 1, 0x100, [1, 2, 3]⟩], 0⟩] =
    p2hex { destFormat := some .intel } [.data ⟨0x51, 1, 1, 0x100, [1, 2, 3]⟩] :=
  C06_files_single _ _ (by decide)

/-! ## the measured window contains every moved record -/

/-- **The two passes agree.**  For any list of source arguments with any offsets: a record of any argument, moved by that
argument's offset (`srcRecs` — what `ProcessFile` clips), lies completely inside the window `MeasureFile` deduces
(`segStart`/`segStop` over `allRecs`) in every bound that is automatic. -/
theorem C06_files_auto_covers (o : Opts) (srcs : List Src) (s : Src) (r : Rec) (hs : s ∈ srcs) (hr : r ∈ srcRecs s)
    (hv : measureValid o r.seg.toNat = true) :
    (o.startAuto = true → segStart o (allRecs srcs) r.seg.toNat ≤ r.start) ∧
    (o.stopAuto = true → recEnd r ≤ segStop o (allRecs srcs) r.seg.toNat) := by
  have hm := mem_allRecs srcs s r hs hr
  constructor
  · intro ha
    unfold segStart
    rw [if_pos ha]
    exact (foldl_start_le o r.seg.toNat (allRecs srcs) 4294967295).2 r hm hv rfl
  · intro ha
    unfold segStop
    rw [if_pos ha]
    exact (foldl_stop_ge o r.seg.toNat (allRecs srcs) 0).2 r hm hv rfl

example : segStart {} (allRecs [⟨[.data ⟨0x51, 1, 1, 0x100, [1, 2, 3]⟩], 8⟩, ⟨[.data ⟨0x51, 1, 1, 0x100, [7, 8]⟩], 0x1000⟩]) 1 = 0x108 ∧
    segStop {} (allRecs [⟨[.data ⟨0x51, 1, 1, 0x100, [1, 2, 3]⟩], 8⟩, ⟨[.data ⟨0x51, 1, 1, 0x100, [7, 8]⟩], 0x1000⟩]) 1 = 0x1101 := by decide

/-- **With the default range nothing is clipped.**  Whatever the source arguments and their offsets: the group built for a
moved record under the measured window carries all bytes of the record (`ErgStop` = its last address), at
address + offset (+ `-R`).  Guards: the record is shorter than 64 KiB (its length field is a `Word`), a whole number of
granules, and the moved record does not wrap at 2^32. -/
theorem C06_files_whole_record (o : Opts) (srcs : List Src) (s : Src) (r : Rec) (g : Group) (ov : Bool)
    (hs : s ∈ srcs) (hr : r ∈ srcRecs s) (ha : o.startAuto = true) (hb : o.stopAuto = true)
    (hsel : selectRec o (segStart o (allRecs srcs)) (segStop o (allRecs srcs)) r = .ok (some (g, ov)))
    (hgran : r.data.length % r.gran.toNat = 0) (hg0 : r.gran.toNat ≠ 0)
    (hlen1 : 1 ≤ r.data.length) (hlen : r.data.length < 65536)
    (h32 : r.start + r.data.length / r.gran.toNat ≤ 4294967296) :
    g.data = r.data ∧ g.ergStop = r.start + r.data.length / r.gran.toNat - 1 ∧
    (o.relAdr = false → g.ergStart = (r.start + o.relocate) % two32) := by
  have hv := selectRec_measured _ _ _ _ _ _ hsel
  obtain ⟨hlo, hhi⟩ := C06_files_auto_covers o srcs s r hs hr hv
  have hlo := hlo ha
  have hhi := hhi hb
  obtain ⟨_, _, _, hstop, hdata, hstart, _⟩ := selectRec_fields _ _ _ _ _ _ hsel
  have hq : 1 ≤ r.data.length / r.gran.toNat := by
    have hpos : 0 < r.gran.toNat := Nat.pos_of_ne_zero hg0
    have : r.gran.toNat ≤ r.data.length := by
      have := Nat.le_of_dvd (by omega) (Nat.dvd_of_mod_eq_zero hgran)
      exact this
    exact (Nat.le_div_iff_mul_le hpos).mpr (by omega)
  have hend : recEnd r = r.start + r.data.length / r.gran.toNat - 1 := by
    unfold recEnd two32; omega
  have hcs : clipStart (segStart o (allRecs srcs)) r = r.start := by unfold clipStart; omega
  have hce : clipStop (segStop o (allRecs srcs)) r = r.start + r.data.length / r.gran.toNat - 1 := by
    unfold clipStop; omega
  refine ⟨?_, ?_, ?_⟩
  · rw [hdata]
    unfold clipData
    rw [hcs, hce]
    have h1 : r.start + r.data.length / r.gran.toNat - 1 + 1 - r.start = r.data.length / r.gran.toNat := by omega
    rw [h1, Nat.sub_self, Nat.zero_mul, List.drop_zero, Nat.div_mul_cancel (Nat.dvd_of_mod_eq_zero hgran),
      Nat.mod_eq_of_lt hlen, List.take_length]
  · rw [hstop, hce]
  · intro hrel
    rw [hstart, hrel, hcs]
    simp

/-- non-vacuity: the call `lo.p hi.p(0x1000)`; the record of the second argument satisfies every hypothesis -/
example : (⟨.intel, 1, 1, 0x1100, 0x1101, [7, 8]⟩ : Group).data = [7, 8] ∧ (0x1101 : Nat) = 0x1100 + 2 / 1 - 1 ∧
    ((false = false) → (0x1100 : Nat) = (0x1100 + 0) % two32) :=
  C06_files_whole_record { destFormat := some .intel }
    [⟨[.data ⟨0x51, 1, 1, 0x100, [1, 2, 3]⟩], 0⟩, ⟨[.data ⟨0x51, 1, 1, 0x100, [7, 8]⟩], 0x1000⟩]
    ⟨[.data ⟨0x51, 1, 1, 0x100, [7, 8]⟩], 0x1000⟩ ⟨0x51, 1, 1, 0x1100, [7, 8]⟩ ⟨.intel, 1, 1, 0x1100, 0x1101, [7, 8]⟩ false
    (by simp) (by simp [srcRecs, dataRecs, shiftRec, two32]) rfl rfl rfl (by decide) (by decide) (by decide) (by decide) (by decide)

/-- what the two-file call `lo.p hi.p(0x1000)` gives in the model: both files completely, the second at `0x1100` -/
example : (p2hexFiles { destFormat := some .intel }
      [⟨[.data ⟨0x51, 1, 1, 0x100, [1, 2, 3]⟩], 0⟩, ⟨[.data ⟨0x51, 1, 1, 0x100, [7, 8]⟩], 0x1000⟩]).toOption.map (·.lines.map String.ofList) =
    some [":03010000010203F6", ":021100000708DE", ":00000001FF"] := by decide

/-! ## the model's moved records and measured window are the SPEC's -/

/-- the `LongWord` the offset is stored in moves a record exactly as the signed value does in the SPEC -/
theorem C06_files_move (k : Int) (r : Rec) :
    shiftRec (k % 4294967296).toNat r = HexImage.moveRec k r := by
  unfold shiftRec HexImage.moveRec HexImage.two32
  congr 1
  unfold two32
  omega

example : shiftRec ((-0x80 : Int) % 4294967296).toNat ⟨0x51, 1, 1, 0x100, [1]⟩ = ⟨0x51, 1, 1, 0x80, [1]⟩ ∧
    HexImage.moveRec (-0x80) ⟨0x51, 1, 1, 0x100, [1]⟩ = ⟨0x51, 1, 1, 0x80, [1]⟩ := by decide

/-- SPEC window start (lowest address of the selected records) = `MeasureFile`'s `StartAdr[segment]` -/
theorem C06_files_window_lo (o : Opts) : ∀ (rs : List Rec) (m : Nat),
    (rs.filter (HexImage.selected o.forceSeg)).foldl (fun m r => min m r.start) m =
    rs.foldl (fun m r => if measureValid o r.seg.toNat && r.seg.toNat == (if o.forceSeg ≠ 0 then o.forceSeg else 1) && r.start < m
      then r.start else m) m
  | [], _ => by simp only [List.filter_nil, List.foldl_nil]
  | x :: xs, m => by
    simp only [List.foldl_cons, List.filter_cons]
    by_cases hsel : HexImage.selected o.forceSeg x = true
    · rw [if_pos hsel, List.foldl_cons, C06_files_window_lo o xs]
      congr 1
      unfold HexImage.selected at hsel
      have hv : measureValid o x.seg.toNat = true := by
        unfold measureValid
        by_cases hf : o.forceSeg ≠ 0
        · simpa [hf] using hsel
        · simp only [hf, if_false] at hsel ⊢
          simp only [Bool.or_eq_true]; exact Or.inl hsel
      rw [hv, hsel]
      by_cases hlt : x.start < m
      · simp [hlt]; omega
      · simp [hlt]; omega
    · rw [if_neg hsel, C06_files_window_lo o xs]
      congr 1
      unfold HexImage.selected at hsel
      have hf : (x.seg.toNat == (if o.forceSeg ≠ 0 then o.forceSeg else 1)) = false := by simpa using hsel
      rw [hf]
      simp
/-- SPEC window end (highest address of the selected records) = `MeasureFile`'s `StopAdr[segment]`, for records that do not
wrap at 2^32 -/
theorem C06_files_window_hi (o : Opts) (rs : List Rec) : ∀ (m : Nat), (∀ r ∈ rs, 1 ≤ r.start + r.data.length / r.gran.toNat ∧ r.start + r.data.length / r.gran.toNat ≤ 4294967296) →
    (rs.filter (HexImage.selected o.forceSeg)).foldl (fun m r => max m (HexImage.lastAddr r)) m =
    rs.foldl (fun m r => if measureValid o r.seg.toNat && r.seg.toNat == (if o.forceSeg ≠ 0 then o.forceSeg else 1) && recEnd r > m
      then recEnd r else m) m := by
  induction rs with
  | nil => intro m _; simp only [List.filter_nil, List.foldl_nil]
  | cons x xs ih =>
    intro m h
    have hx := h x (List.mem_cons_self ..)
    have hxs : ∀ r ∈ xs, 1 ≤ r.start + r.data.length / r.gran.toNat ∧ r.start + r.data.length / r.gran.toNat ≤ 4294967296 := fun r hr => h r (List.mem_cons_of_mem _ hr)
    have hend : recEnd x = HexImage.lastAddr x := by
      unfold recEnd HexImage.lastAddr two32; omega
    by_cases hsel : HexImage.selected o.forceSeg x = true
    · rw [List.filter_cons_of_pos hsel]
      simp only [List.foldl_cons]
      refine (ih _ hxs).trans (foldl_init_congr _ _ _ _ ?_)
      unfold HexImage.selected at hsel
      have hv : measureValid o x.seg.toNat = true := by
        unfold measureValid
        by_cases hf : o.forceSeg ≠ 0
        · simpa [hf] using hsel
        · simp only [hf, if_false] at hsel ⊢
          simp only [Bool.or_eq_true]; exact Or.inl hsel
      rw [hend, hv, hsel]
      by_cases hlt : HexImage.lastAddr x > m
      · simp [hlt]; omega
      · simp [hlt]; omega
    · rw [List.filter_cons_of_neg hsel]
      simp only [List.foldl_cons]
      refine (ih _ hxs).trans (foldl_init_congr _ _ _ _ ?_)
      unfold HexImage.selected at hsel
      have hf : (x.seg.toNat == (if o.forceSeg ≠ 0 then o.forceSeg else 1)) = false := by simpa using hsel
      rw [hf]
      simp

/-- **End to end for a record of any source argument** (byte-addressed target, `-m 0`, automatic range, any `-a` / `-R`):
the group the model builds for the record moved by its argument's offset, under the window measured over *all* arguments,
has exactly the address → byte cells the SPEC prescribes for the moved record under the SPEC's own window (lowest / highest
moved address of the selected records of all files).  `sel` is the SPEC's list of selected moved records
(`expectedCellsFiles`); the link between the two lists of records is `C06_files_move`. -/
theorem C06_files_record_image (o : Opts) (srcs : List Src) (r : Rec) (g : Group) (ov : Bool)
    (ha : o.startAuto = true) (hb : o.stopAuto = true)
    (hall : ∀ x ∈ allRecs srcs, 1 ≤ x.start + x.data.length / x.gran.toNat ∧ x.start + x.data.length / x.gran.toNat ≤ 4294967296)
    (hseg : r.seg.toNat = (if o.forceSeg ≠ 0 then o.forceSeg else 1))
    (hsel : selectRec o (segStart o (allRecs srcs)) (segStop o (allRecs srcs)) r = .ok (some (g, ov))) (hg : r.gran = 1)
    (hlen1 : 1 ≤ r.data.length) (hlen : r.data.length < 65536) (h32 : r.start + r.data.length ≤ 4294967296)
    (hw : clipStop (segStop o (allRecs srcs)) r + 1 - (if o.relAdr then segStart o (allRecs srcs) r.seg.toNat else 0) + o.relocate ≤ 4294967296) :
    cellsFrom g.ergStart g.data =
      HexImage.recCells (HexImage.windowLo none ((allRecs srcs).filter (HexImage.selected o.forceSeg)))
        (HexImage.windowHi none ((allRecs srcs).filter (HexImage.selected o.forceSeg))) o.relAdr o.relocate 0 r := by
  have h := C06_select_image o _ _ r g ov hsel hg hlen1 hlen h32 hw
  rw [h]
  have hlo : HexImage.windowLo none ((allRecs srcs).filter (HexImage.selected o.forceSeg)) = segStart o (allRecs srcs) r.seg.toNat := by
    unfold HexImage.windowLo segStart
    rw [if_pos ha, hseg]
    exact C06_files_window_lo o (allRecs srcs) 4294967295
  have hhi : HexImage.windowHi none ((allRecs srcs).filter (HexImage.selected o.forceSeg)) = segStop o (allRecs srcs) r.seg.toNat := by
    unfold HexImage.windowHi segStop
    rw [if_pos hb, hseg]
    exact C06_files_window_hi o (allRecs srcs) 0 hall
  rw [hlo, hhi]

/-- non-vacuity: `lo.p hi.p(0x1000)`, the record of the second argument (window `0x100 … 0x1101` measured over both) -/
example : cellsFrom 0x1100 [7, 8] =
    HexImage.recCells (HexImage.windowLo none ((allRecs [⟨[.data ⟨0x51, 1, 1, 0x100, [1, 2, 3]⟩], 0⟩, ⟨[.data ⟨0x51, 1, 1, 0x100, [7, 8]⟩], 0x1000⟩]).filter (HexImage.selected 0)))
      (HexImage.windowHi none ((allRecs [⟨[.data ⟨0x51, 1, 1, 0x100, [1, 2, 3]⟩], 0⟩, ⟨[.data ⟨0x51, 1, 1, 0x100, [7, 8]⟩], 0x1000⟩]).filter (HexImage.selected 0)))
      false 0 0 ⟨0x51, 1, 1, 0x1100, [7, 8]⟩ :=
  C06_files_record_image { destFormat := some .intel }
    [⟨[.data ⟨0x51, 1, 1, 0x100, [1, 2, 3]⟩], 0⟩, ⟨[.data ⟨0x51, 1, 1, 0x100, [7, 8]⟩], 0x1000⟩]
    ⟨0x51, 1, 1, 0x1100, [7, 8]⟩ ⟨.intel, 1, 1, 0x1100, 0x1101, [7, 8]⟩ false rfl rfl (by decide) rfl (by rfl) rfl
    (by decide) (by decide) (by decide) (by decide)

/-- and the values: the SPEC's window for these two files is `0x100 … 0x1101` -/
example : HexImage.expectedCellsFiles 0 none none false 0 0
      [(0, [⟨0x51, 1, 1, 0x100, [1, 2, 3]⟩]), (0x1000, [⟨0x51, 1, 1, 0x100, [7, 8]⟩])] =
    [(0x100, 1), (0x101, 2), (0x102, 3), (0x1100, 7), (0x1101, 8)] := by decide

end AslModel.C06
