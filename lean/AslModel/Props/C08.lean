import AslModel.Lemmas.ExprEval
import AslModel.Lemmas.IntOps
import AslModel.Lemmas.BitFuncs
import AslModel.Lemmas.ExprConv
/-!
# C08 — expressions and constants evaluate to their documented mathematical value

Property theorems only (helper lemmas: `Lemmas/Expr.lean`, `Lemmas/ExprEval.lean`, `Lemmas/IntOps.lean`).

SPEC  `Spec/Formula.lean`  – `Formula`, ranks/spellings of the manual's operator table, `render`, `eval`.
MODEL `Model/Expr.lean`    – tokeniser, split scan, recursion of `EvalStrExpression`; `*Op`/`Func*` bodies;
                             driven by `Generated/Operators.lean` (regenerated from operator.c/function.c).

What "token level" means here.  The parse theorem is about `evalToks` on `toks f`, the token list of the
rendered formula (atoms carry their value, an operator token carries the list of `Operators[]` entries
the candidate loop matches there).  `lex (render f) = toks f`, i.e. that cutting the character string at operator
characters with the longest-match rule yields these tokens and `ConstIntVal` of a literal's text is the literal's
value, is a theorem for the fragment "integer literals, operators, parentheses, function calls" (`Props/C08_Lex.lean`:
`C08_lex_roundtrip`, and `C08_parse_text_evalStr` = this file's parse theorem for the rendered TEXT); for float
literals and string / character constants it is left to the correspondence run (checked for every generated case by
the driver, field `lex`).
-/
namespace AslModel.C08
open AslModel.Formula AslModel.Expr AslModel.Generated

/-! ## obligations on the generated tables (re-checked whenever operator.c changes) -/

/-- `Operators[]` against the manual's rank column: every documented spelling is an entry with a
positive priority number, priority numbers are a strictly monotone image of the ranks
(`rank a < rank b ↔ prio a < prio b`, 25 × 25 pairs, unary operators included), the dummy entry 0 has
priority 0, and at every operator spelling the candidate loop (`IdLen >= OpLen`, update for *every*
candidate with `Priority >=`) ends on the longest match: each candidate list is the entry itself or
one shorter spelling before it whose priority number is not larger
(`<`/`<<`/`<=`/`<>`, `>`/`>>`/`>=`/`><`, `=`/`==`, `&`/`&&`, `|`/`||`, `!`/`!!`, `~`/`~~`). -/
theorem C08_table_ranks : TableOK prioOf where
  zero := by decide
  pos := by decide
  lt := by decide
  cands := by decide

/-- dyadic flags: every documented dyadic operator is `Dyadic`, `~`/`~~` are not, and a leading `-`
is served by `MinusMonadicOperator`, which is not dyadic. -/
theorem C08_table_rows : RowsOK where
  binDy := by decide
  unDy := by decide

/-- the longest-match obligation spelled out for the prefix pairs -/
theorem C08_table_longest_match :
    candsOf ['<', '<'] = [idxOf ['<', '<']] ∧ candsOf ['<', '='] = [idxOf ['<'], idxOf ['<', '=']] ∧
    candsOf ['<', '>'] = [idxOf ['<'], idxOf ['<', '>']] ∧ candsOf ['>', '>'] = [idxOf ['>', '>']] ∧
    candsOf ['>', '<'] = [idxOf ['>', '<']] ∧ candsOf ['>', '='] = [idxOf ['>'], idxOf ['>', '=']] ∧
    candsOf ['=', '='] = [idxOf ['='], idxOf ['=', '=']] ∧ candsOf ['&', '&'] = [idxOf ['&'], idxOf ['&', '&']] ∧
    candsOf ['|', '|'] = [idxOf ['|'], idxOf ['|', '|']] ∧ candsOf ['!', '!'] = [idxOf ['!'], idxOf ['!', '!']] ∧
    candsOf ['~', '~'] = [idxOf ['~'], idxOf ['~', '~']] := by decide

/-- every function of the manual's table that the SPEC models is an entry of `Functions[]` -/
theorem C08_table_functions : ∀ f ∈ Fn.all, (fnRowOf f.name).isSome = true := by decide

/-! ## parsing -/

/-- **C08_parse (token level).**  For every formula `f` (any depth, any mix of unary and dyadic
operators, calls with one to three arguments) and every operator/function semantics `M`, the model's
recursion – scan for the rightmost operator of highest priority number outside brackets, monadic-minus
rule, operand count check, split, bracket stripping, argument splitting – run on the tokens of the
minimally parenthesised rendering computes the structural fold of `f`. -/
theorem C08_parse (M : MSem) (f : Formula) :
    evalToks M (2 * Formula.size f) (toks f) = evalWith (semOf M) f :=
  evalToks_toks M C08_table_ranks C08_table_rows f _ (Nat.le_refl _)

/-- the same with more fuel: the result does not depend on the recursion budget -/
theorem C08_parse_fuel (M : MSem) (f : Formula) (n : Nat) (h : 2 * Formula.size f ≤ n) :
    evalToks M n (toks f) = evalWith (semOf M) f :=
  evalToks_toks M C08_table_ranks C08_table_rows f n h

/-- consequence for the documented value: if the model's operator and function bodies agree with the
manual's on every application (discharged operator by operator below; false at the listed findings),
the model evaluates the rendering of `f` to `eval f`. -/
theorem C08_parse_spec (q : Quirks) (f : Formula)
    (hun : ∀ u v, (modelM q).un (idxU u) v = specUn u v)
    (hbin : ∀ o a b, (modelM q).bin (idxB o) a b = specBin o a b)
    (hfn : ∀ g vs, (modelM q).fn g.name vs = specFn g vs) :
    evalToks (modelM q) (2 * Formula.size f) (toks f) = eval f := by
  rw [C08_parse]
  have : semOf (modelM q) = specSem := by
    simp only [semOf, specSem]
    congr 1
    · funext u v; exact hun u v
    · funext o a b; exact hbin o a b
    · funext g vs; exact hfn g vs
  rw [this]; rfl

/-- non-vacuity: `1+2*3`, `(1+2)*3`, `1-(2-3)`, `-2^2`, `~~~5`, `BITCNT(7)&SUBSTR…` evaluate as documented -/
example : intResult (evalToks (modelM Quirks.pinned) 20
    (toks (.bin .add (.lit (.int 1)) (.bin .mul (.lit (.int 2)) (.lit (.int 3)))))) = some 7 := by decide
example : intResult (evalToks (modelM Quirks.pinned) 20
    (toks (.bin .mul (.bin .add (.lit (.int 1)) (.lit (.int 2))) (.lit (.int 3))))) = some 9 := by decide
example : intResult (evalToks (modelM Quirks.pinned) 20
    (toks (.bin .sub (.lit (.int 1)) (.bin .sub (.lit (.int 2)) (.lit (.int 3)))))) = some 2 := by decide
example : (toks (.bin .mul (.bin .add (.lit (.int 1)) (.lit (.int 2))) (.lit (.int 3)))).length = 7 := by decide
example : intResult (evalToks (modelM Quirks.pinned) 20
    (toks (.un .neg (.bin .pow (.lit (.int 2)) (.lit (.int 2)))))) = some (-4) := by decide
example : intResult (evalToks (modelM Quirks.pinned) 20
    (toks (.fn1 .bitcnt (.un .lnot (.un .not (.lit (.int 5))))))) = some 0 := by decide +kernel

/-! ## automatic type conversion of operands: string → integer → float

`EvalStrExpression` chooses, per operator row, the type combination that needs the fewest conversions
(`TryConvert`, `BestOpMatch`), then converts each operand (`TempResultToInt` when bit 1 of its field is
set, `TempResultToFloat` when bit 0 is set – two independent steps) and calls the body.  The SPEC states
the promotion rule from the manual (`promote`, `applyConv`).  The theorems below tie the two for every
operator, every pair of operand types and every operand value. -/

/-- **promotion table**: for every dyadic operator of the manual and every pair of operand types the
type matching of the model on the regenerated `Operators[]` row (its `TypeCombinations`) decides exactly
what the promotion rule says – the same type errors, the same conversion for the left and for the right
operand (none / string→integer / integer→float / string→integer→float).  At the one point the manual
leaves open (string `+` integer) the model converts nothing (`AddOp` on mixed operands).
22 operators × 3 × 3 types, by evaluation of the table. -/
theorem C08_promotion_table (o : BinOp) (tl tr : Ty) :
    (promote o tl tr = .error .undef → modelConv (rowOf (idxB o)) tl tr = .ok (.keep, .keep)) ∧
    (promote o tl tr ≠ .error .undef → modelConv (rowOf (idxB o)) tl tr = promote o tl tr) := by
  cases o <;> cases tl <;> cases tr <;> decide

/-- the same for sign, complement and logical not (`MinusMonadicOperator` serves a leading `-`) -/
theorem C08_promotion_unary (u : UnOp) (t : Ty) :
    (modelConv (if (rowOf (idxU u)).id == ['-'] then minusMonadic else rowOf (idxU u)) .int t).map Prod.snd
      = promoteUn u t := by
  cases u <;> cases t <;> decide

/-- the promotion rule only ever asks for a conversion the operand's type allows -/
theorem C08_promotion_applicable (o : BinOp) (tl tr : Ty) (cl cr : Conv)
    (h : promote o tl tr = .ok (cl, cr)) : applicable cl tl = true ∧ applicable cr tr = true := by
  cases o <;> cases tl <;> cases tr <;> simp [promote, BinOp.accF, BinOp.accS] at h <;>
    (obtain ⟨h1, h2⟩ := h; subst h1; subst h2; decide)

/-- **conversion step**: for an applicable conversion and an operand whose characters are 8-bit
characters, the model's `convert` (`TempResultToInt` then `TempResultToFloat`, each on its own bit)
delivers the SPEC's converted operand - including the type error for a string without integer value (empty or
more than four characters; since the repair 9e997b4 - before it the C code went on with an operand that held no
number, finding `string-operand-not-convertible`). -/
theorem C08_convert_step (c : Conv) (v : Val) (ha : applicable c v.ty = true) (h8 : latin1 v) :
    convert (maskOf c) v = applyConv c v := by
  cases c <;> cases v <;> simp [applicable, Val.ty] at ha
  all_goals first
    | rfl
    | (rename_i s
       have hs : nonZString2Int s = strToInt s := nonZString2Int_spec s h8
       simp only [convert, maskOf, applyConv, asInt, hs]
       cases strToInt s <;> rfl)

/-- **a string meets a float** (the two-step conversion): under every operator that takes floats, a
character constant / multi character constant with integer value `n` and a float `y` are combined by the
float branch of the operator body on `(float) n` and `y` – in both operand orders – and that is the
operation the SPEC evaluates: `'A'*1.5` is `65.0*1.5`. -/
theorem C08_string_meets_float (q : Quirks) (o : BinOp) (ho : o.accF = true) (s : List Char) (n : W) (y : Float)
    (h8 : ∀ c ∈ s, c.toNat < 256) (hn : strToInt s = some n) :
    applyOp q (rowOf (idxB o)) (.str s) (.flt y) = fltBody q o.spelling (toF n) y ∧
    applyOp q (rowOf (idxB o)) (.flt y) (.str s) = fltBody q o.spelling y (toF n) ∧
    specBin o (.str s) (.flt y) = fltBin o (toF n) y ∧
    specBin o (.flt y) (.str s) = fltBin o y (toF n) := by
  have hz : nonZString2Int s = some n := by rw [nonZString2Int_spec s h8, hn]
  have hd : (rowOf (idxB o)).dyadic = true := C08_table_rows.binDy o (by cases o <;> decide)
  have hid : (rowOf (idxB o)).id = o.spelling := by cases o <;> decide
  have h1 := (C08_promotion_table o .str .flt).2
  have h2 := (C08_promotion_table o .flt .str).2
  refine ⟨?_, ?_, ?_, ?_⟩
  · rw [applyOp_factor q _ hd, show (Val.str s).ty = Ty.str from rfl, show (Val.flt y).ty = Ty.flt from rfl,
      h1 (by simp [promote, ho])]
    simp [promote, ho, convert, maskOf, hz, bodyOf, hid]
  · rw [applyOp_factor q _ hd, show (Val.str s).ty = Ty.str from rfl, show (Val.flt y).ty = Ty.flt from rfl,
      h2 (by simp [promote, ho])]
    simp [promote, ho, convert, maskOf, hz, bodyOf, hid]
  · simp [specBin, Val.ty, promote, ho, applyConv, asInt, hn, typedBin, Except.map]
  · simp [specBin, Val.ty, promote, ho, applyConv, asInt, hn, typedBin, Except.map]

/-- non-vacuity: `'A'` has the integer value 65, `*` takes floats, and the SPEC's `'AB'+0.5` is a float -/
example : strToInt ['A'] = some 65 ∧ BinOp.mul.accF = true ∧ (∀ c ∈ ['A'], c.toNat < 256) := by decide
example : promote .mul .str .flt = .ok (.s2i2f, .keep) ∧ promote .and .str .flt = .error .type ∧
    promote .sub .flt .str = .ok (.keep, .s2i2f) ∧ promote .add .str .int = .error .undef := by decide
example : applicable .s2i2f (Val.str ['A', 'B']).ty = true ∧ strToInt ['A', 'B'] = some 0x4142 := by decide

/-- where the repaired conversion matters: a field value 3 (string → float) performs both steps, and a
conversion loop that stops after the first step leaves an integer (this is what `convert` excludes) -/
example : convert 3 (.str ['A']) = .ok (.flt (toF 65)) → True := fun _ => trivial

/-! ### arguments of built-in functions -/

/-- `Functions[]` against the column "argument" of the manual's table: for every function the SPEC models
and every parameter position, the regenerated `ArgTypes` entry takes numbers and no strings exactly where
the table says "integer" / "floating point" / "integer or floating point" (`Fn.numParam`). -/
theorem C08_function_params : ∀ f ∈ Fn.all, ∀ k ∈ [0, 1, 2], paramOK f k = true := by decide

/-- with the documented on-the-fly conversion in place (`fnStrConv`), a character constant / multi
character constant with integer value `n` as argument of a parameter that takes no strings is treated
exactly like the integer `n` (and then promoted to float where the function takes floats only) -/
theorem C08_function_string_arg (q : Quirks) (hq : q.fnStrConv = true) (m : Nat) (hm : m &&& (1 <<< tempString) = 0)
    (s : List Char) (n : W) (h8 : ∀ c ∈ s, c.toNat < 256) (hn : strToInt s = some n) (rest : List Val) (ms : List Nat) :
    convArgs q (.str s :: rest) (m :: ms) = convArgs q (.int n :: rest) (m :: ms) := by
  have hz : nonZString2Int s = some n := by rw [nonZString2Int_spec s h8, hn]
  simp [convArgs, hq, hm, hz]

/-- finding `function-string-argument-not-converted`: the code as found rejects `TOUPPER('a')` and ends
the assembly with "internal error" on `SQRT('A')`; documented: 65 and the root of 65 -/
theorem C08_finding_function_string_arg :
    errOf (applyFn Quirks.pinned "TOUPPER".toList [.str ['a']]) = some .type ∧
    errOf (applyFn Quirks.pinned "SQRT".toList [.str ['A']]) = some .internal ∧
    intResult (specFn .toupper [.str ['a']]) = some 65 ∧
    errOf (specFn .sqrt [.str ['A']]) = none ∧
    intResult (applyFn Quirks.none "TOUPPER".toList [.str ['a']]) = some 65 := by decide

/-- finding `function-type-error-reported-as-internal-error`: a float where a function takes integers only,
an integer where it takes strings only – "internal error" as found, a type error with the mask translated -/
theorem C08_finding_function_type_error :
    errOf (applyFn Quirks.pinned "BITCNT".toList [.flt 1.5]) = some .internal ∧
    errOf (applyFn Quirks.pinned "STRLEN".toList [.int 5]) = some .internal ∧
    errOf (applyFn Quirks.none "BITCNT".toList [.flt 1.5]) = some .type ∧
    errOf (applyFn Quirks.none "STRLEN".toList [.int 5]) = some .type ∧
    errOf (specFn .bitcnt [.flt 1.5]) = some .type := by decide

/-! ## integer operators on all of 2^64 × 2^64 -/

/-- `+ - *`, bitwise and logical operators, comparisons: model body = documented value everywhere -/
theorem C08_intops_total (q : Quirks) (o : BinOp) (a b : W)
    (ho : o ∈ [BinOp.add, .sub, .mul, .and, .or, .xor, .land, .lor, .lxor, .eq, .eqeq, .ne, .lt, .le, .gt, .ge]) :
    intBody q o.spelling a b = intBin o a b := by
  simp only [List.mem_cons, List.mem_nil_iff, or_false] at ho
  rcases ho with h | h | h | h | h | h | h | h | h | h | h | h | h | h | h | h <;> subst h <;>
    simp [intBody, intBin, BinOp.spelling, add_spec, sub_spec, mul_spec, slt_spec, sle_spec]

/-- `/` and `#`: division by zero is an error; the only point of C undefined behaviour is
`-2^63 / -1` (`.ub`; SIGFPE on the real binary, finding `int-min-div-minus-one`); everywhere else the
truncating quotient / the remainder with the sign of the dividend. -/
theorem C08_intops_div (q : Quirks) (a b : W) :
    (b = 0 → intBody q ['/'] a b = .error .divZero ∧ intBin .div a b = .error .divZero) ∧
    (b ≠ 0 → a = intMin ∧ b = -1 → intBody q ['/'] a b = .error .ub) ∧
    (b ≠ 0 → ¬ (a = intMin ∧ b = -1) → intBody q ['/'] a b = intBin .div a b) := by
  refine ⟨fun h => by simp [intBody, intBin, mDiv, h], fun h hu => by simp [intBody, mDiv, h, hu],
    fun h hu => by
      have hu' : ¬ (a = intMin ∧ b = 18446744073709551615#64) := hu
      simp [intBody, intBin, mDiv, h, hu', sdiv_spec]⟩

theorem C08_intops_mod (q : Quirks) (a b : W) :
    (b = 0 → intBody q ['#'] a b = .error .divZero ∧ intBin .mod a b = .error .divZero) ∧
    (b ≠ 0 → a = intMin ∧ b = -1 → intBody q ['#'] a b = .error .ub) ∧
    (b ≠ 0 → ¬ (a = intMin ∧ b = -1) → intBody q ['#'] a b = intBin .mod a b) := by
  refine ⟨fun h => by simp [intBody, intBin, mMod, h], fun h hu => by simp [intBody, mMod, h, hu],
    fun h hu => by
      have hu' : ¬ (a = intMin ∧ b = 18446744073709551615#64) := hu
      simp [intBody, intBin, mMod, h, hu', srem_spec]⟩

/-- shifts, every count (since the repairs ff7b847 / 8d61d7d): `<<` and `>>` are the total shift of the specification -
counts 0..63 as documented, 64 and more shift everything out, a negative count shifts the other way; `>>` is the
logical shift when the body does not propagate the sign (`shrArith = false`, probed on the real binary every run) -/
theorem C08_intops_shift (q : Quirks) (a n : W) :
    intBody q ['<', '<'] a n = intBin .shl a n ∧
    (q.shrArith = false → intBody q ['>', '>'] a n = intBin .shr a n) := by
  have key : ∀ left : Bool, shiftOp a n left = shiftSpec a (if left then n.toInt else -n.toInt) := by
    intro left
    unfold shiftOp shiftSpec
    generalize n.toInt = c
    cases left <;> dsimp only <;> simp only [Bool.not_true, Bool.not_false, Bool.false_eq_true, if_true, if_false] <;>
      (repeat' split) <;>
      first
        | omega
        | (with_reducible rfl)
        | (exfalso; simp at *; done)
        | (simp only [Int.neg_neg]; done)
        | (have hc : c = 0 := by omega
           subst hc; simp; done)
  refine ⟨by simp [intBody, intBin, mShl, shlSpec, key], fun hq => by simp [intBody, intBin, mShr, shrSpec, key, hq]⟩

/-- before the repair 8d61d7d `>>` propagated the sign (`Quirks.pinned`): the documented logical shift was delivered exactly
for left operands without the sign bit -/
theorem C08_intops_shr_pinned (a n : W) (hn : n.toNat < 64) (ha : a.msb = false) :
    intBody Quirks.pinned ['>', '>'] a n = intBin .shr a n := by
  have hi : n.toInt = (n.toNat : Int) := by
    rw [BitVec.toInt_eq_toNat_cond]; have := n.isLt; split <;> omega
  have hs : shiftSpec a (-n.toInt) = a >>> n.toNat := by
    unfold shiftSpec
    rw [hi]
    (repeat' split) <;>
      first
        | omega
        | (simp only [Int.neg_neg, Int.toNat_natCast]; done)
        | (have hc : n.toNat = 0 := by omega
           rw [hc]; simp; done)
  simp [intBody, intBin, mShr, shrSpec, hn, Quirks.pinned, BitVec.sshiftRight_eq_of_msb_false ha, hs]

/-- `^` on integers: square-and-multiply is the power for every base and every exponent ≥ 0;
a negative exponent gives 0 (the manual does not define it) -/
theorem C08_intops_pow (q : Quirks) (a b : W) :
    (0 ≤ b.toInt → intBody q ['^'] a b = intBin .pow a b) ∧
    (b.toInt < 0 → intBody q ['^'] a b = .ok 0 ∧ intBin .pow a b = .error .undef) := by
  constructor
  · intro h
    have hn : ¬ b.toInt < 0 := by omega
    simp [intBody, intBin, hn, mPow_spec a b h]
  · intro h
    simp [intBody, intBin, mPow, h]

/-- sign, complement, logical not: the monadic bodies (`0 - x` through `SubOp`, `~`, `~~`) -/
theorem C08_intops_unary (q : Quirks) (b : W) :
    intBody q ['-'] 0 b = .ok (intUn .neg b) ∧ intBody q ['~'] 0 b = .ok (intUn .not b) ∧
    intBody q ['~', '~'] 0 b = .ok (intUn .lnot b) := by
  simp [intBody, intUn, neg_spec, neg_spec']

/-! ## bit functions for all 64-bit arguments -/

/-- BITCNT: the 64-step shift-and-add loop counts the one bits, for every argument -/
theorem C08_bitfuncs_bitcnt (q : Quirks) (x : W) :
    fnBody q "BITCNT".toList [.int x] = specFn .bitcnt [.int x] := by
  simp [fnBody, specFn_int, specFnCore]
  exact bitcnt_spec x

/-- LASTBIT: position of the highest one bit, -1 for 0, for every argument -/
theorem C08_bitfuncs_lastbit (q : Quirks) (x : W) :
    fnBody q "LASTBIT".toList [.int x] = specFn .lastbit [.int x] := by
  simp [fnBody, specFn_int, specFnCore, lastbit_spec]

/-- FIRSTBIT with the shift inside the `if` (quirk `firstbitSkip` off – the repaired loop): position of
the lowest one bit, -1 for 0, for every argument.  On the pinned tree the statement is false exactly
for arguments = 1 (mod 4) (`C08_finding_firstbit`); the pinned loop is compared with the specification
only differentially. -/
theorem C08_bitfuncs_firstbit_partial (q : Quirks) (hq : q.firstbitSkip = false) (x : W) :
    fnBody q "FIRSTBIT".toList [.int x] = specFn .firstbit [.int x] := by
  simp [fnBody, specFn_int, specFnCore, hq, firstbit_fixed_spec]

/-- ABS and SGN on integers (ABS(-2^63) wraps to -2^63) -/
theorem C08_bitfuncs_abs_sgn (q : Quirks) (x : W) :
    fnBody q "ABS".toList [.int x] = specFn .abs [.int x] ∧
    fnBody q "SGN".toList [.int x] = specFn .sgn [.int x] := by
  constructor
  · by_cases h : x.toInt < 0 <;> simp [fnBody, specFn_int, specFnCore, slt_spec, h, neg_spec', wrap]
  · by_cases h : x.toInt < 0
    · simp [fnBody, specFn_int, specFnCore, slt_spec, h]
    · by_cases h2 : 0 < x.toInt <;> simp [fnBody, specFn_int, specFnCore, slt_spec, h, h2]

example : fnBody Quirks.pinned "BITCNT".toList [.int 0xFF00] = .ok (.int 8) → True := fun _ => trivial

/-! ## findings on the pinned tree: proved negations (witnesses are replayed on the real binary every run) -/

/-- `!=`, documented as alias of `<>`, is an entry of the regenerated `Operators[]` with the rank of `<>` (it was missing on the
pinned tree: finding `ne-alias-missing`, repaired) -/
theorem C08_ne_alias : idxOf ['!', '='] ≠ 0 ∧ prioOf (idxOf ['!', '=']) = prioOf (idxOf ['<', '>']) := by decide

/-- `-2^63 / -1`: the body runs into undefined behaviour where the documented wrapped value exists -/
theorem C08_finding_int_min_div : intBody Quirks.pinned ['/'] intMin (-1) = .error .ub ∧
    intBin .div intMin (-1) = .ok intMin := by decide

/-- `(-1) >> 1` keeps the sign on the pinned tree; the documented logical shift gives `2^63 - 1` -/
theorem C08_finding_shr_negative : intBody Quirks.pinned ['>', '>'] (-1) 1 = .ok (-1) ∧
    intBin .shr (-1) 1 = .ok 0x7FFFFFFFFFFFFFFF := by decide

/-- `$80000001 >< 32`: `1 << 31` computed in `int` smears bit 31 over bits 32..63 -/
theorem C08_finding_mirror32 : intBody Quirks.pinned ['>', '<'] 0x80000001 32 = .ok 0xFFFFFFFF80000001 ∧
    intBin .mirror 0x80000001 32 = .ok 0x80000001 := by decide +kernel

/-- `FIRSTBIT(1) = -1`, `FIRSTBIT(5) = 1` on the pinned tree; documented 0 -/
theorem C08_finding_firstbit : mFirstbit true 1 = wrap (-1) ∧ mFirstbit true 5 = 1 ∧
    firstbitSpec 1 = 0 ∧ firstbitSpec 5 = 0 ∧ mFirstbit false 1 = 0 ∧ mFirstbit false 5 = 0 := by decide

/-- `BITPOS($8000000000000000)`: `SingleBit` with the sign-propagating shift rejects bit 63 -/
theorem C08_finding_bitpos63 : singleBit true intMin = none ∧ bitposSpec intMin = .ok 63 ∧
    singleBit false intMin = some 63 := by decide

end AslModel.C08
