import AslModel.Lemmas.DataWord
import AslModel.Model.DataSwitch
/-!
# C09 — the DATA statement of the word-organised targets; data statements behind CPU switches

Property theorems only (helper lemmas: `Lemmas/DataWord.lean`).  Model: `Model/DataWord.lean` (transcription of
`fourpseudo.c` `DecodeDATA` with `RangeCheck`, `MultiCharToInt`, `CharTransTable`), `Model/DataSwitch.lean` (the static
`M16Turn` of `motpseudo.c` threaded through the statements of a run).  Spec: `Spec/DataWord.lean` (the manual's DATA
paragraph), `Spec/DataSwitch.lean`.

* `C09_data_args_independent` — for EVERY configuration of `DecodeDATA` (any `ValIntType`, any mask, any character
  table) and every argument list: what a statement lays down is the concatenation of what each of its arguments lays
  down when it stands alone (and the statement is in error iff one of them is).  The same for the specification.
  `C09_data_string_words` is the reason on the code side: a string argument only appends, its words do not depend on
  what earlier arguments left in the buffer.  `C09_data_split`: distributing the arguments over two statements
  changes nothing.
* `C09_data_model_eq_spec` — MODEL = SPEC for the seven configurations the code generators use
  (Int16: 3201x, 3202x/5x, 17C4x CODE; UInt16: 1750, non-negative integers; Int8, Int14, Int12, Int10, Int4), every
  256-entry character table, every argument list over the stated argument forms.
* `C09_data_pack` — two characters per word: ⌈n/2⌉ words, the characters read back low byte first, the odd last
  word padded with a zero upper half.
* `C09_switch_*` — behind CPU switches every target that reaches motpseudo.c through `DecodeMotoPseudo(Turn)` lays
  its statements independently of the flag the previous targets left; ADR/FDB/DW of such a target are in ITS byte order.

* `C09_data_slot_model_eq_spec` / `C09_data_slot_bytes_model_eq_spec` — **the slot** (what mode `c09d` compares per run):
  a list of DATA statements laid one after the other from any address: the (byte offset, byte) cells and the end address
  of the transcription (`modelRunW`: `DecodeDATA`, the cell buffer as bytes, `WriteBytes` with `DreheCodes`) are the
  manual's (unit offset, unit value) cells (`specRunW`) — for the word widths 10…16 every unit as its two bytes at byte
  offset 2·unit (`unitCells`, `Lemmas/DataWord.lean`), for the widths 8 and 4 one byte per unit (`byteCells`).

What is *not* a theorem (only tested by the correspondence): the word widths above 16 bit (no target of the check uses
them).  (`CodeCHARSET` building the table: `C09_pages_charset_is_manual` in `Props/C09_Pages.lean`.)
-/
namespace AslModel.C09
open AslModel.PFile (Byte b)
open AslModel.Data AslModel.DataModel AslModel.DataX AslModel.DataXModel
open AslModel.DataW AslModel.DataWModel AslModel.DataWLemmas AslModel.DataSw AslModel.DataSwModel

/-- **Each argument's words depend only on that argument** — transcription of `DecodeDATA` (every `ValIntType`,
mask, character table) and specification. -/
theorem C09_data_args_independent (d : DCtx) (c : WCfg) (as : List WArg) :
    decodeDATA d as = joinArgs (as.map fun a => decodeDATA d [a]) ∧
    specData c as = joinArgs (as.map fun a => specData c [a]) :=
  ⟨decode_join d as, spec_join c as⟩

/-- `data "abc",1,"de"` on a 16-bit target: 6261 0063 | 0001 | 6564 -/
example : (mkCtx Generated.itInt16 tableInit).bind (fun d => decodeDATA d [.str [0x61, 0x62, 0x63], .int 1, .str [0x64, 0x65]])
    = some [0x6261, 0x0063, 0x0001, 0x6564] := by decide
example : joinArgs ([WArg.str [0x61, 0x62, 0x63], .int 1, .str [0x64, 0x65]].map fun a =>
    (mkCtx Generated.itInt16 tableInit).bind (fun d => decodeDATA d [a])) = some [0x6261, 0x0063, 0x0001, 0x6564] := by decide

/-- A string argument only appends: its words are those it lays into an empty buffer, wherever the previous
arguments stopped (the packing position starts at 0 for every string).  Every mask, i.e. all six packing regimes. -/
theorem C09_data_string_words (mask : Nat) (t : List Byte) (buf : List Nat) (cs : List Byte) :
    dataString mask t buf cs = buf ++ dataString mask t [] cs :=
  dataString_append mask t buf cs

/-- **The same arguments in one statement or in two**: the words are the same. -/
theorem C09_data_split (d : DCtx) (as bs : List WArg) :
    decodeDATA d (as ++ bs) = match decodeDATA d as, decodeDATA d bs with
      | some x, some y => some (x ++ y)
      | _, _ => none := by
  rw [decode_join d (as ++ bs), decode_join d as, decode_join d bs, List.map_append, joinArgs_append]
  cases joinArgs (as.map fun a => decodeDATA d [a]) <;> cases joinArgs (bs.map fun a => decodeDATA d [a]) <;> rfl

/-- **MODEL = SPEC** for the configurations in use: `(ValIntType, word width, packing rule, unsigned)` ∈ `dataCfgs`,
any character table of 256 entries, any argument list whose integers are 64-bit values (non-negative for the unsigned
type) and whose single-quoted strings are non-empty and not of a length between ⌊w/8⌋ and ⌈w/8⌉. -/
theorem C09_data_model_eq_spec (typ w : Nat) (pk : Packing) (nn : Bool) (h : (typ, w, pk, nn) ∈ dataCfgs)
    (t : List Byte) (ht : t.length = 256) (as : List WArg) (ha : ∀ a ∈ as, ArgOK w nn a) :
    (mkCtx typ t).bind (fun d => decodeDATA d as) = specData ⟨w, pk, t⟩ as := by
  rw [ctx_of typ w pk nn h t]
  simp only [Option.bind_some]
  rw [decode_join, spec_join]
  congr 1
  apply List.map_congr_left
  intro a hmem
  rw [decode_single, spec_single]
  exact arg_cfg typ w pk nn h t ht a (ha a hmem)

example : (Generated.itInt16, 16, Packing.twoPerWord, false) ∈ dataCfgs := by decide
example : ∀ a ∈ [WArg.str [0x61, 0x62, 0x63], .int (-32768), .chr [0x61, 0x62], .chr [0x61, 0x62, 0x63], .flt 0], ArgOK 16 false a := by
  intro a ha
  simp only [List.mem_cons, List.mem_nil_iff, or_false] at ha
  rcases ha with rfl | rfl | rfl | rfl | rfl <;> simp [ArgOK]
example : tableInit.length = 256 := by decide +kernel

/-- **Two characters per word**: a string of `n` characters occupies ⌈n/2⌉ words; read back low byte first they
give the characters again, followed by one zero (the unused upper half) iff `n` is odd. -/
theorem C09_data_pack (cs : List Byte) :
    (packPairs cs).length = (cs.length + 1) / 2 ∧
    unpackPairs (packPairs cs) = cs.map (·.toNat) ++ List.replicate (cs.length % 2) 0 := by
  induction cs using packPairs.induct with
  | case1 c0 c1 rest ih =>
    have h0 := UInt8.toNat_lt c0
    refine ⟨by simp only [packPairs, List.length_cons, ih.1]; omega, ?_⟩
    simp only [packPairs, unpackPairs, ih.2, List.map_cons, List.length_cons, List.cons_append]
    have e1 : (c0.toNat + 256 * c1.toNat) % 256 = c0.toNat := by omega
    have e2 : (c0.toNat + 256 * c1.toNat) / 256 = c1.toNat := by omega
    have e3 : (rest.length + 1 + 1) % 2 = rest.length % 2 := by omega
    rw [e1, e2, e3]
  | case2 c =>
    have h0 := UInt8.toNat_lt c
    refine ⟨by simp [packPairs], ?_⟩
    simp only [packPairs, unpackPairs, List.map_cons, List.map_nil, List.length_cons, List.length_nil]
    have e1 : c.toNat % 256 = c.toNat := by omega
    have e2 : c.toNat / 256 = 0 := by omega
    rw [e1, e2]
    rfl
  | case3 => exact ⟨rfl, rfl⟩

example : packPairs [0x61, 0x62, 0x63] = [0x6261, 0x0063] := by decide

/-! ## the slot -/

/-- **MODEL = SPEC for a slot of DATA statements, address units of two bytes** (Int16: 3201x, 3202x/5x, 17C4x CODE;
UInt16: 1750; Int14, Int12, Int10: PIC 16C8x/16C5x, 4500/HMCS400 CODE): every start address, listing granularity and
`TurnWords` setting, every 256-entry table, every list of statements over the argument forms of `C09_data_model_eq_spec`. -/
theorem C09_data_slot_model_eq_spec (typ w : Nat) (pk : Packing) (nn : Bool) (h : (typ, w, pk, nn) ∈ dataCfgs) (hw : 8 < w)
    (t : List Byte) (ht : t.length = 256) (lg : Nat) (turn : Bool) (stmts : List (List WArg))
    (ha : ∀ st ∈ stmts, ∀ a ∈ st, ArgOK w nn a) (pc : Nat) :
    (mkCtx typ t).bind (fun d => modelRunW d 2 lg turn pc stmts) =
      (specRunW ⟨w, pk, t⟩ pc stmts).map fun r => (unitCells (swapOf lg turn) r.1, r.2) := by
  rw [ctx_of typ w pk nn h t]
  simp only [Option.bind_some]
  have hm : 0xff < 2 ^ w - 1 ∧ 2 ^ w - 1 ≤ 0xffff := by
    rcases width_cfg typ w pk nn h with rfl | rfl | rfl | rfl | rfl | rfl <;> first | omega | decide
  exact runW_units _ hm.1 hm.2 _ lg turn stmts (fun st hst => data_cfg_eq_spec typ w pk nn h t ht st (ha st hst)) pc

example : (mkCtx Generated.itInt14 tableInit).bind (fun d => modelRunW d 2 2 false 8 [[.int (-1), .str [0x61, 0x62]], [.int 5]]) =
    some ([(16, 0xff), (17, 0x3f), (18, 0x61), (19, 0), (20, 0x62), (21, 0), (22, 5), (23, 0)], 12) := by decide
example : specRunW ⟨14, .perWord, tableInit⟩ 8 [[.int (-1), .str [0x61, 0x62]], [.int 5]] =
    some ([(8, 0x3fff), (9, 0x61), (10, 0x62), (11, 5)], 12) := by decide
example : (Generated.itInt14, 14, Packing.perWord, false) ∈ dataCfgs ∧ 8 < 14 := by decide

/-- **MODEL = SPEC for a slot of DATA statements, address units of one byte** (Int8: 17C4x / 16C8x / 16C5x DATA; Int4: 4004,
4500/HMCS400 DATA), `WriteBytes` not turning (`swapOf lg turn = false`: byte listing). -/
theorem C09_data_slot_bytes_model_eq_spec (typ w : Nat) (pk : Packing) (nn : Bool) (h : (typ, w, pk, nn) ∈ dataCfgs) (hw : w ≤ 8)
    (t : List Byte) (ht : t.length = 256) (lg : Nat) (turn : Bool) (hsw : swapOf lg turn = false) (stmts : List (List WArg))
    (ha : ∀ st ∈ stmts, ∀ a ∈ st, ArgOK w nn a) (pc : Nat) :
    (mkCtx typ t).bind (fun d => modelRunW d 1 lg turn pc stmts) =
      (specRunW ⟨w, pk, t⟩ pc stmts).map fun r => (byteCells r.1, r.2) := by
  rw [ctx_of typ w pk nn h t]
  simp only [Option.bind_some]
  have hm : 2 ^ w - 1 ≤ 0xff := by
    rcases width_cfg typ w pk nn h with rfl | rfl | rfl | rfl | rfl | rfl <;> first | omega | decide
  exact runW_bytes _ hm _ lg turn hsw stmts (fun st hst => data_cfg_eq_spec typ w pk nn h t ht st (ha st hst)) pc

example : (mkCtx Generated.itInt4 tableInit).bind (fun d => modelRunW d 1 1 false 3 [[.int (-1), .str [0x61]], [.int 5]]) =
    some ([(3, 0xf), (4, 6), (5, 1), (6, 5)], 7) := by decide
example : (Generated.itInt4, 4, Packing.twoLocations, false) ∈ dataCfgs ∧ 4 ≤ 8 ∧ swapOf 1 false = false := by decide

/-- **What the driver's `pre=1` means** (mode `c09d` evaluates `dataSlotOKb`, `Model/DataWord.lean`, on every generated
case): the case is inside the domain of one of the two slot theorems, i.e. MODEL = SPEC holds for it by proof. -/
theorem C09_data_slot_pre (typ w : Nat) (pk : Packing) (t : List Byte) (gran lg : Nat) (turn : Bool) (stmts : List (List WArg)) (pc : Nat)
    (h : dataSlotOKb typ w pk t.length gran lg turn stmts = true) :
    (gran = 2 ∧ (mkCtx typ t).bind (fun d => modelRunW d 2 lg turn pc stmts) =
        (specRunW ⟨w, pk, t⟩ pc stmts).map fun r => (unitCells (swapOf lg turn) r.1, r.2)) ∨
    (gran = 1 ∧ (mkCtx typ t).bind (fun d => modelRunW d 1 lg turn pc stmts) =
        (specRunW ⟨w, pk, t⟩ pc stmts).map fun r => (byteCells r.1, r.2)) := by
  simp only [dataSlotOKb, Bool.and_eq_true, List.any_eq_true, beq_iff_eq, decide_eq_true_eq, List.all_eq_true, Bool.or_eq_true,
    Bool.not_eq_true'] at h
  obtain ⟨⟨⟨q, hq, ⟨⟨⟨h1, h2⟩, h3⟩, hargs⟩⟩, ht⟩, hg⟩ := h
  obtain ⟨qt, qw, qp, qn⟩ := q
  simp only at h1 h2 h3 hargs
  subst h1 h2 h3
  have ha : ∀ st ∈ stmts, ∀ a ∈ st, ArgOK qw qn a := fun st hst a hmem => argOKb_ok qw qn a (hargs st hst a hmem)
  rcases hg with ⟨hw, rfl⟩ | ⟨⟨hw, rfl⟩, hsw⟩
  · exact Or.inl ⟨rfl, C09_data_slot_model_eq_spec qt qw qp qn hq hw t ht lg turn stmts ha pc⟩
  · exact Or.inr ⟨rfl, C09_data_slot_bytes_model_eq_spec qt qw qp qn hq hw t ht lg turn hsw stmts ha pc⟩

example : dataSlotOKb Generated.itInt14 14 .perWord 256 2 2 false [[.int (-1), .str [0x61, 0x62]], [.int 5]] = true := by decide

/-! ## CPU switches -/

/-- `M16Turn` after a further segment: the `Turn` of its target if that target's `MakeCode` calls
`DecodeMotoPseudo`, otherwise unchanged. -/
theorem C09_switch_flag (hist : List SwCpu) (c : SwCpu) :
    flagAfter (hist ++ [c]) = if c.viaPseudo then c.turn else flagAfter hist := by
  simp [flagAfter, noteCpu]

/-- **History independence**: a segment of a target that goes through `DecodeMotoPseudo(Turn)` is laid the same way
whatever flag the earlier targets (earlier segments, earlier source files of the run) left behind — namely with
`M16Turn` = its own `Turn`. -/
theorem C09_switch_history_independent (m16 : Bool) (s : MSeg) (hvia : s.cpu.viaPseudo = true) (hne : s.stmts ≠ []) :
    runSeg m16 s = modelRun { s.cpu.cfg with mturn := s.cpu.turn } s.pc s.stmts := by
  unfold runSeg segFlag noteCpu
  have : s.stmts.isEmpty = false := by cases h : s.stmts <;> simp_all
  simp [hvia, this]

/-- ADR/FDB/DW with one integer on a byte-listing target that goes through `DecodeMotoPseudo(Turn)`: the two bytes
are in the order `Turn` says — the target's own — for every incoming flag. -/
theorem C09_switch_adr (m16 : Bool) (c : SwCpu) (hvia : c.viaPseudo = true) (hlg : c.cfg.lg = 1) (v : Int)
    (hv : -(2 : Int) ^ 63 ≤ v ∧ v < (2 : Int) ^ 63) :
    decodeMoto8 { c.cfg with mturn := segFlag m16 c [.adr (.cons (.int v) .nil)] } true false (.cons (.int v) .nil) =
      (encInt 16 c.turn v).map fun bs => ⟨none, .data bs, []⟩ := by
  have hf : segFlag m16 c [.adr (.cons (.int v) .nil)] = c.turn := by simp [segFlag, noteCpu, hvia]
  rw [hf]
  exact AslModel.DataLemmas.int_moto8 { c.cfg with mturn := c.turn } hlg true v hv

/-- 6502 → 6800: `adr $1234` is 34 12 on the first and 12 34 on the second -/
example : modelRunSw false
    [⟨⟨⟨1, false, false, false, false, false, false⟩, false, true⟩, 0, [.adr (.cons (.int 0x1234) .nil)]⟩,
     ⟨⟨⟨1, false, false, false, false, false, false⟩, true, true⟩, 32, [.adr (.cons (.int 0x1234) .nil)]⟩]
    = some ([(0, 0x34), (1, 0x12), (32, 0x12), (33, 0x34)], []) := by decide

/-! ## proved negations (known findings) -/

/-- MIL-STD-1750: `DecodeDATA(UInt16, UInt16)` refuses `data -1`; the manual's range for a 16-bit word
(-32768…65535) lays $FFFF. -/
theorem C09_finding_data_uint16_negative :
    (mkCtx Generated.itUInt16 tableInit).bind (fun d => decodeDATA d [.int (-1)]) = none ∧
    specData ⟨16, .twoPerWord, identityMap⟩ [.int (-1)] = some [0xffff] ∧
    (mkCtx Generated.itInt16 tableInit).bind (fun d => decodeDATA d [.int (-1)]) = some [0xffff] := by
  decide

/-- ST6 `WORD` (codest6.c never calls `DecodeMotoPseudo`): the same statement on the same target is laid low byte
first at the start of a run and high byte first after any statement of a 68xx-family target. -/
theorem C09_finding_st6_word :
    runSeg (flagAfter []) ⟨⟨⟨1, false, false, false, false, false, false⟩, false, false⟩, 0, [.adr (.cons (.int 0x1234) .nil)]⟩
      = some ([(0, 0x34), (1, 0x12)], 2, []) ∧
    runSeg (flagAfter [⟨⟨1, false, false, false, false, false, false⟩, true, true⟩])
        ⟨⟨⟨1, false, false, false, false, false, false⟩, false, false⟩, 0, [.adr (.cons (.int 0x1234) .nil)]⟩
      = some ([(0, 0x12), (1, 0x34)], 2, []) := by
  decide

end AslModel.C09
