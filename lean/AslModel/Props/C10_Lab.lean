import AslModel.Lemmas.AddrLab
import AslModel.Lemmas.AddrLabSim
/-!
# C10, label part — labels at pad bytes and construct-opening lines; Motorola-style reservations with several operands

Property theorems only (helper lemmas: `Lemmas/AddrLab.lean`).
Model: `Model/AddrLab.lean` (`Produce_Code`'s label part with the `ResetLastLabel` rule of the lines that open a macro call /
REPT / IRP / IRPN / IRPC / WHILE, `LabelHandle` / `LabelModify` / `LabelReset`, `InsertPadding`, the alignment step of the
68000 / MSP430 / TMS9900 / AVR `MakeCode`, the Motorola pseudo-ops through `Model/Data.lean`).
Spec: `Spec/AddrLab.lean` (PADDING, macro and DC sections of the manual) and `Spec/Data.lean`.

What is a theorem:
* for every state outside a structure and every sequence "opening line of a construct with a label, any number of empty lines
  and further (unlabelled) opening lines, a word-sized object": the label reads the address of the first byte the object lays
  down - behind the pad byte when one is inserted (`C10_lab_construct_label`), likewise for a label alone on the line before
  (`C10_lab_label_line_before`); the rule is what makes it so: when the opening line resets the label memory (`.opener false`,
  what `ResetLastLabel = ExpandIRP()` without the negation does for every IRP that opens successfully), the label keeps the
  address of the pad byte (`C10_lab_reset_keeps_pad_address`); the SPEC machine on the expansion of the same lines gives the
  same label value and the same bytes at the same addresses (`C10_lab_spec_label`, `C10_lab_model_eq_spec_at_constructs`);
* for every operand list made of `?` and `[n]?` (`n ≥ 0`, any number of operands): `CodeLen` of BYT/FCB, ADR/FDB and DC.x is
  (number of cells) × (cell size), nothing is written, DC.x reserves one pad byte exactly when PADDING demands one
  (`C10_moto_res_byt_adr`, `C10_moto_res_dc`), which is the manual's rule (`C10_moto_res_model_eq_spec`).
* **whole programs** (`C10_lab_refine`, `C10_lab_refine_lines`, `C10_lab_refine_end`, `C10_lab_refine_labels`): for every program
  of the statement language (labelled lines, constructs nested to any depth with any number of iterations and labelled lines
  inside, PADDING, ORG, PHASE/DEPHASE, STRUCT/UNION bodies, constants, reservations, refused mixtures), from related states, the
  MODEL run over the lines `Produce_Code` sees and the SPEC run over the expansion (`C10_lab_lines`: the expansion *is* those lines
  with the opening lines taken out) agree in everything observable - same symbols in the same order with the SPEC's values, same
  cells, same counters, same error lines (`ObsAgree`) - up to the line the manual does not cover (the SPEC's `unspecified`),
  under the decidable precondition `Pre` (`Lemmas/AddrLabRefine.lean preLine`): every symbol defined once, constructs open
  successfully, no data statement without data inside a structure, MODEL and SPEC agree on each Motorola data statement
  (`motoAgree` - the statement-level agreement is C09's subject), and - only for a tree without the repair 0cba171,
  `Cfg.fixStruct = false` - the repaired finding `struct-field-symbol-keeps-pad-offset` not hit.
  Each condition is shown to be needed (`C10_lab_refine_hypothesis_needed_*`, `C10_lab_reset_keeps_pad_address`);
* for programs whose Motorola data statements are reservations the data-statement condition is discharged by the statement-level
  theorems: `C10_moto_res_refine` (precondition `PreRes`), `C10_moto_res_agree`;
* `C10_lab_most_recent_label`: upstream's `t_padding` case `label7:` / `label8: nop`.
Only tested by the correspondence (not theorems): that `Model/Data.lean` and `Spec/Data.lean` agree on data statements with
constants (C09), i.e. the instances of `motoAgree` that `C10_moto_res_agree` does not cover.
-/
namespace AslModel.C10
open AslModel.PFile (Byte b)
open AslModel.Data AslModel.DataModel AslModel.AddrLab AslModel.AddrLabModel AslModel.AddrLabLemmas AslModel.AddrLabRefine

/-! ## construct-opening lines -/

/-- **the label of a line that opens a construct is the address of the first unit the expansion lays down.**
`m`: any state outside a structure; the line `l: <IRP/REPT/…>` (opened successfully), then `mid` - empty lines and further
opening lines without labels (nested constructs) -, then the first statement of the expansion, a word-sized object `bs`.
Then the run continues from a state `m'` in which the label reads `EProgCounter + pad`, the pad byte (if any) lies at the old
load address and the object right behind it: the label names the object's first byte, never the pad byte. -/
theorem C10_lab_construct_label (c : Cfg) (m : M) (src l : Nat) (mid : List Line) (ln : Line) (bs : List Byte) (rest : List Line)
    (hf : m.frame = none) (hpc : 0 ≤ m.pc)
    (hmid : ∀ x ∈ mid, transparent x) (hop : ln.op = .obj bs) (hlab : ln.label = none) :
    ∃ m', (∀ i, AddrLabModel.run c m (⟨src, some l, .opener true⟩ :: (mid ++ ln :: rest)) i
                = AddrLabModel.run c m' rest (i + 1 + mid.length + 1)) ∧
      lookup m'.syms ⟨none, some l⟩ = some (AddrLabModel.epc m + (padOf m : Nat)) ∧
      m'.cells = m.cells ++ cellsAt m.pc.toNat (List.replicate (padOf m) 0) ++ cellsAt (m.pc.toNat + padOf m) bs ∧
      m'.pc = m.pc + (padOf m : Nat) + (bs.length : Nat) ∧ m'.ph = m.ph ∧ m'.frame = none ∧ m'.last = none := by
  have hrun : ∀ (m1 : M) (i : Nat), AddrLabModel.step c (afterOpener m l) ln = some m1 →
      AddrLabModel.run c m (⟨src, some l, .opener true⟩ :: (mid ++ ln :: rest)) i = AddrLabModel.run c m1 rest (i + 1 + mid.length + 1) := by
    intro m1 i h1
    simp only [AddrLabModel.run, step_opener c m src l hf]
    rw [run_transparent c mid _ (ln :: rest) (i + 1) hmid]
    simp only [AddrLabModel.run, h1]
  have hepc : AddrLabModel.epc m = m.pc + m.ph := by simp [AddrLabModel.epc, hf]
  by_cases hpad : AddrLabModel.epc m % 2 = 1 ∧ m.padding = true
  · have hp1 : padOf m = 1 := by simp [padOf, hpad.1, hpad.2]
    refine ⟨afterObj (afterPad m l) bs, fun i => hrun _ i (step_obj_pad c m l ln bs hf hop hlab hpad.1 hpad.2), ?_⟩
    simp [afterObj, afterPad, lookup_setSym, hp1, cellsAt, toNat_succ m.pc hpc, hf]
  · have hp0 : padOf m = 0 := by
      unfold padOf
      by_cases h1 : AddrLabModel.epc m % 2 = 1
      · have : m.padding = false := by
          cases h : m.padding
          · rfl
          · exact absurd ⟨h1, h⟩ hpad
        simp [this]
      · simp [h1]
    refine ⟨afterObj (afterOpener m l) bs, fun i => hrun _ i (step_obj_nopad c m l ln bs hf hop hlab hpad), ?_⟩
    simp [afterObj, afterOpener, lookup_setSym, hp0, cellsAt, hf]

/-- 68000, PADDING ON, `$1001`: `l: irp …` / `dc.w $1111`-like object `11 11`: the label reads `$1002`, the pad byte lies at `$1001` -/
example : (AddrLabModel.run ⟨⟨2, true, true, false, true, true, true⟩, false⟩ { pc := 4097, padding := true }
    [⟨0, some 7, .opener true⟩, ⟨0, none, .obj [0x11, 0x11]⟩] 0).1.syms = [(⟨none, some 7⟩, 4098)] ∧
    (AddrLabModel.run ⟨⟨2, true, true, false, true, true, true⟩, false⟩ { pc := 4097, padding := true }
    [⟨0, some 7, .opener true⟩, ⟨0, none, .obj [0x11, 0x11]⟩] 0).1.cells = [(4097, 0), (4098, 0x11), (4099, 0x11)] := by
  decide

/-- the same for **a label alone on the line before** the construct (or before a plain statement: `mid = []`) -/
theorem C10_lab_label_line_before (c : Cfg) (m : M) (src l : Nat) (mid : List Line) (ln : Line) (bs : List Byte) (rest : List Line)
    (hf : m.frame = none) (hpc : 0 ≤ m.pc)
    (hmid : ∀ x ∈ mid, transparent x) (hop : ln.op = .obj bs) (hlab : ln.label = none) :
    ∃ m', (∀ i, AddrLabModel.run c m (⟨src, some l, .blank⟩ :: (mid ++ ln :: rest)) i
                = AddrLabModel.run c m' rest (i + 1 + mid.length + 1)) ∧
      lookup m'.syms ⟨none, some l⟩ = some (AddrLabModel.epc m + (padOf m : Nat)) ∧
      m'.cells = m.cells ++ cellsAt m.pc.toNat (List.replicate (padOf m) 0) ++ cellsAt (m.pc.toNat + padOf m) bs := by
  obtain ⟨m', h1, h2, h3, _⟩ := C10_lab_construct_label c m src l mid ln bs rest hf hpc hmid hop hlab
  refine ⟨m', fun i => ?_, h2, h3⟩
  rw [← h1 i]
  have hb : AddrLabModel.step c m ⟨src, some l, .blank⟩ = some (afterOpener m l) := by
    simp [AddrLabModel.step, labelPresent, labelHandle, hf, decode, opEmpty, afterOpener]
  simp only [AddrLabModel.run, hb, step_opener c m src l hf]

/-- the hypotheses are satisfiable: a nested construct opened without label and an empty line in between; a label alone on the line
before `rept 2` / `nop` (68000, `$1001`): it reads `$1002` -/
example : ∀ x ∈ [(⟨0, none, .opener true⟩ : Line), ⟨0, none, .blank⟩], transparent x := by
  intro x hx
  simp only [List.mem_cons, List.mem_nil_iff, or_false] at hx
  rcases hx with rfl | rfl
  · exact ⟨rfl, Or.inr rfl⟩
  · exact ⟨rfl, Or.inl rfl⟩
example : (AddrLabModel.run ⟨⟨2, true, true, false, true, true, true⟩, false⟩ { pc := 4097, padding := true }
    [⟨0, some 7, .blank⟩, ⟨1, none, .opener true⟩, ⟨1, none, .obj [0x4e, 0x71]⟩, ⟨1, none, .obj [0x4e, 0x71]⟩] 0).1.syms
    = [(⟨none, some 7⟩, 4098)] := by decide

/-- **the rule is what does it**: if the opening line clears the label memory (`ResetLastLabel` true - an `Expand…` that
reports failure, or the negation missing), the same lines leave the label at the address of the *pad byte*. -/
theorem C10_lab_reset_keeps_pad_address (c : Cfg) (m : M) (src l : Nat) (ln : Line) (bs : List Byte)
    (hf : m.frame = none) (hop : ln.op = .obj bs) (hlab : ln.label = none)
    (hodd : AddrLabModel.epc m % 2 = 1) (hp : m.padding = true) :
    ∃ m', AddrLabModel.run c m [⟨src, some l, .opener false⟩, ln] 0 = (m', none) ∧
      lookup m'.syms ⟨none, some l⟩ = some (AddrLabModel.epc m) ∧ m'.pc = m.pc + 1 + (bs.length : Nat) := by
  refine ⟨afterObj (afterPadReset m l) bs, ?_, ?_⟩
  · simp only [AddrLabModel.run, step_opener_failed c m src l hf, step_obj_reset c m l ln bs hf hop hlab hodd hp]
  · simp [afterObj, afterPadReset, afterReset, lookup_setSym]

/-- `l: irp …` treated as failed at `$1001`: the label stays on the pad byte `$1001`, the object lies at `$1002` -/
example : (AddrLabModel.run ⟨⟨2, true, true, false, true, true, true⟩, false⟩ { pc := 4097, padding := true }
    [⟨0, some 7, .opener false⟩, ⟨0, none, .obj [0x11, 0x11]⟩] 0).1.syms = [(⟨none, some 7⟩, 4097)] := by decide

/-- **the manual's side of the same lines** (`Spec/AddrLab.lean`): the construct is replaced by its expansion, its label stays
behind on a line that only holds the label, (`mid`: empty lines), then the word-sized object: the label points behind the pad
byte PADDING demands.  (`s` is a state right behind a statement: no label-only line pending, the label not defined before.) -/
theorem C10_lab_spec_label (big : Bool) (s : S) (src l : Nat) (mid : List Line) (ln : Line) (bs : List Byte) (rest : List Line)
    (hf : s.frame = none) (hpend : s.pending = none) (hold : s.older = []) (hfresh : ∀ e ∈ s.syms, e.1 ≠ ⟨none, some l⟩)
    (hmid : ∀ x ∈ mid, emptyLine x) (hop : ln.op = .obj bs) (hlab : ln.label = none) (hbs : bs ≠ []) :
    ∃ s', (∀ i, AddrLab.run big s (⟨src, some l, .blank⟩ :: (mid ++ ln :: rest)) i = AddrLab.run big s' rest (i + 1 + mid.length + 1)) ∧
      lookupS s'.syms ⟨none, some l⟩ = some (some (AddrLab.epc s + (padOfS s : Nat))) ∧
      s'.cells = s.cells ++ cellsAt s.pc.toNat (List.replicate (padOfS s) 0) ++ cellsAt (s.pc.toNat + padOfS s) bs ∧
      s'.pc = s.pc + (padOfS s : Nat) + (bs.length : Nat) ∧ s'.ph = s.ph := by
  refine ⟨afterObjS s l bs, fun i => ?_, ?_, rfl, rfl, rfl⟩
  · simp only [AddrLab.run, stepS_label big s src l hf]
    rw [runS_empty big mid _ (ln :: rest) (i + 1) hmid]
    simp only [AddrLab.run, stepS_obj big s l ln bs hf hpend hold hop hlab hbs]
  · by_cases hp : padOfS s = 0
    · simp [afterObjS, hp, lookupS_define_fresh _ _ _ hfresh]
    · have hp1 : padOfS s = 1 := by
        unfold padOfS at hp ⊢
        split <;> simp_all
      simp [afterObjS, hp1, lookupS_move_define_fresh _ _ _ _ hfresh]

/-- SPEC, 68000 at `$1001`, PADDING ON: `l:` / (empty line) / `dc.w $1111`-like object: `l = $1002`, cells `00` at `$1001`, `11 11` behind -/
example : (AddrLab.run true { pc := 4097, padding := true }
    [⟨0, some 7, .blank⟩, ⟨0, none, .blank⟩, ⟨0, none, .obj [0x11, 0x11]⟩] 0).1.syms = [(⟨none, some 7⟩, some 4098)] ∧
    (AddrLab.run true { pc := 4097, padding := true }
    [⟨0, some 7, .blank⟩, ⟨0, none, .blank⟩, ⟨0, none, .obj [0x11, 0x11]⟩] 0).1.cells = [(4097, 0), (4098, 0x11), (4099, 0x11)] := by
  decide

/-- **MODEL = manual at construct-opening lines**: from states that agree on the counters, the line `l: <construct>` with its
expansion as `Produce_Code` sees it (MODEL) and the expansion with the label line in front (SPEC) give the label the same value
and lay down the same bytes at the same addresses. -/
theorem C10_lab_model_eq_spec_at_constructs (c : Cfg) (big : Bool) (m : M) (s : S) (src l : Nat)
    (midM midS : List Line) (ln : Line) (bs : List Byte) (restM restS : List Line)
    (hfm : m.frame = none) (hfs : s.frame = none) (hpc : m.pc = s.pc) (hph : m.ph = s.ph) (hpad : m.padding = s.padding)
    (hpos : 0 ≤ m.pc) (hcells : m.cells = s.cells)
    (hpend : s.pending = none) (hold : s.older = []) (hfresh : ∀ e ∈ s.syms, e.1 ≠ ⟨none, some l⟩)
    (hmidM : ∀ x ∈ midM, transparent x) (hmidS : ∀ x ∈ midS, emptyLine x)
    (hop : ln.op = .obj bs) (hlab : ln.label = none) (hbs : bs ≠ []) :
    ∃ m' s', (∀ i, AddrLabModel.run c m (⟨src, some l, .opener true⟩ :: (midM ++ ln :: restM)) i
                    = AddrLabModel.run c m' restM (i + 1 + midM.length + 1)) ∧
             (∀ i, AddrLab.run big s (⟨src, some l, .blank⟩ :: (midS ++ ln :: restS)) i
                    = AddrLab.run big s' restS (i + 1 + midS.length + 1)) ∧
      (lookup m'.syms ⟨none, some l⟩).map some = lookupS s'.syms ⟨none, some l⟩ ∧
      m'.cells = s'.cells ∧ m'.pc = s'.pc ∧ m'.ph = s'.ph := by
  obtain ⟨m', hm1, hm2, hm3, hm4, hm5, _, _⟩ := C10_lab_construct_label c m src l midM ln bs restM hfm hpos hmidM hop hlab
  obtain ⟨s', hs1, hs2, hs3, hs4, hs5⟩ := C10_lab_spec_label big s src l midS ln bs restS hfs hpend hold hfresh hmidS hop hlab hbs
  have he : AddrLabModel.epc m = AddrLab.epc s := by simp [AddrLabModel.epc, AddrLab.epc, hfm, hfs, hpc, hph]
  have hp : padOf m = padOfS s := by simp [padOf, padOfS, he, hpad, AddrLab.isOdd]
  refine ⟨m', s', hm1, hs1, ?_, ?_, ?_, ?_⟩
  · rw [hm2, hs2, he, hp]; rfl
  · rw [hm3, hs3, hcells, hpc, hp]
  · rw [hm4, hs4, hpc, hp]
  · rw [hm5, hs5, hph]

/-! ## Motorola-style reservations with several operands -/

/-- **BYT/FCB and ADR/FDB**: for every non-empty list of `?` / `[n]?` operands `CodeLen` is the number of cells times the cell
size (1 resp. 2 bytes) - the cells of *all* operands add up - and nothing is written. -/
theorem C10_moto_res_byt_adr (c : MCfg) (wide : Bool) (as : Args) (h : resStmtArgs as = true) :
    decodeMoto8 c wide false as = some ⟨none, mkOut true ((cellBytes wide * cellCount as : Nat) : Int) [], []⟩ :=
  moto8_res c wide as h

/-- `fdb [2]?,[3]?`: 5 cells, 10 bytes; `adr [2]?,?,[2]?`: 10 bytes; `fcb ?,?,?`: 3 bytes -/
example : decodeMoto8 ⟨1, false, true, false, false, true, true⟩ true false (.cons (.rep 2 .q) (.cons (.rep 3 .q) .nil))
    = some ⟨none, .space 10, []⟩ := by decide
example : resStmtArgs (.cons (.rep 2 .q) (.cons .q (.cons (.rep 2 .q) .nil))) = true ∧
    cellCount (.cons (.rep 2 .q) (.cons .q (.cons (.rep 2 .q) .nil))) = 5 := by decide

/-- **DC.x**: the same with the element size of the attribute; one *reserved* pad byte exactly when the statement starts at an
odd address under PADDING ON and the elements are larger than a byte. -/
theorem C10_moto_res_dc (c : MCfg) (pc : Nat) (e : Elem) (as : Args) (h : resStmtArgs as = true) :
    decodeMotoDC c pc e as =
      some ⟨if pc % 2 == 1 && c.padding && decide (e.bytes ≠ 1) then some true else none,
            mkOut true ((e.bytes * cellCount as : Nat) : Int) [], []⟩ :=
  motoDC_res c pc e as h

/-- `dc.l ?,[2]?` at an odd address under PADDING ON: a reserved pad byte, 12 bytes -/
example : decodeMotoDC ⟨2, true, true, false, true, true, true⟩ 4097 ⟨4, true, none⟩ (.cons .q (.cons (.rep 2 .q) .nil))
    = some ⟨some true, .space 12, []⟩ := by decide

/-- **MODEL = manual** on these statements: pad byte, advance of the program counter and "nothing written" agree with
`Spec/Data.lean specStmt` (operands × repeat factor × element size; PADDING). -/
theorem C10_moto_res_model_eq_spec (c : MCfg) (big : Bool) (pc : Nat) (st : Stmt) (as : Args) (h : resStmtArgs as = true)
    (hst : st = .byt as ∨ st = .adr as ∨ ∃ e, st = .dc e as) :
    ∃ r pad o, modelStmt c pc st = some r ∧ specStmt ⟨big, c.padding⟩ pc st = some (pad, o) ∧
      (match r.pad with | some _ => 1 | none => 0) = pad ∧ (r.pad = some true ∨ r.pad = none) ∧
      outAdv r.out = outAdv o ∧ outWrites r.out = false ∧ outWrites o = false := by
  rcases hst with rfl | rfl | ⟨e, rfl⟩
  · have hm := mkOut_space_adv (cellBytes false * cellCount as)
    exact ⟨_, 0, .space (elemByte.bytes * cellCount as), moto8_res c false as h, by simp [specStmt, spec_res_stmt elemByte big as h],
      rfl, Or.inr rfl, hm.1.trans (by simp [outAdv, cellBytes, elemByte]), hm.2, rfl⟩
  · have hm := mkOut_space_adv (cellBytes true * cellCount as)
    exact ⟨_, 0, .space (elemWord.bytes * cellCount as), moto8_res c true as h, by simp [specStmt, spec_res_stmt elemWord big as h],
      rfl, Or.inr rfl, hm.1.trans (by simp [outAdv, cellBytes, elemWord]), hm.2, rfl⟩
  · have hm := mkOut_space_adv (e.bytes * cellCount as)
    refine ⟨_, padBefore c.padding pc e.bytes, .space (e.bytes * cellCount as), motoDC_res c pc e as h,
      by simp [specStmt, spec_res_stmt e big as h], ?_, ?_, hm.1.trans (by simp [outAdv]), hm.2, rfl⟩
    · simp only [padBefore]
      cases c.padding <;> cases (pc % 2 == 1) <;> cases decide (e.bytes ≠ 1) <;> simp
    · cases (pc % 2 == 1 && c.padding && decide (e.bytes ≠ 1)) <;> simp

/-! ## whole programs

Full statement (task): `Pre c big s prog → observable (MODEL run over flatM 0 prog) = observable (SPEC run over expandS 0 prog)`.
It is proved as stated, with "=" spelled out as `ObsAgree` (the SPEC leaves some label values open - `none` -, which no equation
can express) and with the SPEC's right to stop made explicit: the MODEL is run over the lines up to the one the SPEC stops at. -/

/-- **MODEL refines SPEC, line lists.**  `ls`: any list of lines as `Produce_Code` sees them (opening lines of constructs
included), `erase ls`: what the manual makes of them.  From related states, under the side conditions `runPre` (decidable,
evaluated along the SPEC's run): the MODEL runs - without leaving the transcription - over the first `k` lines, where `k` is
all lines when the SPEC judges the program to its end and the lines in front of the one the manual does not cover otherwise, and
ends in a state related to the SPEC's: same symbols with the SPEC's values, same cells, same counters, same error lines. -/
theorem C10_lab_refine_lines (c : Cfg) (big : Bool) (ls : List Line) (m : M) (s : S) (i j : Nat)
    (hR : Rel m s) (hpre : runPre c big s ls = true) :
    ∃ k m', k ≤ ls.length ∧ AddrLabModel.run c m (ls.take k) j = (m', none) ∧
      Rel m' (AddrLab.run big s (erase ls) i).1 ∧ ObsAgree m' (AddrLab.run big s (erase ls) i).1 ∧
      ((AddrLab.run big s (erase ls) i).2 = none → k = ls.length) := by
  obtain ⟨k, m', h1, h2, h3, h4⟩ := sim_run c big ls m s i j hR hpre
  exact ⟨k, m', h1, h2, h3, h3.obs, h4⟩

/-- **the SPEC's lines are the MODEL's lines seen through the manual**: for every source program, taking the opening lines of
the constructs out of what `Produce_Code` sees (their labels stay behind on label-only lines) gives the expansion the manual
describes. -/
theorem C10_lab_lines (i : Nat) (prog : Nodes) (h : srcNodes prog = true) : erase (flatM i prog) = expandS i prog :=
  erase_flatM i prog h

/-- **MODEL refines SPEC, whole programs** (every program of the statement language: labelled lines, constructs nested to any
depth with any number of iterations, PADDING, ORG, PHASE/DEPHASE, STRUCT/UNION bodies, data statements and reservations). -/
theorem C10_lab_refine (c : Cfg) (big : Bool) (prog : Nodes) (m : M) (s : S) (hR : Rel m s) (hpre : Pre c big s prog = true) :
    ∃ k m', k ≤ (flatM 0 prog).length ∧ AddrLabModel.run c m ((flatM 0 prog).take k) 0 = (m', none) ∧
      ObsAgree m' (AddrLab.run big s (expandS 0 prog) 0).1 ∧
      ((AddrLab.run big s (expandS 0 prog) 0).2 = none → k = (flatM 0 prog).length) := by
  simp only [Pre, Bool.and_eq_true] at hpre
  obtain ⟨k, m', h1, h2, _, h4, h5⟩ := C10_lab_refine_lines c big (flatM 0 prog) m s 0 0 hR hpre.2
  rw [erase_flatM 0 prog hpre.1] at h4 h5
  exact ⟨k, m', h1, h2, h4, h5⟩

/-- **… judged to the end**: when the manual covers every line, the MODEL runs over the whole program and the observations
agree. -/
theorem C10_lab_refine_end (c : Cfg) (big : Bool) (prog : Nodes) (m : M) (s : S) (hR : Rel m s) (hpre : Pre c big s prog = true)
    (hend : (AddrLab.run big s (expandS 0 prog) 0).2 = none) :
    ∃ m', AddrLabModel.run c m (flatM 0 prog) 0 = (m', none) ∧ ObsAgree m' (AddrLab.run big s (expandS 0 prog) 0).1 := by
  obtain ⟨k, m', _, h2, h3, h4⟩ := C10_lab_refine c big prog m s hR hpre
  rw [h4 hend, List.take_length] at h2
  exact ⟨m', h2, h3⟩

/-- **label values**: every symbol the SPEC gives a value reads exactly that value in the MODEL, and the two define the same
symbols. -/
theorem C10_lab_refine_labels (c : Cfg) (big : Bool) (prog : Nodes) (m : M) (s : S) (hR : Rel m s) (hpre : Pre c big s prog = true)
    (hend : (AddrLab.run big s (expandS 0 prog) 0).2 = none) :
    ∃ m', AddrLabModel.run c m (flatM 0 prog) 0 = (m', none) ∧
      (∀ k v, lookupS (AddrLab.run big s (expandS 0 prog) 0).1.syms k = some (some v) → lookup m'.syms k = some v) ∧
      (∀ k, (lookup m'.syms k).isSome = (lookupS (AddrLab.run big s (expandS 0 prog) 0).1.syms k).isSome) := by
  obtain ⟨m', h1, h2⟩ := C10_lab_refine_end c big prog m s hR hpre hend
  exact ⟨m', h1, fun k v => SymsRel_lookup k v _ _ h2.syms, fun k => SymsRel_defined k _ _ h2.syms⟩

/-- the start of a program: PADDING as the target has it, everything else empty -/
theorem C10_lab_init (p : Bool) : Rel { padding := p } { padding := p } := Rel_init p

/-! Non-vacuity of `C10_lab_refine` / `_end` / `_labels`: 68000, PADDING ON.
`org $1001` / `N1: irp P,17,34` (body: `N?` none, `dc.w $1111`-like object; `dc.b P`) / `N2:` / `rept 2` (body: nested `irpc` with a `nop`) /
`R9 struct` / `N3: dc.b ?` / `N4: dc.w ?,[2]?` / `R9 endstruct` / `N5: dc.l [2]?` / `padding off` / `N6: nop`.
The precondition holds (with `fixStruct = true`: the field `N4` is moved behind a pad byte), the SPEC judges the program to its
end, and the symbols read `N1 = $1002` (behind the pad byte), `N2 = $100A` (behind the pad byte in front of the first `nop` of the
expansion), `R9_N3 = 0`, `R9_N4 = 2` (behind the reserved pad byte), `R9_LEN = 8`, `N5 = $100E`, `N6 = $1016`. -/
def exLabProg : Nodes :=
  .cons (.line none (.org 4097)) <|
  .cons (.rep (some 1) [17, 34] (.cons (.line none (.obj [0x11, 0x11])) (.cons (.line none .pbyte) .nil))) <|
  .cons (.line (some 2) .blank) <|
  .cons (.rep none [0, 0] (.cons (.rep none [3] (.cons (.line none (.obj [0x4e, 0x71])) .nil)) .nil)) <|
  .cons (.line none (.struct 9 false)) <|
  .cons (.line (some 3) (.moto (.dc ⟨1, true, none⟩ (.cons .q .nil)))) <|
  .cons (.line (some 4) (.moto (.dc ⟨2, true, none⟩ (.cons .q (.cons (.rep 2 .q) .nil))))) <|
  .cons (.line none .endstruct) <|
  .cons (.line (some 5) (.moto (.dc ⟨4, true, none⟩ (.cons (.rep 2 .q) .nil)))) <|
  .cons (.line none (.padding false)) <|
  .cons (.line (some 6) (.obj [0x4e, 0x71])) .nil

def labCfg68k (fix : Bool) : Cfg := ⟨⟨2, true, true, false, true, true, true⟩, fix⟩
def labCfg6809 : Cfg := ⟨⟨1, false, true, false, true, true, true⟩, false⟩

example : Pre (labCfg68k true) true { padding := true } exLabProg = true := by decide
example : (AddrLab.run true { padding := true } (expandS 0 exLabProg) 0).2 = none := by decide
example : (AddrLab.run true { padding := true } (expandS 0 exLabProg) 0).1.syms =
    [(⟨none, some 1⟩, some 4098), (⟨none, some 2⟩, some 4106), (⟨some 9, some 3⟩, some 0), (⟨some 9, some 4⟩, some 2),
     (⟨some 9, none⟩, some 8), (⟨none, some 5⟩, some 4110), (⟨none, some 6⟩, some 4118)] := by decide
example : (AddrLabModel.run (labCfg68k true) { padding := true } (flatM 0 exLabProg) 0).1.syms =
    [(⟨none, some 1⟩, 4098), (⟨none, some 2⟩, 4106), (⟨some 9, some 3⟩, 0), (⟨some 9, some 4⟩, 2),
     (⟨some 9, none⟩, 8), (⟨none, some 5⟩, 4110), (⟨none, some 6⟩, 4118)] := by decide

/-! ### the side conditions are needed (and what they exclude)

`preFresh`: a symbol defined twice has one entry in the MODEL's table (`EnterIntSymbol` overwrites) and two in the SPEC's list;
`preOp`: an opening line that clears the label memory (`C10_lab_reset_keeps_pad_address`), a data statement without data inside a
structure (outside the transcription), a Motorola data statement on which `Model/Data.lean` and `Spec/Data.lean` differ (C09's
subject; witness below: a negative count of RMB); `preKnown`: the repaired finding `struct-field-symbol-keeps-pad-offset` (only with `fixStruct = false`). -/

/-- `preKnown` is needed: `R9 struct` / `N3: dc.b ?` / `N4: dc.w ?` / `R9 endstruct` under PADDING ON with `LabelModify` as it was before
the repair 0cba171 (`fixStruct = false`): the side condition fails at `N4`, the MODEL of that tree (repaired finding
`struct-field-symbol-keeps-pad-offset`) leaves the symbol `R9_N4` at the offset of the pad byte, the SPEC says 2; with
`fixStruct = true` (the tree as it is: the probe of the check answers so) the condition holds and MODEL = SPEC = 2. -/
def exLabField : Nodes :=
  .cons (.line none (.struct 9 false)) <|
  .cons (.line (some 3) (.moto (.dc ⟨1, true, none⟩ (.cons .q .nil)))) <|
  .cons (.line (some 4) (.moto (.dc ⟨2, true, none⟩ (.cons .q .nil)))) <|
  .cons (.line none .endstruct) .nil

theorem C10_lab_refine_hypothesis_needed_struct_field :
    Pre (labCfg68k false) true { padding := true } exLabField = false ∧ Pre (labCfg68k true) true { padding := true } exLabField = true ∧
    lookup (AddrLabModel.run (labCfg68k false) { padding := true } (flatM 0 exLabField) 0).1.syms ⟨some 9, some 4⟩ = some 1 ∧
    lookupS (AddrLab.run true { padding := true } (expandS 0 exLabField) 0).1.syms ⟨some 9, some 4⟩ = some (some 2) ∧
    lookup (AddrLabModel.run (labCfg68k true) { padding := true } (flatM 0 exLabField) 0).1.syms ⟨some 9, some 4⟩ = some 2 := by
  decide

/-- `preFresh` is needed: `N1:` / `dc.b 1`-like byte / `N1:`: one entry (`N1 = 1`, the later definition) in the MODEL, two in the SPEC -/
theorem C10_lab_refine_hypothesis_needed_fresh :
    Pre (labCfg68k false) true {} (.cons (.line (some 1) .blank) (.cons (.line none (.bytes [1])) (.cons (.line (some 1) .blank) .nil))) = false ∧
    (AddrLabModel.run (labCfg68k false) {} [⟨0, some 1, .blank⟩, ⟨1, none, .bytes [1]⟩, ⟨2, some 1, .blank⟩] 0).1.syms = [(⟨none, some 1⟩, 1)] ∧
    (AddrLab.run true {} [⟨0, some 1, .blank⟩, ⟨1, none, .bytes [1]⟩, ⟨2, some 1, .blank⟩] 0).1.syms =
      [(⟨none, some 1⟩, some 0), (⟨none, some 1⟩, some 1)] := by
  decide

/-- `motoAgree` (in `preOp`) is needed: `N1: rmb -1` / `N2:` at address 0 (6809).  `DecodeMotoDFS` takes the count as a 16-bit `Word`
and reserves 65535 bytes (`N2 = 65535`: the real assembler does, see the report); `Spec/Data.lean specStmt` refuses a negative
count.  (Whether a data statement is accepted and what it lays is C09's subject; the refinement of the label machine takes the
agreement on the statement as a precondition.) -/
theorem C10_lab_refine_hypothesis_needed_data_agreement :
    Pre labCfg6809 true {} (.cons (.line (some 1) (.moto (.dfs (-1)))) (.cons (.line (some 2) .blank) .nil)) = false ∧
    (AddrLabModel.run labCfg6809 {} [⟨0, some 1, .moto (.dfs (-1))⟩, ⟨1, some 2, .blank⟩] 0).1.syms = [(⟨none, some 1⟩, 0), (⟨none, some 2⟩, 65535)] ∧
    (AddrLabModel.run labCfg6809 {} [⟨0, some 1, .moto (.dfs (-1))⟩, ⟨1, some 2, .blank⟩] 0).1.errs = [] ∧
    (AddrLab.run true {} [⟨0, some 1, .moto (.dfs (-1))⟩, ⟨1, some 2, .blank⟩] 0).1.syms = [(⟨none, some 1⟩, none), (⟨none, some 2⟩, some 0)] ∧
    (AddrLab.run true {} [⟨0, some 1, .moto (.dfs (-1))⟩, ⟨1, some 2, .blank⟩] 0).1.errs = [0] := by
  decide

/-- **a statement of constants that lays no byte is aligned like any other**: `N1: dc.w [0]5` at `$1001` under PADDING ON - the
pad byte `00` is *written* at `$1001` (`DecodeMotoDC`: `InsertPadding(1, False)`; the real assembler does, see the report), the
label reads `$1002`, in MODEL and SPEC, and the statement meets the precondition of `C10_lab_refine`.  (Before the correction of
`Spec/AddrLab.lean place` the SPEC took a statement without bytes for a reservation and noted no cell.) -/
theorem C10_lab_zero_repeat_constant :
    Pre (labCfg68k false) true { pc := 4097, padding := true }
      (.cons (.line (some 1) (.moto (.dc ⟨2, true, none⟩ (.cons (.rep 0 (.int 5)) .nil)))) .nil) = true ∧
    (AddrLabModel.run (labCfg68k false) { pc := 4097, padding := true } [⟨0, some 1, .moto (.dc ⟨2, true, none⟩ (.cons (.rep 0 (.int 5)) .nil))⟩] 0).1.cells
      = [(4097, 0)] ∧
    (AddrLab.run true { pc := 4097, padding := true } [⟨0, some 1, .moto (.dc ⟨2, true, none⟩ (.cons (.rep 0 (.int 5)) .nil))⟩] 0).1.cells = [(4097, 0)] ∧
    (AddrLab.run true { pc := 4097, padding := true } [⟨0, some 1, .moto (.dc ⟨2, true, none⟩ (.cons (.rep 0 (.int 5)) .nil))⟩] 0).1.syms
      = [(⟨none, some 1⟩, some 4098)] := by
  decide

/-! ### only the most recent label is adapted (upstream `tests/t_padding/t_padding.asm`, `label7:` / `label8: nop`)

`dc.b 1` / `N1:` / `N2: nop` at `$1000`, PADDING ON: the statement's own label takes over the label memory; `N1` keeps the address
of the pad byte, `N2` points at the instruction - in the MODEL (`LabelHandle` overwrites `pLabelEntry`) and in the SPEC; the
program meets the precondition of `C10_lab_refine`.  (Before the correction of the SPEC this was counted as the finding
`label-before-labelled-statement-names-pad-byte`.) -/
def exLabRecent : Nodes :=
  .cons (.line none (.org 4096)) <| .cons (.line none (.bytes [1])) <| .cons (.line (some 1) .blank) <|
  .cons (.line (some 2) (.obj [0x4e, 0x71])) .nil

theorem C10_lab_most_recent_label :
    Pre (labCfg68k false) true { padding := true } exLabRecent = true ∧
    (AddrLabModel.run (labCfg68k false) { padding := true } (flatM 0 exLabRecent) 0).1.syms = [(⟨none, some 1⟩, 4097), (⟨none, some 2⟩, 4098)] ∧
    (AddrLab.run true { padding := true } (expandS 0 exLabRecent) 0).1.syms = [(⟨none, some 1⟩, some 4097), (⟨none, some 2⟩, some 4098)] ∧
    (AddrLab.run true { padding := true } (expandS 0 exLabRecent) 0).1.cells = [(4096, 1), (4097, 0), (4098, 0x4e), (4099, 0x71)] := by
  decide

/-! ## whole programs of Motorola-style reservations -/

/-- **MODEL refines SPEC on every program whose Motorola data statements are reservations** (`BYT/FCB`, `ADR/FDB`, `DC.x` with
`?` / `[n]?` operands, any number of them; `DS.x`; labels, label-only lines, ORG, PHASE, PADDING, STRUCT/UNION bodies, constructs):
the statement-level theorems `C10_moto_res_byt_adr` / `C10_moto_res_dc` / `C10_moto_res_model_eq_spec` discharge the data-statement
side condition of `C10_lab_refine`, what remains (`PreRes`) is: symbols defined once (and, for `fixStruct = false` only, the
repaired finding `struct-field-symbol-keeps-pad-offset` not hit). -/
theorem C10_moto_res_refine (c : Cfg) (big : Bool) (prog : Nodes) (m : M) (s : S) (hR : Rel m s) (hpre : PreRes c big s prog = true) :
    ∃ k m', k ≤ (flatM 0 prog).length ∧ AddrLabModel.run c m ((flatM 0 prog).take k) 0 = (m', none) ∧
      ObsAgree m' (AddrLab.run big s (expandS 0 prog) 0).1 ∧
      ((AddrLab.run big s (expandS 0 prog) 0).2 = none → k = (flatM 0 prog).length) := by
  simp only [PreRes, Bool.and_eq_true] at hpre
  exact C10_lab_refine c big prog m s hR (by simp only [Pre, Bool.and_eq_true]; exact ⟨hpre.1, runPre_of_res c big _ s hpre.2⟩)

/-- the statement-level agreement used there, as a statement of its own: on a reservation statement `modelStmt` and `specStmt`
agree in the sense of `motoAgree`, at every address and PADDING state -/
theorem C10_moto_res_agree (c : Cfg) (big : Bool) (s : S) (st : Stmt) (h : resStmt st = true) : motoAgree c big s st = true :=
  motoAgree_res c big s st h

/-! Non-vacuity: 6809-style reservations (byte listing, big endian), PADDING ON at `$1001`: `N1: fdb [2]?,[3]?` / `N2:` /
`N3: dc.w ?,[2]?` (a reserved pad byte in front: `N3 = $100C`, `N2` stays at `$100B`) / `R7 union` / `N4: fcb ?,?,?` / `N5: adr [2]?` /
`R7 endunion` / `N6: ds.w 2`: `PreRes` holds, judged to the end, `R7_LEN = 4`. -/
def exLabRes : Nodes :=
  .cons (.line none (.org 4097)) <|
  .cons (.line (some 1) (.moto (.adr (.cons (.rep 2 .q) (.cons (.rep 3 .q) .nil))))) <|
  .cons (.line (some 2) .blank) <|
  .cons (.line (some 3) (.moto (.dc ⟨2, true, none⟩ (.cons .q (.cons (.rep 2 .q) .nil))))) <|
  .cons (.line none (.struct 7 true)) <|
  .cons (.line (some 4) (.moto (.byt (.cons .q (.cons .q (.cons .q .nil)))))) <|
  .cons (.line (some 5) (.moto (.adr (.cons (.rep 2 .q) .nil)))) <|
  .cons (.line none .endstruct) <|
  .cons (.line (some 6) (.dsx 2 2)) .nil

example : PreRes labCfg6809 true { padding := true } exLabRes = true := by decide
example : (AddrLab.run true { padding := true } (expandS 0 exLabRes) 0).2 = none ∧
    (AddrLab.run true { padding := true } (expandS 0 exLabRes) 0).1.syms =
      [(⟨none, some 1⟩, some 4097), (⟨none, some 2⟩, some 4107), (⟨none, some 3⟩, some 4108), (⟨some 7, some 4⟩, some 0),
       (⟨some 7, some 5⟩, some 0), (⟨some 7, none⟩, some 4), (⟨none, some 6⟩, some 4114)] := by decide

end AslModel.C10
