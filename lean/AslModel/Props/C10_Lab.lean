import AslModel.Lemmas.AddrLab
/-!
# C10, label part — labels at pad bytes and construct-opening lines; Motorola-style reservations with several operands

Property theorems only (helper lemmas: `Lemmas/AddrLab.lean`).
Model: `Model/AddrLab.lean` (`Produce_Code`'s label part with the `ResetLastLabel` rule of the lines that open a macro call /
REPT / IRP / IRPN / IRPC / WHILE, `LabelHandle` / `LabelModify` / `LabelReset`, `InsertPadding`, the alignment step of the
68000 / MSP430 / TMS9900 / AVR `MakeCode`, the Motorola pseudo-ops through `Model/Data.lean`).
Spec: `Spec/AddrLab.lean` (PADDING, macro and DC sections of the manual) and `Spec/Data.lean`.

What is a theorem:
* for every state outside a structure and every sequence "opening line of a construct with a label, any number of empty lines
  and further (unlabelled) opening lines, a word-sized object": the label reads the address of the first byte the object lays
  down - behind the pad byte when one is inserted (`C10_lab_construct_label`), likewise for a label alone on the line before
  (`C10_lab_label_line_before`); the rule is what makes it so: when the opening line resets the label memory (`.opener false`,
  what `ResetLastLabel = ExpandIRP()` without the negation does for every IRP that opens successfully), the label keeps the
  address of the pad byte (`C10_lab_reset_keeps_pad_address`); the SPEC machine on the expansion of the same lines gives the
  same label value and the same bytes at the same addresses (`C10_lab_spec_label`, `C10_lab_model_eq_spec_at_constructs`);
* for every operand list made of `?` and `[n]?` (`n ≥ 0`, any number of operands): `CodeLen` of BYT/FCB, ADR/FDB and DC.x is
  (number of cells) × (cell size), nothing is written, DC.x reserves one pad byte exactly when PADDING demands one
  (`C10_moto_res_byt_adr`, `C10_moto_res_dc`), which is the manual's rule (`C10_moto_res_model_eq_spec`).
Only tested by the correspondence (not theorems): the whole-program agreement of MODEL and SPEC (constants, refused mixtures,
structures, PHASE, nested constructs with labelled lines inside).
-/
namespace AslModel.C10
open AslModel.PFile (Byte b)
open AslModel.Data AslModel.DataModel AslModel.AddrLab AslModel.AddrLabModel AslModel.AddrLabLemmas

/-! ## construct-opening lines -/

/-- **the label of a line that opens a construct is the address of the first unit the expansion lays down.**
`m`: any state outside a structure; the line `l: <IRP/REPT/…>` (opened successfully), then `mid` - empty lines and further
opening lines without labels (nested constructs) -, then the first statement of the expansion, a word-sized object `bs`.
Then the run continues from a state `m'` in which the label reads `EProgCounter + pad`, the pad byte (if any) lies at the old
load address and the object right behind it: the label names the object's first byte, never the pad byte. -/
theorem C10_lab_construct_label (c : Cfg) (m : M) (src l : Nat) (mid : List Line) (ln : Line) (bs : List Byte) (rest : List Line)
    (hf : m.frame = none) (hpc : 0 ≤ m.pc)
    (hmid : ∀ x ∈ mid, transparent x) (hop : ln.op = .obj bs) (hlab : ln.label = none) :
    ∃ m', (∀ i, AddrLabModel.run c m (⟨src, some l, .opener true⟩ :: (mid ++ ln :: rest)) i
                = AddrLabModel.run c m' rest (i + 1 + mid.length + 1)) ∧
      lookup m'.syms ⟨none, some l⟩ = some (AddrLabModel.epc m + (padOf m : Nat)) ∧
      m'.cells = m.cells ++ cellsAt m.pc.toNat (List.replicate (padOf m) 0) ++ cellsAt (m.pc.toNat + padOf m) bs ∧
      m'.pc = m.pc + (padOf m : Nat) + (bs.length : Nat) ∧ m'.ph = m.ph ∧ m'.frame = none ∧ m'.last = none := by
  have hrun : ∀ (m1 : M) (i : Nat), AddrLabModel.step c (afterOpener m l) ln = some m1 →
      AddrLabModel.run c m (⟨src, some l, .opener true⟩ :: (mid ++ ln :: rest)) i = AddrLabModel.run c m1 rest (i + 1 + mid.length + 1) := by
    intro m1 i h1
    simp only [AddrLabModel.run, step_opener c m src l hf]
    rw [run_transparent c mid _ (ln :: rest) (i + 1) hmid]
    simp only [AddrLabModel.run, h1]
  have hepc : AddrLabModel.epc m = m.pc + m.ph := by simp [AddrLabModel.epc, hf]
  by_cases hpad : AddrLabModel.epc m % 2 = 1 ∧ m.padding = true
  · have hp1 : padOf m = 1 := by simp [padOf, hpad.1, hpad.2]
    refine ⟨afterObj (afterPad m l) bs, fun i => hrun _ i (step_obj_pad c m l ln bs hf hop hlab hpad.1 hpad.2), ?_⟩
    simp [afterObj, afterPad, lookup_setSym, hp1, cellsAt, toNat_succ m.pc hpc, hf]
  · have hp0 : padOf m = 0 := by
      unfold padOf
      by_cases h1 : AddrLabModel.epc m % 2 = 1
      · have : m.padding = false := by
          cases h : m.padding
          · rfl
          · exact absurd ⟨h1, h⟩ hpad
        simp [this]
      · simp [h1]
    refine ⟨afterObj (afterOpener m l) bs, fun i => hrun _ i (step_obj_nopad c m l ln bs hf hop hlab hpad), ?_⟩
    simp [afterObj, afterOpener, lookup_setSym, hp0, cellsAt, hf]

/-- 68000, PADDING ON, `$1001`: `l: irp …` / `dc.w $1111`-like object `11 11`: the label reads `$1002`, the pad byte lies at `$1001` -/
example : (AddrLabModel.run ⟨⟨2, true, true, false, true, true, true⟩, false⟩ { pc := 4097, padding := true }
    [⟨0, some 7, .opener true⟩, ⟨0, none, .obj [0x11, 0x11]⟩] 0).1.syms = [(⟨none, some 7⟩, 4098)] ∧
    (AddrLabModel.run ⟨⟨2, true, true, false, true, true, true⟩, false⟩ { pc := 4097, padding := true }
    [⟨0, some 7, .opener true⟩, ⟨0, none, .obj [0x11, 0x11]⟩] 0).1.cells = [(4097, 0), (4098, 0x11), (4099, 0x11)] := by
  decide

/-- the same for **a label alone on the line before** the construct (or before a plain statement: `mid = []`) -/
theorem C10_lab_label_line_before (c : Cfg) (m : M) (src l : Nat) (mid : List Line) (ln : Line) (bs : List Byte) (rest : List Line)
    (hf : m.frame = none) (hpc : 0 ≤ m.pc)
    (hmid : ∀ x ∈ mid, transparent x) (hop : ln.op = .obj bs) (hlab : ln.label = none) :
    ∃ m', (∀ i, AddrLabModel.run c m (⟨src, some l, .blank⟩ :: (mid ++ ln :: rest)) i
                = AddrLabModel.run c m' rest (i + 1 + mid.length + 1)) ∧
      lookup m'.syms ⟨none, some l⟩ = some (AddrLabModel.epc m + (padOf m : Nat)) ∧
      m'.cells = m.cells ++ cellsAt m.pc.toNat (List.replicate (padOf m) 0) ++ cellsAt (m.pc.toNat + padOf m) bs := by
  obtain ⟨m', h1, h2, h3, _⟩ := C10_lab_construct_label c m src l mid ln bs rest hf hpc hmid hop hlab
  refine ⟨m', fun i => ?_, h2, h3⟩
  rw [← h1 i]
  have hb : AddrLabModel.step c m ⟨src, some l, .blank⟩ = some (afterOpener m l) := by
    simp [AddrLabModel.step, labelPresent, labelHandle, hf, decode, opEmpty, afterOpener]
  simp only [AddrLabModel.run, hb, step_opener c m src l hf]

/-- the hypotheses are satisfiable: a nested construct opened without label and an empty line in between; a label alone on the line
before `rept 2` / `nop` (68000, `$1001`): it reads `$1002` -/
example : ∀ x ∈ [(⟨0, none, .opener true⟩ : Line), ⟨0, none, .blank⟩], transparent x := by
  intro x hx
  simp only [List.mem_cons, List.mem_nil_iff, or_false] at hx
  rcases hx with rfl | rfl
  · exact ⟨rfl, Or.inr rfl⟩
  · exact ⟨rfl, Or.inl rfl⟩
example : (AddrLabModel.run ⟨⟨2, true, true, false, true, true, true⟩, false⟩ { pc := 4097, padding := true }
    [⟨0, some 7, .blank⟩, ⟨1, none, .opener true⟩, ⟨1, none, .obj [0x4e, 0x71]⟩, ⟨1, none, .obj [0x4e, 0x71]⟩] 0).1.syms
    = [(⟨none, some 7⟩, 4098)] := by decide

/-- **the rule is what does it**: if the opening line clears the label memory (`ResetLastLabel` true - an `Expand…` that
reports failure, or the negation missing), the same lines leave the label at the address of the *pad byte*. -/
theorem C10_lab_reset_keeps_pad_address (c : Cfg) (m : M) (src l : Nat) (ln : Line) (bs : List Byte)
    (hf : m.frame = none) (hop : ln.op = .obj bs) (hlab : ln.label = none)
    (hodd : AddrLabModel.epc m % 2 = 1) (hp : m.padding = true) :
    ∃ m', AddrLabModel.run c m [⟨src, some l, .opener false⟩, ln] 0 = (m', none) ∧
      lookup m'.syms ⟨none, some l⟩ = some (AddrLabModel.epc m) ∧ m'.pc = m.pc + 1 + (bs.length : Nat) := by
  refine ⟨afterObj (afterPadReset m l) bs, ?_, ?_⟩
  · simp only [AddrLabModel.run, step_opener_failed c m src l hf, step_obj_reset c m l ln bs hf hop hlab hodd hp]
  · simp [afterObj, afterPadReset, afterReset, lookup_setSym]

/-- `l: irp …` treated as failed at `$1001`: the label stays on the pad byte `$1001`, the object lies at `$1002` -/
example : (AddrLabModel.run ⟨⟨2, true, true, false, true, true, true⟩, false⟩ { pc := 4097, padding := true }
    [⟨0, some 7, .opener false⟩, ⟨0, none, .obj [0x11, 0x11]⟩] 0).1.syms = [(⟨none, some 7⟩, 4097)] := by decide

/-- **the manual's side of the same lines** (`Spec/AddrLab.lean`): the construct is replaced by its expansion, its label stays
behind on a line that only holds the label, (`mid`: empty lines), then the word-sized object: the label points behind the pad
byte PADDING demands.  (`s` is a state right behind a statement: no label-only line pending, the label not defined before.) -/
theorem C10_lab_spec_label (big : Bool) (s : S) (src l : Nat) (mid : List Line) (ln : Line) (bs : List Byte) (rest : List Line)
    (hf : s.frame = none) (hpend : s.pending = none) (hold : s.older = []) (hfresh : ∀ e ∈ s.syms, e.1 ≠ ⟨none, some l⟩)
    (hmid : ∀ x ∈ mid, emptyLine x) (hop : ln.op = .obj bs) (hlab : ln.label = none) (hbs : bs ≠ []) :
    ∃ s', (∀ i, AddrLab.run big s (⟨src, some l, .blank⟩ :: (mid ++ ln :: rest)) i = AddrLab.run big s' rest (i + 1 + mid.length + 1)) ∧
      lookupS s'.syms ⟨none, some l⟩ = some (some (AddrLab.epc s + (padOfS s : Nat))) ∧
      s'.cells = s.cells ++ cellsAt s.pc.toNat (List.replicate (padOfS s) 0) ++ cellsAt (s.pc.toNat + padOfS s) bs ∧
      s'.pc = s.pc + (padOfS s : Nat) + (bs.length : Nat) ∧ s'.ph = s.ph := by
  refine ⟨afterObjS s l bs, fun i => ?_, ?_, rfl, rfl, rfl⟩
  · simp only [AddrLab.run, stepS_label big s src l hf]
    rw [runS_empty big mid _ (ln :: rest) (i + 1) hmid]
    simp only [AddrLab.run, stepS_obj big s l ln bs hf hpend hold hop hlab hbs]
  · by_cases hp : padOfS s = 0
    · simp [afterObjS, hp, lookupS_define_fresh _ _ _ hfresh]
    · have hp1 : padOfS s = 1 := by
        unfold padOfS at hp ⊢
        split <;> simp_all
      simp [afterObjS, hp1, lookupS_move_define_fresh _ _ _ _ hfresh]

/-- SPEC, 68000 at `$1001`, PADDING ON: `l:` / (empty line) / `dc.w $1111`-like object: `l = $1002`, cells `00` at `$1001`, `11 11` behind -/
example : (AddrLab.run true { pc := 4097, padding := true }
    [⟨0, some 7, .blank⟩, ⟨0, none, .blank⟩, ⟨0, none, .obj [0x11, 0x11]⟩] 0).1.syms = [(⟨none, some 7⟩, some 4098)] ∧
    (AddrLab.run true { pc := 4097, padding := true }
    [⟨0, some 7, .blank⟩, ⟨0, none, .blank⟩, ⟨0, none, .obj [0x11, 0x11]⟩] 0).1.cells = [(4097, 0), (4098, 0x11), (4099, 0x11)] := by
  decide

/-- **MODEL = manual at construct-opening lines**: from states that agree on the counters, the line `l: <construct>` with its
expansion as `Produce_Code` sees it (MODEL) and the expansion with the label line in front (SPEC) give the label the same value
and lay down the same bytes at the same addresses. -/
theorem C10_lab_model_eq_spec_at_constructs (c : Cfg) (big : Bool) (m : M) (s : S) (src l : Nat)
    (midM midS : List Line) (ln : Line) (bs : List Byte) (restM restS : List Line)
    (hfm : m.frame = none) (hfs : s.frame = none) (hpc : m.pc = s.pc) (hph : m.ph = s.ph) (hpad : m.padding = s.padding)
    (hpos : 0 ≤ m.pc) (hcells : m.cells = s.cells)
    (hpend : s.pending = none) (hold : s.older = []) (hfresh : ∀ e ∈ s.syms, e.1 ≠ ⟨none, some l⟩)
    (hmidM : ∀ x ∈ midM, transparent x) (hmidS : ∀ x ∈ midS, emptyLine x)
    (hop : ln.op = .obj bs) (hlab : ln.label = none) (hbs : bs ≠ []) :
    ∃ m' s', (∀ i, AddrLabModel.run c m (⟨src, some l, .opener true⟩ :: (midM ++ ln :: restM)) i
                    = AddrLabModel.run c m' restM (i + 1 + midM.length + 1)) ∧
             (∀ i, AddrLab.run big s (⟨src, some l, .blank⟩ :: (midS ++ ln :: restS)) i
                    = AddrLab.run big s' restS (i + 1 + midS.length + 1)) ∧
      (lookup m'.syms ⟨none, some l⟩).map some = lookupS s'.syms ⟨none, some l⟩ ∧
      m'.cells = s'.cells ∧ m'.pc = s'.pc ∧ m'.ph = s'.ph := by
  obtain ⟨m', hm1, hm2, hm3, hm4, hm5, _, _⟩ := C10_lab_construct_label c m src l midM ln bs restM hfm hpos hmidM hop hlab
  obtain ⟨s', hs1, hs2, hs3, hs4, hs5⟩ := C10_lab_spec_label big s src l midS ln bs restS hfs hpend hold hfresh hmidS hop hlab hbs
  have he : AddrLabModel.epc m = AddrLab.epc s := by simp [AddrLabModel.epc, AddrLab.epc, hfm, hfs, hpc, hph]
  have hp : padOf m = padOfS s := by simp [padOf, padOfS, he, hpad, AddrLab.isOdd]
  refine ⟨m', s', hm1, hs1, ?_, ?_, ?_, ?_⟩
  · rw [hm2, hs2, he, hp]; rfl
  · rw [hm3, hs3, hcells, hpc, hp]
  · rw [hm4, hs4, hpc, hp]
  · rw [hm5, hs5, hph]

/-! ## Motorola-style reservations with several operands -/

/-- **BYT/FCB and ADR/FDB**: for every non-empty list of `?` / `[n]?` operands `CodeLen` is the number of cells times the cell
size (1 resp. 2 bytes) - the cells of *all* operands add up - and nothing is written. -/
theorem C10_moto_res_byt_adr (c : MCfg) (wide : Bool) (as : Args) (h : resStmtArgs as = true) :
    decodeMoto8 c wide false as = some ⟨none, mkOut true ((cellBytes wide * cellCount as : Nat) : Int) [], []⟩ :=
  moto8_res c wide as h

/-- `fdb [2]?,[3]?`: 5 cells, 10 bytes; `adr [2]?,?,[2]?`: 10 bytes; `fcb ?,?,?`: 3 bytes -/
example : decodeMoto8 ⟨1, false, true, false, false, true, true⟩ true false (.cons (.rep 2 .q) (.cons (.rep 3 .q) .nil))
    = some ⟨none, .space 10, []⟩ := by decide
example : resStmtArgs (.cons (.rep 2 .q) (.cons .q (.cons (.rep 2 .q) .nil))) = true ∧
    cellCount (.cons (.rep 2 .q) (.cons .q (.cons (.rep 2 .q) .nil))) = 5 := by decide

/-- **DC.x**: the same with the element size of the attribute; one *reserved* pad byte exactly when the statement starts at an
odd address under PADDING ON and the elements are larger than a byte. -/
theorem C10_moto_res_dc (c : MCfg) (pc : Nat) (e : Elem) (as : Args) (h : resStmtArgs as = true) :
    decodeMotoDC c pc e as =
      some ⟨if pc % 2 == 1 && c.padding && decide (e.bytes ≠ 1) then some true else none,
            mkOut true ((e.bytes * cellCount as : Nat) : Int) [], []⟩ :=
  motoDC_res c pc e as h

/-- `dc.l ?,[2]?` at an odd address under PADDING ON: a reserved pad byte, 12 bytes -/
example : decodeMotoDC ⟨2, true, true, false, true, true, true⟩ 4097 ⟨4, true, none⟩ (.cons .q (.cons (.rep 2 .q) .nil))
    = some ⟨some true, .space 12, []⟩ := by decide

/-- **MODEL = manual** on these statements: pad byte, advance of the program counter and "nothing written" agree with
`Spec/Data.lean specStmt` (operands × repeat factor × element size; PADDING). -/
theorem C10_moto_res_model_eq_spec (c : MCfg) (big : Bool) (pc : Nat) (st : Stmt) (as : Args) (h : resStmtArgs as = true)
    (hst : st = .byt as ∨ st = .adr as ∨ ∃ e, st = .dc e as) :
    ∃ r pad o, modelStmt c pc st = some r ∧ specStmt ⟨big, c.padding⟩ pc st = some (pad, o) ∧
      (match r.pad with | some _ => 1 | none => 0) = pad ∧ (r.pad = some true ∨ r.pad = none) ∧
      outAdv r.out = outAdv o ∧ outWrites r.out = false ∧ outWrites o = false := by
  rcases hst with rfl | rfl | ⟨e, rfl⟩
  · have hm := mkOut_space_adv (cellBytes false * cellCount as)
    exact ⟨_, 0, .space (elemByte.bytes * cellCount as), moto8_res c false as h, by simp [specStmt, spec_res_stmt elemByte big as h],
      rfl, Or.inr rfl, hm.1.trans (by simp [outAdv, cellBytes, elemByte]), hm.2, rfl⟩
  · have hm := mkOut_space_adv (cellBytes true * cellCount as)
    exact ⟨_, 0, .space (elemWord.bytes * cellCount as), moto8_res c true as h, by simp [specStmt, spec_res_stmt elemWord big as h],
      rfl, Or.inr rfl, hm.1.trans (by simp [outAdv, cellBytes, elemWord]), hm.2, rfl⟩
  · have hm := mkOut_space_adv (e.bytes * cellCount as)
    refine ⟨_, padBefore c.padding pc e.bytes, .space (e.bytes * cellCount as), motoDC_res c pc e as h,
      by simp [specStmt, spec_res_stmt e big as h], ?_, ?_, hm.1.trans (by simp [outAdv]), hm.2, rfl⟩
    · simp only [padBefore]
      cases c.padding <;> cases (pc % 2 == 1) <;> cases decide (e.bytes ≠ 1) <;> simp
    · cases (pc % 2 == 1 && c.padding && decide (e.bytes ≠ 1)) <;> simp

end AslModel.C10
