import AslModel.Lemmas.PassPhase
/-!
# C01, part "PHASE blocks and PC-relative sizes" (model: `Model/PassPhase.lean`)

The fixpoint claim of C01 for the pass loop with `PHASE`/`DEPHASE` (label values and distances are formed from
`EProgCounter()`, the code is stored at the load address) and with instruction sizes that depend on the value of the
operand, on the phased address of the instruction and on the `NextLabelAfterBSR` flag of the operand – for *every*
program, every size function, every start table, every load address and every phase address.

`C01_phase_bsr_next_settles` is the settling of the 68000 `BSR` to the label directly behind it
(`code68k.c DecodeBcc` / `AfterBSRAddr`) for all load addresses and all phase addresses: three passes, 16-bit form.
-/
namespace AslModel.C01
open AslModel.PassPhase

/-- **Every use encodes the final value** (with PHASE blocks): a pass that ends without a repass request encoded, in
every reference, the value the symbol has at the end of that pass – the phased address of its label. -/
theorem C01_phase_refs_final (T : Tab) (base : Nat) (p : List Stmt) (h : (pass T base p).repass = false) :
    ∀ r ∈ (pass T base p).out, ∃ fl, (pass T base p).tab r.sym = some (r.val, fl) :=
  run_agree p { pc := base, tab := T } (by intro _ r hm; simp at hm) h

/-- **Fixpoint at loop exit** (with PHASE blocks): whenever the pass loop leaves, after any number of passes, every
reference of the emitted code holds the final (phased) value of its symbol. -/
theorem C01_phase_fixpoint_at_exit (p : List Stmt) (base fuel : Nat) (T : Tab) (n : Nat) (s : PS)
    (h : assemble p base fuel T 0 = some (n, s)) :
    (∀ r ∈ s.out, ∃ fl, s.tab r.sym = some (r.val, fl)) ∧ 1 ≤ n := by
  obtain ⟨T', rfl, hrep, hk⟩ := phase_assemble_some p base fuel T 0 n s h
  exact ⟨C01_phase_refs_final T' base p hrep, by omega⟩

/-- a label stands for its *phased* address: `PHASE a` at load address `pc0` makes a label at load address `pc`
worth `pc + (a - pc0)` (doc/pseudo-instructions.md "PHASE and DEPHASE": "filing of label values") -/
theorem C01_phase_label_value (s : PS) (a : Int) (k n : Nat) :
    ∃ fl, (run s [.phase a, .skip k, .label n]).tab n = some (((s.pc + k : Nat) : Int) + (a - (s.pc : Int)), fl) := by
  simp only [run, List.foldl, step]
  obtain ⟨fl, h⟩ := exec_label_value (tick (exec (tick (exec (tick s) (.phase a))) (.skip k))) n
  refine ⟨fl, ?_⟩
  rw [h]
  simp [exec]

/-- **The BSR to the directly following label settles** for every load address and every phase address: exactly three
passes (8-bit form with the unknown label, 16-bit form at distance 0, 16-bit form kept at distance 2 because the label
carries `NextLabelAfterBSR`), the final code is the 4-byte form holding the label's final phased address. -/
theorem C01_phase_bsr_next_settles (base : Nat) (a : Int) (fuel : Nat) :
    ∃ s, assemble (bsrNext a) base (fuel + 3) emptyTab 0 = some (3, s) ∧
      s.out = [⟨base, a, 1, a + 4, 4⟩] ∧ s.tab 1 = some (a + 4, true) ∧ s.pc = base + 6 := by
  have h3 := bsrNext_pass3 base a (upd (upd emptyTab 1 (a + 2, true)) 1 (a + 4, true)) (by simp [upd])
  refine ⟨pass (upd (upd emptyTab 1 (a + 2, true)) 1 (a + 4, true)) base (bsrNext a), ?_, ?_, ?_, ?_⟩
  · have e : fuel + 3 = (fuel + 2) + 1 := rfl
    rw [e, assemble, bsrNext_pass1]
    simp only [if_true]
    have e2 : fuel + 2 = (fuel + 1) + 1 := rfl
    rw [e2, assemble, bsrNext_pass2]
    simp only [if_true]
    rw [assemble, h3]
    simp
  · rw [h3]
  · rw [h3]; simp [upd]
  · rw [h3]

/-- **Finding (pinned tree)**: the flag "label directly behind a BSR" does not say behind *which* BSR.  On
`bsr l3 / l2: bsr l2 / l3:` the first BSR is 2 bytes at distance 4, 4 bytes at distance 2 (its target carries the
flag of the second BSR): the tables alternate with period 2 and the pass
loop never ends, at any load address and whatever number of passes is allowed. -/
theorem C01_finding_bsr_oscillation (base fuel k : Nat) :
    assemble bsrCycle base fuel emptyTab k = none := by
  cases fuel with
  | zero => rfl
  | succ f =>
    have hp := bsrCycle_first base
    simp only [assemble, hp.1, if_true]
    exact bsrCycle_never base f _ _ hp.2

/-! Non-vacuity: the third pass of `bsrNext` ends without Repass (hypothesis of `C01_phase_refs_final`), and the pass
loop leaves on it (hypothesis of `C01_phase_fixpoint_at_exit`). -/
example : (pass (upd emptyTab 1 (0x8004, true)) 0x1000 (bsrNext 0x8000)).repass = false := by
  rw [bsrNext_pass3 0x1000 0x8000 _ (by simp [upd])]
example : ∃ n s, assemble (bsrNext 0x8000) 0x1000 40 emptyTab 0 = some (n, s) :=
  let ⟨s, h, _⟩ := C01_phase_bsr_next_settles 0x1000 0x8000 37
  ⟨3, s, h⟩

end AslModel.C01
