import AslModel.Lemmas.P2Bin
import AslModel.Lemmas.P2BinLane
/-!
# C05 — P2BIN writes the memory image described by the code file

Property theorems only (helper lemmas: `Lemmas/P2Bin.lean`).  Model: `Model/P2Bin.lean` (transcription of
`p2bin.c`/`chunks.c`), Spec: `Spec/P2Bin.lean` (from the manual).  `code` is the quirk setting that follows
today's C code.  All statements quantify over *every* list of selected records and every window.
-/
namespace AslModel.C05
open AslModel.PFile AslModel.P2Bin

/-- the model as the code is today -/
def code : Quirks := ⟨false, false, false, false, false⟩

/-- Table obligation: for every lane name of the manual the triple `(SizeDiv, ANDMask, ANDEq)` that the
current `p2bin.c` selects (regenerated every run) is the expected one. -/
theorem C05_lane_table :
    Generated.p2binLanes = [("ALL", 1, 0, 0), ("EVEN", 2, 1, 0), ("ODD", 2, 1, 1), ("BYTE0", 4, 3, 0), ("BYTE1", 4, 3, 1),
      ("BYTE2", 4, 3, 2), ("BYTE3", 4, 3, 3), ("WORD0", 2, 2, 0), ("WORD1", 2, 2, 2)] := by decide

/-- … and the mask test `(a & ANDMask) == ANDEq` of the copy loop *is* the documented address class
("even/odd address", "address 4n+k", "lower/upper word of a 32-bit word") for every byte address `a`,
and `SizeDiv` is the documented shrink factor. -/
theorem C05_lane_predicate : ∀ x ∈ Generated.p2binLanes, ∃ lane, Lane.ofName x.1 = some lane ∧ lane.Valid ∧
    x.2.1 = lane.div ∧ ∀ a : Nat, ((a &&& x.2.2.1) == x.2.2.2) = lane.ok a := by
  rw [C05_lane_table]
  intro x hx
  simp only [List.mem_cons, List.not_mem_nil, or_false] at hx
  rcases hx with rfl | rfl | rfl | rfl | rfl | rfl | rfl | rfl | rfl
  · exact ⟨.all, by decide, trivial, rfl, fun a => hit_mod4 a 0 0 (by decide) .all (below4 _ (by decide) (by decide) (by decide) (by decide)) (Lane.ok_mod4 _)⟩
  · exact ⟨.even, by decide, trivial, rfl, fun a => hit_mod4 a 1 0 (by decide) .even (below4 _ (by decide) (by decide) (by decide) (by decide)) (Lane.ok_mod4 _)⟩
  · exact ⟨.odd, by decide, trivial, rfl, fun a => hit_mod4 a 1 1 (by decide) .odd (below4 _ (by decide) (by decide) (by decide) (by decide)) (Lane.ok_mod4 _)⟩
  · exact ⟨.byte 0, by decide, (by show 0 < _; decide), rfl, fun a => hit_mod4 a 3 0 (by decide) (.byte 0) (below4 _ (by decide) (by decide) (by decide) (by decide)) (Lane.ok_mod4 _)⟩
  · exact ⟨.byte 1, by decide, (by show 1 < _; decide), rfl, fun a => hit_mod4 a 3 1 (by decide) (.byte 1) (below4 _ (by decide) (by decide) (by decide) (by decide)) (Lane.ok_mod4 _)⟩
  · exact ⟨.byte 2, by decide, (by show 2 < _; decide), rfl, fun a => hit_mod4 a 3 2 (by decide) (.byte 2) (below4 _ (by decide) (by decide) (by decide) (by decide)) (Lane.ok_mod4 _)⟩
  · exact ⟨.byte 3, by decide, (by show 3 < _; decide), rfl, fun a => hit_mod4 a 3 3 (by decide) (.byte 3) (below4 _ (by decide) (by decide) (by decide) (by decide)) (Lane.ok_mod4 _)⟩
  · exact ⟨.word 0, by decide, (by show 0 < _; decide), rfl, fun a => hit_mod4 a 2 0 (by decide) (.word 0) (below4 _ (by decide) (by decide) (by decide) (by decide)) (Lane.ok_mod4 _)⟩
  · exact ⟨.word 1, by decide, (by show 1 < _; decide), rfl, fun a => hit_mod4 a 2 2 (by decide) (.word 1) (below4 _ (by decide) (by decide) (by decide) (by decide)) (Lane.ok_mod4 _)⟩

/-- Spec-internal: the executable image the driver evaluates on real outputs (`imageFast`: fill, then the
records laid over it in order) is the declarative one (`imageAll`: byte p = last record covering p, else fill). -/
theorem C05_image_fast (ws we g : Nat) (fill : Byte) (rs : List Sel) (hw : ws ≤ we)
    (hg : ∀ r ∈ rs, r.gran ≤ g) : imageFast ws we g fill rs = imageAll ws we g fill rs :=
  imageFast_eq_imageAll ws we g fill rs hw hg

/-- **Headline.**  For every list of selected records and every window (lane ALL): after `OpenTarget`'s
pre-fill and `ProcessFile`'s clip/seek/copy of every record, the file consists of the header bytes followed
by exactly `(stop−start+1)·MaxGran` bytes, and byte `p` of that part is the byte which the *last* selected
record covering window byte `p` places there, else the fill value.  Proof: induction over the record list
with the invariant "file = prefill overwritten by the records so far" (`Img`). -/
theorem C05_bytes (q : Quirks) (o : Opts) (w : Win) (sel : List Sel)
    (hq : q.laneExact = false) (hlane : o.sizeDiv = 1) (hw : w.start ≤ w.stop)
    (hfit : (w.stop - w.start + 1) * w.maxGran < 4294967296)
    (hwf : ∀ r ∈ sel, r.WF) (hg : ∀ r ∈ sel, r.gran ≤ w.maxGran) :
    (procAll q o w sel).file.length = absHeader o + (w.stop - w.start + 1) * w.maxGran ∧
    (∀ p, p < (w.stop - w.start + 1) * w.maxGran →
      (procAll q o w sel).file[absHeader o + p]? = some (imageByte w.start w.stop o.fill sel p)) ∧
    (∀ i, i < absHeader o → (procAll q o w sel).file[i]? = some 0) := by
  unfold procAll
  rw [foldl_procRec_file q o w hq hlane hw hfit sel _ hwf hg, prefill_eq q o w hq hlane hfit]
  have h0 := img_replicate (absHeader o) ((w.stop - w.start + 1) * w.maxGran) o.fill
  obtain ⟨h1, h2⟩ := foldl_overlayAt_img (absHeader o) w.start w.stop w.maxGran hw sel _ _ h0 hg
  refine ⟨h1.len, fun p hp => ?_, fun i hi => ?_⟩
  · rw [h1.body p hp]; rfl
  · rw [h2 i hi, List.getElem?_append_left (by simp [hi])]
    simp [hi]

/-- File length = header + selected range scaled by the granularity. -/
theorem C05_length (q : Quirks) (o : Opts) (w : Win) (sel : List Sel)
    (hq : q.laneExact = false) (hlane : o.sizeDiv = 1) (hw : w.start ≤ w.stop)
    (hfit : (w.stop - w.start + 1) * w.maxGran < 4294967296)
    (hwf : ∀ r ∈ sel, r.WF) (hg : ∀ r ∈ sel, r.gran ≤ w.maxGran) :
    (procAll q o w sel).file.length = absHeader o + (w.stop - w.start + 1) * w.maxGran :=
  (C05_bytes q o w sel hq hlane hw hfit hwf hg).1

/-- … so the image part of the file *is* the spec image (as lists). -/
theorem C05_image (q : Quirks) (o : Opts) (w : Win) (sel : List Sel)
    (hq : q.laneExact = false) (hlane : o.sizeDiv = 1) (hw : w.start ≤ w.stop)
    (hfit : (w.stop - w.start + 1) * w.maxGran < 4294967296)
    (hwf : ∀ r ∈ sel, r.WF) (hg : ∀ r ∈ sel, r.gran ≤ w.maxGran) :
    (procAll q o w sel).file.drop (absHeader o) = specImage .all w.start w.stop w.maxGran o.fill sel := by
  obtain ⟨h1, h2, _⟩ := C05_bytes q o w sel hq hlane hw hfit hwf hg
  have hall : ∀ (base : Nat) (l : List Byte), laneFilter Lane.all.ok base l = l := by
    intro base l
    induction l generalizing base with
    | nil => rfl
    | cons x xs ih => simp [laneFilter, Lane.ok, ih]
  rw [specImage, hall]
  apply List.ext_getElem?
  intro p
  rw [List.getElem?_drop]
  unfold imageAll
  by_cases hp : p < (w.stop - w.start + 1) * w.maxGran
  · rw [h2 p hp]; simp [hp]
  · rw [List.getElem?_eq_none (by omega), List.getElem?_eq_none (by simp; omega)]

/-- Automatic bounds: `MeasureFile` leaves the lowest start address, the highest last address and the largest
granularity of the selected records (so `MaxGran` bounds every record's granularity — the hypothesis `hg` of
`C05_bytes` — whenever a bound is automatic). -/
theorem C05_autorange (o : Opts) (sel : List Sel) (hwf : ∀ r ∈ sel, r.WF) (hne : sel ≠ [])
    (hs : o.startAuto = true) (he : o.stopAuto = true) :
    let w := measure o sel
    (∀ r ∈ sel, w.start ≤ r.start ∧ r.last ≤ w.stop ∧ r.gran ≤ w.maxGran) ∧
    (∃ r ∈ sel, w.start = r.start) ∧ (∃ r ∈ sel, w.stop = r.last) ∧
    (w.maxGran = 1 ∨ ∃ r ∈ sel, w.maxGran = r.gran) ∧ w.start ≤ w.stop := by
  intro w
  obtain ⟨_, g2, g3⟩ := fold_maxGran o sel (measureInit o)
  obtain ⟨s1, s2, s3⟩ := fold_start_auto o hs sel (measureInit o)
  obtain ⟨_, e2, e3⟩ := fold_stop_auto o he sel (measureInit o) hwf
  have hex : ∃ r, r ∈ sel := by
    cases sel with
    | nil => exact absurd rfl hne
    | cons r _ => exact ⟨r, by simp⟩
  obtain ⟨r0, hr0⟩ := hex
  have hwf0 := hwf r0 hr0
  have hu := r0.units_pos hwf0
  have hb := hwf0.2.2.2.2
  have hl0 : r0.last = r0.start + r0.data.length / r0.gran - 1 := rfl
  have i1 : (measureInit o).start = 4294967295 := by simp [measureInit, hs, M32_eq]
  have i2 : (measureInit o).stop = 0 := by simp [measureInit, he]
  have hS : ∃ r ∈ sel, w.start = r.start := by
    rcases s3 with s3 | s3
    · have := s2 r0 hr0
      exact ⟨r0, hr0, by show (measure o sel).start = _; unfold P2Bin.measure; omega⟩
    · exact s3
  have hE : ∃ r ∈ sel, w.stop = r.last := by
    rcases e3 with e3 | e3
    · have := e2 r0 hr0
      exact ⟨r0, hr0, by show (measure o sel).stop = _; unfold P2Bin.measure; omega⟩
    · exact e3
  refine ⟨fun r hr => ⟨s2 r hr, e2 r hr, g2 r hr⟩, hS, hE, ?_, ?_⟩
  · rcases g3 with g3 | g3
    · left; exact g3
    · right; exact g3
  · have := s2 r0 hr0
    have := e2 r0 hr0
    show (measure o sel).start ≤ (measure o sel).stop
    unfold P2Bin.measure
    omega

/-- `-s`: after the checksum pass the byte sum of the image (the part after the header) is 0 modulo 256,
every byte but the last is unchanged, and the printed value is the 32-bit sum of those bytes. -/
theorem C05_checksum (o : Opts) (f f2 : List Byte) (s : Nat) (h : checksumPass o f = .ok (f2, s)) :
    byteSum (f2.drop (absHeader o)) % 256 = 0 ∧ f2.length = f.length ∧ f2.take (f.length - 1) = f.take (f.length - 1) ∧
    s = byteSum ((f.drop (absHeader o)).take (f.length - absHeader o - 1)) % 4294967296 := by
  unfold checksumPass at h
  split at h
  · cases h
  · rename_i hl
    simp only [Except.ok.injEq, Prod.mk.injEq] at h
    obtain ⟨h1, h2⟩ := h
    subst h1 h2
    refine ⟨?_, by simp; omega, by simp, rfl⟩
    rw [List.drop_append_of_le_length (by simp; omega), byteSum_append, List.drop_take]
    have e : f.length - 1 - absHeader o = f.length - absHeader o - 1 := by omega
    rw [e]
    generalize byteSum ((f.drop (absHeader o)).take (f.length - absHeader o - 1)) = S
    simp only [byteSum, List.foldl_cons, List.foldl_nil, b_toNat]
    omega

/-- `-S`: the header written by `CloseTarget`'s shift loop is the entry address in `n` bytes, little endian
for `n`/`Ln`, big endian for `Bn`; and those bytes decode to the entry address modulo `256^n`. -/
theorem C05_header (o : Opts) (e : Nat) (f : List Byte) (hh : o.header ≠ 0) :
    (writeHeader o (some e) f).take (absHeader o) = specHeader o.header (e % 4294967296) ∧
    (writeHeader o (some e) f).drop (absHeader o) = f.drop (absHeader o) ∧
    leVal (leBytes (absHeader o) (e % 4294967296)) = e % 4294967296 % 256 ^ absHeader o := by
  have hlen : ∀ n v, (leBytes n v).length = n := by
    intro n; induction n with
    | zero => intro v; rfl
    | succ n ih => intro v; simp [leBytes, ih]
  have key : entryHeader o e = specHeader o.header (e % 4294967296) := by
    unfold entryHeader specHeader absHeader
    rw [M32_eq]
    by_cases hp : o.header > 0
    · have := headerLoop_up (e % 4294967296) o.header.natAbs 0
      simp only [Nat.mul_zero, Nat.pow_zero, Nat.div_one] at this
      simp [hp, this, Int.le_of_lt hp]
    · have hn : ¬ o.header ≥ 0 := by omega
      simp only [hp, hn, if_false, decide_false]
      exact headerLoop_down _ _
  have hl : (entryHeader o e).length = absHeader o := by
    rw [key]; unfold specHeader; split <;> simp [hlen, absHeader]
  refine ⟨?_, ?_, leVal_leBytes _ _⟩
  · simp only [writeHeader, hh, ne_eq, not_false_eq_true, if_true]
    rw [List.take_append_of_le_length (by omega), ← hl, List.take_length, key]
  · simp only [writeHeader, hh, ne_eq, not_false_eq_true, if_true]
    rw [List.drop_append_of_le_length (by omega), ← hl, List.drop_length, List.nil_append]

/-- Why floor division is the right target position/length *on lane-period boundaries*: in a range that
starts on a period boundary and spans whole periods, exactly `n / div` byte addresses belong to the lane.
(The copy loop's position `((ErgStart−StartAdr)·Gran)/SizeDiv` equals the lane count only then; the general
statement "model lane image = `specImage lane`" is *not* proved – see the comment below and `C05_finding_lane`.) -/
theorem C05_lane_count_aligned (lane : Lane) (hv : lane.Valid) (k : Nat) : ∀ base, base % 4 = 0 →
    laneCount lane.ok base (4 * k) = 4 * k / lane.div := by
  induction k with
  | zero => intro base _; simp [laneCount]
  | succ k ih =>
    intro base hb
    have e : 4 * (k + 1) = (((4 * k + 1) + 1) + 1) + 1 := by omega
    rw [e]
    simp only [laneCount]
    have e2 : base + 1 + 1 + 1 + 1 = base + 4 := by omega
    rw [e2, ih (base + 4) (by omega)]
    have m0 : base % 4 = 0 := hb
    have m1 : (base + 1) % 4 = 1 := by omega
    have m2 : (base + 1 + 1) % 4 = 2 := by omega
    have m3 : (base + 1 + 1 + 1) % 4 = 3 := by omega
    rw [Lane.ok_mod4 lane base, Lane.ok_mod4 lane (base + 1), Lane.ok_mod4 lane (base + 1 + 1),
      Lane.ok_mod4 lane (base + 1 + 1 + 1), m0, m1, m2, m3]
    cases lane with
    | all => simp [Lane.ok, Lane.div]; omega
    | even => simp [Lane.ok, Lane.div]; omega
    | odd => simp [Lane.ok, Lane.div]; omega
    | byte n =>
      have hn : n < 4 := hv
      simp only [Lane.ok, Lane.div]
      match n, hn with
      | 0, _ => simp; omega
      | 1, _ => simp; omega
      | 2, _ => simp; omega
      | 3, _ => simp; omega
    | word n =>
      have hn : n < 2 := hv
      simp only [Lane.ok, Lane.div]
      match n, hn with
      | 0, _ => simp; omega
      | 1, _ => simp; omega

/-
Full statement that is NOT provable on the current tree (kept as the goal; `C05_finding_lane` is its negation):

  theorem C05_bytes_lane (o : Opts) (lane : Lane) … (htab : ∀ a, laneHit o a = lane.ok a) (hdiv : o.sizeDiv = lane.div) :
      (procAll code o w sel).file.drop (absHeader o) = specImage lane w.start w.stop w.maxGran o.fill sel

`C05_bytes_lane_aligned` below proves it under the decidable side condition `LaneAligned lane w sel`
(`Lemmas/P2BinLane.lean`): `w.start·G`, `(w.stop+1)·G` (G = `w.maxGran`) and, for every record that reaches into the window,
`w.start·g` and `max w.start r.start · g` (g = the record's granularity) are ≡ 0 (mod `lane.period`).  For records of the
window's granularity the third is the first.  Nothing is assumed about the *end* of a record, and nothing about records
outside the window.  The proof commutes `laneFilter` with `writeAt` (`laneFilter_writeAt`) using the count of lane addresses
in whole periods (`laneCount_aligned`).
-/

/-- **Lane image under the alignment condition.**  For every lane of the manual (`htab`/`hdiv`: the mask test and `SizeDiv`
that `C05_lane_predicate` establishes for the generated table), every list of selected records and every window: if the window
and the first address taken from every record lie on a boundary of the lane pattern (`LaneAligned`), the file behind the header
is exactly the window image thinned by the lane – `ProcessFile`'s floor-divided seek position and length are then the lane
positions.  Holds for any setting of the other quirks (only `laneExact = false`, today's code, is used). -/
theorem C05_bytes_lane_aligned (q : Quirks) (o : Opts) (lane : Lane) (w : Win) (sel : List Sel)
    (hq : q.laneExact = false) (hv : lane.Valid) (htab : ∀ a, laneHit o a = lane.ok a) (hdiv : o.sizeDiv = lane.div)
    (hw : w.start ≤ w.stop) (hfit : (w.stop - w.start + 1) * w.maxGran < 4294967296)
    (hwf : ∀ r ∈ sel, r.WF) (hg : ∀ r ∈ sel, r.gran ≤ w.maxGran) (hal : LaneAligned lane w sel) :
    (procAll q o w sel).file.drop (absHeader o) = specImage lane w.start w.stop w.maxGran o.fill sel ∧
    (procAll q o w sel).file.take (absHeader o) = List.replicate (absHeader o) 0 ∧
    (procAll q o w sel).file.length = absHeader o + (w.stop - w.start + 1) * w.maxGran / lane.div := by
  have h := procAll_lane q o lane w sel hq hv htab hdiv hw hfit hwf hg hal
  have hl : (List.replicate (absHeader o) (0 : Byte)).length = absHeader o := List.length_replicate
  obtain ⟨hB, hE, _⟩ := hal
  have hN : ((w.stop - w.start + 1) * w.maxGran) % lane.period = 0 := by
    have e : (w.stop - w.start + 1) * w.maxGran = (w.stop + 1) * w.maxGran - w.start * w.maxGran := by
      rw [← Nat.sub_mul]; congr 1; omega
    rw [e]
    exact Nat.sub_mod_eq_zero_of_mod_eq (by rw [hE, hB])
  refine ⟨?_, ?_, ?_⟩
  · rw [h, List.drop_append_of_le_length (by rw [hl]; exact Nat.le_refl _)]
    simp
  · rw [h, List.take_append_of_le_length (by rw [hl]; exact Nat.le_refl _)]
    simp
  · have hi : (imageAll w.start w.stop w.maxGran o.fill sel).length = (w.stop - w.start + 1) * w.maxGran := by simp [imageAll]
    rw [h, List.length_append, hl, specImage, laneFilter_length, hi, laneCount_aligned lane hv _ _ hB hN]

/-- non-vacuity, lane EVEN with the table's mask test: window 2..5 of byte addresses, one record that starts in front of the
window (clipped at the even address 2), one that begins at the even address 4 and ends at the odd address 4, one record outside
the window that is not aligned; the hypotheses hold and the file is the two even bytes of the image -/
example : let o : Opts := { startAuto := false, stopAuto := false, startAdr := 2, stopAdr := 5, fill := 0, sizeDiv := 2, mask := 1, eq := 0 }
    let sel : List Sel := [⟨1, 1, [0xa1, 0xa2, 0xa3]⟩, ⟨1, 4, [0xb4]⟩, ⟨1, 7, [0xc7]⟩]
    LaneAligned .even ⟨2, 5, 1⟩ sel ∧ (∀ r ∈ sel, r.WF) ∧ (∀ r ∈ sel, r.gran ≤ 1) ∧
    (procAll code o ⟨2, 5, 1⟩ sel).file = [0xa2, 0xb4] ∧ specImage .even 2 5 1 0 sel = [0xa2, 0xb4] := by decide
example : ∀ a, a < 4 → laneHit { sizeDiv := 2, mask := 1, eq := 0 } a = Lane.even.ok a := by decide
/-- …and a granularity-2 record under BYTE1 in a window of granularity 2 -/
example : LaneAligned (.byte 1) ⟨2, 5, 2⟩ [⟨2, 4, [1, 2, 3, 4]⟩, ⟨1, 0, [9]⟩] := by decide

/-- the hypothesis is needed: the witness of `C05_finding_lane` (`-r 0-3 -m even`, record at the odd address 1) meets every other
hypothesis and violates `LaneAligned` in its record conjunct only -/
theorem C05_bytes_lane_aligned_hypothesis_needed :
    ¬ LaneAligned .even ⟨0, 3, 1⟩ [⟨1, 1, [0xa1, 0xa2]⟩] ∧
    ((0 * 1) % Lane.even.period = 0 ∧ ((3 + 1) * 1) % Lane.even.period = 0) ∧
    (procAll code { startAuto := false, stopAuto := false, stopAdr := 3, fill := 0, sizeDiv := 2, mask := 1, eq := 0 }
        ⟨0, 3, 1⟩ [⟨1, 1, [0xa1, 0xa2]⟩]).file.drop 0 ≠ specImage .even 0 3 1 0 [⟨1, 1, [0xa1, 0xa2]⟩] := by decide

/-! ## Known findings: proved on the model (`code` quirks), witnesses replayed on the real binary every run -/

/-- `-f $11` on a 65xx record selects nothing, the spec selects the record. -/
theorem C05_finding_filter :
    select code { filter := [0x11] } [([.data ⟨0x11, 1, 1, 0, [1, 2]⟩], 0)] = [] ∧
    specSelect [0x11] segCode [([.data ⟨0x11, 1, 1, 0, [1, 2]⟩], 0)] = [⟨1, 0, [1, 2]⟩] := by decide

/-- `-r 0-3 -l 0 -m even`, record at address 1 = `A1 A2`: the code writes `A2 00`, the image is `00 A2`. -/
theorem C05_finding_lane :
    (procAll code { startAuto := false, stopAuto := false, stopAdr := 3, fill := 0, sizeDiv := 2, mask := 1, eq := 0 }
        ⟨0, 3, 1⟩ [⟨1, 1, [0xa1, 0xa2]⟩]).file = [0xa2, 0] ∧
    specImage .even 0 3 1 0 [⟨1, 1, [0xa1, 0xa2]⟩] = [0, 0xa2] := by decide

/-- records [0..9], [15..25], [10..20]: a common address exists, `AddChunk` gives no warning. -/
theorem C05_finding_overlap_missed :
    (procAll code {} ⟨0, 25, 1⟩ [⟨1, 0, List.replicate 10 1⟩, ⟨1, 15, List.replicate 11 2⟩, ⟨1, 10, List.replicate 11 3⟩]).warnings = 0 ∧
    specOverlap 0 25 [⟨1, 0, List.replicate 10 1⟩, ⟨1, 15, List.replicate 11 2⟩, ⟨1, 10, List.replicate 11 3⟩] = true := by decide

/-- `-r 0-7` on a granularity-2 record: `MaxGran` stays 1, the file has 8 bytes instead of 16. -/
theorem C05_finding_explicit_gran :
    (window code { startAuto := false, stopAuto := false, stopAdr := 7 } [⟨2, 2, [1, 2, 3, 4]⟩]).toOption = some ⟨0, 7, 1⟩ ∧
    (procAll code { startAuto := false, stopAuto := false, stopAdr := 7, fill := 0xee } ⟨0, 7, 1⟩ [⟨2, 2, [1, 2, 3, 4]⟩]).file.length = 8 ∧
    (specImage .all 0 7 (specMaxGran [⟨2, 2, [1, 2, 3, 4]⟩]) 0xee [⟨2, 2, [1, 2, 3, 4]⟩]).length = 16 := by decide

/-! ## Non-vacuity -/

def exSel : List Sel := [⟨1, 0x100, [1, 2, 3, 4, 5]⟩, ⟨2, 0x101, [0xa, 0xb, 0xc, 0xd]⟩, ⟨1, 0xfe, [9, 9, 9]⟩]
def exWin : Win := ⟨0xff, 0x103, 2⟩
example : (∀ r ∈ exSel, r.WF) ∧ (∀ r ∈ exSel, r.gran ≤ exWin.maxGran) ∧ exWin.start ≤ exWin.stop ∧
    (exWin.stop - exWin.start + 1) * exWin.maxGran < 4294967296 := by decide
example : (procAll code {} exWin exSel).file = [9, 9, 2, 3, 0xa, 0xb, 0xc, 0xd, 0xff, 0xff] := by decide
example : measure {} exSel = ⟨0xfe, 0x104, 2⟩ := by decide
example : (checksumPass { header := 2 } [0, 0, 1, 2, 3, 0xff]).toOption = some ([0, 0, 1, 2, 3, 0xfa], 6) := by decide
example : writeHeader { header := -4 } (some 0x12345678) [0, 0, 0, 0, 7] = [0x12, 0x34, 0x56, 0x78, 7] := by decide
example : (procAll code {} ⟨0, 15, 1⟩ [⟨1, 0, List.replicate 10 1⟩, ⟨1, 5, List.replicate 11 2⟩]).warnings = 1 := by decide

end AslModel.C05
