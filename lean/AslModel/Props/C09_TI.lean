import AslModel.Lemmas.DataTI
/-!
# C09 — STRING / RSTRING / BYTE / WORD / LONG of the TMS3202x / 3205x / 3254x: every element in its own lane

Property theorems only (helper lemmas: `Lemmas/DataTI.lean`).  Model: `Model/DataTI.lean` (transcription of
`tipseudo.c` `pseudo_store` and its callbacks `wr_code_byte_hilo`, `wr_code_byte_lohi`, `wr_code_byte`,
`wr_code_word`, `wr_code_long`).  Spec: `Spec/DataTI.lean` (the manual's *STRING and RSTRING*, *BYTE*, *WORD*, *LONG*).

* `C09_tistr_callback_lane` — the step of the transcribed callbacks, for EVERY history: when the cells hold the packed
  image of the elements stored so far, a value inside the element's range adds exactly its own two's-complement
  residue as the next element of the image (for STRING / RSTRING: into the free half of the last word, or into a new
  word whose other half is zero) — all earlier elements, in particular the neighbour that shares the word, stay as
  they are; a value outside the range is refused.
* `C09_tistr_neighbour_untouched` — the instance the packing is about: a second byte `v ∈ -128…255` next to a first
  byte `b0`: the word reads back as (`b0`, `v mod 256`) for STRING and RSTRING.
* `C09_tistr_lanes_readback` — specification side: reading the lanes of a packed sequence back gives every element
  again (plus one zero for an odd count), whatever its neighbours are.

The transcription has one flag, `cut` (`Model/DataTI.lean` `cutVal`; set each run by a probe of the real binary, `byte
100000001h`; the SPEC never sees it): `cut = true` is the code up to /repo commit 5ab0322 (the callbacks' parameter
is a 32-bit `LongInt`: open finding `ti-pseudo-store-value-cut-to-32-bit-before-range-check`), `cut = false` the code
since (parameter `LargeInt`).  All theorems below hold for both.

* `C09_ti_stmt_model_eq_spec` — **the whole statement**, all five statements (LONG included), every CHARSET table of
  256 entries, every argument list of integers, double- and single-quoted strings and floats:
      `decodeTI cut o t as = specTI o t as`     under `∀ a ∈ as, tiArgOK cut o a`
  where `tiArgOK` (a decidable predicate on one argument, `Model/DataTI.lean`, evaluated by the driver on every case)
  asks: an integer is a value the 64-bit evaluator can deliver and passes `okCut cut o` — for LONG: it is inside the
  manual's range of a 32-bit element (`wr_code_long` has no range check, before and after the repair); for the others
  with `cut = true`: the conversion to the callbacks' 32-bit parameter leaves it as it is, or what is left of it is
  refused as well; with `cut = false`: nothing — and a single-quoted string is not empty.
  `C09_ti_stmt_32bit` is the instance "every integer is a 32-bit value" (`-2^31 ≤ v < 2^31`).
* `C09_ti_full_width_range_check` — **the repaired code** (`cut = false`), STRING / RSTRING / BYTE / WORD: for EVERY
  argument list whose integers are 64-bit values (no condition on them) the statement is laid, or refused, as the manual
  says; in particular `byte 100000001h` is now an error (the positive form of the former finding theorem).
* `C09_ti_cut_hypothesis_exact` — `okCut` is not merely sufficient: for EVERY 64-bit value `v` the one-argument statement
  satisfies `decodeTI cut o t [v] = specTI o t [v]` **iff** `okCut cut o v`; outside it the code lays something where the
  manual says error.  For `cut = true` that class is the finding `ti-pseudo-store-value-cut-to-32-bit-before-range-check`,
  for `cut = false` what is left of it: LONG without range check.
  `C09_ti_stmt_hypothesis_needed` shows the hypotheses needed on concrete inputs (the witnesses of
  `C09_finding_ti_value_cut_to_32_bit`; the empty character constant `''`, which the code lays as the integer 0 —
  real binary: `byte 1,'',2` → 0001 0000 0002 — while a string without characters has no elements).
* `C09_finding_ti_value_cut_to_32_bit` — proved negation (known finding): with the 32-bit parameter `byte 100000001h`
  is laid as 0001 where the manual's range rule makes it an error; `long 100000000h` is laid as 0000 0000 by both
  versions of the code.
* `C09_ti_stmt_args_independent` — consequence: under the hypothesis a statement lays its arguments' elements one
  after the other in consecutive lanes; splitting the argument list over the same lanes changes nothing.

* `C09_ti_slot_model_eq_spec` — **the slot**: a list of DATA / STRING / RSTRING / BYTE / WORD / LONG statements laid one
  after the other from any address (what mode `c09t` compares per run): the (byte offset, byte) cells and the end
  address of the transcription (`modelRunT`: `DecodeDATA_TI` resp. `pseudo_store`, the cell buffer as bytes, `WriteBytes`
  with `DreheCodes`) are the manual's (unit offset, unit value) cells (`specRunT`), every 16-bit unit written as its
  two bytes at byte offset 2·unit (`unitCells`, `Lemmas/DataWord.lean`; low byte first unless `WriteBytes` turns
  them); an error in any statement voids the slot on both sides.  Hypothesis `stmtOKb` (`Model/DataTI.lean`): `tiArgOK` for
  the five statements, for DATA the argument forms of `C09_data_model_eq_spec`; mode `c09t` reports for every case
  whether it holds (`pre=`).

Nothing of `Model/DataTI.lean` is left that is only compared; the correspondence (mode `c09t`) ties the model to the binaries.
-/
namespace AslModel.C09
open AslModel.PFile (Byte b)
open AslModel.Data AslModel.DataModel AslModel.DataX AslModel.DataXModel
open AslModel.DataW AslModel.DataWModel AslModel.DataWLemmas AslModel.DataTI AslModel.DataTIModel AslModel.DataTILemmas

/-- **Each value occupies exactly its own lane** — the callbacks of `pseudo_store` (STRING, RSTRING, BYTE, WORD), every
history `es` of elements already stored (bytes below 256 for the byte statements), every 64-bit value `v`. -/
theorem C09_tistr_callback_lane (o : TIOp) (ho : o ≠ .long) (es : List Nat) (hes : ∀ y ∈ es, y < 256 ∨ o = .word) (v : Int) :
    callback o (layout o es, es.length) v =
      if inRange o.bits v then some (layout o (es ++ [twos o.bits v]), es.length + 1) else none :=
  callback_step o (by cases o <;> simp_all [Packed]) es hes v

example : callback .string (layout .string [1], 1) (-1) = some ([0x01ff], 2) := by decide
example : callback .rstring (layout .rstring [0x41, 0x80, 7], 3) (-128) = some ([0x8041, 0x8007], 4) := by decide
example : callback .string (layout .string [1], 1) 256 = none := by decide

/-- **The neighbour's lane is untouched**: first byte `b0`, then a value `v` of the accepted range -128…255: the word
holds `b0` in the half that was written first and `v mod 256` in the other one. -/
theorem C09_tistr_neighbour_untouched (b0 : Nat) (h0 : b0 < 256) (v : Int) (hv : -128 ≤ v ∧ v ≤ 255) :
    callback .string ([256 * b0], 1) v = some ([256 * b0 + twos 8 v], 2) ∧
    callback .rstring ([b0], 1) v = some ([b0 + 256 * twos 8 v], 2) ∧
    lanesHiLo [256 * b0 + twos 8 v] = [b0, twos 8 v] ∧ lanesLoHi [b0 + 256 * twos 8 v] = [b0, twos 8 v] := by
  have hr : inRange 8 v = true := by
    unfold inRange
    simp only [Int.reducePow, Nat.reduceSub, decide_eq_true_eq]
    omega
  have ht := twos8_lt v
  have hs := callback_step .string (by simp [Packed]) [b0] (by intro y hy; simp at hy; subst hy; exact Or.inl h0) v
  have hl := callback_step .rstring (by simp [Packed]) [b0] (by intro y hy; simp at hy; subst hy; exact Or.inl h0) v
  simp only [layout, packHiLo, packLoHi, List.length_cons, List.length_nil, TIOp.bits, hr, if_true, List.cons_append, List.nil_append] at hs hl
  refine ⟨hs, hl, ?_, ?_⟩
  · simp only [lanesHiLo]
    congr 1
    · omega
    · congr 1; omega
  · simp only [lanesLoHi]
    congr 1
    · omega
    · congr 1; omega

example : (-128 : Int) ≤ -1 ∧ (-1 : Int) ≤ 255 := by decide

/-- **Lanes read back**: every element of a packed sequence is found again in its own lane (one zero is appended for an
odd count), STRING and RSTRING order. -/
theorem C09_tistr_lanes_readback (es : List Nat) (hes : ∀ y ∈ es, y < 256) :
    lanesHiLo (packHiLo es) = es ++ List.replicate (es.length % 2) 0 ∧
    lanesLoHi (packLoHi es) = es ++ List.replicate (es.length % 2) 0 := by
  constructor
  · induction es using packHiLo.induct with
    | case1 b0 b1 r ih =>
      have h0 : b0 < 256 := hes b0 (by simp)
      have h1 : b1 < 256 := hes b1 (by simp)
      have e : (b0 :: b1 :: r).length % 2 = r.length % 2 := by simp only [List.length_cons]; omega
      simp only [packHiLo, lanesHiLo, ih (fun y hy => hes y (by simp [hy])), e, List.cons_append]
      have e1 : (256 * b0 + b1) / 256 = b0 := by omega
      have e2 : (256 * b0 + b1) % 256 = b1 := by omega
      rw [e1, e2]
    | case2 b0 =>
      have h0 : b0 < 256 := hes b0 (by simp)
      simp only [packHiLo, lanesHiLo, List.length_cons, List.length_nil]
      have e1 : 256 * b0 / 256 = b0 := by omega
      have e2 : 256 * b0 % 256 = 0 := by omega
      rw [e1, e2]
      rfl
    | case3 => rfl
  · induction es using packLoHi.induct with
    | case1 b0 b1 r ih =>
      have h0 : b0 < 256 := hes b0 (by simp)
      have h1 : b1 < 256 := hes b1 (by simp)
      have e : (b0 :: b1 :: r).length % 2 = r.length % 2 := by simp only [List.length_cons]; omega
      simp only [packLoHi, lanesLoHi, ih (fun y hy => hes y (by simp [hy])), e, List.cons_append]
      have e1 : (b0 + 256 * b1) / 256 = b1 := by omega
      have e2 : (b0 + 256 * b1) % 256 = b0 := by omega
      rw [e1, e2]
    | case2 b0 =>
      have h0 : b0 < 256 := hes b0 (by simp)
      simp only [packLoHi, lanesLoHi, List.length_cons, List.length_nil]
      have e1 : b0 / 256 = 0 := by omega
      have e2 : b0 % 256 = b0 := by omega
      rw [e1, e2]
      rfl
    | case3 => rfl

example : lanesHiLo (packHiLo [1, 0xff, 0x41]) = [1, 0xff, 0x41, 0] := by decide

/-- `string 1,-1` / `rstring 1,-1,-128,5` / `string "A",-128,7` as statements -/
example : decodeTI false .string tableInit [.int 1, .int (-1)] = some [0x01ff] ∧
    decodeTI true .rstring tableInit [.int 1, .int (-1), .int (-128), .int 5] = some [0xff01, 0x0580] ∧
    decodeTI false .string tableInit [.str [0x41], .int (-128), .int 7] = some [0x4180, 0x0700] := by decide
example : specTI .string identityMap [.int 1, .int (-1)] = some [0x01ff] ∧
    specTI .string identityMap [.str [0x41], .int (-128), .int 7] = some [0x4180, 0x0700] := by decide

/-! ## proved negation (known finding) -/

/-- Up to /repo commit 5ab0322 `pseudo_store` hands the value to its callbacks as a 32-bit `LongInt` (`cut = true`):
`byte 100000001h` lays 0001 where the manual's range rule makes the statement an error; since the repair
(`cut = false`) it is refused.  `long 100000000h` lays 0000 0000 in both versions (`wr_code_long` has no range check). -/
theorem C09_finding_ti_value_cut_to_32_bit :
    decodeTI true .byte tableInit [.int 0x100000001] = some [1] ∧ specTI .byte identityMap [.int 0x100000001] = none ∧
    decodeTI false .byte tableInit [.int 0x100000001] = none ∧
    (∀ cut, decodeTI cut .long tableInit [.int 0x100000000] = some [0, 0]) ∧ specTI .long identityMap [.int 0x100000000] = none := by
  decide

/-! ## the whole statement -/

/-- **MODEL = SPEC for the whole statement** — STRING, RSTRING, BYTE, WORD and LONG, every 256-entry character table,
every argument list: the transcription of `pseudo_store` with its callback lays exactly the manual's elements in the
manual's lanes, and is in error exactly when the manual says so. -/
theorem C09_ti_stmt_model_eq_spec (cut : Bool) (o : TIOp) (t : List Byte) (ht : t.length = 256) (as : List WArg)
    (ha : ∀ a ∈ as, tiArgOK cut o a = true) : decodeTI cut o t as = specTI o t as :=
  decodeTI_eq_spec cut o t ht as ha

example : ∀ a ∈ [WArg.str [0x41, 0x42, 0x43], .int (-128), .chr [0x61], .chr [0x61, 0x62], .int 0x100000100, .flt 0],
    tiArgOK true .rstring a = true := by decide
example : ∀ a ∈ [WArg.int 0xffffffff, .chr [0x61, 0x62, 0x63, 0x64], .str [0x41], .int (-0x80000000)], tiArgOK true .long a = true := by
  decide
example : decodeTI true .rstring tableInit [.str [0x41, 0x42, 0x43], .int (-128), .chr [0x61], .chr [0x61, 0x62]]
    = some [0x4241, 0x8043, 0x6161, 0x0062] := by decide
example : decodeTI true .long tableInit [.int 0xffffffff, .chr [0x61, 0x62, 0x63, 0x64], .str [0x41], .int (-0x80000000)]
    = some [0xffff, 0xffff, 0x6364, 0x6162, 0x41, 0, 0, 0x8000] := by decide

/-- the instance "integers in the 32-bit range, strings and non-empty character constants" (`tiArg32`, `Lemmas/DataTI.lean`) -/
theorem C09_ti_stmt_32bit (cut : Bool) (o : TIOp) (t : List Byte) (ht : t.length = 256) (as : List WArg)
    (ha : ∀ a ∈ as, tiArg32 a = true) : decodeTI cut o t as = specTI o t as := by
  apply decodeTI_eq_spec cut o t ht as
  intro a hmem
  have h := ha a hmem
  cases a with
  | int v =>
    simp only [tiArg32, decide_eq_true_eq] at h
    simp only [tiArgOK, Bool.and_eq_true, decide_eq_true_eq]
    refine ⟨?_, okCut_of_32bit cut o v h⟩
    simp only [Int.reducePow] at h ⊢
    omega
  | chr cs => exact h
  | str cs => rfl
  | flt x => rfl

example : ∀ a ∈ [WArg.int (-0x80000000), .int 0x7fffffff, .chr [0x61, 0x62], .str [1, 2, 3]], tiArg32 a = true := by decide

/-- **`okCut` is exact**: for every value the 64-bit evaluator can deliver, the statement with that one argument is laid
(or refused) as the manual says if and only if the value passes `okCut`. -/
theorem C09_ti_cut_hypothesis_exact (cut : Bool) (o : TIOp) (t : List Byte) (ht : t.length = 256) (v : Int)
    (hv : -(2 : Int) ^ 63 ≤ v ∧ v < (2 : Int) ^ 63) :
    decodeTI cut o t [.int v] = specTI o t [.int v] ↔ okCut cut o v = true := by
  constructor
  · intro h
    cases hc : okCut cut o v with
    | true => rfl
    | false =>
      have hx := int_stmt_cut cut o t t v hv hc
      rw [h, hx.2] at hx
      cases hx.1
  · intro hc
    apply decodeTI_eq_spec cut o t ht
    intro a hmem
    simp only [List.mem_cons, List.mem_nil_iff, or_false] at hmem
    subst hmem
    simp only [tiArgOK, Bool.and_eq_true, decide_eq_true_eq]
    exact ⟨hv, hc⟩

example : okCut true .word 0x10000ffff = false ∧ okCut true .word 0x100010000 = true ∧ okCut true .long 0xffffffff = true ∧
    okCut true .long 0x100000000 = false ∧ okCut true .byte 0xffffff80 = false ∧ okCut true .byte (-128) = true ∧
    okCut false .word 0x10000ffff = true ∧ okCut false .long 0x100000000 = false := by decide

/-- integers that are 64-bit values, single-quoted strings that are not empty -/
example : ∀ a ∈ [WArg.int 0x100000001, .int (-0x8000000000000000), .chr [0x61], .str [1, 2]], tiArg64 a = true := by decide

/-- **The repaired code range-checks the full-width value** (`cut = false`: the callbacks' parameter is `LargeInt val`,
/repo commit 5ab0322): STRING, RSTRING, BYTE and WORD with ANY 64-bit integers lay exactly the manual's elements and
are in error exactly when a value is outside `-2^(w-1) … 2^w-1` — `byte 100000001h`, `word 7fffffffffffffffh` included. -/
theorem C09_ti_full_width_range_check (o : TIOp) (ho : o ≠ .long) (t : List Byte) (ht : t.length = 256) (as : List WArg)
    (ha : ∀ a ∈ as, tiArg64 a = true) : decodeTI false o t as = specTI o t as := by
  apply decodeTI_eq_spec false o t ht as
  intro a hmem
  have h := ha a hmem
  cases a with
  | int v =>
    simp only [tiArg64] at h
    simp only [tiArgOK, Bool.and_eq_true]
    refine ⟨h, ?_⟩
    cases o with
    | long => exact absurd rfl ho
    | string | rstring | byte | word => rfl
  | chr cs => exact h
  | str cs => rfl
  | flt x => rfl

example : decodeTI false .byte tableInit [.int 0x100000001] = none ∧ decodeTI false .word tableInit [.int 0x7fffffffffffffff] = none ∧
    decodeTI false .string tableInit [.int 1, .int (-0xffffffff)] = none ∧ decodeTI false .byte tableInit [.int 255, .int (-128)] = some [0xff, 0x80] := by
  decide


/-- **both hypotheses of `C09_ti_stmt_model_eq_spec` are needed**: the witnesses of the open finding fail `okCut` and
the statement is laid where the manual says error; the empty character constant is laid as the integer 0. -/
theorem C09_ti_stmt_hypothesis_needed :
    (tiArgOK true .byte (.int 0x100000001) = false ∧
      decodeTI true .byte tableInit [.int 0x100000001] ≠ specTI .byte tableInit [.int 0x100000001]) ∧
    (∀ cut, tiArgOK cut .long (.int 0x100000000) = false ∧
      decodeTI cut .long tableInit [.int 0x100000000] ≠ specTI .long tableInit [.int 0x100000000]) ∧
    (∀ cut, tiArgOK cut .string (.chr []) = false ∧ decodeTI cut .string tableInit [.int 5, .chr [], .int 6] = some [0x0500, 0x0600] ∧
      specTI .string tableInit [.int 5, .chr [], .int 6] = some [0x0506]) := by
  have hf := C09_finding_ti_value_cut_to_32_bit
  have e : identityMap = tableInit := rfl
  rw [e] at hf
  refine ⟨⟨by decide, ?_⟩, ?_, by decide⟩
  · rw [hf.1, hf.2.1]; exact fun h => by cases h
  · intro cut
    refine ⟨by cases cut <;> decide, ?_⟩
    rw [hf.2.2.2.1 cut, hf.2.2.2.2]; exact fun h => by cases h

/-- **Arguments are independent and fill consecutive lanes**: the elements of `as ++ bs` are those of `as` followed by
those of `bs`; one statement with all arguments lays what the element sequence of the two halves prescribes. -/
theorem C09_ti_stmt_args_independent (cut : Bool) (o : TIOp) (t : List Byte) (ht : t.length = 256) (as bs : List WArg)
    (ha : ∀ a ∈ as, tiArgOK cut o a = true) (hb : ∀ a ∈ bs, tiArgOK cut o a = true) :
    decodeTI cut o t (as ++ bs) =
      match specElems o t as, specElems o t bs with
      | some x, some y => some (layout o (x ++ y))
      | _, _ => none := by
  rw [decodeTI_eq_spec cut o t ht (as ++ bs) (by
    intro a h
    rcases List.mem_append.mp h with h | h
    · exact ha a h
    · exact hb a h)]
  unfold specTI
  rw [specElems_append]
  cases specElems o t as <;> cases specElems o t bs <;> rfl

example : tableInit.length = 256 ∧ (∀ a ∈ [WArg.str [0x41]], tiArgOK false .string a = true) ∧
    (∀ a ∈ [WArg.int (-1), .str [0x42]], tiArgOK false .string a = true) := by decide +kernel
example : decodeTI false .string tableInit ([.str [0x41]] ++ [.int (-1), .str [0x42]]) = some [0x41ff, 0x4200] := by decide

/-! ## the slot -/

/-- **MODEL = SPEC for a slot of statements** (TMS3202x/5x/54x: `DecodeDATA_TI` = `DecodeDATA(Int16, Int16)`, 16-bit
units, two bytes per unit in the code file), every start address, listing granularity and `TurnWords` setting, every
256-entry character table, every statement list over the stated argument forms. -/
theorem C09_ti_slot_model_eq_spec (cut : Bool) (t : List Byte) (ht : t.length = 256) (lg : Nat) (turn : Bool) (stmts : List TIStmt)
    (h : ∀ st ∈ stmts, stmtOKb cut st = true) (pc : Nat) :
    (mkCtx Generated.itInt16 t).bind (fun d => modelRunT cut d 2 lg turn pc stmts) =
      (specRunT ⟨16, .twoPerWord, t⟩ pc stmts).map fun r => (unitCells (swapOf lg turn) r.1, r.2) :=
  slot_eq_spec cut t ht lg turn stmts (fun st hst => stmtOKb_ok cut st (h st hst)) pc

example : ∀ st ∈ [TIStmt.ti .string [.str [0x41, 0x42, 0x43], .int (-1)], .data [.int (-2), .str [0x61]], .ti .long [.int 0x12345678]],
    stmtOKb true st = true := by decide
example : (mkCtx Generated.itInt16 tableInit).bind (fun d => modelRunT true d 2 2 false 16
      [.ti .string [.str [0x41, 0x42, 0x43], .int (-1)], .data [.int (-2), .str [0x61]], .ti .long [.int 0x12345678]]) =
    some ([(32, 0x42), (33, 0x41), (34, 0xff), (35, 0x43), (36, 0xfe), (37, 0xff), (38, 0x61), (39, 0),
           (40, 0x78), (41, 0x56), (42, 0x34), (43, 0x12)], 22) := by decide
example : specRunT ⟨16, .twoPerWord, tableInit⟩ 16
      [.ti .string [.str [0x41, 0x42, 0x43], .int (-1)], .data [.int (-2), .str [0x61]], .ti .long [.int 0x12345678]] =
    some ([(16, 0x4142), (17, 0x43ff), (18, 0xfffe), (19, 0x61), (20, 0x5678), (21, 0x1234)], 22) := by decide

end AslModel.C09
