import AslModel.Lemmas.DataTI
/-!
# C09 — STRING / RSTRING / BYTE / WORD (LONG) of the TMS3202x / 3205x / 3254x: every element in its own lane

Property theorems only (helper lemmas: `Lemmas/DataTI.lean`).  Model: `Model/DataTI.lean` (transcription of
`tipseudo.c` `pseudo_store` and its callbacks `wr_code_byte_hilo`, `wr_code_byte_lohi`, `wr_code_byte`,
`wr_code_word`, `wr_code_long`).  Spec: `Spec/DataTI.lean` (the manual's *STRING and RSTRING*, *BYTE*, *WORD*, *LONG*).

* `C09_tistr_callback_lane` — the step of the transcribed callbacks, for EVERY history: when the cells hold the packed
  image of the elements stored so far, a value inside the element's range adds exactly its own two's-complement
  residue as the next element of the image (for STRING / RSTRING: into the free half of the last word, or into a new
  word whose other half is zero) — all earlier elements, in particular the neighbour that shares the word, stay as
  they are; a value outside the range is refused.
* `C09_tistr_neighbour_untouched` — the instance the packing is about: a second byte `v ∈ -128…255` next to a first
  byte `b0`: the word reads back as (`b0`, `v mod 256`) for STRING and RSTRING.
* `C09_tistr_lanes_readback` — specification side: reading the lanes of a packed sequence back gives every element
  again (plus one zero for an odd count), whatever its neighbours are.
* `C09_finding_ti_value_cut_to_32_bit` — proved negation (known finding): the callbacks receive the value through a
  32-bit parameter, `byte 100000001h` is laid as 0001 where the manual's range rule makes it an error.

Not yet a theorem (tested by the correspondence on every run, mode `c09t`): the whole-statement equality
`decodeTI o t as = specTI o t as` for `o ≠ LONG`, tables of 256 entries and arguments whose integers are 32-bit values
(it follows from `C09_tistr_callback_lane` by induction over the values an argument hands to the callback; the link
`argVals` ↔ `specArgE` for character constants is the missing part); LONG (no range check in the code: equality
holds for 32-bit values only); the slot layout `modelRunT`.
-/
namespace AslModel.C09
open AslModel.PFile (Byte b)
open AslModel.Data AslModel.DataModel AslModel.DataX AslModel.DataXModel
open AslModel.DataW AslModel.DataWModel AslModel.DataTI AslModel.DataTIModel AslModel.DataTILemmas

/-- **Each value occupies exactly its own lane** — the callbacks of `pseudo_store` (STRING, RSTRING, BYTE, WORD), every
history `es` of elements already stored (bytes below 256 for the byte statements), every 64-bit value `v`. -/
theorem C09_tistr_callback_lane (o : TIOp) (ho : o ≠ .long) (es : List Nat) (hes : ∀ y ∈ es, y < 256 ∨ o = .word) (v : Int) :
    callback o (layout o es, es.length) v =
      if inRange o.bits v then some (layout o (es ++ [twos o.bits v]), es.length + 1) else none :=
  callback_step o (by cases o <;> simp_all [Packed]) es hes v

example : callback .string (layout .string [1], 1) (-1) = some ([0x01ff], 2) := by decide
example : callback .rstring (layout .rstring [0x41, 0x80, 7], 3) (-128) = some ([0x8041, 0x8007], 4) := by decide
example : callback .string (layout .string [1], 1) 256 = none := by decide

/-- **The neighbour's lane is untouched**: first byte `b0`, then a value `v` of the accepted range -128…255: the word
holds `b0` in the half that was written first and `v mod 256` in the other one. -/
theorem C09_tistr_neighbour_untouched (b0 : Nat) (h0 : b0 < 256) (v : Int) (hv : -128 ≤ v ∧ v ≤ 255) :
    callback .string ([256 * b0], 1) v = some ([256 * b0 + twos 8 v], 2) ∧
    callback .rstring ([b0], 1) v = some ([b0 + 256 * twos 8 v], 2) ∧
    lanesHiLo [256 * b0 + twos 8 v] = [b0, twos 8 v] ∧ lanesLoHi [b0 + 256 * twos 8 v] = [b0, twos 8 v] := by
  have hr : inRange 8 v = true := by
    unfold inRange
    simp only [Int.reducePow, Nat.reduceSub, decide_eq_true_eq]
    omega
  have ht := twos8_lt v
  have hs := callback_step .string (by simp [Packed]) [b0] (by intro y hy; simp at hy; subst hy; exact Or.inl h0) v
  have hl := callback_step .rstring (by simp [Packed]) [b0] (by intro y hy; simp at hy; subst hy; exact Or.inl h0) v
  simp only [layout, packHiLo, packLoHi, List.length_cons, List.length_nil, TIOp.bits, hr, if_true, List.cons_append, List.nil_append] at hs hl
  refine ⟨hs, hl, ?_, ?_⟩
  · simp only [lanesHiLo]
    congr 1
    · omega
    · congr 1; omega
  · simp only [lanesLoHi]
    congr 1
    · omega
    · congr 1; omega

example : (-128 : Int) ≤ -1 ∧ (-1 : Int) ≤ 255 := by decide

/-- **Lanes read back**: every element of a packed sequence is found again in its own lane (one zero is appended for an
odd count), STRING and RSTRING order. -/
theorem C09_tistr_lanes_readback (es : List Nat) (hes : ∀ y ∈ es, y < 256) :
    lanesHiLo (packHiLo es) = es ++ List.replicate (es.length % 2) 0 ∧
    lanesLoHi (packLoHi es) = es ++ List.replicate (es.length % 2) 0 := by
  constructor
  · induction es using packHiLo.induct with
    | case1 b0 b1 r ih =>
      have h0 : b0 < 256 := hes b0 (by simp)
      have h1 : b1 < 256 := hes b1 (by simp)
      have e : (b0 :: b1 :: r).length % 2 = r.length % 2 := by simp only [List.length_cons]; omega
      simp only [packHiLo, lanesHiLo, ih (fun y hy => hes y (by simp [hy])), e, List.cons_append]
      have e1 : (256 * b0 + b1) / 256 = b0 := by omega
      have e2 : (256 * b0 + b1) % 256 = b1 := by omega
      rw [e1, e2]
    | case2 b0 =>
      have h0 : b0 < 256 := hes b0 (by simp)
      simp only [packHiLo, lanesHiLo, List.length_cons, List.length_nil]
      have e1 : 256 * b0 / 256 = b0 := by omega
      have e2 : 256 * b0 % 256 = 0 := by omega
      rw [e1, e2]
      rfl
    | case3 => rfl
  · induction es using packLoHi.induct with
    | case1 b0 b1 r ih =>
      have h0 : b0 < 256 := hes b0 (by simp)
      have h1 : b1 < 256 := hes b1 (by simp)
      have e : (b0 :: b1 :: r).length % 2 = r.length % 2 := by simp only [List.length_cons]; omega
      simp only [packLoHi, lanesLoHi, ih (fun y hy => hes y (by simp [hy])), e, List.cons_append]
      have e1 : (b0 + 256 * b1) / 256 = b1 := by omega
      have e2 : (b0 + 256 * b1) % 256 = b0 := by omega
      rw [e1, e2]
    | case2 b0 =>
      have h0 : b0 < 256 := hes b0 (by simp)
      simp only [packLoHi, lanesLoHi, List.length_cons, List.length_nil]
      have e1 : b0 / 256 = 0 := by omega
      have e2 : b0 % 256 = b0 := by omega
      rw [e1, e2]
      rfl
    | case3 => rfl

example : lanesHiLo (packHiLo [1, 0xff, 0x41]) = [1, 0xff, 0x41, 0] := by decide

/-- `string 1,-1` / `rstring 1,-1,-128,5` / `string "A",-128,7` as statements -/
example : decodeTI .string tableInit [.int 1, .int (-1)] = some [0x01ff] ∧
    decodeTI .rstring tableInit [.int 1, .int (-1), .int (-128), .int 5] = some [0xff01, 0x0580] ∧
    decodeTI .string tableInit [.str [0x41], .int (-128), .int 7] = some [0x4180, 0x0700] := by decide
example : specTI .string identityMap [.int 1, .int (-1)] = some [0x01ff] ∧
    specTI .string identityMap [.str [0x41], .int (-128), .int 7] = some [0x4180, 0x0700] := by decide

/-! ## proved negation (known finding) -/

/-- `pseudo_store` hands the value to its callbacks as a 32-bit `LongInt`: `byte 100000001h` lays 0001 and
`long 100000000h` lays 0000 0000, where the manual's range rule makes both statements errors. -/
theorem C09_finding_ti_value_cut_to_32_bit :
    decodeTI .byte tableInit [.int 0x100000001] = some [1] ∧ specTI .byte identityMap [.int 0x100000001] = none ∧
    decodeTI .long tableInit [.int 0x100000000] = some [0, 0] ∧ specTI .long identityMap [.int 0x100000000] = none := by
  decide

end AslModel.C09
