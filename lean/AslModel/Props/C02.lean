import AslModel.Model.ErrCount
/-!
# C02 — exit status, code file and reported errors always agree

For **all** diagnostic sequences, all file lists and all option records.  The counters have the
C width `c.width` (regenerated from `asmerr.c`); the theorems that need "the counter did not wrap"
carry that as the explicit hypothesis `Fits` – and `C02_bound_is_necessary` shows it cannot be
dropped: `2^width` errors give status 0.  Whether the bound is reachable in practice is decided by
the width: 16 bits ⇒ a 65536-line source (a genuine defect), 32 bits ⇒ 2^32 diagnostics.
-/
namespace AslModel.C02
open AslModel.ErrCount

/-- the counters are the printed counts modulo `2^width` -/
structure Inv (c : Cfg) (s : FileSt) : Prop where
  err : s.errCnt = s.printedErr % 2 ^ c.width
  warn : s.warnCnt = s.printedWarn % 2 ^ c.width

theorem countError_inv (c : Cfg) (s : FileSt) (h : Inv c s) : Inv c (countError c s) :=
  ⟨by simp [countError, h.err, Nat.add_mod], h.warn⟩

theorem countWarning_inv (c : Cfg) (s : FileSt) (h : Inv c s) : Inv c (countWarning c s) := by
  unfold countWarning; split
  · exact countError_inv c s h
  · exact ⟨h.err, by simp [h.warn, Nat.add_mod]⟩

theorem step_inv (c : Cfg) (s : FileSt) (d : Diag) (h : Inv c s) : Inv c (stepDiag c s d) := by
  unfold stepDiag
  split
  · exact h
  · cases d <;> simp only
    · split
      · exact h
      · exact countWarning_inv c s h
    · exact countWarning_inv c s h
    · exact countError_inv c s h
    · exact ⟨by simp [h.err, Nat.add_mod], h.warn⟩

theorem foldl_inv (c : Cfg) (ds : List Diag) (s : FileSt) (h : Inv c s) : Inv c (ds.foldl (stepDiag c) s) := by
  induction ds generalizing s with
  | nil => exact h
  | cons d ds ih => exact ih _ (step_inv c s d h)

theorem run_inv (c : Cfg) (ds : List Diag) : Inv c (runFile c ds) :=
  foldl_inv c ds {} ⟨by simp, by simp⟩

/-- the number of error-class / warning-class messages of a file stays below the counter range -/
def Fits (c : Cfg) (ds : List Diag) : Prop :=
  (runFile c ds).printedErr < 2 ^ c.width ∧ (runFile c ds).printedWarn < 2 ^ c.width

/-- **Summary totals = diagnostics emitted** (per file, last pass), while the counters fit. -/
theorem C02_summary_counts (c : Cfg) (ds : List Diag) (hf : Fits c ds) :
    (fileOut (runFile c ds)).sumErr = (fileOut (runFile c ds)).printedErr ∧
    (fileOut (runFile c ds)).sumWarn = (fileOut (runFile c ds)).printedWarn := by
  have h := run_inv c ds
  simp only [fileOut]
  exact ⟨by rw [h.err, Nat.mod_eq_of_lt hf.1], by rw [h.warn, Nat.mod_eq_of_lt hf.2]⟩

/-- **Code file ⇔ no error** for one file: a code file is left exactly when no error-class
message was printed (and the run was not ended by a fatal error). -/
theorem C02_codefile_iff (c : Cfg) (ds : List Diag) (hf : Fits c ds) :
    (fileOut (runFile c ds)).codeFile = true ↔
      ((runFile c ds).printedErr = 0 ∧ (runFile c ds).fatal = false) := by
  have h := run_inv c ds
  simp only [fileOut, Bool.and_eq_true, Bool.not_eq_true', beq_iff_eq]
  rw [h.err, Nat.mod_eq_of_lt hf.1]
  constructor
  · intro ⟨a, b⟩; exact ⟨b, a⟩
  · intro ⟨a, b⟩; exact ⟨b, a⟩

theorem countError_printed (c : Cfg) (s : FileSt) : 0 < (countError c s).printedErr := by simp [countError]

theorem countWarning_fatal (c : Cfg) (s : FileSt) (hs : s.fatal = true → 0 < s.printedErr) :
    (countWarning c s).fatal = true → 0 < (countWarning c s).printedErr := by
  unfold countWarning; split
  · intro _; exact countError_printed c s
  · exact hs

/-- a fatal stop always printed at least one error-class message -/
theorem fatal_printed (c : Cfg) (ds : List Diag) (s : FileSt) (hs : s.fatal = true → 0 < s.printedErr) :
    (ds.foldl (stepDiag c) s).fatal = true → 0 < (ds.foldl (stepDiag c) s).printedErr := by
  induction ds generalizing s with
  | nil => exact hs
  | cons d ds ih =>
    apply ih
    unfold stepDiag
    split
    · exact hs
    · cases d <;> simp only
      · split
        · exact hs
        · exact countWarning_fatal c s hs
      · exact countWarning_fatal c s hs
      · intro _; exact countError_printed c s
      · intro _; simp

/-- **Exit status**: for every list of files whose diagnostics fit the counters, the status is 0
exactly when no error-class message was printed for any file, and then every file has its code file. -/
theorem C02_status_iff (c : Cfg) (files : List (List Diag)) (hf : ∀ f ∈ files, Fits c f) (glob : Bool) :
    (runFiles c files glob).2 = 0 ↔
      (glob = false ∧ ∀ o ∈ (runFiles c files glob).1, o.printedErr = 0 ∧ o.codeFile = true) := by
  induction files generalizing glob with
  | nil => cases glob <;> simp [runFiles]
  | cons f fs ih =>
    have hff := hf f (by simp)
    have hinv := run_inv c f
    have herr : (runFile c f).errCnt = (runFile c f).printedErr := by
      rw [hinv.err, Nat.mod_eq_of_lt hff.1]
    simp only [runFiles]
    by_cases hfat : (runFile c f).fatal = true
    · simp only [hfat, if_true]
      have hp : 0 < (runFile c f).printedErr := fatal_printed c f {} (by simp) hfat
      simp [fileOut]
      try (intro _; omega)
    · simp only [hfat, Bool.false_eq_true, if_false]
      have ih' := ih (fun g hg => hf g (by simp [hg])) (glob || (runFile c f).errCnt != 0)
      rw [ih']
      simp only [Bool.not_eq_true] at hfat
      constructor
      · intro ⟨hg, hall⟩
        simp only [Bool.or_eq_false_iff, bne_eq_false_iff_eq] at hg
        refine ⟨hg.1, ?_⟩
        intro o ho
        simp only [List.mem_cons] at ho
        rcases ho with rfl | ho
        · simp [fileOut, hfat, hg.2, ← herr]
        · exact hall o ho
      · intro ⟨hg, hall⟩
        have h0 := hall (fileOut (runFile c f)) (by simp)
        simp only [fileOut] at h0
        refine ⟨by simp [hg, herr, h0.1], ?_⟩
        intro o ho
        exact hall o (by simp [ho])

/-- the status is one of the documented codes -/
theorem C02_status_range (c : Cfg) (files : List (List Diag)) (glob : Bool) :
    (runFiles c files glob).2 = 0 ∨ (runFiles c files glob).2 = 2 ∨ (runFiles c files glob).2 = 3 := by
  induction files generalizing glob with
  | nil => simp [runFiles]; cases glob <;> simp
  | cons f fs ih =>
    simp only [runFiles]
    split
    · simp
    · exact ih _

/-- a fatal diagnostic (or reaching `-maxerrors`) in any processed file gives status 3 -/
theorem C02_fatal_status (c : Cfg) (files : List (List Diag)) (glob : Bool)
    (h : ∃ o ∈ (runFiles c files glob).1, o.fatal = true) : (runFiles c files glob).2 = 3 := by
  induction files generalizing glob with
  | nil => simp [runFiles] at h
  | cons f fs ih =>
    simp only [runFiles] at h ⊢
    split
    · rfl
    · rename_i hfat
      simp only [hfat, Bool.false_eq_true, if_false] at h
      obtain ⟨o, ho, hof⟩ := h
      simp only [List.mem_cons] at ho
      rcases ho with rfl | ho
      · simp [fileOut] at hof; exact absurd hof hfat
      · exact ih _ ⟨o, ho, hof⟩

/-- **Warnings alone never change status or code file** unless `-Werror` is given. -/
theorem C02_warnings_harmless (c : Cfg) (hw : c.werror = false) (ds : List Diag)
    (hall : ∀ d ∈ ds, d = Diag.warning ∨ d = Diag.uwarning) :
    (runFile c ds).errCnt = 0 ∧ (runFile c ds).fatal = false ∧ (runFile c ds).printedErr = 0 := by
  suffices h : ∀ s : FileSt, s.errCnt = 0 ∧ s.fatal = false ∧ s.printedErr = 0 →
      (ds.foldl (stepDiag c) s).errCnt = 0 ∧ (ds.foldl (stepDiag c) s).fatal = false ∧ (ds.foldl (stepDiag c) s).printedErr = 0 from
    h {} ⟨rfl, rfl, rfl⟩
  induction ds with
  | nil => intro s hs; exact hs
  | cons d ds ih =>
    intro s hs
    have hd := hall d (by simp)
    apply ih (fun d hd => hall d (by simp [hd]))
    have hcw : (countWarning c s).errCnt = 0 ∧ (countWarning c s).fatal = false ∧ (countWarning c s).printedErr = 0 := by
      unfold countWarning; simp only [hw, Bool.false_eq_true, if_false]; exact ⟨hs.1, hs.2.1, hs.2.2⟩
    rcases hd with rfl | rfl
    · unfold stepDiag
      simp only [hs.2.1, Bool.false_eq_true, if_false]
      split
      · exact hs
      · exact hcw
    · unfold stepDiag
      simp only [hs.2.1, Bool.false_eq_true, if_false]
      exact hcw

/-- The `Fits` hypothesis cannot be dropped: `2^width` plain errors in one file are all printed,
yet the summary says 0 errors, the code file stays and the status is 0. -/
theorem C02_bound_is_necessary (w : Nat) :
    let c : Cfg := { width := w }
    let s := runFile c (List.replicate (2 ^ w) Diag.error)
    s.printedErr = 2 ^ w ∧ (fileOut s).codeFile = true ∧ (invoke c [List.replicate (2 ^ w) Diag.error]).2 = 0 := by
  intro c s
  have key : ∀ (n : Nat) (t : FileSt), t.fatal = false →
      ((List.replicate n Diag.error).foldl (stepDiag c) t).fatal = false ∧
      ((List.replicate n Diag.error).foldl (stepDiag c) t).printedErr = t.printedErr + n := by
    intro n
    induction n with
    | zero => intro t ht; exact ⟨ht, rfl⟩
    | succ n ih =>
      intro t ht
      simp only [List.replicate_succ, List.foldl_cons]
      have hstep : (stepDiag c t Diag.error).fatal = false ∧ (stepDiag c t Diag.error).printedErr = t.printedErr + 1 := by
        unfold stepDiag countError; simp [ht, c]
      have := ih _ hstep.1
      exact ⟨this.1, by rw [this.2, hstep.2]; omega⟩
  have hk := key (2 ^ w) {} rfl
  have hinv := run_inv c (List.replicate (2 ^ w) Diag.error)
  have hp : s.printedErr = 2 ^ w := by simpa [s, runFile] using hk.2
  have hf : s.fatal = false := hk.1
  have he : s.errCnt = 0 := by
    have := hinv.err
    simp only [s] at hp ⊢
    rw [this, hp]; simp [c]
  refine ⟨hp, by simp [fileOut, hf, he], ?_⟩
  simp only [invoke, runFiles]
  have hf' : (runFile c (List.replicate (2 ^ w) Diag.error)).fatal = false := hf
  have he' : (runFile c (List.replicate (2 ^ w) Diag.error)).errCnt = 0 := he
  simp [hf', he']

/-! Non-vacuity -/
example : Fits {} [Diag.warning, Diag.error, Diag.warning] := by unfold Fits; decide
example : (invoke {} [[Diag.warning], [Diag.error], []]).2 = 2 := by decide
example : (invoke { maxErrors := 2 } [[Diag.error, Diag.error, Diag.error]]).2 = 3 := by decide

end AslModel.C02
