import AslModel.Lemmas.LineInfo
/-!
# C19 (source positions) — each line:address record names a source line whose code starts at that address

Property theorems only (helper lemmas: `Lemmas/LineInfo.lean`).

SPEC: `Spec/LineInfo.lean` — for a program given as a nesting tree (main file, include files, macro calls,
REPT/IRP/IRPN/IRPC/WHILE blocks, continuation lines) `spec` computes structurally the file being read and the admissible
lines of every executed code statement; `judge` joins debug-file records (sorted by address) with them.
MODEL: `Model/LineInfo.lean` — the machine of `as.c` that produces what `BookKeeping` hands to `AddLineInfo`:
`MomLineCounter`, `CurrLine`, `CurrFileName`, `GenerateProcessor` (`StartLine`, `FromFile`), `AddBodyLine` (`LineNums`: the
source line offset stored with every body line of a REPT/IRP/IRPC/WHILE block), the `*_Processor` line arithmetic,
`ExpandINCLUDE_Core` / `INCLUDE_Restorer`; `asmfnums.c AddFile/GetFileNum`.

The theorems hold for **every** nesting tree; the only hypothesis, `bodyWf`, says that the tree describes a program: a
logical line occupies at least one physical line (`phys ≥ 1`).

`modelEntries` are the (file, line, address) records the machine produces for a program whose code statements store
`stmtBytes id` contiguously from `org` on.
-/
namespace AslModel.C19
open AslModel.Pos AslModel.LineInfo

/-- the records `AddLineInfo` is handed in a pass over the program, with the statements' start addresses -/
def modelEntries (org : Nat) (name : String) (b : Body) : List Entry :=
  (recAddrs lenOf org (run name b)).map toEntry

/-- **Positions.**  For every program (any nesting of include files — also included repeatedly or with equal base names —,
macro calls and REPT/IRP/IRPN/IRPC/WHILE blocks with any iteration counts, INCLUDE statements inside block and macro
bodies, continuation lines anywhere — also inside block bodies) the machine hands `AddLineInfo`, for every executed code statement and
in execution order, the statement's start address, the file whose text is being read, and a line of that file which is
one of the statement's own physical lines or the line of a statement of that file enclosing it (macro call, opening
line of a block). -/
theorem C19_lines_positions (name : String) (org : Nat) (b : Body) (h : bodyWf b = true) :
    judge (modelEntries org name b) (layout org (spec name b)) = true := by
  unfold modelEntries
  rw [run_eq_real]
  exact judge_of_agree _ _ org (realBody_adm b name 0 (.phys 0) (some 0) [] rfl trivial h)

/-- **Physical position.**  Where the text of the statement stands in the file being read — no macro call and no block
inside a block on the way (include files at any depth, INCLUDE inside block bodies, code after the blocks, continuation
lines anywhere, also in front of the statement inside a block body) — the recorded line is one of the statement's own physical lines (the last one, for a statement written with continuation
lines), in the file that contains it. -/
theorem C19_lines_exact (name : String) (org : Nat) (b : Body) (h : bodyWf b = true) (hd : bodyDirect b = true) :
    judgeX (modelEntries org name b) (layout org (spec name b)) = true := by
  unfold modelEntries
  rw [run_eq_real]
  exact judgeX_of_agreeX _ _ org (realBody_exact b name 0 (.phys 0) (some 0) [] rfl hd trivial h)

/-- the program of the C19-e demonstration: `db` (line 3), `rept 2` (4) … `db` (5), `include "body.inc"` (6), `db` (7),
`endm` (8), then `db` lines 9, 10, 11; body.inc has two `db` lines -/
def demoE : Body :=
  .cons (.plain 1) (.cons (.plain 1) (.cons (.fault 1 11)
    (.cons (.rept 2 (.cons (.fault 1 21) (.cons (.incl "body.inc" (.cons (.fault 1 31) (.cons (.fault 1 32) .nil))) (.cons (.fault 1 22) .nil))))
      (.cons (.fault 1 41) (.cons (.fault 1 42) (.cons (.fault 1 43) .nil))))))

/-- non-vacuity: the demonstration program is well-formed and direct; the lines after the block are 9, 10, 11 -/
example : bodyWf demoE = true ∧ bodyDirect demoE = true ∧
    (modelEntries 256 "main.asm" demoE).map (fun e => (e.file, e.line)) =
      [("main.asm", 3), ("main.asm", 5), ("body.inc", 1), ("body.inc", 2), ("main.asm", 7),
       ("main.asm", 5), ("body.inc", 1), ("body.inc", 2), ("main.asm", 7), ("main.asm", 9), ("main.asm", 10), ("main.asm", 11)] := by
  decide

/-- non-vacuity of `C19_lines_positions` beyond `C19_lines_exact`: a macro whose body holds a block and an INCLUDE, called
from a block body; the records name the call line 4 resp. the include file's own lines -/
example :
    let mb : Body := .cons (.fault 1 1) (.cons (.rept 2 (.cons (.fault 1 2) .nil)) (.cons (.incl "d/t.inc" (.cons (.plain 2) (.cons (.fault 1 3) .nil))) .nil))
    let b : Body := .cons (.plain 1) (.cons (.plain 1) (.cons (.irpc "ab".toList (.cons (.call "M" mb) .nil)) (.cons (.fault 2 4) .nil)))
    bodyWf b = true ∧ bodyDirect b = false ∧
    (modelEntries 0 "m.asm" b).map (fun e => (e.file, e.line)) =
      [("m.asm", 4), ("m.asm", 4), ("m.asm", 4), ("d/t.inc", 3), ("m.asm", 4), ("m.asm", 4), ("m.asm", 4), ("d/t.inc", 3), ("m.asm", 7)] := by
  decide

/-- **File numbers.**  `AddFile` / `GetFileNum` compare complete names: two different files of the list — equal base
names in different directories included — have different numbers, and `GetFileName` gives back the name (so the `File`
blocks of the MAP, the NoICE `FILE` records and the Atmel file indices keep them apart). -/
theorem C19_lines_file_numbers (fs : List String) (f g : String) (hf : f ∈ fs) :
    fs.getD (fileNum fs f) "" = f ∧ (fileNum fs f = fileNum fs g → f = g) := by
  induction fs with
  | nil => cases hf
  | cons x xs ih =>
    unfold fileNum at *
    by_cases hxf : x = f
    · subst hxf
      refine ⟨by simp, ?_⟩
      intro h
      by_cases hxg : x = g
      · exact hxg
      · have hb : (x == g) = false := by simpa using hxg
        simp [List.idxOf_cons, hb] at h
    · have hb : (x == f) = false := by simpa using hxf
      have hf' : f ∈ xs := by
        cases hf with
        | head => exact absurd rfl hxf
        | tail _ h => exact h
      obtain ⟨h1, h2⟩ := ih hf'
      refine ⟨by simpa [List.idxOf_cons, hb] using h1, ?_⟩
      intro h
      by_cases hxg : x = g
      · have hb2 : (x == g) = true := by simpa using hxg
        simp [List.idxOf_cons, hb, hb2] at h
      · have hb2 : (x == g) = false := by simpa using hxg
        simp [List.idxOf_cons, hb, hb2] at h
        exact h2 h

/-- every file an INCLUDE opens, and the main file, is in the file list (so `C19_lines_file_numbers` applies to every
record's file) -/
theorem C19_lines_files_listed (name : String) (evs : List Ev) :
    name ∈ fileList name evs ∧ ∀ f, Ev.opn f ∈ evs → f ∈ fileList name evs := by
  unfold fileList
  suffices h : ∀ (evs : List Ev) (fs : List String),
      (∀ x ∈ fs, x ∈ evs.foldl (fun fs e => match e with | .opn f => addFile fs f | .stmt _ _ _ => fs) fs) ∧
      ∀ f, Ev.opn f ∈ evs → f ∈ evs.foldl (fun fs e => match e with | .opn f => addFile fs f | .stmt _ _ _ => fs) fs by
    exact ⟨(h evs [name]).1 name (by simp), (h evs [name]).2⟩
  intro evs
  induction evs with
  | nil => intro fs; exact ⟨fun x hx => hx, fun f hf => by cases hf⟩
  | cons e es ih =>
    intro fs
    cases e with
    | stmt a l i =>
      simp only [List.foldl_cons]
      refine ⟨(ih fs).1, ?_⟩
      intro f hf
      cases hf with
      | tail _ h => exact (ih fs).2 f h
    | opn a =>
      simp only [List.foldl_cons]
      have hsub : ∀ x ∈ fs, x ∈ addFile fs a := by
        intro x hx
        unfold addFile
        split
        · exact hx
        · exact List.mem_append_left _ hx
      have ha : a ∈ addFile fs a := by
        unfold addFile
        split
        · rename_i h; simpa using h
        · simp
      refine ⟨fun x hx => (ih _).1 x (hsub x hx), ?_⟩
      intro f hf
      cases hf with
      | head => exact (ih _).1 a ha
      | tail _ h => exact (ih _).2 f h

/-- the program of the (repaired) finding `loop-body-line-after-continuation-line`: `rept 2` (line 3) / `db …\` + `…`
(lines 4–5) / `db` (6) / `db` (7) / `endm` -/
def contInBlock : Body :=
  .cons (.plain 1) (.cons (.plain 1) (.cons (.rept 2 (.cons (.fault 2 1) (.cons (.fault 1 2) (.cons (.fault 1 3) .nil)))) .nil))

/-- **Continuation line inside a block body** (was `C19_finding_lines_continuation_in_block`: the machine numbered replayed
body lines `StartLine + LineZ` by *logical* lines — 4, 5, 6 — and failed the join).  With the offsets `AddBodyLine` stores
the three statements are recorded, in both passes, at their physical lines 5 (the last line of the continued statement),
6 and 7, and the records pass the SPEC's join in the exact reading. -/
theorem C19_lines_continuation_in_block :
    (modelEntries 256 "w.asm" contInBlock).map (fun e => e.line) = [5, 6, 7, 5, 6, 7] ∧
    judgeX (modelEntries 256 "w.asm" contInBlock) (layout 256 (spec "w.asm" contInBlock)) = true := by
  decide

/-- non-vacuity of `C19_lines_positions` / `C19_lines_exact` for continuation lines inside block bodies of every kind, with
an INCLUDE between them and a continued line as the last body line; the block's tag stores the offsets 2, 3, 5 (IRP) -/
example :
    let inc : Body := .cons (.fault 3 7) (.cons (.fault 1 8) .nil)
    let b : Body := .cons (.plain 2) (.cons (.irp 0 ["A", "B"] (.cons (.fault 2 1) (.cons (.incl "i.inc" inc) (.cons (.fault 2 2) .nil))))
      (.cons (.while_ 1 (.cons (.plain 3) (.cons (.fault 1 3) .nil))) (.cons (.fault 1 4) .nil)))
    bodyWf b = true ∧ bodyDirect b = true ∧
    (modelEntries 0 "m.asm" b).map (fun e => (e.file, e.line)) =
      [("m.asm", 5), ("i.inc", 3), ("i.inc", 4), ("m.asm", 8), ("m.asm", 5), ("i.inc", 3), ("i.inc", 4), ("m.asm", 8),
       ("m.asm", 14), ("m.asm", 16)] := by
  decide

end AslModel.C19
