import AslModel.Lemmas.Files
import AslModel.Model.FilesGen
/-!
# C18 — files assembled in one invocation do not influence each other

Property theorems only.  Model: `Model/Files.lean` (file loop of `main`, pass loop of `AssembleFile`,
`AssembleFile_InitPass`/`InitPass()`, `SetCPUCore`/`SwitchTo_*`, ASSUME / ON-OFF / CPU-argument statements,
`AssembleFile_ExitPass`) with the reset behaviour of every statement-settable variable as *data*
regenerated from the C sources (`Generated/GenState.lean`).  Spec: `Spec/Files.lean`.

The theorems quantify over every list of files, every statement list, every number of forced passes and every
state left behind by predecessors (`Carry`) – no bound.
-/
namespace AslModel.C18
open AslModel.Files AslModel.FilesSpec AslModel.Generated

/-- **The result of a file does not depend on what was assembled before it**, whatever state the predecessors
left (`c1`, `c2` arbitrary, including open-construct stacks of a failing file), provided every variable an
instruction of the file reads is reset per pass or per target selection. -/
theorem C18_carry_irrelevant (sp : SpecT) (dcpu : Nat) (c1 c2 : Carry) (src : Source)
    (h : ∀ v ∈ probed src.ops, Reset sp v) :
    (assembleFile sp dcpu c1 src).1 = (assembleFile sp dcpu c2 src).1 :=
  passLoop_result sp dcpu src.extra c1 c2 src.ops h

/-- `asl f₁ f₂ … fₙ` gives, file by file, what `asl f₁; asl f₂; …; asl fₙ` gives – for every file list whose
instructions read only reset variables (induction over the list, generalising the carry). -/
theorem C18_independent_on (sp : SpecT) (dcpu : Nat) (boot c : Carry) (srcs : List Source)
    (h : ∀ v ∈ probedSrcs srcs, Reset sp v) :
    (assembleFiles sp dcpu c srcs).1 = alone (assembleFile sp dcpu) boot srcs := by
  induction srcs generalizing c with
  | nil => rfl
  | cons s rest ih =>
    have hs : ∀ v ∈ probed s.ops, Reset sp v := fun v hv => h v (by simp [probedSrcs, hv])
    have hr : ∀ v ∈ probedSrcs rest, Reset sp v := by
      intro v hv
      apply h
      simp only [probedSrcs, List.flatMap_cons, List.mem_append]
      exact Or.inr hv
    simp only [assembleFiles, runFiles, alone, List.map_cons]
    have h1 := C18_carry_irrelevant sp dcpu c boot s hs
    have h2 := ih (assembleFile sp dcpu c s).2 hr
    simp only [assembleFiles, alone] at h2
    rw [h1, h2]

/-- **C18 on the model**: if the reset inventory is complete, the files of one invocation are independent
(`Spec/Files.lean Independent`), from any initial process state. -/
theorem C18_independent (sp : SpecT) (dcpu : Nat) (boot : Carry) (hcomplete : ∀ v, Reset sp v) :
    Independent (assembleFile sp dcpu) boot :=
  fun srcs => C18_independent_on sp dcpu boot boot srcs (fun v _ => hcomplete v)

/-- A further pass (a repass forced by a forward reference, or hook H1) does not change the result. -/
theorem C18_extra_pass (sp : SpecT) (dcpu : Nat) (c : Carry) (n : Nat) (ops : List Op)
    (h : ∀ v ∈ probed ops, Reset sp v) :
    (assembleFile sp dcpu c ⟨n, ops⟩).1 = (assembleFile sp dcpu c ⟨0, ops⟩).1 :=
  passLoop_extra sp dcpu n c ops h

/-! ## The reset inventory of the current sources -/

/-- Genuine defects of the pinned tree (known findings `assume-not-reset:<file>:<var>`): variables a source
statement can set that no path before the next pass / file resets.  Each was confirmed on the real binary
(two-file witness).  An entry that has been repaired in /repo is simply no longer needed. -/
def knownUnreset : List (String × String) := [
  ("code65.c", "SpecPage"), ("code7000.c", "CompLiterals"),
  ("code78k4.c", "Reg_RSS"), ("code78k4.c", "Reg_LOCATION"),
  ("codemn2610.c", "BaseRegVals[0]"), ("codemn2610.c", "BaseRegVals[1]"),
  ("codemn2610.c", "BaseRegVals[2]"), ("codemn2610.c", "BaseRegVals[3]"),
  ("codeol50.c", "PRegAssume"), ("codesx20.c", "Reg_FSR"), ("codesx20.c", "Reg_STATUS")]

def okRow (r : GenVar) : Bool := isReset r || knownUnreset.contains (r.file, r.var)

/- Full statement (false on the pinned tree because of the 11 entries of `knownUnreset`):
   theorem C18_reset_complete : genVars.all isReset = true
   What is missing: the repairs in code65.c, code7000.c, code78k4.c, codemn2610.c, codeol50.c, codesx20.c. -/

/-- Every ASSUME-able register variable, every ON/OFF flag and every CPU-argument variable of every code
generator (table regenerated from the clang AST of all code*.c) is reset by a registered per-pass initialiser,
by the core's per-pass path, or by every `SwitchTo_*` that installs it – except the listed known findings. -/
theorem C18_reset_complete_partial : genVars.all okRow = true := by decide +kernel

/-- the inventory is not empty and covers all three kinds -/
theorem C18_inventory_nonempty :
    50 ≤ genVars.length ∧ 90 ≤ genFiles.length ∧
    genVars.any (·.kind == "assume") = true ∧ genVars.any (·.kind == "onoff") = true ∧
    genVars.any (·.kind == "cpuarg") = true := by decide +kernel

/-- The core's open-construct stacks, counters and mode flags are assigned on the per-pass path
(`AssembleFile_InitPass` and callees), the per-pass path runs the registry, a target switch applies the
CPU-argument defaults and un-sets the old target, the per-file initialisers and clean-up chain are called. -/
theorem C18_core_paths :
    coreStacks.all (·.2) = true ∧ initPassRunsRegistry = true ∧ cpuArgDefaultLoop = true ∧ setCpuUnsets = true ∧
    fileCallsDefInit = true ∧ fileCallsClearUp = true ∧ exitPassUnsetsCPU = true ∧ exitPassClearsStacks = true := by
  decide +kernel

/-- core variables a pseudo-instruction assigns although the per-pass path does not reset them:
known findings `core-not-reset-per-pass:<var>` -/
def knownCoreUnreset : List String := ["RadixBase", "OutRadixBase", "DottedStructs"]

/- Full statement (false on the pinned tree: RADIX / OUTRADIX survive into the next pass, DOTTEDSTRUCTS into the next file):
   theorem C18_core_classified : coreVars.all (fun r => r.cls != "unclassified" && r.cls != "perpass") = true -/

/-- Every core variable that a pseudo-instruction handler assigns and the per-pass path does not reset is
classified (scratch / report-only / reset through a call / guarded / per-file suffices); the ones that *need* a
per-pass reset are among the listed known findings (RADIX/OUTRADIX: reset per file only; DOTTEDSTRUCTS: never). -/
theorem C18_core_classified_partial :
    coreVars.all (fun r => r.cls != "unclassified" &&
      (r.cls != "perpass" || knownCoreUnreset.contains r.var)) = true := by decide +kernel

/-! ## The model instantiated with the generated table -/

/-- **C18 for the table of the current sources**: for every selection of table rows as the program's
variables and every list of files whose instructions read no known-finding variable, the joint run equals the
single runs. -/
theorem C18_generated_independent (rows : List GenVar) (dflts : Nat → Int) (boot c : Carry) (srcs : List Source)
    (hrows : ∀ r ∈ rows, r ∈ genVars)
    (hclean : ∀ v ∈ probedSrcs srcs, ∀ r, rows[v]? = some r → knownUnreset.contains (r.file, r.var) = false) :
    (assembleFiles (specOf rows dflts) defaultGen c srcs).1
      = alone (assembleFile (specOf rows dflts) defaultGen) boot srcs := by
  apply C18_independent_on
  intro v hv
  cases hr : rows[v]? with
  | none => unfold Reset specOf; simp [hr]
  | some r =>
    apply reset_of_isReset rows dflts v r hr
    have hmem : r ∈ genVars := hrows r (List.mem_of_getElem? hr)
    have hok := (List.all_eq_true.mp C18_reset_complete_partial) r hmem
    have hk := hclean v hv r hr
    unfold okRow at hok
    rw [hk, Bool.or_false] at hok
    exact hok

/-! ## Proved negation: an un-reset variable does leak -/

/-- one variable of generator 1, never reset -/
def leakSpec : SpecT := fun _ => ⟨1, false, false, 0⟩
def leakA : Source := ⟨0, [.cpu 1, .set 0 1]⟩
def leakB : Source := ⟨0, [.cpu 1, .probe 0 []]⟩
def boot0 : Carry := ⟨fun _ => 0, []⟩

/-- With a variable that no path resets, `asl a b` differs from `asl a; asl b` (the ASSUME at the end of `a`
changes the code of `b`), and a forced further pass changes the code of a single file – the shape of the
known findings `assume-not-reset:*`. -/
theorem C18_finding_unreset_leaks :
    (assembleFiles leakSpec 0 boot0 [leakA, leakB]).1 ≠ alone (assembleFile leakSpec 0) boot0 [leakA, leakB] ∧
    (assembleFile leakSpec 0 boot0 ⟨1, [.cpu 1, .probe 0 [], .set 0 1]⟩).1
      ≠ (assembleFile leakSpec 0 boot0 ⟨0, [.cpu 1, .probe 0 [], .set 0 1]⟩).1 := by
  decide

/-! ## Non-vacuity -/

/-- a complete spec exists, and a history with a failing predecessor (open IF, error) satisfies the hypotheses -/
example : ∀ v, Reset (fun _ => (⟨1, true, false, 0⟩ : VarSpec)) v := fun _ => Or.inl rfl

example : (assembleFiles (fun _ => ⟨1, true, false, 0⟩) 0 boot0
    [⟨0, [.cpu 1, .set 0 5, .push 0, .err]⟩, ⟨1, [.cpu 1, .probe 0 [], .emit 7]⟩]).1
    = [⟨2, []⟩, ⟨0, [.code 0 0, .lit 7]⟩] := by decide

/-- the generated table contains reset rows the generated theorem applies to (6809 DPR) -/
example : (findVar "code6809.c" "DPRValue").map isReset = some true := by decide +kernel

end AslModel.C18
