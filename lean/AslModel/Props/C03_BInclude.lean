import AslModel.Lemmas.BInclude
/-!
# C03 — BINCLUDE ends and transfers exactly the bytes the manual names

Theorems about `BInclude.xfer` (the block-wise transfer loop of `asmallg.c CodeBINCLUDE`, transcribed without fuel)
and about `BInclude.bincludeCore` (the statement behind the evaluation of its arguments):

* the loop runs at most `Rest / 256 + 1` times and at most `(bytes behind the file position) / 256 + 1` times -
  "time proportional to the work the input describes", whatever offset and length are;
* it hands on exactly `(file.drop pos).take Rest` and leaves `Rest = 0` iff the file has that many bytes;
* for arguments in the area the manual describes the statement yields `BIncludeSpec.selected` and reports
  "unexpected end of file" iff `BIncludeSpec.pastEnd`.

Not a theorem: that `fread`/`fseek` of the C library behave like `List.drop`/`List.take` on a regular file (trusted,
exercised by the correspondence runs).
-/
namespace AslModel.BInclude
open AslModel.BIncludeSpec

/-- **What the loop transfers.**  For every file, position and requested length the bytes handed to `WriteBytes`
are exactly the bytes of the file from the position on, at most `Rest` of them - none skipped, none repeated,
nothing from beyond the end. -/
theorem C03_binclude_loop_bytes (file : List Byte) (pos rest : Nat) :
    (xfer file pos rest).1 = fread file pos rest := by
  induction rest using Nat.strongRecOn generalizing pos with
  | ind rest ih =>
    rcases xfer_cases file pos rest with ⟨h1, h2, e⟩ | ⟨_, e⟩
    · rw [e]
      show (file.drop pos).take 256 ++ (xfer file (pos + 256) (rest - 256)).1 = _
      rw [ih (rest - 256) (by omega)]
      simp only [fread]
      rw [take_split (file.drop pos) 256 rest (by omega)]
      simp [List.drop_drop]
    · rw [e]; rfl

/-- **`Rest` behind the loop** is what the file could not deliver. -/
theorem C03_binclude_loop_rest (file : List Byte) (pos rest : Nat) :
    (xfer file pos rest).2.1 = rest - min rest (file.length - pos) := by
  induction rest using Nat.strongRecOn generalizing pos with
  | ind rest ih =>
    rcases xfer_cases file pos rest with ⟨h1, h2, e⟩ | ⟨_, e⟩
    · rw [e]
      show (xfer file (pos + 256) (rest - 256)).2.1 = _
      rw [ih (rest - 256) (by omega)]
      omega
    · rw [e]

/-- **The loop ends, in time proportional to the request.**  (That `xfer` is a definition at all is the termination
proof: Lean accepted the recursion with the measure `Rest`.)  The number of `fread` calls is bounded by the
requested length ... -/
theorem C03_binclude_loop_bound_request (file : List Byte) (pos rest : Nat) :
    (xfer file pos rest).2.2 ≤ rest / 256 + 1 := by
  induction rest using Nat.strongRecOn generalizing pos with
  | ind rest ih =>
    rcases xfer_cases file pos rest with ⟨h1, h2, e⟩ | ⟨_, e⟩
    · rw [e]
      show (xfer file (pos + 256) (rest - 256)).2.2 + 1 ≤ _
      have := ih (rest - 256) (by omega) (pos + 256)
      omega
    · rw [e]; show 1 ≤ _; omega

/-- ... and by the size of the file: a length far beyond the end of the file (or an offset behind it) costs one
`fread`, not `Rest / 256` of them. -/
theorem C03_binclude_loop_bound_file (file : List Byte) (pos rest : Nat) :
    (xfer file pos rest).2.2 ≤ (file.length - pos) / 256 + 1 := by
  induction rest using Nat.strongRecOn generalizing pos with
  | ind rest ih =>
    rcases xfer_cases file pos rest with ⟨h1, h2, e⟩ | ⟨_, e⟩
    · rw [e]
      show (xfer file (pos + 256) (rest - 256)).2.2 + 1 ≤ _
      have := ih (rest - 256) (by omega) (pos + 256)
      omega
    · rw [e]; show 1 ≤ _; omega

/-- **"Unexpected end of file" exactly when the file is too short.** -/
theorem C03_binclude_loop_short_iff (file : List Byte) (pos rest : Nat) :
    (xfer file pos rest).2.1 ≠ 0 ↔ file.length - pos < rest := by
  rw [C03_binclude_loop_rest]; omega

/-! ### the statement against the manual -/

/-- **`BINCLUDE file,offset,length` does what the manual says.**  For every file, every offset and
length in `0 .. 2^31-1`, at a program counter where the requested bytes fit the segment (`pc + length - 1 ≤ limit`;
`0 < pc + length`, see `C03_binclude_empty_at_zero_refused`): the bytes handed on are `selected file offset length`,
the program counter advances by their number, and error 1600 is reported iff `pastEnd` - nothing else is reported. -/
theorem C03_binclude_range_spec (f : List Byte) (o l : Int) (pc limit : Nat)
    (ho0 : 0 ≤ o) (ho1 : o < two31) (hl0 : 0 ≤ l) (hl1 : l < two31)
    (hpos : 0 < (pc : Int) + l) (hfit : (pc : Int) + l - 1 ≤ limit) (hpc : (pc : Int) < two31) :
    (bincludeCore (some f) o l pc limit true).bytes = selected f (some o) (some l) ∧
    (bincludeCore (some f) o l pc limit true).adv = (selected f (some o) (some l)).length ∧
    (bincludeCore (some f) o l pc limit true).fatal = false ∧
    (bincludeCore (some f) o l pc limit true).errs = (if pastEnd f (some o) (some l) then [errShortRead] else []) := by
  have e31 : two31 = 2147483648 := rfl
  have e32 : two32 = 4294967296 := rfl
  have e64 : two64 = 18446744073709551616 := rfl
  have hlen : toLongInt l = l := toLongInt_id l hl0 hl1
  have hne : ¬ (toLongInt l = -1) := by rw [hlen]; omega
  have hofs : toLongWord o = o.toNat := toLongWord_id o ho0 (by omega)
  have hrest : toLongWord l = l.toNat := toLongWord_id l hl0 (by omega)
  have hlw : toLargeWord ((pc : Int) + l - 1) = ((pc : Int) + l - 1).toNat := toLargeWord_id _ (by omega) (by omega)
  have hchk : chkPC true limit (toLargeWord ((pc : Int) + l - 1)) = true := by
    rw [hlw]; simp [chkPC]; omega
  have hbytes := C03_binclude_loop_bytes f o.toNat l.toNat
  have hrst := C03_binclude_loop_rest f o.toNat l.toNat
  have hlenb : (xfer f o.toNat l.toNat).1.length ≤ l.toNat := by
    rw [hbytes]; exact fread_length_le _ _ _
  have hchk2 : ¬ ((xfer f o.toNat l.toNat).1.length ≠ 0 ∧ (!chkPC true limit (pc + (xfer f o.toNat l.toNat).1.length - 1)) = true) := by
    intro ⟨hz, hc⟩
    simp [chkPC] at hc
    omega
  have hsel : selected f (some o) (some l) = fread f o.toNat l.toNat := by
    simp [selected, fread]
  have hpast : pastEnd f (some o) (some l) = decide (f.length - o.toNat < l.toNat) := by
    simp only [pastEnd, hsel, fread_length]
    by_cases hc : f.length - o.toNat < l.toNat
    · simp [hc]; omega
    · simp [hc]; omega
  have hl_ne : ¬ (l = -1) := by omega
  have hcore : bincludeCore (some f) o l pc limit true =
      { errs := (if (xfer f o.toNat l.toNat).2.1 ≠ 0 then [errShortRead] else []), bytes := (xfer f o.toNat l.toNat).1,
        adv := (xfer f o.toNat l.toNat).1.length, iters := (xfer f o.toNat l.toNat).2.2 } := by
    unfold bincludeCore
    simp only [hlen, hl_ne, false_and, ↓reduceIte, hchk, Bool.not_true, Bool.false_eq_true, hofs, hrest]
    rw [if_neg hchk2]
  rw [hcore]
  refine ⟨?_, ?_, rfl, ?_⟩
  · simp only [hsel]; exact hbytes
  · simp only [hsel, hbytes]
  · simp only [hpast, hrst]
    by_cases hc : f.length - o.toNat < l.toNat
    · simp [hc]; omega
    · simp [hc]; omega

/-- **`BINCLUDE file[,offset]`** (`Len = -1`): for `0 ≤ offset ≤ size` the rest of the file from the offset on, no error. -/
theorem C03_binclude_from_spec (f : List Byte) (o : Int) (pc limit : Nat)
    (hf : (f.length : Int) < two31) (ho0 : 0 ≤ o) (ho1 : o ≤ f.length)
    (hpos : 0 < (pc : Int) + (f.length - o)) (hfit : (pc : Int) + (f.length - o) - 1 ≤ limit) (hpc : (pc : Int) < two31) :
    (bincludeCore (some f) o (-1) pc limit true).bytes = selected f (some o) none ∧
    (bincludeCore (some f) o (-1) pc limit true).adv = (selected f (some o) none).length ∧
    (bincludeCore (some f) o (-1) pc limit true).fatal = false ∧
    (bincludeCore (some f) o (-1) pc limit true).errs = [] := by
  have e31 : two31 = 2147483648 := rfl
  have e32 : two32 = 4294967296 := rfl
  have e64 : two64 = 18446744073709551616 := rfl
  have hm1 : toLongInt (-1) = -1 := by decide
  have hofs : toLongWord o = o.toNat := toLongWord_id o ho0 (by omega)
  have hfs : toLongWord (f.length : Int) = f.length := by
    rw [toLongWord_id _ (by omega) (by omega)]; simp
  have hd : toLongInt (((f.length : Nat) : Int) - ((o.toNat : Nat) : Int)) = (f.length : Int) - o := by
    rw [toLongInt_id _ (by omega) (by omega)]; omega
  have hrest : toLongWord ((f.length : Int) - o) = f.length - o.toNat := by
    rw [toLongWord_id _ (by omega) (by omega)]; omega
  have hlw : toLargeWord ((pc : Int) + ((f.length : Int) - o) - 1) = ((pc : Int) + ((f.length : Int) - o) - 1).toNat :=
    toLargeWord_id _ (by omega) (by omega)
  have hchk : chkPC true limit (toLargeWord ((pc : Int) + ((f.length : Int) - o) - 1)) = true := by
    rw [hlw]; simp [chkPC]; omega
  have hbytes := C03_binclude_loop_bytes f o.toNat (f.length - o.toNat)
  have hrst := C03_binclude_loop_rest f o.toNat (f.length - o.toNat)
  have hlenb : (xfer f o.toNat (f.length - o.toNat)).1.length ≤ f.length - o.toNat := by
    rw [hbytes]; exact fread_length_le _ _ _
  have hchk2 : ¬ ((xfer f o.toNat (f.length - o.toNat)).1.length ≠ 0 ∧
      (!chkPC true limit (pc + (xfer f o.toNat (f.length - o.toNat)).1.length - 1)) = true) := by
    intro ⟨hz, hc⟩
    simp [chkPC] at hc
    omega
  have hneg : ¬ ((f.length : Int) - o < 0) := by omega
  have hcore : bincludeCore (some f) o (-1) pc limit true =
      { errs := (if (xfer f o.toNat (f.length - o.toNat)).2.1 ≠ 0 then [errShortRead] else []),
        bytes := (xfer f o.toNat (f.length - o.toNat)).1,
        adv := (xfer f o.toNat (f.length - o.toNat)).1.length, iters := (xfer f o.toNat (f.length - o.toNat)).2.2 } := by
    unfold bincludeCore
    simp only [hm1, true_and, ↓reduceIte, hfs, hofs, hd, hneg, hchk, Bool.not_true, Bool.false_eq_true, hrest]
    rw [if_neg hchk2]
  rw [hcore]
  have hsel : selected f (some o) none = fread f o.toNat (f.length - o.toNat) := by
    simp only [selected, Option.getD, fread]
    rw [List.take_of_length_le (by rw [List.length_drop]; omega)]
  refine ⟨?_, ?_, rfl, ?_⟩
  · simp only [hsel]; exact hbytes
  · simp only [hsel, hbytes]
  · simp only [hrst]
    have : f.length - o.toNat - min (f.length - o.toNat) (f.length - o.toNat) = 0 := by omega
    simp

/-- **Finding kept as a theorem (behaviour of the unchanged code, not a C03 violation):** an *empty* inclusion at
program counter 0 is refused with "address overflow" - `ChkPC(EProgCounter() + Len - 1)` is asked for address
`2^64 - 1`; `WriteCode` guards the same test with `CodeLen != 0`, `CodeBINCLUDE` does not. -/
theorem C03_binclude_empty_at_zero_refused (f : List Byte) (o : Int) (limit : Nat) (hlim : limit < 18446744073709551615) :
    (bincludeCore (some f) o 0 0 limit true).errs = [errAdrOverflow] := by
  have h0 : toLongInt 0 = 0 := by decide
  have hw : toLargeWord (-1) = 18446744073709551615 := by decide
  have hc : chkPC true limit 18446744073709551615 = false := by simp [chkPC]; omega
  unfold bincludeCore
  simp [h0, hw, hc]

/-! non-vacuity: the hypotheses of the statement theorems hold for concrete non-trivial arguments (a range inside a
five-byte file, a range that ends behind it, an offset without length) -/
example := C03_binclude_range_spec [1, 2, 3, 4, 5] 1 3 16 65535 (by decide) (by decide) (by decide) (by decide)
  (by decide) (by decide) (by decide)
example := C03_binclude_range_spec [1, 2, 3, 4, 5] 1 9 16 65535 (by decide) (by decide) (by decide) (by decide)
  (by decide) (by decide) (by decide)
example : pastEnd [1, 2, 3, 4, 5] (some 1) (some 9) = true := by decide
example : selected [1, 2, 3, 4, 5] (some 1) (some 3) = [2, 3, 4] := by decide
example := C03_binclude_from_spec [1, 2, 3, 4, 5] 2 16 65535 (by decide) (by decide) (by decide) (by decide) (by decide) (by decide)

end AslModel.BInclude
