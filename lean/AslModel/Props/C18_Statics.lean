import AslModel.Props.C18
import AslModel.Lemmas.FilesScratch
import AslModel.Generated.GenStatics
/-!
# C18 — the reset inventory widened to all persistent statics of the code generators

`Generated/GenStatics.lean` (translate/statics.py, clang AST of every code*.c, regenerated from the current sources) has one
row per non-const file-scope / function-static variable of every code generator with its class

* `scratch`    – every read reachable from a decoder entry point is preceded by a write in the same invocation,
* `config`     – not written while statements are decoded,
* `persistent` – state that survives from one statement to the next,

and for the persistent ones where they are given a fresh value.  This file turns the table into the `decide`
obligation `C18_statics_reset` (a persistent variable without a reset must be in the justified exception list) and
connects the rows to the file/pass model of `Model/Files.lean`: the reset flags of a row are exactly the `Reset sp v`
premise of `C18_independent_on`, so `C18_statics_independent` is C18 on the model for the widened variable set.

Removing a reset from an `InitPass` procedure of a code generator flips a flag of the generated table and breaks
`C18_statics_reset`; a behaviour-preserving rewrite of a generator leaves the table as it is.
-/
namespace AslModel.C18
namespace Statics
open AslModel.Files AslModel.FilesSpec AslModel.Generated
open AslModel.Generated.GenStatics (Row Cls)

/-- Persistent variables that no per-pass initialiser and no `SwitchTo_*` assigns, each with its justification
(vlib/props/c18_statics.py `EXCEPTIONS` repeats the list with the experiment or the one-line reason; the check fails if
the two lists differ):
(a) behavioural experiment on the real assembler (probe history in c18_statics.py), (b) harmless by construction of
the code, (c) a genuine leak = known finding `static-not-reset:<file>:<var>` (known_findings.json). -/
def exceptions : List (String × String) := [
  -- (c) genuine leaks: known findings static-not-reset:<file>:<var>
  ("codez80.c", "CurrPrefix"),
  ("codehmcs400.c", "AdrMode"),
  ("code3206x.c", "UnitFlag"),
  ("code3254x.c", "OpSize"),
  ("code7700.c", "WordSize"),
  ("code90c141.c", "MinOneIs0"),
  ("codexa.c", "OpSize"),
  ("codez8.c", "AdrVal"),
  ("codefmc8.c", "OpSize"),
  ("codeh8_3.c", "AdrMode"),
  ("codeh8_3.c", "AdrVals"),
  ("codeh8_3.c", "MomSize"),
  ("codeol40.c", "AdrMode"),
  -- (a) experiment on the real assembler + argument (c18_statics.py)
  ("codem16.c", "AdrVals"),
  ("codem16.c", "OpSize"),
  ("codes12z.c", "OpSize2"),
  ("codetms7.c", "AdrVals"),
  ("code166.c", "MemPage"),
  ("code3203x.c", "PrevARs"),
  ("code3203x.c", "PrevGenInfo"),
  ("code3203x.c", "PrevOp"),
  ("code3206x.c", "ThisInst"),
  ("code6812.c", "ActReg"),
  ("code7000.c", "DelayedAdr"),
  ("code86.c", "AdrMode"),
  ("code86.c", "Prefixes"),
  ("code96c141.c", "AdrMode"),
  ("code97c241.c", "Format"),
  ("code97c241.c", "Prefs"),
  ("codeace.c", "AdrVal"),
  ("codeavr.c", "WordAcc"),
  ("codefmc16.c", "CurrBank"),
  ("codeh16.c", "FormatPart"),
  ("codexa.c", "AdrPart"),
  ("codexa.c", "AdrVals"),
  -- (b) harmless by construction
  ("codeh16.c", "DecodeAttrPart_H16::EmptyStr"),
  ("codexcore.c", "lr2r_Orders"),
  ("codeh8_3.c", "AdrPart")]

/-- is the variable given a fresh value on a path that runs before every pass, or whenever its target is selected? -/
def isReset (r : Row) : Bool := r.initPass || r.switchTo || r.corePass || r.coreCpu

/-- a row is in order: not persistent, or reset, or a listed exception -/
def okRow (r : Row) : Bool := r.cls != Cls.persistent || isReset r || exceptions.contains (r.file, r.var)

/- Full statement (false on the pinned tree because of the entries (c) of `exceptions`):
   theorem C18_statics_reset_complete : GenStatics.rows.all (fun r => r.cls != Cls.persistent || isReset r) = true
   What is missing: the repairs of the findings; the entries (a)/(b) are limits of the syntactic classification. -/

/-- **Every persistent static of every code generator is reset** per pass (registered `InitPass` procedure or the
core's per-pass path) or per target selection (every `SwitchTo_*` that can reach an access) – except the listed,
individually justified exceptions. -/
theorem C18_statics_reset : GenStatics.rows.all okRow = true := by decide +kernel

/-- the inventory covers exactly the code generators of `GenState` (same file list), is not empty and has all three classes -/
theorem C18_statics_inventory :
    GenStatics.files.map (·.1) = genFiles.map (·.1) ∧
    1000 ≤ GenStatics.rows.length ∧
    GenStatics.rows.any (·.cls == Cls.scratch) = true ∧ GenStatics.rows.any (·.cls == Cls.config) = true ∧
    60 ≤ (GenStatics.rows.filter (fun r => r.cls == Cls.persistent && isReset r)).length := by decide +kernel

/-- every statement-settable variable of `GenState` that a code generator defines (ASSUME / ON-OFF / CPU-argument
variables: the core writes them through an address the generator hands over) is a `persistent` row here -/
theorem C18_statics_cover_genstate :
    50 ≤ (GenStatics.rows.filter (·.settable)).length ∧
    GenStatics.rows.all (fun r => !r.settable || r.cls == Cls.persistent) = true := by
  decide +kernel

/-! ## Connection to the file/pass model -/

/-- the model's reset behaviour of a row -/
def varSpecOf (r : Row) (dflt : Int) : VarSpec :=
  { gen := genIndex r.file
    perPass := r.initPass || r.corePass
    perCpu := r.switchTo || r.coreCpu
    dflt := dflt }

/-- the model's parameter for a selection `rows` of table rows (variable `v` = `rows[v]`); indices outside the selection
denote no variable of the program and are treated as reset -/
def specOf (rows : List Row) (dflts : Nat → Int) : SpecT :=
  fun v => match rows[v]? with
    | some r => varSpecOf r (dflts v)
    | none => ⟨0, true, true, 0⟩

/-- a row that `isReset` accepts is `Reset` in the model parameter built from the table -/
theorem C18_statics_reset_of_flags (rows : List Row) (dflts : Nat → Int) (v : Nat) (r : Row)
    (hr : rows[v]? = some r) (h : isReset r = true) : Reset (specOf rows dflts) v := by
  unfold Reset specOf
  simp only [hr, varSpecOf]
  unfold isReset at h
  cases hi : r.initPass <;> cases hs : r.switchTo <;> cases hc : r.corePass <;> cases hd : r.coreCpu <;> simp_all

/-- **The rows' reset flags instantiate the `Reset sp v` premise** of `C18_independent_on` / `C18_independent`:
a persistent row of the current table that is not a listed exception is reset in the model. -/
theorem C18_statics_imply_reset (rows : List Row) (dflts : Nat → Int) (v : Nat) (r : Row)
    (hr : rows[v]? = some r) (hmem : r ∈ GenStatics.rows) (hp : r.cls = Cls.persistent)
    (hx : exceptions.contains (r.file, r.var) = false) : Reset (specOf rows dflts) v := by
  apply C18_statics_reset_of_flags rows dflts v r hr
  have hok := (List.all_eq_true.mp C18_statics_reset) r hmem
  unfold okRow at hok
  rw [hx, Bool.or_false, hp] at hok
  simpa using hok

/-- **C18 on the model for the widened variable set**: for every selection of persistent rows of the current table as
the program's variables and every list of files whose instructions read no exception variable, the joint run equals
the single runs – whatever state the predecessors left. -/
theorem C18_statics_independent (rows : List Row) (dflts : Nat → Int) (boot c : Carry) (srcs : List Source)
    (hrows : ∀ r ∈ rows, r ∈ GenStatics.rows ∧ r.cls = Cls.persistent)
    (hclean : ∀ v ∈ probedSrcs srcs, ∀ r, rows[v]? = some r → exceptions.contains (r.file, r.var) = false) :
    (assembleFiles (specOf rows dflts) defaultGen c srcs).1
      = alone (assembleFile (specOf rows dflts) defaultGen) boot srcs := by
  apply C18_independent_on
  intro v hv
  cases hr : rows[v]? with
  | none => unfold Reset specOf; simp [hr]
  | some r =>
    have hm := hrows r (List.mem_of_getElem? hr)
    exact C18_statics_imply_reset rows dflts v r hr hm.1 hm.2 (hclean v hv r hr)

/-- a further pass does not change the result either (same premise) -/
theorem C18_statics_extra_pass (rows : List Row) (dflts : Nat → Int) (c : Carry) (n : Nat) (ops : List Op)
    (hrows : ∀ r ∈ rows, r ∈ GenStatics.rows ∧ r.cls = Cls.persistent)
    (hclean : ∀ v ∈ probed ops, ∀ r, rows[v]? = some r → exceptions.contains (r.file, r.var) = false) :
    (assembleFile (specOf rows dflts) defaultGen c ⟨n, ops⟩).1 = (assembleFile (specOf rows dflts) defaultGen c ⟨0, ops⟩).1 := by
  apply C18_extra_pass
  intro v hv
  cases hr : rows[v]? with
  | none => unfold Reset specOf; simp [hr]
  | some r =>
    have hm := hrows r (List.mem_of_getElem? hr)
    exact C18_statics_imply_reset rows dflts v r hr hm.1 hm.2 (hclean v hv r hr)

/-! ## Scratch variables need no reset -/

/-- **A `scratch` variable cannot carry anything from one file to the next** – on the model: if every instruction of a
file reads only variables that are reset, or that a statement of the same file has set since the last target
selection (`scratchOK`, the model's picture of "written before read within the same invocation"), the result of the
file does not depend on the state its predecessors left, although the scratch variables are reset on no path. -/
theorem C18_scratch_carry_irrelevant (sp : SpecT) (dcpu : Nat) (c1 c2 : Carry) (src : Source)
    (h : scratchOK sp [] src.ops) :
    (assembleFile sp dcpu c1 src).1 = (assembleFile sp dcpu c2 src).1 :=
  passLoop_result_scratch sp dcpu src.extra c1 c2 src.ops h

/-- the joint run equals the single runs for every file list with that discipline (induction over the list) -/
theorem C18_scratch_independent_on (sp : SpecT) (dcpu : Nat) (boot c : Carry) (srcs : List Source)
    (h : ∀ s ∈ srcs, scratchOK sp [] s.ops) :
    (assembleFiles sp dcpu c srcs).1 = alone (assembleFile sp dcpu) boot srcs := by
  induction srcs generalizing c with
  | nil => rfl
  | cons s rest ih =>
    have hs := h s (by simp)
    have hr : ∀ s' ∈ rest, scratchOK sp [] s'.ops := fun s' hs' => h s' (by simp [hs'])
    simp only [assembleFiles, runFiles, alone, List.map_cons]
    have h1 := C18_scratch_carry_irrelevant sp dcpu c boot s hs
    have h2 := ih (assembleFile sp dcpu c s).2 hr
    simp only [assembleFiles, alone] at h2
    rw [h1, h2]

/-- the discipline generalises "reads only reset variables" -/
theorem C18_scratch_generalises (sp : SpecT) (ops : List Op) (hp : ∀ v ∈ probed ops, Reset sp v) :
    scratchOK sp [] ops := scratchOK_of_reset sp ops [] hp

/-- non-vacuity: with the never-reset variable of `C18_finding_unreset_leaks`, a successor that sets the variable
before reading it satisfies the discipline (and is independent of `leakA`), the leaking successor `leakB` does not -/
example : scratchOK leakSpec [] [.cpu 1, .set 0 0, .probe 0 []] := by
  simp [scratchOK, defStep]

example : ¬ scratchOK leakSpec [] leakB.ops := by
  simp [scratchOK, defStep, leakB, leakSpec, Reset]

example : (assembleFiles leakSpec 0 boot0 [leakA, ⟨0, [.cpu 1, .set 0 0, .probe 0 []]⟩]).1
    = alone (assembleFile leakSpec 0) boot0 [leakA, ⟨0, [.cpu 1, .set 0 0, .probe 0 []]⟩] := by decide

/-! ## Non-vacuity -/

/-- a persistent, reset row the theorems apply to: the literal pool of the SH7x00 generator -/
example : ∃ r ∈ GenStatics.rows, r.file = "code7000.c" ∧ r.var = "FirstLiteral" ∧ r.cls = Cls.persistent ∧
    isReset r = true ∧ exceptions.contains (r.file, r.var) = false :=
  ⟨⟨"code7000.c", "FirstLiteral", .persistent, true, false, false, false, false⟩, by decide +kernel, rfl, rfl, rfl, rfl, by decide⟩

/-- the hypotheses of `C18_statics_independent` hold for a non-trivial selection and history (a failing predecessor
that sets the variable and leaves an open construct, a successor that reads it) -/
example :
    let rows : List Row := [⟨"code7000.c", "FirstLiteral", .persistent, true, false, false, false, false⟩]
    (∀ r ∈ rows, r ∈ GenStatics.rows ∧ r.cls = Cls.persistent) ∧
    (∀ v ∈ probedSrcs [⟨0, [.cpu (genIndex "code7000.c"), .set 0 5, .push 0, .err]⟩, ⟨1, [.cpu (genIndex "code7000.c"), .probe 0 []]⟩],
      ∀ r, rows[v]? = some r → exceptions.contains (r.file, r.var) = false) := by
  refine ⟨?_, ?_⟩
  · intro r hr
    simp only [List.mem_singleton] at hr
    subst hr
    exact ⟨by decide +kernel, rfl⟩
  · intro v hv r hr
    have : v = 0 := by simpa [probedSrcs, probed] using hv
    subst this
    simp at hr
    subst hr
    decide

end Statics
end AslModel.C18
