import AslModel.Lemmas.SymStack
/-!
# C03 — PUSHV/POPV: no history of statements reaches the NULL dereference of `PopSymbol`

`PopSymbol` reads `LStack->Contents->Contents` without testing `LStack->Contents`.  That is safe only because of an
invariant of the list `FirstStack`: *every record in the list has at least one entry* (a record is created by the
PUSHV that links its first entry, and unlinked by the POPV that takes its last one).  The model (`Model/SymStack.lean`)
can represent a record with no entries and answers `Fault.nullDeref` when `popSymbol` meets one; the theorems:

* `C03_stacks_step_invariant` / `C03_popv_never_null_deref` - for every symbol table, every case mode and **every**
  statement list (PUSHV/POPV with any stack and symbol names, SET, MESSAGE, any interleaving, refused pops, pops from
  empty and non-existent stacks) the run ends without the fault, and the list stays free of empty records and
  strictly sorted by `strcmp`;
* `C03_stacks_push_lookup`, `C03_stacks_pop_*` - on such lists the two list walks implement what the manual says a
  stack is: the values pushed under a name, last in first out, independent of every other name; "not found" exactly
  when nothing is stored under the name; a refused POPV leaves every stack as it was.

What is not a theorem: the equality of whole event traces with `Spec/SymStack.lean` (checked at run time for every
generated history: driver field `cons`), and the C heap (ownership of string values - see the finding
`pushv-string-value-shared-buffer`).
-/
namespace AslModel.SymStack
open AslModel.SymStackSpec (Name Val Sym Stmt)

/-- **One statement keeps the invariant and cannot fault.**  Any statement, any state whose stack list has no empty
record and is sorted. -/
theorem C03_stacks_step_invariant (st : St) (s : Stmt) (h : Inv st.stacks) :
    ∃ st', step st s = .ok st' ∧ Inv st'.stacks := by
  cases s with
  | set x v =>
    simp only [step]
    split
    · exact ⟨_, rfl, h⟩
    · split
      · exact ⟨_, rfl, h⟩
      · exact ⟨_, rfl, h⟩
  | pushv k xs => exact ⟨_, rfl, pushList_inv xs k st h⟩
  | popv k xs => exact popList_ok xs k st h
  | «show» x => exact ⟨_, rfl, h⟩

/-- **Every statement list keeps the invariant** from any state that has it. -/
theorem C03_stacks_run_invariant (p : List Stmt) (st : St) (h : Inv st.stacks) : ∃ st', run st p = .ok st' ∧ Inv st'.stacks := by
  induction p generalizing st with
  | nil => exact ⟨st, rfl, h⟩
  | cons s r ih =>
    obtain ⟨st1, e1, h1⟩ := C03_stacks_step_invariant st s h
    obtain ⟨st2, e2, h2⟩ := ih st1 h1
    exact ⟨st2, by simp [run, e1, e2], h2⟩

/-- **No history reaches the NULL dereference.**  For every case mode, every symbol table and every statement list
(unbounded length, any names, any interleaving of PUSHV / POPV / SET / MESSAGE) the pass ends with a list of printed
events - `PopSymbol` never reads the entry pointer of a record that has none - and `ClearStacks` finds a list without
empty records in `strcmp` order. -/
theorem C03_popv_never_null_deref (cs : Bool) (syms : List (Name × Sym)) (p : List Stmt) :
    (∃ out, pass cs syms p = .ok out) ∧ (∃ st, run (init cs syms) p = .ok st ∧ Inv st.stacks) := by
  obtain ⟨st, e, h⟩ := C03_stacks_run_invariant p (init cs syms) (by simpa [init] using inv_nil)
  exact ⟨⟨(clearStacks st).out, by simp [pass, e]⟩, ⟨st, e, h⟩⟩

/-! ### the list walks implement named LIFO stacks (`contentsOf`: what is stored under a name) -/

/-- **PUSHV stores on top of the named stack and touches no other.** -/
theorem C03_stacks_push_lookup (l : List Node) (k j : Name) (v : Val) (hs : Sorted l) :
    contentsOf (pushInto l k v) j = if j = k then v :: contentsOf l k else contentsOf l j := by
  induction l with
  | nil =>
    by_cases e : j = k
    · subst e; simp [pushInto, contentsOf]
    · have e' : ¬ k = j := fun h => e h.symm
      simp [pushInto, contentsOf, e, e']
  | cons b r ih =>
    unfold pushInto
    split
    · rename_i hlt
      have hbk : b.name ≠ k := by
        intro e; rw [e, strcmpLt_irrefl] at hlt; cases hlt
      by_cases e : j = k
      · subst e
        simp only [contentsOf, hbk, if_false, if_true]
        rw [ih hs.2]; simp
      · by_cases eb : b.name = j
        · simp [contentsOf, eb, e]
        · simp only [contentsOf, eb, if_false, e]
          rw [ih hs.2]; simp [e]
    · split
      · rename_i hnlt hgt
        have hbk : b.name ≠ k := by
          intro e; rw [e, strcmpLt_irrefl] at hgt; cases hgt
        have hk0 : contentsOf (b :: r) k = [] := contentsOf_of_headGt (b :: r) k hs hgt
        by_cases e : j = k
        · subst e
          simp only [contentsOf, if_true] at hk0 ⊢
          simp only [hbk, if_false] at hk0
          simp [hbk, hk0]
        · have e' : ¬ k = j := fun h => e h.symm
          simp [contentsOf, e, e']
      · rename_i hnlt hngt
        have hbk : b.name = k := strcmp_eq_of_not_lt _ _ (by simpa using hnlt) (by simpa using hngt)
        by_cases e : j = k
        · subst e; simp [contentsOf, hbk]
        · have e' : ¬ b.name = j := fun h => e (by rw [← h, hbk])
          simp [contentsOf, e, e']

/-- **POPV from a name under which nothing is stored** is answered "stack is empty or undefined", and only then. -/
theorem C03_stacks_pop_notFound_iff (acc : Val → Bool) (l : List Node) (k : Name) (h : Inv l) :
    popFrom acc l k = .notFound ↔ contentsOf l k = [] := by
  induction l with
  | nil => simp [popFrom, contentsOf]
  | cons b r ih =>
    have hr : Inv r := ⟨fun n hn => h.noEmpty n (List.mem_cons_of_mem _ hn), h.sorted.2⟩
    have hb : b.contents ≠ [] := h.noEmpty b (List.mem_cons_self ..)
    unfold popFrom
    split
    · rename_i hlt
      have hbk : b.name ≠ k := by
        intro e; rw [e, strcmpLt_irrefl] at hlt; cases hlt
      simp only [contentsOf, hbk, if_false]
      rw [← ih hr]
      cases hq : popFrom acc r k <;> simp
    · split
      · rename_i hnlt hgt
        have := contentsOf_of_headGt (b :: r) k h.sorted hgt
        simp [this]
      · rename_i hnlt hngt
        have hbk : b.name = k := strcmp_eq_of_not_lt _ _ (by simpa using hnlt) (by simpa using hngt)
        simp only [contentsOf, hbk, if_true]
        split
        · rename_i hc; exact absurd hc hb
        · rename_i w rest hc
          split <;> simp [hc]

/-- **A successful POPV takes the value pushed last under that name** (the target accepts it), the rest of that
stack stays, every other stack is untouched. -/
theorem C03_stacks_pop_lifo (acc : Val → Bool) (l : List Node) (k : Name) (v : Val) (l' : List Node) (h : Inv l)
    (hp : popFrom acc l k = .popped v l') :
    acc v = true ∧ contentsOf l k = v :: contentsOf l' k ∧ ∀ j, j ≠ k → contentsOf l' j = contentsOf l j := by
  induction l generalizing l' with
  | nil => simp [popFrom] at hp
  | cons b r ih =>
    have hr : Inv r := ⟨fun n hn => h.noEmpty n (List.mem_cons_of_mem _ hn), h.sorted.2⟩
    unfold popFrom at hp
    split at hp
    · rename_i hlt
      have hbk : b.name ≠ k := by
        intro e; rw [e, strcmpLt_irrefl] at hlt; cases hlt
      cases hq : popFrom acc r k with
      | popped w s =>
        rw [hq] at hp
        simp only [PopRes.popped.injEq] at hp
        obtain ⟨rfl, rfl⟩ := hp
        obtain ⟨h1, h2, h3⟩ := ih s hr hq
        refine ⟨h1, ?_, ?_⟩
        · simp only [contentsOf, hbk, if_false]; exact h2
        · intro j hj
          by_cases eb : b.name = j
          · simp [contentsOf, eb]
          · simp only [contentsOf, eb, if_false]; exact h3 j hj
      | notFound => rw [hq] at hp; cases hp
      | null => rw [hq] at hp; cases hp
      | refused => rw [hq] at hp; cases hp
    · split at hp
      · cases hp
      · rename_i hnlt hngt
        have hbk : b.name = k := strcmp_eq_of_not_lt _ _ (by simpa using hnlt) (by simpa using hngt)
        have hk0 : contentsOf r k = [] := by
          apply contentsOf_of_headGt r k h.sorted.2
          rw [← hbk]; exact h.sorted.1
        split at hp
        · cases hp
        · rename_i w rest hc
          split at hp
          · cases hp
          · rename_i hacc
            simp only [PopRes.popped.injEq] at hp
            obtain ⟨rfl, rfl⟩ := hp
            refine ⟨by simpa using hacc, ?_, ?_⟩
            · by_cases he : rest.isEmpty = true
              · have : rest = [] := by simpa using he
                simp [contentsOf, hbk, hc, hk0, this]
              · simp [contentsOf, hbk, hc, he]
            · intro j hj
              have hbj : ¬ b.name = j := fun e => hj (by rw [← e, hbk])
              by_cases he : rest.isEmpty = true
              · simp [contentsOf, hbj, he]
              · have hkj : ¬ k = j := fun e => hj e.symm
                simp [contentsOf, he, hbk, hkj]

/-- **A refused POPV** (target not changeable, value differs) found a value under the name and left the list as it
was - `popSymbol` keeps `st.stacks` in that case, so the next POPV from the same name sees the same stack. -/
theorem C03_stacks_pop_refused (acc : Val → Bool) (l : List Node) (k : Name) (h : Inv l)
    (hp : popFrom acc l k = .refused) : ∃ v rest, contentsOf l k = v :: rest ∧ acc v = false := by
  induction l with
  | nil => simp [popFrom] at hp
  | cons b r ih =>
    have hr : Inv r := ⟨fun n hn => h.noEmpty n (List.mem_cons_of_mem _ hn), h.sorted.2⟩
    unfold popFrom at hp
    split at hp
    · rename_i hlt
      have hbk : b.name ≠ k := by
        intro e; rw [e, strcmpLt_irrefl] at hlt; cases hlt
      cases hq : popFrom acc r k with
      | popped w s => rw [hq] at hp; cases hp
      | notFound => rw [hq] at hp; cases hp
      | null => rw [hq] at hp; cases hp
      | refused =>
        obtain ⟨v, rest, e, ha⟩ := ih hr hq
        exact ⟨v, rest, by simp only [contentsOf, hbk, if_false]; exact e, ha⟩
    · split at hp
      · cases hp
      · rename_i hnlt hngt
        have hbk : b.name = k := strcmp_eq_of_not_lt _ _ (by simpa using hnlt) (by simpa using hngt)
        split at hp
        · cases hp
        · rename_i w rest hc
          split at hp
          · rename_i hacc
            exact ⟨w, rest, by simp [contentsOf, hbk, hc], by simpa using hacc⟩
          · cases hp

/-! non-vacuity: the three-step history (one entry, refused POPV onto a constant, POPV again) runs through the model
and ends with the value restored; a list with an empty record - the state the invariant excludes - does fault -/
example : (pass false [([86], ⟨.int 3, true⟩), ([67], ⟨.int 7, false⟩)]
    [.pushv [82] [[86]], .popv [82] [[67]], .set [86] (.int 5), .popv [82] [[86]], .show [86], .popv [82] [[86]]]).toOption =
    some [.err 2030, .msg (some (.int 3)), .err 1530] := by decide
example : (match popSymbol { syms := [([86], ⟨.int 3, true⟩)], stacks := [⟨[82], []⟩] } [86] [82] with
    | .error .nullDeref => true | _ => false) = true := by decide
example : Inv [⟨[65], [.int 1]⟩, ⟨[66], [.int 2, .int 3]⟩] :=
  ⟨by intro n hn; simp at hn; rcases hn with e | e <;> subst e <;> simp, by simp [Sorted, HeadGt, strcmpLt]⟩

end AslModel.SymStack
