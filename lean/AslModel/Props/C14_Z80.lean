import AslModel.Lemmas.Isa.IZ80All
/-!
# C14, target Z80 (codez80.c, `cpu z80`) — machine instructions encode as Zilog's instruction set defines

MODEL (`Model/Isa/IZ80.lean`) = `MakeCode_Z80` → `LookupInstTable` → the `Decode*` handlers over the
`InstTable` / `Conditions[]` regenerated from `InitFields()`; SPEC (`Spec/Isa/IZ80.lean`) = Zilog's instruction
tables (operand classes per mnemonic: `legal`, `meaning`) and the opcode map as a decoder (`decode`).
The theorems quantify over **all** 67 mnemonics of the documented Z80, all operand shapes and all operand
values (`Int`), and all program-counter values.

`Cfg` carries four behaviour flags probed from the current assembler (known findings: statements outside the
Z80 instruction set that codez80.c assembles on CPU Z80).  `cleanCfg` has all of them off; the `_pinned`
theorems hold for any configuration and every statement that is not one of the enabled findings
(`affected cfg s = false`), in particular for `genCfg`, the configuration of the current tree.

Not covered (outside the SPEC's `Mn`): the undocumented Z80 instructions, Z180/Z380/R2000/eZ80, the aliases
`LDW/INCW/DECW/…`, pseudo-ops.
-/
namespace AslModel.C14
open AslModel.PFile (Byte b b_toNat)
open AslModel.Isa
open AslModel.Spec.IZ80 AslModel.Isa.IZ80 AslModel.Generated.IsaZ80

/-- Table obligations on the regenerated `Isa_Z80`: (1) every row of `InstTable` with a layout handler agrees
with the SPEC on the complete table of representative operand tuples - acceptance = legality, at most one
table line fits, and for value-free statements the opcode map decodes the emitted bytes to the statement's
meaning (`tableOK`, 67 rows × 49² tuples, decided by evaluation); (2) `BIT/RES/SET`, `RST`, `IM`, `JR`, `DJNZ` are
registered with the direct handlers and the `Word`s the proofs assume, every other row has a layout handler;
(3) every mnemonic of the SPEC is registered; (4) the probed distance limits of `JR`/`DJNZ` are -128 … 127. -/
theorem C14_z80_table :
    tableOK = true ∧ instTable.all handOK = true ∧ Mn.all.all (fun m => (IZ80.lookup m).isSome) = true ∧
    (jrMin = -128 ∧ jrMax = 127 ∧ djnzMin = -128 ∧ djnzMax = 127) :=
  ⟨table_ok, hand_ok, lookup_all, by decide⟩

/-- **Soundness** (documented-Z80 configuration).  Whenever the code generator emits bytes for a statement,
Zilog's opcode map decodes exactly these bytes - and all of them - to the instruction the statement denotes:
mnemonic, registers, `n`/`nn`/`(nn)`/port fields (two's complement resp. low byte first), the displacement
`d` of `(IX+d)`/`(IY+d)` as a signed byte, bit numbers, restart addresses, interrupt modes, and for `JR`/`DJNZ`
the target address rebuilt from the address of the next instruction. -/
theorem C14_z80_sound (cpu pc : Nat) (s : Src) (bs : List Byte) (h : IZ80.encode cleanCfg cpu pc s = .ok bs) :
    decode cpu pc bs = some (meaning pc s, bs.length) :=
  sound_clean C14_z80_table.2.2.2 cpu pc s bs h

/-- Soundness for any configuration of the behaviour flags (in particular `genCfg`, the current tree):
every statement except the enabled known findings. -/
theorem C14_z80_sound_pinned (cfg : Cfg) (cpu pc : Nat) (s : Src) (bs : List Byte) (ha : affected cfg s = false)
    (h : IZ80.encode cfg cpu pc s = .ok bs) : decode cpu pc bs = some (meaning pc s, bs.length) := by
  rw [encode_cfg cfg cpu pc s ha] at h
  exact C14_z80_sound cpu pc s bs h

example : okBytes (IZ80.encode genCfg 0 0x100 ⟨.LD, [.idx true (-3), .imm (-2)]⟩) = some [b 0xFD, b 0x36, b 0xFD, b 0xFE] := by decide
example : affected genCfg ⟨.LD, [.idx true (-3), .imm (-2)]⟩ = false ∧ affected genCfg ⟨.SUB, [.r8 .A, .idx0 false]⟩ = false := by decide
example : decode 0 0x100 [b 0xFD, b 0x36, b 0xFD, b 0xFE] = some (⟨.LD, [.idx true (-3), .imm 254]⟩, 4) := by decide

/-- **Range** (documented-Z80 configuration): a statement is assembled iff the SPEC calls it legal - it fits a
line of the instruction tables: operand count and shapes, 8-bit data -128..255, 16-bit data -32768..65535,
addresses 0..65535, displacements -128..127, ports 0..255, bit numbers 0..7, restart addresses 0,8,..,38h,
interrupt modes 0..2, relative-branch distance -128..127 from the next instruction.  One past a limit is
rejected, never truncated. -/
theorem C14_z80_range (cpu pc : Nat) (s : Src) : legal cpu pc s = true ↔ isOk (IZ80.encode cleanCfg cpu pc s) = true := by
  rw [range_clean C14_z80_table.2.2.2 cpu pc s]

/-- Range for any configuration of the behaviour flags: every statement except the enabled known findings. -/
theorem C14_z80_range_pinned (cfg : Cfg) (cpu pc : Nat) (s : Src) (ha : affected cfg s = false) :
    legal cpu pc s = true ↔ isOk (IZ80.encode cfg cpu pc s) = true := by
  rw [encode_cfg cfg cpu pc s ha]
  exact C14_z80_range cpu pc s

example : legal 0 0 ⟨.LD, [.idx false 127, .r8 .B]⟩ = true ∧ legal 0 0 ⟨.LD, [.idx false 128, .r8 .B]⟩ = false ∧
    legal 0 0 ⟨.LD, [.idx false (-129), .r8 .B]⟩ = false ∧ legal 0 0 ⟨.BIT, [.imm 7, .r8 .iHL]⟩ = true ∧
    legal 0 0 ⟨.BIT, [.imm 8, .r8 .iHL]⟩ = false ∧ legal 0 0 ⟨.LD, [.r8 .iHL, .r8 .iHL]⟩ = false ∧
    legal 0 0x1000 ⟨.JR, [.imm 0x1081]⟩ = true ∧ legal 0 0x1000 ⟨.JR, [.imm 0x1082]⟩ = false ∧
    legal 0 0x1000 ⟨.JR, [.cc .PO, .imm 0x1000]⟩ = false := by decide

/-- **PC-relative fields**: an accepted `JR` / `DJNZ` is two bytes long and its second byte is the signed
distance from the address of the next instruction to the referenced target:
`target = pc + 2 + sext8 byte₂`, `0 ≤ target ≤ 65535` (any configuration). -/
theorem C14_z80_rel (cfg : Cfg) (cpu pc : Nat) (mn : Mn) (ops : List Opnd) (bs : List Byte) (hmn : mn = .JR ∨ mn = .DJNZ)
    (h : IZ80.encode cfg cpu pc ⟨mn, ops⟩ = .ok bs) :
    ∃ op d target, bs = [op, d] ∧ ops.getLast?.bind valOf = some target ∧
      target = (pc : Int) + 2 + sext8 d.toNat ∧ 0 ≤ target ∧ target ≤ 65535 := by
  obtain ⟨hj1, hj2, hd1, hd2⟩ := C14_z80_table.2.2.2
  have key : ∀ (dmin dmax : Int) (op : Nat) (o : Opnd), dmin = -128 → dmax = 127 → relTail dmin dmax pc op o = .ok bs →
      ∃ op d target, bs = [op, d] ∧ valOf o = some target ∧ target = (pc : Int) + 2 + sext8 d.toNat ∧ 0 ≤ target ∧ target ≤ 65535 := by
    intro dmin dmax op o h1 h2 hr
    obtain ⟨v, hv, h16, hd, rfl⟩ := relTail_bytes dmin dmax h1 h2 pc op o bs hr
    exact ⟨_, _, v, rfl, hv, (reloc_toByte pc v hd).symm, h16.1, h16.2⟩
  rcases hmn with rfl | rfl
  · rw [encode_eq cfg cpu pc .JR (.jr 0) ops rfl] at h
    simp only [dispatch, layout] at h
    rcases ops with _ | ⟨o, _ | ⟨o2, _ | ⟨o3, t⟩⟩⟩
    · cases h
    · exact key _ _ _ o hj1 hj2 h
    · simp only [decodeJR] at h
      cases hc : condOf (erase o) with
      | none => simp [hc] at h
      | some k =>
        simp only [hc] at h
        by_cases hk : k > 3
        · simp [hk] at h
        · simp only [hk, if_false] at h
          exact key _ _ _ o2 hj1 hj2 h
    · cases h
  · rw [encode_eq cfg cpu pc .DJNZ (.djnz 0) ops rfl] at h
    simp only [dispatch, layout] at h
    rcases ops with _ | ⟨o, _ | ⟨o2, t⟩⟩
    · cases h
    · exact key _ _ _ o hd1 hd2 h
    · cases h

example : okBytes (IZ80.encode genCfg 0 0x1000 ⟨.JR, [.r8 .C, .imm 0x0f82]⟩) = some [b 0x38, b 0x80] := by decide

/-- **Known finding** `z80-sub-hl-abs-assembled-as-z380-form`: with the pinned `DecodeALU8` (no `ChkMinCPU` in the
destination-`HL` branch) `SUB HL,(nn)` is assembled on CPU Z80 to `ED D6 lo hi`; the statement is not in the Z80
instruction tables and the bytes are not in the Z80 opcode map. -/
theorem C14_finding_z80_sub_hl (cfg : Cfg) (hq : cfg.subHLAbs = true) :
    okBytes (IZ80.encode cfg 0 0x100 ⟨.SUB, [.r16 .HL, .mem 0x1234]⟩) = some [b 0xED, b 0xD6, b 0x34, b 0x12] ∧
    legal 0 0x100 ⟨.SUB, [.r16 .HL, .mem 0x1234]⟩ = false ∧ decode 0 0x100 [b 0xED, b 0xD6, b 0x34, b 0x12] = none := by
  obtain ⟨q1, q2, q3, q4⟩ := cfg
  simp only at hq
  subst hq
  cases q2 <;> cases q3 <;> cases q4 <;> decide

/-- **Known finding** `z80-sub-sp-imm-assembled-as-z380-form`: `SUB SP,nn` is assembled on CPU Z80 to `ED 92 lo hi`. -/
theorem C14_finding_z80_sub_sp (cfg : Cfg) (hq : cfg.subSPImm = true) :
    okBytes (IZ80.encode cfg 0 0x100 ⟨.SUB, [.r16 .SP, .imm 0x1234]⟩) = some [b 0xED, b 0x92, b 0x34, b 0x12] ∧
    legal 0 0x100 ⟨.SUB, [.r16 .SP, .imm 0x1234]⟩ = false ∧ decode 0 0x100 [b 0xED, b 0x92, b 0x34, b 0x12] = none := by
  obtain ⟨q1, q2, q3, q4⟩ := cfg
  simp only at hq
  subst hq
  cases q1 <;> cases q3 <;> cases q4 <;> decide

/-- **Known finding** `z80-in-ind-hl-assembled-as-undocumented-ed70`: `IN (HL),(C)` is assembled on CPU Z80 to the
undocumented `ED 70`. -/
theorem C14_finding_z80_in_hl (cfg : Cfg) (hq : cfg.inIndHL = true) :
    okBytes (IZ80.encode cfg 0 0x100 ⟨.IN, [.r8 .iHL, .indC]⟩) = some [b 0xED, b 0x70] ∧
    legal 0 0x100 ⟨.IN, [.r8 .iHL, .indC]⟩ = false ∧ decode 0 0x100 [b 0xED, b 0x70] = none := by
  obtain ⟨q1, q2, q3, q4⟩ := cfg
  simp only at hq
  subst hq
  cases q1 <;> cases q2 <;> cases q4 <;> decide

/-- **Known finding** `z80-out-ind-hl-assembled-as-undocumented-ed71`: `OUT (C),(HL)` is assembled on CPU Z80 to the
undocumented `ED 71`. -/
theorem C14_finding_z80_out_hl (cfg : Cfg) (hq : cfg.outIndHL = true) :
    okBytes (IZ80.encode cfg 0 0x100 ⟨.OUT, [.indC, .r8 .iHL]⟩) = some [b 0xED, b 0x71] ∧
    legal 0 0x100 ⟨.OUT, [.indC, .r8 .iHL]⟩ = false ∧ decode 0 0x100 [b 0xED, b 0x71] = none := by
  obtain ⟨q1, q2, q3, q4⟩ := cfg
  simp only at hq
  subst hq
  cases q1 <;> cases q2 <;> cases q3 <;> decide

end AslModel.C14
