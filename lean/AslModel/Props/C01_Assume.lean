import AslModel.Lemmas.PassAssume
import AslModel.Props.C01
/-!
# C01, part "assumptions" (model: `Model/PassAssume.lean`)

The fixpoint claim of C01 for programs whose encodings depend on state that *statements* set - `ASSUME` on the 6809
direct page register, the 65CE02 base page, the 65816 `DPR`/`DT`, the 80C166 `DPPn`, …, likewise the `ON/OFF`
switches - for every program, every size rule, every type of assumption state.

With the per-pass reset (`as.c AssembleFile_InitPass` → `InitPass()` → the procedures registered through
`AddInitPassProc`, e.g. `InitCode_6809: DPRValue = 0`) the assumption a line is encoded under is a function of the
program text (`specRegs` = the manual's reading of `ASSUME`), so the pass loop *is* the plain loop of `Model/Pass.lean`
over the program with every size rule specialised to that assumption (`erase`), and everything proved there carries
over: every use encodes the final value, one further pass changes nothing, the n-pass result is the result of the
one-pass arrangement (all values known beforehand).  Without the reset this is false - proved on the 8-statement
program of the shape `var / lda var / ASSUME DPR:$20 / lda var / ldx #fwd / fwd:`: the passes agree with each other, the
loop leaves silently, and the first `lda` is encoded under an assumption nobody declared for its line.
-/
namespace AslModel.C01
open AslModel.PassAssume
open AslModel.Pass (Tab emptyTab)

variable {R : Type}

/-- **With the reset, pass k+1 does not depend on the assumption state pass k ended with**: whatever two passes left
behind in their assumption registers, if they hand over the same symbol table the next pass is the same. -/
theorem C01_assume_reset_independent (init : R) (p : List (Stmt R)) (s1 s2 : PS R) (h : s1.tab = s2.tab) :
    pass s1.tab (next true init s1) p = pass s2.tab (next true init s2) p := by
  simp [next, h]

/-- **A pass is the plain pass over the erased program**, and every reference was encoded under the assumption the
program text declares for its line (the start value, then every `ASSUME` in front of the line). -/
theorem C01_assume_pass_is_plain (T : Tab) (r : R) (p : List (Stmt R)) :
    plainPS (pass T r p) = Pass.pass T (erase r p) ∧ (pass T r p).out.map (·.reg) = specRegs r p :=
  ⟨pass_plain T r p, pass_regs T r p⟩

/-- **With the reset the pass loop is the plain pass loop** of `Model/Pass.lean` over the erased program: same number
of passes, same addresses, symbol table and encoded values - the assumption register is no extra state of the loop. -/
theorem C01_assume_loop_is_plain (init : R) (p : List (Stmt R)) (fuel : Nat) (T : Tab) (k : Nat) :
    (assemble true init p fuel T init k).map (fun x => (x.1, plainPS x.2)) = Pass.assemble (erase init p) fuel T k := by
  induction fuel generalizing T k with
  | zero => rfl
  | succ f ih =>
    have hp := pass_plain T init p
    have hrep : (pass T init p).repass = (Pass.pass T (erase init p)).repass := by rw [← hp]; rfl
    have htab : (pass T init p).tab = (Pass.pass T (erase init p)).tab := by rw [← hp]; rfl
    simp only [assemble, Pass.assemble]
    rw [← hrep]
    cases hr : (pass T init p).repass with
    | true =>
      simp only [if_true]
      have : next true init (pass T init p) = init := rfl
      rw [this, htab]
      exact ih _ _
    | false =>
      simp [hp]

/-- **Fixpoint at loop exit, under the declared assumptions**: whenever the pass loop with the per-pass reset leaves
(after any number of passes), (1) every reference holds the symbol's final value, (2) every reference was encoded
under the assumption in force at its line, (3) the one-pass arrangement of the same program - a pass that knows all
final values beforehand, i.e. one further pass - produces the same references, the same symbol table and no Repass. -/
theorem C01_assume_fixpoint_at_exit (init : R) (p : List (Stmt R)) (hnd : (labels p).Nodup)
    (fuel : Nat) (T : Tab) (n : Nat) (s : PS R) (h : assemble true init p fuel T init 0 = some (n, s)) :
    (∀ r ∈ s.out, s.tab r.sym = some r.val) ∧ s.out.map (·.reg) = specRegs init p ∧
    (pass s.tab init p).out = s.out ∧ (pass s.tab init p).tab = s.tab ∧ (pass s.tab init p).repass = false ∧ 1 ≤ n := by
  obtain ⟨T', r', rfl, hrep, hk, hr⟩ := PassAssume.assemble_some true init p fuel T init 0 n s h
  have hr' : r' = init := by
    rcases hr rfl with h1 | ⟨h1, _⟩ <;> exact h1
  subst hr'
  have hp := pass_plain T' r' p
  have hrep' : (Pass.pass T' (erase r' p)).repass = false := by rw [← hp]; exact hrep
  have hc := erase_clean r' p
  have hnd' : (Pass.labels (erase r' p)).Nodup := by rw [erase_labels]; exact hnd
  have h1 := C01_refs_final T' (erase r' p) hc hrep'
  have h2 := C01_extra_pass T' (erase r' p) hc hnd' hrep'
  have htab : (Pass.pass T' (erase r' p)).tab = (pass T' r' p).tab := by rw [← hp]; rfl
  have hout : (Pass.pass T' (erase r' p)).out = (pass T' r' p).out.map Ref.plain := by rw [← hp]; rfl
  have hp2 := pass_plain (pass T' r' p).tab r' p
  rw [htab] at h2
  refine ⟨?_, pass_regs T' r' p, ?_, ?_, ?_, by omega⟩
  · intro r hm
    have := h1 r.addr r.sym r.val (by rw [hout]; exact List.mem_map.mpr ⟨r, hm, rfl⟩)
    rw [htab] at this
    exact this
  · apply out_ext
    · have : (pass (pass T' r' p).tab r' p).out.map Ref.plain = (Pass.pass (pass T' r' p).tab (erase r' p)).out := by
        rw [← hp2]; rfl
      rw [this, h2.2.1, hout]
    · rw [pass_regs, pass_regs]
  · have : (pass (pass T' r' p).tab r' p).tab = (Pass.pass (pass T' r' p).tab (erase r' p)).tab := by rw [← hp2]; rfl
    rw [this, h2.2.2.1]
  · have : (pass (pass T' r' p).tab r' p).repass = (Pass.pass (pass T' r' p).tab (erase r' p)).repass := by rw [← hp2]; rfl
    rw [this, h2.2.2.2]

/-! ### without the reset -/

/-- `var` at $2010 / `lda var` / `ASSUME DPR:$20` / `lda var` / `ldx #fwd` / `fwd:` in the statement language (6809 page
rule for the two `lda`, fixed three bytes for the `ldx`) -/
def assumeDemo : List (Stmt Nat) :=
  [.skip 0x2010, .label 1, .skip 1, .ref 1 sizePage, .assume (fun _ => 0x20), .ref 1 sizePage, .ref 2 (fun _ _ => 3), .label 2]

/-- what one recorded reference shows in the code file: address, value, assumption it was encoded under -/
def Ref.view (r : Ref Nat) : Nat × Int × Nat := (r.addr, r.val, r.reg)

/-- with the reset: two passes; the first `lda` is extended (3 bytes: the next reference sits at $2014) under
assumption 0, the second direct (2 bytes) under $20 -/
theorem C01_assume_demo_with_reset :
    (assemble true 0 assumeDemo 10 emptyTab 0 0).map (fun x => (x.1, x.2.out.map Ref.view)) =
      some (2, [(0x2011, 0x2010, 0), (0x2014, 0x2010, 0x20), (0x2016, 0x2019, 0x20)]) := by
  decide +kernel

/-- **Negation without the reset, 1**: the result of pass k+1 *does* depend on the assumption state pass k ended
with - two pass states with the same symbol table and different final registers are followed by different passes. -/
theorem C01_assume_noreset_depends :
    ∃ (p : List (Stmt Nat)) (s1 s2 : PS Nat), s1.tab = s2.tab ∧
      (pass s1.tab (next false 0 s1) p).out ≠ (pass s2.tab (next false 0 s2) p).out := by
  refine ⟨assumeDemo, { reg := 0x20, tab := emptyTab }, { reg := 0, tab := emptyTab }, rfl, ?_⟩
  intro h
  have h2 := congrArg (List.map (·.reg)) h
  rw [pass_regs, pass_regs] at h2
  revert h2
  decide

/-- **Negation without the reset, 2**: on `assumeDemo` the loop without the reset leaves silently after three passes
(passes two and three agree), and the code it leaves differs from the code with the reset - the first `lda`, which
stands in front of every `ASSUME`, is encoded direct (2 bytes: the next reference sits at $2013) under the assumption
$20 that only a later line declares; the assumptions the references were encoded under are not the ones in force at
their lines. -/
theorem C01_assume_noreset_wrong_fixpoint :
    (assemble false 0 assumeDemo 10 emptyTab 0 0).map (fun x => (x.1, x.2.out.map Ref.view)) =
      some (3, [(0x2011, 0x2010, 0x20), (0x2013, 0x2010, 0x20), (0x2015, 0x2018, 0x20)]) ∧
    (assemble false 0 assumeDemo 10 emptyTab 0 0).map (fun x => x.2.out.map (·.reg)) ≠ some (specRegs 0 assumeDemo) := by
  constructor
  · decide +kernel
  · decide +kernel

/-! Non-vacuity: `assumeDemo` has distinct labels and the loop with the reset leaves on it (hypotheses of
`C01_assume_fixpoint_at_exit`); two pass states with equal tables and different registers exist (hypothesis of
`C01_assume_reset_independent`). -/
example : (labels assumeDemo).Nodup := by decide
example : (assemble true 0 assumeDemo 10 emptyTab 0 0).isSome = true := by decide +kernel
example : ∃ s1 s2 : PS Nat, s1.tab = s2.tab ∧ s1.reg ≠ s2.reg :=
  ⟨{ reg := 0x20, tab := emptyTab }, { reg := 0, tab := emptyTab }, rfl, by decide⟩

end AslModel.C01
