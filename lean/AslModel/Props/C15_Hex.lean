import AslModel.Lemmas.DisHexLoad
import AslModel.Lemmas.DisHexFile
import AslModel.Lemmas.DisRetrieve
import AslModel.Spec.Dis
/-! C15, part "image given as Intel-hex file" (`dasl -hexfile`): theorems about `Model/Dis/HexLoad.lean`, the transcription of
das.c `CMD_HexFile` (+ `FlushChunk`, codechunks.c `MoveCodeChunkToList`).

The round-trip property speaks about "the loaded image".  For `-hexfile` that image is built record by record: a data record is
appended to the chunk being collected when it starts at its end, otherwise the chunk is closed and a new one is opened at the
record's own address.  What is proved:
* `C15_hexload_content` – for EVERY sequence of data records (any order, overlapping or not, empty records included): the chunk
  list the loader ends with stores byte `b` at address `a` iff some record does.  Nothing is lost, nothing is moved.
* `C15_hexload_image` – records with pairwise disjoint address ranges (what a hex file of a program is): looking an address up in
  the loaded image (`imageByte`, = `Spec.memAt`, the lookup the SPEC check of the driver uses: `C15_hexload_spec_lookup`) gives the
  byte of the record that covers it, `none` outside all records.
* `C15_hexload_order_independent` – two files with the same records in different orders load to images that agree at every address.
* `C15_hexload_fetch` – what the disassembler callbacks see: for records with pairwise disjoint ranges, in ANY order,
  `RetrieveCodeFromChunkList` (model `retrieve`) answers a request exactly when the records cover all its addresses, and with the
  bytes the records give those addresses.  Adjacent records that are not consecutive in the file still stay separate chunks, but a
  fetch across their seam is continued in the next chunk (`C15_hexload_split_fetch`; before the repair of codechunks.c it returned
  wrong bytes: former finding `dasl-instruction-across-hex-chunks`).
* `C15_hexload_file` – from the TEXT of the file: for every Intel-hex file that the independent decoder of `Spec/Hex.lean`
  (written from the public format definition; `C15_hexload_decode_def` spells its three stages out) accepts, that stays inside the
  16-bit address space `CMD_HexFile` knows (`Plain16`) and whose lines fit into `char Line[300]`, the model of `-hexfile` accepts
  the file and the chunk list stores byte `b` at address `a` iff `(a, b)` is a cell of the decoded file.  This covers the line
  level (`fgets` loop incl. the last line being processed twice, `GetByte`, record type filter, checksum) and the chunk level, for
  every record order.  `C15_hexload_line` is the line-level statement on its own.
Tested against the real dasl every run (not proved): that `Model/Dis/HexLoad.lean` is what das.c does (stdout, stderr and area list
of the real dasl on p2hex-written and harness-written hex files in ascending, descending, shuffled and interleaved record order). -/
namespace AslModel.Dis
open AslModel.Dis.HexLoad

/-- the loaded image stores `b` at `a` iff one of the data records does – for every record sequence -/
theorem C15_hexload_content (rs : List CodeChunk) (a : Nat) (b : UInt8) :
    Holds (loadRecs rs) a b ↔ Holds rs a b :=
  loadRecs_holds rs a b

/-- disjoint records: the image holds at every address exactly the byte of the covering record -/
theorem C15_hexload_image (rs : List CodeChunk) (hd : HexLoad.Disjoint rs) (a : Nat) :
    imageByte (loadRecs rs) a = imageByte rs a :=
  imageByte_congr (loadRecs rs) rs (loadRecs_holds rs) (functional_of_disjoint rs hd) a

/-- the same records in any other order give the same memory -/
theorem C15_hexload_order_independent (rs rs' : List CodeChunk) (hp : rs.Perm rs') (hd : HexLoad.Disjoint rs) (a : Nat) :
    imageByte (loadRecs rs) a = imageByte (loadRecs rs') a := by
  have hf : Functional rs := functional_of_disjoint rs hd
  have hf' : Functional (loadRecs rs') := by
    intro x b b' h1 h2
    exact hf x b b' ((holds_perm hp x b).mpr ((loadRecs_holds rs' x b).mp h1)) ((holds_perm hp x b').mpr ((loadRecs_holds rs' x b').mp h2))
  refine imageByte_congr (loadRecs rs) (loadRecs rs') ?_ hf' a
  intro x b
  rw [loadRecs_holds, loadRecs_holds]
  exact holds_perm hp x b

/-- `imageByte` is the lookup of the SPEC (`Spec.memAt`) on the same chunks -/
theorem C15_hexload_spec_lookup (img : Image) (a : Nat) :
    Spec.memAt (img.map (fun c => (c.start, c.data))) a = imageByte img a := by
  unfold Spec.memAt imageByte
  rw [List.find?_map]
  cases h : List.find? ((fun c : Nat × List UInt8 => decide (c.1 ≤ a) && decide (a < c.1 + c.2.length)) ∘ fun c : CodeChunk => (c.start, c.data)) img with
  | none =>
    have : List.find? (fun c : CodeChunk => decide (c.start ≤ a) && decide (a < c.start + c.data.length)) img = none := h
    simp [this]
  | some c =>
    have : List.find? (fun c : CodeChunk => decide (c.start ≤ a) && decide (a < c.start + c.data.length)) img = some c := h
    simp [this]

/-- a line the Intel-HEX definition reads as the data record `(off, d)` is read by the model of `CMD_HexFile` as that record -/
theorem C15_hexload_line (l : List Char) (off : Nat) (d : List UInt8) (h : Hex.ihexLine l = some (.data off d)) :
    ∃ r, parseLine l = .data r ∧ r.start = off ∧ r.data = d :=
  parseLine_of_spec l off d h

/-- the three stages of `Hex.decodeIhex 0`: newline-terminated lines, every line a valid record, the record sequence ends with EOF -/
theorem C15_hexload_decode_def (text : List Char) (dec : Hex.Decoded) :
    Hex.decodeIhex 0 text = some dec ↔
    ∃ ls irs, Hex.splitLines text = some ls ∧ ls.mapM Hex.ihexLine = some irs ∧ Hex.ihexRun false 0 irs = some dec := by
  have hv : Hex.ihexLineV 0 = Hex.ihexLine := by
    funext l
    simp [Hex.ihexLineV]
  unfold Hex.decodeIhex Hex.decodeIhexLines
  rw [hv]
  constructor
  · intro h
    cases hl : Hex.splitLines text with
    | none => simp [hl] at h
    | some ls =>
      simp only [hl] at h
      cases hm : ls.mapM Hex.ihexLine with
      | none => simp [hm] at h
      | some irs =>
        simp only [hm] at h
        exact ⟨ls, irs, rfl, hm, h⟩
  · rintro ⟨ls, irs, hl, hm, hr⟩
    simp [hl, hm, hr]

/-- from the text of the file to the image: what the loader stores is what the format definition says the file contains -/
theorem C15_hexload_file (text : List Char) (ls : List (List Char)) (irs : List Hex.IRec) (dec : Hex.Decoded)
    (hl : Hex.splitLines text = some ls) (hr : ls.mapM Hex.ihexLine = some irs) (hrun : Hex.ihexRun false 0 irs = some dec)
    (hshort : ∀ l ∈ ls, l.length + 2 ≤ lineBuf) (h16 : Plain16 irs) :
    ∃ img err, loadHex text = some (img, err) ∧ ∀ a b, Holds img a b ↔ (a, b) ∈ dec.cells := by
  have hne : ls ≠ [] := by
    intro h
    subst h
    simp only [List.mapM_nil, Option.pure_def, Option.some.injEq] at hr
    subst hr
    simp [Hex.ihexRun] at hrun
  obtain ⟨l, hlast, hfl⟩ := fileLines_of_spec text ls irs hl hr hne hshort
  obtain ⟨r, hrmem, hmap⟩ := mapM_append_last ls irs hr l hlast
  have hrec := records_of_spec (ls ++ [l]) (irs ++ [r]) hmap
  refine ⟨(run ((irs ++ [r]).filterMap dataOf)).img, (run ((irs ++ [r]).filterMap dataOf)).err, ?_, ?_⟩
  · unfold loadHex
    simp [hfl, hrec]
  · intro a b
    have := loadRecs_holds ((irs ++ [r]).filterMap dataOf) a b
    unfold loadRecs at this
    rw [this, holds_filterMap_snoc irs r hrmem, cells_of_run irs dec h16 hrun]

/-- non-vacuity of `C15_hexload_file`: the two-record file of `C15_hexload_split_fetch` (descending record order) -/
example : ∃ ls irs dec, Hex.splitLines ":0210020034397F\n:02100000B61226\n:00000001FF\n".toList = some ls ∧
    ls.mapM Hex.ihexLine = some irs ∧ Hex.ihexRun false 0 irs = some dec ∧ (∀ l ∈ ls, l.length + 2 ≤ lineBuf) ∧
    irs = [.data 0x1002 [0x34, 0x39], .data 0x1000 [0xb6, 0x12], .eof 0] ∧
    dec.cells = [(0x1002, 0x34), (0x1003, 0x39), (0x1000, 0xb6), (0x1001, 0x12)] := by
  refine ⟨[":0210020034397F".toList, ":02100000B61226".toList, ":00000001FF".toList],
    [.data 0x1002 [0x34, 0x39], .data 0x1000 [0xb6, 0x12], .eof 0],
    ⟨[(0x1002, 0x34), (0x1003, 0x39), (0x1000, 0xb6), (0x1001, 0x12)], [], 0⟩,
    by decide +kernel, by decide +kernel, by decide +kernel, by decide +kernel, rfl, rfl⟩

example : Plain16 [.data 0x1002 [0x34, 0x39], .data 0x1000 [0xb6, 0x12], .eof 0] := by
  intro r hr
  simp only [List.mem_cons, List.not_mem_nil, or_false] at hr
  rcases hr with rfl | rfl | rfl <;> simp

/-- non-vacuity: three records, the middle one first, the lowest one last (adjacent and gapped neighbours) -/
example : HexLoad.Disjoint [⟨0x110, [1, 2]⟩, ⟨0x200, [3]⟩, ⟨0x100, [4, 5]⟩] := by
  simp [HexLoad.Disjoint]

example : loadRecs [⟨0x110, [1, 2]⟩, ⟨0x112, [9]⟩, ⟨0x200, [3]⟩, ⟨0x100, [4, 5]⟩] =
    [⟨0x100, [4, 5]⟩, ⟨0x110, [1, 2, 9]⟩, ⟨0x200, [3]⟩] := by decide

example : [(⟨0x110, [1, 2]⟩ : CodeChunk), ⟨0x100, [4, 5]⟩].Perm [⟨0x100, [4, 5]⟩, ⟨0x110, [1, 2]⟩] :=
  List.Perm.swap _ _ _

/-- a fetch from the loaded image returns the memory content, whatever the order of the records in the file: for data records with
pairwise disjoint address ranges, a request `RetrieveCodeFromChunkList` answers has the requested length and every byte of it is
the byte the covering record gives that address; and every request all of whose addresses are covered by records is answered. -/
theorem C15_hexload_fetch (rs : List CodeChunk) (hd : HexLoad.Disjoint rs) (a n : Nat) :
    (∀ bs, retrieve (loadRecs rs) a n = some bs → bs.length = n ∧ ∀ k, k < n → bs[k]? = imageByte rs (a + k)) ∧
    ((∀ k, k < n → (imageByte rs (a + k)).isSome = true) → (retrieve (loadRecs rs) a n).isSome = true) := by
  have hf : Functional rs := functional_of_disjoint rs hd
  constructor
  · intro bs h
    refine ⟨(retrieve_some _ a n bs h).1, ?_⟩
    intro k hk
    obtain ⟨b, hb, c, hc, h1, h2⟩ := retrieve_bytes _ a n bs h k hk
    have hh : Holds rs (a + k) b := (loadRecs_holds rs (a + k) b).mp ⟨c, hc, h1, h2⟩
    rw [hb]
    cases hi : imageByte rs (a + k) with
    | none => exact absurd hh (imageByte_none rs (a + k) hi b)
    | some b' => rw [hf (a + k) b b' hh (imageByte_some rs (a + k) b' hi)]
  · intro hall
    rw [retrieve_isSome_iff]
    intro k hk
    have := hall k hk
    cases hi : imageByte rs (a + k) with
    | none => rw [hi] at this; cases this
    | some b =>
      obtain ⟨c, hc, hat⟩ := (loadRecs_holds rs (a + k) b).mpr (imageByte_some rs (a + k) b hi)
      exact ⟨c, hc, hat.1, hat.lt⟩

/-- the witness of the former finding `dasl-instruction-across-hex-chunks`: the two records of `B6 12 | 34 39` at $1000 in descending
order still load to two chunks (they are not joined), but the two-byte fetch at $1001 – the operand of `ldaa $1234` – now returns
`12 34` as it does for the ascending file, where the records are joined (before the repair of `RetrieveCodeFromChunkList`: `12 12`) -/
theorem C15_hexload_split_fetch :
    loadRecs [⟨0x1002, [0x34, 0x39]⟩, ⟨0x1000, [0xb6, 0x12]⟩] = [⟨0x1000, [0xb6, 0x12]⟩, ⟨0x1002, [0x34, 0x39]⟩] ∧
    retrieve (loadRecs [⟨0x1002, [0x34, 0x39]⟩, ⟨0x1000, [0xb6, 0x12]⟩]) 0x1001 2 = some [0x12, 0x34] ∧
    loadRecs [⟨0x1000, [0xb6, 0x12]⟩, ⟨0x1002, [0x34, 0x39]⟩] = [⟨0x1000, [0xb6, 0x12, 0x34, 0x39]⟩] ∧
    retrieve (loadRecs [⟨0x1000, [0xb6, 0x12]⟩, ⟨0x1002, [0x34, 0x39]⟩]) 0x1001 2 = some [0x12, 0x34] := by
  decide

/-- non-vacuity of `C15_hexload_fetch`: the descending file is a list of disjoint records -/
example : HexLoad.Disjoint [⟨0x1002, [0x34, 0x39]⟩, ⟨0x1000, [0xb6, 0x12]⟩] := by simp [HexLoad.Disjoint]

end AslModel.Dis
