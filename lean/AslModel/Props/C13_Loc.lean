import AslModel.Lemmas.SymLocFirst
/-! C13, macro-local label spaces: property theorems over `Model/SymLoc.lean` (handle stack of `asmpars.c`, handle
discipline of the construct processors of `as.c`).  Unbounded: any program tree (any nesting depth, any number of
iterations, with / without GLOBALSYMBOLS, WHILE or not), any state.

The full statement (second half of the file): **for every program tree and every start state with empty handle stack, the
list of statements with the key each label is entered under and the key each reference is found under (`traceItems`,
observation of `execItems` - `Model/SymLocObs.lean`) is the expansion `LocScope.expand` of the SPEC, `key` = the model's
name folding, the handles of the iterations numbered in the order they were opened** - innermost enclosing expansion
first, each expansion / iteration its own space, nothing leaks out of a finished expansion, GLOBALSYMBOLS bodies use the
enclosing space.  It is proved (`C13_loc_refines`) for the pass structure the model has:

* for every pass whose local table is *settled* (`settled`: it holds exactly the keys the pass enters its labels under) -
  that is every pass after the first (`C13_loc_settled_next_pass`, `C13_loc_refines_later_pass`);
* in the *first* pass the table is empty; the statement holds for every program in which no reference precedes the label of
  its own body - the SPEC's own flag, `(expand ..).1` second components (`C13_loc_refines_first_pass`; technical hypothesis:
  no `#` in a label name, which no symbol name can contain);
* a reference that precedes the label of its own body cannot find it in the first pass: there the statement is false
  (`C13_loc_refines_hypothesis_needed`; the known findings `forward-ref-in-macro-body-binds-outer-symbol-when-no-second-pass`
  / `forward-ref-binds-outer-symbol-when-no-second-pass` are exactly this; `C13_finding_forward_ref_in_macro_body`);
* where the SPEC reports a reference as left open by the manual (`dynamic`: a reference in a macro expansion to a label of
  the body the macro was called from) the model resolves it like a loop body would (`C13_loc_refines_dynamic_scoping`:
  macro calls read as loops of one iteration, no hypothesis about `dynamic`);
* statements inside constructs are ordinary names (`PItems.ordinary`): temporary symbols (`$$x`, `.x`, `-`, `+`, `/`) in bodies
  are outside the SPEC of the label spaces (`Spec/LocScope.lean`; the check reports them as `unspecified`). -/
namespace AslModel.SymLoc
open AslModel.Sym AslModel.Generated.Sym

/-- **After any construct the handle stack is the one before it** (`MomLocHandle` and the chain `FirstLocHandle`), for
every construct - macro expansion, REPT / IRP / IRPN / IRPC with any number of iterations (0 included), WHILE, with or
without GLOBALSYMBOLS, nested to any depth: every `PushLocHandle` of an iteration is matched by the `PopLocHandle` of the
next iteration's first line or of the restorer. -/
theorem C13_loc_handle_stack_restored (i : Item) (st : LSt) :
    (execItem i st).mom = st.mom ∧ (execItem i st).conts = st.conts :=
  ⟨(execItem_frame i st).mom, (execItem_frame i st).conts⟩

/-- the same for any statement list (a whole body, a whole program) -/
theorem C13_loc_handle_stack_restored_list (is : Items) (st : LSt) :
    (execItems is st).mom = st.mom ∧ (execItems is st).conts = st.conts :=
  ⟨(execItems_frame is st).mom, (execItems_frame is st).conts⟩

/-- a whole pass ends with an empty handle stack: nothing is left for `ClearLocStack` -/
theorem C13_loc_pass_balanced (st : LSt) (line0 : Nat) (prog : Items) (h : st.conts = []) :
    (execItems prog (initPassL st line0)).mom = -1 ∧ (execItems prog (initPassL st line0)).conts = [] := by
  have f := execItems_frame prog (initPassL st line0)
  exact ⟨f.mom.trans rfl, f.conts.trans h⟩

/-! ### lookup: local spaces first (innermost outward), then sections, then global -/

/-- **`FindLocNode` = the first open space, innermost outward, that has the name** -/
theorem C13_loc_find_innermost_first (st : LSt) (n : Name) :
    findLocNode st n =
      (openSpaces st).findSome? (fun h => tfind st.ltab (fold st.g.cs (chkTmp3Ref st.g n), h)) := by
  unfold findLocNode openSpaces
  by_cases hm : st.mom = -1
  · simp [hm]
  · simp only [hm, if_false, List.findSome?_cons]
    cases hq : tfind st.ltab (fold st.g.cs (chkTmp3Ref st.g n), st.mom) with
    | some e => simp
    | none => simpa using walkConts_eq _ _ _

/-- **local first**: a name that an open label space holds is the value of the reference, whatever the sections and the
global table hold under that name -/
theorem C13_loc_lookup_local_first (st : LSt) (ref : Name) (e : Entry)
    (h : findLocNode st ((chkTmp1 st.g ((chkTmp2Ref st.g ref).getD ref)).getD ((chkTmp2Ref st.g ref).getD ref)) = some e) :
    lookupL st ref = (st, e.val) := by
  unfold lookupL
  simp only [h]

/-- **then sections**: a name no open label space holds is looked up by `FindNode` (current section, parents, global -
`C13_lookup`), and the local machinery is not touched -/
theorem C13_loc_lookup_then_sections (st : LSt) (ref : Name)
    (h : findLocNode st ((chkTmp1 st.g ((chkTmp2Ref st.g ref).getD ref)).getD ((chkTmp2Ref st.g ref).getD ref)) = none) :
    lookupL st ref = ({ st with g := (Sym.lookupSymbol st.g ref).1 }, (Sym.lookupSymbol st.g ref).2) := by
  unfold lookupL
  simp only [h]

/-- outside every construct no label space is open: a reference is an ordinary section / global lookup -/
theorem C13_loc_outside_is_global (st : LSt) (ref : Name) (h : st.mom = -1) :
    lookupL st ref = ({ st with g := (Sym.lookupSymbol st.g ref).1 }, (Sym.lookupSymbol st.g ref).2) := by
  apply C13_loc_lookup_then_sections
  simp [findLocNode, h]

/-- **Behind a construct the outer space is current again**: a reference that follows any construct (any kind, any
number of iterations, any nesting) at the top level resolves by the section rules alone - the labels of the body, of any
iteration, are out of reach. -/
theorem C13_loc_after_construct_global (i : Item) (st : LSt) (ref : Name) (h : st.mom = -1) :
    lookupL (execItem i st) ref =
      ({ execItem i st with g := (Sym.lookupSymbol (execItem i st).g ref).1 }, (Sym.lookupSymbol (execItem i st).g ref).2) :=
  C13_loc_outside_is_global _ _ ((C13_loc_handle_stack_restored i st).1.trans h)

/-- … and a label that follows the construct is an ordinary (section / global) label again: `name[]` reaches it -/
theorem C13_loc_label_after_construct_global (i : Item) (st : LSt) (n : Name) (v : Int) (h : st.mom = -1) :
    defineLabelL (execItem i st) n v =
      { execItem i st with g := Sym.defineSymbol (execItem i st).g n v false .label } := by
  have hm : (execItem i st).mom = -1 := (C13_loc_handle_stack_restored i st).1.trans h
  unfold defineLabelL
  split <;> simp [hm]

/-- a label of a body goes to the local table only: the global table (sections included) is untouched, so the same name
outside keeps its meaning -/
theorem C13_loc_label_keeps_global_table (st : LSt) (n : Name) (v : Int) (h : st.mom ≠ -1)
    (hp : getSymSection st.g n = .plain n) : (defineLabelL st n v).g.tab = st.g.tab := by
  unfold defineLabelL
  rw [hp]
  simp only [h, if_false]
  unfold enterLoc
  cases symbolAdder (tfind _ (locKey _ _)) v false with
  | error e => simp [enterLocRes, St.err, chkTmpDef_tab]
  | ok p => simp [enterLocRes, chkTmpDef_tab]

/-- … and it is entered under the handle of the current space -/
theorem C13_loc_label_in_current_space (st : LSt) (n : Name) (v : Int) (h : st.mom ≠ -1)
    (hp : getSymSection st.g n = .plain n) (hnew : tfind st.ltab (fold st.g.cs (chkTmpDef st.g n .label).2, st.mom) = none) :
    tfind (defineLabelL st n v).ltab (fold st.g.cs (chkTmpDef st.g n .label).2, st.mom)
      = some { val := v, defined := true, changeable := false } := by
  unfold defineLabelL
  rw [hp]
  simp only [h, if_false]
  unfold enterLoc
  simp only [locKey, chkTmpDef_cs, hnew, symbolAdder, enterLocRes]
  exact tfind_tset_same _ _ _

/-- every iteration gets a handle no earlier space had: the handle is the counter, and the counter only grows -/
theorem C13_loc_fresh_handle (st : LSt) : (pushFresh st).mom = (st.cnt : Int) ∧ (pushFresh st).cnt = st.cnt + 1 := ⟨rfl, rfl⟩

/-! non-vacuity: a REPT of three iterations in whose body `m` is a label and is referenced; `m` is also global (7) -/
section Examples
def nm : Name := [109]
def prog : Items :=
  .cons (.op (.define nm 7 false))
    (.cons (.con false false 3 (.cons (.op (.label nm)) (.cons (.op (.use nm)) .nil)))
      (.cons (.op (.use nm)) .nil))
def fin : LSt := execItems prog (initPassL {} 0)
-- inside the loop the references give the iteration's own label (0, 3, 6; low byte first), behind it the global 7
example : fin.g.out.reverse = [0xEA, 0, 0, 0xEA, 3, 0, 0xEA, 6, 0, 7, 0] := by decide
example : fin.mom = -1 ∧ fin.conts = [] ∧ fin.cnt = 3 := by decide
example : (lookupL fin nm).2 = 7 := by decide
-- the hypotheses of the lookup / definition theorems are satisfiable: a state inside a label space
def inside : LSt := pushFresh (initPassL {} 0)
def inside2 : LSt := defineLabelL inside nm 5
example : inside.mom ≠ -1 := by decide
example : (match getSymSection inside.g nm with | .plain n => n == nm | _ => false) = true := by decide
example : tfind inside.ltab (fold inside.g.cs (chkTmpDef inside.g nm .label).2, inside.mom) = none := by decide
example : findLocNode inside2 nm = some { val := 5, defined := true, changeable := false } := by decide
example : findLocNode inside2 [110] = none := by decide
-- a nested space sees the enclosing one, a statement that switched the spaces off (`PushLocHandle(-1)`) ends the walk
example : findLocNode (pushFresh inside2) nm = some { val := 5, defined := true, changeable := false } := by decide
example : findLocNode (pushFresh (pushLoc inside2 (-1))) nm = none := by decide
end Examples

/-! ## the run of the model is the SPEC's expansion -/

/-! ### the observation (`Model/SymLocObs.lean`) says what the model does -/

/-- **the observed label key is the key entered**: a statement changes the local table by the key `evOf` names (`dkey`) and
by nothing else; `none`: the local table is left alone (the label, if any, goes to the global table) -/
theorem C13_loc_obs_label (st : LSt) (o : Op) (k : Key) :
    hasKey (stepL st o).ltab k = (hasKey st.ltab k || ((evOf st o).dkey == some k)) := stepL_hasKey st o k

/-- **the observed reference key is the node `FindLocNode` answers with**: the reference has the value stored under `refKey`,
the key lies in a space of the handle stack and the table holds it; `none`: `FindLocNode` finds nothing, the reference is
an ordinary section / global lookup -/
theorem C13_loc_obs_ref (st : LSt) (r : Name) :
    (∀ key, refKey st r = some key →
      key.2 ∈ st.mom :: st.conts ∧ ∃ e, tfind st.ltab key = some e ∧ lookupL st r = (st, e.val)) ∧
    (refKey st r = none →
      lookupL st r = ({ st with g := (Sym.lookupSymbol st.g r).1 }, (Sym.lookupSymbol st.g r).2)) := by
  have hf := findLocNode_refSpace st r
  constructor
  · intro key hk
    have hm := refKey_mem st r key hk
    refine ⟨hm.1, ?_⟩
    unfold refKey at hk
    cases hs : refSpace st r with
    | none => rw [hs] at hk; cases hk
    | some h =>
      rw [hs] at hk hf
      simp only [Option.map_some, Option.some.injEq] at hk
      subst hk
      have hk2 := hm.2.1
      unfold hasKey at hk2
      cases he : tfind st.ltab (refName st r, h) with
      | none => rw [he] at hk2; cases hk2
      | some e =>
        refine ⟨e, rfl, ?_⟩
        apply C13_loc_lookup_local_first
        rw [hf]
        simpa using he
  · intro hk
    apply C13_loc_lookup_then_sections
    rw [hf]
    unfold refKey at hk
    cases hs : refSpace st r with
    | none => rfl
    | some h => rw [hs] at hk; cases hk

/-! ### every iteration its own space -/

/-- **the handles given to iterations are pairwise different** (any program, any state): their position in the list of
opened spaces is a numbering of the label spaces -/
theorem C13_loc_spaces_distinct (q : Items) (st : LSt) : (openedItems q st).Nodup := openedItems_nodup q st

/-- … so two spaces have the same number only when they are the same space -/
theorem C13_loc_numbering_faithful (q : Items) (st : LSt) (h1 h2 : Int) (m1 : h1 ∈ openedItems q st)
    (h : spaceNo (openedItems q st) h1 = spaceNo (openedItems q st) h2) : h1 = h2 := by
  unfold spaceNo at h
  have := List.getElem_idxOf (List.idxOf_lt_length_of_mem m1)
  rw [← this]
  simp only [h]
  exact List.getElem_idxOf _

/-- … and every key a run from an empty handle stack enters a label under or finds a reference under carries one of these
handles (the numbering speaks about every space the statements use) -/
theorem C13_loc_handles_opened (q : Items) (st : LSt) (hm : st.mom = -1) (hc : st.conts = []) :
    ∀ e ∈ traceItems q st, ∀ key, (e.dkey = some key ∨ e.rkey = some key) → key.2 ∈ openedItems q st := by
  intro e he key hk
  have h := traceItems_handles q [] st (by intro x hx; left; simpa [hm, hc] using hx) e he key.2 (by
    unfold evHandles
    cases hk with
    | inl h1 => simp [h1]
    | inr h1 => simp [h1])
  simpa using h

/-! ### the refinement -/

/-- **`C13_loc_refines`: the model's run is the SPEC's expansion.**  For every program tree `p` and every state at the
start of a pass (empty handle stack) whose local table is settled, the statements of the run with the keys the model
entered / found (`traceItems`), the handle of each space written as its number, are exactly the statements `LocScope.expand`
produces with `key` = the model's name folding - provided the SPEC does not report a reference as left open (`dynamic`;
without this proviso: `C13_loc_refines_dynamic_scoping`). -/
theorem C13_loc_refines (p : PItems) (st : LSt) (hm : st.mom = -1) (hc : st.conts = [])
    (hord : p.ordinary false = true) (hset : settled p.toModel st = true)
    (hnd : (LocScope.expand (fold st.g.cs) (p.toSpec true)).2 = false) :
    (traceItems p.toModel st).map (render (openedItems p.toModel st)) =
      (LocScope.expand (fold st.g.cs) (p.toSpec true)).1.map (·.1) := by
  rw [← expand_erase _ p hnd]
  exact refines_settled p st hm hc hord hset

/-- **the model scopes dynamically**: with macro expansions read as what they are for the handle stack - loops of one
iteration - the refinement holds without any proviso about `dynamic`: *a reference inside an inner expansion to a name only
the outer expansion defines finds the outer one*, across macro calls as well -/
theorem C13_loc_refines_dynamic_scoping (p : PItems) (st : LSt) (hm : st.mom = -1) (hc : st.conts = [])
    (hord : p.ordinary false = true) (hset : settled p.toModel st = true) :
    (traceItems p.toModel st).map (render (openedItems p.toModel st)) =
      (LocScope.expand (fold st.g.cs) (p.toSpec false)).1.map (·.1) :=
  refines_settled p st hm hc hord hset

/-- **the first pass** (local table empty): the run is the SPEC's expansion whenever the SPEC flags no reference as preceding
the label of its own body (second components of `expand`'s list; where it does flag one the statement is false:
`C13_loc_refines_hypothesis_needed`) -/
theorem C13_loc_refines_first_pass (p : PItems) (st : LSt) (hm : st.mom = -1) (hc : st.conts = []) (ht : st.ltab = [])
    (hord : p.ordinary false = true) (hnh : p.noHash = true)
    (hnd : (LocScope.expand (fold st.g.cs) (p.toSpec true)).2 = false)
    (hnf : ∀ x ∈ (LocScope.expand (fold st.g.cs) (p.toSpec true)).1, x.2 = false) :
    (traceItems p.toModel st).map (render (openedItems p.toModel st)) =
      (LocScope.expand (fold st.g.cs) (p.toSpec true)).1.map (·.1) := by
  rw [← expand_erase _ p hnd] at hnf ⊢
  exact refines_first p st hm hc ht hord hnh hnf

/-- **a pass leaves a settled table for the next one** (the pass loop of `assembleL`: `exitPassL`, then `initPassL`): after a
pass that started with an empty local table or with a settled one, the next pass over the same program starts settled -/
theorem C13_loc_settled_next_pass (p : PItems) (st : LSt) (line0 : Nat) (hc : st.conts = []) (hord : p.ordinary false = true)
    (h : st.ltab = [] ∨ settled p.toModel (initPassL st line0) = true) :
    settled p.toModel (initPassL (exitPassL (execItems p.toModel (initPassL st line0))) line0) = true ∧
      (exitPassL (execItems p.toModel (initPassL st line0))).conts = [] :=
  settled_next_pass p st line0 hc hord h

/-- **every pass after the first refines the SPEC**: start from any state with empty handle stack and empty local table
(`AssembleFile` before the first pass), run any number `n + 1` of passes, and the next pass is the SPEC's expansion -/
theorem C13_loc_refines_later_pass (p : PItems) (st : LSt) (line0 n : Nat) (hc : st.conts = []) (ht : st.ltab = [])
    (hord : p.ordinary false = true) (hnd : (LocScope.expand (fold st.g.cs) (p.toSpec true)).2 = false) :
    (traceItems p.toModel (initPassL (afterPasses p line0 (n + 1) st) line0)).map
        (render (openedItems p.toModel (initPassL (afterPasses p line0 (n + 1) st) line0))) =
      (LocScope.expand (fold st.g.cs) (p.toSpec true)).1.map (·.1) := by
  have hs := afterPasses_settled p line0 hord n st hc (Or.inl ht)
  have hcs := afterPasses_cs p line0
  have hcs1 : (initPassL (afterPasses p line0 (n + 1) st) line0).g.cs = st.g.cs := by
    have : (initPassL (afterPasses p line0 (n + 1) st) line0).g.cs = (afterPasses p line0 (n + 1) st).g.cs := by
      simp [initPassL, initPass]
    rw [this, hcs]
  have := C13_loc_refines p (initPassL (afterPasses p line0 (n + 1) st) line0) rfl (by simpa [initPassL] using hs.2) hord hs.1
    (by rw [hcs1]; exact hnd)
  rw [hcs1] at this
  exact this

/-! ### the corollaries the property names -/

/-- **(a) each iteration its own space**: inside a construct without GLOBALSYMBOLS every key one iteration enters a label
under carries a smaller handle than every key of the iterations that follow - no two iterations share a local label -/
theorem C13_loc_iterations_disjoint (body : PItems) (n : Nat) (first : Bool) (st : LSt) (hord : body.ordinary true = true) :
    ∀ k1 ∈ labelKeys body.toModel (iterOpen false first st),
      ∀ k2 ∈ obsLoop false (execItems body.toModel) (labelKeys body.toModel) (fun _ => []) n false
          (execItems body.toModel (iterOpen false first st)),
        k1.2 < k2.2 := by
  intro k1 h1 k2 h2
  have hne := iterOpen_mom_ne first st
  have hkb := items_keys st.g.cs body (iterOpen false first st) (WF_iterOpen first st) (by rw [iterOpen_g])
    (by rw [bne_of_ne hne]; exact hord)
  have hb := hkb.below (WF_iterOpen first st) (execItems_cnt_ge _ _) k1 h1
  have hr := loop_keys_fresh st.g.cs body (items_keys st.g.cs body) hord n false
    (execItems body.toModel (iterOpen false first st)) (by rw [execItems_cs, iterOpen_g]) k2 h2
  omega

/-- **(a) two expansions never share a local label**: the keys of any piece of program (an expansion of a macro, say) carry
smaller handles than the keys of any construct without GLOBALSYMBOLS that runs later (another expansion of the same macro),
whatever stands between them -/
theorem C13_loc_expansions_disjoint (i1 : PItem) (mid : PItems) (m wh : Bool) (n : Nat) (body : PItems) (st : LSt)
    (hwf : st.mom < (st.cnt : Int)) (hord1 : i1.ordinary (st.mom != -1) = true) (hord : body.ordinary true = true) :
    ∀ k1 ∈ keysItem i1.toModel st,
      ∀ k2 ∈ keysItem (PItem.con m wh false n body).toModel (execItems mid.toModel (execItem i1.toModel st)),
        k1.2 < k2.2 := by
  intro k1 h1 k2 h2
  have hk1 := (item_keys st.g.cs i1 st hwf rfl hord1).below hwf (execItem_cnt_ge _ _) k1 h1
  have hc := execItems_cnt_ge mid.toModel (execItem i1.toModel st)
  simp only [PItem.toModel, keysItem_con] at h2
  have hr := loop_keys_fresh st.g.cs body (items_keys st.g.cs body) hord n true
    (execItems mid.toModel (execItem i1.toModel st)) (by rw [execItems_cs, execItem_cs]) k2 h2
  omega

/-- **(b) a local label is not visible after its expansion ended**: every label of a construct without GLOBALSYMBOLS lies
under a handle that did not exist before the construct, and a reference behind the construct - on whatever nesting level -
finds only keys under handles that existed before it -/
theorem C13_loc_not_visible_after (m wh : Bool) (n : Nat) (body : PItems) (st : LSt)
    (hb : ∀ h ∈ st.mom :: st.conts, h < (st.cnt : Int)) (hord : body.ordinary true = true) (r : Name) :
    (∀ k ∈ keysItem (PItem.con m wh false n body).toModel st, (st.cnt : Int) ≤ k.2) ∧
      (∀ key, refKey (execItem (PItem.con m wh false n body).toModel st) r = some key → key.2 < (st.cnt : Int)) := by
  constructor
  · intro k hk
    simp only [PItem.toModel, keysItem_con] at hk
    exact (loop_keys_fresh st.g.cs body (items_keys st.g.cs body) hord n true st rfl k hk).1
  · intro key hk
    have hm := (refKey_mem _ r key hk).1
    rw [(execItem_frame _ st).mom, (execItem_frame _ st).conts] at hm
    exact hb _ hm

/-- **(c) a reference inside an inner expansion to a name only the outer expansion defines finds the outer one**: when a
space is opened on top of a space that holds the name (`pushFresh`: a macro call, the first iteration of a loop) and the
statements run so far in the new space (any `pre`) did not define the name there, the reference finds the outer space's
entry - also across a macro call (the handle stack knows no call boundary) -/
theorem C13_loc_inner_finds_outer (st : LSt) (pre : Items) (r : Name) (hm : st.mom ≠ -1)
    (hout : hasKey st.ltab (refName (execItems pre (pushFresh st)) r, st.mom) = true)
    (hin : hasKey (execItems pre (pushFresh st)).ltab (refName (execItems pre (pushFresh st)) r, (st.cnt : Int)) = false) :
    refKey (execItems pre (pushFresh st)) r = some (refName (execItems pre (pushFresh st)) r, st.mom) := by
  have hfr := execItems_frame pre (pushFresh st)
  have h1 : (execItems pre (pushFresh st)).mom = (st.cnt : Int) := hfr.mom
  have h2 : (execItems pre (pushFresh st)).conts = st.mom :: st.conts := hfr.conts
  have hout' : hasKey (execItems pre (pushFresh st)).ltab (refName (execItems pre (pushFresh st)) r, st.mom) = true := by
    rw [execItems_hasKey]
    have : (pushFresh st).ltab = st.ltab := rfl
    rw [this, hout]
    rfl
  unfold refKey refSpace
  have hne : (st.cnt : Int) ≠ -1 := by omega
  unfold hasKey at hin hout'
  rw [h1, h2]
  simp only [hne, if_false]
  cases hq : tfind (execItems pre (pushFresh st)).ltab (refName (execItems pre (pushFresh st)) r, (st.cnt : Int)) with
  | some e => rw [hq] at hin; cases hin
  | none =>
    simp only [walkSpace, hm, if_false]
    cases hq2 : tfind (execItems pre (pushFresh st)).ltab (refName (execItems pre (pushFresh st)) r, st.mom) with
    | none => rw [hq2] at hout'; cases hout'
    | some e => rfl

/-! ### non-vacuity, and where the hypotheses are needed -/
section RefineExamples
def mk : Name := [109, 97, 114, 107]     -- "mark"
def lq : Name := [108, 112]              -- "lp"
/-- `mark equ 7` · `rept 2` { `dw lp` · `mark: nop` · `while` ×2 { `lp:` · `dw mark` · `dw lp` } · `dw mark` } ·
macro call { `dw mark` · `lp:` } · `dw mark` -/
def rprog : PItems :=
  .cons (.op (.define mk 7 false))
  (.cons (.con false false false 2
      (.cons (.op (.use lq)) (.cons (.op (.label mk))
        (.cons (.con false true false 2 (.cons (.op (.labelOnly lq)) (.cons (.op (.use mk)) (.cons (.op (.use lq)) .nil))))
         (.cons (.op (.use mk)) .nil)))))
  (.cons (.con true false false 1 (.cons (.op (.use mk)) (.cons (.op (.labelOnly lq)) .nil)))
  (.cons (.op (.use mk)) .nil)))
def rst1 : LSt := initPassL {} 0
def rst2 : LSt := initPassL (exitPassL (execItems rprog.toModel rst1)) 0
-- the hypotheses of `C13_loc_refines` hold at the start of the second pass …
example : rst2.mom = -1 ∧ rst2.conts = [] ∧ rprog.ordinary false = true ∧ settled rprog.toModel rst2 = true ∧
    (LocScope.expand (fold rst2.g.cs) (rprog.toSpec true)).2 = false := by decide
-- … seven label spaces (the two spaces WHILE opened for its final conditions, handles 3 and 7, are not among them)
example : openedItems rprog.toModel rst2 = [0, 1, 2, 4, 5, 6, 8] := by decide
-- … and the run is not trivial: the second `dw mark` of the second REPT iteration finds `MARK` of space number 3 (handle 4)
set_option maxRecDepth 4000 in
example : ((traceItems rprog.toModel rst2).map (fun e => e.rkey))[18]? = some (some ([77, 65, 82, 75], 4)) := by decide
set_option maxRecDepth 4000 in
example : (((traceItems rprog.toModel rst2).map (render (openedItems rprog.toModel rst2)))[18]?).map (·.ref) =
    some (some ([77, 65, 82, 75] ++ [35, 35] ++ [51])) := by decide
-- the hypotheses of `C13_loc_refines_first_pass` hold for the same program in the first pass (no reference precedes its label)
example : rst1.mom = -1 ∧ rst1.conts = [] ∧ rst1.ltab = [] ∧ rprog.ordinary false = true ∧ rprog.noHash = true ∧
    (LocScope.expand (fold rst1.g.cs) (rprog.toSpec true)).2 = false ∧
    ((LocScope.expand (fold rst1.g.cs) (rprog.toSpec true)).1.all (fun x => !x.2)) = true := by decide
-- `C13_loc_settled_next_pass` / `C13_loc_refines_later_pass`: the state before the first pass
example : ({} : LSt).conts = [] ∧ ({} : LSt).ltab = [] ∧
    (LocScope.expand (fold ({} : LSt).g.cs) (rprog.toSpec true)).2 = false := by decide
-- `C13_loc_numbering_faithful`: two different spaces of the run
example : (1 : Int) ∈ openedItems rprog.toModel rst2 ∧ (4 : Int) ∈ openedItems rprog.toModel rst2 := by decide
-- `C13_loc_iterations_disjoint` / `C13_loc_expansions_disjoint` / `C13_loc_not_visible_after`: a body with ordinary names, run
-- from the start of a pass; it does enter keys
def rbody : PItems := .cons (.op (.label mk)) (.cons (.op (.use mk)) .nil)
example : rbody.ordinary true = true ∧ rst1.mom < (rst1.cnt : Int) ∧ (∀ h ∈ rst1.mom :: rst1.conts, h < (rst1.cnt : Int)) ∧
    (PItem.con true false false 1 rbody).ordinary (rst1.mom != -1) = true := by decide
example : keysItem (PItem.con true false false 1 rbody).toModel rst1 = [([77, 65, 82, 75], 0)] ∧
    keysItem (PItem.con true false false 1 rbody).toModel (execItem (PItem.con true false false 1 rbody).toModel rst1) =
      [([77, 65, 82, 75], 1)] := by decide
-- hypotheses of the corollaries: a state inside a space, the name defined in the outer space only
example : inside2.mom ≠ -1 ∧ (∀ h ∈ inside2.mom :: inside2.conts, h < (inside2.cnt : Int)) := by decide
example : hasKey inside2.ltab (refName (execItems .nil (pushFresh inside2)) nm, inside2.mom) = true ∧
    hasKey (execItems .nil (pushFresh inside2)).ltab (refName (execItems .nil (pushFresh inside2)) nm, (inside2.cnt : Int)) = false := by
  decide

/-- the witness of the known finding `forward-ref-in-macro-body-binds-outer-symbol-when-no-second-pass`:
`mark equ 1111h` · macro call { `dw mark` · `mark: nop` } -/
def fprog : PItems :=
  .cons (.op (.define mk 0x1111 false))
    (.cons (.con true false false 1 (.cons (.op (.use mk)) (.cons (.op (.label mk)) .nil))) .nil)
def fst1 : LSt := initPassL {} 0
end RefineExamples

/-- **`settled` (`C13_loc_refines`) and "no reference flagged" (`C13_loc_refines_first_pass`) cannot be dropped**: first pass,
local table empty; the reference `dw mark` in front of the body's own label `mark` is `MARK##0` in the SPEC's expansion (flag
`true`), the model finds no local key for it (and takes the global `mark`); all other hypotheses of the two theorems hold -/
theorem C13_loc_refines_hypothesis_needed :
    fst1.mom = -1 ∧ fst1.conts = [] ∧ fst1.ltab = [] ∧ fprog.ordinary false = true ∧ fprog.noHash = true ∧
      (LocScope.expand (fold fst1.g.cs) (fprog.toSpec true)).2 = false ∧ settled fprog.toModel fst1 = false ∧
      ((traceItems fprog.toModel fst1).map (render (openedItems fprog.toModel fst1))).map (fun s => (s.label, s.ref)) ≠
        ((LocScope.expand (fold fst1.g.cs) (fprog.toSpec true)).1.map (·.1)).map (fun s => (s.label, s.ref)) ∧
      ((traceItems fprog.toModel fst1).map (·.rkey))[1]? = some none ∧
      (((LocScope.expand (fold fst1.g.cs) (fprog.toSpec true)).1)[1]?).map (fun x => (x.1.ref, x.2)) =
        some (some ([77, 65, 82, 75, 35, 35, 48]), true) := by decide

/-- **the known finding, on the model**: nothing asks for a second pass, so the first pass is the last one and the code keeps
the outer value `1111h` for the reference the SPEC binds to the expansion's own label (value 2) -/
theorem C13_finding_forward_ref_in_macro_body :
    (assembleL 9 {} 0 fprog.toModel).g.passNo = 1 ∧ Sym.hasError (assembleL 9 {} 0 fprog.toModel).g = false ∧
      (assembleL 9 {} 0 fprog.toModel).g.out.reverse = [0x11, 0x11, 0xEA] ∧
      tfind (assembleL 9 {} 0 fprog.toModel).ltab ([77, 65, 82, 75], 0) = some { val := 2, defined := true, changeable := false } := by
  decide

/-- **the proviso about `dynamic` cannot be dropped**: a macro whose body refers to a label of the loop body it is called
from - the SPEC leaves the reference as written (and reports `dynamic`), the model finds the label of the calling body -/
theorem C13_loc_refines_dynamic_hypothesis_needed :
    let p : PItems := .cons (.con false false false 1
      (.cons (.op (.labelOnly mk)) (.cons (.con true false false 1 (.cons (.op (.use mk)) .nil)) .nil))) .nil
    let st := initPassL (exitPassL (execItems p.toModel (initPassL {} 0))) 0
    settled p.toModel st = true ∧ (LocScope.expand (fold st.g.cs) (p.toSpec true)).2 = true ∧
      ((traceItems p.toModel st).map (render (openedItems p.toModel st))).map (fun s => (s.label, s.ref)) ≠
        ((LocScope.expand (fold st.g.cs) (p.toSpec true)).1.map (·.1)).map (fun s => (s.label, s.ref)) ∧
      ((traceItems p.toModel st).map (·.rkey))[1]? = some (some ([77, 65, 82, 75], 0)) := by decide

/-- **`ordinary` cannot be dropped**: a named temporary symbol `$$t` as a label in a loop body - `ChkTmp1` replaces the name
by `t` + the hash of the last global label before the local machinery sees it; the SPEC of the label spaces does not speak
about temporary symbols (the check answers `unspecified` for such programs) -/
theorem C13_loc_refines_ordinary_hypothesis_needed :
    let p : PItems := .cons (.con false false false 1 (.cons (.op (.labelOnly [36, 36, 116])) .nil)) .nil
    let st := initPassL (exitPassL (execItems p.toModel (initPassL {} 0))) 0
    p.ordinary false = false ∧ settled p.toModel st = true ∧ (LocScope.expand (fold st.g.cs) (p.toSpec true)).2 = false ∧
      ((traceItems p.toModel st).map (render (openedItems p.toModel st))).map (fun s => (s.label, s.ref)) ≠
        ((LocScope.expand (fold st.g.cs) (p.toSpec true)).1.map (·.1)).map (fun s => (s.label, s.ref)) ∧
      ((traceItems p.toModel st).map (·.dkey))[0]? = some (some ([84, 1], 0)) := by decide

end AslModel.SymLoc
