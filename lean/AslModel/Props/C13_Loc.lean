import AslModel.Lemmas.SymLoc
/-! C13, macro-local label spaces: property theorems over `Model/SymLoc.lean` (handle stack of `asmpars.c`, handle
discipline of the construct processors of `as.c`).  Unbounded: any program tree (any nesting depth, any number of
iterations, with / without GLOBALSYMBOLS, WHILE or not), any state. -/
namespace AslModel.SymLoc
open AslModel.Sym AslModel.Generated.Sym

/-- **After any construct the handle stack is the one before it** (`MomLocHandle` and the chain `FirstLocHandle`), for
every construct - macro expansion, REPT / IRP / IRPN / IRPC with any number of iterations (0 included), WHILE, with or
without GLOBALSYMBOLS, nested to any depth: every `PushLocHandle` of an iteration is matched by the `PopLocHandle` of the
next iteration's first line or of the restorer. -/
theorem C13_loc_handle_stack_restored (i : Item) (st : LSt) :
    (execItem i st).mom = st.mom ∧ (execItem i st).conts = st.conts :=
  ⟨(execItem_frame i st).mom, (execItem_frame i st).conts⟩

/-- the same for any statement list (a whole body, a whole program) -/
theorem C13_loc_handle_stack_restored_list (is : Items) (st : LSt) :
    (execItems is st).mom = st.mom ∧ (execItems is st).conts = st.conts :=
  ⟨(execItems_frame is st).mom, (execItems_frame is st).conts⟩

/-- a whole pass ends with an empty handle stack: nothing is left for `ClearLocStack` -/
theorem C13_loc_pass_balanced (st : LSt) (line0 : Nat) (prog : Items) (h : st.conts = []) :
    (execItems prog (initPassL st line0)).mom = -1 ∧ (execItems prog (initPassL st line0)).conts = [] := by
  have f := execItems_frame prog (initPassL st line0)
  exact ⟨f.mom.trans rfl, f.conts.trans h⟩

/-! ### lookup: local spaces first (innermost outward), then sections, then global -/

/-- **`FindLocNode` = the first open space, innermost outward, that has the name** -/
theorem C13_loc_find_innermost_first (st : LSt) (n : Name) :
    findLocNode st n =
      (openSpaces st).findSome? (fun h => tfind st.ltab (fold st.g.cs (chkTmp3Ref st.g n), h)) := by
  unfold findLocNode openSpaces
  by_cases hm : st.mom = -1
  · simp [hm]
  · simp only [hm, if_false, List.findSome?_cons]
    cases hq : tfind st.ltab (fold st.g.cs (chkTmp3Ref st.g n), st.mom) with
    | some e => simp
    | none => simpa using walkConts_eq _ _ _

/-- **local first**: a name that an open label space holds is the value of the reference, whatever the sections and the
global table hold under that name -/
theorem C13_loc_lookup_local_first (st : LSt) (ref : Name) (e : Entry)
    (h : findLocNode st ((chkTmp1 st.g ((chkTmp2Ref st.g ref).getD ref)).getD ((chkTmp2Ref st.g ref).getD ref)) = some e) :
    lookupL st ref = (st, e.val) := by
  unfold lookupL
  simp only [h]

/-- **then sections**: a name no open label space holds is looked up by `FindNode` (current section, parents, global -
`C13_lookup`), and the local machinery is not touched -/
theorem C13_loc_lookup_then_sections (st : LSt) (ref : Name)
    (h : findLocNode st ((chkTmp1 st.g ((chkTmp2Ref st.g ref).getD ref)).getD ((chkTmp2Ref st.g ref).getD ref)) = none) :
    lookupL st ref = ({ st with g := (Sym.lookupSymbol st.g ref).1 }, (Sym.lookupSymbol st.g ref).2) := by
  unfold lookupL
  simp only [h]

/-- outside every construct no label space is open: a reference is an ordinary section / global lookup -/
theorem C13_loc_outside_is_global (st : LSt) (ref : Name) (h : st.mom = -1) :
    lookupL st ref = ({ st with g := (Sym.lookupSymbol st.g ref).1 }, (Sym.lookupSymbol st.g ref).2) := by
  apply C13_loc_lookup_then_sections
  simp [findLocNode, h]

/-- **Behind a construct the outer space is current again**: a reference that follows any construct (any kind, any
number of iterations, any nesting) at the top level resolves by the section rules alone - the labels of the body, of any
iteration, are out of reach. -/
theorem C13_loc_after_construct_global (i : Item) (st : LSt) (ref : Name) (h : st.mom = -1) :
    lookupL (execItem i st) ref =
      ({ execItem i st with g := (Sym.lookupSymbol (execItem i st).g ref).1 }, (Sym.lookupSymbol (execItem i st).g ref).2) :=
  C13_loc_outside_is_global _ _ ((C13_loc_handle_stack_restored i st).1.trans h)

/-- … and a label that follows the construct is an ordinary (section / global) label again: `name[]` reaches it -/
theorem C13_loc_label_after_construct_global (i : Item) (st : LSt) (n : Name) (v : Int) (h : st.mom = -1) :
    defineLabelL (execItem i st) n v =
      { execItem i st with g := Sym.defineSymbol (execItem i st).g n v false .label } := by
  have hm : (execItem i st).mom = -1 := (C13_loc_handle_stack_restored i st).1.trans h
  unfold defineLabelL
  split <;> simp [hm]

/-- a label of a body goes to the local table only: the global table (sections included) is untouched, so the same name
outside keeps its meaning -/
theorem C13_loc_label_keeps_global_table (st : LSt) (n : Name) (v : Int) (h : st.mom ≠ -1)
    (hp : getSymSection st.g n = .plain n) : (defineLabelL st n v).g.tab = st.g.tab := by
  unfold defineLabelL
  rw [hp]
  simp only [h, if_false]
  unfold enterLoc
  cases symbolAdder (tfind _ (locKey _ _)) v false with
  | error e => simp [enterLocRes, St.err, chkTmpDef_tab]
  | ok p => simp [enterLocRes, chkTmpDef_tab]

/-- … and it is entered under the handle of the current space -/
theorem C13_loc_label_in_current_space (st : LSt) (n : Name) (v : Int) (h : st.mom ≠ -1)
    (hp : getSymSection st.g n = .plain n) (hnew : tfind st.ltab (fold st.g.cs (chkTmpDef st.g n .label).2, st.mom) = none) :
    tfind (defineLabelL st n v).ltab (fold st.g.cs (chkTmpDef st.g n .label).2, st.mom)
      = some { val := v, defined := true, changeable := false } := by
  unfold defineLabelL
  rw [hp]
  simp only [h, if_false]
  unfold enterLoc
  simp only [locKey, chkTmpDef_cs, hnew, symbolAdder, enterLocRes]
  exact tfind_tset_same _ _ _

/-- every iteration gets a handle no earlier space had: the handle is the counter, and the counter only grows -/
theorem C13_loc_fresh_handle (st : LSt) : (pushFresh st).mom = (st.cnt : Int) ∧ (pushFresh st).cnt = st.cnt + 1 := ⟨rfl, rfl⟩

/-! non-vacuity: a REPT of three iterations in whose body `m` is a label and is referenced; `m` is also global (7) -/
section Examples
def nm : Name := [109]
def prog : Items :=
  .cons (.op (.define nm 7 false))
    (.cons (.con false false 3 (.cons (.op (.label nm)) (.cons (.op (.use nm)) .nil)))
      (.cons (.op (.use nm)) .nil))
def fin : LSt := execItems prog (initPassL {} 0)
-- inside the loop the references give the iteration's own label (0, 3, 6; low byte first), behind it the global 7
example : fin.g.out.reverse = [0xEA, 0, 0, 0xEA, 3, 0, 0xEA, 6, 0, 7, 0] := by decide
example : fin.mom = -1 ∧ fin.conts = [] ∧ fin.cnt = 3 := by decide
example : (lookupL fin nm).2 = 7 := by decide
-- the hypotheses of the lookup / definition theorems are satisfiable: a state inside a label space
def inside : LSt := pushFresh (initPassL {} 0)
def inside2 : LSt := defineLabelL inside nm 5
example : inside.mom ≠ -1 := by decide
example : (match getSymSection inside.g nm with | .plain n => n == nm | _ => false) = true := by decide
example : tfind inside.ltab (fold inside.g.cs (chkTmpDef inside.g nm .label).2, inside.mom) = none := by decide
example : findLocNode inside2 nm = some { val := 5, defined := true, changeable := false } := by decide
example : findLocNode inside2 [110] = none := by decide
-- a nested space sees the enclosing one, a statement that switched the spaces off (`PushLocHandle(-1)`) ends the walk
example : findLocNode (pushFresh inside2) nm = some { val := 5, defined := true, changeable := false } := by decide
example : findLocNode (pushFresh (pushLoc inside2 (-1))) nm = none := by decide
end Examples

end AslModel.SymLoc
