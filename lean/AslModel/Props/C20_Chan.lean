import AslModel.Lemmas.PosChan
import AslModel.Props.C20
/-!
# C20, part "channels" – every executed faulty line is named exactly once, whatever the listing options

Model: `Model/PosChan.lean` (`mrun`: the planted lines of a program, in execution order, driven through the C02 channel
model `Model/ErrChan.lean` – `WrErrorString`, `WrLstLine`, `LISTING`, `SAVE`, `RESTORE`).
Spec: `Spec/PosChan.lean` (`named`: which executed planted lines must be named, and whether a listing shows the message).

* `C20_chan_routes`        – the model writes, for every listing mode (none / console / file), every program of planted
                              lines and every start state, exactly the messages the spec names, each routed by `route`:
                              console listing **or** error channel (never both, never neither), plus the listing file while
                              the listing is on;
* `C20_chan_named_once`    – hence console ∪ error channel show exactly the named lines, once each, in execution order;
* `C20_chan_listing_file`  – and the listing file holds exactly those raised while the listing was on;
* `C20_chan_position`      – composed with `C20_position`: for every nesting tree and every assignment of roles to its planted
                              lines the messages shown carry the structural positions of exactly the lines that must be named.

Helper lemmas (`abs`: the spec state a model state stands for; `route`: the streams of a message; `step_route`: one planted
line in the channel model is one step of the spec): `Lemmas/PosChan.lean`.
-/
namespace AslModel.C20Chan
open AslModel.ErrChan AslModel.PosChan

/-- **Routing.**  For every listing mode, every list of executed planted lines and every state: the model writes exactly
the messages the spec names, each to the streams `route` gives. -/
theorem C20_chan_routes {α : Type} (c : Cfg) (hmax : c.maxErrors = 0) (evs : List (Role × α)) :
    ∀ m : M, m.fatal = false →
      mrun c m evs = (named (abs m) evs).flatMap fun x => (route c x.2).map fun d => (d, x.1) := by
  induction evs with
  | nil => intro m _; simp [mrun, named]
  | cons e es ih =>
    intro m hf
    obtain ⟨r, a⟩ := e
    obtain ⟨hd, ha, hf'⟩ := step_route c hmax m hf r
    rw [mrun, hd, ih _ hf', ha, named]
    cases h2 : (sstep (abs m) r).2 <;> simp

/-- **Named exactly once.**  Console listing ∪ error channel show exactly the executed lines that have to be named – each
once, in execution order – for every listing mode, whatever `LISTING` / `SAVE` / `RESTORE` lines the program executes. -/
theorem C20_chan_named_once {α : Type} (c : Cfg) (hmax : c.maxErrors = 0) (evs : List (Role × α)) (m : M) (hf : m.fatal = false) :
    shown (mrun c m evs) = (named (abs m) evs).map (·.1) := by
  rw [C20_chan_routes c hmax evs m hf]
  generalize named (abs m) evs = l
  induction l with
  | nil => simp [shown]
  | cons x xs ih =>
    simp only [shown, List.flatMap_cons, List.filter_append, List.map_append, List.map_cons] at ih ⊢
    rw [ih, route_shown]
    rfl

/-- **Listing file.**  It holds exactly the named messages raised while the listing was switched on (`LISTING OFF`: "nothing
at all will be written to the listing"), and only when a listing file was asked for. -/
theorem C20_chan_listing_file {α : Type} (c : Cfg) (hmax : c.maxErrors = 0) (evs : List (Role × α)) (m : M) (hf : m.fatal = false) :
    onStream .lst (mrun c m evs) =
      if c.listMode == .file then ((named (abs m) evs).filter (·.2)).map (·.1) else [] := by
  rw [C20_chan_routes c hmax evs m hf]
  generalize named (abs m) evs = l
  induction l with
  | nil => simp [onStream]
  | cons x xs ih =>
    simp only [onStream, List.flatMap_cons, List.filter_append, List.map_append] at ih ⊢
    rw [ih]
    obtain ⟨a, on⟩ := x
    unfold route
    cases c.listMode <;> cases on <;> simp <;> decide

/-- **Positions on the channels.**  For every nesting tree (include files, macro calls, REPT/IRP/IRPN/IRPC/WHILE bodies,
continuation lines), every assignment of roles (faulty line / `LISTING v` / `SAVE` / `RESTORE`) to its planted lines and
every listing mode: what console ∪ error channel show is, in execution order, exactly the structural position
(`Spec/Pos.lean`, native and GNU rendering) of every executed line that has to be named – nothing is lost while the listing
is switched off, nothing is shown twice while it is on. -/
theorem C20_chan_position (c : Cfg) (hmax : c.maxErrors = 0) (name : String) (b : Pos.Body) (role : Nat → Role) :
    shown (mrun c {} ((Pos.run Pos.cfgFixed name b).map fun o => (role o.1, o))) =
      (wantShown ((Pos.positions name b).map fun x => (role x.1, x))).map Pos.ren := by
  rw [C20_chan_named_once c hmax _ {} rfl, C20.C20_position, List.map_map]
  have h1 : ((fun o : Pos.Out => (role o.1, o)) ∘ Pos.ren) = fun x => (role x.1, Pos.ren x) := by
    funext x; simp [Pos.ren]
  have h2 : (Pos.positions name b).map (fun x => (role x.1, Pos.ren x)) =
      ((Pos.positions name b).map fun x => (role x.1, x)).map fun e => (e.1, Pos.ren e.2) := by
    simp [List.map_map, Function.comp_def]
  have h3 : abs ({} : M) = ({} : SState) := by decide
  rw [h1, h2, named_map, h3, wantShown, List.map_map, List.map_map]
  rfl

/-- non-vacuity: `-l`; line 3 is faulty with the listing off, line 5 with the listing on, line 7 is a `RESTORE` that takes the
`SAVE` of line 2 and line 8 a `RESTORE` without `SAVE`: the three faulty lines are shown once each – the first on the error
channel, the other two in the console listing -/
example : mrun { listMode := .console } {} [(.save, 2), (.listing 0, 2), (.diag false, 3), (.listing 1, 4), (.diag true, 5),
    (.listing 0, 6), (.restore, 7), (.restore, 8)] = [(.chan, 3), (.con, 5), (.con, 8)] := by decide
example : wantShown [(Role.save, 2), (.listing 0, 2), (.diag false, 3), (.listing 1, 4), (.diag true, 5),
    (.listing 0, 6), (.restore, 7), (.restore, 8)] = [3, 5, 8] := by decide
/-- with a listing file every message is on the error channel, and in the file while the listing is on -/
example : mrun { listMode := .file } {} [(.listing 0, 1), (.diag false, 2), (.listing 3, 3), (.diag false, 4)] =
    [(.chan, 2), (.lst, 4), (.chan, 4)] := by decide

end AslModel.C20Chan
