import AslModel.Lemmas.Split
/-! C16 – spelling the manual declares irrelevant does not change the code: theorems about the splitter.

The SPEC (`Spec/SrcLine.lean`) describes a source line as content + layout; `render` writes it, `Line.fields` is its
abstract value.  `WF p l` (Lemmas/Split.lean) is the exact side condition: label/mnemonic/attribute consist of name
characters (no blank, quote, bracket, backslash, `; : ,`), gaps are blanks, the mnemonic does not start in column 1,
every parameter starts and ends with a non-blank and is *closed* for the scanner (`Clean`: from the initial state
QuotPosCore passes over it without meeting a top-level `,` / `;` and ends in the initial state – i.e. its quotes and
brackets are balanced as the implementation understands them).  `PStd p`: DivideChars ",", lead-in ";", QualifyQuote
NULL, AttrChars "." (HasAttrs either way). -/
namespace AslModel.Split
open AslModel.SrcLine

/-- **The splitter is a left inverse of the manual's line format.**  For every well-formed structured line – any
label, colon or not, any amount of blanks/tabs between the fields and around the parameters, any comment – the model of
SplitLine applied to the rendered characters returns exactly the line's content. -/
theorem C16_split_render (p : Params) (hp : PStd p) (l : Line) (h : WF p l) : split p (render l) = l.fields := by
  unfold split
  rw [cut_render p hp l h]
  obtain ⟨ws, hws, hlab⟩ := label_stage p l h
  simp only [splitBody, hlab, hp.dc]
  cases hop : l.op with
  | nil =>
    obtain ⟨ha, hargs, hg2⟩ := h.noOp hop
    have ht : tailOf l = [] := by simp [tailOf, Line.opText, hop, ha, hargs, hg2, renderArgs]
    rw [ht, splitOp_empty _ _ _ hws]
    have hsa : splitAttr p [] = ([], []) := by
      unfold splitAttr; cases p.hasAttrs <;> simp [splitAttr1]
    simp [opTrailDiv, hsa, splitArgs, trimRight, Line.fields, hop, ha, hargs]
  | cons c t =>
    have hopne : l.op ≠ [] := by simp [hop]
    obtain ⟨c', t', hot⟩ : ∃ c' t', l.opText = c' :: t' := by
      unfold Line.opText; rw [hop]; exact ⟨c, _, rfl⟩
    have hch := opText_chars p l h
    rw [hot] at hch
    have hrest : stopsAt (fun c => !isSpace c) (l.gap2 ++ renderArgs l.args) := by
      cases hg : l.gap2 with
      | nil =>
        have : l.args = [] := by
          cases hargs : l.args with
          | nil => rfl
          | cons a r => exact absurd hg (h.argGap (by simp [hargs]))
        simp [this, renderArgs, stopsAt]
      | cons g gs =>
        have hgb : allBlank (g :: gs) := by rw [← hg]; exact h.gap2
        exact Or.inr ⟨g, _, rfl, by simp [allBlank_head hgb]⟩
    have hlast : (c' :: t').getLast? ≠ some ':' := by
      intro hh
      exact (hch ':' (getLast_mem _ _ hh)).2.2 rfl
    have hstage := fun n => splitOp_stage l.label ws (l.gap2 ++ renderArgs l.args) n c' t' hws
      (fun d hd => (hch d hd).1) (hch c' List.mem_cons_self).2.1 hlast hrest
    have htail : tailOf l = (c' :: t') ++ (l.gap2 ++ renderArgs l.args) := by simp [tailOf, hot]
    rw [htail, hstage]
    -- trailing separator on the mnemonic: none
    have htd : opTrailDiv [','] (c' :: t') = (c' :: t', []) := by
      unfold opTrailDiv
      cases hgl : (c' :: t').getLast? with
      | none => rfl
      | some x =>
        have hx : x ≠ ',' := (hch x (getLast_mem _ _ hgl)).2.1
        simp [hx]
    have hsa := splitAttr_stage p hp l h hopne
    rw [hot] at hsa
    simp only [htd, hsa, List.nil_append]
    -- the argument field
    have hargsEq : splitArgs p ((l.gap2 ++ renderArgs l.args).drop 1) = l.args.map Arg.text := by
      cases hargs : l.args with
      | nil =>
        have hb : allBlank ((l.gap2 ++ renderArgs []).drop 1) := by
          intro d hd
          have : d ∈ l.gap2 := by
            have := List.mem_of_mem_drop hd
            simpa [renderArgs] using this
          exact h.gap2 d this
        unfold splitArgs
        rw [trimRight_blank _ hb]
        rfl
      | cons a r =>
        obtain ⟨g, gs, hg⟩ : ∃ g gs, l.gap2 = g :: gs := by
          cases hg : l.gap2 with
          | nil => exact absurd hg (h.argGap (by simp [hargs]))
          | cons g gs => exact ⟨g, gs, rfl⟩
        have hgb : allBlank gs := by
          have : allBlank (g :: gs) := by rw [← hg]; exact h.gap2
          exact allBlank_tail this
        have hok : ∀ x ∈ a :: r, ArgOK x := by rw [← hargs]; exact h.args
        have htr := trimRight_renderArgs (a :: r) hok (by simp) gs
        have hlen := renderT_length (a :: r) hok
        have hne : (gs ++ renderT (a :: r)).isEmpty = false := by
          have h1 : 0 < (renderT (a :: r)).length := Nat.lt_of_lt_of_le (by simp) hlen
          cases hh : renderT (a :: r) with
          | nil => simp [hh] at h1
          | cons x xs => simp
        simp only [hg, List.cons_append, List.drop_succ_cons, List.drop_zero, splitArgs, htr, hne,
          Bool.false_eq_true, if_false]
        exact splitArgs_stage p hp (a :: r) hok (by simp) gs hgb _ (Nat.le_trans hlen (by
          rw [List.length_append]; omega)) false
    rw [hargsEq]
    simp [Line.fields, hop]

/-- **Safe rewrites do not change what the splitter delivers** (up to letter case of mnemonic/attribute): two
well-formed lines with the same content – whatever their blanks, tabs, colon, comment and the case of mnemonic and
attribute – are split into the same fields. -/
theorem C16_split_invariant (p : Params) (hp : PStd p) (l l' : Line) (h : WF p l) (h' : WF p l')
    (hs : SameContent l l') : (split p (render l)).norm = (split p (render l')).norm := by
  rw [C16_split_render p hp l h, C16_split_render p hp l' h']
  exact hs

/-- comment: appending, changing or removing the comment of a well-formed line changes no field -/
theorem C16_comment (p : Params) (hp : PStd p) (l : Line) (h : WF p l) (c : Option (List Char)) :
    split p (render { l with comment := c }) = split p (render l) := by
  have h2 : WF p { l with comment := c } := ⟨h.1, h.2, h.3, h.4, h.5, h.6, h.7, h.8, h.9, h.10⟩
  rw [C16_split_render p hp _ h2, C16_split_render p hp l h]
  rfl

/-- optional colon after a column-1 label (the blank after the label stays) -/
theorem C16_label_colon (p : Params) (hp : PStd p) (l : Line) (h : WF p l) (hl : l.label ≠ []) (hg : l.gap1 ≠ [])
    (b : Bool) : split p (render { l with colon := b }) = split p (render l) := by
  have h2 : WF p { l with colon := b } :=
    ⟨h.1, h.2, h.3, h.4, h.5, fun _ => hl, fun _ _ => hg, h.8, h.9, h.10⟩
  rw [C16_split_render p hp _ h2, C16_split_render p hp l h]
  rfl

/-- amount of blanks/tabs between the fields: any non-empty blank strings in place of the gaps -/
theorem C16_blanks (p : Params) (hp : PStd p) (l : Line) (h : WF p l) (g1 g2 : List Char)
    (h1 : allBlank g1) (h2 : allBlank g2) (hn1 : g1 ≠ []) (hn2 : g2 ≠ [] ∨ l.op = []) (hg2 : l.op = [] → g2 = []) :
    split p (render { l with gap1 := g1, gap2 := g2 }) = split p (render l) := by
  have hw : WF p { l with gap1 := g1, gap2 := g2 } :=
    ⟨h.1, h.2, h.3, h1, h2, h.6, fun _ _ => hn1,
     fun ho => ⟨(h.noOp ho).1, (h.noOp ho).2.1, hg2 ho⟩,
     fun ha => by
       rcases hn2 with hn | hn
       · exact hn
       · exact absurd (h.noOp hn).2.1 ha,
     h.10⟩
  rw [C16_split_render p hp _ hw, C16_split_render p hp l h]
  rfl

/-- letter case of mnemonic and attribute: what Produce_Code dispatches on (`NLS_UpString(OpPart)`) is unchanged -/
theorem C16_case (p : Params) (hp : PStd p) (l l' : Line) (h : WF p l) (h' : WF p l')
    (hop : upStr l'.op = upStr l.op) (hrest : l'.label = l.label ∧ l'.attr = l.attr ∧ l'.args = l.args) :
    produceOp (split p (render l')) = produceOp (split p (render l)) ∧
    (split p (render l')).lab = (split p (render l)).lab ∧ (split p (render l')).args = (split p (render l)).args := by
  rw [C16_split_render p hp l h, C16_split_render p hp l' h']
  simp [produceOp, Line.fields, hop, hrest.1, hrest.2.2]

/-- blank lines and comment-only lines produce no label, no mnemonic and no arguments -/
theorem C16_blank_line (p : Params) (hp : PStd p) (ws : List Char) (h : allBlank ws) (c : Option (List Char)) :
    (split p (ws ++ (match c with | some t => ';' :: t | none => []))).isBlank = true := by
  have hw : WF p ⟨[], false, ws, [], none, [], [], c⟩ :=
    ⟨by simp, by simp, by simp, h, allBlank_nil, by simp, by simp, by simp, by simp, by simp⟩
  have := C16_split_render p hp _ hw
  simp only [render, Line.body, Line.opText, renderArgs, List.nil_append, List.append_nil, Bool.false_eq_true,
    if_false] at this
  cases c <;> (simp only at this ⊢; rw [this]; rfl)

/-! ### CR-LF line ends (ReadLnCont) -/

/-- a file as a list of physical lines with a given line end -/
def fileText (eol : List Char) : List (List Char) → List Char
  | [] => []
  | l :: ls => l ++ eol ++ fileText eol ls

/-- **CR-LF line ends**: a file written with CR-LF line ends is read into the same logical lines, with the same
physical line counts, as the file written with LF – for every list of lines that contain no LF and do not themselves
end in CR (continuation lines, ^Z and any content included). -/
theorem C16_crlf (ls : List (List Char)) (h : ∀ l ∈ ls, (∀ c ∈ l, c ≠ '\n') ∧ l.getLast? ≠ some '\r')
    (buf : List Char) (cnt : Nat) :
    readGo buf [] cnt (fileText ['\r', '\n'] ls) = readGo buf [] cnt (fileText ['\n'] ls) := by
  induction ls generalizing buf cnt with
  | nil => rfl
  | cons l ls ih =>
    obtain ⟨hl, hcr⟩ := h l List.mem_cons_self
    have ih' := ih (fun x hx => h x (List.mem_cons_of_mem _ hx))
    have e1 : fileText ['\r', '\n'] (l :: ls) = (l ++ ['\r']) ++ ('\n' :: fileText ['\r', '\n'] ls) := by
      simp [fileText]
    have e2 : fileText ['\n'] (l :: ls) = l ++ ('\n' :: fileText ['\n'] ls) := by simp [fileText]
    have hl2 : ∀ c ∈ l ++ ['\r'], c ≠ '\n' := by
      intro c hc
      rcases List.mem_append.mp hc with hc | hc
      · exact hl c hc
      · have : c = '\r' := by simpa using hc
        subst this; decide
    rw [e1, e2, readGo_line _ _ _ _ _ hl2, readGo_line _ _ _ _ _ hl]
    simp only [List.nil_append, readGo, beq_self_eq_true, if_true, finishPhys, stripLast_snoc,
      stripLast_id '\r' l hcr]
    split
    · exact ih' _ _
    · rw [ih' [] 0]

/-! ### non-vacuity -/

/-- `start:  move.w  d0 , (a0,d1) ; "x"`  is well formed and splits as expected; so do its respellings -/
def exLine : Line :=
  { label := "start".toList, colon := true, gap1 := [' ', '\t'], op := "move".toList, attr := some ['w'],
    gap2 := [' '], args := [⟨[], "d0".toList, [' ']⟩, ⟨[' '], "(a0,d1)".toList, []⟩, ⟨[], "';'".toList, [' ', ' ']⟩],
    comment := some " \"x\"".toList }

def pStd : Params := { hasAttrs := true }

example : split pStd (render exLine)
    = ⟨"start".toList, "move".toList, ['w'], ["d0".toList, "(a0,d1)".toList, "';'".toList]⟩ := by decide
example : render exLine = "start: \tmove.w d0 , (a0,d1),';'  ; \"x\"".toList := by decide
example : PStd pStd := ⟨rfl, rfl, rfl, rfl⟩

/-- the hypotheses of the theorems are satisfiable by a line with brackets, a quoted `;`, blanks around parameters -/
example : WF pStd exLine := by
  refine ⟨by decide, by decide, ?_, by decide, by decide, by decide, by decide, by decide, by decide, ?_⟩
  · intro a ha
    have : a = ['w'] := by simpa [exLine] using ha.symm
    subst this; exact ⟨by decide, rfl, by decide⟩
  · intro a ha
    simp only [exLine, List.mem_cons, List.mem_nil_iff, or_false] at ha
    rcases ha with rfl | rfl | rfl
    · refine ⟨by decide, by decide, ⟨'d', ['0'], rfl, by decide⟩, ⟨['d'], '0', rfl, by decide⟩, ?_, ?_⟩ <;>
        (intro b i; simp [qfind, step, stepQ, QState.neutral]; try omega)
    · refine ⟨by decide, by decide, ⟨'(', "a0,d1)".toList, rfl, by decide⟩, ⟨"(a0,d1".toList, ')', rfl, by decide⟩, ?_, ?_⟩ <;>
        (intro b i; simp [qfind, step, stepQ, QState.neutral]; try omega)
    · refine ⟨by decide, by decide, ⟨'\'', ";'".toList, rfl, by decide⟩, ⟨"';".toList, '\'', rfl, by decide⟩, ?_, ?_⟩ <;>
        (intro b i; simp [qfind, step, stepQ, QState.neutral, qualify]; try omega)
example : (split pStd (render { exLine with colon := false, gap1 := ['\t'], op := "MoVe".toList, comment := none })).norm
    = (split pStd (render exLine)).norm := by decide
example : readFile "a\\\r\nb\r\n c\n".toList = readFile "a\\\nb\n c\n".toList := by decide
example : readFile "a\\\r\nb\r\n c\n".toList = [("ab".toList, 2), (" c".toList, 1)] := by decide
/-- the side conditions matter: a blank *inside* an operand or an unbalanced quote is not a safe rewrite -/
example : split pStd " db 'a ;b'".toList = split pStd " db 'a ;b' ;c".toList := by decide
example : split pStd " db 'a".toList ≠ split pStd " db 'a ;c".toList := by decide

end AslModel.Split
