import AslModel.Lemmas.Data
import AslModel.Lemmas.DataIntel
import AslModel.Lemmas.DataMoto
import AslModel.Lemmas.DataMotoDC
import AslModel.Lemmas.DataRun
/-!
# C09 — data-definition statements lay down exactly the documented bytes

Property theorems only (helper lemmas: `Lemmas/Data.lean`).  Model: `Model/Data.lean`
(transcription of motpseudo.c / intpseudo.c / ieeefloat.c / asmpars.c RangeCheck with the generated
`IntTypeDefs` table).  Spec: `Spec/Data.lean` (from the manual and the public float formats).

Integer theorems quantify over *every* value the 64-bit expression evaluator can deliver
(`-2^63 ≤ v < 2^63`; for 64-bit fields up to `2^64-1`): the statement is accepted iff the value
is in the manual's range `-2^(w-1) ≤ v < 2^w` and then lays exactly the two's-complement bytes in
the target's byte order.  `C09_intel_tree` is the whole-statement theorem of DB/DW/DD/DQ: every argument
tree of integers, strings, `?` and nested `n DUP (...)` (any counts, any nesting, mixed kinds, including
the error paths: range errors anywhere in the tree, constants mixed with `?`) is laid exactly as
`specArgs` says.  What is *not* a theorem (only tested by the correspondence): float arguments inside
statements (single/double/extended forms; the conversions themselves: `Props/C09_Floats.lean`).
`C09_moto8_stmt` is the whole-statement theorem of BYT/FCB and ADR/FDB on byte-listing targets and
`C09_motoDC_stmt` the one of DC.B/W/L/Q for both listing granularities (any list of integers, strings
and `?`, each with an optional `[n]`, with the PADDING byte emitted or reserved as the first argument
demands).  `C09_slot` composes them: a list of such statements laid one after the other from any address
gives the cells and the end address the specification gives (what mode `c09` compares per run).  Still
compared only: FCC (its repetition: `C09_ext_fcc_rep`), DFS/RMB and DS counts outside their integer type, float arguments.  Known
defects of the code have proved negations at the end.
-/
namespace AslModel.C09
open AslModel.PFile AslModel.Data AslModel.DataModel AslModel.DataLemmas

/-- Table obligation (regenerated `IntTypeDefs[]`): the types the data statements check against
are the manual's "signed or unsigned" ranges, and 64-bit types are not checked at all. -/
theorem C09_inttypes :
    Generated.intTypeDefs[Generated.itInt8]? = some ⟨"Int8", 0xc008, -128, 255, 255⟩ ∧
    Generated.intTypeDefs[Generated.itInt16]? = some ⟨"Int16", 0xc010, -32768, 65535, 65535⟩ ∧
    Generated.intTypeDefs[Generated.itInt32]? = some ⟨"Int32", 0xc020, -2147483648, 4294967295, 4294967295⟩ ∧
    Generated.itInt8 < Generated.intTypeNoCheckFrom ∧ Generated.itInt16 < Generated.intTypeNoCheckFrom ∧
    Generated.itInt32 < Generated.intTypeNoCheckFrom ∧ Generated.intTypeNoCheckFrom ≤ Generated.itInt64 :=
  inttypes_table

/-- **DC.B/W/L/Q** (68000: word listing + TurnWords; 6809/68HC12: byte listing), one integer
argument: accepted iff in range, big-endian two's-complement bytes, preceded by an *emitted* pad
byte exactly when PADDING is on, the address is odd and the element is wider than a byte. -/
theorem C09_int_moto (c : MCfg) (hc : (c.lg = 1 ∧ c.turnWords = false) ∨ (c.lg = 2 ∧ c.turnWords = true))
    (n : Nat) (hn : n = 1 ∨ n = 2 ∨ n = 4 ∨ n = 8) (pc : Nat) (v : Int)
    (hv : -(2 : Int) ^ 63 ≤ v ∧ v < (2 : Int) ^ 64 ∧ (n ≠ 8 → v < (2 : Int) ^ 63)) :
    decodeMotoDC c pc ⟨n, true, none⟩ (.cons (.int v) .nil) =
      (encInt (8 * n) true v).map fun bs =>
        ⟨if pc % 2 == 1 && c.padding && decide (n ≠ 1) then some false else none, .data bs, []⟩ :=
  int_moto c hc n hn pc v hv

example : decodeMotoDC ⟨2, true, true, false, true, false, false⟩ 3 ⟨2, true, none⟩ (.cons (.int (-2)) .nil)
    = some ⟨some false, .data [0xff, 0xfe], []⟩ := by decide
example : decodeMotoDC ⟨2, true, true, false, true, false, false⟩ 3 ⟨2, true, none⟩ (.cons (.int 65536) .nil) = none := by
  decide

/-- **DB/DW/DD/DQ** (byte-granular segments), one integer argument, little- or big-endian. -/
theorem C09_int_intel (c : MCfg) (n : Nat) (hn : n = 1 ∨ n = 2 ∨ n = 4 ∨ n = 8) (fk : Option FKind) (v : Int)
    (hv : -(2 : Int) ^ 63 ≤ v ∧ v < (2 : Int) ^ 64 ∧ (n ≠ 8 → v < (2 : Int) ^ 63)) :
    decodeIntelDx c ⟨n, true, fk⟩ (.cons (.int v) .nil) =
      (encInt (8 * n) c.ibig v).map fun bs => ⟨none, .data bs, []⟩ :=
  int_intel c n hn fk v hv

example : decodeIntelDx ⟨1, false, false, false, false, false, false⟩ ⟨4, true, some .single⟩ (.cons (.int (-1)) .nil)
    = some ⟨none, .data [0xff, 0xff, 0xff, 0xff], []⟩ := by decide

/-- **BYT/FCB, ADR/FDB** (6502: low byte first; 68xx: high byte first), one integer argument. -/
theorem C09_int_moto8 (c : MCfg) (hlg : c.lg = 1) (wide : Bool) (v : Int)
    (hv : -(2 : Int) ^ 63 ≤ v ∧ v < (2 : Int) ^ 63) :
    decodeMoto8 c wide false (.cons (.int v) .nil) =
      (encInt (if wide then 16 else 8) c.mturn v).map fun bs => ⟨none, .data bs, []⟩ :=
  int_moto8 c hlg wide v hv

/-- **DC.B/W/L/Q, the whole statement** (68000: word listing + TurnWords; 6809/68HC12: byte listing): for EVERY argument
list of integers (values the 64-bit evaluator can deliver, up to `2^64-1` for DC.Q), strings and `?`, each optionally
repeated `[n]` with `n ≥ 0` (`dcOKs`, `Model/Data.lean`), and every address: the transcription of `DecodeMotoDC`
(`CutRep`, `EnterByte/Word/LWord/QWord` into the shared buffer, `WriteBytes` with `DreheCodes`) lays exactly the big-endian
bytes the specification composes from the arguments, is in error exactly when the specification is, and the pad byte
PADDING asks for is *emitted* in front of constants and *reserved* in front of a reservation (`padOfD`). -/
theorem C09_motoDC_stmt (c : MCfg) (hc : (c.lg = 1 ∧ c.turnWords = false) ∨ (c.lg = 2 ∧ c.turnWords = true))
    (n : Nat) (hn : n = 1 ∨ n = 2 ∨ n = 4 ∨ n = 8) (fk : Option FKind) (pc : Nat) (as : Args) (hok : dcOKs n as = true) :
    decodeMotoDC c pc ⟨n, true, fk⟩ as =
      (specArgs ⟨n, true, fk⟩ true as).map fun o =>
        ⟨padOfD (pc % 2 == 1 && c.padding && decide (n ≠ 1)) o, Out.norm o, []⟩ :=
  dc_stmt c hc n hn fk pc as hok

/-- `dc.b 1,"ab",[3]-1,2` on the 68000 (bytes share words of the buffer, `DreheCodes` puts them in order); `dc.w [2]"a",-2`
at an odd address with PADDING; `dc.l [2]?,?` there: the pad byte is reserved -/
example : dcOKs 1 (.cons (.int 1) (.cons (.str [0x61, 0x62]) (.cons (.rep 3 (.int (-1))) (.cons (.int 2) .nil)))) = true := by decide
example : decodeMotoDC ⟨2, true, true, false, true, false, false⟩ 0 ⟨1, true, none⟩
    (.cons (.int 1) (.cons (.str [0x61, 0x62]) (.cons (.rep 3 (.int (-1))) (.cons (.int 2) .nil))))
    = some ⟨none, .data [1, 0x61, 0x62, 0xff, 0xff, 0xff, 2], []⟩ := by decide
example : decodeMotoDC ⟨2, true, true, false, true, false, false⟩ 3 ⟨2, true, none⟩
    (.cons (.rep 2 (.str [0x61])) (.cons (.int (-2)) .nil)) = some ⟨some false, .data [0, 0x61, 0, 0x61, 0xff, 0xfe], []⟩ := by decide
example : decodeMotoDC ⟨2, true, true, false, true, false, false⟩ 3 ⟨4, true, some .single⟩
    (.cons (.rep 2 .q) (.cons .q .nil)) = some ⟨some true, .space 12, []⟩ := by decide

/-- **BYT/FCB, ADR/FDB, the whole statement** (byte-listing targets; 6502: low byte first, 68xx: high byte first): for
EVERY argument list of integers (values the 64-bit evaluator can deliver), strings and `?`, each optionally repeated
`[n]` with `n ≥ 0` (`moto8OKs`, `Model/Data.lean`), the transcription of `DecodeMotoBYT` / `DecodeMotoADR` lays
exactly what the specification composes from the arguments, and is in error exactly when the specification is (an
integer out of range, constants mixed with `?`). -/
theorem C09_moto8_stmt (c : MCfg) (hlg : c.lg = 1) (wide : Bool) (as : Args) (hok : moto8OKs as = true) :
    decodeMoto8 c wide false as = (specArgs (elem8 wide) c.mturn as).map fun o => ⟨none, Out.norm o, []⟩ :=
  moto8_stmt c hlg wide as hok

/-- `fdb 1,[2]"ab",-2` on a 68xx target; `fcb [2]?,?`; the error `fcb 1,?` -/
example : moto8OKs (.cons (.int 1) (.cons (.rep 2 (.str [0x61, 0x62])) (.cons (.int (-2)) .nil))) = true := by decide
example : decodeMoto8 ⟨1, false, true, false, false, false, false⟩ true false
    (.cons (.int 1) (.cons (.rep 2 (.str [0x61, 0x62])) (.cons (.int (-2)) .nil)))
    = some ⟨none, .data [0, 1, 0, 0x61, 0, 0x62, 0, 0x61, 0, 0x62, 0xff, 0xfe], []⟩ := by decide
example : decodeMoto8 ⟨1, false, false, false, false, false, false⟩ false false (.cons (.rep 2 .q) (.cons .q .nil))
    = some ⟨none, .space 3, []⟩ := by decide
example : moto8OKs (.cons (.int 1) (.cons .q .nil)) = true ∧
    decodeMoto8 ⟨1, false, false, false, false, false, false⟩ false false (.cons (.int 1) (.cons .q .nil)) = none ∧
    specArgs elemByte false (.cons (.int 1) (.cons .q .nil)) = none := by decide

/-- **A slot of statements** (DC.B/W/L/Q, BYT/FCB, ADR/FDB, DB/DW/DD/DQ over the argument forms of the three
whole-statement theorems, DFS/RMB with a count 0…65535, DS with a count 0…2^32-1; `slotStmtOK c sc`, `Model/Data.lean` — the driver reports for every case whether it holds — also asks that the specification's configuration
`sc` describes the target `c`: byte order of the statement family, PADDING): laid one after the other from ANY
address, the transcription produces exactly the (address, byte) cells and the end address of the specification — pad
bytes included (emitted as a zero cell in front of constants, skipped in front of reservations), no byte read from
uninitialised memory — and is in error exactly when the specification is. -/
theorem C09_slot (c : MCfg) (sc : SCfg) (stmts : List Stmt) (h : ∀ st ∈ stmts, slotStmtOK c sc st = true) (pc : Nat) :
    modelRun c pc stmts = (specRun sc pc stmts).map fun r => (r.1, r.2, []) :=
  slot_run c sc stmts h pc

/-- 68000 with PADDING from an odd address: `dc.b 1` / `dc.w 2,[2]"a"` / `dc.l [2]?` / `dc.b "xy"` -/
example : ∀ st ∈ [Stmt.dc ⟨1, true, none⟩ (.cons (.int 1) .nil),
      .dc ⟨2, true, none⟩ (.cons (.int 2) (.cons (.rep 2 (.str [0x61])) .nil)),
      .dc ⟨4, true, some .single⟩ (.cons (.rep 2 .q) .nil), .dc ⟨1, true, none⟩ (.cons (.str [0x78, 0x79]) .nil)],
    slotStmtOK ⟨2, true, true, false, true, false, false⟩ ⟨true, true⟩ st = true := by decide
example : modelRun ⟨2, true, true, false, true, false, false⟩ 2
      [.dc ⟨1, true, none⟩ (.cons (.int 1) .nil), .dc ⟨2, true, none⟩ (.cons (.int 2) (.cons (.rep 2 (.str [0x61])) .nil)),
       .dc ⟨4, true, some .single⟩ (.cons (.rep 2 .q) .nil), .dc ⟨1, true, none⟩ (.cons (.str [0x78, 0x79]) .nil)] =
    some ([(2, 1), (3, 0), (4, 0), (5, 2), (6, 0), (7, 0x61), (8, 0), (9, 0x61), (18, 0x78), (19, 0x79)], 20, []) := by decide

/-- Every integer `Enter*` helper followed by `WriteBytes` yields the big-endian image of its
argument for both listing granularities (no hypothesis on the value). -/
theorem C09_enter_bytes (c : MCfg) (hc : (c.lg = 1 ∧ c.turnWords = false) ∨ (c.lg = 2 ∧ c.turnWords = true))
    (n : Nat) (hn : n = 1 ∨ n = 2 ∨ n = 4 ∨ n = 8) (u : Nat) :
    writeBytes c (enterInt c.lg n [] u) = encNat n true u :=
  enterInt_spec c hc n hn u

/-- Reading the laid bytes back gives the value modulo `2^w` (any field width, either byte order). -/
theorem C09_decode (n : Nat) (big : Bool) (u : Nat) : decNat big (encNat n big u) = u % 256 ^ n := by
  have h : ∀ n u, decLE (encLE n u) = u % 256 ^ n := by
    intro n
    induction n with
    | zero => intro u; simp [encLE, decLE, Nat.mod_one]
    | succ k ih =>
      intro u
      simp only [encLE, decLE, b_toNat, ih]
      rw [Nat.pow_succ, Nat.mul_comm (256 ^ k) 256, Nat.mod_mul]
  cases big <;> simp [decNat, encNat, h]

/-- **DUP, constant mode**: `n DUP (body)` lays `n` copies of whatever the body laid — for every
count `n ≥ 1`, every body (including bodies that contain further DUPs: the theorem composes). -/
theorem C09_dup (c : MCfg) (e : Elem) (n : Int) (as : Args) (st st' : ISt) (body : List Byte)
    (hn : 1 ≤ n) (hrun : layoutMultL c e as st = .ok st') (hds : st'.ds = .const)
    (hfill : st.fill = st.buf.length) (hb : st'.buf = st.buf ++ body) (hf : st'.fill = st.fill + body.length) :
    layoutMult c e (.dup n as) st =
      .ok ⟨st.buf ++ (List.replicate n.toNat body).flatten, st.fill + n.toNat * body.length, .const⟩ :=
  dup_const c e n as st st' body hn hrun hds hfill hb hf

example : decodeIntelDx ⟨1, false, false, false, false, false, false⟩ ⟨1, true, none⟩
    (.cons (.dup 2 (.cons (.int 1) (.cons (.dup 2 (.cons (.int 3) (.cons (.int 4) .nil))) .nil))) .nil)
    = some ⟨none, .data [1, 3, 4, 3, 4, 1, 3, 4, 3, 4], []⟩ := by decide

/-- **DB/DW/DD/DQ, the whole statement** (byte-granular segments, little- or big-endian): for EVERY argument tree built
from integers (values the 64-bit evaluator can deliver), strings, `?` and `n DUP (...)` groups of such, nested to any
depth with any counts (`intelOKs`, `Model/Data.lean`; it only excludes float arguments and the Motorola `[n]`
form), the transcription of `DecodeIntelPseudo_LayoutMult` with `SetDSFlag`, the `Layout*` functions and
`Replicate8ToN_To_8` lays exactly what the specification composes from the arguments (`Out.add`, `Out.times`), and is
in error exactly when the specification is: an integer out of range anywhere in the tree, constants mixed with `?`.
`Out.norm`: a statement that lays nothing (`db ""`, `db 0 dup (1)`) is reported as `empty`. -/
theorem C09_intel_tree (c : MCfg) (n : Nat) (hn : n = 1 ∨ n = 2 ∨ n = 4 ∨ n = 8) (fk : Option FKind) (as : Args)
    (hok : intelOKs n as = true) :
    decodeIntelDx c ⟨n, true, fk⟩ as = (specArgs ⟨n, true, fk⟩ c.ibig as).map fun o => ⟨none, Out.norm o, []⟩ :=
  intel_tree c n hn fk as hok

/-- `dw 2 dup (1, 3 dup ("ab", -1)), 300` and `db 2 dup (?, 3 dup (?)), ?` and the error `db 2 dup (1, ?)` -/
example : intelOKs 2 (.cons (.dup 2 (.cons (.int 1) (.cons (.dup 3 (.cons (.str [0x61, 0x62]) (.cons (.int (-1)) .nil))) .nil)))
    (.cons (.int 300) .nil)) = true := by decide
example : decodeIntelDx ⟨1, false, false, true, false, false, false⟩ ⟨2, true, none⟩
    (.cons (.dup 2 (.cons (.int 1) (.cons (.dup 2 (.cons (.str [0x61]) (.cons (.int (-1)) .nil))) .nil))) (.cons (.int 300) .nil))
    = some ⟨none, .data [0, 1, 0, 0x61, 0xff, 0xff, 0, 0x61, 0xff, 0xff, 0, 1, 0, 0x61, 0xff, 0xff, 0, 0x61, 0xff, 0xff, 1, 0x2c], []⟩ := by
  decide
example : decodeIntelDx ⟨1, false, false, false, false, false, false⟩ ⟨1, true, none⟩
    (.cons (.dup 2 (.cons .q (.cons (.dup 3 (.cons .q .nil)) .nil))) (.cons .q .nil)) = some ⟨none, .space 9, []⟩ := by decide
example : intelOKs 1 (.cons (.dup 2 (.cons (.int 1) (.cons .q .nil))) .nil) = true ∧
    decodeIntelDx ⟨1, false, false, false, false, false, false⟩ ⟨1, true, none⟩ (.cons (.dup 2 (.cons (.int 1) (.cons .q .nil))) .nil) = none ∧
    specArgs ⟨1, true, none⟩ false (.cons (.dup 2 (.cons (.int 1) (.cons .q .nil))) .nil) = none := by decide

/-- **Reservation**: `n DUP (?)`-style bodies emit nothing and advance by `n` times the body's
advance; `[n]?` in DC.x reserves `n` elements after a *reserved* pad byte. -/
theorem C09_reserve (c : MCfg) (e : Elem) (n : Int) (as : Args) (st st' : ISt) (d : Nat)
    (hn : 1 ≤ n) (hrun : layoutMultL c e as st = .ok st') (hds : st'.ds = .space) (hf : st'.fill = st.fill + d) :
    layoutMult c e (.dup n as) st = .ok { st' with fill := st.fill + n.toNat * d } :=
  dup_space c e n as st st' d hn hrun hds hf

theorem C09_reserve_moto (c : MCfg) (e : Elem) (pc : Nat) (n : Nat) (hn : 0 < n * e.bytes) :
    decodeMotoDC c pc e (.cons (.rep n .q) .nil) =
      some ⟨if pc % 2 == 1 && c.padding && decide (e.bytes ≠ 1) then some true else none, .space (n * e.bytes), []⟩ :=
  reserve_moto c e pc n hn

example : decodeIntelDx ⟨1, false, false, false, false, false, false⟩ ⟨2, true, some .half⟩
    (.cons (.dup 20 (.cons .q .nil)) .nil) = some ⟨none, .space 40, []⟩ := by decide

/-- **PADDING**: the pad decision of `DecodeMotoDC` is the manual's rule. -/
theorem C09_padding (c : MCfg) (hc : (c.lg = 1 ∧ c.turnWords = false) ∨ (c.lg = 2 ∧ c.turnWords = true))
    (n : Nat) (hn : n = 1 ∨ n = 2 ∨ n = 4 ∨ n = 8) (pc : Nat) (v : Int) (hr : inRange (8 * n) v = true)
    (hv : -(2 : Int) ^ 63 ≤ v ∧ v < (2 : Int) ^ 64 ∧ (n ≠ 8 → v < (2 : Int) ^ 63)) :
    (decodeMotoDC c pc ⟨n, true, none⟩ (.cons (.int v) .nil)).map (fun r => (r.pad.isSome, r.pad)) =
      some (decide (padBefore c.padding pc n = 1), if padBefore c.padding pc n = 1 then some false else none) := by
  rw [int_moto c hc n hn pc v hv]
  unfold encInt padBefore
  simp only [hr, if_true, Option.map_some]
  cases h : (pc % 2 == 1 && c.padding && decide (n ≠ 1)) <;> simp_all

/-- `rneDiv m k` (the rounding the float spec uses) is a nearest multiple of `2^k`, ties to even. -/
theorem C09_rne (m k : Nat) (hk : 0 < k) :
    (2 * (2 ^ k * rneDiv m k) ≤ 2 * m + 2 ^ k) ∧ (2 * m ≤ 2 * (2 ^ k * rneDiv m k) + 2 ^ k) ∧
    ((2 * m = 2 * (2 ^ k * rneDiv m k) + 2 ^ k ∨ 2 * (2 ^ k * rneDiv m k) = 2 * m + 2 ^ k) → rneDiv m k % 2 = 0) :=
  rneDiv_spec m k hk

/-- **Half precision, normal range** — `Double_2_ieee2` is round-to-nearest-even for every double
whose exponent lies in the half format's normal range (biased 1009..1038, i.e. 2^-14 ≤ |x| < 2^16),
including the carry into the exponent and the overflow rejection.

Full statement (false on the current tree, see `C09_finding_half_subnormal`):
`∀ bits, dExp bits ≠ 2047 → (double2ieee2 bits).map halfWord = narrow fmtHalf bits`. -/
theorem C09_half_partial (s e m : Nat) (hs : s < 2) (he1 : 1009 ≤ e) (he2 : e ≤ 1038) (hm : m < 2 ^ 52) :
    (double2ieee2 (s * 2 ^ 63 + e * 2 ^ 52 + m)).map halfWord = narrow fmtHalf (s * 2 ^ 63 + e * 2 ^ 52 + m) :=
  half_normal s e m hs he1 he2 hm

example : (double2ieee2 0x3ff0000000000000).map halfWord = some 0x3c00 := by decide
example : (double2ieee2 0x40effc0000000000).map halfWord = some 0x7bff := by decide

/-! ## proved negations (known findings) -/

/-- `dw 1.0e-7`: the code gives $0001, round-to-nearest-even gives $0002; and the witness in the
binade just below the normal range: $82FF instead of $8300. -/
theorem C09_finding_half_subnormal :
    (double2ieee2 0x3e7ad7f29abcaf48).map halfWord = some 0x0001 ∧ narrow fmtHalf 0x3e7ad7f29abcaf48 = some 0x0002 ∧
    (double2ieee2 0xBF07FC0002FFFFFF).map halfWord = some 0x82ff ∧ narrow fmtHalf 0xBF07FC0002FFFFFF = some 0x8300 := by
  decide

/-- `EnterIEEE2` on a byte-listing target takes the high byte from `pField[1]`, which a 2-byte
conversion never wrote: whatever is there, the model marks the byte as uninitialised, and with
the neighbouring word equal to 0 the laid bytes are `00 00` instead of `3C 00`. -/
theorem C09_finding_enter_ieee2 :
    enterIEEE2 ⟨1, false, true, false, false, false, false⟩ [] [0x00, 0x3c] = ([0x00, 0x00], [0]) ∧
    enterIEEE2 ⟨1, false, true, false, false, true, false⟩ [] [0x00, 0x3c] = ([0x3c, 0x00], []) := by
  decide

/-- `db 1 dup (0 dup (60h)), 5` (repaired finding `intel-dup-with-empty-body-drops-statement`, repair b951363): a DUP whose
body lays nothing replicates nothing and the statement goes on - model and specification lay `05` (before the repair the
statement was dropped without a message). -/
theorem C09_dup_empty_body :
    decodeIntelDx ⟨1, false, false, false, false, false, false⟩ ⟨1, true, none⟩
      (.cons (.dup 1 (.cons (.dup 0 (.cons (.int 0x60) .nil)) .nil)) (.cons (.int 5) .nil)) = some ⟨none, .data [5], []⟩ ∧
    specArgs ⟨1, true, none⟩ false
      (.cons (.dup 1 (.cons (.dup 0 (.cons (.int 0x60) .nil)) .nil)) (.cons (.int 5) .nil)) = some (.data [5]) := by
  decide

/-- `dt 0.0`: exponent field $3C00 instead of 0. -/
theorem C09_finding_ext80_zero :
    ieee10Bytes false 0 = [0, 0, 0, 0, 0, 0, 0, 0, 0x00, 0x3c] ∧ enc80 false 0 = [0, 0, 0, 0, 0, 0, 0, 0, 0, 0] := by
  decide

end AslModel.C09
