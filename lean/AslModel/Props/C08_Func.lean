import AslModel.Model.FuncText
/-! C08, user-defined functions: a call means the defining expression on the VALUES of the arguments (manual, FUNCTION).
The implementation hands every argument over as TEXT (tempresult.c `as_tempres_append_dynstr`) - the property holds exactly as
far as every value survives print + re-read.  Trusted base (hypotheses about the C library, not provable here because Lean's
`Float` and the C library are outside the kernel): `printf("%.<p>e")` emits the correctly rounded decimal with p+1 significant
digits and `strtod` is correctly rounded; for such a pair p+1 ≥ 17 digits read back to the same double (IEEE 754-2008, 5.12.2).
The number of digits is a generated constant with the obligation `C08_func_float_digits`. -/
namespace AslModel.Props.C08Func
open AslModel.FuncCall AslModel.FuncText AslModel.Generated

/-- the TempFloat conversion of `as_tempres_append_dynstr` (format string extracted from tempresult.c on every run) emits at least
the 17 significant digits a double needs -/
theorem C08_func_float_digits : funcArgFloatSigDigits ≥ 17 := by decide

/-- the TempInt conversion is the decimal one the model describes -/
theorem C08_func_int_decimal : funcArgIntDecimal = true := by decide

/-- a call is the body on the argument values whenever every value survives its way into the body -/
theorem C08_func_call_values (rt : V → Option V) (h : ∀ v, rt v = some v) (fns : List E) (fuel : Nat) (env : List V) (e : E) :
    evalG rt fns fuel env e = eval fns fuel env e := by
  have : rt = some := funext h
  subst this
  rfl

example : (fun v : V => some v) (.int 5) = some (.int 5) := rfl

/-- an abstract print / re-read pair for doubles (the C library's `printf("%.<p>e")` and `strtod`) -/
structure FloatText where
  print : Nat → UInt64 → List Char      -- significant digits, bit pattern
  parse : List Char → Option UInt64

/-- proviso about the C library (trusted base): with at least 17 significant digits the correctly rounded print followed by the
correctly rounded re-read is the identity on finite doubles -/
def FloatText.RoundTrips17 (ft : FloatText) : Prop :=
  ∀ d, d ≥ 17 → ∀ b, finite b = true → ft.parse (ft.print d b) = some b

/-- the way of an argument value through text, over an abstract float pair; integers under RADIX 10 and strings are taken as
surviving (hypotheses `hi`, `hs`: the three findings of the unchanged tree are exactly the failures of these two) -/
def rtAbs (ft : FloatText) (digits : Nat) (ri : UInt64 → Option V) (rs : List Char → Option V) : V → Option V
  | .int n => ri n
  | .flt b => (ft.parse (ft.print digits b)).map .flt
  | .str s => rs s

/-- PARTIAL (full statement: for the model's own `printE`/`parseE` - which are executable integer arithmetic - the round trip
`parseE (printE p b) = some b` for every finite `b` and `p ≥ 16`, and `rtInt 10 n = some (.int n)`; missing: the 17-digit theorem
for the concrete functions).  Given the proviso about the float pair, the generated number of digits, and arguments that are
finite floats, integers and strings surviving their text: the call evaluates to the body on the argument values. -/
theorem C08_func_float_roundtrip_partial (ft : FloatText) (hft : ft.RoundTrips17)
    (ri : UInt64 → Option V) (rs : List Char → Option V) (hi : ∀ n, ri n = some (.int n)) (hs : ∀ s, rs s = some (.str s))
    (v : V) (hv : ∀ b, v = .flt b → finite b = true) :
    rtAbs ft funcArgFloatSigDigits ri rs v = some v := by
  cases v with
  | int n => exact hi n
  | str s => exact hs s
  | flt b =>
    have := hft funcArgFloatSigDigits C08_func_float_digits b (hv b rfl)
    simp [rtAbs, this]

/-- non-vacuity: a pair that round-trips exists (unary notation), and the hypothesis on `v` is met by a finite double -/
example : ∃ ft : FloatText, ft.RoundTrips17 := by
  refine ⟨⟨fun _ b => List.replicate b.toNat 'x', fun s => some (UInt64.ofNat s.length)⟩, ?_⟩
  intro d _ b _
  simp

example : finite 4599075939470750516 = true := by decide

end AslModel.Props.C08Func
