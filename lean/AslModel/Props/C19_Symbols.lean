import AslModel.Lemmas.SymList
/-!
# C19 — the listing's symbol table and the share file state every symbol's value

Property theorems only.  SPEC: `Spec/Listing.lean` (`parseShareLine`, `parseShareValue` for the four integer
syntaxes, `parseSymCellX`).  MODEL: `Model/SymList.lean` (`PrintSymbolList_PNode` / `_AddOut` with byte length and
visible length, `IntLine` / `CodeSHARED` with `HexStartCharacter`).

* The line builder of the symbol table loses no byte of any entry, whatever the visible lengths are (any
  character set, any names, any page width): the lines it writes, each with the one blank the flush cuts off,
  are the concatenation of the entries.  This holds because the pending line's byte length is advanced by
  the entry's *byte* length; the visible lengths only decide where lines are broken.
* A hex constant written by `IntLine` in upper or lower case (option `-h`) in each of the four integer
  syntaxes reads back as the value; with it the share-file lines of all three formats.
-/
namespace AslModel.C19
open AslModel.Listing

/-- **Symbol table, nothing is lost**: for every character set, page width and every list of entries that end
in a blank (as `PrintSymbolList_PNode` builds them: `"… | "`), the lines handed to the listing — each followed
by the blank the flush removed — are exactly the entries one after the other. -/
theorem C19_symtab_lines_complete (utf8 : Bool) (width : Nat) (entries : List (List Char)) (lines : List (List Char))
    (he : ∀ e ∈ entries, EntryOK e) (h : symListLines utf8 width entries = some lines) :
    lineText lines = entries.flatten := by
  unfold symListLines at h
  cases h1 : addAll utf8 width entries {} with
  | none => rw [h1] at h; cases h
  | some c =>
    rw [h1] at h
    simp only [Option.map_some] at h
    injection h with h
    subst h
    obtain ⟨hc, heq⟩ := addAll_sound utf8 width entries {} c ctxOK_init he h1
    rw [finalFlush_text c hc, heq]
    simp [lineText]

/-- **Every pair of entries that shares a line is on it completely** (the pair is flushed by a third entry
that does not fit any more): whatever the names are and however byte length and visible length differ. -/
theorem C19_symtab_pair_flushed (utf8 : Bool) (width : Nat) (e1 e2 e3 : List Char)
    (h1 : EntryOK e1) (h2 : EntryOK e2) (h3 : EntryOK e3)
    (hfit1 : visibleLen utf8 e1 ≤ width) (hfit2 : visibleLen utf8 e2 + visibleLen utf8 e1 ≤ width)
    (hno : visibleLen utf8 e3 + (visibleLen utf8 e1 + visibleLen utf8 e2) > width) :
    ∃ l1 l2, symListLines utf8 width [e1, e2, e3] = some [l1, l2] ∧ l1 ++ [' '] = e1 ++ e2 ∧ l2 ++ [' '] = e3 := by
  have hne1 : e1 ≠ [] := h1.ne_nil
  have hlen : e1.length + e2.length ≠ 0 := by
    have : e1.length ≠ 0 := by simpa using hne1
    omega
  have hb12 : (e1 ++ e2).getLast? = some ' ' := by
    rw [List.getLast?_append, h2]
    rfl
  refine ⟨(e1 ++ e2).take (e1.length + e2.length - 1), e3.dropLast, ?_, ?_, dropLast_blank e3 h3⟩
  · have n1 : ¬ (width < visibleLen utf8 e1) := by omega
    have n2 : ¬ (width < visibleLen utf8 e2 + visibleLen utf8 e1) := by omega
    have n3 : width < visibleLen utf8 e3 + (visibleLen utf8 e1 + visibleLen utf8 e2) := by omega
    have hne3 : e3 ≠ [] := h3.ne_nil
    simp [symListLines, addAll, addOut, n1, n2, n3, hne1, finalFlush, hne3]
  · have := take_pred_of_blank (e1 ++ e2) hb12
    simpa using this

/-- a pair that fills the last line of the table -/
theorem C19_symtab_pair_last (utf8 : Bool) (width : Nat) (e1 e2 : List Char)
    (h1 : EntryOK e1) (h2 : EntryOK e2)
    (hfit1 : visibleLen utf8 e1 ≤ width) (hfit2 : visibleLen utf8 e2 + visibleLen utf8 e1 ≤ width) :
    ∃ l, symListLines utf8 width [e1, e2] = some [l] ∧ l ++ [' '] = e1 ++ e2 := by
  have hb12 : (e1 ++ e2).getLast? = some ' ' := by
    rw [List.getLast?_append, h2]
    rfl
  refine ⟨(e1 ++ e2).dropLast, ?_, dropLast_blank _ hb12⟩
  have n1 : ¬ (width < visibleLen utf8 e1) := by omega
  have n2 : ¬ (width < visibleLen utf8 e2 + visibleLen utf8 e1) := by omega
  have hne1 : e1 ≠ [] := h1.ne_nil
  simp [symListLines, addAll, addOut, n1, n2, finalFlush, hne1]

/-- the C code is undefined when the very first entry is wider than the line (`Zeilenrest.p_str[-1] = 0`);
the model says so instead of inventing an output -/
theorem C19_symtab_first_entry_too_wide (utf8 : Bool) (width : Nat) (e : List Char) (rest : List (List Char))
    (h : visibleLen utf8 e > width) : symListLines utf8 width (e :: rest) = none := by
  have : width < visibleLen utf8 e := by omega
  simp [symListLines, addAll, addOut, this]

/-- non-vacuity: two entries whose names hold six two-byte characters each (46 bytes, 40 visible characters
per entry) share a line of 80 columns, a third one flushes them, and the reader gets names and values back -/
example : (symEntry true 40 true (List.map Char.ofNat [0x5a, 0xc3, 0x84, 0xc3, 0x96, 0xc3, 0x9c, 0xc3, 0x84, 0xc3, 0x96, 0xc3, 0x9c, 0x31]) none "5678".toList '-').length = 46 ∧ visibleLen true (symEntry true 40 true (List.map Char.ofNat [0x5a, 0xc3, 0x84, 0xc3, 0x96, 0xc3, 0x9c, 0xc3, 0x84, 0xc3, 0x96, 0xc3, 0x9c, 0x31]) none "5678".toList '-') = 40 ∧ visibleLen true (symEntry true 40 false (List.map Char.ofNat [0x5a, 0xc3, 0x84, 0xc3, 0x96, 0xc3, 0x9c, 0xc3, 0x84, 0xc3, 0x96, 0xc3, 0x9c, 0x31]) (some "S".toList) "789A".toList 'C') = 40 := by decide
example : symListLines true 80 [(symEntry true 40 true (List.map Char.ofNat [0x5a, 0xc3, 0x84, 0xc3, 0x96, 0xc3, 0x9c, 0xc3, 0x84, 0xc3, 0x96, 0xc3, 0x9c, 0x31]) none "5678".toList '-'), (symEntry true 40 false (List.map Char.ofNat [0x5a, 0xc3, 0x84, 0xc3, 0x96, 0xc3, 0x9c, 0xc3, 0x84, 0xc3, 0x96, 0xc3, 0x9c, 0x31]) (some "S".toList) "789A".toList 'C'), (symEntry true 40 true (List.map Char.ofNat [0x5a, 0xc3, 0x84, 0xc3, 0x96, 0xc3, 0x9c, 0xc3, 0x84, 0xc3, 0x96, 0xc3, 0x9c, 0x31]) none "5678".toList '-')] = some [((symEntry true 40 true (List.map Char.ofNat [0x5a, 0xc3, 0x84, 0xc3, 0x96, 0xc3, 0x9c, 0xc3, 0x84, 0xc3, 0x96, 0xc3, 0x9c, 0x31]) none "5678".toList '-') ++ (symEntry true 40 false (List.map Char.ofNat [0x5a, 0xc3, 0x84, 0xc3, 0x96, 0xc3, 0x9c, 0xc3, 0x84, 0xc3, 0x96, 0xc3, 0x9c, 0x31]) (some "S".toList) "789A".toList 'C')).dropLast, (symEntry true 40 true (List.map Char.ofNat [0x5a, 0xc3, 0x84, 0xc3, 0x96, 0xc3, 0x9c, 0xc3, 0x84, 0xc3, 0x96, 0xc3, 0x9c, 0x31]) none "5678".toList '-').dropLast] := by decide
example : (parseSymLineX (((symEntry true 40 true (List.map Char.ofNat [0x5a, 0xc3, 0x84, 0xc3, 0x96, 0xc3, 0x9c, 0xc3, 0x84, 0xc3, 0x96, 0xc3, 0x9c, 0x31]) none "5678".toList '-') ++ (symEntry true 40 false (List.map Char.ofNat [0x5a, 0xc3, 0x84, 0xc3, 0x96, 0xc3, 0x9c, 0xc3, 0x84, 0xc3, 0x96, 0xc3, 0x9c, 0x31]) (some "S".toList) "789A".toList 'C')).dropLast ++ [' ']) ==
      [some ((List.map Char.ofNat [0x5a, 0xc3, 0x84, 0xc3, 0x96, 0xc3, 0x9c, 0xc3, 0x84, 0xc3, 0x96, 0xc3, 0x9c, 0x31]), false, none, "5678".toList, "-".toList), some ((List.map Char.ofNat [0x5a, 0xc3, 0x84, 0xc3, 0x96, 0xc3, 0x9c, 0xc3, 0x84, 0xc3, 0x96, 0xc3, 0x9c, 0x31]), true, some "S".toList, "789A".toList, "C".toList)]) = true := by
  decide

/-- **Share file, C format**, hex digits in either case (`-h`) -/
theorem C19_shareH_roundtrip_c (lower : Bool) (name : List Char) (hn : ∀ c ∈ name, c ≠ ' ') (m : IntModeX) (chg : Bool) (v : Nat) :
    parseShareLine .c (shareLineH lower 2 m chg name v) = some (name, false, v) := shareH_c lower name hn m chg v

/-- **Share file, Pascal format**, hex digits in either case -/
theorem C19_shareH_roundtrip_pascal (lower : Bool) (name : List Char) (hn : ∀ c ∈ name, c ≠ ' ') (m : IntModeX) (chg : Bool) (v : Nat) :
    parseShareLine .pascal (shareLineH lower 1 m chg name v) = some (name, false, v) := shareH_pascal lower name hn m chg v

/-- **Share file, assembler format**, in each of the four integer syntaxes (Intel `…H`/`…h` with the
leading-zero rule, Motorola `$…`, C `0x…`, IBM `x'…'`), hex digits in either case; `set` ⇔ changeable symbol -/
theorem C19_shareH_roundtrip_asm (lower : Bool) (name : List Char) (hn : ∀ c ∈ name, c ≠ ' ') (m : IntModeX) (chg : Bool) (v : Nat) :
    parseShareLine (fmtOfX m) (shareLineH lower 3 m chg name v) = some (name, chg, v) := shareH_asm lower name hn m chg v

/-- the constant itself: every value in every syntax and either case reads back -/
theorem C19_intline_roundtrip (lower : Bool) (m : IntModeX) (v : Nat) :
    parseShareValue (fmtOfX m) (intLineH lower m v) = some v := parseShareValue_intLineH lower m v

example : String.ofList (shareLineH true 3 .intel false "ioport".toList 0xff) = "ioport equ 0ffh" := by decide
example : String.ofList (shareLineH true 3 .intel true "v".toList 0x9f) = "v set 9fh" := by decide
example : String.ofList (shareLineH false 3 .ibm false "x".toList 0xABC) = "x equ x'ABC'" := by decide
/-- what the Intel-syntax reader makes of a constant without the leading zero: not a number -/
example : parseShareValue .asmIntel "ffh".toList = none := by decide

end AslModel.C19
