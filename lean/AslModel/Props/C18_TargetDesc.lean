import AslModel.Lemmas.TargetDesc
import AslModel.Generated.TargetDesc
/-!
# C18 — target description complete: every `SwitchTo_*` overwrites what the core reads of the previous target

The core keeps the description of the selected target in globals that no per-pass / per-file path resets (`SegInits[]`,
`SegLimits[]`, `Grans[]`, `ListGrans[]`, `ValidSegs`, `HeaderID`, ...): it relies on the switch function of the new target.
`Generated/TargetDesc.lean` (translate/targetdesc.py; clang AST of every code*.c plus a dumper linked against the current
build, regenerated on every run) has one row per (switch function, segment that may be valid) with the flags
"assigned on every path on which the segment is valid".

* `C18_targetdesc_complete` – the `decide` obligation over all rows, with the explicit exception list below;
* `C18_targetdesc_scalars` – the scalar part of the description (ValidSegs, HeaderID, NOPCode, PCSymbol, ...);
* `C18_targetdesc_independent` – the tie to the file-independence model (`Model/TargetDesc.lean`: `SetNSeg`, `DefChkPC`,
  `CodeSEGMENT`, `CodeALIGN`, `WriteCode`): targets that conform to rows without a finding make every file's result
  independent of what was assembled before;
* `C18_finding_segInits_inherited` – the negation for a description with an unassigned element: a core global read by
  `SetNSeg` that the switch function does not assign is state that survives the file.

Removing an assignment from a switch function flips a flag of the generated table and breaks `C18_targetdesc_complete`;
a behaviour-preserving rewrite leaves the table as it is.
-/
namespace AslModel.C18
namespace TargetDesc
open AslModel.TargetDesc AslModel.FilesSpec
open AslModel.Generated.TargetDesc (SegRow FuncRow segRows funcRows scalarNames)

/-- (file, switch function, segment number, array) -/
abbrev Key := String × String × Nat × String

/-- (c) genuine defects of the pinned tree, known findings `target-desc-not-assigned:<file>:<Array>[<SEGMENT>]`: the element
is assigned on no path, the start value of the segment counter is the one the previously selected target left (two-file
witnesses in known_findings.json).  An entry that has been repaired in /repo is simply no longer needed. -/
def findings : List Key := [
  ("code16c5x.c", "SwitchTo_16C5X", 2, "SegInits"),
  ("codef8.c", "SwitchTo_F8_12", 1, "SegInits"), ("codef8.c", "SwitchTo_F8_12", 2, "SegInits"), ("codef8.c", "SwitchTo_F8_12", 7, "SegInits"),
  ("codef8.c", "SwitchTo_F8_12_CMOS", 1, "SegInits"), ("codef8.c", "SwitchTo_F8_12_CMOS", 2, "SegInits"), ("codef8.c", "SwitchTo_F8_12_CMOS", 7, "SegInits"),
  ("codef8.c", "SwitchTo_F8_16", 1, "SegInits"), ("codef8.c", "SwitchTo_F8_16", 2, "SegInits"), ("codef8.c", "SwitchTo_F8_16", 7, "SegInits"),
  ("codehmcs400.c", "SwitchTo_HMCS400", 2, "SegInits"),
  ("codeol40.c", "SwitchTo_OLMS40", 2, "SegInits"),
  ("codeol50.c", "SwitchTo_OLMS50", 2, "SegInits"),
  ("codesx20.c", "SwitchTo_SX20", 2, "SegInits")]

/-- (a) limits of the syntactic route: the element is assigned in every arm of an `if (MomCPU == ..) .. else if ..` chain
(or `switch (MomCPU - ..)`) without a final `else` / `default`; the chain enumerates exactly the CPU names registered for the
function.  Accepted only while the dynamic route confirms it (`dSeg…` flag: no CPU name of the function inherits the
element) – `effective` below; vlib/props/c18_targetdesc.py repeats the list with the source lines. -/
def chainExceptions : List Key := [
  ("code47c00.c", "SwitchTo_47C00", 1, "SegLimits"), ("code47c00.c", "SwitchTo_47C00", 2, "SegLimits"), ("code47c00.c", "SwitchTo_47C00", 7, "SegLimits"),
  ("codeace.c", "SwitchTo_ACE", 1, "SegInits"),
  ("codehmcs400.c", "SwitchTo_HMCS400", 2, "SegLimits"),
  ("codeol40.c", "SwitchTo_OLMS40", 1, "SegLimits"), ("codeol40.c", "SwitchTo_OLMS40", 2, "SegLimits"),
  ("codeol50.c", "SwitchTo_OLMS50", 1, "SegLimits"), ("codeol50.c", "SwitchTo_OLMS50", 2, "SegLimits")]

/-- flag of a row: assigned on every path (AST), or a listed chain exception that the dynamic route confirms.
(The string comparison is only reached for rows whose AST flag is false.) -/
def effective (r : SegRow) (ast dyn : Bool) (arr : String) : Bool :=
  ast || (dyn && chainExceptions.contains (r.file, r.func, r.seg, arr))

def initsOK (r : SegRow) : Bool := effective r r.segInits r.dSegInits "SegInits"

/-- `SegLimits[seg]` is only read by `DefChkPC`: a switch function that installs its own `ChkPC` on every path, in a file that
never reads `SegLimits` itself, need not assign it -/
def limitsWaived (r : SegRow) : Bool := r.ownChkPC && !r.readsLimits

def limitsOK (r : SegRow) : Bool := effective r r.segLimits r.dSegLimits "SegLimits" || limitsWaived r

def okRow (r : SegRow) : Bool :=
  effective r r.grans r.dGrans "Grans" && effective r r.listGrans r.dListGrans "ListGrans" &&
  (initsOK r || findings.contains (r.file, r.func, r.seg, "SegInits")) &&
  (limitsOK r || findings.contains (r.file, r.func, r.seg, "SegLimits"))

/- Full statement (false on the pinned tree because of the entries of `findings`):
   theorem C18_targetdesc_complete_full : segRows.all (fun r => r.grans && r.listGrans && initsOK r && limitsOK r) = true
   What is missing: the repairs in code16c5x.c, codef8.c, codehmcs400.c, codeol40.c, codeol50.c, codesx20.c. -/

/-- **Every switch function gives every segment it declares valid its granularities, its start value and its limit** on
every path (clang AST of all code*.c) – except the listed known findings. -/
theorem C18_targetdesc_complete : segRows.all okRow = true := by decide +kernel

/-- every chain exception is confirmed by the dynamic route, and the dynamic route never contradicts an AST flag
(a `true` AST flag with an inherited value at run time would mean the syntactic route is unsound) -/
theorem C18_targetdesc_routes_agree :
    segRows.all (fun r => r.cpus == 0 ||
      ((!r.grans || r.dGrans) && (!r.listGrans || r.dListGrans) && (!r.segInits || r.dSegInits) && (!r.segLimits || r.dSegLimits))) = true := by
  decide +kernel

/-- the scalar part of the description – ValidSegs, HeaderID, NOPCode, PCSymbol, DivideChars, HasAttrs, TurnWords, MakeCode,
IsDef, SwitchFrom (which `SetCPUCore` does not reset itself) – is assigned on every path of every switch function, and no CPU
name inherits one of them at run time -/
theorem C18_targetdesc_scalars :
    funcRows.all (fun f => f.scalars.all id && f.scalars.length == scalarNames.length && f.validKnown && f.dynOk) = true := by
  decide +kernel

/-- the inventory is not empty: every code generator's switch functions, all segment kinds in use -/
theorem C18_targetdesc_inventory :
    90 ≤ funcRows.length ∧ 150 ≤ segRows.length ∧ 700 ≤ (funcRows.map (·.cpus)).sum ∧
    funcRows.all (fun f => f.cpus != 0) = true ∧
    (segRows.filter (fun r => r.seg != 1)).length ≥ 60 := by decide +kernel

/-! ## Connection to the file-independence model -/

/-- a target description as switch function `f` can produce it according to the generated table: CODE is valid; a valid
segment has a row of `f`; where the row says "assigned" the description has a value; `ownChk` as the row says -/
def Conforms (f : String) (t : Target) : Prop :=
  (t.seg 1).valid = true ∧
  ∀ s, (t.seg s).valid = true → ∃ r ∈ segRows, r.func = f ∧ r.seg = s ∧
    (initsOK r = true → (t.seg s).init.isSome = true) ∧
    (effective r r.segLimits r.dSegLimits "SegLimits" = true → (t.seg s).limit.isSome = true) ∧
    (r.ownChkPC = true → t.ownChk = true)

/-- no row of switch function `f` is a known finding -/
def Clean (f : String) : Prop :=
  ∀ r ∈ segRows, r.func = f → ∀ arr, findings.contains (r.file, r.func, r.seg, arr) = false

/-- **a conforming target of a clean switch function has a complete description** (this is where `C18_targetdesc_complete`
is used) -/
theorem C18_targetdesc_conforms_complete (f : String) (t : Target) (hc : Conforms f t) (hclean : Clean f) : Complete t := by
  refine ⟨hc.1, ?_⟩
  intro s hs
  obtain ⟨r, hr, hf, _, hi, hl, ho⟩ := hc.2 s hs
  have hok := (List.all_eq_true.mp C18_targetdesc_complete) r hr
  have hfi := hclean r hr hf "SegInits"
  have hfl := hclean r hr hf "SegLimits"
  unfold okRow at hok
  rw [hfi, hfl] at hok
  simp only [Bool.or_false, Bool.and_eq_true] at hok
  obtain ⟨⟨_, h1⟩, h2⟩ := hok
  refine ⟨hi h1, ?_⟩
  unfold limitsOK at h2
  rcases Bool.or_eq_true _ _ |>.mp h2 with h2 | h2
  · exact Or.inl (hl h2)
  · unfold limitsWaived at h2
    exact Or.inr (ho (Bool.and_eq_true _ _ |>.mp h2).1)

/-- **C18 on the model for the table of the current sources**: with a default target and a list of targets that conform to
clean switch functions of the generated table, the files of one invocation do not influence each other – for every list of
files (statements CPU / SEGMENT / label / ORG / ALIGN), whatever `SegInits[]` / `SegLimits[]` the predecessors left. -/
theorem C18_targetdesc_independent (fs : List String) (tg : List Target) (fd : String) (d : Target)
    (hd : Conforms fd d) (hdc : Clean fd)
    (htg : ∀ (i : Nat) (t : Target), tg[i]? = some t → ∃ f, fs[i]? = some f ∧ Conforms f t ∧ Clean f)
    (boot c : Core) (srcs : List (List Op)) :
    (assembleFiles tg d c srcs).1 = alone (assembleFile tg d) boot srcs := by
  have hcd := C18_targetdesc_conforms_complete fd d hd hdc
  have hall : ∀ (i : Nat) (t : Target), tg[i]? = some t → Complete t := by
    intro i t ht
    obtain ⟨f, _, hcf, hcl⟩ := htg i t ht
    exact C18_targetdesc_conforms_complete f t hcf hcl
  induction srcs generalizing c with
  | nil => rfl
  | cons s rest ih =>
    simp only [assembleFiles, runFiles, alone, List.map_cons]
    have h1 := file_result tg d hcd c boot s (fun i _ t ht => hall i t ht)
    have h2 := ih (assembleFile tg d c s).2
    simp only [assembleFiles, alone] at h2
    rw [h1, h2]

/-- the same for complete descriptions in general (no reference to the table) -/
theorem C18_targetdesc_model_independent (tg : List Target) (d : Target) (hd : Complete d)
    (htg : ∀ (i : Nat) (t : Target), tg[i]? = some t → Complete t) : Independent (assembleFile tg d) bootCore := by
  intro srcs
  generalize bootCore = c
  suffices h : ∀ c', (runFiles (assembleFile tg d) c' srcs).1 = alone (assembleFile tg d) c srcs from h c
  induction srcs with
  | nil => intro _; rfl
  | cons s rest ih =>
    intro c'
    simp only [runFiles, alone, List.map_cons]
    have h1 := file_result tg d hd c' c s (fun i _ t ht => htg i t ht)
    have h2 := ih (assembleFile tg d c' s).2
    simp only [alone] at h2
    rw [h1, h2]

/-! ## Proved negation: an element the switch function does not assign is state that survives the file -/

/-- default target: CODE only, start 0, limit 65535 -/
def tDefault : Target := ⟨[noSeg, ⟨true, some 0, some 65535⟩], false⟩
/-- shape of MCS-51: DATA starts at 30h -/
def t8051 : Target := ⟨[noSeg, ⟨true, some 0, some 65535⟩, ⟨true, some 48, some 255⟩], false⟩
/-- shape of `SwitchTo_16C5X` on the pinned tree: `SegInits[SegData]` is not assigned -/
def t16c5x : Target := ⟨[noSeg, ⟨true, some 0, some 511⟩, ⟨true, none, some 31⟩], false⟩
/-- the same after the repair -/
def t16c5xFixed : Target := ⟨[noSeg, ⟨true, some 0, some 511⟩, ⟨true, some 0, some 31⟩], false⟩

def leakPred : List Op := [.cpu 0]
def leakSucc : List Op := [.cpu 1, .segment 2, .label, .align 2, .org 31, .align 4]

/-- `asl a8051.asm b16c54.asm` differs from `asl a8051.asm; asl b16c54.asm`: the label at the start of DATA is 30h instead
of 0, and the reservation up to the next multiple of 4 overflows the segment only in the joint run – the shape of the known
findings `target-desc-not-assigned:*`; with the repaired description the runs agree. -/
theorem C18_finding_segInits_inherited :
    (assembleFiles [t8051, t16c5x] tDefault bootCore [leakPred, leakSucc]).1
      ≠ alone (assembleFile [t8051, t16c5x] tDefault) bootCore [leakPred, leakSucc] ∧
    ((assembleFiles [t8051, t16c5x] tDefault bootCore [leakPred, leakSucc]).1.map (·.obs)) = [[], [.lab 2 48]] ∧
    (alone (assembleFile [t8051, t16c5x] tDefault) bootCore [leakPred, leakSucc]).map (·.obs) = [[], [.lab 2 0]] ∧
    (assembleFiles [t8051, t16c5xFixed] tDefault bootCore [leakPred, leakSucc]).1
      = alone (assembleFile [t8051, t16c5xFixed] tDefault) bootCore [leakPred, leakSucc] := by
  decide

/-! ## Non-vacuity -/

example : Complete t8051 := completeB_iff _ (by decide)
example : Complete tDefault := completeB_iff _ (by decide)
example : ¬ Complete t16c5x := by
  intro h
  have := (h.2 2 (by decide)).1
  exact absurd this (by decide)

/-- a clean switch function of the current table and a conforming non-trivial description (MCS-51 shape: CODE, DATA from
30h, IDATA from 80h, XDATA, BITDATA) -/
example : ∃ r ∈ segRows, r.func = "SwitchTo_51" ∧ r.seg = 2 ∧ initsOK r = true ∧ limitsOK r = true :=
  ⟨⟨"code51.c", "SwitchTo_51", 2, true, true, true, true, true, true, true, true, false, false, 10⟩, by decide +kernel, rfl, rfl, by decide, by decide⟩

/-- a row of the current table the exception list is needed for, and a finding row (until the repair) -/
example : segRows.any (fun r => r.func == "SwitchTo_ACE" && !r.segInits && r.dSegInits) = true := by decide +kernel

end TargetDesc
end AslModel.C18
