import AslModel.Lemmas.CondEnv
import AslModel.Props.C12
/-!
# C12 — conditions whose truth comes from the environment or from the history of the pass

Property theorems only (helper lemmas: `Lemmas/CondEnv.lean`).

Model: `Model/CondEnv.lean` – the symbol table as far as `CodeIFDEF` / `CodeIFUSED` look at it (entry exists / `Defined` / `Used`,
`SymbolAdder`, the `Used = True` of the lookup, `ResetSymbolDefines` at the start of every pass, the table carried from pass to pass),
`CodeIFEXIST`'s call of `FSearch` (`existFound`), on top of the machine of `Model/Cond.lean`.
Spec: `Spec/CondEnv.lean` – "defined before", "referenced at least once up to now" (among the assembled lines in front of the statement,
`AssembledBefore`), "the same rules for search paths … as for INCLUDE" (`fileTruth` = `CtxSpec.search` finds a file); `resolveText` fills the
documented truth values into the text, Spec/Cond.lean's `selB` then says what is assembled.
-/
namespace AslModel.C12
open AslModel.Cond AslModel.CondEnv AslModel.CtxSpec

/-- **What a pass does depends on the earlier passes only through the set of symbols that have an entry.**  Two tables that hold entries for the
same symbols - whatever their `Defined` / `Used` marks say, i.e. whatever was defined or referenced in the passes before - lead to the same pass:
same machine, same table.  (The marks of the previous pass are wiped by `ResetSymbolDefines`; a pass that kept `Used` would violate this.) -/
theorem C12_env_pass_history_free (cfg : Cfg) (ec : EnvCfg) (fs : FS) (t t' : Tab) (ls : List ELine) (h : ∀ s, t.has s = t'.has s) :
    (passE cfg ec fs t ls).m = (passE cfg ec fs t' ls).m ∧ ∀ s, isSymbolUsed (passE cfg ec fs t ls).tab s = isSymbolUsed (passE cfg ec fs t' ls).tab s := by
  have hr : resetSymbolDefines t = resetSymbolDefines t' := by
    cases t; cases t'
    simp only [resetSymbolDefines, Tab.mk.injEq, and_true]
    funext s; exact h s
  simp [passE, hr]

example : ∃ t t' : Tab, (∀ s, t.has s = t'.has s) ∧ t.used 3 ≠ t'.used 3 :=
  ⟨⟨fun _ => true, fun _ => false, fun _ => true⟩, ⟨fun _ => true, fun _ => false, fun _ => false⟩, fun _ => rfl, by simp⟩

/-- **The value of IFDEF / IFUSED at a source position depends only on the lines in front of it in the same pass.**  At every point of every text,
in every pass (`t0`: whatever table the earlier passes left): `IsSymbolDefined` holds exactly for the symbols an assembled line in front of the
point has defined in this pass, and - for every symbol that has an entry from an earlier pass - `IsSymbolUsed` holds exactly for the symbols an
assembled line in front of the point has referenced in this pass. -/
theorem C12_env_table_is_this_pass (cfg : Cfg) (ec : EnvCfg) (fs : FS) (t0 : Tab) (ls : List ELine) (s : Nat) :
    let e := runE cfg ec fs ⟨init, resetSymbolDefines t0⟩ ls
    (isSymbolDefined e.tab s = true ↔ s ∈ e.m.defs) ∧ (t0.has s = true → (isSymbolUsed e.tab s = true ↔ s ∈ e.m.uses)) := by
  intro e
  have hi : TabInv t0 e.tab e.m.out := inv_runE (cfg := cfg) ls (e := ⟨init, resetSymbolDefines t0⟩) (by simpa [init] using inv_init t0)
  constructor
  · rw [mem_defs, isSymbolDefined, Bool.and_eq_true, hi.has, hi.defined]
    constructor
    · exact fun h => h.2
    · exact fun h => ⟨Or.inr h, h⟩
  · intro hs
    rw [mem_uses, isSymbolUsed, Bool.and_eq_true, hi.has, hi.used s hs]
    constructor
    · exact fun h => h.2
    · exact fun h => ⟨Or.inl hs, h⟩

/-- non-vacuity / the documented reading on a two-pass program: `db q` (forward reference), `IFUSED q`, `q: db 7` - the first pass does not see
the reference (no entry yet), the second - the one whose code is written - does -/
example :
    let ls : List ELine := [.plain (.leaf ⟨1, .use, 5⟩), .ifsym .used false 5, .plain (.leaf ⟨2, .plain, 0⟩), .plain (.endif 0), .plain (.leaf ⟨7, .pseudo, 5⟩)]
    let fs : FS := ⟨[], [], []⟩
    (passesE {} {} fs ls 1).m.codes = [1, 7] ∧ (passesE {} {} fs ls 2).m.codes = [1, 2, 7] ∧ (passesE {} {} fs ls 3).m.codes = [1, 2, 7] := by
  decide

/-- **IFEXIST name vs. INCLUDE name succeeds** (both as the C code searches: `CodeIFEXIST` resp. `INCLUDE_SearchCore` → `FSearch`): IFEXIST finds
the name iff INCLUDE written at the same place finds it, *or* the working directory holds it and `CodeIFEXIST` looks there. -/
theorem C12_env_ifexist_vs_include (ec : EnvCfg) (fs : FS) (curr : Path) (f : FName) :
    existFound ec fs curr f = ((Ctx.fsearch fs curr f).isSome || (ec.existCwd && fs.has (resolve fs.cwd f.comps))) := by
  simp only [existFound, existCandidates, Ctx.fsearch, Ctx.candidates, isSome_find?, List.any_cons, List.any_append]
  cases ec.existCwd <;> simp [Bool.or_comm, Bool.or_left_comm]

/-- with a `CodeIFEXIST` that searches like INCLUDE (no working directory in front of the list): **IFEXIST name = INCLUDE name succeeds** -/
theorem C12_env_ifexist_eq_include (ec : EnvCfg) (h : ec.existCwd = false) (fs : FS) (curr : Path) (f : FName) :
    existFound ec fs curr f = (Ctx.fsearch fs curr f).isSome := by
  rw [C12_env_ifexist_vs_include, h]; simp

/-- … and for a bare relative name with a `-i` list given, the C search of INCLUDE is the manual's rule (`fileTruth`) -/
theorem C12_env_include_search_is_documented (fs : FS) (file : Path) (f : FName) (ha : f.abs = false) (h1 : f.comps.length ≤ 1)
    (hi : fs.incl ≠ []) : (Ctx.fsearch fs file f).isSome = fileTruth fs file f := by
  have hl : ¬ f.comps.length > 1 := Nat.not_lt.2 h1
  have he : fs.incl.isEmpty = false := by cases hfi : fs.incl with
    | nil => exact absurd hfi hi
    | cons a r => rfl
  simp [fileTruth, search, places, Ctx.fsearch, Ctx.candidates, Ctx.inclEntries, ha, hl, he]

example : ∃ (fs : FS) (file : Path) (f : FName), f.abs = false ∧ f.comps.length ≤ 1 ∧ fs.incl ≠ [] ∧ fileTruth fs file f = true :=
  ⟨⟨[(["inc", "t.inc"], .text .nil)], [["inc"]], []⟩, ["src", "m.asm"], ⟨false, ["t.inc"]⟩, rfl, by decide, by simp, by decide⟩

/-- finding `ifexist-searches-working-directory`: main source in `src/`, `-i inc`, the file only in the working directory - `CodeIFEXIST` as it
stands (`existCwd`) finds it, INCLUDE's search does not, and the documented answer is "does not exist" -/
theorem C12_finding_ifexist_cwd :
    let fs : FS := ⟨[(["w", "only.inc"], .text .nil)], [["w", "inc"]], ["w"]⟩
    let f : FName := ⟨false, ["only.inc"]⟩
    existFound { existCwd := true } fs ["w", "src", "m.asm"] f = true ∧ (Ctx.fsearch fs ["w", "src", "m.asm"] f).isSome = false ∧
      fileTruth fs ["w", "src", "m.asm"] f = false ∧ existFound { existCwd := false } fs ["w", "src", "m.asm"] f = false := by
  decide

/-- **A pass goes through the text with the documented truth values.**  For every text `ls` (ordinary lines, the whole IF/SWITCH family, IFDEF /
IFNDEF / IFUSED / IFNUSED / IFEXIST / IFNEXIST anywhere, any nesting), in every pass (`t0`: the table the earlier passes left) in which the symbols
that IFUSED lines ask for have an entry and the file tests find what INCLUDE's rule finds (see `C12_env_ifexist_vs_include`): if the SPEC
determines the truth values (`resolveText … = some rs`, with any sound reader `asm` of "the assembled lines in front"), the machine does exactly
what `Model/Cond.lean` does on `rs` - and for `rs` everything of Props/C12.lean holds. -/
theorem C12_env_refines_spec (cfg : Cfg) (h1 : cfg.ifbStride = 1) (ec : EnvCfg) (fs : FS) (t0 : Tab) (asm : List Stmt → Option (List Leaf))
    (hs : SoundAsm asm) (ls : List ELine) (rs : List Stmt)
    (hk : ∀ neg s, ELine.ifsym .used neg s ∈ ls → t0.has s = true)
    (hx : ∀ neg file f, ELine.ifexist neg file f ∈ ls → existFound ec fs file f = fileTruth fs file f)
    (hr : resolveText fs asm [] ls = some rs) :
    (passE cfg ec fs t0 ls).m = endPass (run cfg init rs) := by
  have h := seenAll_eq_resolve (cfg := cfg) h1 (ec := ec) (fs := fs) (t0 := t0) hs rs ls [] ⟨init, resetSymbolDefines t0⟩ rfl
    (by simpa [init] using inv_init t0) hk hx hr
  simp only [List.nil_append] at h
  simp only [passE, runE_m, h]

/-- **Exactly the documented branch, whatever the earlier passes did**: if the resolved text is a skeleton, the code of the pass is the code of
the leaves `selB` selects, nothing is left open, no error. -/
theorem C12_env_select (cfg : Cfg) (h1 : cfg.ifbStride = 1) (ec : EnvCfg) (fs : FS) (t0 : Tab) (asm : List Stmt → Option (List Leaf))
    (hs : SoundAsm asm) (ls : List ELine) (b : Block)
    (hk : ∀ neg s, ELine.ifsym .used neg s ∈ ls → t0.has s = true)
    (hx : ∀ neg file f, ELine.ifexist neg file f ∈ ls → existFound ec fs file f = fileTruth fs file f)
    (hr : resolveText fs asm [] ls = some (flatB b)) :
    let m := (passE cfg ec fs t0 ls).m
    m.codes = codeOf (selB b) ∧ m.stack = [] ∧ m.ifAsm = true ∧ m.crashed = false ∧ hardErrs m = [] := by
  rw [C12_env_refines_spec cfg h1 ec fs t0 asm hs ls (flatB b) hk hx hr]
  exact C12_select_all_args cfg h1 b

/-- non-vacuity: `db q5` / `IFUSED q5` / `db 2` / `ENDIF` with a reader that knows the one prefix it is asked about -/
example :
    let l1 : Leaf := ⟨1, .use, 5⟩
    let asm : List Stmt → Option (List Leaf) := fun pre => if pre = [Stmt.leaf l1] then some [l1] else none
    let ls : List ELine := [.plain (.leaf l1), .ifsym .used false 5, .plain (.leaf ⟨2, .plain, 0⟩), .plain (.endif 0)]
    SoundAsm asm ∧ resolveText ⟨[], [], []⟩ asm [] ls = some (flatB (.cons (.leaf l1) (.cons (.ladder (.sym .used false true) (.cons (.leaf ⟨2, .plain, 0⟩) .nil) .done) .nil))) := by
  intro l1 asm ls
  constructor
  · intro pre lv h
    by_cases hp : pre = [Stmt.leaf l1]
    · simp only [asm, hp, if_true, Option.some.injEq] at h
      subst h; subst hp
      exact ⟨[], .cons (.leaf l1) .nil, rfl, rfl, rfl⟩
    · simp [asm, hp] at h
  · decide

end AslModel.C12
