import AslModel.Lemmas.FileOut
import AslModel.Generated.GenState
/-!
# C18 — per-file outputs under invocation options: error log, counters, jump-error bookkeeping

Property theorems only.  Model: `Model/FileOut.lean` (file loop of `main`, `AssembleFile` with the name / unlink / per-file close
of the error log, the pass loop, `WrErrorString` with the lazily opened handle and the fatal / `-maxerrors` stop, `WrXErrorPos`'
`JmpErrors`, `EnterSymbol`'s `-Y` path, `-Werror`), with the two reset points as data.  Spec: `Spec/Files.lean`
(`runFiles` / `alone`) for the per-file results and the file-system reading `content` of the events for the logs.

The theorems quantify over every option set, every list of sources, every statement list and every state left behind by
predecessors that do not end the process – no bound.
-/
namespace AslModel.C18
open AslModel.FileOut AslModel.FilesSpec AslModel.Generated

/-- **What a source yields does not depend on the counters its predecessors left** (`ErrorCount`, `WarnCount`, `JmpErrors`
arbitrary in `c1`, `c2`), provided `JmpErrors` is reset per pass and the log handle is in the same state. -/
theorem C18_out_carry_irrelevant (o : Opts) (hj : o.resetJmpPerPass = true) (c1 c2 : Carry)
    (he : c1.errFile = c2.errFile) (hd1 : c1.dead = false) (hd2 : c2.dead = false) (src : Source) :
    (assembleFile o c1 src).1 = (assembleFile o c2 src).1 := by
  rw [assembleFile_carry o hj c1 c2 he hd1 hd2 src]

/-- `asl f₁ … fₙ -E` (one log per source) gives, source by source, the status, pass count, counters, kept code file **and every
event on the output channels** that `asl fₖ -E` gives – from any state with the handle closed, for every list of sources none
of which ends the process with a fatal error (a fatal error ends the run; the sources behind it are not assembled). -/
theorem C18_out_independent_on (o : Opts) (hd : o.dest = .perFile) (hc : o.closePerFile = true)
    (hj : o.resetJmpPerPass = true) (c : Carry) (hce : c.errFile = none) (hcd : c.dead = false) (srcs : List Source)
    (hnf : ∀ s ∈ srcs, (assembleFile o boot s).1.status ≠ 3) :
    (assembleFiles o c srcs).1 = alone (assembleFile o) boot srcs := by
  induction srcs generalizing c with
  | nil => rfl
  | cons s rest ih =>
    have heq : assembleFile o c s = assembleFile o boot s := assembleFile_carry o hj c boot (by simp [hce, boot]) hcd rfl s
    have hs : (assembleFile o c s).1.status ≠ 3 := by rw [heq]; exact hnf s (by simp)
    have h2 := ih (assembleFile o c s).2 (assembleFile_errFile o hd hc c hce s) (assembleFile_dead o c hcd s hs)
      (fun t ht => hnf t (by simp [ht]))
    simp only [assembleFiles, runFiles, alone, List.map_cons] at h2 ⊢
    rw [h2, heq]

/-- **C18 for the per-file outputs on the model**, from a fresh process. -/
theorem C18_out_independent (o : Opts) (hd : o.dest = .perFile) (hc : o.closePerFile = true)
    (hj : o.resetJmpPerPass = true) (srcs : List Source) (hnf : ∀ s ∈ srcs, (assembleFile o boot s).1.status ≠ 3) :
    (runFiles (assembleFile o) boot srcs).1 = alone (assembleFile o) boot srcs :=
  C18_out_independent_on o hd hc hj boot rfl rfl srcs hnf

/-- **The log of every source holds, after the joint run, exactly what it holds after the stand-alone run** (and exists iff it
exists there): file-system reading of the events of the whole run, sources with pairwise different names. -/
theorem C18_out_log_content (o : Opts) (hd : o.dest = .perFile) (hc : o.closePerFile = true)
    (hj : o.resetJmpPerPass = true) (srcs : List Source) (hnf : ∀ s ∈ srcs, (assembleFile o boot s).1.status ≠ 3)
    (hnames : (srcs.map (·.1)).Nodup) (s : Source) (hs : s ∈ srcs) :
    content (.log s.1) none (allEvs (assembleFiles o boot srcs).1)
      = content (.log s.1) none (assembleFile o boot s).1.evs := by
  have h := C18_out_independent o hd hc hj srcs hnf
  simp only [assembleFiles] at h ⊢
  rw [h]
  simp only [allEvs, alone, List.flatMap_map]
  exact content_flatMap (fun x : Source => x.1) (fun x => (assembleFile o boot x).1.evs) srcs
    (fun x _ e he => assembleFile_evs_chan o hd boot rfl x e he) hnames s hs

/-- **One destination for all sources** (`-E <name>`, `-E !1`, `-E !2` = default): source by source the joint run gives the status,
pass count, counters, kept code file and message events of the stand-alone run – up to the `openW` event, which only the first
source that has something to say performs – from any state with the handle closed or open on that destination. -/
theorem C18_out_shared_on (o : Opts) (hd : o.dest ≠ .perFile) (hj : o.resetJmpPerPass = true) (c : Carry)
    (hce : c.errFile = none ∨ c.errFile = some (errName o 0)) (hcd : c.dead = false) (srcs : List Source)
    (hnf : ∀ s ∈ srcs, (assembleFile o boot s).1.status ≠ 3) :
    (assembleFiles o c srcs).1.map Result.noOpen = (alone (assembleFile o) boot srcs).map Result.noOpen := by
  induction srcs generalizing c with
  | nil => rfl
  | cons s rest ih =>
    have heq := assembleFile_noOpen o hd hj c boot hce (Or.inl rfl) hcd rfl s
    have hs : (assembleFile o c s).1.status ≠ 3 := by
      have h1 := congrArg Result.status heq
      simp only [Result.noOpen] at h1
      rw [h1]; exact hnf s (by simp)
    have h2 := ih (assembleFile o c s).2 (assembleFile_handle_shared o hd c hce s) (assembleFile_dead o c hcd s hs)
      (fun t ht => hnf t (by simp [ht]))
    simp only [assembleFiles, runFiles, alone, List.map_cons] at h2 ⊢
    rw [h2, heq]

/-- **A shared destination holds the stand-alone contents one after the other**: what the joint run writes to any channel is
the concatenation of what the stand-alone runs write to it. -/
theorem C18_out_shared_concat (o : Opts) (hd : o.dest ≠ .perFile) (hj : o.resetJmpPerPass = true) (srcs : List Source)
    (hnf : ∀ s ∈ srcs, (assembleFile o boot s).1.status ≠ 3) (ch : Chan) :
    written ch (allEvs (assembleFiles o boot srcs).1) = srcs.flatMap (fun s => written ch (assembleFile o boot s).1.evs) := by
  have h := C18_out_shared_on o hd hj boot (Or.inl rfl) rfl srcs hnf
  have hw : ∀ rs : List Result, rs.flatMap (fun r => written ch r.evs) = (rs.map Result.noOpen).flatMap (fun r => written ch r.evs) := by
    intro rs
    simp [List.flatMap_map, written_noOpen]
  rw [written_allEvs, hw, h, ← hw]
  simp [alone, List.flatMap_map]

/-! ## The reset points of the current sources -/

/-- `JmpErrors` is assigned on the per-pass initialisation path (row of `Generated.coreStacks`) -/
def jmpErrorsResetPerPass : Bool := coreStacks.lookup "JmpErrors" == some true

/-- the options of an invocation, with the reset points read from the C sources -/
def genOpts (dest : ErrDest) (y : Bool) (mx : Nat) (we : Bool) : Opts :=
  ⟨dest, y, mx, we, fileClosesErrorLog, jmpErrorsResetPerPass⟩

/-- `AssembleFile` itself closes the error log (`CloseIfOpen(&ErrorFile)` in its body) and `JmpErrors` is reset on the per-pass
path (`AsmErrPassInit`) – facts regenerated from the clang AST of as.c / asmerr.c every run. -/
theorem C18_out_reset_points : fileClosesErrorLog = true ∧ jmpErrorsResetPerPass = true := by decide +kernel

/-- **C18 for the reset points of the current sources**: every option set with one log per source, every list of sources. -/
theorem C18_out_generated_independent (y : Bool) (mx : Nat) (we : Bool) (srcs : List Source)
    (hnf : ∀ s ∈ srcs, (assembleFile (genOpts .perFile y mx we) boot s).1.status ≠ 3) :
    (runFiles (assembleFile (genOpts .perFile y mx we)) boot srcs).1 = alone (assembleFile (genOpts .perFile y mx we)) boot srcs :=
  C18_out_independent _ rfl C18_out_reset_points.1 C18_out_reset_points.2 srcs hnf

/-! ## Proved negations: each reset point is needed -/

def optE (close : Bool) : Opts := ⟨.perFile, false, 0, false, close, true⟩
def optY (reset : Bool) : Opts := ⟨.stderr, true, 0, false, true, reset⟩
/-- a source with one warning -/
def srcW (k : Nat) : Source := (k, [.warn])
/-- a backward branch over 200 bytes: a genuine jump-distance error -/
def srcJ : Source := (0, [.label 1, .code 200, .bne 1])
/-- a forward reference that shortens an instruction in pass 2 and moves the label behind it -/
def srcM : Source := (1, [.ldaFwd 1, .label 1])

/-- Without the per-file close the successor's messages land in the predecessor's log and its own log is never created. -/
theorem C18_out_noclose_leaks :
    content (.log 1) none (allEvs (assembleFiles (optE false) boot [srcW 0, srcW 1]).1) = none ∧
    content (.log 1) none (assembleFile (optE false) boot (srcW 1)).1.evs = some [.m 1 0 false] ∧
    content (.log 0) none (allEvs (assembleFiles (optE false) boot [srcW 0, srcW 1]).1) = some [.m 0 0 false, .m 1 0 false] := by
  decide +kernel

/-- Without the per-pass reset of `JmpErrors`, under `-Y` the jump error a failing predecessor leaves is subtracted from the
error count of a successor that needs a second pass: 0 − 1 wraps to 4294967295 and the code file is removed. -/
theorem C18_out_nojmpreset_leaks :
    (assembleFiles (optY false) boot [srcJ, srcM]).1.map (fun r => (r.errorCount, r.codeKept)) = [(1, false), (4294967295, false)] ∧
    (alone (assembleFile (optY false)) boot [srcJ, srcM]).map (fun r => (r.errorCount, r.codeKept)) = [(1, false), (0, true)] := by
  decide +kernel

/-! ## Non-vacuity -/

/-- the same histories with the reset points on: independent, the successor takes three passes -/
example : (assembleFiles (optY true) boot [srcJ, srcM]).1.map (fun r => (r.errorCount, r.codeKept, r.passes)) = [(1, false, 1), (0, true, 3)] := by
  decide +kernel

example : ∀ s ∈ [srcW 0, srcW 1], (assembleFile (optE true) boot s).1.status ≠ 3 := by decide +kernel

example : content (.log 1) none (allEvs (assembleFiles (optE true) boot [srcW 0, srcW 1]).1) = some [.m 1 0 false] := by decide +kernel

example : ([srcW 0, srcW 1].map (·.1)).Nodup := by decide

/-- shared destination: the second source finds the handle open, the joint stream is the concatenation -/
example : written .err (allEvs (assembleFiles (optY true) boot [srcJ, srcW 1]).1) = [.m 0 2 true, .m 1 0 false] ∧
    (assembleFiles (optY true) boot [srcJ, srcW 1]).1.map (·.evs) = [[.openW .err, .write .err (.m 0 2 true)], [.write .err (.m 1 0 false)]] := by
  decide +kernel

end AslModel.C18
