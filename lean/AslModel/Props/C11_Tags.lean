import AslModel.Lemmas.TagsCollect
/-! C11 - macro, repetition and inclusion constructs are transparent: property theorems, processor layer
(the input-tag machine of as.c, Model/Tags.lean, against the structural expansion `MacroSpec.expand`).

Full-strength statement of DESIGN.md 4.11 (`C11_machine_refines`):

    runTags (flatten prog) = expand prog     for every construct tree

What is proved (`C11_tags_refine`): for every tree `prog` of arbitrary nesting depth, arbitrary counts and argument
lists that is well formed (`WFB q cs [] false prog`) and whose call nodes carry distinct macro ids, the concrete tag
machine (`LineZ`/`LineRun`/`ParZ`/`ParIter`/`ParCnt` counters) run with enough fuel on `flatten prog` delivers exactly
`expand cs prog` to the assembler core, with the tag chain empty, no collector open and no crash.  PARTIAL in the
following, each item an explicit hypothesis in `WFB`/`WFI` (Lemmas/TagsTree.lean) or a limit of the model:

* no private labels (`locals = []` everywhere): the machine does not rename labels, it opens a local-symbol handle
  per expansion, which is outside the model; the SPEC's renaming suffix is therefore not compared;
* all texts `Clean` (no control characters - `KillCtrl` would rewrite them -, no backslash - the `\name\` form and
  the IRPC backslash doubling are outside, cf. known finding adjacent-tokens-misaligned-match); argument texts
  (IRP/IRPN arguments, IRPC strings, call arguments and keys, default values) moreover `Tidy`: no blanks - `SplitLine`
  cuts the blanks off both ends of an argument (in the model: `trimArg` in `execute`), the SPEC does not;
* placeholder names pass `ChkMacSymbName` and are not names of an enclosing construct of the same macro frame
  (`Binder`); the string of an IRPC is non-empty (known finding irpc-empty-string-iterates-once) and contains no
  name of an enclosing construct (`StableIn` - a sufficient condition for "still non-empty after substitution");
* EXITM not directly inside an IRP/IRPN body while the quirk `exitmIrpCrash` is on (known finding exitm-in-irp-crash),
  and not at top level;
* macro calls: positional arguments precede keyword arguments; the implicit names ALLARGS/ARGCOUNT occur in a macro
  body only in a spelling on which the case-insensitive match of the assembler and the SPEC's match agree, and
  ARGCOUNT only where the number of written arguments equals the bound count while the quirk `argCountWritten` is on
  (known finding argcount-below-formal-count) - `ImplLineOK`;
* argument counts within `ArgCntMax` (regenerated from asmdef.h);
* SHIFT, WHILE, INCLUDE, macro definitions inside bodies and recursion are not expressible in the SPEC's tree; SHIFT
  is in the model (and in the correspondence check), `C11_shift` says what it does to the macro tag;
* fuel: `∃ k, ∀ fuel ≥ k` (the trees have neither recursion nor WHILE, so the run terminates). -/
namespace AslModel.Tags
open AslModel.MacroSpec AslModel.Macro AslModel.Generated

/-- The tag machine refines the structural expansion: for every well-formed construct tree the concrete machine
    delivers exactly the lines of `MacroSpec.expand`, and ends with an empty tag chain. -/
theorem C11_tags_refine (q : Quirks) (cs : Bool) (prog : Body)
    (hwf : WFB q cs [] false prog) (hid : (callIdsB prog).Nodup) :
    ∃ k, ∀ fuel, k ≤ fuel →
      (runFile q cs fuel (flatten prog)).out = expand cs prog ∧
      (runFile q cs fuel (flatten prog)).inp = [] ∧
      (runFile q cs fuel (flatten prog)).coll = none ∧
      (runFile q cs fuel (flatten prog)).crashed = false := by
  obtain ⟨k, hk⟩ := concrete_of_go q cs (flatten prog) _ _ (program_go q cs prog hwf hid)
  exact ⟨k, fun n hn => ⟨(hk n hn).1, (hk n hn).2.1, (hk n hn).2.2.1, (hk n hn).2.2.2.1⟩⟩

/-- REPT with a count ≤ 0 (also a negative one) delivers nothing, whatever its body (any construct tree, no
    well-formedness needed); the line after its ENDM is the next one delivered. -/
theorem C11_rept_zero (q : Quirks) (cs : Bool) (n : Int) (hn : n ≤ 0) (b : Body) (post : Line) :
    ∃ k, ∀ fuel, k ≤ fuel →
      (runFile q cs fuel (.rept n :: (flatBody b ++ [.endm, .plain post]))).out = [post] ∧
      (runFile q cs fuel (.rept n :: (flatBody b ++ [.endm, .plain post]))).inp = [] := by
  have e : SLine.rept n :: (flatBody b ++ [.endm, .plain post]) =
      (SLine.rept n :: (flatBody b ++ [.endm])) ++ [.plain post] := by simp
  have g1 := gather q cs (.rept n) (.rept n) (by simp) (fun _ => rfl) (flatBody b) (collectsB q cs b)
    [] allE_nil .file [.plain post] [] [] []
  have hfin : finishColl aops q ⟨.rept n, 0, (flatBody b).map (CKind.store cs (.rept n))⟩
      (cfg [⟨.file, [.plain post]⟩] (some ⟨.rept n, 0, (flatBody b).map (CKind.store cs (.rept n))⟩) [] [])
      = cfg [⟨.file, [.plain post]⟩] none [] [] := by
    have : ¬ n > 0 := by omega
    simp [finishColl, this, cfg]
  rw [hfin] at g1
  have g2 := exec_plain q cs post [] allE_nil .file [] [] [] []
  have g3 := go_end q cs [⟨.file, []⟩] (allE_snoc allE_nil .file) [] ([] ++ [post])
  have g := Go.trans q cs (Go.trans q cs g1 g2) g3
  simp only [List.nil_append] at g
  rw [← e] at g
  obtain ⟨k, hk⟩ := concrete_of_go q cs _ _ _ g
  exact ⟨k, fun m hm => ⟨(hk m hm).1, (hk m hm).2.1⟩⟩

/-- IRPN with group size k on n ≥ k arguments: the tag `ExpandIRPN` builds (arguments padded with `Remainder` empty
    strings, `ParIter = k`) delivers the stored body once per group of the SPEC's `groupsOf` - the ragged tail filled
    with empty arguments, as the manual says -, and there are ceil(n/k) groups. -/
theorem C11_irpn_groups (k : Nat) (hk : 1 ≤ k) (args : List Line) (hn : k ≤ args.length) (ls : List SLine) :
    rem (mkIrp k (args ++ List.replicate ((k - args.length % k) % k) []) ls) =
      (groupsOf k args.length args).flatMap (fun g => ls.map (SLine.map (expandAll 1 g))) ∧
    (groupsOf k args.length args).length = (args.length + k - 1) / k ∧
    ∀ g ∈ groupsOf k args.length args, g.length = k := by
  have hkk : k = if k = 0 then 1 else k := by
    have : k ≠ 0 := by omega
    simp [this]
  have hr : (k - args.length % k) % k < k := Nat.mod_lt _ (by omega)
  have hpl : (args ++ List.replicate ((k - args.length % k) % k) ([] : Line)).length
      = args.length + (k - args.length % k) % k := by simp
  refine ⟨?_, groupsOf_length k hk _ _ (Nat.le_refl _), fun g hg => (groupsOf_mem k hk _ _ g hg).1⟩
  rw [rem_mkIrp k _ ls k hkk (by rw [hpl]; exact pad_mod _ _ hk) (by omega),
    groupsOf_fuel k hk _ (args.length + k) _ (Nat.le_refl _) (by omega),
    groupsOf_padded k hk args.length args (Nat.le_refl _)]
  rfl

/-- EXITM ends exactly the innermost construct: the first input tag (the one that delivered the EXITM line - a macro
    expansion or a repetition) will deliver nothing more, i.e. all its remaining lines and iterations are dropped,
    nothing is delivered for the EXITM itself, and the next `GetNextLine` continues with the enclosing tags unchanged. -/
theorem C11_exitm (q : Quirks) (cs : Bool) (s : St Tag) (t : Tag) (rest : List Tag)
    (hs : s.inp = t :: rest) (hc : s.coll = none) (hk : t.kind ≠ .file)
    (hq : ¬ (t.kind = .irp ∧ q.exitmIrpCrash = true)) :
    (dispatch ops q cs .exitm s).inp = exitTag t :: rest ∧
    (dispatch ops q cs .exitm s).out = s.out ∧
    (dispatch ops q cs .exitm s).crashed = s.crashed ∧
    rem (exitTag t) = [] ∧
    fetch ops (dispatch ops q cs .exitm s).inp = fetch ops rest := by
  have h2 : (decide (t.kind = TKind.irp) && q.exitmIrpCrash) = false := by
    by_cases h : t.kind = .irp
    · cases hq' : q.exitmIrpCrash with
      | false => simp
      | true => exact absurd ⟨h, hq'⟩ hq
    · simp [h]
  have hd : dispatch ops q cs .exitm s = { s with inp := exitTag t :: rest } := by
    simp only [dispatch, hc, execute, hs]
    show (if t.kind = .file then s else if (decide (t.kind = TKind.irp) && q.exitmIrpCrash) = true then _ else _) = _
    rw [if_neg hk, h2]
    rfl
  rw [hd]
  refine ⟨rfl, rfl, rfl, rem_empty _ rfl, ?_⟩
  simp [fetch, popEmpty, ops, exitTag]

/-- A nested MACRO/REPT/IRP/IRPN/IRPC inside a body that is being collected does not end the collection early: over
    the lines of any construct tree the collector (of any kind but the error skipper) returns to its nesting level and
    has stored every line, nested ENDMs included; the ENDM after them is the matching one and closes the collection.
    Holds for every representation of the input tags. -/
theorem C11_collect_nesting {τ : Type} (o : TagOps τ) (q : Quirks) (cs : Bool) (b : Body) (kind : CKind)
    (hk : kind ≠ .wait) (acc : List SLine) (s : St τ) (hs : s.coll = some ⟨kind, 0, acc⟩) :
    feed o q cs s (flatBody b) = { s with coll := some ⟨kind, 0, acc ++ (flatBody b).map (kind.store cs)⟩ } ∧
    feed o q cs s (flatBody b ++ [.endm]) =
      finishColl o q ⟨kind, 0, acc ++ (flatBody b).map (kind.store cs)⟩
        { s with coll := some ⟨kind, 0, acc ++ (flatBody b).map (kind.store cs)⟩ } := by
  have h1 := keepsB o q cs b kind hk 0 acc s hs
  refine ⟨h1, ?_⟩
  rw [feed_append, h1]
  simp [feed, dispatch, collect, SLine.isStart, SLine.isEnd]

/-- The argument list `ExpandMacro` builds (positional, keyword, defaults, excess) is the SPEC's `bindArgs`, provided
    no positional argument follows a keyword argument (the assembler rejects that). -/
theorem C11_bind_args (cs : Bool) (m : MacroRec) (args : List CallArg) (h : posThenKey args) :
    boundParams cs m args = bindArgs cs m.params m.defaults args := bound_eq cs m args h

/-- What a macro call delivers for a stored clean body line: the whole-name substitution of the explicit parameters
    and of the implicit parameters ALLARGS and ARGCOUNT (token numbers ArgCntMax+3 / ArgCntMax+2, matched without
    regard to case). -/
theorem C11_macro_line_implicit (cs : Bool) (params args : List Line) (numA numS allA : Line) (l : Line)
    (hl : Clean l) (hn : ∀ p ∈ params, NameOK p) (hg : ∀ a ∈ args, Clean a) (hnum : Clean numA)
    (hlen : args.length = params.length) (hmax : params.length ≤ argCntMax) (himp : ImplLineOK cs numA numS l) :
    deliverLine args numA allA (storeLine cs params l) =
      substWhole cs (params ++ [allArgsName, argCountName]) (args ++ [allA, numS]) l :=
  macro_line_full cs params args numA numS allA l hl hn hg hnum hlen hmax himp

/-- SHIFT on a macro tag with at least one parameter left (the code as it is, quirk `shiftLeavesToken`): the first
    parameter is dropped, only the tokens 1..ParCnt-1 are expanded from then on (the token of the last formal parameter
    stays in the line: known finding shift-leaves-last-parameter-token), ARGCOUNT is recomputed from `ParCnt`, ALLARGS
    from the remaining list (by `ComputeMacroStrings`' join, quirk `allArgsSkipsEmpty`). -/
theorem C11_shift (t : Tag) (p : Line) (ps : List Line) (hp : t.params = p :: ps) (hq : t.fixedTok = none)
    (hj : t.skipEmptyJoin = true) (hn : (t.parCnt - 1).toNat ≤ ps.length) :
    macroFn (shiftTag t) =
      deliverLine (ps.take (t.parCnt - 1).toNat) (intDigits (t.parCnt - 1)) (catAllArgs [] ps) := by
  have h : tokArgs (shiftTag t) = ps.take (t.parCnt - 1).toNat := by
    simp only [tokArgs, shiftTag, hp, hq]
    exact padTake_le _ _ hn
  simp only [macroFn, h]
  simp [shiftTag, hp, hj]

/-- KNOWN FINDING allargs-after-shift-drops-empty-argument (model level): after SHIFT the remaining arguments
    `` (empty) and `3` are joined to `3`, not to `,3` - `ComputeMacroStrings` writes no comma while the text is empty. -/
theorem C11_finding_allargs_shift : catAllArgs [] [[], [51]] = [51] ∧ joinComma [[], [51]] = [44, 51] := by decide

/-- KNOWN FINDING exitm-in-irp-crash (model level): with the quirk on, EXITM delivered by an IRP/IRPN tag crashes. -/
theorem C11_finding_exitm_irp (q : Quirks) (cs : Bool) (s : St Tag) (t : Tag) (rest : List Tag)
    (hs : s.inp = t :: rest) (hc : s.coll = none) (hk : t.kind = .irp) (hq : q.exitmIrpCrash = true) :
    (dispatch ops q cs .exitm s).crashed = true := by
  simp only [dispatch, hc, execute, hs]
  show (if t.kind = .file then s else if (decide (t.kind = TKind.irp) && q.exitmIrpCrash) = true then _ else _).crashed = _
  simp [hk, hq]

/-- KNOWN FINDING irpc-empty-string-iterates-once (model level): the IRPC tag for an empty string still delivers its
    (non-empty) body once, with nothing inserted for the character. -/
theorem C11_finding_irpc_empty (ls : List SLine) (hl : ls ≠ []) :
    rem (mkIrpc [] ls) = ls.map (SLine.map (expandLine 1 [])) := rem_mkIrpc_empty ls hl

/-! ### non-vacuity -/

def qNow : Quirks :=
  { irpcEmptyOnce := true, exitmIrpCrash := true, argCountWritten := true, shiftLeavesToken := true,
    allArgsSkipsEmpty := true }

-- " db p"   " db 1"   " db 2"   " db a,b"   " db 'c'"   " db 200,ALLARGS"
def tP : Line := [32, 100, 98, 32, 112]
def t1 : Line := [32, 100, 98, 32, 49]
def t2 : Line := [32, 100, 98, 32, 50]
def tAB : Line := [32, 100, 98, 32, 97, 44, 98]
def tC : Line := [32, 100, 98, 32, 39, 99, 39]
def tAll : Line := [32, 100, 98, 32, 50, 48, 48, 44, 65, 76, 76, 65, 82, 71, 83]

/-- `mac7 macro p=0 / db p / db 200,ALLARGS / rept 2 [db 1 / exitm / db 2] / irpn 2,a,b,x,y,z [db a,b] /
    irpc c,"XY" [db 'c'] / endm ; mac7 5` -/
def exBody : Body :=
  .cons (.line tP) (.cons (.line tAll)
  (.cons (.rept 1 2 [] (.cons (.line t1) (.cons .exitm (.cons (.line t2) .nil))))
  (.cons (.irpn 2 [[97], [98]] [[120], [121], [122]] [] (.cons (.line tAB) .nil))
  (.cons (.irpc 3 [99] [88, 89] [] (.cons (.line tC) .nil)) .nil))))

def exProg : Body := .cons (.call 7 [[112]] [[48]] [] exBody [⟨none, [53]⟩]) .nil

/-- the hypotheses of `C11_tags_refine` hold for the tree above -/
theorem C11_example_wf : WFB qNow false [] false exProg := by
  simp only [WFB, WFI, exProg, exBody, and_true, true_and]
  repeat' refine And.intro ?_ ?_
  all_goals first
    | decide
    | (rw [stableIn_iff]; decide)
    | (intro sl hsl
       simp only [flatBody, flatItem, List.cons_append, List.nil_append, List.append_nil, List.mem_cons,
         List.mem_nil_iff, or_false] at hsl
       rcases hsl with rfl | rfl | rfl | rfl | rfl | rfl | rfl | rfl | rfl | rfl | rfl | rfl | rfl
       all_goals simp only [SLine.All, implLineOK_iff]
       all_goals decide)

example : (callIdsB exProg).Nodup := by decide

/-- the tree above expands to: db 5 / db 200,5 / db 1 / db x,y / db z, / db 'X' / db 'Y' -/
example : expand false exProg =
    [[32, 100, 98, 32, 53], [32, 100, 98, 32, 50, 48, 48, 44, 53], t1,
     [32, 100, 98, 32, 120, 44, 121], [32, 100, 98, 32, 122, 44], [32, 100, 98, 32, 39, 88, 39],
     [32, 100, 98, 32, 39, 89, 39]] := by decide

/-- `C11_tags_refine` on the tree above: this is what the concrete machine delivers -/
example : ∃ k, ∀ fuel, k ≤ fuel → (runFile qNow false fuel (flatten exProg)).out =
    [[32, 100, 98, 32, 53], [32, 100, 98, 32, 50, 48, 48, 44, 53], t1,
     [32, 100, 98, 32, 120, 44, 121], [32, 100, 98, 32, 122, 44], [32, 100, 98, 32, 39, 88, 39],
     [32, 100, 98, 32, 39, 89, 39]] := by
  obtain ⟨k, hk⟩ := C11_tags_refine qNow false exProg C11_example_wf (by decide)
  exact ⟨k, fun f hf => by rw [(hk f hf).1]; decide⟩

/-- EXITM hypotheses: a REPT tag in its first iteration -/
example : (mkRept 3 [.plain t1, .exitm, .plain t2]).kind ≠ .file ∧
    ¬ ((mkRept 3 [.plain t1, .exitm, .plain t2]).kind = .irp ∧ qNow.exitmIrpCrash = true) := by decide

/-- IRPN: 5 arguments in groups of 2 -> 3 groups, the last one padded -/
example : groupsOf 2 5 [[49], [50], [51], [52], [53]] = [[[49], [50]], [[51], [52]], [[53], []]] := by decide

example : posThenKey [⟨none, [53]⟩, ⟨some [112], [54]⟩] := by decide

example : Clean tAll ∧ ImplLineOK true [49] [49] tAll := by
  refine ⟨by decide, ?_⟩
  rw [implLineOK_iff]; decide

end AslModel.Tags
