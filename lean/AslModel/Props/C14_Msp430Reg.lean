import AslModel.Model.Isa.IMsp430Reg
/-!
# C14, MSP430: operand name → register number (`DecodeReg` with register aliases)

`C14_msp430_reg_alias`: for every list of alias definitions (REG / EQU, aliases of aliases, redefinitions, right sides
that are no register) and every name, the model of `DecodeReg` over the symbol table these definitions build gives
exactly the register the SPEC says the name denotes.  `C14_msp430_reg_alias_literal`: an alias is decoded like the
canonical literal name `R<n>` of the register it stands for.
-/
namespace AslModel.C14
open AslModel.Spec.IMsp430Reg AslModel.Isa.IMsp430Reg

theorem C14_msp430_reg_unmark : ∀ n, n < 16 → unmark n = n := by decide

theorem C14_msp430_reg_literal (s : Name) : (decodeRegCore s).map unmark = litReg s := by
  unfold decodeRegCore litReg
  split
  · rfl
  split
  · rfl
  split
  · rfl
  cases s with
  | nil => rfl
  | cons c ds =>
    cases ds with
    | nil => simp
    | cons d ds =>
      simp only [List.length_cons]
      by_cases h : c.toUpper = 'R' ∧ ds.length ≤ 1
      · have h' : c.toUpper = 'R' ∧ 2 ≤ ds.length + 1 + 1 ∧ ds.length + 1 + 1 ≤ 3 := ⟨h.1, by omega, by omega⟩
        rw [if_pos h, if_pos h']
        cases decNumAux 0 (d :: ds) with
        | none => rfl
        | some n =>
          by_cases hn : n < 16
          · simp [hn, C14_msp430_reg_unmark n hn]
          · simp [hn]
      · have h' : ¬ (c.toUpper = 'R' ∧ 2 ≤ ds.length + 1 + 1 ∧ ds.length + 1 + 1 ≤ 3) := by
          intro x; exact h ⟨x.1, by omega⟩
        rw [if_neg h, if_neg h']; rfl

theorem C14_msp430_reg_paths (tab : SymTab) (s : Name) : decodeReg tab s = (evalReg tab s).map unmark := by
  unfold decodeReg evalReg
  cases decodeRegCore s <;> rfl

theorem C14_msp430_reg_table (defs : List (Name × Name)) : ∀ s, (evalReg (build defs) s).map unmark = denote defs s := by
  induction defs with
  | nil =>
    intro s
    have := C14_msp430_reg_literal s
    unfold evalReg build find denote
    cases h : decodeRegCore s <;> simp [h] at this ⊢ <;> exact this
  | cons d older ih =>
    intro s
    obtain ⟨n, rhs⟩ := d
    have ihs := ih s
    have ihr := ih rhs
    simp only [build, denote]
    cases hr : evalReg (build older) rhs with
    | none =>
      simp only [hr, Option.map_none] at ihr ⊢
      rw [ihs]
      cases hs : denote older s with
      | some x => rfl
      | none => simp [← ihr]
    | some r =>
      simp only [hr, Option.map_some] at ihr
      simp only []
      by_cases hf : (find (build older) n).isSome = true
      · rw [if_pos hf, ihs]
        cases hs : denote older s with
        | some x => rfl
        | none =>
          by_cases hn : n = s
          · exfalso
            subst hn
            rw [hs] at ihs
            unfold evalReg at ihs
            cases hc : decodeRegCore n with
            | some x => simp [hc] at ihs
            | none =>
              simp only [hc] at ihs
              cases hq : find (build older) n with
              | none => simp [hq] at hf
              | some y => simp [hq] at ihs
          · simp [hn]
      · rw [if_neg hf]
        have hfn : find (build older) n = none := by
          cases hq : find (build older) n with
          | none => rfl
          | some y => simp [hq] at hf
        unfold evalReg at ihs ⊢
        cases hc : decodeRegCore s with
        | some x =>
          simp only [hc, Option.map_some] at ihs ⊢
          rw [← ihs]
        | none =>
          simp only [hc] at ihs ⊢
          simp only [find]
          by_cases hn : n = s
          · subst hn
            rw [hfn] at ihs
            simp only [Option.map_none] at ihs
            rw [if_pos rfl, ← ihs]
            simp [← ihr]
          · rw [if_neg hn, ihs]
            cases hs : denote older s with
            | some x => rfl
            | none => simp [hn]

/-- the model of `DecodeReg` over the symbol table built by any sequence of alias definitions gives the register the
name denotes according to the SPEC – for literal names, aliases, aliases of aliases, undefined names alike -/
theorem C14_msp430_reg_alias (defs : List (Name × Name)) (s : Name) :
    decodeReg (build defs) s = denote defs s := by
  rw [C14_msp430_reg_paths, C14_msp430_reg_table]

theorem C14_msp430_reg_canonical : ∀ r, r < 16 → decodeRegCore (regName r) = some r := by decide

/-- an alias is decoded like the canonical literal name of the register it stands for, whatever else is defined -/
theorem C14_msp430_reg_alias_literal (defs : List (Name × Name)) (s : Name) (r : Nat) (hr : r < 16)
    (h : denote defs s = some r) (tab : SymTab) :
    decodeReg (build defs) s = decodeReg tab (regName r) := by
  rw [C14_msp430_reg_alias, h]
  unfold decodeReg
  rw [C14_msp430_reg_canonical r hr]
  simp only [C14_msp430_reg_unmark r hr]

/-- every register number the SPEC assigns is one of the sixteen -/
theorem C14_msp430_reg_denote_lt (defs : List (Name × Name)) : ∀ s r, denote defs s = some r → r < 16 := by
  induction defs with
  | nil =>
    intro s r h
    simp only [denote] at h
    unfold litReg at h
    split at h
    · simp at h; omega
    split at h
    · simp at h; omega
    split at h
    · simp at h; omega
    split at h
    · split at h
      · split at h
        · split at h
          · simp at h; omega
          · simp at h
        · simp at h
      · simp at h
    · simp at h
  | cons d older ih =>
    intro s r h
    obtain ⟨n, rhs⟩ := d
    simp only [denote] at h
    cases hs : denote older s with
    | some x => rw [hs] at h; simp at h; subst h; exact ih s x hs
    | none =>
      rw [hs] at h
      by_cases hn : n = s
      · simp [hn] at h; exact ih rhs r (by simpa [hn] using h)
      · simp [hn] at h

-- non-vacuity: `mysp REG sp`, `esp EQU sp`, `resp REG esp`; the alias of an alias of SP is register 1
example : denote [("RESP".toList, "ESP".toList), ("ESP".toList, "sp".toList), ("MYSP".toList, "SP".toList)] "RESP".toList = some 1 := by decide
example : decodeReg (build [("RESP".toList, "ESP".toList), ("ESP".toList, "sp".toList)]) "RESP".toList = some 1 := by decide
example : find (build [("ESP".toList, "sp".toList)]) "ESP".toList = some 17 := by decide

end AslModel.C14
