import AslModel.Spec.ReportObjects
import AslModel.Generated.ReportFlow
import AslModel.Props.C17
/-! # C17 – the information-flow inventory of the report options, as proof obligations

`Generated/ReportFlow.lean` is regenerated on every run from the clang AST of all translation units of `asl`
(`translate/reportflow.py`): the report switches of `ASParams[]` with the variables their handlers assign, and every
object (global variable, record field, stream, message call) that a value or a condition derived from one of these
variables reaches – one `Row` per object, with all the uses `(variable, function, file, kind, via)` that reach it.
`Spec/ReportObjects.lean` is the hand-written classification of objects (written from the manual's description of
the switches and from what each object is for).

The obligations below join the two.  An object that is neither classified as report data nor covered by an
explicitly listed, justified exception makes `C17_flow_inventory` false – so a new flow from a report option into
assembler state (e.g. `AddReference` setting the `Used` flag that `IFUSED` reads) breaks the proof.

What this is NOT: a proof about the C semantics.  The analysis is syntactic (flow-insensitive taint over the typed
AST, calls through function pointers resolved by name, libc by a table); it ties the abstract noninterference
theorem of `Props/C17.lean` to the source and is complemented by the differential runs of vlib/props/c17.py. -/
namespace AslModel.C17
open AslModel.Generated.ReportFlow AslModel.ReportObjects AslModel.ReportPipe

/-! ## classification of one row -/

/-- The object is classified: the entry of `classKeys` (seed list of `Spec/ReportObjects.lean`: report data and
accepted scratch objects, followed by the report variables themselves – see `C17_flow_seed_in_sync`) that the
generator points to is the object's key or (`byGrp`), for a record field, its record.  Position and `byGrp` are only
hints – the strings are compared here – so that the kernel evaluates two strings per row instead of searching the
list (forcing one string literal costs the 4.33 kernel about 15 ms). -/
def okObj (obj grp : String) (key : Nat) (byGrp : Bool) : Bool :=
  match classKeys[key]? with
  | some k => if byGrp then k == grp else k == obj
  | none => false

/-- A justified exception: uses of report variable `var` (`*` = any) in function `fn` that reach `obj` through `via`
(`*` = any).  `cls`: `harmless` (examined: cannot change the code file), `finding` (changes the outcome; recorded in
known_findings.json under `sig`), `imprecise` (artefact of the type-based heap abstraction, examined). -/
structure Exc where
  var : String
  fn : String
  obj : String
  via : String
  cls : String
  why : String
deriving Repr, DecidableEq

def exceptions : List Exc := [
  -- the code buffers: MakeList turns the code words into listing order and back
  ⟨"*", "MakeList", "g:WAsmCode", "DreheCodes", "harmless",
    "DreheCodes is applied twice around the printing of the code words; it is an involution (C17_drehe_involutive), modelled in ReportPipe.makeList"⟩,
  ⟨"*", "MakeList", "g:DAsmCode", "DreheCodes", "harmless",
    "the same buffer seen as 32-bit words"⟩,
  -- -A: shape of the symbol trees
  ⟨"BalanceTrees", "EnterTree", "h:tag_TTree.Balance", "*", "harmless",
    "-A only changes the shape of the search trees (AVL rotations); lookup by name and in-order traversal do not depend on the shape"⟩,
  ⟨"BalanceTrees", "EnterTree", "h:tag_TTree.Left", "*", "harmless", "see Balance"⟩,
  ⟨"BalanceTrees", "EnterTree", "h:tag_TTree.Right", "*", "harmless", "see Balance"⟩,
  ⟨"BalanceTrees", "EnterTree", "fn:EnterTree", "*", "harmless",
    "the result of EnterTree says whether the node was entered / whether the subtree grew; only the latter depends on -A and is consumed by EnterTree itself"⟩,
  -- -h / -SPLITBYTE: number-to-text conversions (known finding for -SPLITBYTE)
  ⟨"SplitByteCharacter", "vsprcatf_core", "fn:vsprcatf_core", "*", "finding",
    "splitbyte-leaks-into-number-to-text-conversions: the printf core passes the global to SysString for every integer conversion"⟩,
  ⟨"SplitByteCharacter", "StrSym", "fn:StrSym", "*", "finding",
    "splitbyte-leaks-into-number-to-text-conversions: arguments of user-defined functions are converted with the split character and parsed again"⟩,
  ⟨"SplitByteCharacter", "ConstStringVal", "fn:ConstStringVal", "*", "harmless",
    "\\{...} in string constants: excluded by the property statement (sources that stringify numbers)"⟩,
  ⟨"HexStartCharacter", "vsprcatf_core", "fn:vsprcatf_core", "*", "harmless",
    "-h changes the letter case of hex digits / exponent letters produced by the printf core; every place that parses such text again accepts both cases"⟩,
  ⟨"HexStartCharacter", "StrSym", "fn:StrSym", "*", "harmless",
    "letter case of hex digits in re-parsed function arguments: the constant parser is case insensitive"⟩,
  ⟨"HexStartCharacter", "FloatString", "fn:FloatString", "*", "harmless",
    "exponent letter e/E chosen with -h; the re-parse (and ConvertMotoFloatDec below) looks for the same letter"⟩,
  ⟨"HexStartCharacter", "ConvertMotoFloatDec", "fn:ConvertMotoFloatDec", "*", "harmless",
    "searches the exponent letter that the printf core has just written with the same HexStartCharacter"⟩,
  ⟨"HexStartCharacter", "ConstStringVal", "fn:ConstStringVal", "*", "harmless",
    "\\{...} in string constants: excluded by the property statement"⟩,
  -- -u / -r: additional warnings (finding: they become errors under -WERROR)
  ⟨"MakeUseList", "BookKeeping", "call:WrError", "WrError", "finding",
    "report-option-warning-becomes-error-under-werror: `overlapping memory usage` is only detected when the usage list is kept"⟩,
  ⟨"MakeUseList", "CodeEquate", "call:WrError", "WrError", "finding", "as BookKeeping (bit / SFR symbols entered into the usage list)"⟩,
  ⟨"MakeUseList", "DecodeBIT", "call:WrError", "WrError", "finding", "as BookKeeping (AVR BIT)"⟩,
  ⟨"MakeUseList", "DecodeSFR", "call:WrError", "WrError", "finding", "as BookKeeping (8051 SFR / SFRB)"⟩,
  ⟨"MsgIfRepass", "LookupSymbol", "call:WrStrErrorPos", "WrStrErrorPos", "finding",
    "report-option-warning-becomes-error-under-werror: `unknown symbol value forces additional pass` is a warning requested by -r"⟩,
  ⟨"PassNoForMessage", "LookupSymbol", "call:WrStrErrorPos", "WrStrErrorPos", "finding", "as MsgIfRepass"⟩,
  ⟨"MsgIfRepass", "SymbolAdder", "call:WrXError", "WrXError", "finding",
    "report-option-warning-becomes-error-under-werror: `symbol value changed, forces additional pass` requested by -r"⟩,
  ⟨"PassNoForMessage", "SymbolAdder", "call:WrXError", "WrXError", "finding", "as MsgIfRepass"⟩,
  -- artefact of keying heap objects by record type: section usage lists (-g) and SegChunks (-u) are both ChunkList
  ⟨"DebugMode", "BookKeeping", "call:WrError", "WrError", "imprecise",
    "the overlap test reads the result of AddChunk on SegChunks, which only -u fills; -g fills the per-section lists of the same record type"⟩,
  ⟨"DebugMode", "CodeEquate", "call:WrError", "WrError", "imprecise", "as BookKeeping"⟩,
  ⟨"DebugMode", "DecodeBIT", "call:WrError", "WrError", "imprecise", "as BookKeeping"⟩,
  ⟨"DebugMode", "DecodeSFR", "call:WrError", "WrError", "imprecise", "as BookKeeping"⟩,
  -- the name of a report file inside an I/O error message
  ⟨"*", "ChkStrIO", "call:WrXError", "WrXError", "harmless",
    "fatal message after a failed open of a report file; the file name (derived from the option) is part of the text"⟩,
  ⟨"*", "ChkStrIO", "call:WrXErrorPos", "WrXErrorPos", "harmless", "as above"⟩]

def excCovers (obj : String) (u : Use) (e : Exc) : Bool :=
  e.obj == obj && (e.var == "*" || e.var == u.var) && e.fn == u.fn && (e.via == "*" || e.via == u.via)

/-- a row is in order if its object is report data, or every single use that reaches it is a listed exception -/
def okRow (r : Row) : Bool :=
  okObj r.obj r.grp r.key r.byGrp || r.uses.all (fun u => exceptions.any (excCovers r.obj u))

def totalUses : Nat := (rows.map (·.uses.length)).sum + reportOnlyUses.length

def hasUse (obj var fn via : String) : Bool :=
  rows.any (fun r => r.obj == obj && r.uses.any (fun u => u.var == var && u.fn == fn && u.via == via))

/-- the code buffers and the objects of the code path the model's `CodeSt` stands for -/
def codeBuffers : List String := ["g:BAsmCode", "g:WAsmCode", "g:DAsmCode", "g:CodeBuffer@asmcode.c", "g:CodeLen", "g:PCs", "g:DontPrint"]

/-- the places where the abstract pipeline model (`Model/ReportPipe.lean`) lets the report configuration touch
state: (C function, variable, object, via) -/
def modelHooks : List (String × String × String × String) := [
  ("BookKeeping", "MakeUseList", "h:ChunkList.Chunks", "AddChunk"),      -- bookKeeping: chunks
  ("BookKeeping", "DebugMode", "g:LineInfoRoot", "AddLineInfo"),         -- bookKeeping: lineInfo
  ("FindNode_FNode", "MakeCrossList", "h:sSymbolEntry.RefList", "AddReference"),  -- step: refs
  ("MakeList", "ListMask", "g:WAsmCode", "DreheCodes")]                  -- makeList: turn, print, turn back

/-- the fields of the model's report configuration and the C variables they stand for -/
def repCfgVars : List (String × List String) := [
  ("makeUseList", ["MakeUseList"]), ("debugInfo", ["DebugMode"]), ("makeCrossList", ["MakeCrossList"]),
  ("listOn", ["ListMode", "ListMask"]), ("listRadix", ["ListRadixBase"]), ("lowerHex", ["HexStartCharacter"])]

/-! ## the obligations

They are evaluated by the kernel in ONE `decide` (`C17_flow_checks`): the kernel caches the evaluated string
literals within one declaration, so the conjunction costs little more than its most expensive member.  The named
theorems below are projections. -/

def chkInventory : Bool := rows.all okRow

def chkOptions : Bool :=
  reportOptionNames.all (fun n => options.any (·.name == n) && switches.contains n) &&
  options.all (fun o => reportOptionNames.contains o.name &&
    o.vars.all (fun v => reportVariables.any (·.1 == v)) &&
    o.other.all (fun p => okObj p.1 p.2.1 p.2.2.1 p.2.2.2)) &&
  reportVariables.all (fun v => reportVars.contains v.1) &&
  reportVars.all (fun v => reportVariables.any (·.1 == v))

def chkSeed : Bool :=
  usedReportOptionNames == reportOptionNames && usedReportObjects == reportObjects.map (·.1) &&
  usedScratchObjects == scratchObjects.map (·.1) && usedOwnedRecords == ownedRecords &&
  usedCollapsedCalls == collapsedCalls && usedAssertingFunctions == assertingFunctions &&
  usedSummarisedFunctions == summarisedFunctions && usedCutResults == cutResults &&
  reportVarKeys == reportVars.map ("g:" ++ ·)

def chkCuts : Bool :=
  cutResults.all (fun c => exceptions.any (fun e => e.var == c.1 && e.fn == c.2 && e.obj == "fn:" ++ c.2) ||
    -- a cut whose function result turned out not to depend on the variable produces no row and needs none
    !(rows.any (fun r => r.obj == "fn:" ++ c.2 && r.uses.any (·.var == c.1))))

def chkNonempty : Bool :=
  options.length == 22 && reportVars.length == 21 && decide (100 ≤ rows.length) && decide (2000 ≤ totalUses) &&
  decide (100 ≤ functionsAnalysed) && decide (150 ≤ translationUnits) &&
  reportVars.all (fun v => rows.any (fun r => r.uses.any (·.var == v))) &&
  hasUse "h:ChunkList.Chunks" "MakeUseList" "RetractWords" "DeleteChunk" &&
  hasUse "fn:vsprcatf_core" "HexStartCharacter" "vsprcatf_core" ""

def chkModel : Bool :=
  repCfgVars.all (fun p => p.2.all reportVars.contains) &&
  modelHooks.all (fun h => hasUse h.2.2.1 h.2.1 h.1 h.2.2.2) &&
  rows.all (fun r => !codeBuffers.contains r.obj ||
    r.uses.all (fun u => u.fn == "MakeList" && u.via == "DreheCodes"))

/-- all table obligations in one kernel evaluation -/
theorem C17_flow_checks :
    (chkInventory && chkOptions && chkSeed && chkCuts && chkNonempty && chkModel) = true := by decide +kernel

theorem C17_flow_checks_split : chkInventory = true ∧ chkOptions = true ∧ chkSeed = true ∧ chkCuts = true ∧
    chkNonempty = true ∧ chkModel = true := by
  have h := C17_flow_checks
  simp only [Bool.and_eq_true] at h
  exact ⟨h.1.1.1.1.1, h.1.1.1.1.2, h.1.1.1.2, h.1.1.2, h.1.2, h.2⟩

/-- **The inventory.**  Every object that a value or condition derived from a report variable reaches, anywhere in
the translation units of `asl`, is report data (listing, cross reference, usage, debug info, message and console
state, the streams and files they go to), or the flow is one of the examined exceptions. -/
theorem C17_flow_inventory : rows.all okRow = true := C17_flow_checks_split.1

/-- **The report options.**  Every switch the property lists as report-only is a row of `ASParams[]`; its handler
assigns only variables of the hand-written list `reportVariables` and writes nothing else but classified objects;
conversely every listed variable is assigned by the handler of a report switch. -/
theorem C17_flow_report_options : chkOptions = true := C17_flow_checks_split.2.1

/-- The generated table was produced with the seed list of `Spec/ReportObjects.lean` as it is now. -/
theorem C17_flow_seed_in_sync : chkSeed = true := C17_flow_checks_split.2.2.1

/-- every cut of the propagation (`cutResults`) is visible as an exception here, i.e. has been justified -/
theorem C17_flow_cuts_justified : chkCuts = true := C17_flow_checks_split.2.2.2.1

/-- **Non-vacuity.**  The inventory covers all 22 switches and 21 variables, thousands of uses in dozens of
functions, every report variable has at least one use, and the flows one expects from reading the code are there
(`-u` → `RetractWords`, `-h` → the printf core; `-C` → `AddReference`, `-u`/`-g` → `BookKeeping`, listing →
`DreheCodes` are in `C17_flow_model_premise`). -/
theorem C17_flow_nonempty : chkNonempty = true := C17_flow_checks_split.2.2.2.2.1

/-! ## tie to the abstract pipeline model (`Model/ReportPipe.lean`, `C17_noninterference_run`) -/

/-- **The model's premise holds for the sources.**  (1) the model's report configuration consists of variables that
the inventory identifies as report variables; (2) each place where the model lets it touch state is a flow of the
inventory; (3) the only flows of the inventory into the code buffers / program counters are `MakeList → DreheCodes`,
which the model contains (and `C17_drehe_involutive` shows harmless) – there is no flow the model omits;
(4) on the model, the code-affecting part of the state after any program is the same for all report
configurations (and all report states). -/
theorem C17_flow_model_premise :
    repCfgVars.all (fun p => p.2.all reportVars.contains) = true ∧
    modelHooks.all (fun h => hasUse h.2.2.1 h.2.1 h.1 h.2.2.2) = true ∧
    rows.all (fun r => !codeBuffers.contains r.obj ||
      r.uses.all (fun u => u.fn == "MakeList" && u.via == "DreheCodes")) = true ∧
    ∀ (cc : CodeCfg) (r1 r2 : RepCfg) (ls : List Line) (s1 s2 : CodeSt × RepSt), s1.1 = s2.1 →
      (run ⟨cc, r1⟩ s1 ls).1 = (run ⟨cc, r2⟩ s2 ls).1 := by
  have h := C17_flow_checks_split.2.2.2.2.2
  simp only [chkModel, Bool.and_eq_true] at h
  refine ⟨h.1.1, h.1.2, h.2, ?_⟩
  intro cc r1 r2 ls s1 s2 hs
  exact C17_noninterference_run ⟨cc, r1⟩ ⟨cc, r2⟩ ls s1 s2 rfl hs

/-! ## non-vacuity of the row check: it does reject -/

/-- a flow from `-C` into the `Used` flag of a symbol (read by IFUSED) is rejected -/
example : okRow ⟨"h:sSymbolEntry.Used", "h:sSymbolEntry", classKeys.length, false,
    [⟨"MakeCrossList", "FindNode_FNode", "asmpars.c", "guards-write", "AddReference"⟩]⟩ = false := by decide +kernel

/-- a write to the code buffer under a report option outside MakeList/DreheCodes is rejected -/
example : okRow ⟨"g:WAsmCode", "g:WAsmCode", classKeys.length, false,
    [⟨"ListMask", "MakeList", "asmlist.c", "guards-write", "DreheCodes"⟩,
     ⟨"MakeUseList", "BookKeeping", "asmsub.c", "guards-write", ""⟩]⟩ = false := by decide +kernel

/-- an unclassified global is rejected even with a hint, a classified record field is accepted through its record -/
example : okRow ⟨"g:PassNo", "g:PassNo", 0, false, [⟨"QuietMode", "AssembleFile", "as.c", "guards-write", ""⟩]⟩ = false := by
  decide +kernel
example : okRow ⟨"h:tag_TCrossRef.Next", "h:tag_TCrossRef", classKeys.idxOf "h:tag_TCrossRef", true,
    [⟨"MakeCrossList", "AddReference", "asmpars.c", "value-flows", ""⟩]⟩ = true := by decide +kernel

/-- the model premise is about configurations that really differ -/
example : (⟨true, true, true, true, 8, true⟩ : RepCfg) ≠ ⟨false, false, false, false, 16, false⟩ := by decide

end AslModel.C17
