import AslModel.Lemmas.Listing
/-!
# C19 — listing, debug map and share file state the facts of the code file

Property theorems only.  SPEC: `Spec/Listing.lean` (readers written from doc/assembler-usage.md and
doc/file-formats.md).  MODEL: `Model/Listing.lean` (`MakeList`, `SysString`, MAP entry, `IntLine`/`CodeSHARED`).

What is proved here is the *render/parse* half of the property for byte-listed segments: whatever
address and bytes `MakeList` is handed for a source line, the documented reading of the lines it
prints gives back exactly that address and those bytes — for every list radix 2..36, every address,
every number of bytes (any number of continuation lines), any include depth, line number and source
text.  That `MakeList` is handed the bytes and the address the code file holds is the differential
part of the check (vlib/props/c19.py: listing ↔ parsed code file join on the real binaries).
-/
namespace AslModel.C19
open AslModel.Listing

/-- facts about the column width for every admissible list radix (complete finite table) -/
theorem C19_width_table : ∀ r, r < 37 → 2 ≤ r →
    systemListLen8 r = byteDigits r ∧ 1 ≤ byteDigits r ∧ 256 ≤ r ^ byteDigits r ∧ byteDigits r + 1 < LISTLINESPACE := by
  decide

/-- **digit print/parse round trip in an arbitrary radix**: `SysString` (any minimum width) read
back positionally gives the number, for every radix 2..36 and every `n`. -/
theorem C19_digits_roundtrip (r : Nat) (h2 : 2 ≤ r) (h36 : r ≤ 36) (stellen n : Nat) :
    parseNum r (sysString r stellen n) = some n :=
  parseNum_sysString r h2 h36 stellen n

/-- **Listing round trip.**  For every list radix 2..36 (honoured for numerals and widths), every
address, every non-empty byte list (continuation lines included), every include depth / line
number / source text / retraction mark: the documented reading of the lines `MakeList` prints is
(address, bytes). -/
theorem C19_listing_roundtrip (r : Nat) (h2 : 2 ≤ r) (h36 : r ≤ 36) (i : ListIn)
    (hw : i.widthRadix = r) (hn : i.numRadix = r) (hdp : i.dontPrint = false) :
    parseListing r (makeList i) = some (i.listPC, i.code.map (fun b => b.toNat)) := by
  obtain ⟨hlen, hw1, hbyte, hw8⟩ := C19_width_table r (by omega) h2
  unfold parseListing parseLine makeList
  rw [hw, hlen]
  exact outer_first r (byteDigits r) h2 h36 hw1 hbyte hw8 i hn hdp i.code i.listPC

/-- non-vacuity: 20 bytes in radix 7 at include depth 2 need five lines and read back -/
example :
    let i : ListIn := { incDepth := 2, currLine := 31, listPC := 4096, widthRadix := 7, numRadix := 7,
                        code := (List.range 20).map (fun n => UInt8.ofNat (13 * n + 200)), src := "lab:\tdb 1".toList }
    (makeList i).length = 5 ∧ parseListing 7 (makeList i) = some (4096, i.code.map (fun b => b.toNat)) := by
  decide

/-- **Finding (proved negation)**: what the current tree prints under `-LISTRADIX 10` — numerals in
hexadecimal (`%x` overrides the radix in `as_vsnprcatf`), widths for radix 10 — is *not* read back
by the documented reading: the byte `0x0A` is listed as `00A`. -/
theorem C19_finding_listradix_ignored :
    ∃ i : ListIn, i.widthRadix = 10 ∧ i.numRadix = 16 ∧ i.dontPrint = false ∧
      parseListing 10 (makeList i) ≠ some (i.listPC, i.code.map (fun b => b.toNat)) :=
  ⟨{ incDepth := 0, currLine := 3, listPC := 20, widthRadix := 10, numRadix := 16, code := [10], src := "\tdb 10".toList },
    by decide⟩

/-- **MAP line-info entries**: a line of `<line>:<address>` entries as `DumpDebugInfo_MAP` prints it
(`"%5s:%s "`, address by `HexString(…, 8)`) reads back as exactly those (line, address) pairs — any
number of entries, any line numbers, any addresses (also beyond 8 hex digits). -/
theorem C19_map_entry (es : List (Nat × Nat)) : parseMapEntries (renderMapLine es) = some es :=
  parseMapEntriesAux_render es _ (by omega)

example : parseMapEntries (renderMapLine [(7, 0x100), (12345, 0xFFFFFFFFF), (0, 0)]) = some [(7, 0x100), (12345, 0xFFFFFFFFF), (0, 0)] := by
  decide

/-- **Share file, C format** (`#define name 0x…`): name and value read back, for every blank-free
name and every value. -/
theorem C19_share_roundtrip_c (name : List Char) (hn : ∀ c ∈ name, c ≠ ' ') (m : IntMode) (chg : Bool) (v : Nat) :
    parseShareLine .c (shareLine 2 m chg name v) = some (name, false, v) := share_c name hn m chg v

/-- **Share file, Pascal format** (`name = $…;`) -/
theorem C19_share_roundtrip_pascal (name : List Char) (hn : ∀ c ∈ name, c ≠ ' ') (m : IntMode) (chg : Bool) (v : Nat) :
    parseShareLine .pascal (shareLine 1 m chg name v) = some (name, false, v) := share_pascal name hn m chg v

/-- **Share file, assembler format** (`name equ|set <const>`), in each integer syntax `IntLine`
knows (Intel `…H` with the leading-zero rule, Motorola `$…`, C `0x…`); `set` ⇔ changeable symbol -/
theorem C19_share_roundtrip_asm (name : List Char) (hn : ∀ c ∈ name, c ≠ ' ') (m : IntMode) (chg : Bool) (v : Nat) :
    parseShareLine (fmtOf m) (shareLine 3 m chg name v) = some (name, chg, v) := share_asm name hn m chg v

example : parseShareLine .asmIntel (shareLine 3 .intel true "lab_1".toList 0xABC) = some ("lab_1".toList, true, 0xABC) := by decide
example : String.ofList (shareLine 3 .intel false "x".toList 0xABC) = "x equ 0ABCH" := by decide

end AslModel.C19
