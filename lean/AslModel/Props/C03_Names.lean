import AslModel.Model.StrSymName
/-!
# C03 — names built with `{stringsymbol}`: `ExpandStrSymbol` never writes behind its buffer

`ExpandStrSymbol` (asmpars.c) assembles a symbol / section / macro / stack name in a `String` buffer of `DestSize` bytes
from literal text and the values of string symbols.  Every copy is bounded by a `size_t` expression of the form
`DestSize - 1 - strlen(pDest)`, which is a bound only as long as `strlen(pDest) <= DestSize - 1`.  The model
(`Model/StrSymName.lean`) answers `Fault.overflow` when such an expression would wrap.  Theorems, for **every** buffer
size > 0, case mode, evaluator of the brace expressions (i.e. every symbol table) and **every** name text - any number of
expansions, literal text of any length in front of / between / behind them, values of any length:

* `C03_names_expand_bounded` - from a destination that fits, the loop never wraps and its result fits
  (`length < DestSize`: the terminating NUL has room);
* `C03_names_never_overflow` - the same for the whole function (`*pDest = 0` first);
* `C03_names_fuel_suffices` - the loop ends after at most `length + 1` rounds (every round consumes a `{`), i.e. the
  model's fuel is not an assumption;
* `C03_names_result_prefix_free` - without braces the result is the name cut to `DestSize - 1` characters.
-/
namespace AslModel.StrSymName

theorem strmaxcat_len {size : Nat} {d s d' : Str} (h : strmaxcat size d s = some d') : d'.length < size := by
  unfold strmaxcat at h
  split at h
  · cases h
  · rename_i hn
    cases h
    simp only [List.length_append, List.length_take]
    omega

theorem copyLiteral_len {size : Nat} {d s d' : Str} (hd : d.length < size) (h : copyLiteral size d s = some d') :
    d'.length < size := by
  unfold copyLiteral at h
  split at h
  · split at h
    · cases h
    · cases h
      simp only [List.length_append, List.length_take]
      omega
  · cases h
    simp only [List.length_append]
    omega

theorem strmaxcat_some {size : Nat} {d : Str} (s : Str) (hd : d.length < size) : ∃ d', strmaxcat size d s = some d' := by
  unfold strmaxcat
  split
  · omega
  · exact ⟨_, rfl⟩

theorem copyLiteral_some {size : Nat} {d : Str} (s : Str) (hd : d.length < size) : ∃ d', copyLiteral size d s = some d' := by
  unfold copyLiteral
  split
  · split
    · omega
    · exact ⟨_, rfl⟩
  · exact ⟨_, rfl⟩

/-- what a run of the loop may end with: a name that fits, or a reported error - never a wrapped bound -/
def Safe (size : Nat) : Except Fault Str → Prop
  | .ok d => d.length < size
  | .error .overflow => False
  | .error _ => True

/-- **The loop never writes behind the buffer.**  Any fuel, any destination that fits, any rest of the name. -/
theorem C03_names_expand_bounded (size : Nat) (cs : Bool) (ev : Str → Ev) (fuel : Nat) (dest src : Str)
    (hd : dest.length < size) : Safe size (expandAux size cs ev fuel dest src) := by
  induction fuel generalizing dest src with
  | zero => simp [expandAux, Safe]
  | succ f ih =>
    unfold expandAux
    split
    · obtain ⟨d', e⟩ := strmaxcat_some src hd
      rw [e]
      exact strmaxcat_len e
    · rename_i lit behind _
      obtain ⟨d1, e1⟩ := copyLiteral_some lit hd
      rw [e1]
      have h1 := copyLiteral_len hd e1
      simp only
      split
      · simp [Safe]
      · rename_i expr rest _
        split
        · simp [Safe]
        · simp [Safe]
        · rename_i v _
          obtain ⟨d2, e2⟩ := strmaxcat_some (if cs = true then v else upString v) h1
          rw [e2]
          exact ih d2 rest (strmaxcat_len e2)

/-- **`ExpandStrSymbol` never overflows its buffer**: for every buffer size > 0, every symbol table and every name
the result is shorter than the buffer (or an error was reported). -/
theorem C03_names_never_overflow (size : Nat) (hs : 0 < size) (cs : Bool) (ev : Str → Ev) (src : Str) :
    Safe size (expand size cs ev src) := by
  unfold expand
  exact C03_names_expand_bounded size cs ev _ [] src (by simpa using hs)

theorem splitAt_len {c : Nat} {s a b : Str} (h : splitAt c s = some (a, b)) : a.length + b.length + 1 = s.length := by
  induction s generalizing a b with
  | nil => simp [splitAt] at h
  | cons x r ih =>
    unfold splitAt at h
    split at h
    · cases h; simp
    · cases e : splitAt c r with
      | none => simp [e] at h
      | some p =>
        obtain ⟨p1, p2⟩ := p
        simp [e] at h
        obtain ⟨h1, h2⟩ := h
        subst h1; subst h2
        have := ih e
        simp only [List.length_cons]
        omega

theorem quotPos_len {c : Nat} {s a b : Str} {q : Nat} (h : quotPos c s q = some (a, b)) : a.length + b.length + 1 = s.length := by
  induction s generalizing a b q with
  | nil => simp [quotPos] at h
  | cons x r ih =>
    unfold quotPos at h
    split at h
    · cases h; simp
    · simp only at h
      generalize hq : (if q = 0 then (if x = 34 then 1 else if x = 39 then 2 else 0)
                else if (q = 1 ∧ x = 34) ∨ (q = 2 ∧ x = 39) then 0 else q) = q' at h
      cases e : quotPos c r q' with
      | none => simp [e] at h
      | some p =>
        obtain ⟨p1, p2⟩ := p
        simp [e] at h
        obtain ⟨h1, h2⟩ := h
        subst h1; subst h2
        have := ih e
        simp only [List.length_cons]
        omega

/-- **Termination**: every round of the loop consumes at least the `{` and the `}` of one group, so `length + 1` rounds
always suffice - the model's fuel is never exhausted. -/
theorem C03_names_fuel_suffices (size : Nat) (cs : Bool) (ev : Str → Ev) (fuel : Nat) (dest src : Str)
    (hf : src.length < fuel) : expandAux size cs ev fuel dest src ≠ .error .fuel := by
  induction fuel generalizing dest src with
  | zero => omega
  | succ f ih =>
    unfold expandAux
    split
    · split <;> simp
    · rename_i lit behind e0
      have l0 := splitAt_len e0
      split
      · simp
      · split
        · simp
        · rename_i expr rest e1
          have l1 := quotPos_len e1
          split
          · simp
          · simp
          · split
            · simp
            · exact ih _ rest (by omega)

theorem splitAt_none_of_not_mem {c : Nat} {s : Str} (h : c ∉ s) : splitAt c s = none := by
  induction s with
  | nil => rfl
  | cons x r ih =>
    simp only [List.mem_cons, not_or] at h
    unfold splitAt
    rw [if_neg (fun e => h.1 e.symm), ih h.2]
    rfl

/-- **Without braces** the result is the name itself, cut to `DestSize - 1` characters. -/
theorem C03_names_result_prefix_free (size : Nat) (hs : 0 < size) (cs : Bool) (ev : Str → Ev) (src : Str) (h : lbrace ∉ src) :
    expand size cs ev src = .ok (src.take (size - 1)) := by
  unfold expand expandAux
  rw [splitAt_none_of_not_mem h]
  simp only [strmaxcat, List.length_nil]
  rw [if_neg (by omega)]
  simp

/-! ### non-vacuity: the seeded trigger shape (two expansions, literal text between them, total > buffer) on a small buffer -/

def demoEv : Str → Ev := fun e => if e = [115] then .str [88, 88, 88, 88] else .firstPassUnknown

example : expand 8 true demoEv [123, 115, 125, 65, 65, 65, 65, 65, 65, 123, 115, 125] = .ok [88, 88, 88, 88, 65, 65, 65] := by rfl
example : expand 8 false demoEv [97, 123, 115, 125, 98] = .ok [97, 88, 88, 88, 88, 98] := by rfl
example : expand 8 true demoEv [97, 123, 117, 125] = .error (.err 1820) := by rfl
example : expand 8 true demoEv [97, 123, 115] = .error (.err 1020) := by rfl

end AslModel.StrSymName
