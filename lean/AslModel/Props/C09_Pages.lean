import AslModel.Lemmas.CodePage
/-!
# C09, code pages — strings go through the table of the character set that is active at the statement

Property theorems only (helper lemmas: `Lemmas/CodePage.lean`).  Spec: `Spec/CodePage.lean` (from the manual:
`CODEPAGE`, `CHARSET`, `SAVE`/`RESTORE`, option `-U`; the character sets are a partial map name → table).
Model: `Model/CodePage.lean` (transcription of `CodeCODEPAGE` with its `strcmp`-sorted chain of tables,
`CodeCHARSET` on `CurrTransTable->Table`, `CodeSAVE`/`CodeRESTORE`, data statements of `Model/DataExt.lean` with
the table of the moment).

* on the specification, for *every* history of statements: a set's table is changed by exactly the `CHARSET`
  statements executed while it was the active one, in their order (`C09_pages_history`); modifying one set never
  changes another (`C09_pages_charset_only_active`, `C09_pages_step_table`); a new set starts as a copy of the
  *named* source's current table, of the active one only when no source is named (`C09_pages_create`); a data
  statement uses the active set's table (`C09_pages_string_under_page`);
* model = specification for every history of accepted statements (`C09_pages_model_refines_spec`): the chain of the
  C code denotes the same map, the same set is current, the same statements are rejected, and the table handed to
  the data statements is the specification's; `CodeCHARSET` computes the manual's table for every 256-entry
  table (`C09_pages_charset_is_manual`).

What is *not* a theorem here: model = specification of the data statements themselves (see `Props/C09.lean`,
`Props/C09_Ext.lean` for the proved parts; the rest is tested by the correspondence).
-/
namespace AslModel.C09
open AslModel.PFile (Byte b)
open AslModel.Data AslModel.DataModel AslModel.DataX AslModel.DataXModel
open AslModel.CodePage AslModel.CodePageModel AslModel.CodePageLemmas

/-! ## the specification: sets do not influence each other -/

/-- **(a)** `CHARSET` changes the active set only - every other name keeps its table (or stays without one),
the same set stays active. -/
theorem C09_pages_charset_only_active (ps : Pages) (o : CsOp) (n : Name) (hn : n ≠ ps.active) :
    (stepCharset ps o).tab n = ps.tab n ∧ (stepCharset ps o).active = ps.active := by
  simp [stepCharset, Pages.set, hn]

/-- … and the active set gets the table the manual describes for that `CHARSET` statement. -/
theorem C09_pages_charset_active (ps : Pages) (o : CsOp) :
    (stepCharset ps o).cur = specCharset ps.cur o := by
  simp [stepCharset, Pages.set, Pages.cur]

/-- **Creation.** `CODEPAGE new[,src]` for a name without a set: the new set holds a copy of the *source's*
current table (the named set's; the active set's when no source is named), it is active, and every other
name keeps what it had. -/
theorem C09_pages_create (ps : Pages) (name : Name) (src : Option Name) (t0 : CharMap)
    (hnew : ps.tab name = none) (hsrc : sourceTab ps src = some t0) :
    ∃ ps', stepPage ps name src = some ps' ∧ ps'.tab name = some t0 ∧ ps'.active = name ∧ ps'.saved = ps.saved ∧
      ∀ n, n ≠ name → ps'.tab n = ps.tab n := by
  refine ⟨{ (ps.set name t0) with active := name }, ?_, ?_, rfl, rfl, ?_⟩
  · simp only [stepPage, hsrc, hnew]
  · simp [Pages.set]
  · intro n hn; simp [Pages.set, hn]

example : ∃ ps', stepPage (stepCharset Pages.start (.one 97 65)) [80] (some standard) = some ps' ∧
    ps'.tab [80] = some (stepCharset Pages.start (.one 97 65)).cur := ⟨_, rfl, rfl⟩

/-- **Selection.** `CODEPAGE name[,src]` for an existing set only makes it the active one ("the second parameter
only has a meaning for the first switch"): no table changes. -/
theorem C09_pages_select (ps : Pages) (name : Name) (src : Option Name) (t t0 : CharMap)
    (hold : ps.tab name = some t) (hsrc : sourceTab ps src = some t0) :
    stepPage ps name src = some { ps with active := name } := by
  simp only [stepPage, hsrc, hold]

example : Pages.start.tab standard = some identityMap ∧ sourceTab Pages.start (some standard) = some identityMap := ⟨rfl, rfl⟩

/-- a second argument that names no set: rejected -/
theorem C09_pages_reject (ps : Pages) (name : Name) (src : Option Name) (hsrc : sourceTab ps src = none) :
    stepPage ps name src = none := by
  simp only [stepPage, hsrc]

example : sourceTab Pages.start (some [110, 111]) = none := rfl

/-- **One statement, one table.**  Whatever the statement is, the table of an existing set `p` afterwards is the
table before - except for a `CHARSET` statement executed while `p` is the active set, which applies that
statement to it. -/
theorem C09_pages_step_table (cs : Bool) (ps : Pages) (op : Op) (p : Name) (t : CharMap) (hp : ps.tab p = some t) :
    (step cs ps op).1.tab p =
      some (match op with
        | .charset o => if ps.active = p then specCharset t o else t
        | _ => t) := by
  cases op with
  | page n src =>
    simp only [step]
    cases hs : stepPage ps (foldName cs n) (src.map (foldName cs)) with
    | none => simpa using hp
    | some ps' =>
      simp only
      unfold stepPage at hs
      split at hs
      · cases hs
      · split at hs
        · cases hs; simpa using hp
        · rename_i hnone
          cases hs
          have : p ≠ foldName cs n := by
            intro he; rw [he] at hp; rw [hp] at hnone; cases hnone
          simp [Pages.set, this, hp]
  | charset o =>
    by_cases ha : ps.active = p
    · subst ha
      simp [step, stepCharset, Pages.set, Pages.cur, hp]
    · have : p ≠ ps.active := fun h => ha h.symm
      simp [step, stepCharset, Pages.set, this, ha, hp]
  | save => simpa [step] using hp
  | restore =>
    simp only [step]
    cases ps.saved <;> simpa using hp
  | data s => simpa [step] using hp

/-- **(b)** For every history: the table of a set afterwards is the table it had, changed by exactly the `CHARSET`
statements that were executed while it was the active set, in their order - nothing that happens while another
set is active (creation of sets from it, `CHARSET`, `SAVE`/`RESTORE`, data statements) reaches it. -/
theorem C09_pages_history (cs : Bool) (h : List Op) (ps : Pages) (p : Name) (t : CharMap) (hp : ps.tab p = some t) :
    (runState cs ps h).tab p = some ((opsWhileActive cs p ps h).foldl specCharset t) := by
  induction h generalizing ps t with
  | nil => simpa [runState, opsWhileActive] using hp
  | cons op rest ih =>
    have hstep := C09_pages_step_table cs ps op p t hp
    simp only [runState, opsWhileActive, List.foldl_append]
    rw [ih _ _ hstep]
    cases op with
    | charset o =>
      by_cases ha : ps.active = p <;> simp [ha]
    | page n src => simp
    | save => simp
    | restore => simp
    | data s => simp

/-- corollary of (b): a history without a `CHARSET` statement under `p` leaves `p`'s table alone -/
theorem C09_pages_untouched (cs : Bool) (h : List Op) (ps : Pages) (p : Name) (t : CharMap) (hp : ps.tab p = some t)
    (hnone : opsWhileActive cs p ps h = []) : (runState cs ps h).tab p = some t := by
  rw [C09_pages_history cs h ps p t hp, hnone]; rfl

/-- **A string laid under page `p`** - after any history that ends with `p` active, a slot of data statements is
judged by `Spec/DataExt.lean` with the table of `p` as left by the `CHARSET` statements applied while `p` was
active (and by nothing else). -/
theorem C09_pages_string_under_page (cs : Bool) (h : List Op) (ps : Pages) (p : Name) (t : CharMap) (s : Slot)
    (hp : ps.tab p = some t) (hact : (runState cs ps h).active = p) :
    run cs ps (h ++ [.data s]) = run cs ps h ++ [.cells (specSlot ((opsWhileActive cs p ps h).foldl specCharset t) s)] := by
  rw [run_append]
  have := C09_pages_history cs h ps p t hp
  simp only [run, step, Pages.cur, hact, this, Option.getD_some]

/-- the hypotheses are satisfiable: STANDARD exists at the beginning of a pass, and a history can end with it active -/
example : Pages.start.tab standard = some identityMap ∧
    (runState false Pages.start [.page [85] none, .charset (.one 97 65), .page [115, 116, 97, 110, 100, 97, 114, 100] none]).active = standard :=
  ⟨rfl, rfl⟩

/-- the scenario of the manual's wording: while a modified set `U` is active, a set `P` created "from STANDARD"
translates `a` 1:1, one created without a source translates it like `U` -/
example :
    ((runState false Pages.start [.page [85] none, .charset (.one 97 65), .page [80] (some standard)]).cur).getD 97 0 = 97 ∧
    ((runState false Pages.start [.page [85] none, .charset (.one 97 65), .page [80] none]).cur).getD 97 0 = 65 := by
  decide

/-! ## the model: the chain of `CodeCODEPAGE` denotes the specification's map -/

/-- **`CodeCHARSET` computes the manual's table**, for every 256-entry table and every statement the assembler
accepts (the string form needs `start + length ≤ 256`). -/
theorem C09_pages_charset_is_manual (t : List Byte) (hl : t.length = 256) (o : CsOp) (hv : validCs o) :
    modelCharset t o = specCharset t o := modelCharset_eq_spec t hl o hv

example : modelCharset tableInit (.range 97 122 65) = specCharset identityMap (.range 97 122 65) :=
  modelCharset_eq_spec _ (by simp [tableInit]) _ trivial

/-- **Model = specification for every history** of statements the assembler accepts as `CHARSET` statements:
from the beginning of a pass the sorted chain of the C code holds exactly the specification's sets with the same
tables, the same set is current, the `SAVE` stack is the same, the same `CODEPAGE`/`RESTORE` statements are
rejected - and therefore every data statement of the history is handed the specification's table. -/
theorem C09_pages_model_refines_spec (cs : Bool) (f : MSlot → Slot) (h : List MOp) (hv : ∀ op, op ∈ h → validOp op)
    (st : St) (ps : Pages) (r : Rel st ps) :
    Rel (mrunState cs st h) (runState cs ps (h.map (specOf f))) ∧
    charTransTable (mrunState cs st h) = (runState cs ps (h.map (specOf f))).cur ∧
    (mrun cs st h).map eraseM = (run cs ps (h.map (specOf f))).map eraseS := by
  induction h generalizing st ps with
  | nil => exact ⟨r, rel_cur st ps r, rfl⟩
  | cons op rest ih =>
    have hstep := rel_step cs f st ps r op (hv op List.mem_cons_self)
    have := ih (fun o ho => hv o (List.mem_cons_of_mem _ ho)) _ _ hstep.1
    simp only [mrunState, runState, List.map_cons, mrun, run]
    exact ⟨this.1, this.2.1, by rw [hstep.2, this.2.2]⟩

/-- from the beginning of a pass -/
theorem C09_pages_model_refines_spec_pass (cs : Bool) (f : MSlot → Slot) (h : List MOp) (hv : ∀ op, op ∈ h → validOp op) :
    charTransTable (mrunState cs initPass h) = (runState cs Pages.start (h.map (specOf f))).cur ∧
    (mrunPass cs h).map eraseM = (run cs Pages.start (h.map (specOf f))).map eraseS :=
  (C09_pages_model_refines_spec cs f h hv initPass Pages.start rel_init).2

/-- the data slot of the model is run with the specification's table (what is left to the correspondence is the
data statement itself under a given table) -/
theorem C09_pages_data_table (cs : Bool) (f : MSlot → Slot) (h : List MOp) (hv : ∀ op, op ∈ h → validOp op) (s : MSlot) :
    (mstep cs (mrunState cs initPass h) (.data s)).2 =
      .slot (modelRunX s.mc s.xp s.g (runState cs Pages.start (h.map (specOf f))).cur s.pc s.stmts) := by
  simp only [mstep]
  rw [(C09_pages_model_refines_spec_pass cs f h hv).1]

end AslModel.C09
