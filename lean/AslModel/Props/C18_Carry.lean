import AslModel.Generated.GenCarry
/-!
# C18 — what a target selection and a pass leave behind in the core

`Generated/GenCarry.lean` (translate/carry.py, clang AST of the 17 core modules and of every code*.c, regenerated on every run):

* `switchLeftovers` – core globals that SOME `SwitchTo_*` assigns and another does not ("the keyword is taken by the target" flags,
  hooks, operand-syntax switches).  The next target selection must undo them: `C18_carry_switch_leftovers_reset` demands that
  `SetCPUCore` assigns each of them (or a listed, justified exception).  Globals every switch function assigns are covered by
  Props/C18_TargetDesc.lean.
* `coreStatics` – every variable defined in a core module that a function outside the reset paths writes during a pass:
  `C18_carry_core_statics_reset` demands an assignment on the per-pass path (AssembleFile_InitPass, InitPass callbacks, ...) or the
  per-file path, or a listed exception.

Dropping `ShiftIsOccupied` from the reset line of `SetCPUCore`, or `TmpSymLogDepth = 0` from `InitTmpSymbols`, flips a flag of the
generated table and breaks the corresponding `decide`.  The two small models below state what the reset buys (independence of the
carried state) and prove the negation without it.
-/
namespace AslModel.C18
namespace Carry
open AslModel.Generated.Carry (Leftover CoreStatic switchLeftovers coreStatics)

/-- leftovers `SetCPUCore` does not assign, with the reason why the value of the previous target cannot be observed:
* `guarded`  – read only under `HasAttrs`, which every switch function assigns; every generator that sets `HasAttrs = True` sets `AttrChars`;
* `perpass`  – `DoPadding` is a per-pass mode flag (assigned by AssembleFile_InitPass; the targets with PADDING set their default);
* `scratch`  – `InstrZ` is the fill counter of the generators' table builders, assigned before each use;
* `private`  – read only by the generator that sets it (`MomFPUIdent`, `MomPMMUIdent`: NS32K, and the message of an NS32K-only error);
* `viacall`  – every other switch function assigns both masks through `SetIntConstMode()` (intformat.c); CP1600 assigns them itself. -/
def leftoverExceptions : List (String × String) := [
  ("AttrChars", "guarded"), ("DoPadding", "perpass"), ("InstrZ", "scratch"), ("MomFPUIdent", "private"), ("MomPMMUIdent", "private"),
  ("NativeIntConstModeMask", "viacall"), ("OtherIntConstModeMask", "viacall")]

def leftoverOK (r : Leftover) : Bool := r.setCPUCore || leftoverExceptions.any (fun e => e.1 == r.var)

/-- everything some `SwitchTo_*` assigns and another does not is reset by `SetCPUCore` -/
theorem C18_carry_switch_leftovers_reset : switchLeftovers.all leftoverOK = true := by decide +kernel

/-- variables of the core that no reset path assigns, by class:
* `scratch`  – given a value for every source line before it is read (SplitLine / Produce_Code / WriteCode / the statement itself);
* `balanced` – changed and put back by the same statement (nesting counters, CodeSTRUCT / CodeBINCLUDE save and restore);
* `outfile`  – position bookkeeping of the code file, assigned by OpenFile at the start of every pass that writes one;
* `report`   – listing text / static return buffers;
* `guarded`  – read only under a condition a reset variable controls (`TmpSymLog[]` under `TmpSymLogDepth`, `StartAdr` under
               `StartAdrPresent`, the pending export / patch lists flushed by WrPatches: Props/C18_Shared.lean) or assigned on the reset path
               through a call the syntactic route does not follow (`SetMomSection(-1)`, `InitLstMacroExpMod(&x)`);
* `config`   – registries and capacities that only grow / are filled at program start. -/
def coreExceptions : List (String × String × String) := [
  ("as.c", "LineZ", "scratch"), ("as.c", "MacroNestLevel", "balanced"), ("asmallg.c", "ONOFFList", "config"),
  ("asmcode.c", "CodeBuffer", "outfile"), ("asmcode.c", "CodeBufferFill", "outfile"), ("asmcode.c", "ExportLast", "guarded"),
  ("asmcode.c", "ExportList", "guarded"), ("asmcode.c", "LenPos", "outfile"), ("asmcode.c", "LenSoFar", "outfile"),
  ("asmcode.c", "PatchLast", "guarded"), ("asmcode.c", "PatchList", "guarded"), ("asmcode.c", "RecPos", "outfile"),
  ("asmcode.c", "ThisRel", "outfile"), ("asmdef.c", "ActListGran", "scratch"), ("asmdef.c", "AllocArgCnt", "scratch"),
  ("asmdef.c", "ArgCnt", "scratch"), ("asmdef.c", "ArgPart", "scratch"), ("asmdef.c", "ArgStr", "scratch"), ("asmdef.c", "AttrPart", "scratch"),
  ("asmdef.c", "AttrPartOpSize", "scratch"), ("asmdef.c", "AttrSplit", "scratch"), ("asmdef.c", "BAsmCode", "scratch"),
  ("asmdef.c", "CodeLen", "scratch"), ("asmdef.c", "CommPart", "scratch"), ("asmdef.c", "DAsmCode", "scratch"), ("asmdef.c", "Grans", "balanced"),
  ("asmdef.c", "InMacroFlag", "scratch"), ("asmdef.c", "IncludeList", "config"), ("asmdef.c", "LabPart", "scratch"),
  ("asmdef.c", "ListGrans", "balanced"), ("asmdef.c", "ListLine", "report"), ("asmdef.c", "LstMacroExpModDefault", "guarded"),
  ("asmdef.c", "LstMacroExpModOverride", "guarded"), ("asmdef.c", "MaxCodeLen", "config"), ("asmdef.c", "MomSectionHandle", "guarded"),
  ("asmdef.c", "NextDoLst", "scratch"), ("asmdef.c", "NextIncDepth", "scratch"), ("asmdef.c", "OpPart", "scratch"), ("asmdef.c", "PrgFile", "outfile"),
  ("asmdef.c", "Retracted", "scratch"), ("asmdef.c", "StartAdr", "guarded"), ("asmdef.c", "StopfZahl", "scratch"), ("asmdef.c", "TurnWords", "balanced"),
  ("asmdef.c", "WAsmCode", "scratch"), ("asmdef.c", "WasIF", "scratch"), ("asmdef.c", "WasMACRO", "scratch"), ("asmdef.c", "pLOpPart", "scratch"),
  ("asmif.c", "ActiveIF", "report"), ("asmpars.c", "FirstDefSymbol", "config"), ("asmpars.c", "FuncNestLevel", "balanced"),
  ("asmpars.c", "FuncNestOverflow", "balanced"), ("asmpars.c", "MomSection", "guarded"), ("asmpars.c", "TmpSymLog", "guarded"),
  ("asmpars.c", "serr", "scratch"), ("asmrelocs.c", "LastRelocs", "scratch"), ("asmstructs.c", "StructSaveSeg", "balanced"),
  ("asmsub.c", "GetPath::tmp", "report"), ("asmsub.c", "PathPart::s", "report"), ("asmsub.c", "ValidSymChar", "config"),
  ("asmsub.c", "pClearUpProcStore", "config"), ("asmsub.c", "pInitPassProcStore", "config")]

def coreOK (r : CoreStatic) : Bool :=
  r.perPass || r.perFile || coreExceptions.any (fun e => e.1 == r.file && e.2.1 == r.var)

/-- every variable of a core module that is written during a pass is assigned on the per-pass or per-file path -/
theorem C18_carry_core_statics_reset : coreStatics.all coreOK = true := by decide +kernel

/-- the inventory sees the variables this file is about (a translator that silently loses rows breaks this) -/
theorem C18_carry_inventory :
    (switchLeftovers.any (fun r => r.var == "ShiftIsOccupied") && switchLeftovers.any (fun r => r.var == "SwitchIsOccupied") &&
     switchLeftovers.any (fun r => r.var == "PageIsOccupied") && switchLeftovers.any (fun r => r.var == "SetIsOccupiedFnc") &&
     coreStatics.any (fun r => r.var == "TmpSymLogDepth") && coreStatics.any (fun r => r.var == "BackSymCounter") &&
     coreStatics.any (fun r => r.var == "FwdSymCounter") && coreStatics.any (fun r => r.var == "TmpSymCounterVal") &&
     coreStatics.any (fun r => r.var == "LastGlobSymbol") && decide (coreStatics.length ≥ 100) && decide (switchLeftovers.length ≥ 15)) = true := by
  decide +kernel

/-! ## Model 1: backward nameless temporaries (asmpars.c `ChkTmp2`, `AddTmpSymLog`, `InitTmpSymbols`) -/

/-- `back` = BackSymCounter, `log` = the Back entries of TmpSymLog, newest first; its length is TmpSymLogDepth (at most 3) -/
structure Tmp where
  back : Nat
  log : List Nat
deriving Repr, DecidableEq

inductive TOp where
  | defBack            -- a `-` label: named __back<BackSymCounter>, entered into the backlog
  | refBack (n : Nat)  -- a reference `-` (n = 0), `--` (n = 1), `---` (n = 2)
deriving Repr, DecidableEq

/-- result of an operation: the number of the label defined, or the label a reference is expanded to (`none`: not expanded) -/
def tstep (s : Tmp) : TOp → Tmp × Option Nat
  | .defBack => ({ back := s.back + 1, log := (s.back :: s.log).take 3 }, some s.back)
  | .refBack n => (s, s.log[n]?)

def trun (s : Tmp) : List TOp → List (Option Nat)
  | [] => []
  | o :: os => (tstep s o).2 :: trun (tstep s o).1 os

/-- `InitTmpSymbols` at the start of a pass; `resetDepth = false` is the variant without `TmpSymLogDepth = 0` -/
def tinit (resetDepth : Bool) (carry : Tmp) : Tmp := { back := 0, log := if resetDepth then [] else carry.log }

def tassemble (resetDepth : Bool) (carry : Tmp) (ops : List TOp) : List (Option Nat) := trun (tinit resetDepth carry) ops

/-- with the reset the result of a file does not depend on the temporaries of its predecessors -/
theorem C18_carry_tmp_independent (carry : Tmp) (ops : List TOp) :
    tassemble true carry ops = tassemble true ⟨0, []⟩ ops := rfl

example : tassemble true ⟨5, [4, 3, 2]⟩ [.refBack 0, .defBack, .refBack 0] = [none, some 0, some 0] := by decide

/-- proved negation: without the depth reset a reference before the file's first `-` label is expanded from the predecessor's
backlog - to number 0, which the file's own first label gets LATER -/
theorem C18_carry_finding_tmp_depth_leaks :
    ∃ carry ops, tassemble false carry ops ≠ tassemble false ⟨0, []⟩ ops ∧
      tassemble false carry ops = [some 0, some 0] ∧ tassemble false ⟨0, []⟩ ops = [none, some 0] :=
  ⟨⟨1, [0]⟩, [.refBack 0, .defBack], by decide⟩

/-! ## Model 2: a keyword the target occupies (`ShiftIsOccupied`; `SetCPUCore`, the dispatcher `Memo(ShiftIsOccupied ? "SHFT" : "SHIFT")`) -/

inductive KStmt where
  | cpu (occupiesShift : Bool)   -- CPU statement; `true` for a target whose switch function sets ShiftIsOccupied
  | shift                        -- the statement SHIFT inside a macro body
  | shft
deriving Repr, DecidableEq

/-- `SetCPUCore`: reset line (if present), then the switch function of the new target -/
def setCPU (reset : Bool) (occ : Bool) (target : Bool) : Bool := (if reset then false else occ) || target

/-- observation per statement: is it handled by the macro processor (`true`) or handed to the code generator -/
def krun (reset : Bool) (occ : Bool) : List KStmt → List Bool
  | [] => []
  | .cpu t :: r => krun reset (setCPU reset occ t) r
  | .shift :: r => (!occ) :: krun reset occ r
  | .shft :: r => occ :: krun reset occ r

/-- a file: AssembleFile_InitPass selects the default target (no keyword occupied) through `SetCPUCore`, then the statements -/
def kassemble (reset : Bool) (carry : Bool) (ops : List KStmt) : List Bool := krun reset (setCPU reset carry false) ops

theorem C18_carry_kw_independent (carry : Bool) (ops : List KStmt) : kassemble true carry ops = kassemble true false ops := rfl

example : kassemble true true [.shift, .cpu true, .shift, .shft, .cpu false, .shift] = [true, false, true, true] := by decide

/-- proved negation: without the reset a target selected by an earlier file keeps the keyword occupied for every later file -/
theorem C18_carry_finding_kw_leaks : ∃ ops, kassemble false true ops ≠ kassemble false false ops := ⟨[.shift], by decide⟩

/-- ... and inside one file after switching away from that target -/
theorem C18_carry_finding_kw_leaks_in_file :
    krun false false [.cpu true, .cpu false, .shift] = [false] ∧ krun true false [.cpu true, .cpu false, .shift] = [true] := by decide

end Carry
end AslModel.C18
