import AslModel.Lemmas.M68kOpnd
import AslModel.Lemmas.M6809Pcr
import AslModel.Lemmas.M740Bbs
/-!
# C01, part "operand positions" (MODEL `Model/M68kOpnd.lean`, SPEC `Spec/OperandPos.lean`)

"Every use of a symbol encodes the value the symbol finally has" for the PC-relative operands of the 68000 family -
including the instructions that put words between the operation word and the operand's extension words (bit number,
register mask, immediate data, coprocessor command word, bit-field descriptor ...).  `code68k.c` keeps the byte offset of
the operand's extension word in the static `RelPos`, every decode function has to set it before it calls `DecodeAdr`;
`DecodeAdr` encodes `value - (EProgCounter() + RelPos)`.  The M68000 manual defines the operand address as "address of
the extension word + displacement".

`C01_opnd_m68k_pcrel_resolved`: for every family, every instruction class of the model, every PC-relative operand form
(d16, brief word with index, 16/32-bit base displacement, memory indirect pre/post-indexed with any outer displacement,
with or without a length attribute on the displacement),
every instruction address and every symbol value: if the model assembles the instruction, then the manual's decoder,
applied to the bytes, finds a PC-relative operand that stands for exactly the symbol's value.
`C01_opnd_m68k_relpos_is_operand_offset`: the `RelPos` of every decode function is the byte offset at which
`CopyAdrVals` / `CodeLen` place the operand's first extension word.
`C01_opnd_m68k_relpos_matters`: the theorem is about `RelPos`: with any other value the decoded address misses the symbol
by exactly the difference.
-/
namespace AslModel.C01
open AslModel.Spec.OperandPos AslModel.Model.M68kOpnd AslModel.M68kOpndLemmas

/-- **PC-relative operands encode the final value of their symbol, wherever the operand's extension words lie in the
instruction.**  For every family `f`, instruction class `c` (operand first; bit instruction with register or immediate bit
number; immediate operation of byte/word/long size; one extension word in front: MOVEM, MULx/DIVx.L, CALLM, CMP2/CHK2, TBL,
bit field, FPU), PC-relative form `ea`, instruction address `epc` and symbol value `value`: whenever the model assembles
the instruction to the words `ws`, the decoder written from the M68000 manual finds in the bytes of `ws` a PC-relative
operand whose address is `value`, and the field lies at or behind the offset `RelPos`. -/
theorem C01_opnd_m68k_pcrel_resolved (f : Family) (c : Cls) (ea : EAForm) (epc value : Int) (ws : List Nat)
    (hc : Cls.wf c) (hea : EAForm.wf ea) (hpc : EAForm.isPC ea)
    (h0 : 0 ≤ epc) (hv0 : 0 ≤ value) (hv1 : value < 4294967296)
    (h : encode f c epc value ea = .ok ws) :
    ∃ r, M68k.decode epc.toNat (bytesOf ws) = some r ∧ r.value = value.toNat ∧ r.pcrel = true ∧
      c.relPos ≤ r.pos ∧ r.pos ≤ c.relPos + 2 := by
  cases ea with
  | pc len => exact pc_case f c len epc value ws hc h0 hv0 hv1 h
  | pcIdx x len => exact pcIdx_case f c x len epc value ws hc hea h0 hv0 hv1 h
  | pcInd x post od len => exact pcInd_case f c x post od len epc value ws hc hea h0 hv0 hv1 h
  | abs => exact absurd hpc (by simp [EAForm.isPC])

/-- non-vacuity: `btst #3,lab(pc)` at $1002 with `lab` = $1000 on a 68000 assembles (to `083A 0003 FFFA`) -/
example : encode .gen1 (.bitsImm 0 3) 0x1002 0x1000 (.pc none) = .ok [0x083a, 0x0003, 0xfffa] := by rfl

example : Cls.wf (.bitsImm 0 3) ∧ EAForm.wf (.pc none) ∧ EAForm.isPC (.pc none) := by simp [Cls.wf, EAForm.wf, EAForm.isPC]

/-- non-vacuity, memory indirect with index and 32-bit outer displacement on a 68020 -/
example : ∃ ws, encode .gen2 (.immOp 8 2 0x12345678) 0x2000 0x12000 (.pcInd (some ⟨9, true, 2⟩) true (some 70000) (some 2)) = .ok ws := by
  exact ⟨_, rfl⟩

/-- **`RelPos` is the offset of the operand's extension words**: for every class the value of `RelPos` at the call of
`DecodeAdr` equals 2 (operation word) + 2 x (number of words the decode function stores in front of the operand) - the
place where `CopyAdrVals` puts the operand's first extension word. -/
theorem C01_opnd_m68k_relpos_is_operand_offset (c : Cls) : c.relPos = 2 + 2 * c.head.2.length :=
  relPos_eq c

/-- **The theorem is about `RelPos`**: had `DecodeAdr` been called with another value `rp` of `RelPos` (e.g. the 2 that
`MakeCode_68K` leaves, for an instruction with an immediate word in front), the manual's decoder would find an operand
that misses the symbol by exactly `c.relPos - rp` - for `d16(PC)` operands of every class. -/
theorem C01_opnd_m68k_relpos_matters (f : Family) (c : Cls) (rp : Nat) (epc value : Int) (r0 : AdrResult) (hc : Cls.wf c)
    (h0 : 0 ≤ epc) (hv0 : 0 ≤ value) (hrp : rp ≤ c.relPos) (hv1 : value + c.relPos < 4294967296)
    (hmode : r0.mode = 0x3a)
    (h : decodeAdr f rp epc value (.pc none) = .ok r0) :
    ∃ r, M68k.decode epc.toNat (bytesOf ((c.head.1 + r0.mode) :: c.head.2 ++ r0.vals)) = some r ∧
      (r.value : Int) = value + ((c.relPos : Int) - rp) := by
  obtain ⟨h1, h2, h3, h4⟩ := head_pre c hc
  have hrel := relPos_eq c
  simp only [decodeAdr] at h
  by_cases hlen : pcLen f none (value - (epc + ↑rp)) = 1
  · rw [if_pos hlen] at h
    by_cases hd : isDisp16 (value - (epc + ↑rp)) = true
    · simp only [hd, Bool.not_true, Bool.false_eq_true, if_false] at h
      injection h with h
      subst h
      rw [decode_encoded c hc _ 0x3a (Or.inl rfl)]
      have hw := operand_word c 0x3a [lo16 (value - (epc + ↑rp))] 0 _ rfl (lo16_lt _)
      obtain ⟨r, hr, hval, hpcr, hpos, _⟩ := ea_d16 epc.toNat (2 + 2 * c.head.2.length) (c.head.1 + 0x3a) _ _ (by omega) (by omega) hw
      refine ⟨r, hr, ?_⟩
      rw [hval, sx16_lo16 _ ((isDisp16_iff _).1 hd).1 ((isDisp16_iff _).1 hd).2]
      unfold wrap32
      omega
    · simp [hd] at h
  · rw [if_neg hlen] at h
    by_cases hE : f.extAddr = true
    · simp only [hE, Bool.not_true, Bool.false_eq_true, if_false] at h
      injection h with h
      subst h
      simp at hmode
    · simp [hE] at h

/-- the seeded shape: `btst #n,lab(pc)` encoded with the `RelPos` of an instruction without bit-number word addresses `lab + 2` -/
example : ∃ r, M68k.decode 0x1002 (bytesOf [0x083a, 0x0003, 0xfffc]) = some r ∧ r.value = 0x1002 := by
  exact ⟨_, rfl, rfl⟩

/-! ## 6809 / 6309: `n,PCR` behind prebytes and immediate bytes (MODEL `Model/M6809Pcr.lean`) -/

/-- **`n,PCR` operands encode the final value of their symbol, whatever stands in front of the postbyte.**  For every
instruction head the model knows (opcode; page-2/3 prebyte and opcode; HD6309 OIM/AIM/EIM/TIM opcode and immediate byte),
direct or indirect form, automatic / forced 8-bit / forced 16-bit offset, every instruction address and every symbol
value: whenever the model assembles the instruction, the decoder written from the MC6809/HD6309 manuals finds a
PC-relative indexed operand at the byte behind the head whose address is the symbol's value (mod 2^16). -/
theorem C01_opnd_6809_pcr_resolved (h6309 : Bool) (h : Model.M6809Pcr.Head) (ind : Bool) (zm : Model.M6809Pcr.ZeroMode)
    (epc value : Int) (bs : List Nat) (hw : M6809PcrLemmas.Head.wf h6309 h) (h0 : 0 ≤ epc)
    (he : Model.M6809Pcr.encode h ind zm epc value = .ok bs) :
    ∃ r, M6809.decode epc.toNat bs h6309 = some r ∧ r.value = (value % 65536).toNat ∧ r.pcrel = true ∧
      r.pos = h.opcodeLen + 1 :=
  M6809PcrLemmas.pcr_resolved h6309 h ind zm epc value bs hw h0 he

/-- non-vacuity: `aim #$3f,m1,pcr` at $116A with `m1` = $1038 on a 6309 (`62 3F 8D FE C9`) -/
example : Model.M6809Pcr.encode (.imm 0x62 0x3f) false .auto 0x116a 0x1038 = .ok [0x62, 0x3f, 0x8d, 0xfe, 0xc9] := by rfl

example : M6809PcrLemmas.Head.wf true (.imm 0x62 0x3f) := by simp [M6809PcrLemmas.Head.wf]

/-! ## MELPS 740: `BBC/BBS bit,zp,rel`, also directly behind CLI/SEI (MODEL `Model/M740Bbs.lean`) -/

/-- the bit branch with a zero-page operand encodes its target: the displacement byte lies behind operation code and
zero-page address and counts from the end of the three-byte instruction -/
theorem C01_opnd_740_bbs_resolved (code bit z : Nat) (epc target : Int) (stale : List Nat) (hc : code = 3 ∨ code = 19)
    (h0 : 0 ≤ epc) (ht0 : 0 ≤ target) (ht1 : target < 65536)
    (h1 : -128 ≤ target - (epc + 2 + 1 + 0)) (h2 : target - (epc + 2 + 1 + 0) ≤ 127) :
    ∃ zr r, M65.decode epc.toNat (Model.M740Bbs.encode code bit (some z) epc target false stale) 1 = some [zr, r] ∧
      r.value = target.toNat ∧ r.pcrel = true ∧ r.pos = 2 ∧ zr.value = z ∧ zr.pos = 1 := by
  have hop : (bit * 32 + code + 4) % 32 = 7 ∨ (bit * 32 + code + 4) % 32 = 23 := by omega
  simp [Model.M740Bbs.encode, Model.M740Bbs.encodeWith, M65.decode, hop]
  refine ⟨_, _, ⟨rfl, rfl⟩, ?_, rfl, rfl, rfl, rfl⟩
  show wrap16 (max epc 0 + 3 + sx8 (Model.M740Bbs.rel8 (target - (epc + 2 + 1)))) = target.toNat
  rw [M740BbsLemmas.sx8_rel8 _ (by omega) (by omega)]
  unfold wrap16
  omega

/-- with the intended `InsNOP` the branch behind CLI/SEI is a NOP followed by the very branch an instruction address one
higher gives (so `C01_opnd_740_bbs_resolved` applies to it) -/
theorem C01_opnd_740_bbs_behind_cli_intended (code bit z : Nat) (epc target : Int) (stale : List Nat) :
    Model.M740Bbs.encodeIntended code bit (some z) epc target true stale =
      0xEA :: Model.M740Bbs.encode code bit (some z) (epc + 1) target false stale := by
  simp [Model.M740Bbs.encodeIntended, Model.M740Bbs.encode, Model.M740Bbs.encodeWith, Model.M740Bbs.insNOPIntended]
  congr 2
  omega

/-- **Finding (pinned tree)**: `InsNOP` copies in the wrong direction.  Behind CLI/SEI the bit branch with a zero-page
operand is emitted as NOP, displacement byte, and twice the byte that happened to follow in `BAsmCode` - operation code and
zero-page address are gone (known finding `m740-inserted-nop-overwrites-instruction`); the accumulator form loses its
displacement as well. -/
theorem C01_finding_m740_insnop (code bit z : Nat) (epc target : Int) (s0 : Nat) (stale : List Nat) :
    Model.M740Bbs.encode code bit (some z) epc target true (s0 :: stale) =
      [0xEA, Model.M740Bbs.rel8 (target - (epc + 2 + 1 + 1)), s0, s0] ∧
    Model.M740Bbs.encode code bit none epc target true (s0 :: stale) = [0xEA, s0, s0] := by
  constructor <;> simp [Model.M740Bbs.encode, Model.M740Bbs.encodeWith, Model.M740Bbs.insNOP, Model.M740Bbs.moveDown]

/-- the witness of the finding as the real assembler produces it: `sei / bbs 3,$20,m4` with `m4` = $1006 -/
example : Model.M740Bbs.encode 3 3 (some 0x20) 0x1001 0x1006 true [0x74, 0x74] = [0xEA, 0x01, 0x74, 0x74] := by rfl

end AslModel.C01
